import QV.Model.Scalar
import QV.Model.Rbm
import QV.Model.Hilbert
import QV.Model.States
import QV.Real
import QV.Lemmas.Basic
