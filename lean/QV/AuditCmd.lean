/-
QV.AuditCmd — `#audit_props "C01"` prints, for every theorem `QV.Props.C01_*` in the
environment, the axioms its proof depends on:  `AUDIT <name> : ax1 ax2 ...`
(parsed by harness/common.py; anything outside {propext, Classical.choice, Quot.sound}
— in particular sorryAx or a native_decide/bv_decide axiom — fails the audit).
-/
import Lean
open Lean Elab Command

elab "#audit_props " pid:str : command => do
  let env ← getEnv
  let pfx := pid.getString ++ "_"
  let mut names : Array Name := #[]
  for (n, ci) in env.constants.toList do
    if (`QV.Props).isPrefixOf n then
      match n with
      | .str _ s =>
        if s.startsWith pfx then
          match ci with
          | .thmInfo _ => names := names.push n
          | _ => pure ()
      | _ => pure ()
  let sorted := names.qsort (fun a b => a.toString < b.toString)
  for n in sorted do
    let axs ← liftCoreM (collectAxioms n)
    let s := " ".intercalate (axs.toList.map (·.toString))
    IO.println s!"AUDIT {n} : {s}"
