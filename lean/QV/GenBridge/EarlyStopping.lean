/-
QV.GenBridge.EarlyStopping — the definitions GENERATED from the source of `EarlyStopping` (`_change_in_metric`,
`_relative_change`, `_absolute_change`, `_variance_scaled_abs_change`, `on_epoch_end`; QV/Gen/EarlyStopping.lean,
tools/py2lean.py) compute what the hand-written model `QV.Cb.EarlyStopping.deviation` / `.onEpochEnd` (the definitions all
C18 theorems and the driver use) computes — including the degenerate quotients (zero reference, zero / negative variance),
which both sides represent by the non-finite value `none`.
-/
import Mathlib.Tactic.Ring
import QV.Gen.EarlyStopping
import QV.Model.EarlyStop
import QV.Lemmas.Gen

namespace QV.Props
open QV.Gen QV.Cb

/-- a getter result as the generated code sees it: the float value (the Python kind `float` / `numpy.float64` is not
part of the generated code); a raised exception has no value -/
def numFl (r : Except PyErr (Num ℝ)) : Fl ℝ :=
  match r with
  | .ok v => some v.x
  | .error _ => none

/-- the value of a deviation without its Python kind -/
def devFl (d : Option (Num ℝ)) : Fl ℝ := d.map Num.x

/-- the generated deviation formula of a criterion (the `convergence_criteria` table is not translated: the dispatch
is the model's) -/
noncomputable def genDeviation {W : Type} (es : EarlyStopping ℝ) (ev : AnyEval W ℝ) : Fl ℝ :=
  match es.criterion with
  | .relative => Gen.EarlyStopping.relativeChange (fun i => numFl (ev.value es.quantityName i)) es.patience
  | .absolute => Gen.EarlyStopping.absoluteChange (fun i => numFl (ev.value es.quantityName i)) es.patience
  | .variance => Gen.EarlyStopping.varianceScaledAbsChange (fun i => numFl (ev.value es.quantityName i))
      (fun i => numFl (ev.variance es.quantityName i)) es.patience

/-- **bridge C18 (deviations)**: whenever the getters return (reference value, current value and — for the variance
criterion — reference variance), for EVERY value incl. a zero reference and a zero or negative variance, the model's
deviation is the value of the formula translated from the Python source, and the model does not raise. -/
theorem C18_gen_deviation_eq_model {W : Type} (es : EarlyStopping ℝ) (ev : AnyEval W ℝ) (ref cur var : Num ℝ)
    (href : ev.value es.quantityName (some (-es.patience - 1)) = .ok ref)
    (hcur : ev.value es.quantityName none = .ok cur)
    (hvar : es.criterion = .variance → ev.variance es.quantityName (some (-es.patience - 1)) = .ok var) :
    ∃ d, es.deviation ev = .ok d ∧ devFl d = genDeviation es ev := by
  -- the lookback index may be written in any form (`-p - 1`, `-(p + 1)`, a local): `omega` identifies it
  have hidx : ∀ j : Int, j = -es.patience - 1 → ev.value es.quantityName (some j) = .ok ref := fun j hj => hj ▸ href
  unfold Cb.EarlyStopping.deviation genDeviation
  cases hc : es.criterion
  · -- relative
    by_cases h0 : ref.x = 0 <;>
      simp (disch := omega) [Cb.EarlyStopping.relativeChange, Cb.EarlyStopping.changeInMetric, Gen.EarlyStopping.relativeChange,
        Gen.EarlyStopping.changeInMetric, hidx, hcur, numFl, devFl, Num.npDivide, Num.sub, Num.abs, h0]
  · -- absolute
    simp (disch := omega) [Cb.EarlyStopping.absoluteChange, Cb.EarlyStopping.changeInMetric, Gen.EarlyStopping.absoluteChange,
      Gen.EarlyStopping.changeInMetric, hidx, hcur, numFl, devFl, Num.sub, Num.abs]
  · -- variance
    have hv := hvar hc
    have hvidx : ∀ j : Int, j = -es.patience - 1 → ev.variance es.quantityName (some j) = .ok var := fun j hj => hj ▸ hv
    by_cases hneg : var.x < 0
    · simp (disch := omega) [Cb.EarlyStopping.varianceScaledAbsChange, Cb.EarlyStopping.changeInMetric,
        Gen.EarlyStopping.varianceScaledAbsChange, Gen.EarlyStopping.changeInMetric, hidx, hcur, hvidx, numFl, devFl, Num.npSqrt,
        Num.sub, Num.abs, hneg]
    · by_cases h0 : Real.sqrt var.x = 0 <;>
        simp (disch := omega) [Cb.EarlyStopping.varianceScaledAbsChange, Cb.EarlyStopping.changeInMetric,
          Gen.EarlyStopping.varianceScaledAbsChange, Gen.EarlyStopping.changeInMetric, hidx, hcur, hvidx, numFl, devFl, Num.npSqrt,
          Num.sub, Num.abs, Num.div, hneg, h0]

/-- **bridge C18 (gates)**: for a non-zero period and a finite tolerance, `on_epoch_end` of the model (period gate, length
gate `len > patience`, `deviation < tolerance`, the two attribute writes) is the function translated from the Python
source, applied to the value of the model's deviation. -/
theorem C18_gen_on_epoch_end_eq_model {W : Type} (es : EarlyStopping ℝ) (ev : AnyEval W ℝ) (st : StopState) (e : Int) (t : ℝ)
    (d : Option (Num ℝ)) (hper : es.period ≠ 0) (htol : es.tolerance = some t) (hdev : es.deviation ev = .ok d) :
    es.onEpochEnd ev st e
      = .ok ⟨(Gen.EarlyStopping.onEpochEnd e es.patience es.period (some t) (ev.len : Int) (devFl d) st.stop st.lastEpoch).1,
             (Gen.EarlyStopping.onEpochEnd e es.patience es.period (some t) (ev.len : Int) (devFl d) st.stop st.lastEpoch).2⟩ := by
  unfold Cb.EarlyStopping.onEpochEnd Gen.EarlyStopping.onEpochEnd
  simp only [gate, pyMod, hper, if_false, hdev, htol]
  by_cases hg : Int.fmod e es.period = 0 <;> by_cases hl : es.patience < (ev.len : Int) <;> cases d <;>
    simp [hg, hl, devFl, belowTol]
  all_goals (try split) <;> simp_all

end QV.Props
