/-
QV.GenBridge.EarlyStopping — the definitions GENERATED from the source of `EarlyStopping` (`_change_in_metric`,
`_relative_change`, `_absolute_change`, `_variance_scaled_abs_change`, `on_epoch_end`; QV/Gen/EarlyStopping.lean,
tools/py2lean.py) compute what the hand-written model `QV.Cb.EarlyStopping.deviation` / `.onEpochEnd` (the definitions all
C18 theorems and the driver use) computes — including the degenerate quotients (zero reference, zero / negative variance),
which both sides represent by the non-finite value `none`.
-/
import Mathlib.Tactic.Ring
import QV.Gen.EarlyStopping
import QV.Model.EarlyStop
import QV.Lemmas.Gen

namespace QV.Props
open QV.Gen QV.Cb

/-- a getter result as the generated code sees it: the float value (the Python kind `float` / `numpy.float64` is not
part of the generated code); a raised exception has no value -/
def numFl (r : Except PyErr (Num ℝ)) : Fl ℝ :=
  match r with
  | .ok v => some v.x
  | .error _ => none

/-- the value of a deviation without its Python kind -/
def devFl (d : Option (Num ℝ)) : Fl ℝ := d.map Num.x

/-- the generated deviation formula of a criterion (the `convergence_criteria` table is not translated: the dispatch
is the model's) -/
noncomputable def genDeviation {W : Type} (es : EarlyStopping ℝ) (ev : AnyEval W ℝ) : Fl ℝ :=
  match es.criterion with
  | .relative => Gen.EarlyStopping.relativeChange (fun i => numFl (ev.value es.quantityName i)) es.patience
  | .absolute => Gen.EarlyStopping.absoluteChange (fun i => numFl (ev.value es.quantityName i)) es.patience
  | .variance => Gen.EarlyStopping.varianceScaledAbsChange (fun i => numFl (ev.value es.quantityName i))
      (fun i => numFl (ev.variance es.quantityName i)) es.patience

/-- **bridge C18 (deviations)**: whenever the getters return (reference value, current value and — for the variance
criterion — reference variance), for EVERY value incl. a zero reference and a zero or negative variance, the model's
deviation is the value of the formula translated from the Python source, and the model does not raise. -/
theorem C18_gen_deviation_eq_model {W : Type} (es : EarlyStopping ℝ) (ev : AnyEval W ℝ) (ref cur var : Num ℝ)
    (href : ev.value es.quantityName (some (-es.patience - 1)) = .ok ref)
    (hcur : ev.value es.quantityName none = .ok cur)
    (hvar : es.criterion = .variance → ev.variance es.quantityName (some (-es.patience - 1)) = .ok var) :
    ∃ d, es.deviation ev = .ok d ∧ devFl d = genDeviation es ev := by
  -- the lookback index may be written in any form (`-p - 1`, `-(p + 1)`, a local): `omega` identifies it
  have hidx : ∀ j : Int, j = -es.patience - 1 → ev.value es.quantityName (some j) = .ok ref := fun j hj => hj ▸ href
  unfold Cb.EarlyStopping.deviation genDeviation
  cases hc : es.criterion
  · -- relative
    by_cases h0 : ref.x = 0 <;>
      simp (disch := omega) [Cb.EarlyStopping.relativeChange, Cb.EarlyStopping.changeInMetric, Gen.EarlyStopping.relativeChange,
        Gen.EarlyStopping.changeInMetric, hidx, hcur, numFl, devFl, Num.npDivide, Num.sub, Num.abs, h0]
  · -- absolute
    simp (disch := omega) [Cb.EarlyStopping.absoluteChange, Cb.EarlyStopping.changeInMetric, Gen.EarlyStopping.absoluteChange,
      Gen.EarlyStopping.changeInMetric, hidx, hcur, numFl, devFl, Num.sub, Num.abs]
  · -- variance
    have hv := hvar hc
    have hvidx : ∀ j : Int, j = -es.patience - 1 → ev.variance es.quantityName (some j) = .ok var := fun j hj => hj ▸ hv
    by_cases hneg : var.x < 0
    · simp (disch := omega) [Cb.EarlyStopping.varianceScaledAbsChange, Cb.EarlyStopping.changeInMetric,
        Gen.EarlyStopping.varianceScaledAbsChange, Gen.EarlyStopping.changeInMetric, hidx, hcur, hvidx, numFl, devFl, Num.npSqrt,
        Num.sub, Num.abs, hneg]
    · by_cases h0 : Real.sqrt var.x = 0 <;>
        simp (disch := omega) [Cb.EarlyStopping.varianceScaledAbsChange, Cb.EarlyStopping.changeInMetric,
          Gen.EarlyStopping.varianceScaledAbsChange, Gen.EarlyStopping.changeInMetric, hidx, hcur, hvidx, numFl, devFl, Num.npSqrt,
          Num.sub, Num.abs, Num.div, hneg, h0]

/-- **bridge C18 (gates)**: for a non-zero period and a finite tolerance, `on_epoch_end` of the model (period gate, length
gate `len > patience`, `deviation < tolerance`, the two attribute writes) is the function translated from the Python
source, applied to the value of the model's deviation.  NOTE: `hdev` (the deviation returns) can only be met with the length
gate OPEN (`patience < len`: the lookback index is in range), so THIS statement alone does not tie the length gate; the
closed half is `C18_gen_on_epoch_end_gate_closed`, both together without `hdev`: `C18_gen_on_epoch_end_eq_model_total`. -/
theorem C18_gen_on_epoch_end_eq_model {W : Type} (es : EarlyStopping ℝ) (ev : AnyEval W ℝ) (st : StopState) (e : Int) (t : ℝ)
    (d : Option (Num ℝ)) (hper : es.period ≠ 0) (htol : es.tolerance = some t) (hdev : es.deviation ev = .ok d) :
    es.onEpochEnd ev st e
      = .ok ⟨(Gen.EarlyStopping.onEpochEnd e es.patience es.period (some t) (ev.len : Int) (devFl d) st.stop st.lastEpoch).1,
             (Gen.EarlyStopping.onEpochEnd e es.patience es.period (some t) (ev.len : Int) (devFl d) st.stop st.lastEpoch).2⟩ := by
  unfold Cb.EarlyStopping.onEpochEnd Gen.EarlyStopping.onEpochEnd
  simp only [gate, pyMod, hper, if_false, hdev, htol]
  by_cases hg : Int.fmod e es.period = 0 <;> by_cases hl : es.patience < (ev.len : Int) <;> cases d <;>
    simp [hg, hl, devFl, belowTol]
  all_goals (try split) <;> simp_all

/-- **bridge C18 (gates, CLOSED half)**: for a non-zero period, whenever the period gate is closed (`epoch` is not a
multiple of the stopper's period) or the length gate is closed (`len ≤ patience`: fewer than `patience + 1` evaluations),
BOTH sides leave the stopper state (flag, `last_epoch`) as it was and neither looks at the deviation: the model returns
`st` for EVERY evaluator of that length (incl. those whose getters would raise), the translated `on_epoch_end` returns
the entry values for EVERY tolerance and EVERY deviation value.  Together with `C18_gen_on_epoch_end_eq_model` (whose
hypothesis `hdev` can only be met with the length gate open) this ties the length gate `len > patience` on both sides:
a `≥` gate (or no gate) on either side falsifies this theorem at `len = patience`. -/
theorem C18_gen_on_epoch_end_gate_closed {W : Type} (es : EarlyStopping ℝ) (ev : AnyEval W ℝ) (st : StopState) (e : Int)
    (hper : es.period ≠ 0) (hclosed : Int.fmod e es.period ≠ 0 ∨ (ev.len : Int) ≤ es.patience) :
    es.onEpochEnd ev st e = .ok st
    ∧ (∀ ev' : AnyEval W ℝ, ev'.len = ev.len → es.onEpochEnd ev' st e = .ok st)
    ∧ ∀ (tol dAny : Fl ℝ), Gen.EarlyStopping.onEpochEnd e es.patience es.period tol (ev.len : Int) dAny st.stop st.lastEpoch
        = (st.stop, st.lastEpoch) := by
  have key : ∀ ev' : AnyEval W ℝ, ev'.len = ev.len → es.onEpochEnd ev' st e = .ok st := by
    intro ev' hlen
    unfold Cb.EarlyStopping.onEpochEnd
    simp only [gate, pyMod, hper, if_false, hlen]
    have hb : ∀ hg : Int.fmod e es.period ≠ 0, (Int.fmod e es.period == 0) = false := fun hg => by simpa using hg
    rcases hclosed with hg | hl
    · simp [hb hg]
    · by_cases hg : Int.fmod e es.period = 0
      · have : ¬ es.patience < (ev.len : Int) := by omega
        simp [hg, this]
      · simp [hb hg]
  refine ⟨key ev rfl, key, ?_⟩
  intro tol dAny
  unfold Gen.EarlyStopping.onEpochEnd
  rcases hclosed with hg | hl
  · simp [hg]
  · have : ¬ es.patience < (ev.len : Int) := by omega
    simp [this]

/-- a deviation that returns has read its getters: reference value, current value and (variance criterion) the
reference variance all returned -/
theorem deviation_ok_getters {W : Type} (es : EarlyStopping ℝ) (ev : AnyEval W ℝ) (d : Option (Num ℝ))
    (hdev : es.deviation ev = .ok d) :
    ∃ ref cur var : Num ℝ, ev.value es.quantityName (some (-es.patience - 1)) = .ok ref
      ∧ ev.value es.quantityName none = .ok cur
      ∧ (es.criterion = .variance → ev.variance es.quantityName (some (-es.patience - 1)) = .ok var) := by
  unfold Cb.EarlyStopping.deviation at hdev
  cases href : ev.value es.quantityName (some (-es.patience - 1)) with
  | error x =>
    cases hc : es.criterion <;>
      simp [hc, Cb.EarlyStopping.relativeChange, Cb.EarlyStopping.absoluteChange, Cb.EarlyStopping.varianceScaledAbsChange,
        Cb.EarlyStopping.changeInMetric, href] at hdev
  | ok ref =>
    cases hcur : ev.value es.quantityName none with
    | error x =>
      cases hc : es.criterion <;>
        simp [hc, Cb.EarlyStopping.relativeChange, Cb.EarlyStopping.absoluteChange, Cb.EarlyStopping.varianceScaledAbsChange,
          Cb.EarlyStopping.changeInMetric, href, hcur] at hdev
    | ok cur =>
      cases hvar : ev.variance es.quantityName (some (-es.patience - 1)) with
      | ok var => exact ⟨ref, cur, var, rfl, rfl, fun _ => rfl⟩
      | error x =>
        refine ⟨ref, cur, ref, rfl, rfl, fun hc => ?_⟩
        simp [hc, Cb.EarlyStopping.varianceScaledAbsChange, Cb.EarlyStopping.changeInMetric, href, hcur, hvar] at hdev

/-- **bridge C18 (gates, total)**: for a non-zero period and a finite tolerance, with NO hypothesis on the evaluator:
whenever the model's `on_epoch_end` returns, its result is the translated `on_epoch_end` applied to the translated
deviation formula (`genDeviation`: the getters of this very evaluator) — with either gate closed as well as with both
open; and the model raises exactly when both gates are open and the deviation (a getter) raises, with that exception
(the generated code has no exceptions: a raising getter has no value there).  A `≥` length gate on either side is
refuted by an evaluator with `len = patience`, a missing gate likewise. -/
theorem C18_gen_on_epoch_end_eq_model_total {W : Type} (es : EarlyStopping ℝ) (ev : AnyEval W ℝ) (st : StopState) (e : Int)
    (t : ℝ) (hper : es.period ≠ 0) (htol : es.tolerance = some t) :
    match es.onEpochEnd ev st e with
    | .ok st' =>
      st' = ⟨(Gen.EarlyStopping.onEpochEnd e es.patience es.period (some t) (ev.len : Int) (genDeviation es ev) st.stop st.lastEpoch).1,
             (Gen.EarlyStopping.onEpochEnd e es.patience es.period (some t) (ev.len : Int) (genDeviation es ev) st.stop st.lastEpoch).2⟩
    | .error err => Int.fmod e es.period = 0 ∧ es.patience < (ev.len : Int) ∧ es.deviation ev = .error err := by
  by_cases hopen : Int.fmod e es.period = 0 ∧ es.patience < (ev.len : Int)
  · cases hdev : es.deviation ev with
    | ok d =>
      obtain ⟨ref, cur, var, href, hcur, hvar⟩ := deviation_ok_getters es ev d hdev
      obtain ⟨d', hd', hgen⟩ := C18_gen_deviation_eq_model es ev ref cur var href hcur hvar
      have hdd : d' = d := by rw [hdev] at hd'; exact (Except.ok.inj hd').symm
      subst hdd
      rw [C18_gen_on_epoch_end_eq_model es ev st e t d' hper htol hdev, hgen]
    | error err =>
      have : es.onEpochEnd ev st e = .error err := by
        unfold Cb.EarlyStopping.onEpochEnd
        simp [gate, pyMod, hper, hopen.1, hopen.2, hdev]
      rw [this]
      exact ⟨hopen.1, hopen.2, rfl⟩
  · have hclosed : Int.fmod e es.period ≠ 0 ∨ (ev.len : Int) ≤ es.patience := by
      by_cases hg : Int.fmod e es.period = 0
      · right; have := fun h => hopen ⟨hg, h⟩; omega
      · left; exact hg
    obtain ⟨h1, _, h3⟩ := C18_gen_on_epoch_end_gate_closed es ev st e hper hclosed
    rw [h1]
    simp [h3]

end QV.Props
