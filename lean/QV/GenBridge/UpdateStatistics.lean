/-
QV.GenBridge.UpdateStatistics — the definition GENERATED from the source of `_update_statistics`
(QV/Gen/UpdateStatistics.lean, tools/py2lean.py) computes, for every input, what the hand-written model
`QV.Stats.updateStatistics` (the definition all C13 theorems and the driver use) computes.

The proof does not follow the shape of the generated term: it splits the two lengths into 0 / 1 / ≥ 2 and the two
variances into nan / finite, evaluates every guard, and closes the remaining equations between field expressions with
`field_simp; ring` — an algebraically equal rewrite of the Python re-proves, a changed formula does not.
-/
import Mathlib.Tactic.FieldSimp
import Mathlib.Tactic.Ring
import Mathlib.Tactic.Linarith
import QV.Gen.UpdateStatistics
import QV.Model.Stats
import QV.Lemmas.Gen

namespace QV.Props
open QV.Gen

theorem eq_false_of_pos_real {x : ℝ} (h : 0 < x) : (x = 0) = False := eq_false (ne_of_gt h)
theorem eq_false_of_pos_int {x : Int} (h : 0 < x) : (x = 0) = False := eq_false (ne_of_gt h)
theorem lt_eq_true_int {a b : Int} (h : a < b) : (a < b) = True := eq_true h
theorem lt_eq_false_int {a b : Int} (h : ¬ a < b) : (a < b) = False := eq_false h
theorem lt_eq_true_nat {a b : ℕ} (h : a < b) : (a < b) = True := eq_true h
theorem lt_eq_false_nat {a b : ℕ} (h : ¬ a < b) : (a < b) = False := eq_false h

/-- discharger of the side conditions: integer facts by `omega`, positivity of a real expression in casts of naturals by
`positivity`, or (after a `- 1`) by `linarith` from the non-negativity of the casts in the context -/
local macro "gen_disch" : tactic => `(tactic| first | omega | positivity | linarith)

/-- a result triple of the model as the generated code represents it (`nan` = `none`, lengths as Python ints) -/
def genTriple (r : ℝ × Option ℝ × ℕ) : Fl ℝ × Fl ℝ × Int := (some r.1, r.2.1, (r.2.2 : Int))

/-- the case analysis shared by the three length cases of the left operand: the right length is 0 / 1 / ≥ 2, each
variance nan / finite; every guard is evaluated, every divisor shown non-zero, the rest is field arithmetic -/
local macro "gen_update_cases" n:ident m:ident varA:ident varB:ident : tactic => `(tactic|
  (all_goals try have hn : (0 : ℝ) ≤ ($n : ℝ) := Nat.cast_nonneg $n
   all_goals try have hm : (0 : ℝ) ≤ ($m : ℝ) := Nat.cast_nonneg $m
   all_goals cases $varA:ident <;> cases $varB:ident <;>
     simp (disch := gen_disch) [UpdateStatistics.updateStatistics, Stats.updateStatistics, Stats.scaledVar, Stats.oadd, genTriple,
       eq_false_of_pos_real, eq_false_of_pos_int, ← add_assoc, lt_eq_true_int, lt_eq_false_int, lt_eq_true_nat,
       lt_eq_false_nat]
   all_goals (try field_simp (disch := gen_disch))
   all_goals (try ring)
   all_goals (try simp only [and_true, true_and, Option.some.injEq, Prod.mk.injEq])
   all_goals (try gen_disch)))

set_option linter.unusedSimpArgs false
set_option linter.unusedTactic false
set_option linter.unreachableTactic false

theorem gen_update_eq_model_len0 (avgA : ℝ) (varA : Option ℝ) (avgB : ℝ) (varB : Option ℝ) (lenB : ℕ) :
    UpdateStatistics.updateStatistics (some avgA) varA ((0 : ℕ) : Int) (some avgB) varB (lenB : Int)
      = genTriple (Stats.updateStatistics avgA varA 0 avgB varB lenB) := by
  rcases lenB with _ | _ | m
  gen_update_cases n m varA varB

theorem gen_update_eq_model_len1 (avgA : ℝ) (varA : Option ℝ) (avgB : ℝ) (varB : Option ℝ) (lenB : ℕ) :
    UpdateStatistics.updateStatistics (some avgA) varA ((1 : ℕ) : Int) (some avgB) varB (lenB : Int)
      = genTriple (Stats.updateStatistics avgA varA 1 avgB varB lenB) := by
  rcases lenB with _ | _ | m
  gen_update_cases n m varA varB

theorem gen_update_eq_model_len2 (avgA : ℝ) (varA : Option ℝ) (n : ℕ) (avgB : ℝ) (varB : Option ℝ) (lenB : ℕ) :
    UpdateStatistics.updateStatistics (some avgA) varA ((n + 1 + 1 : ℕ) : Int) (some avgB) varB (lenB : Int)
      = genTriple (Stats.updateStatistics avgA varA (n + 1 + 1) avgB varB lenB) := by
  rcases lenB with _ | _ | m
  gen_update_cases n m varA varB

/-- **bridge C13** for ALL means, variances (finite or nan) and lengths: the translation of the Python source of
`_update_statistics` equals the model's `updateStatistics`; in particular no quotient of the source has a zero divisor
(the generated `/` would then return the non-finite value, the model's a number). -/
theorem C13_gen_update_eq_model (avgA : ℝ) (varA : Option ℝ) (lenA : ℕ) (avgB : ℝ) (varB : Option ℝ) (lenB : ℕ) :
    UpdateStatistics.updateStatistics (some avgA) varA (lenA : Int) (some avgB) varB (lenB : Int)
      = genTriple (Stats.updateStatistics avgA varA lenA avgB varB lenB) := by
  rcases lenA with _ | _ | n
  · exact gen_update_eq_model_len0 avgA varA avgB varB lenB
  · exact gen_update_eq_model_len1 avgA varA avgB varB lenB
  · exact gen_update_eq_model_len2 avgA varA n avgB varB lenB

/-- a concrete instance: a chunk of 3 values merged with a one-value chunk whose variance is nan -/
example : UpdateStatistics.updateStatistics (some (1 : ℝ)) (some 2) 3 (some 4) none 1
    = genTriple (Stats.updateStatistics 1 (some 2) 3 4 none 1) :=
  C13_gen_update_eq_model 1 (some 2) 3 4 none 1

end QV.Props
