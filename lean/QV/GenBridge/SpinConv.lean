/-
QV.GenBridge.SpinConv — the definitions GENERATED from the source of `to_pm1` / `to_01`
(qucumber/observables/utils.py; QV/Gen/SpinConv.lean, tools/py2lean.py) against the hand-written model
`QV.toPm1` (QV/Model/Observables.lean), which every C08 observable is built on.
-/
import Mathlib.Tactic.Ring
import Mathlib.Tactic.NormNum
import QV.Gen.SpinConv
import QV.Model.Observables
import QV.Lemmas.Gen

namespace QV.Props
open QV.Gen

/-- **bridge C08**: the translation of the Python source of `to_pm1` is the model's `toPm1`, for every real entry. -/
theorem C08_gen_to_pm1_eq_model (x : ℝ) : SpinConv.toPm1 (some x) = some (QV.toPm1 x) := by
  simp only [SpinConv.toPm1, QV.toPm1, two, fint_real, fmul_some, fsub_some, fadd_some, fneg_some, Option.some.injEq]
  push_cast
  ring

/-- the sign convention read off the SOURCE: the translated `to_pm1` sends the entry 0 to −1 and the entry 1 to +1
(`spin b` of the model). -/
theorem C08_gen_spin_convention (b : Bool) :
    SpinConv.toPm1 (some (if b then (1 : ℝ) else 0)) = some (if b then 1 else -1) := by
  cases b <;> simp [SpinConv.toPm1] <;> (try norm_num)

/-- the translated `to_01` inverts the translated `to_pm1` (its divisor 2.0 is not zero). -/
theorem C08_gen_to_01_inverts (x : ℝ) : SpinConv.to01 (SpinConv.toPm1 (some x)) = some x := by
  simp [SpinConv.to01, SpinConv.toPm1]
  try (first | ring | (field_simp; ring))

/-- a concrete instance -/
example : SpinConv.toPm1 (some (1 : ℝ)) = some (QV.toPm1 1) := C08_gen_to_pm1_eq_model 1

end QV.Props
