/-
QV.Gen.Prelude — the (hand-written, Mathlib-free) target language of `tools/py2lean.py`.

The translator maps a small subset of Python (see notes/translator.md) to Lean terms over
 * `Int`                      for Python `int` values (lengths, epochs, periods, indices),
 * `Bool`                     for conditions,
 * `Fl α := Option α`         for Python / numpy floats: `some x` is the finite value `x` of the scalar type `α`
                              (`Float` when executed, `ℝ` in the bridge theorems), `none` is ONE absorbing
                              "non-finite" value standing for nan and ±inf.

Meaning of the float operations (THIS FILE IS PART OF THE TRUSTED BASE of the translator):
 * `+ - * abs` are strict in `none` and otherwise the operations of `α`;
 * `a / b` and `np.divide(a, b)`: `none` if an operand is `none` OR the divisor is zero (numpy: ±inf / nan, a warning
   only), else the quotient.  A `ZeroDivisionError` of plain Python floats is NOT distinguished from this value.
 * `sqrt x`: `none` for `x < 0` (nan), else `Transc.sqrt x`;
 * comparisons with `none` are `False` (exact for nan and for `+inf` on the left of `<`; `-inf` never arises from
   the translated kernels: they only compare an `abs(…)`);
 * `float("nan")` is `none`; `float(i)` / an `int` operand of a float operation is `some (ofInt i)`.
No numerals other than 0 and 1 at `α` (`ofInt` goes through `Transc.ofNat`), as everywhere in QV.Model.
-/
import QV.Model.Scalar

namespace QV.Gen

/-- a Python float: `none` = non-finite (nan / ±inf) -/
abbrev Fl (α : Type) := Option α

section
variable {α : Type} [Add α] [Mul α] [Neg α] [Sub α] [Div α] [Zero α] [One α] [BEq α] [LT α] [DecidableLT α] [Transc α]

/-- `float(i)` for a Python int -/
def ofInt (i : Int) : α :=
  match i with
  | .ofNat n => Transc.ofNat n
  | .negSucc n => -(Transc.ofNat (n + 1))

/-- an int used where a float is expected -/
def fint (i : Int) : Fl α := some (ofInt i)

/-- strict lifting of a binary operation -/
def fbin (f : α → α → α) : Fl α → Fl α → Fl α
  | some x, some y => some (f x y)
  | _, _ => none

def fadd (a b : Fl α) : Fl α := fbin (· + ·) a b
def fsub (a b : Fl α) : Fl α := fbin (· - ·) a b
def fmul (a b : Fl α) : Fl α := fbin (· * ·) a b
def fneg (a : Fl α) : Fl α := a.map (fun x => -x)
def fabs (a : Fl α) : Fl α := a.map Transc.abs

/-- `a / b`, `np.divide(a, b)`: a zero divisor gives a non-finite value -/
def fdiv : Fl α → Fl α → Fl α
  | some x, some y => if (y == 0) = true then none else some (x / y)
  | _, _ => none

/-- `np.sqrt`, `math.sqrt`, `torch.sqrt`: nan for a negative argument -/
def fsqrt : Fl α → Fl α
  | some x => if x < 0 then none else some (Transc.sqrt x)
  | none => none

/-- `a < b` on floats: False when an operand is non-finite -/
def flt : Fl α → Fl α → Bool
  | some x, some y => decide (x < y)
  | _, _ => false

/-- `a > b` -/
def fgt (a b : Fl α) : Bool := flt b a

/-- `a == b` on floats: False when an operand is non-finite -/
def feq : Fl α → Fl α → Bool
  | some x, some y => x == y
  | _, _ => false

end
end QV.Gen
