/-
QV.Real — the real-number instantiation of the model's numeric interface.
THIS INSTANCE IS THE STATED MEANING of the floating-point operations in the code
(trusted base): exp, log, sqrt, cos, sin are Mathlib's real functions,
`atan2 y x := Complex.arg (x + i y)`, max/min/abs the order operations of ℝ.
-/
import Mathlib.Analysis.SpecialFunctions.Log.Basic
import Mathlib.Analysis.SpecialFunctions.Sqrt
import Mathlib.Analysis.SpecialFunctions.Complex.Arg
import QV.Model.Scalar

namespace QV

noncomputable instance instTranscReal : Transc ℝ where
  exp := Real.exp
  log := Real.log
  sqrt := Real.sqrt
  cos := Real.cos
  sin := Real.sin
  atan2 := fun y x => Complex.arg ⟨x, y⟩
  max := max
  min := min
  abs := fun x => |x|
  ofNat := fun n => (n : ℝ)

@[simp] theorem transc_exp (x : ℝ) : Transc.exp x = Real.exp x := rfl
@[simp] theorem transc_log (x : ℝ) : Transc.log x = Real.log x := rfl
@[simp] theorem transc_sqrt (x : ℝ) : Transc.sqrt x = Real.sqrt x := rfl
@[simp] theorem transc_cos (x : ℝ) : Transc.cos x = Real.cos x := rfl
@[simp] theorem transc_sin (x : ℝ) : Transc.sin x = Real.sin x := rfl
@[simp] theorem transc_atan2 (y x : ℝ) : Transc.atan2 y x = Complex.arg ⟨x, y⟩ := rfl
@[simp] theorem transc_max (x y : ℝ) : Transc.max x y = max x y := rfl
@[simp] theorem transc_min (x y : ℝ) : Transc.min x y = min x y := rfl
@[simp] theorem transc_abs (x : ℝ) : Transc.abs x = |x| := rfl
@[simp] theorem transc_ofNat (n : ℕ) : (Transc.ofNat n : ℝ) = (n : ℝ) := rfl

end QV
