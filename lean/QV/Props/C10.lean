/-
C10 — Fidelity, KL divergence and NLL report the quantities they are named for.

"For every model state and target, the fidelity equals the squared overlap (pure) or Uhlmann fidelity
(mixed) of the normalised states, lies in [0,1], is 1 against the model's own state and is unchanged by a
global phase of a pure target; the KL divergence equals the mean over the requested bases of the
Kullback-Leibler divergence between target and model Born distributions, is non-negative and vanishes
against the model's own state in every basis; the NLL equals minus the mean log Born probability of the
samples in their own bases. Each metric returns a plain real number on every code path."

Model definitions: QV.Model.Metrics (executed against qucumber.utils.training_statistics by the C10
correspondence check), QV.Model.Unitaries (rotations; C04 proves they are the dense Kronecker rotation and
preserve norms — composed with the C10 statements in §7: `C10_pureBorn_dense`, `C10_mixedBorn_dense`,
`C10_nll_born[_mixed]`, `C10_pureBorn_sum`, `C10_mixedBorn_sum`, and the RBM instances `C10_kl_nonneg_rbm`, …).

KL guard (§2): the MODEL's Born probabilities must lie in `[ε, 1−ε]` (`InGuard`; the clamp of `probs_to_logits` is then
inactive). The TARGET's may in addition be exactly `0` (`TGuard`: value = Kullback–Leibler divergence) or exactly `0` / `1`
(`TGuard1`: non-negativity; value = divergence + `oneCorr`, `|oneCorr| ≤ 2ε`): basis states, GHZ, W, product states,
rank-deficient density matrices are inside.

Scope of the theorems (all sizes `N`, `n`, all real parameters, all targets, all lists of bases/samples):
* the neural state enters through `psi`/`rho`/`prob`/`Z`; the facts C01/C02 prove about them
  (`prob σ = |ψ σ|²/Z`, `prob σ = Re ρ σσ / Z`, `Z = Σ|ψ|² > 0`) are explicit hypotheses where needed;
* mixed fidelity (§5): `np.linalg.eigvals` is EXTERNAL; the model `fidelityMixed` takes its result `eig` as an argument.
  `C10_fid_mixed_partial` characterises the value given ANY list (`(Σ√|Re λ|)²`, kind, `≥ 0`). The link to the
  Uhlmann fidelity is proved in §5b, for complex PSD matrices `σ̂` (target), `ρ̂` (model) over any finite index type,
  under the single hypothesis that `eig` is — as a multiset, any order — the multiset of roots of the characteristic
  polynomial of the matrix handed to `eigvals` (eigenvalues with algebraic multiplicity):
    theorem C10_fid_mixed_uhlmann      (σ̂ ρ̂ PSD) (heig : eig = roots (charpoly (σ̂ ρ̂))) :
        fidelityMixed eig = (tr √(√ρ̂ σ̂ √ρ̂))²                      -- in ℂ, and as (Re tr …)² in ℝ
    theorem C10_fid_mixed_range        (σ̂ ρ̂ PSD, tr σ̂ = tr ρ̂ = 1) : tr √(√ρ̂ σ̂ √ρ̂) ∈ [0,1] ⊂ ℝ ∧ (heig → 0 ≤ fidelityMixed eig ≤ 1)
    theorem C10_fid_mixed_self_uhlmann (ρ̂ PSD, tr ρ̂ = 1) : tr √(√ρ̂ ρ̂ √ρ̂) = 1 ∧ (heig → fidelityMixed eig = 1)
  `√` is Mathlib's `CFC.sqrt` on matrices with the Loewner order; `C10_psd_sqrt_spec` shows it is the unique PSD square
  root. `C10_fid_mixed_uhlmann_model` / `C10_fid_mixed_self` restate them for the matrix `fidProd` the model passes
  to `eigvals`. Nothing of the former `C10_fid_mixed` comment remains unproved.
  TRUSTED BASE: that `np.linalg.eigvals` returns the charpoly roots (hypothesis `heig`; the harness checks numpy's
  output against the characteristic polynomial on every case), and floating-point rounding.
-/
import Mathlib.Analysis.SpecialFunctions.Log.Basic
import Mathlib.Analysis.SpecialFunctions.Sqrt
import Mathlib.Analysis.SpecialFunctions.Trigonometric.Basic
import Mathlib.Analysis.Complex.Basic
import Mathlib.Algebra.BigOperators.Field
import Mathlib.Algebra.Order.Chebyshev
import QV.Model.Metrics
import QV.Model.States
import QV.Lemmas.Metrics
import QV.Lemmas.MetricsSpectrum
import QV.Lemmas.Uhlmann
import QV.Props.C01
import QV.Props.C02
import QV.Props.C04
import QV.Lemmas.MetricsCompose
import QV.Lemmas.CallForm

namespace QV.Props
namespace C10
open QV QV.C10L Finset Metrics

/-! ## Specifications -/

/-- `⟨t|ψ⟩ = Σ_k conj(t_k) ψ_k` over the first `N` entries -/
noncomputable def braket (N : ℕ) (t ψ : ℕ → C ℝ) : ℂ :=
  ∑ k : Fin N, (starRingEnd ℂ) (C10L.toC (t k.val)) * C10L.toC (ψ k.val)

/-- `‖v‖² = Σ_k |v_k|²` -/
noncomputable def normSqVec (N : ℕ) (v : ℕ → C ℝ) : ℝ := ∑ k : Fin N, Complex.normSq (C10L.toC (v k.val))

/-- squared overlap of the normalised states `|⟨t|ψ⟩|² / (‖t‖² ‖ψ‖²)` -/
noncomputable def overlapSq (N : ℕ) (t ψ : ℕ → C ℝ) : ℝ :=
  Complex.normSq (braket N t ψ) / (normSqVec N t * normSqVec N ψ)

/-- Kullback–Leibler divergence `Σ_k t_k (log t_k − log p_k)` of two distributions on `N` outcomes -/
noncomputable def klDiv (N : ℕ) (t p : ℕ → ℝ) : ℝ := ∑ k : Fin N, t k.val * (Real.log (t k.val) - Real.log (p k.val))

/-- the clamp of `probs_to_logits` is inactive on the first `N` entries -/
def InGuard (ε : ℝ) (N : ℕ) (t : ℕ → ℝ) : Prop := ∀ k, k < N → ε ≤ t k ∧ t k ≤ 1 - ε

/-- TARGET-side guard: every target probability is EXACTLY `0` (there the clamp is harmless: the code computes
`0 · log(clamp 0) = 0`, and `klDiv` has `0 · (log 0 − …) = 0`) or lies in `[ε, 1 − ε]`. Basis states measured in another
basis, GHZ, W, product states and rank-deficient density matrices have such Born distributions. -/
def TGuard (ε : ℝ) (N : ℕ) (t : ℕ → ℝ) : Prop := ∀ k, k < N → t k = 0 ∨ (ε ≤ t k ∧ t k ≤ 1 - ε)

/-- … or EXACTLY `1` (a basis state measured in its own basis: the clamp replaces `log 1 = 0` by `log(1 − ε)`). -/
def TGuard1 (ε : ℝ) (N : ℕ) (t : ℕ → ℝ) : Prop := ∀ k, k < N → t k = 0 ∨ t k = 1 ∨ (ε ≤ t k ∧ t k ≤ 1 - ε)

/-- the clamp's contribution at target probabilities that are exactly one: `log(1 − ε)` (instead of `log 1 = 0`) each -/
noncomputable def oneCorr (ε : ℝ) (N : ℕ) (t : ℕ → ℝ) : ℝ := ∑ k : Fin N, if t k.val = 1 then Real.log (1 - ε) else 0

theorem InGuard.tguard {ε : ℝ} {N : ℕ} {t : ℕ → ℝ} (h : InGuard ε N t) : TGuard ε N t := fun k hk => Or.inr (h k hk)

theorem TGuard.tguard1 {ε : ℝ} {N : ℕ} {t : ℕ → ℝ} (h : TGuard ε N t) : TGuard1 ε N t :=
  fun k hk => (h k hk).elim Or.inl (fun g => Or.inr (Or.inr g))

theorem TGuard1.nonneg {ε : ℝ} (hε : 0 ≤ ε) {N : ℕ} {t : ℕ → ℝ} (h : TGuard1 ε N t) (k : ℕ) (hk : k < N) : 0 ≤ t k := by
  rcases h k hk with h0 | h1 | hg
  · rw [h0]
  · rw [h1]; norm_num
  · exact hε.trans hg.1

/-- Born distribution of the (unnormalised) vector `v` in basis `b`: `|(U_b v)_k|²` -/
noncomputable def pureBorn (n : ℕ) (d : Char → M2 ℝ) (b : Basis n) (v : ℕ → C ℝ) : ℕ → ℝ :=
  fun k => Complex.normSq (C10L.toC (Unitaries.rotatePsi n (usOf d b) v k))

/-- Born distribution of the (unnormalised) density matrix `ρ` in basis `b`: `Re (U_b ρ U_b†)_{kk}` -/
def mixedBorn (n : ℕ) (d : Char → M2 ℝ) (b : Basis n) (ρ : (Fin n → Bool) → (Fin n → Bool) → C ℝ) : ℕ → ℝ :=
  fun k => Unitaries.rotateRhoProbs n (usOf d b) (rotOf b) ρ (row n k)

/-- the state vector over the generated Hilbert space -/
def vecOf (n : ℕ) (psi : (Fin n → Bool) → C ℝ) : ℕ → C ℝ := fun k => psi (row n k)

/-- target Born distribution of one item of the KL loop (wavefunction target) -/
noncomputable def tBornPure (n : ℕ) (d : Char → M2 ℝ) (it : Basis n × TargetSrc (ℕ → C ℝ)) : ℕ → ℝ :=
  match it.2 with
  | .rotate t => pureBorn n d it.1 t
  | .given tr => fun k => Complex.normSq (C10L.toC (tr k))

/-- target Born distribution of one item of the KL loop (density-matrix target) -/
def tBornMixed (n : ℕ) (d : Char → M2 ℝ) (it : Basis n × TargetSrc (ℕ → ℕ → C ℝ)) : ℕ → ℝ :=
  match it.2 with
  | .rotate T => mixedBorn n d it.1 (matAt n T)
  | .given Tr => fun k => (Tr k k).1

/-- a result is a plain real number: Python `float` or `numpy.float64`, never a tensor -/
def IsNumber {α : Type} (r : Except PyErr (Res α)) : Prop :=
  ∀ x, r = .ok x → x.kind = .pyfloat ∨ x.kind = .npfloat

/-! ## 1. Pure fidelity -/

/-- **C10.1a** `fidelity = |⟨t|ψ⟩|² / Z` for every target, state vector and `Z > 0`. -/
theorem C10_fid_overlap (N : ℕ) (t ψ : ℕ → C ℝ) (Z : ℝ) (hZ : 0 < Z) :
    fidelityPure N t ψ Z = Complex.normSq (braket N t ψ) / Z := by
  unfold fidelityPure braket
  simp only [transc_sqrt]
  rw [absSq_eq, innerProd_eq]
  have h1 : ∀ k : Fin N, (starRingEnd ℂ) (C10L.toC (t k.val)) * C10L.toC ((ψ k.val).1 / √Z, (ψ k.val).2 / √Z)
      = ((starRingEnd ℂ) (C10L.toC (t k.val)) * C10L.toC (ψ k.val)) * (((√Z)⁻¹ : ℝ) : ℂ) := by
    intro k
    rw [smul_eq_div, C10L.toC_smul]; ring
  simp_rw [h1]
  rw [← Finset.sum_mul, Complex.normSq_mul, Complex.normSq_ofReal]
  have hs : (√Z)⁻¹ * (√Z)⁻¹ = Z⁻¹ := by
    rw [← mul_inv, Real.mul_self_sqrt hZ.le]
  rw [hs, div_eq_mul_inv]

/-- **C10.1a'** with `Z = ‖ψ‖²` (C01: the normalisation is the sum of the squared moduli) and a normalised
target, the fidelity is the squared overlap of the normalised states. -/
theorem C10_fid_overlap_normalised (N : ℕ) (t ψ : ℕ → C ℝ) (Z : ℝ) (hZ : 0 < Z)
    (hZψ : Z = normSqVec N ψ) (ht : normSqVec N t = 1) :
    fidelityPure N t ψ Z = overlapSq N t ψ := by
  rw [C10_fid_overlap N t ψ Z hZ, overlapSq, ht, one_mul, hZψ]

/-- Cauchy–Schwarz for the pair-complex vectors -/
theorem C10_cauchy_schwarz (N : ℕ) (t ψ : ℕ → C ℝ) :
    Complex.normSq (braket N t ψ) ≤ normSqVec N t * normSqVec N ψ := by
  unfold braket normSqVec
  rw [Complex.normSq_eq_norm_sq]
  have h1 : ‖∑ k : Fin N, (starRingEnd ℂ) (C10L.toC (t k.val)) * C10L.toC (ψ k.val)‖
      ≤ ∑ k : Fin N, ‖C10L.toC (t k.val)‖ * ‖C10L.toC (ψ k.val)‖ := by
    refine (norm_sum_le _ _).trans (le_of_eq ?_)
    refine Finset.sum_congr rfl (fun k _ => ?_)
    rw [norm_mul, RCLike.norm_conj]
  have h2 := Finset.sum_mul_sq_le_sq_mul_sq (Finset.univ : Finset (Fin N))
    (fun k => ‖C10L.toC (t k.val)‖) (fun k => ‖C10L.toC (ψ k.val)‖)
  have h0 : 0 ≤ ‖∑ k : Fin N, (starRingEnd ℂ) (C10L.toC (t k.val)) * C10L.toC (ψ k.val)‖ := norm_nonneg _
  calc ‖∑ k : Fin N, (starRingEnd ℂ) (C10L.toC (t k.val)) * C10L.toC (ψ k.val)‖ ^ 2
      ≤ (∑ k : Fin N, ‖C10L.toC (t k.val)‖ * ‖C10L.toC (ψ k.val)‖) ^ 2 := by
        exact pow_le_pow_left₀ h0 h1 2
    _ ≤ (∑ k : Fin N, ‖C10L.toC (t k.val)‖ ^ 2) * (∑ k : Fin N, ‖C10L.toC (ψ k.val)‖ ^ 2) := h2
    _ = _ := by simp_rw [Complex.normSq_eq_norm_sq]

/-- **C10.1b** the fidelity against a normalised target lies in `[0,1]`. -/
theorem C10_fid_range (N : ℕ) (t ψ : ℕ → C ℝ) (Z : ℝ) (hZ : 0 < Z)
    (hZψ : Z = normSqVec N ψ) (ht : normSqVec N t = 1) :
    0 ≤ fidelityPure N t ψ Z ∧ fidelityPure N t ψ Z ≤ 1 := by
  rw [C10_fid_overlap N t ψ Z hZ]
  refine ⟨div_nonneg (Complex.normSq_nonneg _) hZ.le, ?_⟩
  rw [div_le_one hZ]
  have := C10_cauchy_schwarz N t ψ
  rwa [ht, one_mul, ← hZψ] at this

/-- **C10.1c** the fidelity against the model's own normalised state `ψ/√Z` is 1. -/
theorem C10_fid_self (N : ℕ) (ψ : ℕ → C ℝ) (Z : ℝ) (hZ : 0 < Z) (hZψ : Z = normSqVec N ψ) :
    fidelityPure N (fun k => ((ψ k).1 / √Z, (ψ k).2 / √Z)) ψ Z = 1 := by
  rw [C10_fid_overlap N _ ψ Z hZ]
  have hb : braket N (fun k => ((ψ k).1 / √Z, (ψ k).2 / √Z)) ψ = (((√Z)⁻¹ * Z : ℝ) : ℂ) := by
    unfold braket
    have h1 : ∀ k : Fin N, (starRingEnd ℂ) (C10L.toC ((ψ k.val).1 / √Z, (ψ k.val).2 / √Z)) * C10L.toC (ψ k.val)
        = (((√Z)⁻¹ : ℝ) : ℂ) * ((Complex.normSq (C10L.toC (ψ k.val)) : ℝ) : ℂ) := by
      intro k
      rw [smul_eq_div, C10L.toC_smul, map_mul, Complex.conj_ofReal, Complex.normSq_eq_conj_mul_self]; ring
    simp_rw [h1]
    rw [← Finset.mul_sum, ← Complex.ofReal_sum, ← Complex.ofReal_mul, hZψ]
    rfl
  rw [hb, Complex.normSq_ofReal]
  have hs : (√Z)⁻¹ * (√Z)⁻¹ = Z⁻¹ := by rw [← mul_inv, Real.mul_self_sqrt hZ.le]
  have : (√Z)⁻¹ * Z * ((√Z)⁻¹ * Z) = Z⁻¹ * (Z * Z) := by rw [← hs]; ring
  rw [this]
  field_simp

/-- **C10.1d** multiplying the target by any unit-modulus complex number does not change the fidelity
(no hypothesis on `Z`, `t`, `ψ`). -/
theorem C10_fid_unit_invariant (N : ℕ) (t ψ : ℕ → C ℝ) (Z : ℝ) (u : C ℝ) (hu : u.1 ^ 2 + u.2 ^ 2 = 1) :
    fidelityPure N (fun k => C.mul u (t k)) ψ Z = fidelityPure N t ψ Z := by
  unfold fidelityPure
  rw [absSq_eq, absSq_eq, innerProd_eq, innerProd_eq]
  have h1 : ∀ (k : Fin N) (z : ℂ), (starRingEnd ℂ) (C10L.toC (C.mul u (t k.val))) * z
      = (starRingEnd ℂ) (C10L.toC u) * ((starRingEnd ℂ) (C10L.toC (t k.val)) * z) := by
    intro k z; rw [C10L.toC_mul, map_mul]; ring
  simp only [h1]
  rw [← Finset.mul_sum, Complex.normSq_mul, Complex.normSq_conj, normSq_toC, hu, one_mul]

/-- **C10.1d'** global phase `t ↦ e^{iα} t`. -/
theorem C10_fid_phase_invariant (N : ℕ) (t ψ : ℕ → C ℝ) (Z α : ℝ) :
    fidelityPure N (fun k => C.mul (Real.cos α, Real.sin α) (t k)) ψ Z = fidelityPure N t ψ Z :=
  C10_fid_unit_invariant N t ψ Z _ (by simp)

/-- non-vacuity: a non-real normalised target and a non-normalised state with `Z = ‖ψ‖²` -/
example : 0 ≤ fidelityPure 2 (fun k => if k = 0 then ((0 : ℝ), (1 : ℝ)) else (0, 0))
        (fun k => if k = 0 then ((1 : ℝ), (1 : ℝ)) else (2, 0)) (6 : ℝ)
    ∧ fidelityPure 2 (fun k => if k = 0 then ((0 : ℝ), (1 : ℝ)) else (0, 0))
        (fun k => if k = 0 then ((1 : ℝ), (1 : ℝ)) else (2, 0)) (6 : ℝ) ≤ 1 := by
  apply C10_fid_range
  · norm_num
  · simp [normSqVec, Fin.sum_univ_two, normSq_toC]; norm_num
  · simp [normSqVec, Fin.sum_univ_two, normSq_toC]

/-! ## 2. KL divergence -/

/-- `probs_to_logits(1) = log(1 − ε)` for every `ε ≥ 0` -/
theorem C10_logit_one (ε : ℝ) (hε : 0 ≤ ε) : probsToLogits ε (1 : ℝ) = Real.log (1 - ε) := by
  simp only [probsToLogits, clampProbs, transc_min, transc_max, transc_log]
  rw [min_eq_right ((sub_le_self 1 hε).trans (le_max_left 1 ε))]

/-- with the clamp inactive on the MODEL distribution, and every TARGET probability either exactly `0` or inside the
clamp's range, `_single_basis_KL` is the Kullback–Leibler divergence (convention `0 · log 0 = 0` on both sides: the
code evaluates `0 · log(clamp 0) = 0 · log ε = 0`). No positivity of `ε` is needed. -/
theorem C10_kl_single_formula (ε : ℝ) (N : ℕ) (t p : ℕ → ℝ) (ht : TGuard ε N t) (hp : InGuard ε N p) :
    singleBasisKL ε N t p = klDiv N t p := by
  unfold singleBasisKL klDiv
  simp only [sumFin_eq]
  rw [← Finset.sum_sub_distrib]
  refine Finset.sum_congr rfl (fun k _ => ?_)
  rcases ht k.val k.isLt with h0 | hg
  · rw [h0]; ring
  · rw [probsToLogits_of_mem hg.1 hg.2,
      probsToLogits_of_mem (hp k.val k.isLt).1 (hp k.val k.isLt).2]
    ring

/-- the same, target probabilities EXACTLY ONE allowed (a basis state in its own basis): each contributes the clamp's
`log(1 − ε)` in place of `log 1 = 0` — the value is `klDiv + oneCorr`, exactly. -/
theorem C10_kl_single_formula_one (ε : ℝ) (hε : 0 ≤ ε) (N : ℕ) (t p : ℕ → ℝ) (ht : TGuard1 ε N t)
    (hp : InGuard ε N p) :
    singleBasisKL ε N t p = klDiv N t p + oneCorr ε N t := by
  unfold singleBasisKL klDiv oneCorr
  simp only [sumFin_eq]
  rw [← Finset.sum_sub_distrib, ← Finset.sum_add_distrib]
  refine Finset.sum_congr rfl (fun k _ => ?_)
  rcases ht k.val k.isLt with h0 | h1 | hg
  · rw [h0]; simp
  · rw [h1, C10_logit_one ε hε, probsToLogits_of_mem (hp k.val k.isLt).1 (hp k.val k.isLt).2]
    simp only [one_mul, Real.log_one, zero_sub, if_true]
    ring
  · rw [probsToLogits_of_mem hg.1 hg.2,
      probsToLogits_of_mem (hp k.val k.isLt).1 (hp k.val k.isLt).2]
    by_cases h1 : t k.val = 1
    · have hε0 : ε = 0 := by have := hg.2; rw [h1] at this; linarith
      rw [if_pos h1, hε0, sub_zero, Real.log_one]; ring
    · rw [if_neg h1]; ring

/-- size of the correction: for a normalised non-negative target at most one probability is `1`, so
`log(1 − ε) ≤ oneCorr ≤ 0`; and `−2ε ≤ log(1 − ε)` for `ε ≤ 1/2` — the value differs from the Kullback–Leibler
divergence by at most `2ε` (`ε = 2⁻⁵²` in the code). -/
theorem C10_oneCorr_bounds (ε : ℝ) (hε0 : 0 ≤ ε) (hε : ε ≤ 1 / 2) (N : ℕ) (t : ℕ → ℝ)
    (ht0 : ∀ k, k < N → 0 ≤ t k) (hsum : ∑ k : Fin N, t k.val = 1) :
    -(2 * ε) ≤ oneCorr ε N t ∧ oneCorr ε N t ≤ 0 := by
  have hL0 : Real.log (1 - ε) ≤ 0 := Real.log_nonpos (by linarith) (by linarith)
  have hL : -(2 * ε) ≤ Real.log (1 - ε) := by
    have hpos : (0 : ℝ) < 1 - ε := by linarith
    have h := Real.one_sub_inv_le_log_of_pos hpos
    have h2 : (1 - ε)⁻¹ ≤ 1 + 2 * ε := by
      rw [inv_le_iff_one_le_mul₀ hpos]; nlinarith
    linarith
  have hc : oneCorr ε N t = (∑ k : Fin N, if t k.val = 1 then (1 : ℝ) else 0) * Real.log (1 - ε) := by
    unfold oneCorr
    rw [Finset.sum_mul]
    refine Finset.sum_congr rfl (fun k _ => ?_)
    split_ifs <;> simp
  have hc0 : 0 ≤ ∑ k : Fin N, if t k.val = 1 then (1 : ℝ) else 0 :=
    Finset.sum_nonneg (fun k _ => by split_ifs <;> norm_num)
  have hc1 : (∑ k : Fin N, if t k.val = 1 then (1 : ℝ) else 0) ≤ 1 := by
    rw [← hsum]
    refine Finset.sum_le_sum (fun k _ => ?_)
    split_ifs with h
    · rw [h]
    · exact ht0 k.val k.isLt
  rw [hc]
  constructor
  · nlinarith
  · exact mul_nonpos_of_nonneg_of_nonpos hc0 hL0

/-- **the distance to the Kullback–Leibler divergence when a target probability is exactly one** (normalised target):
`|_single_basis_KL − klDiv| ≤ 2ε`. -/
theorem C10_kl_single_close (ε : ℝ) (hε0 : 0 ≤ ε) (hε : ε ≤ 1 / 2) (N : ℕ) (t p : ℕ → ℝ) (ht : TGuard1 ε N t)
    (hp : InGuard ε N p) (hsum : ∑ k : Fin N, t k.val = 1) :
    |singleBasisKL ε N t p - klDiv N t p| ≤ 2 * ε := by
  rw [C10_kl_single_formula_one ε hε0 N t p ht hp, add_sub_cancel_left, abs_le]
  have := C10_oneCorr_bounds ε hε0 hε N t (fun k hk => ht.nonneg hε0 k hk) hsum
  exact ⟨this.1, this.2.trans (by linarith)⟩

/-- Gibbs' inequality: the KL divergence (`0 · log 0 = 0`) of a NON-NEGATIVE `t` from a positive `p` with
`Σ p ≤ Σ t` is non-negative -/
theorem C10_gibbs (N : ℕ) (t p : ℕ → ℝ) (ht : ∀ k, k < N → 0 ≤ t k) (hp : ∀ k, k < N → 0 < p k)
    (hsum : ∑ k : Fin N, p k.val ≤ ∑ k : Fin N, t k.val) : 0 ≤ klDiv N t p := by
  unfold klDiv
  have h : ∀ k : Fin N, t k.val - p k.val ≤ t k.val * (Real.log (t k.val) - Real.log (p k.val)) := by
    intro k
    have hpk := hp k.val k.isLt
    rcases (ht k.val k.isLt).eq_or_lt with h0 | htk
    · rw [← h0]; simp; exact hpk.le
    have hl := Real.log_le_sub_one_of_pos (div_pos hpk htk)
    rw [Real.log_div hpk.ne' htk.ne'] at hl
    have : t k.val * (Real.log (p k.val) - Real.log (t k.val)) ≤ t k.val * (p k.val / t k.val - 1) :=
      mul_le_mul_of_nonneg_left hl htk.le
    have e : t k.val * (p k.val / t k.val - 1) = p k.val - t k.val := by field_simp
    rw [e] at this
    linarith
  calc (0 : ℝ) ≤ ∑ k : Fin N, (t k.val - p k.val) := by rw [Finset.sum_sub_distrib]; linarith
    _ ≤ _ := Finset.sum_le_sum (fun k _ => h k)

/-- a point mass: if one target probability is `1` and the (non-negative) target is normalised, all others vanish -/
theorem C10_point_mass (N : ℕ) (t : ℕ → ℝ) (ht0 : ∀ k, k < N → 0 ≤ t k) (hsum : ∑ k : Fin N, t k.val = 1)
    (k0 : Fin N) (h1 : t k0.val = 1) : ∀ k : Fin N, k ≠ k0 → t k.val = 0 := by
  intro k hk
  have hsplit := Finset.add_sum_erase Finset.univ (fun k : Fin N => t k.val) (Finset.mem_univ k0)
  rw [hsum, h1] at hsplit
  have hz : ∑ x ∈ Finset.univ.erase k0, t x.val = 0 := by linarith
  exact (Finset.sum_eq_zero_iff_of_nonneg (fun x _ => ht0 x.val x.isLt)).mp hz k
    (Finset.mem_erase.mpr ⟨hk, Finset.mem_univ k⟩)

/-- **C10.2b, one basis** `_single_basis_KL ≥ 0` for every normalised target whose probabilities are `0`, `1` or inside
the clamp's range (basis states, GHZ, W, product states, rank-deficient density matrices included), the model
distribution being inside the clamp's range and normalised. For a point mass at `k₀` the value is
`log(1 − ε) − log p_{k₀} ≥ 0` because `p_{k₀} ≤ 1 − ε`; otherwise Gibbs' inequality. -/
theorem C10_kl_nonneg_single (ε : ℝ) (hε : 0 < ε) (N : ℕ) (t p : ℕ → ℝ) (ht : TGuard1 ε N t) (hp : InGuard ε N p)
    (hsum : ∑ k : Fin N, t k.val = 1 ∧ ∑ k : Fin N, p k.val = 1) : 0 ≤ singleBasisKL ε N t p := by
  have ht0 : ∀ k, k < N → 0 ≤ t k := fun k hk => ht.nonneg hε.le k hk
  by_cases hone : ∃ k0 : Fin N, t k0.val = 1
  · obtain ⟨k0, h1⟩ := hone
    have hz := C10_point_mass N t ht0 hsum.1 k0 h1
    have hval : singleBasisKL ε N t p = Real.log (1 - ε) - Real.log (p k0.val) := by
      unfold singleBasisKL
      simp only [sumFin_eq]
      rw [Finset.sum_eq_single k0 (fun k _ hk => by rw [hz k hk, zero_mul]) (fun h => absurd (Finset.mem_univ _) h),
        Finset.sum_eq_single k0 (fun k _ hk => by rw [hz k hk, zero_mul]) (fun h => absurd (Finset.mem_univ _) h),
        h1, C10_logit_one ε hε.le, probsToLogits_of_mem (hp k0.val k0.isLt).1 (hp k0.val k0.isLt).2]
      ring
    rw [hval, sub_nonneg]
    exact Real.log_le_log (lt_of_lt_of_le hε (hp k0.val k0.isLt).1) (hp k0.val k0.isLt).2
  · have htg : TGuard ε N t := by
      intro k hk
      rcases ht k hk with h0 | h1 | hg
      · exact Or.inl h0
      · exact absurd ⟨⟨k, hk⟩, h1⟩ hone
      · exact Or.inr hg
    rw [C10_kl_single_formula ε N t p htg hp]
    exact C10_gibbs N t p ht0 (fun k hk => lt_of_lt_of_le hε (hp k hk).1) (by rw [hsum.1, hsum.2])

/-- the loop `KL = 0.0; KL += …; KL /= float(len)`, `.item()` returns the arithmetic mean as a Python float -/
theorem C10_kl_mean {β : Type} (f : β → ℝ) (items : List β) (h : items ≠ []) :
    klMean f items = .ok ⟨.pyfloat, (items.map f).sum / items.length⟩ := by
  unfold klMean
  have hl : (items.length == 0) = false := by
    cases items with
    | nil => exact absurd rfl h
    | cons x xs => simp
  simp only [hl, kind_fold_tensor items h, foldl_add_list, zero_add, transc_ofNat]
  rfl

theorem C10_born_target_pure (n : ℕ) (d : Char → M2 ℝ) (it : Basis n × TargetSrc (ℕ → C ℝ)) :
    targetProbsPure n d it.1 it.2 = tBornPure n d it := by
  obtain ⟨b, src⟩ := it
  cases src <;> (funext k; simp [targetProbsPure, tBornPure, pureBorn, absSq_eq])

theorem C10_born_model_pure (n : ℕ) (d : Char → M2 ℝ) (psi : (Fin n → Bool) → C ℝ) (Z : ℝ) (b : Basis n) :
    nnProbsPure n d psi Z b = fun k => pureBorn n d b (vecOf n psi) k / Z := by
  funext k; simp only [nnProbsPure, pureBorn, absSq_eq]; rfl

theorem C10_born_target_mixed (n : ℕ) (d : Char → M2 ℝ) (it : Basis n × TargetSrc (ℕ → ℕ → C ℝ)) :
    targetProbsMixed n d it.1 it.2 = tBornMixed n d it := by
  obtain ⟨b, src⟩ := it
  cases src <;> rfl

/-- `resolve`: a single target with a list of bases is rotated into each of them, in order -/
theorem C10_kl_resolve_once {V : Type} {n : ℕ} (t : V) (bases : List (Basis n)) :
    resolve (.once t) (some bases) = .ok (.list (bases.map (fun b => (b, TargetSrc.rotate t)))) := rfl

theorem C10_kl_resolve_once_none {V : Type} {n : ℕ} (t : V) :
    resolve (Target.once t : Target V n) none = .ok (.noBases t) := rfl

/-- the value of the `KL` loop over a non-empty list of items is the mean of the single-basis values (wavefunction) -/
theorem C10_kl_value (ε : ℝ) (n : ℕ) (d : Char → M2 ℝ) (psi : (Fin n → Bool) → C ℝ)
    (prob : (Fin n → Bool) → ℝ) (Z : ℝ) (target : Target (ℕ → C ℝ) n) (bases : Option (List (Basis n)))
    (items : List (Basis n × TargetSrc (ℕ → C ℝ)))
    (hres : resolve target bases = .ok (.list items)) (hne : items ≠ []) :
    klPure ε n (some d) psi prob Z target bases
      = .ok ⟨.pyfloat, (items.map (fun it => singleBasisKL ε (2 ^ n) (tBornPure n d it)
          (fun k => pureBorn n d it.1 (vecOf n psi) k / Z))).sum / items.length⟩ := by
  unfold klPure
  simp only [effDict_some]
  simp only [hres, bind, Except.bind]
  rw [C10_kl_mean _ _ hne]
  have hm : items.map (fun it => singleBasisKL ε (2 ^ n) (targetProbsPure n d it.1 it.2) (nnProbsPure n d psi Z it.1))
      = items.map (fun it => singleBasisKL ε (2 ^ n) (tBornPure n d it)
          (fun k => pureBorn n d it.1 (vecOf n psi) k / Z)) :=
    List.map_congr_left (fun it _ => by rw [C10_born_target_pure, C10_born_model_pure])
  rw [hm]

/-- the same for a density-matrix state -/
theorem C10_kl_value_mixed (ε : ℝ) (n : ℕ) (d : Char → M2 ℝ) (rho : (Fin n → Bool) → (Fin n → Bool) → C ℝ)
    (prob : (Fin n → Bool) → ℝ) (Z : ℝ) (target : Target (ℕ → ℕ → C ℝ) n) (bases : Option (List (Basis n)))
    (items : List (Basis n × TargetSrc (ℕ → ℕ → C ℝ)))
    (hres : resolve target bases = .ok (.list items)) (hne : items ≠ []) :
    klMixed ε n d rho prob Z target bases
      = .ok ⟨.pyfloat, (items.map (fun it => singleBasisKL ε (2 ^ n) (tBornMixed n d it)
          (fun k => mixedBorn n d it.1 rho k / Z))).sum / items.length⟩ := by
  unfold klMixed
  simp only [hres, bind, Except.bind]
  rw [C10_kl_mean _ _ hne]
  have hm : items.map (fun it => singleBasisKL ε (2 ^ n) (targetProbsMixed n d it.1 it.2) (nnProbsMixed n d rho Z it.1))
      = items.map (fun it => singleBasisKL ε (2 ^ n) (tBornMixed n d it) (fun k => mixedBorn n d it.1 rho k / Z)) :=
    List.map_congr_left (fun it _ => by rw [C10_born_target_mixed]; rfl)
  rw [hm]

/-- `bases=None`, wavefunction: the single-basis value of `|target|²` against `probability(space, Z)` -/
theorem C10_kl_value_none (ε : ℝ) (n : ℕ) (d : Option (Char → M2 ℝ)) (psi : (Fin n → Bool) → C ℝ)
    (prob : (Fin n → Bool) → ℝ) (Z : ℝ) (t : ℕ → C ℝ) :
    klPure ε n d psi prob Z (.once t) none
      = .ok ⟨.pyfloat, singleBasisKL ε (2 ^ n) (fun k => Complex.normSq (C10L.toC (t k))) (fun k => prob (row n k))⟩ := by
  unfold klPure
  simp only [C10_kl_resolve_once_none, bind, Except.bind, klNone]
  have : (fun k => absSq (t k)) = fun k => Complex.normSq (C10L.toC (t k)) := by funext k; exact absSq_eq _
  rw [this, zero_add]
  rfl

/-- `bases=None`, density matrix: the target's real DIAGONAL against `probability(space, Z)` -/
theorem C10_kl_value_mixed_none (ε : ℝ) (n : ℕ) (d : Char → M2 ℝ) (rho : (Fin n → Bool) → (Fin n → Bool) → C ℝ)
    (prob : (Fin n → Bool) → ℝ) (Z : ℝ) (T : ℕ → ℕ → C ℝ) :
    klMixed ε n d rho prob Z (.once T) none
      = .ok ⟨.pyfloat, singleBasisKL ε (2 ^ n) (fun k => (T k k).1) (fun k => prob (row n k))⟩ := by
  unfold klMixed
  simp only [C10_kl_resolve_once_none, bind, Except.bind, klNone]
  rw [zero_add]
  rfl

/-- **C10.2a (wavefunction, bases given or dict target)** whenever the clamp is inactive on the MODEL's Born
distributions and every TARGET Born probability is exactly `0` or inside the clamp's range (`TGuard`: basis states in a
rotated basis, GHZ, W, product states … are covered), `KL` is the mean over the items `resolve` produced (the requested
bases, repeated bases counted as often as they are listed) of the Kullback–Leibler divergence between the target's and
the model's Born distributions, as a Python float. -/
theorem C10_kl_formula (ε : ℝ) (n : ℕ) (d : Char → M2 ℝ) (psi : (Fin n → Bool) → C ℝ)
    (prob : (Fin n → Bool) → ℝ) (Z : ℝ) (target : Target (ℕ → C ℝ) n) (bases : Option (List (Basis n)))
    (items : List (Basis n × TargetSrc (ℕ → C ℝ)))
    (hres : resolve target bases = .ok (.list items)) (hne : items ≠ [])
    (hguard : ∀ it ∈ items, TGuard ε (2 ^ n) (tBornPure n d it)
        ∧ InGuard ε (2 ^ n) (fun k => pureBorn n d it.1 (vecOf n psi) k / Z)) :
    klPure ε n (some d) psi prob Z target bases
      = .ok ⟨.pyfloat, (items.map (fun it =>
          klDiv (2 ^ n) (tBornPure n d it) (fun k => pureBorn n d it.1 (vecOf n psi) k / Z))).sum / items.length⟩ := by
  rw [C10_kl_value ε n d psi prob Z target bases items hres hne]
  rw [List.map_congr_left (fun it hit => C10_kl_single_formula ε _ _ _ (hguard it hit).1 (hguard it hit).2)]

/-- **C10.2a, target probabilities exactly one allowed** (`TGuard1`, `ε ≥ 0`: a basis-state target with its own basis
in the list): each item's value is `klDiv + oneCorr`, `−2ε ≤ oneCorr ≤ 0` (`C10_oneCorr_bounds`). -/
theorem C10_kl_formula_one (ε : ℝ) (hε : 0 ≤ ε) (n : ℕ) (d : Char → M2 ℝ) (psi : (Fin n → Bool) → C ℝ)
    (prob : (Fin n → Bool) → ℝ) (Z : ℝ) (target : Target (ℕ → C ℝ) n) (bases : Option (List (Basis n)))
    (items : List (Basis n × TargetSrc (ℕ → C ℝ)))
    (hres : resolve target bases = .ok (.list items)) (hne : items ≠ [])
    (hguard : ∀ it ∈ items, TGuard1 ε (2 ^ n) (tBornPure n d it)
        ∧ InGuard ε (2 ^ n) (fun k => pureBorn n d it.1 (vecOf n psi) k / Z)) :
    klPure ε n (some d) psi prob Z target bases
      = .ok ⟨.pyfloat, (items.map (fun it =>
          klDiv (2 ^ n) (tBornPure n d it) (fun k => pureBorn n d it.1 (vecOf n psi) k / Z)
            + oneCorr ε (2 ^ n) (tBornPure n d it))).sum / items.length⟩ := by
  rw [C10_kl_value ε n d psi prob Z target bases items hres hne]
  rw [List.map_congr_left (fun it hit => C10_kl_single_formula_one ε hε _ _ _ (hguard it hit).1 (hguard it hit).2)]

/-- **C10.2a (wavefunction, `bases=None`)**: the KL divergence between `|target|²` and `probability(space, Z)`. -/
theorem C10_kl_formula_none (ε : ℝ) (n : ℕ) (d : Option (Char → M2 ℝ)) (psi : (Fin n → Bool) → C ℝ)
    (prob : (Fin n → Bool) → ℝ) (Z : ℝ) (t : ℕ → C ℝ)
    (hg1 : TGuard ε (2 ^ n) (fun k => Complex.normSq (C10L.toC (t k))))
    (hg2 : InGuard ε (2 ^ n) (fun k => prob (row n k))) :
    klPure ε n d psi prob Z (.once t) none
      = .ok ⟨.pyfloat, klDiv (2 ^ n) (fun k => Complex.normSq (C10L.toC (t k))) (fun k => prob (row n k))⟩ := by
  rw [C10_kl_value_none, C10_kl_single_formula ε _ _ _ hg1 hg2]

/-- `bases=None` with a target probability exactly one (a computational-basis state as target) -/
theorem C10_kl_formula_none_one (ε : ℝ) (hε : 0 ≤ ε) (n : ℕ) (d : Option (Char → M2 ℝ))
    (psi : (Fin n → Bool) → C ℝ) (prob : (Fin n → Bool) → ℝ) (Z : ℝ) (t : ℕ → C ℝ)
    (hg1 : TGuard1 ε (2 ^ n) (fun k => Complex.normSq (C10L.toC (t k))))
    (hg2 : InGuard ε (2 ^ n) (fun k => prob (row n k))) :
    klPure ε n d psi prob Z (.once t) none
      = .ok ⟨.pyfloat, klDiv (2 ^ n) (fun k => Complex.normSq (C10L.toC (t k))) (fun k => prob (row n k))
          + oneCorr ε (2 ^ n) (fun k => Complex.normSq (C10L.toC (t k)))⟩ := by
  rw [C10_kl_value_none, C10_kl_single_formula_one ε hε _ _ _ hg1 hg2]

/-- **C10.2a (density matrix, bases given or dict target)** -/
theorem C10_kl_formula_mixed (ε : ℝ) (n : ℕ) (d : Char → M2 ℝ) (rho : (Fin n → Bool) → (Fin n → Bool) → C ℝ)
    (prob : (Fin n → Bool) → ℝ) (Z : ℝ) (target : Target (ℕ → ℕ → C ℝ) n) (bases : Option (List (Basis n)))
    (items : List (Basis n × TargetSrc (ℕ → ℕ → C ℝ)))
    (hres : resolve target bases = .ok (.list items)) (hne : items ≠ [])
    (hguard : ∀ it ∈ items, TGuard ε (2 ^ n) (tBornMixed n d it)
        ∧ InGuard ε (2 ^ n) (fun k => mixedBorn n d it.1 rho k / Z)) :
    klMixed ε n d rho prob Z target bases
      = .ok ⟨.pyfloat, (items.map (fun it =>
          klDiv (2 ^ n) (tBornMixed n d it) (fun k => mixedBorn n d it.1 rho k / Z))).sum / items.length⟩ := by
  rw [C10_kl_value_mixed ε n d rho prob Z target bases items hres hne]
  rw [List.map_congr_left (fun it hit => C10_kl_single_formula ε _ _ _ (hguard it hit).1 (hguard it hit).2)]

theorem C10_kl_formula_mixed_one (ε : ℝ) (hε : 0 ≤ ε) (n : ℕ) (d : Char → M2 ℝ)
    (rho : (Fin n → Bool) → (Fin n → Bool) → C ℝ)
    (prob : (Fin n → Bool) → ℝ) (Z : ℝ) (target : Target (ℕ → ℕ → C ℝ) n) (bases : Option (List (Basis n)))
    (items : List (Basis n × TargetSrc (ℕ → ℕ → C ℝ)))
    (hres : resolve target bases = .ok (.list items)) (hne : items ≠ [])
    (hguard : ∀ it ∈ items, TGuard1 ε (2 ^ n) (tBornMixed n d it)
        ∧ InGuard ε (2 ^ n) (fun k => mixedBorn n d it.1 rho k / Z)) :
    klMixed ε n d rho prob Z target bases
      = .ok ⟨.pyfloat, (items.map (fun it =>
          klDiv (2 ^ n) (tBornMixed n d it) (fun k => mixedBorn n d it.1 rho k / Z)
            + oneCorr ε (2 ^ n) (tBornMixed n d it))).sum / items.length⟩ := by
  rw [C10_kl_value_mixed ε n d rho prob Z target bases items hres hne]
  rw [List.map_congr_left (fun it hit => C10_kl_single_formula_one ε hε _ _ _ (hguard it hit).1 (hguard it hit).2)]

/-- **C10.2a (density matrix, `bases=None`)**: the target's real DIAGONAL against `probability(space, Z)`. -/
theorem C10_kl_formula_mixed_none (ε : ℝ) (n : ℕ) (d : Char → M2 ℝ) (rho : (Fin n → Bool) → (Fin n → Bool) → C ℝ)
    (prob : (Fin n → Bool) → ℝ) (Z : ℝ) (T : ℕ → ℕ → C ℝ)
    (hg1 : TGuard ε (2 ^ n) (fun k => (T k k).1)) (hg2 : InGuard ε (2 ^ n) (fun k => prob (row n k))) :
    klMixed ε n d rho prob Z (.once T) none
      = .ok ⟨.pyfloat, klDiv (2 ^ n) (fun k => (T k k).1) (fun k => prob (row n k))⟩ := by
  rw [C10_kl_value_mixed_none, C10_kl_single_formula ε _ _ _ hg1 hg2]

theorem C10_kl_formula_mixed_none_one (ε : ℝ) (hε : 0 ≤ ε) (n : ℕ) (d : Char → M2 ℝ)
    (rho : (Fin n → Bool) → (Fin n → Bool) → C ℝ)
    (prob : (Fin n → Bool) → ℝ) (Z : ℝ) (T : ℕ → ℕ → C ℝ)
    (hg1 : TGuard1 ε (2 ^ n) (fun k => (T k k).1)) (hg2 : InGuard ε (2 ^ n) (fun k => prob (row n k))) :
    klMixed ε n d rho prob Z (.once T) none
      = .ok ⟨.pyfloat, klDiv (2 ^ n) (fun k => (T k k).1) (fun k => prob (row n k))
          + oneCorr ε (2 ^ n) (fun k => (T k k).1)⟩ := by
  rw [C10_kl_value_mixed_none, C10_kl_single_formula_one ε hε _ _ _ hg1 hg2]

/-- **C10.2b (wavefunction)** `KL ≥ 0` whenever (`ε > 0`) the MODEL's Born distributions are inside the clamp's range and
every TARGET Born probability is `0`, `1` or inside it — basis states (in their own and in rotated bases), GHZ, W,
product states included — both distributions being normalised in every requested basis (`C10_kl_nonneg_rbm` discharges
the normalisation for the RBM states with C04_psi_probs_sum and C01). -/
theorem C10_kl_nonneg (ε : ℝ) (hε : 0 < ε) (n : ℕ) (d : Char → M2 ℝ) (psi : (Fin n → Bool) → C ℝ)
    (prob : (Fin n → Bool) → ℝ) (Z : ℝ) (target : Target (ℕ → C ℝ) n) (bases : Option (List (Basis n)))
    (items : List (Basis n × TargetSrc (ℕ → C ℝ)))
    (hres : resolve target bases = .ok (.list items)) (hne : items ≠ [])
    (hguard : ∀ it ∈ items, TGuard1 ε (2 ^ n) (tBornPure n d it)
        ∧ InGuard ε (2 ^ n) (fun k => pureBorn n d it.1 (vecOf n psi) k / Z))
    (hnorm : ∀ it ∈ items, ∑ k : Fin (2 ^ n), tBornPure n d it k.val = 1
        ∧ ∑ k : Fin (2 ^ n), pureBorn n d it.1 (vecOf n psi) k.val / Z = 1) :
    ∃ v, klPure ε n (some d) psi prob Z target bases = .ok ⟨.pyfloat, v⟩ ∧ 0 ≤ v := by
  refine ⟨_, C10_kl_value ε n d psi prob Z target bases items hres hne, ?_⟩
  exact list_sum_div_nonneg items _ (fun it hit =>
    C10_kl_nonneg_single ε hε _ _ _ (hguard it hit).1 (hguard it hit).2 (hnorm it hit))

/-- **C10.2b (wavefunction, `bases=None`)** -/
theorem C10_kl_nonneg_none (ε : ℝ) (hε : 0 < ε) (n : ℕ) (d : Option (Char → M2 ℝ)) (psi : (Fin n → Bool) → C ℝ)
    (prob : (Fin n → Bool) → ℝ) (Z : ℝ) (t : ℕ → C ℝ)
    (hg1 : TGuard1 ε (2 ^ n) (fun k => Complex.normSq (C10L.toC (t k))))
    (hg2 : InGuard ε (2 ^ n) (fun k => prob (row n k)))
    (hnorm : ∑ k : Fin (2 ^ n), Complex.normSq (C10L.toC (t k.val)) = 1 ∧ ∑ k : Fin (2 ^ n), prob (row n k.val) = 1) :
    ∃ v, klPure ε n d psi prob Z (.once t) none = .ok ⟨.pyfloat, v⟩ ∧ 0 ≤ v :=
  ⟨_, C10_kl_value_none ε n d psi prob Z t, C10_kl_nonneg_single ε hε _ _ _ hg1 hg2 hnorm⟩

/-- **C10.2b (density matrix)** rank-deficient targets (pure states, low-rank mixtures: zero Born probabilities) included -/
theorem C10_kl_nonneg_mixed (ε : ℝ) (hε : 0 < ε) (n : ℕ) (d : Char → M2 ℝ)
    (rho : (Fin n → Bool) → (Fin n → Bool) → C ℝ)
    (prob : (Fin n → Bool) → ℝ) (Z : ℝ) (target : Target (ℕ → ℕ → C ℝ) n) (bases : Option (List (Basis n)))
    (items : List (Basis n × TargetSrc (ℕ → ℕ → C ℝ)))
    (hres : resolve target bases = .ok (.list items)) (hne : items ≠ [])
    (hguard : ∀ it ∈ items, TGuard1 ε (2 ^ n) (tBornMixed n d it)
        ∧ InGuard ε (2 ^ n) (fun k => mixedBorn n d it.1 rho k / Z))
    (hnorm : ∀ it ∈ items, ∑ k : Fin (2 ^ n), tBornMixed n d it k.val = 1
        ∧ ∑ k : Fin (2 ^ n), mixedBorn n d it.1 rho k.val / Z = 1) :
    ∃ v, klMixed ε n d rho prob Z target bases = .ok ⟨.pyfloat, v⟩ ∧ 0 ≤ v := by
  refine ⟨_, C10_kl_value_mixed ε n d rho prob Z target bases items hres hne, ?_⟩
  exact list_sum_div_nonneg items _ (fun it hit =>
    C10_kl_nonneg_single ε hε _ _ _ (hguard it hit).1 (hguard it hit).2 (hnorm it hit))

/-- **C10.2b (density matrix, `bases=None`)** -/
theorem C10_kl_nonneg_mixed_none (ε : ℝ) (hε : 0 < ε) (n : ℕ) (d : Char → M2 ℝ)
    (rho : (Fin n → Bool) → (Fin n → Bool) → C ℝ) (prob : (Fin n → Bool) → ℝ) (Z : ℝ) (T : ℕ → ℕ → C ℝ)
    (hg1 : TGuard1 ε (2 ^ n) (fun k => (T k k).1)) (hg2 : InGuard ε (2 ^ n) (fun k => prob (row n k)))
    (hnorm : ∑ k : Fin (2 ^ n), (T k.val k.val).1 = 1 ∧ ∑ k : Fin (2 ^ n), prob (row n k.val) = 1) :
    ∃ v, klMixed ε n d rho prob Z (.once T) none = .ok ⟨.pyfloat, v⟩ ∧ 0 ≤ v :=
  ⟨_, C10_kl_value_mixed_none ε n d rho prob Z T, C10_kl_nonneg_single ε hε _ _ _ hg1 hg2 hnorm⟩

/-- non-vacuity of the guard: two different distributions inside `[2⁻⁵², 1 − 2⁻⁵²]`, summing to one -/
example : 0 ≤ singleBasisKL ((2 : ℝ)⁻¹ ^ 52) 2 (fun k => if k = 0 then 1 / 4 else 3 / 4) (fun _ => 1 / 2) := by
  have hε : ((2 : ℝ)⁻¹ ^ 52) ≤ 1 / 4 := by
    calc ((2 : ℝ)⁻¹ ^ 52) ≤ (2 : ℝ)⁻¹ ^ 2 := pow_le_pow_of_le_one (by norm_num) (by norm_num) (by norm_num)
      _ = 1 / 4 := by norm_num
  apply C10_kl_nonneg_single _ (by positivity)
  · refine (InGuard.tguard ?_).tguard1
    intro k _; by_cases h : k = 0 <;> simp [h] <;> constructor <;> linarith
  · intro k _; constructor <;> linarith
  · simp [Fin.sum_univ_two]; norm_num

/-- non-vacuity with ZERO and ONE target probabilities (what the former guard excluded), `ε = 2⁻⁵²`:
a GHZ-like target `(1/2, 0, 0, 1/2)` against the uniform distribution — the value is the Kullback–Leibler divergence and
non-negative; a basis state `(1, 0)` against `(1/2, 1/2)` — non-negative, and within `2ε` of the divergence. -/
example : singleBasisKL ((2 : ℝ)⁻¹ ^ 52) 4 (fun k => if k = 0 ∨ k = 3 then 1 / 2 else 0) (fun _ => 1 / 4)
      = klDiv 4 (fun k => if k = 0 ∨ k = 3 then 1 / 2 else 0) (fun _ => 1 / 4)
    ∧ 0 ≤ singleBasisKL ((2 : ℝ)⁻¹ ^ 52) 4 (fun k => if k = 0 ∨ k = 3 then 1 / 2 else 0) (fun _ => 1 / 4)
    ∧ 0 ≤ singleBasisKL ((2 : ℝ)⁻¹ ^ 52) 2 (fun k => if k = 0 then 1 else 0) (fun _ => 1 / 2)
    ∧ |singleBasisKL ((2 : ℝ)⁻¹ ^ 52) 2 (fun k => if k = 0 then 1 else 0) (fun _ => 1 / 2)
        - klDiv 2 (fun k => if k = 0 then 1 else 0) (fun _ => 1 / 2)| ≤ 2 * (2 : ℝ)⁻¹ ^ 52 := by
  have hε : ((2 : ℝ)⁻¹ ^ 52) ≤ 1 / 4 := by
    calc ((2 : ℝ)⁻¹ ^ 52) ≤ (2 : ℝ)⁻¹ ^ 2 := pow_le_pow_of_le_one (by norm_num) (by norm_num) (by norm_num)
      _ = 1 / 4 := by norm_num
  have hε0 : (0 : ℝ) < (2 : ℝ)⁻¹ ^ 52 := by positivity
  have hg4 : TGuard ((2 : ℝ)⁻¹ ^ 52) 4 (fun k => if k = 0 ∨ k = 3 then 1 / 2 else 0) := by
    intro k _
    by_cases h : k = 0 ∨ k = 3
    · right; simp only [if_pos h]; constructor <;> linarith
    · left; simp only [if_neg h]
  have hp4 : InGuard ((2 : ℝ)⁻¹ ^ 52) 4 (fun _ => 1 / 4) := by intro k _; constructor <;> linarith
  have hg2 : TGuard1 ((2 : ℝ)⁻¹ ^ 52) 2 (fun k => if k = 0 then 1 else 0) := by
    intro k _
    by_cases h : k = 0
    · right; left; simp only [if_pos h]
    · left; simp only [if_neg h]
  have hp2 : InGuard ((2 : ℝ)⁻¹ ^ 52) 2 (fun _ => 1 / 2) := by intro k _; constructor <;> linarith
  refine ⟨C10_kl_single_formula _ _ _ _ hg4 hp4, ?_, ?_, ?_⟩
  · exact C10_kl_nonneg_single _ hε0 _ _ _ hg4.tguard1 hp4 (by simp [Fin.sum_univ_four]; norm_num)
  · exact C10_kl_nonneg_single _ hε0 _ _ _ hg2 hp2 (by simp)
  · exact C10_kl_single_close _ hε0.le (by linarith) _ _ _ hg2 hp2 (by simp)

/-- non-vacuity of `C10_kl_formula` / `C10_kl_nonneg` at the top level: one site, basis `X` rotated by a rational
orthogonal matrix, state `ψ = (1,0)` (`Z = 1`), NON-REAL target `t = (0, i)`: Born distributions `(16/25, 9/25)` vs
`(9/25, 16/25)` — inside the guard, normalised, different. -/
example : ∃ v, klPure ((2 : ℝ)⁻¹ ^ 52) 1 (some exDict) exPsi (fun _ => 0) 1 (.once exTarget) (some [exBasis])
    = .ok ⟨.pyfloat, v⟩ ∧ 0 ≤ v := by
  have hε : ((2 : ℝ)⁻¹ ^ 52) ≤ 1 / 4 := by
    calc ((2 : ℝ)⁻¹ ^ 52) ≤ (2 : ℝ)⁻¹ ^ 2 := pow_le_pow_of_le_one (by norm_num) (by norm_num) (by norm_num)
      _ = 1 / 4 := by norm_num
  have hv : vecOf 1 exPsi = fun k' => exPsi (row 1 k') := rfl
  refine C10_kl_nonneg _ (by positivity) 1 exDict exPsi _ 1 _ _ _ (C10_kl_resolve_once _ _) (by simp) ?_ ?_
  · intro it hit
    simp only [List.map_cons, List.map_nil, List.mem_singleton] at hit
    subst hit
    refine ⟨(InGuard.tguard (fun k hk => ?_)).tguard1, fun k hk => ?_⟩
    · simp only [tBornPure, pureBorn]; rw [ex_rot_target k (by simpa using hk)]
      split_ifs <;> constructor <;> linarith
    · simp only [pureBorn]; rw [hv, ex_rot_psi k (by simpa using hk)]
      split_ifs <;> constructor <;> linarith
  · intro it hit
    simp only [List.map_cons, List.map_nil, List.mem_singleton] at hit
    subst hit
    refine ⟨?_, ?_⟩
    · show ∑ k : Fin 2, Complex.normSq (C10L.toC (Unitaries.rotatePsi 1 (usOf exDict exBasis) exTarget k.val)) = 1
      rw [Fin.sum_univ_two, ex_rot_target _ (by simp), ex_rot_target _ (by simp)]; norm_num
    · show ∑ k : Fin 2, Complex.normSq (C10L.toC (Unitaries.rotatePsi 1 (usOf exDict exBasis)
          (fun k' => exPsi (row 1 k')) k.val)) / 1 = 1
      rw [Fin.sum_univ_two, ex_rot_psi _ (by simp), ex_rot_psi _ (by simp)]; norm_num

/-- the own normalised state as a KL item (wavefunction): the single target is `ψ/√Z` over `space`, a dict entry
is the model's rotated state divided by `√Z` -/
def OwnPure (n : ℕ) (d : Char → M2 ℝ) (psi : (Fin n → Bool) → C ℝ) (Z : ℝ)
    (it : Basis n × TargetSrc (ℕ → C ℝ)) : Prop :=
  match it.2 with
  | .rotate t => ∀ k, t k = ((vecOf n psi k).1 / √Z, (vecOf n psi k).2 / √Z)
  | .given tr => ∀ k, k < 2 ^ n → tr k = ((Unitaries.rotatePsi n (usOf d it.1) (vecOf n psi) k).1 / √Z,
                                            (Unitaries.rotatePsi n (usOf d it.1) (vecOf n psi) k).2 / √Z)

/-- the own normalised state as a KL item (density matrix): the single target is `ρ/Z` over `space × space`, a dict
entry has the model's rotated probabilities `/Z` on its real diagonal -/
def OwnMixed (n : ℕ) (d : Char → M2 ℝ) (rho : (Fin n → Bool) → (Fin n → Bool) → C ℝ) (Z : ℝ)
    (it : Basis n × TargetSrc (ℕ → ℕ → C ℝ)) : Prop :=
  match it.2 with
  | .rotate T => ∀ i j, i < 2 ^ n → j < 2 ^ n → T i j = ((rho (row n i) (row n j)).1 / Z, (rho (row n i) (row n j)).2 / Z)
  | .given Tr => ∀ k, k < 2 ^ n → (Tr k k).1 = mixedBorn n d it.1 rho k / Z

/-- **C10.2c (wavefunction, every list of bases / dict)** WITHOUT any guard: against the model's own normalised
state the KL divergence is exactly `0` in every basis, hence so is the mean. Uses the homogeneity of the
`_kron_mult` sweep (`rotatePsi_smul`). -/
theorem C10_kl_self_zero (ε : ℝ) (n : ℕ) (d : Char → M2 ℝ) (psi : (Fin n → Bool) → C ℝ)
    (prob : (Fin n → Bool) → ℝ) (Z : ℝ) (hZ : 0 ≤ Z) (target : Target (ℕ → C ℝ) n)
    (bases : Option (List (Basis n))) (items : List (Basis n × TargetSrc (ℕ → C ℝ)))
    (hres : resolve target bases = .ok (.list items)) (hne : items ≠ [])
    (hown : ∀ it ∈ items, OwnPure n d psi Z it) :
    klPure ε n (some d) psi prob Z target bases = .ok ⟨.pyfloat, 0⟩ := by
  unfold klPure
  simp only [effDict_some]
  simp only [hres, bind, Except.bind]
  rw [C10_kl_mean _ _ hne]
  have hz : ∀ it ∈ items, singleBasisKL ε (2 ^ n) (targetProbsPure n d it.1 it.2) (nnProbsPure n d psi Z it.1) = 0 := by
    intro it hit
    rw [← singleBasisKL_self ε (2 ^ n) (nnProbsPure n d psi Z it.1)]
    refine singleBasisKL_congr ε _ _ _ _ _ (fun k hk => ?_) (fun _ _ => rfl)
    have ho := hown it hit
    have hv : vecOf n psi = fun k' => psi (row n k') := rfl
    obtain ⟨b, src⟩ := it
    cases src with
    | rotate t =>
      simp only [OwnPure] at ho
      have ht : t = fun k => C.smul (√Z)⁻¹ (vecOf n psi k) := by
        funext k; rw [ho k, smul_eq_div]
      simp only [targetProbsPure, nnProbsPure]
      rw [ht, rotatePsi_smul, absSq_smul, inv_sqrt_sq hZ, hv]; ring
    | given tr =>
      simp only [OwnPure] at ho
      simp only [targetProbsPure, nnProbsPure]
      rw [ho k hk, smul_eq_div, absSq_smul, inv_sqrt_sq hZ, hv]; ring
  have : (items.map (fun it => singleBasisKL ε (2 ^ n) (targetProbsPure n d it.1 it.2) (nnProbsPure n d psi Z it.1)))
      = items.map (fun _ => (0 : ℝ)) := List.map_congr_left hz
  rw [this]
  simp

/-- **C10.2c (wavefunction, `bases=None`)**: needs only the Born rule of the state, `probability(σ, Z) = |ψ(σ)|²/Z`
(C01_normSq_psi_positive / _complex). -/
theorem C10_kl_self_zero_none (ε : ℝ) (n : ℕ) (d : Option (Char → M2 ℝ)) (psi : (Fin n → Bool) → C ℝ)
    (prob : (Fin n → Bool) → ℝ) (Z : ℝ) (hZ : 0 ≤ Z)
    (hborn : ∀ σ, prob σ = ((psi σ).1 ^ 2 + (psi σ).2 ^ 2) / Z) :
    klPure ε n d psi prob Z (.once (fun k => ((vecOf n psi k).1 / √Z, (vecOf n psi k).2 / √Z))) none
      = .ok ⟨.pyfloat, 0⟩ := by
  unfold klPure
  simp only [C10_kl_resolve_once_none, bind, Except.bind, klNone]
  have : (fun k => absSq ((vecOf n psi k).1 / √Z, (vecOf n psi k).2 / √Z)) = fun k => prob (row n k) := by
    funext k
    rw [smul_eq_div, absSq_smul, inv_sqrt_sq hZ, absSq_eq, normSq_toC, hborn]
    simp only [vecOf]; ring
  rw [this, singleBasisKL_self, zero_add]
  rfl

/-- **C10.2c (density matrix, every list of bases / dict)** without guard; uses the homogeneity of
`rotate_rho_probs` in `ρ` and that `_convert_basis_element_to_index` inverts the rows of `space`. -/
theorem C10_kl_self_zero_mixed (ε : ℝ) (n : ℕ) (d : Char → M2 ℝ) (rho : (Fin n → Bool) → (Fin n → Bool) → C ℝ)
    (prob : (Fin n → Bool) → ℝ) (Z : ℝ) (target : Target (ℕ → ℕ → C ℝ) n)
    (bases : Option (List (Basis n))) (items : List (Basis n × TargetSrc (ℕ → ℕ → C ℝ)))
    (hres : resolve target bases = .ok (.list items)) (hne : items ≠ [])
    (hown : ∀ it ∈ items, OwnMixed n d rho Z it) :
    klMixed ε n d rho prob Z target bases = .ok ⟨.pyfloat, 0⟩ := by
  unfold klMixed
  simp only [hres, bind, Except.bind]
  rw [C10_kl_mean _ _ hne]
  have hz : ∀ it ∈ items, singleBasisKL ε (2 ^ n) (targetProbsMixed n d it.1 it.2) (nnProbsMixed n d rho Z it.1) = 0 := by
    intro it hit
    rw [← singleBasisKL_self ε (2 ^ n) (nnProbsMixed n d rho Z it.1)]
    refine singleBasisKL_congr ε _ _ _ _ _ (fun k hk => ?_) (fun _ _ => rfl)
    have ho := hown it hit
    obtain ⟨b, src⟩ := it
    cases src with
    | rotate T =>
      simp only [OwnMixed] at ho
      have hT : matAt n T = fun σ σ' => C.smul Z⁻¹ (rho σ σ') := by
        funext σ σ'
        have h1 : basisIndex σ < 2 ^ n := by
          have := basisIndexL_lt ((List.finRange n).map σ); simpa [basisIndex] using this
        have h2 : basisIndex σ' < 2 ^ n := by
          have := basisIndexL_lt ((List.finRange n).map σ'); simpa [basisIndex] using this
        simp only [matAt]
        rw [ho _ _ h1 h2, row_basisIndex, row_basisIndex, smul_eq_div]
      simp only [targetProbsMixed, nnProbsMixed]
      rw [hT, rotateRhoProbs_smul]; ring
    | given Tr =>
      simp only [OwnMixed] at ho
      simp only [targetProbsMixed, nnProbsMixed]
      rw [ho k hk]; rfl
  have : (items.map (fun it => singleBasisKL ε (2 ^ n) (targetProbsMixed n d it.1 it.2) (nnProbsMixed n d rho Z it.1)))
      = items.map (fun _ => (0 : ℝ)) := List.map_congr_left hz
  rw [this]
  simp

/-- **C10.2c (density matrix, `bases=None`)**: needs only `probability(σ, Z) = Re ρ(σ,σ)/Z` (C02_diagonal). -/
theorem C10_kl_self_zero_mixed_none (ε : ℝ) (n : ℕ) (d : Char → M2 ℝ) (rho : (Fin n → Bool) → (Fin n → Bool) → C ℝ)
    (prob : (Fin n → Bool) → ℝ) (Z : ℝ) (hdiag : ∀ σ, prob σ = (rho σ σ).1 / Z) :
    klMixed ε n d rho prob Z
        (.once (fun i j => ((rho (row n i) (row n j)).1 / Z, (rho (row n i) (row n j)).2 / Z))) none
      = .ok ⟨.pyfloat, 0⟩ := by
  unfold klMixed
  simp only [C10_kl_resolve_once_none, bind, Except.bind, klNone]
  have : (fun k => (rho (row n k) (row n k)).1 / Z) = fun k => prob (row n k) := by
    funext k; rw [hdiag]
  rw [this, singleBasisKL_self, zero_add]
  rfl

/-- the hypotheses of the self-KL theorems are satisfiable by the obvious targets: a single own target with any
non-empty list of bases -/
example (n : ℕ) (d : Char → M2 ℝ) (psi : (Fin n → Bool) → C ℝ) (Z : ℝ) (b : Basis n) (bs : List (Basis n)) :
    ∀ it ∈ (b :: bs).map (fun b => (b, TargetSrc.rotate
        (fun k => ((vecOf n psi k).1 / √Z, (vecOf n psi k).2 / √Z)))), OwnPure n d psi Z it := by
  intro it hit
  obtain ⟨b', _, rfl⟩ := List.mem_map.mp hit
  intro k; rfl

/-! ## 3. NLL -/

/-- the grouped loop returns minus the mean log-probability over the samples, as a Python float -/
theorem C10_nll_grouped (ε : ℝ) {n : ℕ} (p : Basis n → (Fin n → Bool) → ℝ)
    (samples : List (Basis n × (Fin n → Bool))) (hne : samples ≠ []) :
    nllBases ε p samples
      = .ok ⟨.pyfloat, -((samples.map (fun s => Real.log (clampProbs ε (p s.1 s.2)))).sum) / samples.length⟩ := by
  unfold nllBases
  have hl : (samples.length == 0) = false := by
    cases samples with
    | nil => exact absurd rfl hne
    | cons x xs => simp
  have hkeys : uniqueSorted (samples.map (·.1)) ≠ [] := by
    cases samples with
    | nil => exact absurd rfl hne
    | cons x xs =>
      intro h
      have : x.1 ∈ uniqueSorted ((x :: xs).map (·.1)) := (mem_uniqueSorted _ _).mpr (by simp)
      rw [h] at this; simp at this
  simp only [hl, kind_fold_tensor _ hkeys, foldl_sub_list, zero_sub, transc_ofNat, sumList_eq, beq_basis]
  have hg := sum_groups (fun key σ => probsToLogits ε (p key σ)) (uniqueSorted (samples.map (·.1)))
    (uniqueSorted_nodup _) samples (fun s hs => (mem_uniqueSorted _ _).mpr (List.mem_map.mpr ⟨s, hs, rfl⟩))
  rw [hg]
  rfl

/-- **C10.3a (wavefunction)** `NLL` with per-sample bases is minus the mean over the samples of the log of the clamped
probability the state assigns to each sample IN ITS OWN BASIS (`sampleProbPure`: `|⟨σ|U_β|ψ⟩|²/Z`, resp.
`probability(σ, Z)` for all-`Z` rows), independent of how the samples are grouped. -/
theorem C10_nll_formula (ε : ℝ) (n : ℕ) (d : Char → M2 ℝ) (psi : (Fin n → Bool) → C ℝ)
    (prob : (Fin n → Bool) → ℝ) (Z : ℝ) (samples : List (Fin n → Bool)) (bs : List (Basis n))
    (hlen : bs.length = samples.length) (hne : samples ≠ []) :
    nllPure ε n (some d) psi prob Z samples (some bs)
      = .ok ⟨.pyfloat, -(((bs.zip samples).map (fun s =>
          Real.log (clampProbs ε (sampleProbPure n d psi prob Z s.1 s.2)))).sum) / samples.length⟩ := by
  unfold nllPure
  have h1 : (bs.length != samples.length) = false := by simp [hlen]
  have hz : bs.zip samples ≠ [] := by
    cases samples with
    | nil => exact absurd rfl hne
    | cons x xs =>
      cases bs with
      | nil => simp at hlen
      | cons y ys => simp
  have hzl : (bs.zip samples).length = samples.length := by simp [hlen]
  simp only [h1, Bool.false_eq_true, if_false]
  rw [C10_nll_grouped ε _ _ hz, hzl]
  rfl

/-- **C10.3a (density matrix)** -/
theorem C10_nll_formula_mixed (ε : ℝ) (n : ℕ) (d : Char → M2 ℝ) (rho : (Fin n → Bool) → (Fin n → Bool) → C ℝ)
    (prob : (Fin n → Bool) → ℝ) (Z : ℝ) (samples : List (Fin n → Bool)) (bs : List (Basis n))
    (hlen : bs.length = samples.length) (hne : samples ≠ []) :
    nllMixed ε n d rho prob Z samples (some bs)
      = .ok ⟨.pyfloat, -(((bs.zip samples).map (fun s =>
          Real.log (clampProbs ε (sampleProbMixed n d rho prob Z s.1 s.2)))).sum) / samples.length⟩ := by
  unfold nllMixed
  have h1 : (bs.length != samples.length) = false := by simp [hlen]
  have hz : bs.zip samples ≠ [] := by
    cases samples with
    | nil => exact absurd rfl hne
    | cons x xs =>
      cases bs with
      | nil => simp at hlen
      | cons y ys => simp
  have hzl : (bs.zip samples).length = samples.length := by simp [hlen]
  simp only [h1, Bool.false_eq_true, if_false]
  rw [C10_nll_grouped ε _ _ hz, hzl]

/-- **C10.3a (`sample_bases=None`, either state type)** -/
theorem C10_nll_formula_none (ε : ℝ) (n : ℕ) (prob : (Fin n → Bool) → ℝ) (samples : List (Fin n → Bool)) :
    nllNone ε prob samples
      = .ok ⟨.pyfloat, -((samples.map (fun σ => Real.log (clampProbs ε (prob σ)))).sum / samples.length)⟩ := by
  simp only [nllNone, sumList_eq, transc_ofNat, bind, Except.bind, Kind.item, pure, Except.pure]
  rfl

/-- **C10.3b** the NLL is invariant under any permutation (hence any regrouping) of the (basis, sample) pairs. -/
theorem C10_nll_perm (ε : ℝ) {n : ℕ} (p : Basis n → (Fin n → Bool) → ℝ)
    (s1 s2 : List (Basis n × (Fin n → Bool))) (h : s1.Perm s2) :
    nllBases ε p s1 = nllBases ε p s2 := by
  by_cases h1 : s1 = []
  · subst h1
    have : s2 = [] := List.nil_perm.mp h
    subst this; rfl
  · have h2 : s2 ≠ [] := fun e => h1 (by subst e; exact List.perm_nil.mp h)
    rw [C10_nll_grouped ε p s1 h1, C10_nll_grouped ε p s2 h2, (h.map _).sum_eq, h.length_eq]

/-- on an all-`Z` basis row the per-sample probability is `probability(σ, Z)`, on any other row the rotated one -/
theorem C10_nll_sampleProb (n : ℕ) (d : Char → M2 ℝ) (psi : (Fin n → Bool) → C ℝ)
    (prob : (Fin n → Bool) → ℝ) (Z : ℝ) (b : Basis n) (σ : Fin n → Bool) :
    sampleProbPure n d psi prob Z b σ
      = if anyRot b then Complex.normSq (C10L.toC (Unitaries.rotatePsiInnerProd n (usOf d b) (rotOf b) psi σ)) / Z
        else prob σ := by
  unfold sampleProbPure
  split_ifs <;> simp [absSq_eq]

/-! ## 4. Kinds -/

theorem C10_kind_item {α : Type} (k : Kind) (v : α) :
    IsNumber (do let k' ← Kind.item k; return (⟨k', v⟩ : Res α)) := by
  intro x hx
  cases k <;> simp [Kind.item, bind, Except.bind, pure, Except.pure] at hx <;> (subst hx; exact Or.inl rfl)

section kinds
set_option linter.unusedSectionVars false
variable {α : Type} [Add α] [Mul α] [Neg α] [Sub α] [Div α] [Zero α] [One α] [Transc α]

theorem C10_kind_klMean {β : Type} (f : β → α) (items : List β) : IsNumber (klMean f items) := by
  unfold klMean
  split_ifs
  · intro x hx; cases hx
  · exact C10_kind_item _ _

theorem C10_kind_klNone (ε : α) (N : ℕ) (t p : ℕ → α) : IsNumber (klNone ε N t p) := C10_kind_item _ _

theorem C10_kind_nllBases (ε : α) {n : ℕ} (p : Basis n → (Fin n → Bool) → α)
    (samples : List (Basis n × (Fin n → Bool))) : IsNumber (nllBases ε p samples) := by
  unfold nllBases
  split_ifs
  · intro x hx; cases hx
  · exact C10_kind_item _ _

theorem C10_kind_nllNone (ε : α) {n : ℕ} (prob : (Fin n → Bool) → α) (samples : List (Fin n → Bool)) :
    IsNumber (nllNone ε prob samples) := C10_kind_item _ _

/-- **C10.4** on EVERY code path of the model — every carrier (so also the `Float` instance the driver runs), every
state type, target form, list of bases, sample list — a returned value is a Python `float` or a `numpy.float64`,
never a tensor. (With the `.item()` of F4 removed, `nllBases` would end in `Kind.arith .tensor .pyfloat = .tensor`.) -/
theorem C10_kind (ε : α) (n N : ℕ) (dp : Option (Char → M2 α)) (d : Char → M2 α)
    (psi : (Fin n → Bool) → C α) (rho : (Fin n → Bool) → (Fin n → Bool) → C α) (prob : (Fin n → Bool) → α) (Z : α) :
    (∀ t ψ, IsNumber (fidelityPureRes N t ψ Z)) ∧
    (∀ eig : List (C α), IsNumber (fidelityMixedRes eig)) ∧
    (∀ target bases, IsNumber (klPure ε n dp psi prob Z target bases)) ∧
    (∀ target bases, IsNumber (klMixed ε n d rho prob Z target bases)) ∧
    (∀ samples sb, IsNumber (nllPure ε n dp psi prob Z samples sb)) ∧
    (∀ samples sb, IsNumber (nllMixed ε n d rho prob Z samples sb)) := by
  refine ⟨fun t ψ => C10_kind_item _ _, ?_, ?_, ?_, ?_, ?_⟩
  · intro eig x hx
    simp only [fidelityMixedRes, Except.ok.injEq] at hx
    subst hx; exact Or.inr rfl
  · intro target bases
    unfold klPure
    cases hres : resolve target bases with
    | error e => intro x hx; simp [bind, Except.bind] at hx
    | ok plan =>
      simp only [bind, Except.bind]
      cases plan with
      | noBases t => exact C10_kind_klNone _ _ _ _
      | list items => exact C10_kind_klMean _ _
  · intro target bases
    unfold klMixed
    cases hres : resolve target bases with
    | error e => intro x hx; simp [bind, Except.bind] at hx
    | ok plan =>
      simp only [bind, Except.bind]
      cases plan with
      | noBases t => exact C10_kind_klNone _ _ _ _
      | list items => exact C10_kind_klMean _ _
  · intro samples sb
    unfold nllPure
    cases sb with
    | none => exact C10_kind_nllNone _ _ _
    | some bs =>
      simp only
      split_ifs
      · intro x hx; cases hx
      · exact C10_kind_nllBases _ _ _
  · intro samples sb
    unfold nllMixed
    cases sb with
    | none => exact C10_kind_nllNone _ _ _
    | some bs =>
      simp only
      split_ifs
      · intro x hx; cases hx
      · exact C10_kind_nllBases _ _ _

end kinds

/-- **F10 (fixed by 4aa6393), in the model.** A state without a `unitary_dict` attribute (`dict = none`:
`PositiveWaveFunction`) evaluates `KL` over a list of bases and `NLL` with per-sample bases exactly as a state carrying
the default dictionary `create_dict()` would — so every theorem of this file stated for `some d` (formula, non-negativity,
self-zero, permutation invariance, result kind) applies to positive wavefunctions with `d = defaultDict`. Before the fix
these paths raised `AttributeError` (the former known finding F10); the check replays the old witness on the
implementation on every run and now expects numbers. -/
theorem C10_pos_default_dict (ε : ℝ) (n : ℕ) (psi : (Fin n → Bool) → C ℝ) (prob : (Fin n → Bool) → ℝ) (Z : ℝ) :
    (∀ (target : Target (ℕ → C ℝ) n) (bases : Option (List (Basis n))),
      klPure ε n none psi prob Z target bases = klPure ε n (some defaultDict) psi prob Z target bases) ∧
    (∀ (samples : List (Fin n → Bool)) (sb : Option (List (Basis n))),
      nllPure ε n none psi prob Z samples sb = nllPure ε n (some defaultDict) psi prob Z samples sb) :=
  ⟨fun _ _ => rfl, fun _ _ => rfl⟩

/-! ## 5. Mixed fidelity -/

/-- **C10.5, value for an arbitrary eigenvalue list** (the `_partial` in the name is historical — the check refers to
it; the link to the Uhlmann fidelity is `C10_fid_mixed_uhlmann` below). GIVEN the eigenvalue list `eig` that
`np.linalg.eigvals(target·ρ/Z)` returned, whatever it is:
(a) the value is `(Σ_i √|Re λ_i|)²`, returned as a `numpy.float64`;
(b) it is non-negative;
(c) if the real parts of `eig` are, up to order, the squares `μ_i²` of non-negative reals summing to one — the case
    of the model's own state, where `target·ρ̂ = ρ̂²` and `μ` are the eigenvalues of the PSD trace-one `ρ̂` — the value
    is `(tr ρ̂)² = 1`. -/
theorem C10_fid_mixed_partial (eig : List (C ℝ)) :
    fidelityMixedRes eig = .ok ⟨.npfloat, ((eig.map (fun l => √|l.1|)).sum) ^ 2⟩
    ∧ 0 ≤ fidelityMixed eig
    ∧ ∀ μ : List ℝ, (∀ m ∈ μ, 0 ≤ m) → μ.sum = 1 → (eig.map Prod.fst).Perm (μ.map (fun m => m ^ 2)) →
        fidelityMixed eig = 1 := by
  have hval : fidelityMixed eig = ((eig.map (fun l => √|l.1|)).sum) ^ 2 := by
    simp only [fidelityMixed, sumList_eq, transc_sqrt, transc_abs]; ring
  refine ⟨?_, ?_, ?_⟩
  · simp only [fidelityMixedRes, hval]; rfl
  · rw [hval]; positivity
  · intro μ hμ hsum hperm
    rw [hval]
    have h1 : (eig.map (fun l => √|l.1|)) = (eig.map Prod.fst).map (fun x => √|x|) := by
      rw [List.map_map]; rfl
    rw [h1, (hperm.map _).sum_eq, List.map_map]
    have h2 : μ.map ((fun x => √|x|) ∘ fun m => m ^ 2) = μ.map id := by
      refine List.map_congr_left (fun m hm => ?_)
      simp only [Function.comp, id]
      rw [abs_of_nonneg (by positivity), Real.sqrt_sq (hμ m hm)]
    rw [h2, List.map_id, hsum]; norm_num

/-! ### 5b. The mixed fidelity IS the Uhlmann fidelity (spectral theory of a product of two PSD matrices)

What is assumed about the external routine, and nothing else: the list `eig` handed to `fidelityMixed` is, as a
multiset (any order), the multiset of roots of the characteristic polynomial of the matrix the code passes to
`np.linalg.eigvals` — eigenvalues counted with algebraic multiplicity, which is what a correct eigenvalue routine
returns.  `C10L.toC` reads the model's real pair as a complex number. -/

section uhlmann
open Matrix
open scoped ComplexOrder MatrixOrder
variable {ι : Type} [Fintype ι] [DecidableEq ι]

/-- SPECIFICATION: the root Uhlmann fidelity `tr √(√ρ σ √ρ)` of two complex matrices, `√` being the positive
semidefinite square root (Mathlib's `CFC.sqrt` in the C⋆-algebra of matrices ordered by `A ≤ B ↔ B − A` PSD; it is
characterised by `C10_psd_sqrt_spec`).  The Uhlmann fidelity is its square. -/
noncomputable def uhlmannTr (σ ρ : Matrix ι ι ℂ) : ℂ := (CFC.sqrt (CFC.sqrt ρ * σ * CFC.sqrt ρ)).trace

/-- `CFC.sqrt ρ` is THE positive semidefinite square root of a PSD `ρ`: it is PSD, squares to `ρ`, and is the only
such matrix. -/
theorem C10_psd_sqrt_spec (ρ : Matrix ι ι ℂ) (hρ : ρ.PosSemidef) :
    (CFC.sqrt ρ).PosSemidef ∧ CFC.sqrt ρ * CFC.sqrt ρ = ρ ∧
    ∀ B : Matrix ι ι ℂ, B.PosSemidef → B * B = ρ → B = CFC.sqrt ρ :=
  ⟨psd_sqrt_posSemidef ρ, psd_sqrt_mul_self ρ hρ, fun _ hB h => (CFC.sqrt_unique h hB.nonneg).symm⟩

/-- **C10.5, Uhlmann's identity.** Let `σ` (target) and `ρ` (model, `ρ/Z`) be positive semidefinite complex matrices
over any finite index type. If the eigenvalue list `eig` is, up to order, the multiset of roots of the characteristic
polynomial of `σ * ρ` (with multiplicity), then the value `(Σ √|Re λ|)²` the code computes is the squared Uhlmann
fidelity `(tr √(√ρ σ √ρ))²` — as a complex identity (so the trace is real) and in the real form `(Re tr …)²`.
No normalisation is needed for this identity. -/
theorem C10_fid_mixed_uhlmann (σ ρ : Matrix ι ι ℂ) (hσ : σ.PosSemidef) (hρ : ρ.PosSemidef)
    (eig : List (C ℝ)) (heig : ((eig.map C10L.toC : List ℂ) : Multiset ℂ) = (σ * ρ).charpoly.roots) :
    ((fidelityMixed eig : ℝ) : ℂ) = uhlmannTr σ ρ ^ 2 ∧ fidelityMixed eig = (uhlmannTr σ ρ).re ^ 2 := by
  have hM := sandwich_posSemidef σ ρ hσ
  have htr : uhlmannTr σ ρ = ((∑ i, √(hM.1.eigenvalues i) : ℝ) : ℂ) := trace_psd_sqrt _ hM
  have hv := fidelityMixed_eq_sum σ ρ hσ hρ eig heig
  constructor
  · rw [htr, hv]; push_cast; rfl
  · rw [htr, hv, Complex.ofReal_re]

/-- **C10.5, range.** For PSD `σ`, `ρ` of trace one the root fidelity `tr √(√ρ σ √ρ)` is a real number in `[0,1]`
(`tr √(√ρ σ √ρ) = ‖√σ √ρ‖₁ ≤ (tr σ + tr ρ)/2`), hence the value the code returns from the spectrum of `σ * ρ` lies in
`[0,1]`. -/
theorem C10_fid_mixed_range (σ ρ : Matrix ι ι ℂ) (hσ : σ.PosSemidef) (hρ : ρ.PosSemidef)
    (hσ1 : σ.trace = 1) (hρ1 : ρ.trace = 1) :
    ((uhlmannTr σ ρ).im = 0 ∧ 0 ≤ (uhlmannTr σ ρ).re ∧ (uhlmannTr σ ρ).re ≤ 1) ∧
    ∀ eig : List (C ℝ), ((eig.map C10L.toC : List ℂ) : Multiset ℂ) = (σ * ρ).charpoly.roots →
      0 ≤ fidelityMixed eig ∧ fidelityMixed eig ≤ 1 := by
  have hM := sandwich_posSemidef σ ρ hσ
  have htr : uhlmannTr σ ρ = ((∑ i, √(hM.1.eigenvalues i) : ℝ) : ℂ) := trace_psd_sqrt _ hM
  have h0 : 0 ≤ ∑ i, √(hM.1.eigenvalues i) := Finset.sum_nonneg (fun i _ => Real.sqrt_nonneg _)
  have h1 : ∑ i, √(hM.1.eigenvalues i) ≤ 1 := by
    have h := sum_sqrt_eigenvalues_le σ ρ hσ hρ
    rw [hσ1, hρ1, Complex.one_re] at h
    linarith
  refine ⟨⟨?_, ?_, ?_⟩, fun eig heig => ?_⟩
  · rw [htr, Complex.ofReal_im]
  · rwa [htr, Complex.ofReal_re]
  · rwa [htr, Complex.ofReal_re]
  · rw [fidelityMixed_eq_sum σ ρ hσ hρ eig heig]
    exact ⟨by positivity, pow_le_one₀ h0 h1⟩

/-- **C10.5, own state.** For a PSD `ρ` of trace one, `√ρ ρ √ρ = ρ²`, `√(ρ²) = ρ`, so the root fidelity of `ρ` with
itself is `tr ρ = 1`, and the value the code returns from the spectrum of `ρ * ρ` is exactly 1. -/
theorem C10_fid_mixed_self_uhlmann (ρ : Matrix ι ι ℂ) (hρ : ρ.PosSemidef) (hρ1 : ρ.trace = 1) :
    uhlmannTr ρ ρ = 1 ∧
    ∀ eig : List (C ℝ), ((eig.map C10L.toC : List ℂ) : Multiset ℂ) = (ρ * ρ).charpoly.roots → fidelityMixed eig = 1 := by
  have hsq : CFC.sqrt ρ * ρ * CFC.sqrt ρ = ρ * ρ := by
    calc CFC.sqrt ρ * ρ * CFC.sqrt ρ
        = CFC.sqrt ρ * (CFC.sqrt ρ * CFC.sqrt ρ) * CFC.sqrt ρ := by rw [psd_sqrt_mul_self ρ hρ]
      _ = (CFC.sqrt ρ * CFC.sqrt ρ) * (CFC.sqrt ρ * CFC.sqrt ρ) := by simp only [Matrix.mul_assoc]
      _ = ρ * ρ := by rw [psd_sqrt_mul_self ρ hρ]
  have h1 : uhlmannTr ρ ρ = 1 := by
    rw [uhlmannTr, hsq, CFC.sqrt_mul_self ρ hρ.nonneg, hρ1]
  refine ⟨h1, fun eig heig => ?_⟩
  rw [(C10_fid_mixed_uhlmann ρ ρ hρ hρ eig heig).2, h1]; norm_num

/-- **C10.5 on the model's own matrices.** `σ̂ = matC N T` is the target, `ρ̂ = matC N (ρ/Z)` the normalised model
state (PSD by C02_posSemidef), and `eig` is the spectrum of the very matrix the model hands to `np.linalg.eigvals`
(`fidProd = σ̂·ρ̂`): the returned value is the squared Uhlmann fidelity of `σ̂` and `ρ̂`, and lies in `[0,1]` when both
have trace one (C02_trace for `ρ̂`). -/
theorem C10_fid_mixed_uhlmann_model (N : ℕ) (T rho : ℕ → ℕ → C ℝ) (Z : ℝ)
    (hT : (matC N T).PosSemidef)
    (hpsd : (matC N (fun i j => ((rho i j).1 / Z, (rho i j).2 / Z))).PosSemidef)
    (eig : List (C ℝ))
    (heig : ((eig.map C10L.toC : List ℂ) : Multiset ℂ) = (matC N (fidProd N T rho Z)).charpoly.roots) :
    fidelityMixed eig = (uhlmannTr (matC N T) (matC N (fun i j => ((rho i j).1 / Z, (rho i j).2 / Z)))).re ^ 2
    ∧ ((matC N T).trace = 1 → (matC N (fun i j => ((rho i j).1 / Z, (rho i j).2 / Z))).trace = 1 →
        0 ≤ fidelityMixed eig ∧ fidelityMixed eig ≤ 1) := by
  rw [matC_fidProd] at heig
  exact ⟨(C10_fid_mixed_uhlmann _ _ hT hpsd eig heig).2,
    fun h1 h2 => (C10_fid_mixed_range _ _ hT hpsd h1 h2).2 eig heig⟩

/-- **C10.5, self-fidelity on the model's own matrices** (the instance `σ̂ = ρ̂` of `C10_fid_mixed_self_uhlmann`). Let
the target be the model's own normalised density matrix `ρ̂ = ρ/Z`, positive semidefinite with trace one
(C02_posSemidef, C02_trace). If the external eigenvalue list `eig` is the spectrum — the roots of the characteristic
polynomial, with multiplicity — of the very matrix the model hands to `np.linalg.eigvals` (`fidProd = ρ̂·ρ̂`), then the
returned fidelity is exactly 1. -/
theorem C10_fid_mixed_self (N : ℕ) (rho : ℕ → ℕ → C ℝ) (Z : ℝ)
    (hpsd : (matC N (fun i j => ((rho i j).1 / Z, (rho i j).2 / Z))).PosSemidef)
    (htr : (matC N (fun i j => ((rho i j).1 / Z, (rho i j).2 / Z))).trace = 1)
    (eig : List (C ℝ))
    (heig : ((eig.map C10L.toC : List ℂ) : Multiset ℂ)
      = (matC N (fidProd N (fun i j => ((rho i j).1 / Z, (rho i j).2 / Z)) rho Z)).charpoly.roots) :
    fidelityMixed eig = 1 := by
  rw [matC_fidProd] at heig
  exact (C10_fid_mixed_self_uhlmann _ hpsd htr).2 eig heig

/-- non-vacuity of `C10_fid_mixed_uhlmann` / `C10_fid_mixed_range` on a non-trivial pair: the pure state `|0⟩⟨0|` against
the maximally mixed qubit state `𝟙/2`; `σρ = diag(1/2, 0)`, and the Uhlmann fidelity is `1/2`. -/
example : fidelityMixed ([(1 / 2, 0), (0, 0)] : List (C ℝ))
      = (uhlmannTr (diagonal ![1, 0] : Matrix (Fin 2) (Fin 2) ℂ) (diagonal ![1 / 2, 1 / 2])).re ^ 2
    ∧ fidelityMixed ([(1 / 2, 0), (0, 0)] : List (C ℝ)) = 1 / 2 := by
  refine ⟨(C10_fid_mixed_uhlmann _ _ ?_ ?_ _ ?_).2, ?_⟩
  · refine PosSemidef.diagonal (fun i => ?_); fin_cases i <;> simp
  · refine PosSemidef.diagonal (fun i => ?_); fin_cases i <;> simp
  · rw [diagonal_mul_diagonal, roots_charpoly_diagonal]
    simp only [C10L.toC, Fin.univ_val_map, List.map_cons, List.map_nil, List.ofFn_succ, List.ofFn_zero, Multiset.coe_eq_coe]
    refine List.Perm.of_eq ?_
    simp [Complex.ext_iff]
  · have h : (0 : ℝ) ≤ 1 / 2 := by norm_num
    simp only [fidelityMixed, sumList_eq, transc_sqrt, transc_abs, List.map_cons, List.map_nil, List.sum_cons,
      List.sum_nil, abs_zero, Real.sqrt_zero, add_zero, abs_of_nonneg h, Real.mul_self_sqrt h]

end uhlmann

/-- non-vacuity of (c): eigenvalues `{1/4, 1/4}` are the squares of `{1/2, 1/2}` -/
example : fidelityMixed ([(1 / 4, 0), (1 / 4, 0)] : List (C ℝ)) = 1 :=
  (C10_fid_mixed_partial _).2.2 [1 / 2, 1 / 2] (by intro m hm; simp at hm; rcases hm with rfl | rfl; all_goals norm_num)
    (by norm_num) (by simp; norm_num)

/-! ## 6. The hypotheses on the state are discharged by C01 for the RBM wavefunctions the driver runs -/

section rbm
variable {n h : ℕ}

/-- the complex / positive RBM wavefunction, its normalisation and probability, exactly as `DriverLib.C10` hands
them to the metrics -/
noncomputable def rbmPsi (am ph : RBM ℝ n h) : (Fin n → Bool) → C ℝ := fun σ => Wave.psiCplx am ph (fun j => bit (σ j))
noncomputable def rbmPsiPos (am : RBM ℝ n h) : (Fin n → Bool) → C ℝ := fun σ => Wave.psiPos am (fun j => bit (σ j))
noncomputable def rbmZ (am : RBM ℝ n h) : ℝ :=
  Wave.normalization am (fun k : Fin (2 ^ n) => (spaceRow n k.val : Fin n → ℝ))
noncomputable def rbmProb (am : RBM ℝ n h) : (Fin n → Bool) → ℝ :=
  fun σ => Wave.probability am (fun j => bit (σ j)) (rbmZ am)

theorem C10_rbm_Z_pos (am : RBM ℝ n h) : 0 < rbmZ am := C01_normalization_pos am

theorem C10_rbm_Z_eq (am ph : RBM ℝ n h) : rbmZ am = normSqVec (2 ^ n) (vecOf n (rbmPsi am ph)) := by
  unfold rbmZ normSqVec vecOf rbmPsi
  rw [C01_normalization, ← sum_rows n (fun σ => Wave.probability am (fun j => bit (σ j)) 1)]
  refine Finset.sum_congr rfl (fun k _ => ?_)
  rw [normSq_toC, C01_normSq_psi_complex]; rfl

theorem C10_rbm_Z_eq_pos (am : RBM ℝ n h) : rbmZ am = normSqVec (2 ^ n) (vecOf n (rbmPsiPos am)) := by
  unfold rbmZ normSqVec vecOf rbmPsiPos
  rw [C01_normalization, ← sum_rows n (fun σ => Wave.probability am (fun j => bit (σ j)) 1)]
  refine Finset.sum_congr rfl (fun k _ => ?_)
  rw [normSq_toC, C01_normSq_psi_positive]; rfl

theorem C10_rbm_born (am ph : RBM ℝ n h) (σ : Fin n → Bool) :
    rbmProb am σ = ((rbmPsi am ph σ).1 ^ 2 + (rbmPsi am ph σ).2 ^ 2) / rbmZ am := by
  unfold rbmPsi
  rw [C01_normSq_psi_complex]; simp [rbmProb, Wave.probability]

theorem C10_rbm_born_pos (am : RBM ℝ n h) (σ : Fin n → Bool) :
    rbmProb am σ = ((rbmPsiPos am σ).1 ^ 2 + (rbmPsiPos am σ).2 ^ 2) / rbmZ am := by
  unfold rbmPsiPos
  rw [C01_normSq_psi_positive]; simp [rbmProb, Wave.probability]

/-- **C10.1 for the RBM states, no hypotheses left** (all `n`, `h`, all real parameters): against every normalised
target the fidelity of a complex RBM wavefunction is the squared overlap of the normalised states and lies in `[0,1]`;
against its own normalised state it is 1. -/
theorem C10_fid_rbm (am ph : RBM ℝ n h) (t : ℕ → C ℝ) (ht : normSqVec (2 ^ n) t = 1) :
    fidelityPure (2 ^ n) t (vecOf n (rbmPsi am ph)) (rbmZ am) = overlapSq (2 ^ n) t (vecOf n (rbmPsi am ph))
    ∧ 0 ≤ fidelityPure (2 ^ n) t (vecOf n (rbmPsi am ph)) (rbmZ am)
    ∧ fidelityPure (2 ^ n) t (vecOf n (rbmPsi am ph)) (rbmZ am) ≤ 1 :=
  ⟨C10_fid_overlap_normalised _ t _ _ (C10_rbm_Z_pos am) (C10_rbm_Z_eq am ph) ht,
   (C10_fid_range _ t _ _ (C10_rbm_Z_pos am) (C10_rbm_Z_eq am ph) ht).1,
   (C10_fid_range _ t _ _ (C10_rbm_Z_pos am) (C10_rbm_Z_eq am ph) ht).2⟩

theorem C10_fid_self_rbm (am ph : RBM ℝ n h) :
    fidelityPure (2 ^ n) (fun k => ((vecOf n (rbmPsi am ph) k).1 / √(rbmZ am), (vecOf n (rbmPsi am ph) k).2 / √(rbmZ am)))
      (vecOf n (rbmPsi am ph)) (rbmZ am) = 1 :=
  C10_fid_self _ _ _ (C10_rbm_Z_pos am) (C10_rbm_Z_eq am ph)

theorem C10_fid_self_rbm_pos (am : RBM ℝ n h) :
    fidelityPure (2 ^ n) (fun k => ((vecOf n (rbmPsiPos am) k).1 / √(rbmZ am), (vecOf n (rbmPsiPos am) k).2 / √(rbmZ am)))
      (vecOf n (rbmPsiPos am)) (rbmZ am) = 1 :=
  C10_fid_self _ _ _ (C10_rbm_Z_pos am) (C10_rbm_Z_eq_pos am)

/-- **C10.2c for the RBM states, `bases=None`, no hypotheses left**: KL against the own normalised state is 0. -/
theorem C10_kl_self_zero_none_rbm (ε : ℝ) (d : Option (Char → M2 ℝ)) (am ph : RBM ℝ n h) :
    klPure ε n d (rbmPsi am ph) (rbmProb am) (rbmZ am)
      (.once (fun k => ((vecOf n (rbmPsi am ph) k).1 / √(rbmZ am), (vecOf n (rbmPsi am ph) k).2 / √(rbmZ am)))) none
      = .ok ⟨.pyfloat, 0⟩ :=
  C10_kl_self_zero_none ε n d _ _ _ (C10_rbm_Z_pos am).le (C10_rbm_born am ph)

theorem C10_kl_self_zero_none_rbm_pos (ε : ℝ) (d : Option (Char → M2 ℝ)) (am : RBM ℝ n h) :
    klPure ε n d (rbmPsiPos am) (rbmProb am) (rbmZ am)
      (.once (fun k => ((vecOf n (rbmPsiPos am) k).1 / √(rbmZ am), (vecOf n (rbmPsiPos am) k).2 / √(rbmZ am)))) none
      = .ok ⟨.pyfloat, 0⟩ :=
  C10_kl_self_zero_none ε n d _ _ _ (C10_rbm_Z_pos am).le (C10_rbm_born_pos am)

/-- **C10.2c for the complex RBM state, every non-empty list of bases and every dictionary, no hypotheses left.** -/
theorem C10_kl_self_zero_rbm (ε : ℝ) (d : Char → M2 ℝ) (am ph : RBM ℝ n h) (b : Basis n) (bs : List (Basis n)) :
    klPure ε n (some d) (rbmPsi am ph) (rbmProb am) (rbmZ am)
      (.once (fun k => ((vecOf n (rbmPsi am ph) k).1 / √(rbmZ am), (vecOf n (rbmPsi am ph) k).2 / √(rbmZ am))))
      (some (b :: bs)) = .ok ⟨.pyfloat, 0⟩ := by
  refine C10_kl_self_zero ε n d _ _ _ (C10_rbm_Z_pos am).le _ _ _ (C10_kl_resolve_once _ _) (by simp) ?_
  intro it hit
  obtain ⟨b', _, rfl⟩ := List.mem_map.mp hit
  intro k; rfl

end rbm

/-! ## 7. Composition with C04 (the model's rotations ARE the dense Kronecker rotation) and C02 -/

section compose
open Matrix
open scoped ComplexOrder
variable {n : ℕ}

/-- SPECIFICATION (not the code). Born distribution of the pure state `ψ` (any norm) measured in the product basis with
per-site unitaries `us`: `|(U ψ)(σ)|²`, `U = ⊗_j us_j` the dense Kronecker operator of C04 (`denseK`, site 0 leftmost). -/
noncomputable def bornPure (us : Fin n → M2 ℝ) (ψ : (Fin n → Bool) → ℂ) (σ : Fin n → Bool) : ℝ :=
  Complex.normSq ((denseK us).mulVec ψ σ)

/-- SPECIFICATION. Born distribution of the density matrix `ρ` in that basis: `Re (U ρ U†)(σ,σ)`. -/
noncomputable def bornMixed (us : Fin n → M2 ℝ) (ρ : Matrix (Fin n → Bool) (Fin n → Bool) ℂ) (σ : Fin n → Bool) : ℝ :=
  ((denseK us * ρ * (denseK us)ᴴ) σ σ).re

/-- **KL's Born distributions are the dense ones (wavefunction).** Entry `basisIndex σ` of the model's `pureBorn`
(the `_kron_mult` sweep) is `|(U v)(σ)|²` — for EVERY dictionary, basis and vector (C04_rotate_psi). -/
theorem C10_pureBorn_dense (d : Char → M2 ℝ) (b : Basis n) (v : ℕ → C ℝ) (σ : Fin n → Bool) :
    pureBorn n d b v (basisIndex σ) = bornPure (usOf d b) (fun τ => C10L.toC (v (basisIndex τ))) σ := by
  have hp : psiVec (n := n) v = fun τ => C10L.toC (v (basisIndex τ)) := by
    funext τ; simp only [psiVec, C04_index_convention]; rfl
  have h := congrFun (C04_rotate_psi (usOf d b) v) σ
  rw [hp] at h
  simp only [psiVec, ← C04_index_convention] at h
  unfold pureBorn bornPure
  rw [toC_eq, h]

/-- the same at position `k` of the generated Hilbert space -/
theorem C10_pureBorn_dense_row (d : Char → M2 ℝ) (b : Basis n) (v : ℕ → C ℝ) (k : ℕ) (hk : k < 2 ^ n) :
    pureBorn n d b v k = bornPure (usOf d b) (fun τ => C10L.toC (v (basisIndex τ))) (row n k) := by
  rw [← C10_pureBorn_dense, basisIndex_row k hk]

/-- **KL's / NLL's Born distributions are the dense ones (density matrix)**: entry `basisIndex σ` of `mixedBorn`
(`rotate_rho_probs`) is `Re (U ρ U†)(σ,σ)` whenever the dictionary's `Z` is the identity (C04_rho_probs_dense). -/
theorem C10_mixedBorn_dense (d : Char → M2 ℝ) (hZ : m2c (d 'Z') = 1) (b : Basis n)
    (ρ : (Fin n → Bool) → (Fin n → Bool) → C ℝ) (σ : Fin n → Bool) :
    mixedBorn n d b ρ (basisIndex σ) = bornMixed (usOf d b) (Matrix.of fun a c => C10L.toC (ρ a c)) σ := by
  unfold mixedBorn bornMixed
  rw [row_basisIndex, C04_rho_probs_dense _ _ _ _ (usOf_Z d hZ b)]
  rfl

/-- **C10.3 (NLL ↔ Born, wavefunction).** The probability `NLL` assigns to sample `σ` measured in basis `b` is the entry at
`σ` of the very Born distribution `KL` uses for that basis (`pureBorn … / Z`), i.e. `|(U_b ψ)(σ)|² / Z` with the dense
Kronecker `U_b` — on rotated rows (`rotate_psi_inner_prod`, C04_inner_prod_dense) and on all-`Z` rows
(`probability(σ, Z)`, Born rule of the state `hborn`: C01). Needs the dictionary's `Z` to be the identity. -/
theorem C10_nll_born (d : Char → M2 ℝ) (hZ : m2c (d 'Z') = 1) (psi : (Fin n → Bool) → C ℝ)
    (prob : (Fin n → Bool) → ℝ) (Z : ℝ) (hborn : ∀ σ, prob σ = ((psi σ).1 ^ 2 + (psi σ).2 ^ 2) / Z)
    (b : Basis n) (σ : Fin n → Bool) :
    sampleProbPure n d psi prob Z b σ = pureBorn n d b (vecOf n psi) (basisIndex σ) / Z
    ∧ sampleProbPure n d psi prob Z b σ = bornPure (usOf d b) (fun τ => C10L.toC (psi τ)) σ / Z := by
  have hv : (fun τ : Fin n → Bool => C10L.toC (vecOf n psi (basisIndex τ))) = fun τ => C10L.toC (psi τ) := by
    funext τ; simp only [vecOf, row_basisIndex]
  have h2 : sampleProbPure n d psi prob Z b σ = bornPure (usOf d b) (fun τ => C10L.toC (psi τ)) σ / Z := by
    unfold sampleProbPure bornPure
    have hd := C04_inner_prod_dense (usOf d b) (rotOf b) psi σ (usOf_Z d hZ b)
    by_cases hr : anyRot b = true
    · rw [if_pos hr, absSq_eq, toC_eq, hd]; rfl
    · rw [if_neg hr, hborn, ← normSq_toC]
      have hone : denseK (usOf d b) = 1 := by
        rw [← C04_fastK_eq_dense _ _ (usOf_Z d hZ b)]
        exact fastK_one _ _ (anyRot_false (by simpa using hr))
      rw [hone, Matrix.one_mulVec]
  refine ⟨?_, h2⟩
  rw [h2, C10_pureBorn_dense, hv]

/-- **C10.3 (NLL ↔ Born, density matrix)**: `rotate_rho_probs(σ)/Z` resp. `probability(σ, Z) = Re ρ(σ,σ)/Z`
(C02_diagonal) is the entry at `σ` of `mixedBorn … / Z`, i.e. `Re (U_b ρ U_b†)(σ,σ) / Z`. -/
theorem C10_nll_born_mixed (d : Char → M2 ℝ) (hZ : m2c (d 'Z') = 1) (rho : (Fin n → Bool) → (Fin n → Bool) → C ℝ)
    (prob : (Fin n → Bool) → ℝ) (Z : ℝ) (hdiag : ∀ σ, prob σ = (rho σ σ).1 / Z)
    (b : Basis n) (σ : Fin n → Bool) :
    sampleProbMixed n d rho prob Z b σ = mixedBorn n d b rho (basisIndex σ) / Z
    ∧ sampleProbMixed n d rho prob Z b σ = bornMixed (usOf d b) (Matrix.of fun a c => C10L.toC (rho a c)) σ / Z := by
  have h1 : sampleProbMixed n d rho prob Z b σ = mixedBorn n d b rho (basisIndex σ) / Z := by
    unfold sampleProbMixed mixedBorn
    rw [row_basisIndex]
    by_cases hr : anyRot b = true
    · rw [if_pos hr]
    · rw [if_neg hr, hdiag, C04_rho_probs, fastK_one _ _ (anyRot_false (by simpa using hr))]
      simp
  exact ⟨h1, by rw [h1, C10_mixedBorn_dense d hZ]⟩

/-- **C10.3a restated with the Born distributions (wavefunction).** `NLL` with per-sample bases is minus the mean over the
samples of `log clamp_ε(P_β(σ))`, `P_β(σ) = |(U_β ψ)(σ)|²/Z` the Born probability of the sample in ITS OWN basis — the
same distribution `KL` compares with the target. The clamp stays in the statement: below `ε` (above `1−ε`) the summand is
`log ε` (`log(1−ε)`), not the log Born probability. -/
theorem C10_nll_formula_born (ε : ℝ) (d : Char → M2 ℝ) (hZ : m2c (d 'Z') = 1) (psi : (Fin n → Bool) → C ℝ)
    (prob : (Fin n → Bool) → ℝ) (Z : ℝ) (hborn : ∀ σ, prob σ = ((psi σ).1 ^ 2 + (psi σ).2 ^ 2) / Z)
    (samples : List (Fin n → Bool)) (bs : List (Basis n))
    (hlen : bs.length = samples.length) (hne : samples ≠ []) :
    nllPure ε n (some d) psi prob Z samples (some bs)
      = .ok ⟨.pyfloat, -(((bs.zip samples).map (fun s =>
          Real.log (clampProbs ε (bornPure (usOf d s.1) (fun τ => C10L.toC (psi τ)) s.2 / Z)))).sum) / samples.length⟩ := by
  rw [C10_nll_formula ε n d psi prob Z samples bs hlen hne]
  simp only [(C10_nll_born d hZ psi prob Z hborn _ _).2]

/-- **C10.3a restated with the Born distributions (density matrix).** -/
theorem C10_nll_formula_born_mixed (ε : ℝ) (d : Char → M2 ℝ) (hZ : m2c (d 'Z') = 1)
    (rho : (Fin n → Bool) → (Fin n → Bool) → C ℝ)
    (prob : (Fin n → Bool) → ℝ) (Z : ℝ) (hdiag : ∀ σ, prob σ = (rho σ σ).1 / Z)
    (samples : List (Fin n → Bool)) (bs : List (Basis n))
    (hlen : bs.length = samples.length) (hne : samples ≠ []) :
    nllMixed ε n d rho prob Z samples (some bs)
      = .ok ⟨.pyfloat, -(((bs.zip samples).map (fun s =>
          Real.log (clampProbs ε (bornMixed (usOf d s.1) (Matrix.of fun a c => C10L.toC (rho a c)) s.2 / Z)))).sum)
            / samples.length⟩ := by
  rw [C10_nll_formula_mixed ε n d rho prob Z samples bs hlen hne]
  simp only [(C10_nll_born_mixed d hZ rho prob Z hdiag _ _).2]

/-! ### normalisation of the Born distributions (C04 unitarity), the default dictionary -/

/-- `create_dict()`: `Z` is the identity … -/
theorem C10_defaultDict_Z : m2c (defaultDict (α := ℝ) 'Z') = 1 := by
  have : defaultDict (α := ℝ) 'Z' = Unitaries.dZ := by simp [defaultDict]
  rw [this, C04_dZ]

/-- … and every entry is unitary (C04_dX_unitary, C04_dY_unitary, C04_dZ) -/
theorem C10_defaultDict_unitary (c : Char) : (m2c (defaultDict (α := ℝ) c))ᴴ * m2c (defaultDict c) = 1 := by
  unfold defaultDict
  split_ifs
  · exact C04_dX_unitary
  · exact C04_dY_unitary
  · rw [C04_dZ]; simp

/-- the Born probabilities of a vector sum to its squared norm in every basis of a unitary dictionary (C04_psi_probs_sum) -/
theorem C10_pureBorn_sum (d : Char → M2 ℝ) (hU : ∀ c, (m2c (d c))ᴴ * m2c (d c) = 1) (b : Basis n) (v : ℕ → C ℝ) :
    ∑ k : Fin (2 ^ n), pureBorn n d b v k.val = normSqVec (2 ^ n) v := by
  have h := C04_psi_probs_sum (usOf d b) (fun j => hU _) v
  rw [← sum_rows n, ← sum_rows n] at h
  unfold normSqVec pureBorn
  have hidx : ∀ k : Fin (2 ^ n), idxOf (rowBits n k.val) = k.val := by
    intro k
    rw [← C04_index_convention]
    exact basisIndex_row k.val k.isLt
  simp only [psiVec, hidx] at h
  exact h

/-- the Born probabilities of a matrix sum to the real part of its trace in every basis of a unitary dictionary with
`Z ↦ 1` (C04_rho_probs_dense, C04_rho_probs_sum, C04_dense_unitary) -/
theorem C10_mixedBorn_sum (d : Char → M2 ℝ) (hU : ∀ c, (m2c (d c))ᴴ * m2c (d c) = 1) (hZ : m2c (d 'Z') = 1)
    (b : Basis n) (ρ : (Fin n → Bool) → (Fin n → Bool) → C ℝ) :
    ∑ k : Fin (2 ^ n), mixedBorn n d b ρ k.val = ∑ k : Fin (2 ^ n), (ρ (row n k.val) (row n k.val)).1 := by
  have hK := C04_dense_unitary (usOf d b) (fun j => hU _)
  have hs := C04_rho_probs_sum (denseK (usOf d b)) (Matrix.of fun a c => QV.toC (ρ a c)) hK
  have h1 : ∀ k : Fin (2 ^ n), mixedBorn n d b ρ k.val
      = ((denseK (usOf d b) * (Matrix.of fun a c => QV.toC (ρ a c)) * (denseK (usOf d b))ᴴ) (rowBits n k.val) (rowBits n k.val)).re := by
    intro k
    unfold mixedBorn
    rw [C04_rho_probs_dense _ _ _ _ (usOf_Z d hZ b)]
    rfl
  simp_rw [h1]
  rw [sum_rows n (fun σ => ((denseK (usOf d b) * (Matrix.of fun a c => QV.toC (ρ a c)) * (denseK (usOf d b))ᴴ) σ σ).re),
    ← Complex.re_sum, hs, Matrix.trace, Complex.re_sum, ← sum_rows n]
  rfl

/-! ### C10-4: the normalisation / PSD / trace hypotheses discharged for the RBM states the driver runs -/

section rbm2
variable {h a : ℕ}

theorem C10_rbm_prob_sum (am ph : RBM ℝ n h) : ∑ k : Fin (2 ^ n), rbmProb am (row n k.val) = 1 := by
  have hZ := C10_rbm_Z_pos am
  simp_rw [C10_rbm_born am ph, ← normSq_toC]
  rw [← Finset.sum_div]
  have := C10_rbm_Z_eq am ph
  unfold normSqVec vecOf at this
  rw [← this, div_self hZ.ne']

/-- **C10.2b for the complex RBM wavefunction, every unitary dictionary, every non-empty list of bases, every normalised
target — normalisation hypotheses discharged** (C04_psi_probs_sum for both Born distributions, C01 for `Z = ‖ψ‖² > 0`).
What remains is the clamp guard: model probabilities in `[ε, 1−ε]`, target probabilities `0`, `1` or in `[ε, 1−ε]`. -/
theorem C10_kl_nonneg_rbm (ε : ℝ) (hε : 0 < ε) (d : Char → M2 ℝ) (hU : ∀ c, (m2c (d c))ᴴ * m2c (d c) = 1)
    (am ph : RBM ℝ n h) (t : ℕ → C ℝ) (ht : normSqVec (2 ^ n) t = 1) (b : Basis n) (bs : List (Basis n))
    (hguard : ∀ b' ∈ b :: bs, TGuard1 ε (2 ^ n) (pureBorn n d b' t)
        ∧ InGuard ε (2 ^ n) (fun k => pureBorn n d b' (vecOf n (rbmPsi am ph)) k / rbmZ am)) :
    ∃ v, klPure ε n (some d) (rbmPsi am ph) (rbmProb am) (rbmZ am) (.once t) (some (b :: bs)) = .ok ⟨.pyfloat, v⟩
      ∧ 0 ≤ v := by
  refine C10_kl_nonneg ε hε n d _ _ _ _ _ _ (C10_kl_resolve_once _ _) (by simp) ?_ ?_
  · intro it hit
    obtain ⟨b', hb', rfl⟩ := List.mem_map.mp hit
    exact hguard b' hb'
  · intro it hit
    obtain ⟨b', _, rfl⟩ := List.mem_map.mp hit
    refine ⟨?_, ?_⟩
    · show ∑ k : Fin (2 ^ n), pureBorn n d b' t k.val = 1
      rw [C10_pureBorn_sum d hU, ht]
    · show ∑ k : Fin (2 ^ n), pureBorn n d b' (vecOf n (rbmPsi am ph)) k.val / rbmZ am = 1
      rw [← Finset.sum_div, C10_pureBorn_sum d hU, ← C10_rbm_Z_eq am ph, div_self (C10_rbm_Z_pos am).ne']

/-- the same for the positive RBM wavefunction, which rotates with the DEFAULT dictionary (`dict = none`, F10 fix) -/
theorem C10_kl_nonneg_rbm_pos (ε : ℝ) (hε : 0 < ε) (am : RBM ℝ n h) (t : ℕ → C ℝ) (ht : normSqVec (2 ^ n) t = 1)
    (b : Basis n) (bs : List (Basis n))
    (hguard : ∀ b' ∈ b :: bs, TGuard1 ε (2 ^ n) (pureBorn n defaultDict b' t)
        ∧ InGuard ε (2 ^ n) (fun k => pureBorn n defaultDict b' (vecOf n (rbmPsiPos am)) k / rbmZ am)) :
    ∃ v, klPure ε n none (rbmPsiPos am) (rbmProb am) (rbmZ am) (.once t) (some (b :: bs)) = .ok ⟨.pyfloat, v⟩
      ∧ 0 ≤ v := by
  rw [(C10_pos_default_dict ε n (rbmPsiPos am) (rbmProb am) (rbmZ am)).1]
  refine C10_kl_nonneg ε hε n defaultDict _ _ _ _ _ _ (C10_kl_resolve_once _ _) (by simp) ?_ ?_
  · intro it hit
    obtain ⟨b', hb', rfl⟩ := List.mem_map.mp hit
    exact hguard b' hb'
  · intro it hit
    obtain ⟨b', _, rfl⟩ := List.mem_map.mp hit
    refine ⟨?_, ?_⟩
    · show ∑ k : Fin (2 ^ n), pureBorn n defaultDict b' t k.val = 1
      rw [C10_pureBorn_sum _ C10_defaultDict_unitary, ht]
    · show ∑ k : Fin (2 ^ n), pureBorn n defaultDict b' (vecOf n (rbmPsiPos am)) k.val / rbmZ am = 1
      rw [← Finset.sum_div, C10_pureBorn_sum _ C10_defaultDict_unitary, ← C10_rbm_Z_eq_pos am,
        div_self (C10_rbm_Z_pos am).ne']

/-- **C10.2b, `bases=None`, RBM wavefunctions** (`Σ probability(σ, Z) = 1` by C01) -/
theorem C10_kl_nonneg_none_rbm (ε : ℝ) (hε : 0 < ε) (dd : Option (Char → M2 ℝ)) (am ph : RBM ℝ n h) (t : ℕ → C ℝ)
    (ht : normSqVec (2 ^ n) t = 1)
    (hg1 : TGuard1 ε (2 ^ n) (fun k => Complex.normSq (C10L.toC (t k))))
    (hg2 : InGuard ε (2 ^ n) (fun k => rbmProb am (row n k))) :
    ∃ v, klPure ε n dd (rbmPsi am ph) (rbmProb am) (rbmZ am) (.once t) none = .ok ⟨.pyfloat, v⟩ ∧ 0 ≤ v :=
  C10_kl_nonneg_none ε hε n dd _ _ _ t hg1 hg2 ⟨ht, C10_rbm_prob_sum am ph⟩

/-! #### the density-matrix RBM -/

/-- the density matrix, its normalisation and probability exactly as `DriverLib.C10` hands them to the metrics -/
noncomputable def rbmRho (am ph : PRBM ℝ n h a) : (Fin n → Bool) → (Fin n → Bool) → C ℝ :=
  fun σ τ => Density.rho am ph (fun j => bit (σ j)) (fun j => bit (τ j))
noncomputable def rbmZd (am : PRBM ℝ n h a) : ℝ :=
  Density.normalization am (fun k : Fin (2 ^ n) => (spaceRow n k.val : Fin n → ℝ))
noncomputable def rbmProbD (am : PRBM ℝ n h a) : (Fin n → Bool) → ℝ :=
  fun σ => Density.probability am (fun j => bit (σ j)) (rbmZd am)
/-- `rho(space, space)` as the fidelity branch indexes it -/
noncomputable def rbmRhoIdx (am ph : PRBM ℝ n h a) : ℕ → ℕ → C ℝ := fun k l => rbmRho am ph (row n k) (row n l)

theorem C10_rbm_Zd_pos (am : PRBM ℝ n h a) : 0 < rbmZd am := C02.C02_normalization_pos am

/-- `probability(σ, Z) = Re ρ(σ,σ) / Z` (C02_diagonal) -/
theorem C10_rbm_diag (am ph : PRBM ℝ n h a) (σ : Fin n → Bool) :
    rbmProbD am σ = (rbmRho am ph σ σ).1 / rbmZd am := by
  unfold rbmProbD rbmRho
  rw [(C02.C02_diagonal am ph _).2]
  simp [Density.probability]

/-- the diagonal of `ρ` sums to `Z` (C02_trace) -/
theorem C10_rbm_trace (am ph : PRBM ℝ n h a) :
    ∑ k : Fin (2 ^ n), (rbmRho am ph (row n k.val) (row n k.val)).1 = rbmZd am :=
  (C02.C02_trace am ph).1

/-- the matrix `ρ/Z` the fidelity branch builds is `Z⁻¹ •` the matrix of C02 -/
theorem C10_rbm_matC (am ph : PRBM ℝ n h a) :
    matC (2 ^ n) (fun i j => ((rbmRhoIdx am ph i j).1 / rbmZd am, (rbmRhoIdx am ph i j).2 / rbmZd am))
      = (((rbmZd am)⁻¹ : ℝ) : ℂ) • C02.rhoFullC am ph := by
  ext i j
  simp only [matC, Matrix.of_apply, Matrix.smul_apply, smul_eq_mul]
  rw [smul_eq_div, C10L.toC_smul]
  rfl

/-- under the NZ guard of C02, `ρ/Z` is positive semidefinite with trace one (C02_posSemidef, C02_trace_matrix) -/
theorem C10_rbm_state (am ph : PRBM ℝ n h a)
    (hz : ∀ σ τ : Fin n → Bool, C02.NZ am ph (C02.bits σ) (C02.bits τ)) :
    (matC (2 ^ n) (fun i j => ((rbmRhoIdx am ph i j).1 / rbmZd am, (rbmRhoIdx am ph i j).2 / rbmZd am))).PosSemidef
    ∧ (matC (2 ^ n) (fun i j => ((rbmRhoIdx am ph i j).1 / rbmZd am, (rbmRhoIdx am ph i j).2 / rbmZd am))).trace = 1 := by
  rw [C10_rbm_matC]
  have hZ := C10_rbm_Zd_pos am
  constructor
  · refine (C02.C02_posSemidef am ph hz).smul ?_
    exact_mod_cast (inv_pos.mpr hZ).le
  · rw [Matrix.trace_smul, C02.C02_trace_matrix, smul_eq_mul, ← Complex.ofReal_mul]
    show (((rbmZd am)⁻¹ * rbmZd am : ℝ) : ℂ) = 1
    rw [inv_mul_cancel₀ hZ.ne']; simp

/-- **C10.5 for the density-matrix RBM, own state (C10-4).** Under C02's NZ guard (e.g. `Σ_j |U_μ k j| < 2π`,
C02_NZ_of_phase_weights_small), the fidelity of the model against its own normalised density matrix is exactly 1 —
`hpsd`/`htr` of `C10_fid_mixed_self` discharged; only the `eigvals` hypothesis is left. -/
theorem C10_fid_mixed_self_rbm (am ph : PRBM ℝ n h a)
    (hz : ∀ σ τ : Fin n → Bool, C02.NZ am ph (C02.bits σ) (C02.bits τ)) (eig : List (C ℝ))
    (heig : ((eig.map C10L.toC : List ℂ) : Multiset ℂ)
      = (matC (2 ^ n) (fidProd (2 ^ n)
          (fun i j => ((rbmRhoIdx am ph i j).1 / rbmZd am, (rbmRhoIdx am ph i j).2 / rbmZd am))
          (rbmRhoIdx am ph) (rbmZd am))).charpoly.roots) :
    fidelityMixed eig = 1 :=
  C10_fid_mixed_self (2 ^ n) (rbmRhoIdx am ph) (rbmZd am) (C10_rbm_state am ph hz).1 (C10_rbm_state am ph hz).2 eig heig

/-- **C10.5 for the density-matrix RBM, any target state**: against every PSD trace-one target the returned value is the
squared Uhlmann fidelity of target and `ρ/Z`, and lies in `[0,1]`. -/
theorem C10_fid_mixed_rbm (am ph : PRBM ℝ n h a)
    (hz : ∀ σ τ : Fin n → Bool, C02.NZ am ph (C02.bits σ) (C02.bits τ))
    (T : ℕ → ℕ → C ℝ) (hT : (matC (2 ^ n) T).PosSemidef) (hT1 : (matC (2 ^ n) T).trace = 1) (eig : List (C ℝ))
    (heig : ((eig.map C10L.toC : List ℂ) : Multiset ℂ)
      = (matC (2 ^ n) (fidProd (2 ^ n) T (rbmRhoIdx am ph) (rbmZd am))).charpoly.roots) :
    fidelityMixed eig = (uhlmannTr (matC (2 ^ n) T)
        (matC (2 ^ n) (fun i j => ((rbmRhoIdx am ph i j).1 / rbmZd am, (rbmRhoIdx am ph i j).2 / rbmZd am)))).re ^ 2
    ∧ 0 ≤ fidelityMixed eig ∧ fidelityMixed eig ≤ 1 := by
  have h := C10_fid_mixed_uhlmann_model (2 ^ n) T (rbmRhoIdx am ph) (rbmZd am) hT (C10_rbm_state am ph hz).1 eig heig
  exact ⟨h.1, h.2 hT1 (C10_rbm_state am ph hz).2⟩

/-- **C10.2b for the density-matrix RBM** (no NZ guard needed): every unitary dictionary with `Z ↦ 1`, every non-empty
list of bases, every target matrix with unit real trace — normalisation of both Born distributions discharged
(C04_rho_probs_sum, C04_dense_unitary, C02_trace). -/
theorem C10_kl_nonneg_mixed_rbm (ε : ℝ) (hε : 0 < ε) (d : Char → M2 ℝ) (hU : ∀ c, (m2c (d c))ᴴ * m2c (d c) = 1)
    (hZ : m2c (d 'Z') = 1) (am ph : PRBM ℝ n h a) (T : ℕ → ℕ → C ℝ)
    (hT1 : ∑ k : Fin (2 ^ n), (T k.val k.val).1 = 1) (b : Basis n) (bs : List (Basis n))
    (hguard : ∀ b' ∈ b :: bs, TGuard1 ε (2 ^ n) (mixedBorn n d b' (matAt n T))
        ∧ InGuard ε (2 ^ n) (fun k => mixedBorn n d b' (rbmRho am ph) k / rbmZd am)) :
    ∃ v, klMixed ε n d (rbmRho am ph) (rbmProbD am) (rbmZd am) (.once T) (some (b :: bs)) = .ok ⟨.pyfloat, v⟩
      ∧ 0 ≤ v := by
  refine C10_kl_nonneg_mixed ε hε n d _ _ _ _ _ _ (C10_kl_resolve_once _ _) (by simp) ?_ ?_
  · intro it hit
    obtain ⟨b', hb', rfl⟩ := List.mem_map.mp hit
    exact hguard b' hb'
  · intro it hit
    obtain ⟨b', _, rfl⟩ := List.mem_map.mp hit
    refine ⟨?_, ?_⟩
    · show ∑ k : Fin (2 ^ n), mixedBorn n d b' (matAt n T) k.val = 1
      rw [C10_mixedBorn_sum d hU hZ, ← hT1]
      refine Finset.sum_congr rfl (fun k _ => ?_)
      simp only [matAt, basisIndex_row k.val k.isLt]
    · show ∑ k : Fin (2 ^ n), mixedBorn n d b' (rbmRho am ph) k.val / rbmZd am = 1
      rw [← Finset.sum_div, C10_mixedBorn_sum d hU hZ, C10_rbm_trace, div_self (C10_rbm_Zd_pos am).ne']

/-- **C10.2b, `bases=None`, density-matrix RBM** -/
theorem C10_kl_nonneg_mixed_none_rbm (ε : ℝ) (hε : 0 < ε) (d : Char → M2 ℝ) (am ph : PRBM ℝ n h a) (T : ℕ → ℕ → C ℝ)
    (hT1 : ∑ k : Fin (2 ^ n), (T k.val k.val).1 = 1)
    (hg1 : TGuard1 ε (2 ^ n) (fun k => (T k k).1)) (hg2 : InGuard ε (2 ^ n) (fun k => rbmProbD am (row n k))) :
    ∃ v, klMixed ε n d (rbmRho am ph) (rbmProbD am) (rbmZd am) (.once T) none = .ok ⟨.pyfloat, v⟩ ∧ 0 ≤ v := by
  refine C10_kl_nonneg_mixed_none ε hε n d _ _ _ T hg1 hg2 ⟨hT1, ?_⟩
  simp_rw [C10_rbm_diag am ph]
  rw [← Finset.sum_div, C10_rbm_trace, div_self (C10_rbm_Zd_pos am).ne']

/-- **C10.3 for the RBM states**: the hypotheses of `C10_nll_formula_born[_mixed]` (Born rule / diagonal, `Z ↦ 1`) hold for
the states and the default dictionary the driver runs. -/
theorem C10_nll_born_rbm (ε : ℝ) (am ph : RBM ℝ n h) (samples : List (Fin n → Bool)) (bs : List (Basis n))
    (hlen : bs.length = samples.length) (hne : samples ≠ []) :
    nllPure ε n (some defaultDict) (rbmPsi am ph) (rbmProb am) (rbmZ am) samples (some bs)
      = .ok ⟨.pyfloat, -(((bs.zip samples).map (fun s => Real.log (clampProbs ε
          (bornPure (usOf defaultDict s.1) (fun τ => C10L.toC (rbmPsi am ph τ)) s.2 / rbmZ am)))).sum) / samples.length⟩ :=
  C10_nll_formula_born ε defaultDict C10_defaultDict_Z _ _ _ (C10_rbm_born am ph) samples bs hlen hne

theorem C10_nll_born_rbm_mixed (ε : ℝ) (am ph : PRBM ℝ n h a) (samples : List (Fin n → Bool)) (bs : List (Basis n))
    (hlen : bs.length = samples.length) (hne : samples ≠ []) :
    nllMixed ε n defaultDict (rbmRho am ph) (rbmProbD am) (rbmZd am) samples (some bs)
      = .ok ⟨.pyfloat, -(((bs.zip samples).map (fun s => Real.log (clampProbs ε
          (bornMixed (usOf defaultDict s.1) (Matrix.of fun x y => C10L.toC (rbmRho am ph x y)) s.2 / rbmZd am)))).sum)
            / samples.length⟩ :=
  C10_nll_formula_born_mixed ε defaultDict C10_defaultDict_Z _ _ _ (C10_rbm_diag am ph) samples bs hlen hne

/-- … in particular for EVERY parameter setting whose phase network has `Σ_j |U_μ k j| < 2π` per auxiliary unit
(C02_NZ_of_phase_weights_small): the guard is satisfiable on an open set of parameters containing the initialisation. -/
theorem C10_fid_mixed_self_rbm_small (am ph : PRBM ℝ n h a) (hU : ∀ k, ∑ j, |ph.U k j| < 2 * Real.pi)
    (eig : List (C ℝ))
    (heig : ((eig.map C10L.toC : List ℂ) : Multiset ℂ)
      = (matC (2 ^ n) (fidProd (2 ^ n)
          (fun i j => ((rbmRhoIdx am ph i j).1 / rbmZd am, (rbmRhoIdx am ph i j).2 / rbmZd am))
          (rbmRhoIdx am ph) (rbmZd am))).charpoly.roots) :
    fidelityMixed eig = 1 :=
  C10_fid_mixed_self_rbm am ph (C02.C02_NZ_of_phase_weights_small am ph hU) eig heig

end rbm2

/-! ### the `space=` argument: a permuted enumeration with the correspondingly permuted target -/

/-- **`fidelity(nn_state, target[:, perm], space=space[perm])`**: evaluating the state on ANY re-ordering of the basis
elements and giving the target's coefficients in that same order does not change the fidelity (`Z` is what the caller's
`normalization(space)` returned). -/
theorem C10_fid_space_perm (N : ℕ) (π : Equiv.Perm (Fin N)) (t ψ : ℕ → C ℝ) (Z : ℝ) :
    fidelityPure N (reidx N π t) (reidx N π ψ) Z = fidelityPure N t ψ Z := by
  unfold fidelityPure
  rw [absSq_eq, absSq_eq, innerProd_eq, innerProd_eq]
  congr 1
  simp only [reidx_val]
  exact Equiv.sum_comp π (fun k : Fin N => (starRingEnd ℂ) (C10L.toC (t k.val))
    * C10L.toC ((ψ k.val).1 / Transc.sqrt Z, (ψ k.val).2 / Transc.sqrt Z))

/-- **`KL(nn_state, target[:, perm], space=space[perm])`, `bases=None`**: `_single_basis_KL` of two probability vectors
listed in the same (arbitrary) order of the basis elements. -/
theorem C10_kl_space_perm (ε : ℝ) (N : ℕ) (π : Equiv.Perm (Fin N)) (t p : ℕ → ℝ) :
    singleBasisKL ε N (reidx N π t) (reidx N π p) = singleBasisKL ε N t p := by
  unfold singleBasisKL
  simp only [sumFin_eq, reidx_val]
  rw [Equiv.sum_comp π (fun k : Fin N => t k.val * probsToLogits ε (t k.val)),
    Equiv.sum_comp π (fun k : Fin N => t k.val * probsToLogits ε (p k.val))]

/-! ### 8. NON-DEFAULT dictionaries (x-packages): states constructed with `unitary_dict=create_dict(**kw)`

Every KL / NLL theorem above is stated for an ARBITRARY `d : Char → M2 ℝ` (hypotheses: unitary entries for the
normalisation / non-negativity statements, `Z ↦ 1` for the NLL ↔ Born statements, none for the value formulas and
`C10_kl_self_zero*`). The driver evaluates the metrics with `d = userDict kw`, `kw` the association list of the keyword
entries the state was constructed with (`[]` for the default dictionary). This section discharges the hypotheses on `d`
from LIST-level facts about `kw`, ties `userDict` to C04's dictionary-resolution model (`Unitaries.unitariesOf`,
`siteUs`), and restates the top-level results for `userDict kw` and the RBM states. -/

section userdict
variable {h a : ℕ}

/-- `create_dict()` without keywords: the default dictionary (so every earlier `defaultDict` statement is the case `kw = []`
of what the driver runs). -/
theorem C10_userDict_nil : userDict ([] : Unitaries.UDict ℝ) = defaultDict := by
  funext c
  simp only [userDict, dictFn, Unitaries.createDict, defaultDict, List.nil_append, List.lookup_cons, List.lookup_nil]
  cases hX : (c == 'X') <;> cases hY : (c == 'Y') <;> cases hZ : (c == 'Z') <;> simp

/-- **"the given operators will overwrite the default matrices if they share the same key"** (`create_dict` docstring):
a letter the user registered — new (`H`, `Q`, …) or a default key (`X`, `Y`) — reads as the user's FIRST entry for it. -/
theorem C10_userDict_registered (kw : Unitaries.UDict ℝ) (c : Char) (m : M2 ℝ) (hc : kw.lookup c = some m) :
    userDict kw c = m :=
  dictFn_of_lookup _ c m (lookup_append_some kw _ c m hc)

/-- a letter the user did NOT register keeps its default meaning -/
theorem C10_userDict_untouched (kw : Unitaries.UDict ℝ) (c : Char) (hc : kw.lookup c = none) :
    userDict kw c = defaultDict c := by
  rw [← C10_userDict_nil]
  simp only [userDict, dictFn, Unitaries.createDict, lookup_append_none kw _ c hc, List.nil_append]

/-- **unitarity is inherited from the registered entries**: if every matrix the user registered is unitary, every lookup of
`userDict kw` is (defaults: C04_dX_unitary, C04_dY_unitary, C04_dZ). -/
theorem C10_userDict_unitary (kw : Unitaries.UDict ℝ) (hkw : ∀ e ∈ kw, (m2c e.2)ᴴ * m2c e.2 = 1) (c : Char) :
    (m2c (userDict kw c))ᴴ * m2c (userDict kw c) = 1 := by
  cases hl : kw.lookup c with
  | none => rw [C10_userDict_untouched kw c hl]; exact C10_defaultDict_unitary c
  | some m =>
    rw [C10_userDict_registered kw c m hl]
    rcases dictFn_cases kw c with ⟨e, he, _, h2⟩ | ⟨_, h2⟩
    · have : e.2 = m := by rw [← h2]; exact dictFn_of_lookup kw c m hl
      rw [← this]; exact hkw e he
    · have : m = Unitaries.dZ := by rw [← h2]; exact (dictFn_of_lookup kw c m hl).symm
      rw [this, C04_dZ]; simp

/-- **`Z` stays the identity** unless the user overrides it with something else (a non-identity `Z` is outside this
property's generator: known finding F20 of C04). -/
theorem C10_userDict_Z (kw : Unitaries.UDict ℝ) (hZ : ∀ e ∈ kw, e.1 = 'Z' → m2c e.2 = 1) :
    m2c (userDict kw 'Z') = 1 := by
  cases hl : kw.lookup 'Z' with
  | none => rw [C10_userDict_untouched kw _ hl]; exact C10_defaultDict_Z
  | some m =>
    rw [C10_userDict_registered kw _ m hl]
    rcases dictFn_cases kw 'Z' with ⟨e, he, h1, h2⟩ | ⟨_, h2⟩
    · have : e.2 = m := by rw [← h2]; exact dictFn_of_lookup kw _ m hl
      rw [← this]; exact hZ e he h1
    · have : m = Unitaries.dZ := by rw [← h2]; exact (dictFn_of_lookup kw _ m hl).symm
      rw [this, C04_dZ]

/-- **`userDict` IS C04's dictionary resolution.** For a state whose own dictionary is `create_dict(**kw)` and a call
without `unitaries=` (how `KL` / `NLL` call the rotations), `_unitaries_of` + the per-letter lookup of `rotate_psi` /
`rotate_rho` (`Unitaries.siteUs`, every site looked up) succeeds exactly when every letter of the basis is a key, and then
returns the per-site matrices `usOf (userDict kw) b` the C10 model rotates with. -/
theorem C10_userDict_siteUs (kw : Unitaries.UDict ℝ) (b : Basis n)
    (hkeys : ∀ j, ((Unitaries.createDict kw).lookup (b.get j)).isSome = true) :
    Unitaries.siteUs (Unitaries.unitariesOf none (some (Unitaries.createDict kw))) (fun _ => true) b.get
      = .ok (usOf (userDict kw) b) := by
  unfold Unitaries.siteUs
  rw [if_pos]
  · rfl
  · simp only [List.all_eq_true, Bool.not_true, Bool.false_or]
    exact fun j _ => hkeys j

/-- the same for the fast paths (`_rotate_basis_state`: only the letters of ROTATED sites are looked up) -/
theorem C10_userDict_siteUs_fast (kw : Unitaries.UDict ℝ) (b : Basis n)
    (hkeys : ∀ j, b.get j ≠ 'Z' → ((Unitaries.createDict kw).lookup (b.get j)).isSome = true) :
    Unitaries.siteUs (Unitaries.unitariesOf none (some (Unitaries.createDict kw))) (Unitaries.rotOf b.get) b.get
      = .ok (usOf (userDict kw) b) := by
  unfold Unitaries.siteUs
  rw [if_pos]
  · rfl
  · simp only [List.all_eq_true, Bool.or_eq_true, Bool.not_eq_true']
    intro j _
    by_cases hj : b.get j = 'Z'
    · left; simp [Unitaries.rotOf, hj]
    · right; exact hkeys j hj

/-- **C10.3 for the complex RBM state and ANY dictionary with `Z ↦ 1`** (generalises `C10_nll_born_rbm`, which is the
instance `d = defaultDict`): NLL with per-sample bases is minus the mean log clamped Born probability, the Born
distribution being that of the dense Kronecker product of the REGISTERED matrices of the sample's own basis letters. -/
theorem C10_nll_born_rbm_dict (ε : ℝ) (d : Char → M2 ℝ) (hZ : m2c (d 'Z') = 1) (am ph : RBM ℝ n h)
    (samples : List (Fin n → Bool)) (bs : List (Basis n)) (hlen : bs.length = samples.length) (hne : samples ≠ []) :
    nllPure ε n (some d) (rbmPsi am ph) (rbmProb am) (rbmZ am) samples (some bs)
      = .ok ⟨.pyfloat, -(((bs.zip samples).map (fun s => Real.log (clampProbs ε
          (bornPure (usOf d s.1) (fun τ => C10L.toC (rbmPsi am ph τ)) s.2 / rbmZ am)))).sum) / samples.length⟩ :=
  C10_nll_formula_born ε d hZ _ _ _ (C10_rbm_born am ph) samples bs hlen hne

/-- the same for the density-matrix RBM -/
theorem C10_nll_born_rbm_mixed_dict (ε : ℝ) (d : Char → M2 ℝ) (hZ : m2c (d 'Z') = 1) (am ph : PRBM ℝ n h a)
    (samples : List (Fin n → Bool)) (bs : List (Basis n)) (hlen : bs.length = samples.length) (hne : samples ≠ []) :
    nllMixed ε n d (rbmRho am ph) (rbmProbD am) (rbmZd am) samples (some bs)
      = .ok ⟨.pyfloat, -(((bs.zip samples).map (fun s => Real.log (clampProbs ε
          (bornMixed (usOf d s.1) (Matrix.of fun x y => C10L.toC (rbmRho am ph x y)) s.2 / rbmZd am)))).sum)
            / samples.length⟩ :=
  C10_nll_formula_born_mixed ε d hZ _ _ _ (C10_rbm_diag am ph) samples bs hlen hne

/-- **C10.3, what the driver runs for a `ComplexWaveFunction(…, unitary_dict=create_dict(**kw))`**: hypothesis on the
dictionary reduced to "the user did not register a non-identity `Z`".  SCOPE (`_hkeys`, not used by the proof): every letter
of every basis is a key of `create_dict(**kw)` — for an unregistered letter the code raises `KeyError` whereas the model's
`userDict` (`dictFn`: `getD`) would rotate with the identity and return `.ok`; such calls are outside the statement. -/
theorem C10_nll_born_rbm_userDict (ε : ℝ) (kw : Unitaries.UDict ℝ) (hZ : ∀ e ∈ kw, e.1 = 'Z' → m2c e.2 = 1)
    (am ph : RBM ℝ n h) (samples : List (Fin n → Bool)) (bs : List (Basis n))
    (_hkeys : ∀ b' ∈ bs, ∀ j, ((Unitaries.createDict kw).lookup (b'.get j)).isSome = true)
    (hlen : bs.length = samples.length) (hne : samples ≠ []) :
    nllPure ε n (some (userDict kw)) (rbmPsi am ph) (rbmProb am) (rbmZ am) samples (some bs)
      = .ok ⟨.pyfloat, -(((bs.zip samples).map (fun s => Real.log (clampProbs ε
          (bornPure (usOf (userDict kw) s.1) (fun τ => C10L.toC (rbmPsi am ph τ)) s.2 / rbmZ am)))).sum) / samples.length⟩ :=
  C10_nll_born_rbm_dict ε _ (C10_userDict_Z kw hZ) am ph samples bs hlen hne

/-- … and for a `DensityMatrix(…, unitary_dict=create_dict(**kw))` (same scope `_hkeys`: registered letters only) -/
theorem C10_nll_born_rbm_mixed_userDict (ε : ℝ) (kw : Unitaries.UDict ℝ) (hZ : ∀ e ∈ kw, e.1 = 'Z' → m2c e.2 = 1)
    (am ph : PRBM ℝ n h a) (samples : List (Fin n → Bool)) (bs : List (Basis n))
    (_hkeys : ∀ b' ∈ bs, ∀ j, ((Unitaries.createDict kw).lookup (b'.get j)).isSome = true)
    (hlen : bs.length = samples.length) (hne : samples ≠ []) :
    nllMixed ε n (userDict kw) (rbmRho am ph) (rbmProbD am) (rbmZd am) samples (some bs)
      = .ok ⟨.pyfloat, -(((bs.zip samples).map (fun s => Real.log (clampProbs ε
          (bornMixed (usOf (userDict kw) s.1) (Matrix.of fun x y => C10L.toC (rbmRho am ph x y)) s.2 / rbmZd am)))).sum)
            / samples.length⟩ :=
  C10_nll_born_rbm_mixed_dict ε _ (C10_userDict_Z kw hZ) am ph samples bs hlen hne

/-- **C10.2b for `ComplexWaveFunction(…, unitary_dict=create_dict(**kw))`**: `KL ≥ 0` over every non-empty list of bases
written with REGISTERED letters (`_hkeys`: every letter is a key of `create_dict(**kw)`; a scope condition the proof does not
use — for an unregistered letter the code raises `KeyError`, the model's `getD` would rotate with the identity), for every
normalised target — the hypothesis on the dictionary is only that the REGISTERED matrices are unitary. -/
theorem C10_kl_nonneg_rbm_userDict (ε : ℝ) (hε : 0 < ε) (kw : Unitaries.UDict ℝ)
    (hkw : ∀ e ∈ kw, (m2c e.2)ᴴ * m2c e.2 = 1)
    (am ph : RBM ℝ n h) (t : ℕ → C ℝ) (ht : normSqVec (2 ^ n) t = 1) (b : Basis n) (bs : List (Basis n))
    (_hkeys : ∀ b' ∈ b :: bs, ∀ j, ((Unitaries.createDict kw).lookup (b'.get j)).isSome = true)
    (hguard : ∀ b' ∈ b :: bs, TGuard1 ε (2 ^ n) (pureBorn n (userDict kw) b' t)
        ∧ InGuard ε (2 ^ n) (fun k => pureBorn n (userDict kw) b' (vecOf n (rbmPsi am ph)) k / rbmZ am)) :
    ∃ v, klPure ε n (some (userDict kw)) (rbmPsi am ph) (rbmProb am) (rbmZ am) (.once t) (some (b :: bs))
        = .ok ⟨.pyfloat, v⟩ ∧ 0 ≤ v :=
  C10_kl_nonneg_rbm ε hε _ (C10_userDict_unitary kw hkw) am ph t ht b bs hguard

/-- **C10.2b for `DensityMatrix(…, unitary_dict=create_dict(**kw))`** (registered matrices unitary, `Z` not replaced by a
non-identity; bases written with REGISTERED letters: scope condition `_hkeys` as in `C10_kl_nonneg_rbm_userDict`) -/
theorem C10_kl_nonneg_mixed_rbm_userDict (ε : ℝ) (hε : 0 < ε) (kw : Unitaries.UDict ℝ)
    (hkw : ∀ e ∈ kw, (m2c e.2)ᴴ * m2c e.2 = 1) (hZ : ∀ e ∈ kw, e.1 = 'Z' → m2c e.2 = 1)
    (am ph : PRBM ℝ n h a) (T : ℕ → ℕ → C ℝ)
    (hT1 : ∑ k : Fin (2 ^ n), (T k.val k.val).1 = 1) (b : Basis n) (bs : List (Basis n))
    (_hkeys : ∀ b' ∈ b :: bs, ∀ j, ((Unitaries.createDict kw).lookup (b'.get j)).isSome = true)
    (hguard : ∀ b' ∈ b :: bs, TGuard1 ε (2 ^ n) (mixedBorn n (userDict kw) b' (matAt n T))
        ∧ InGuard ε (2 ^ n) (fun k => mixedBorn n (userDict kw) b' (rbmRho am ph) k / rbmZd am)) :
    ∃ v, klMixed ε n (userDict kw) (rbmRho am ph) (rbmProbD am) (rbmZd am) (.once T) (some (b :: bs))
        = .ok ⟨.pyfloat, v⟩ ∧ 0 ≤ v :=
  C10_kl_nonneg_mixed_rbm ε hε _ (C10_userDict_unitary kw hkw) (C10_userDict_Z kw hZ) am ph T hT1 b bs hguard

/-- **C10.2a in dense form, any dictionary**: under the clamp guard, `KL(nn_state, target, bases)` for a single
wavefunction target is the mean over the listed bases of the Kullback–Leibler divergence between
`|(U_b t)(σ)|²` and `|(U_b ψ)(σ)|²/Z`, `U_b = ⊗_j d(b_j)` the DENSE Kronecker product of the registered matrices
(the very expression the numpy oracle of `harness/c10.py` evaluates). -/
theorem C10_kl_formula_dense (ε : ℝ) (d : Char → M2 ℝ) (psi : (Fin n → Bool) → C ℝ)
    (prob : (Fin n → Bool) → ℝ) (Z : ℝ) (t : ℕ → C ℝ) (b : Basis n) (bs : List (Basis n))
    (hguard : ∀ b' ∈ b :: bs, TGuard ε (2 ^ n) (pureBorn n d b' t)
        ∧ InGuard ε (2 ^ n) (fun k => pureBorn n d b' (vecOf n psi) k / Z)) :
    klPure ε n (some d) psi prob Z (.once t) (some (b :: bs))
      = .ok ⟨.pyfloat, (((b :: bs).map (fun b' =>
          klDiv (2 ^ n) (fun k => bornPure (usOf d b') (fun τ => C10L.toC (t (basisIndex τ))) (row n k))
            (fun k => bornPure (usOf d b') (fun τ => C10L.toC (psi τ)) (row n k) / Z))).sum) / ((b :: bs).length : ℕ)⟩ := by
  have hv : (fun τ : Fin n → Bool => C10L.toC (vecOf n psi (basisIndex τ))) = fun τ => C10L.toC (psi τ) := by
    funext τ; simp only [vecOf, row_basisIndex]
  rw [C10_kl_formula ε n d psi prob Z (.once t) (some (b :: bs)) _ (C10_kl_resolve_once _ _) (by simp)]
  · rw [List.map_map, List.length_map]
    have hm : ∀ b' ∈ b :: bs,
        ((fun it : Basis n × TargetSrc (ℕ → C ℝ) =>
            klDiv (2 ^ n) (tBornPure n d it) fun k => pureBorn n d it.1 (vecOf n psi) k / Z) ∘ fun b => (b, TargetSrc.rotate t)) b'
          = klDiv (2 ^ n) (fun k => bornPure (usOf d b') (fun τ => C10L.toC (t (basisIndex τ))) (row n k))
              (fun k => bornPure (usOf d b') (fun τ => C10L.toC (psi τ)) (row n k) / Z) := by
      intro b' _
      simp only [Function.comp, klDiv, tBornPure]
      refine Finset.sum_congr rfl (fun k _ => ?_)
      rw [C10_pureBorn_dense_row d b' t k.val k.isLt, C10_pureBorn_dense_row d b' (vecOf n psi) k.val k.isLt, hv]
    rw [List.map_congr_left hm]
  · intro it hit
    obtain ⟨b', hb', rfl⟩ := List.mem_map.mp hit
    exact hguard b' hb'

/-- **C10.2c for the density-matrix RBM, every non-empty list of bases and EVERY dictionary, no hypotheses left**: against
its own normalised state `ρ/Z` (listed over `space × space`) `KL` is exactly `0`. -/
theorem C10_kl_self_zero_mixed_rbm (ε : ℝ) (d : Char → M2 ℝ) (am ph : PRBM ℝ n h a) (b : Basis n) (bs : List (Basis n)) :
    klMixed ε n d (rbmRho am ph) (rbmProbD am) (rbmZd am)
      (.once (fun i j => ((rbmRho am ph (row n i) (row n j)).1 / rbmZd am, (rbmRho am ph (row n i) (row n j)).2 / rbmZd am)))
      (some (b :: bs)) = .ok ⟨.pyfloat, 0⟩ := by
  refine C10_kl_self_zero_mixed ε n d _ _ _ _ _ _ (C10_kl_resolve_once _ _) (by simp) ?_
  intro it hit
  obtain ⟨b', _, rfl⟩ := List.mem_map.mp hit
  intro i j _ _; rfl

/-- **C10.2c for the POSITIVE RBM wavefunction over a list of bases** (`dict = none`: rotated with the default dictionary,
F10 fix), no hypotheses left. -/
theorem C10_kl_self_zero_rbm_pos (ε : ℝ) (am : RBM ℝ n h) (b : Basis n) (bs : List (Basis n)) :
    klPure ε n none (rbmPsiPos am) (rbmProb am) (rbmZ am)
      (.once (fun k => ((vecOf n (rbmPsiPos am) k).1 / √(rbmZ am), (vecOf n (rbmPsiPos am) k).2 / √(rbmZ am))))
      (some (b :: bs)) = .ok ⟨.pyfloat, 0⟩ := by
  rw [(C10_pos_default_dict ε n (rbmPsiPos am) (rbmProb am) (rbmZ am)).1]
  refine C10_kl_self_zero ε n defaultDict _ _ _ (C10_rbm_Z_pos am).le _ _ _ (C10_kl_resolve_once _ _) (by simp) ?_
  intro it hit
  obtain ⟨b', _, rfl⟩ := List.mem_map.mp hit
  intro k; rfl

/-- **C10.2a in dense form, density matrix, any dictionary with `Z ↦ 1`**: under the clamp guard `KL` of a single target
matrix `T` over a list of bases is the mean of the Kullback–Leibler divergences between `Re (U_b T U_b†)(σ,σ)` and
`Re (U_b ρ U_b†)(σ,σ)/Z`, `U_b` the dense Kronecker product of the registered matrices. -/
theorem C10_kl_formula_dense_mixed (ε : ℝ) (d : Char → M2 ℝ) (hZ : m2c (d 'Z') = 1)
    (rho : (Fin n → Bool) → (Fin n → Bool) → C ℝ)
    (prob : (Fin n → Bool) → ℝ) (Z : ℝ) (T : ℕ → ℕ → C ℝ) (b : Basis n) (bs : List (Basis n))
    (hguard : ∀ b' ∈ b :: bs, TGuard ε (2 ^ n) (mixedBorn n d b' (matAt n T))
        ∧ InGuard ε (2 ^ n) (fun k => mixedBorn n d b' rho k / Z)) :
    klMixed ε n d rho prob Z (.once T) (some (b :: bs))
      = .ok ⟨.pyfloat, (((b :: bs).map (fun b' =>
          klDiv (2 ^ n) (fun k => bornMixed (usOf d b') (Matrix.of fun x y => C10L.toC (matAt n T x y)) (row n k))
            (fun k => bornMixed (usOf d b') (Matrix.of fun x y => C10L.toC (rho x y)) (row n k) / Z))).sum)
              / ((b :: bs).length : ℕ)⟩ := by
  rw [C10_kl_formula_mixed ε n d rho prob Z (.once T) (some (b :: bs)) _ (C10_kl_resolve_once _ _) (by simp)]
  · rw [List.map_map, List.length_map]
    have hm : ∀ b' ∈ b :: bs,
        ((fun it : Basis n × TargetSrc (ℕ → ℕ → C ℝ) =>
            klDiv (2 ^ n) (tBornMixed n d it) fun k => mixedBorn n d it.1 rho k / Z) ∘ fun b => (b, TargetSrc.rotate T)) b'
          = klDiv (2 ^ n) (fun k => bornMixed (usOf d b') (Matrix.of fun x y => C10L.toC (matAt n T x y)) (row n k))
              (fun k => bornMixed (usOf d b') (Matrix.of fun x y => C10L.toC (rho x y)) (row n k) / Z) := by
      intro b' _
      simp only [Function.comp, klDiv, tBornMixed]
      refine Finset.sum_congr rfl (fun k _ => ?_)
      rw [← C10_mixedBorn_dense d hZ b' (matAt n T) (row n k.val), ← C10_mixedBorn_dense d hZ b' rho (row n k.val),
        basisIndex_row k.val k.isLt]
    rw [List.map_congr_left hm]
  · intro it hit
    obtain ⟨b', hb', rfl⟩ := List.mem_map.mp hit
    exact hguard b' hb'

/-- non-vacuity of `C10_kl_formula_dense` (guard satisfiable at the top level): the rational rotation `exDict`, state
`(1,0)`, non-real target `(0,i)` — Born distributions `(16/25, 9/25)` vs `(9/25, 16/25)`. -/
example : ∃ v, klPure ((2 : ℝ)⁻¹ ^ 52) 1 (some exDict) exPsi (fun _ => 0) 1 (.once exTarget) (some [exBasis])
    = .ok ⟨.pyfloat, v⟩ := by
  have hε : ((2 : ℝ)⁻¹ ^ 52) ≤ 1 / 4 := by
    calc ((2 : ℝ)⁻¹ ^ 52) ≤ (2 : ℝ)⁻¹ ^ 2 := pow_le_pow_of_le_one (by norm_num) (by norm_num) (by norm_num)
      _ = 1 / 4 := by norm_num
  have hv : vecOf 1 exPsi = fun k' => exPsi (row 1 k') := rfl
  refine ⟨_, C10_kl_formula_dense _ exDict exPsi _ 1 exTarget exBasis [] ?_⟩
  intro b' hb'
  simp only [List.mem_singleton] at hb'
  subst hb'
  refine ⟨InGuard.tguard (fun k hk => ?_), fun k hk => ?_⟩
  · simp only [pureBorn]; rw [ex_rot_target k (by simpa using hk)]
    split_ifs <;> constructor <;> linarith
  · simp only [pureBorn]; rw [hv, ex_rot_psi k (by simpa using hk)]
    split_ifs <;> constructor <;> linarith

/-- non-vacuity of `C10_kl_formula_dense_mixed`: one site, the maximally mixed state `𝟙/2` (`Z = 1`) against the target
`diag(1/4, 3/4)` in the basis `Z` of the default dictionary (both distributions inside the guard, different). -/
example : ∃ v, klMixed ((2 : ℝ)⁻¹ ^ 52) 1 defaultDict (fun σ τ => if σ = τ then ((1 / 2 : ℝ), (0 : ℝ)) else (0, 0))
    (fun _ => 1 / 2) 1 (.once (fun i j => if i = j then ((if i = 0 then (1 / 4 : ℝ) else 3 / 4), (0 : ℝ)) else (0, 0)))
    (some [(⟨#['Z'], rfl⟩ : Basis 1)]) = .ok ⟨.pyfloat, v⟩ := by
  have hε : ((2 : ℝ)⁻¹ ^ 52) ≤ 1 / 4 := by
    calc ((2 : ℝ)⁻¹ ^ 52) ≤ (2 : ℝ)⁻¹ ^ 2 := pow_le_pow_of_le_one (by norm_num) (by norm_num) (by norm_num)
      _ = 1 / 4 := by norm_num
  have hb : ∀ (ρ : (Fin 1 → Bool) → (Fin 1 → Bool) → C ℝ) (k : ℕ),
      mixedBorn 1 defaultDict (⟨#['Z'], rfl⟩ : Basis 1) ρ k = (ρ (Metrics.row 1 k) (Metrics.row 1 k)).1 := by
    intro ρ k
    unfold mixedBorn
    rw [C04_rho_probs, fastK_one _ _ (anyRot_false (by decide))]
    simp [QV.toC]
  refine ⟨_, C10_kl_formula_dense_mixed _ defaultDict C10_defaultDict_Z _ _ 1 _ _ [] ?_⟩
  intro b' hb'
  simp only [List.mem_singleton] at hb'
  subst hb'
  refine ⟨InGuard.tguard (fun k hk => ?_), fun k hk => ?_⟩
  · simp only [hb, matAt, basisIndex_row k hk, if_true]
    split_ifs <;> constructor <;> linarith
  · simp only [hb, if_true]
    constructor <;> linarith

/-- `C10_kl_self_zero_mixed_rbm` / `C10_kl_self_zero_rbm_pos` have no hypotheses; an instance on the Hadamard-extended
dictionary, bases `H S`, `Y Z`, `X X` -/
example (ε : ℝ) (am ph : PRBM ℝ 2 h a) : klMixed ε 2 (userDict exKw) (rbmRho am ph) (rbmProbD am) (rbmZd am)
    (.once (fun i j => ((rbmRho am ph (Metrics.row 2 i) (Metrics.row 2 j)).1 / rbmZd am, (rbmRho am ph (Metrics.row 2 i) (Metrics.row 2 j)).2 / rbmZd am)))
    (some [⟨#['H', 'S'], rfl⟩, ⟨#['Y', 'Z'], rfl⟩, ⟨#['X', 'X'], rfl⟩]) = .ok ⟨.pyfloat, 0⟩ :=
  C10_kl_self_zero_mixed_rbm ε _ am ph _ _

/-- non-vacuity on the Hadamard-extended dictionary: the new letter `H` reads as the Hadamard matrix, the overridden `Y`
as the user's matrix (NOT the default `dY`), the untouched `X` as the default; every lookup is unitary and `Z ↦ 1`. -/
example : userDict exKw 'H' = Unitaries.dX ∧ userDict exKw 'Y' = (fun r c => ((if r == c then 0 else 1), 0))
    ∧ userDict exKw 'X' = defaultDict 'X' ∧ (∀ c, (m2c (userDict exKw c))ᴴ * m2c (userDict exKw c) = 1)
    ∧ m2c (userDict exKw 'Z') = 1 :=
  ⟨C10_userDict_registered _ _ _ rfl, C10_userDict_registered _ _ _ rfl, C10_userDict_untouched _ _ rfl,
    C10_userDict_unitary _ exKw_unitary, C10_userDict_Z _ exKw_Z⟩

/-- every letter of the basis `H S Y Z` is a key of `create_dict(**exKw)`: the hypothesis of `C10_userDict_siteUs` holds -/
example : Unitaries.siteUs (Unitaries.unitariesOf none (some (Unitaries.createDict exKw))) (fun _ => true)
    (⟨#['H', 'S', 'Y', 'Z'], rfl⟩ : Basis 4).get = .ok (usOf (userDict exKw) ⟨#['H', 'S', 'Y', 'Z'], rfl⟩) :=
  C10_userDict_siteUs exKw _ (by decide)

/-- the hypotheses of `C10_nll_born_rbm_userDict` / `_mixed_userDict` on the Hadamard-extended dictionary: two samples
measured in the bases `H S` and `Y Z` of a 2-qubit state with arbitrary parameters -/
example (ε : ℝ) (am ph : RBM ℝ 2 h) : ∃ v, nllPure ε 2 (some (userDict exKw)) (rbmPsi am ph) (rbmProb am) (rbmZ am)
    [fun _ => true, fun j => j = 0] (some [⟨#['H', 'S'], rfl⟩, ⟨#['Y', 'Z'], rfl⟩]) = .ok ⟨.pyfloat, v⟩ :=
  ⟨_, C10_nll_born_rbm_userDict ε exKw exKw_Z am ph _ _ (by decide) rfl (by simp)⟩

example (ε : ℝ) (am ph : PRBM ℝ 2 h a) : ∃ v, nllMixed ε 2 (userDict exKw) (rbmRho am ph) (rbmProbD am) (rbmZd am)
    [fun _ => true, fun j => j = 0] (some [⟨#['H', 'S'], rfl⟩, ⟨#['Y', 'Z'], rfl⟩]) = .ok ⟨.pyfloat, v⟩ :=
  ⟨_, C10_nll_born_rbm_mixed_userDict ε exKw exKw_Z am ph _ _ (by decide) rfl (by simp)⟩

end userdict

end compose

/-! ## Extension round 2: the `deprecated_kwarg` alias layer in front of `fidelity` / `KL` ("every code path returns …")
Model: `QV.CallForm.renameKw`, `aliasCall`, `metricBind` (QV/Model/CallForm.lean; utils/__init__.py:48-75,
training_statistics.py:26-27, 137-138); executed by driver op `c10.alias_call`. -/
section aliaslayer
open QV.CallForm
set_option linter.unusedSimpArgs false
variable {V : Type}

/-- SPECIFICATION: the values a call supplies for `target` under any of its three names -/
def targetSources (kw : List (String × V)) : List V :=
  (kwLookup kw "target").toList ++ (kwLookup kw "target_psi").toList ++ (kwLookup kw "target_rho").toList

/-- SPECIFICATION: what the undecorated function must see under the name `p`: the deprecated names are gone, `target` carries the one
supplied value, every other keyword (`space`, `bases`, ignored extras) is untouched -/
def normKw (kw : List (String × V)) (p : String) : Option V :=
  if p = "target_psi" ∨ p = "target_rho" then none
  else if p = "target" then (targetSources kw).head? else kwLookup kw p

/-- **`deprecated_kwarg.rename` for `fidelity` / `KL`**, every keyword dict: two of the three names `target`, `target_psi`, `target_rho`
⇒ `TypeError` (also the two DEPRECATED names together: the first is renamed, the second then collides); otherwise the renamed dict
gives `target` the one supplied value, drops the deprecated names and leaves everything else. Fails if a table entry pointed to
another name, the collision check were dropped or applied to the wrong name, or the popped value were lost. -/
theorem C10_alias_rename_spec (kw : List (String × V)) :
    (2 ≤ (targetSources kw).length → renameKw metricAliases kw = .error .TypeError) ∧
    ((targetSources kw).length ≤ 1 →
      ∃ kw', renameKw metricAliases kw = .ok kw' ∧ ∀ p, kwLookup kw' p = normKw kw p) := by
  cases ht : kwLookup kw "target" <;> cases hp : kwLookup kw "target_psi" <;> cases hr : kwLookup kw "target_rho" <;>
    simp [targetSources, ht, hp, hr, metricAliases, renameKw, renameStep, kwLookup_append, kwLookup_eraseKey, kwLookup, normKw]
  all_goals
    intro p
    have e1 : ("target_psi" = p) = (p = "target_psi") := propext eq_comm
    have e2 : ("target_rho" = p) = (p = "target_rho") := propext eq_comm
    have e3 : ("target" = p) = (p = "target") := propext eq_comm
    try simp only [e1, e2, e3]
    by_cases h1 : p = "target_psi"
    · subst h1; simp [ht, hp, hr]
    by_cases h2 : p = "target_rho"
    · subst h2; simp [ht, hp, hr]
    by_cases h3 : p = "target"
    · subst h3; simp [ht, hp, hr]
    first | (simp [h1, h2, h3]; done) | (simp [h1, h2, h3]; cases kwLookup kw p <;> rfl)

/-- **every accepted mix of positional / new-keyword / deprecated-keyword forms returns what the undecorated function returns on the
canonical call** (`kwc`: any keyword dict giving the parameters the normalised values — e.g. the same call written with `target=`),
for every signature `params`, every positional prefix, every body `f`; **two names for the target ⇒ refused and `f` not evaluated**. -/
theorem C10_alias_same_value {R : Type} (dflt : String → Option V) (params : List String) (f : List (String × V) → R)
    (pos : List V) (kw : List (String × V)) :
    (2 ≤ (targetSources kw).length → aliasCallValue metricAliases dflt params f pos kw = .error .TypeError) ∧
    ((targetSources kw).length ≤ 1 → ∀ kwc : List (String × V), (∀ p ∈ params, kwLookup kwc p = normKw kw p) →
      aliasCallValue metricAliases dflt params f pos kw =
        match bindParams dflt kwc params pos with
        | .error e => .error e
        | .ok r => .ok (f r)) := by
  obtain ⟨h2, h1⟩ := C10_alias_rename_spec kw
  refine ⟨fun h => ?_, fun h kwc hc => ?_⟩
  · simp only [aliasCallValue, aliasCall, h2 h]
  · obtain ⟨kw', hk, hl⟩ := h1 h
    have : bindParams dflt kw' params pos = bindParams dflt kwc params pos :=
      bindParams_congr dflt kw' kwc params pos (fun p hp => by rw [hl p, hc p hp])
    simp only [aliasCallValue, aliasCall, hk, this]
    cases bindParams dflt kwc params pos <;> rfl

/-- two call forms supplying the same values (under whichever names) are indistinguishable for the function -/
theorem C10_alias_forms_agree (dflt : String → Option V) (params : List String) (pos : List V)
    (kw₁ kw₂ : List (String × V)) (h₁ : (targetSources kw₁).length ≤ 1) (h₂ : (targetSources kw₂).length ≤ 1)
    (h : ∀ p ∈ params, normKw kw₁ p = normKw kw₂ p) :
    aliasCall metricAliases dflt params pos kw₁ = aliasCall metricAliases dflt params pos kw₂ := by
  obtain ⟨k₁, hk₁, hl₁⟩ := (C10_alias_rename_spec kw₁).2 h₁
  obtain ⟨k₂, hk₂, hl₂⟩ := (C10_alias_rename_spec kw₂).2 h₂
  simp only [aliasCall, hk₁, hk₂]
  exact bindParams_congr dflt k₁ k₂ params pos (fun p hp => by rw [hl₁ p, hl₂ p, h p hp])

/-- a target given positionally AND under any of the three names is refused (`fidelity(s, t, target_rho=t)`): the renamed keyword
collides with the positional argument in Python's binding -/
theorem C10_alias_positional_shadow (isKL : Bool) (pos : List Arg) (kw : List (String × Arg))
    (hpos : 2 ≤ pos.length) (hsrc : targetSources kw ≠ []) : metricBind isKL pos kw = .error .TypeError := by
  by_cases h : 2 ≤ (targetSources kw).length
  · simp only [metricBind, aliasCall, (C10_alias_rename_spec kw).1 h]
  · obtain ⟨kw', hk, hl⟩ := (C10_alias_rename_spec kw).2 (by omega)
    obtain ⟨v, hv⟩ : ∃ v, kwLookup kw' "target" = some v := by
      rw [hl "target"]
      cases hs : targetSources kw with
      | nil => exact absurd hs hsrc
      | cons v _ => exact ⟨v, by simp [normKw, hs]⟩
    simp only [metricBind, aliasCall, hk]
    exact bindParams_shadow metricDefault kw' ["nn_state"] "target" _ pos (by simp only [List.length_cons, List.length_nil]; omega) v hv

example : metricBind false [.ref 0] [("target_psi", .ref 1)]
    = .ok [("nn_state", .ref 0), ("target", .ref 1), ("space", .none)] := by rfl
example : metricBind true [.ref 0] [("bases", .ref 3), ("target_rho", .ref 1), ("junk", .int 7)]
    = metricBind true [.ref 0, .ref 1, .none, .ref 3] [] := by rfl
example : metricBind true [.ref 0] [("target_rho", .ref 1), ("target_psi", .ref 2)] = .error .TypeError := by rfl
example : metricBind false [.ref 0, .ref 1] [("target_rho", .ref 1)] = .error .TypeError := by rfl
example : targetSources [("space", Arg.ref 2), ("target_psi", Arg.ref 1)] = [Arg.ref 1] := by rfl

end aliaslayer

end C10
end QV.Props
