/-
C20 — Model construction and reset honour their documented contracts.

"A state built from a user-supplied RBM uses that RBM (its parameters and sizes) as the amplitude
network and, where a phase network exists, an independent copy of it, so that changing one network
never changes the other; states built from sizes have independent amplitude and phase networks of the
requested shapes with random weights and zero biases. Reinitialising redraws all networks' parameters
with unchanged shapes, training a complex or mixed state without measurement bases is refused before
anything changes, and the phase network's auxiliary bias stays zero throughout training."

Model: QV.Model.Store (heap of tensor / network / dict objects with identities; constructors, reinit, fit
guard, history machine `step`/`run`) and QV.Model.PhaseAux (numeric aux-bias gradient rows and the SGD /
Adam update rules); both are executed against the real code by the C20 correspondence check.
Identity statements are statements about object ids; "contents" are the opaque tokens read through the
heap (`viewNet`).  All theorems: every heap / history / size / hyper-parameter / number of steps.
-/
import QV.Lemmas.StoreIO
import QV.Lemmas.PhaseAux
import QV.Lemmas.Optim
import QV.Model.Density
import QV.Model.Frame
import QV.Real
import QV.Lemmas.InitLaw

namespace QV.Props
namespace C20
open QV QV.Store QV.PhaseAux QV.Optim

/-! ### specification vocabulary -/

/-- what a freshly initialised RBM must look like: weights `w₀` (`w₁`) from the generator, ALL biases
the zero token, shapes `H×n, [A×n,] n, H[, A]` -/
def freshParams (k : NetKind) (n H A : Nat) (w : List Tok) : SD :=
  match k with
  | .binary => [("weights", [H, n], w.getD 0 0), ("visible_bias", [n], 0), ("hidden_bias", [H], 0)]
  | .purif => [("weights_W", [H, n], w.getD 0 0), ("weights_U", [A, n], w.getD 1 0),
               ("visible_bias", [n], 0), ("hidden_bias", [H], 0), ("aux_bias", [A], 0)]

/-- documented defaults: `num_hidden=None → num_visible` (for `BinaryRBM` also `0 → num_visible`, because
of `if num_hidden`), `num_aux=None → num_visible` -/
def hiddenDefault (k : NetKind) (n : Nat) (nh : Option Nat) : Nat :=
  match nh with
  | none => n
  | some x => if k = .binary ∧ x = 0 then n else x

theorem freshParams_eq (k : NetKind) (n H A : Nat) (w : List Tok) : paramSpecs k n H A w = freshParams k n H A w := by
  cases k <;> rfl

theorem hiddenDefault_eq (k : NetKind) (n : Nat) (nh : Option Nat) : defaultH k n nh = hiddenDefault k n nh := by
  cases k <;> cases nh with
  | none => rfl
  | some x => cases x <;> simp [defaultH, hiddenDefault]

/-- in a well-formed world, different networks of one state own disjoint sets of parameter tensors -/
theorem nets_disjoint {h : Heap} (wf : HeapWF h) {st : NState} (ok : StateOK h st)
    (p q : String × Nat) (hp : p ∈ st.nets) (hq : q ∈ st.nets) (hpq : p ≠ q) :
    p.2 ≠ q.2 ∧ ∀ x ∈ netIds h p.2, x ∉ netIds h q.2 := by
  have hne : p.2 ≠ q.2 := by
    intro e
    -- equal ids at two different positions contradict `Nodup`
    have hnd := ok.idsNodup
    have : p = q := by
      have hinj := List.inj_on_of_nodup_map hnd
      exact hinj hp hq e
    exact hpq this
  refine ⟨hne, ?_⟩
  intro x hx hx2
  unfold netIds at hx hx2
  cases h1 : h.nets p.2 with
  | none => simp [h1] at hx
  | some n1 =>
    cases h2 : h.nets q.2 with
    | none => simp [h2] at hx2
    | some n2 =>
      simp only [h1] at hx
      simp only [h2] at hx2
      exact wf.disj p.2 q.2 n1 n2 h1 h2 hne x hx hx2

/-! ### C20.3 — states built from sizes -/

/-- **C20_sizes.** `Kind(num_visible, num_hidden, num_aux)` on any well-formed heap: the state has the
networks of its type; network `j` is a NEW object whose parameters are NEW tensors holding generator
weights `rand[j]` and zero biases, with shapes `(H×n, [A×n,] n, H[, A])` for the requested or defaulted
`H`, `A`; the size attributes are `(n, H[, A])`; different networks share no parameter tensor (so a write
to one never changes the other, see `C20_no_alias`). -/
theorem C20_sizes {h : Heap} (wf : HeapWF h) (kind : Kind) (n : Nat) (nh na : Option Nat)
    (ud : Option (List (String × Tok))) (rand : List (List Tok)) :
    let r := constructSizes h kind n nh na ud rand
    let k := netKindOf kind
    let H := hiddenDefault k n nh
    let A := if kind = .dens then na.getD n else 0
    r.2.kind = kind ∧ r.2.nv = n ∧ r.2.nh = H ∧ r.2.na = (if kind = .dens then some A else none) ∧
    r.2.nets.map Prod.fst = netNames kind ∧
    (∀ j p, r.2.nets[j]? = some p →
        viewNet r.1 p.2 = freshParams k n H A (rand.getD j []) ∧
        h.next ≤ p.2 ∧ (∀ x ∈ netIds r.1 p.2, h.next ≤ x) ∧
        ∃ net, r.1.nets p.2 = some net ∧ net.kind = k ∧ net.nv = n ∧ net.nh = H ∧ net.na = A) ∧
    (∀ p ∈ r.2.nets, ∀ q ∈ r.2.nets, p ≠ q → ∀ x ∈ netIds r.1 p.2, x ∉ netIds r.1 q.2) := by
  intro r k H A
  obtain ⟨f1, _, f3⟩ := constructSizes_facts wf kind n nh na ud rand
  have hdisj : ∀ p ∈ r.2.nets, ∀ q ∈ r.2.nets, p ≠ q → ∀ x ∈ netIds r.1 p.2, x ∉ netIds r.1 q.2 :=
    fun p hp q hq hpq => (nets_disjoint f1 f3 p q hp hq hpq).2
  have hH : defaultH k n nh = H := hiddenDefault_eq k n nh
  cases kind with
  | pos =>
    obtain ⟨ps, a1, a2, a3, a4⟩ := allocNet_new h .binary n (defaultH .binary n nh) (defaultA .binary n na)
      (paramSpecs .binary n (defaultH .binary n nh) (defaultA .binary n na) (rand.getD 0 []))
    refine ⟨rfl, rfl, hH, rfl, rfl, ?_, hdisj⟩
    intro j p hp
    have hj : j = 0 ∧ p = ("rbm_am", (newNet h .binary n nh na (rand.getD 0 [])).2) := by
      cases j with
      | zero => simpa [r, constructSizes, netKindOf] using hp.symm
      | succ j' => simp [r, constructSizes, netKindOf] at hp
    obtain ⟨rfl, rfl⟩ := hj
    refine ⟨?_, a4, ?_, ⟨_, a1, rfl, rfl, hH, rfl⟩⟩
    · show viewNet (newNet h .binary n nh na (rand.getD 0 [])).1 _ = _
      rw [newNet_eq, a2, freshParams_eq]; simp only [k, netKindOf] at hH; rw [hH]; rfl
    · intro x hx
      have : netIds (newNet h .binary n nh na (rand.getD 0 [])).1 (newNet h .binary n nh na (rand.getD 0 [])).2
          = ids ps := by unfold netIds; rw [newNet_eq, a1]
      exact a3 x (this ▸ hx)
  | cplx =>
    -- first allocation (amplitude), second allocation (phase) on top of it
    have wf1 := (newNet_facts wf .binary n nh na (rand.getD 0 [])).1
    obtain ⟨ps, a1, a2, a3, a4⟩ := allocNet_new h .binary n (defaultH .binary n nh) (defaultA .binary n na)
      (paramSpecs .binary n (defaultH .binary n nh) (defaultA .binary n na) (rand.getD 0 []))
    obtain ⟨qs, b1, b2, b3, b4⟩ := allocNet_new (newNet h .binary n nh na (rand.getD 0 [])).1 .binary n
      (defaultH .binary n nh) (defaultA .binary n na)
      (paramSpecs .binary n (defaultH .binary n nh) (defaultA .binary n na) (rand.getD 1 []))
    obtain ⟨o1, o2⟩ := allocNet_old wf1 .binary n (defaultH .binary n nh) (defaultA .binary n na)
      (paramSpecs .binary n (defaultH .binary n nh) (defaultA .binary n na) (rand.getD 1 []))
      (newNet h .binary n nh na (rand.getD 0 [])).2 (by rw [newNet_eq, a1]; rfl)
    have hle : h.next ≤ (newNet h .binary n nh na (rand.getD 0 [])).1.next :=
      by have := (newNet_facts wf .binary n nh na (rand.getD 0 [])).2.2.2; omega
    simp only [k, netKindOf] at hH
    refine ⟨rfl, rfl, hH, rfl, rfl, ?_, hdisj⟩
    intro j p hp
    cases j with
    | zero =>
      have : p = ("rbm_am", (newNet h .binary n nh na (rand.getD 0 [])).2) := by
        simpa [r, constructSizes, netKindOf] using hp.symm
      subst this
      refine ⟨?_, a4, ?_, ⟨⟨.binary, n, defaultH .binary n nh, defaultA .binary n na, ps⟩, ?_, rfl, rfl, hH, rfl⟩⟩
      · show viewNet (newNet (newNet h .binary n nh na (rand.getD 0 [])).1 .binary n nh na (rand.getD 1 [])).1 _ = _
        rw [newNet_eq (newNet h .binary n nh na (rand.getD 0 [])).1, o2, newNet_eq, a2, freshParams_eq, hH]; rfl
      · intro x hx
        have : netIds r.1 (newNet h .binary n nh na (rand.getD 0 [])).2 = ids ps := by
          show netIds (newNet (newNet h .binary n nh na (rand.getD 0 [])).1 .binary n nh na (rand.getD 1 [])).1 _ = _
          unfold netIds
          rw [newNet_eq (newNet h .binary n nh na (rand.getD 0 [])).1, o1, newNet_eq, a1]
        exact a3 x (this ▸ hx)
      · show (newNet (newNet h .binary n nh na (rand.getD 0 [])).1 .binary n nh na (rand.getD 1 [])).1.nets _ = _
        rw [newNet_eq (newNet h .binary n nh na (rand.getD 0 [])).1, o1, newNet_eq, a1]
    | succ j' =>
      have hj : j' = 0 ∧ p = ("rbm_ph", (newNet (newNet h .binary n nh na (rand.getD 0 [])).1 .binary n nh na (rand.getD 1 [])).2) := by
        cases j' with
        | zero => simpa [r, constructSizes, netKindOf] using hp.symm
        | succ j'' => simp [r, constructSizes, netKindOf] at hp
      obtain ⟨rfl, rfl⟩ := hj
      refine ⟨?_, by rw [newNet_eq (newNet h .binary n nh na (rand.getD 0 [])).1]; omega, ?_, ⟨⟨.binary, n, defaultH .binary n nh, defaultA .binary n na, qs⟩, ?_, rfl, rfl, hH, rfl⟩⟩
      · show viewNet (newNet (newNet h .binary n nh na (rand.getD 0 [])).1 .binary n nh na (rand.getD 1 [])).1 _ = _
        rw [newNet_eq (newNet h .binary n nh na (rand.getD 0 [])).1, b2, freshParams_eq, hH]; rfl
      · intro x hx
        have : netIds r.1 (newNet (newNet h .binary n nh na (rand.getD 0 [])).1 .binary n nh na (rand.getD 1 [])).2 = ids qs := by
          show netIds (newNet (newNet h .binary n nh na (rand.getD 0 [])).1 .binary n nh na (rand.getD 1 [])).1 _ = _
          unfold netIds
          rw [newNet_eq (newNet h .binary n nh na (rand.getD 0 [])).1, b1]
        have := b3 x (this ▸ hx)
        omega
      · show (newNet (newNet h .binary n nh na (rand.getD 0 [])).1 .binary n nh na (rand.getD 1 [])).1.nets _ = _
        rw [newNet_eq (newNet h .binary n nh na (rand.getD 0 [])).1, b1]
  | dens =>
    have wf1 := (newNet_facts wf .purif n nh na (rand.getD 0 [])).1
    obtain ⟨ps, a1, a2, a3, a4⟩ := allocNet_new h .purif n (defaultH .purif n nh) (defaultA .purif n na)
      (paramSpecs .purif n (defaultH .purif n nh) (defaultA .purif n na) (rand.getD 0 []))
    obtain ⟨qs, b1, b2, b3, b4⟩ := allocNet_new (newNet h .purif n nh na (rand.getD 0 [])).1 .purif n
      (defaultH .purif n nh) (defaultA .purif n na)
      (paramSpecs .purif n (defaultH .purif n nh) (defaultA .purif n na) (rand.getD 1 []))
    obtain ⟨o1, o2⟩ := allocNet_old wf1 .purif n (defaultH .purif n nh) (defaultA .purif n na)
      (paramSpecs .purif n (defaultH .purif n nh) (defaultA .purif n na) (rand.getD 1 []))
      (newNet h .purif n nh na (rand.getD 0 [])).2 (by rw [newNet_eq, a1]; rfl)
    have hle : h.next ≤ (newNet h .purif n nh na (rand.getD 0 [])).1.next :=
      by have := (newNet_facts wf .purif n nh na (rand.getD 0 [])).2.2.2; omega
    simp only [k, netKindOf] at hH
    have hA : defaultA .purif n na = A := by simp [A, defaultA]
    refine ⟨rfl, rfl, hH, by simp [r, constructSizes, netKindOf, A, defaultA], rfl, ?_, hdisj⟩
    intro j p hp
    cases j with
    | zero =>
      have : p = ("rbm_am", (newNet h .purif n nh na (rand.getD 0 [])).2) := by
        simpa [r, constructSizes, netKindOf] using hp.symm
      subst this
      refine ⟨?_, a4, ?_, ⟨⟨.purif, n, defaultH .purif n nh, defaultA .purif n na, ps⟩, ?_, rfl, rfl, hH, hA⟩⟩
      · show viewNet (newNet (newNet h .purif n nh na (rand.getD 0 [])).1 .purif n nh na (rand.getD 1 [])).1 _ = _
        rw [newNet_eq (newNet h .purif n nh na (rand.getD 0 [])).1, o2, newNet_eq, a2, freshParams_eq, hH, hA]; rfl
      · intro x hx
        have : netIds r.1 (newNet h .purif n nh na (rand.getD 0 [])).2 = ids ps := by
          show netIds (newNet (newNet h .purif n nh na (rand.getD 0 [])).1 .purif n nh na (rand.getD 1 [])).1 _ = _
          unfold netIds
          rw [newNet_eq (newNet h .purif n nh na (rand.getD 0 [])).1, o1, newNet_eq, a1]
        exact a3 x (this ▸ hx)
      · show (newNet (newNet h .purif n nh na (rand.getD 0 [])).1 .purif n nh na (rand.getD 1 [])).1.nets _ = _
        rw [newNet_eq (newNet h .purif n nh na (rand.getD 0 [])).1, o1, newNet_eq, a1]
    | succ j' =>
      have hj : j' = 0 ∧ p = ("rbm_ph", (newNet (newNet h .purif n nh na (rand.getD 0 [])).1 .purif n nh na (rand.getD 1 [])).2) := by
        cases j' with
        | zero => simpa [r, constructSizes, netKindOf] using hp.symm
        | succ j'' => simp [r, constructSizes, netKindOf] at hp
      obtain ⟨rfl, rfl⟩ := hj
      refine ⟨?_, by rw [newNet_eq (newNet h .purif n nh na (rand.getD 0 [])).1]; omega, ?_, ⟨⟨.purif, n, defaultH .purif n nh, defaultA .purif n na, qs⟩, ?_, rfl, rfl, hH, hA⟩⟩
      · show viewNet (newNet (newNet h .purif n nh na (rand.getD 0 [])).1 .purif n nh na (rand.getD 1 [])).1 _ = _
        rw [newNet_eq (newNet h .purif n nh na (rand.getD 0 [])).1, b2, freshParams_eq, hH, hA]; rfl
      · intro x hx
        have : netIds r.1 (newNet (newNet h .purif n nh na (rand.getD 0 [])).1 .purif n nh na (rand.getD 1 [])).2 = ids qs := by
          show netIds (newNet (newNet h .purif n nh na (rand.getD 0 [])).1 .purif n nh na (rand.getD 1 [])).1 _ = _
          unfold netIds
          rw [newNet_eq (newNet h .purif n nh na (rand.getD 0 [])).1, b1]
        have := b3 x (this ▸ hx)
        omega
      · show (newNet (newNet h .purif n nh na (rand.getD 0 [])).1 .purif n nh na (rand.getD 1 [])).1.nets _ = _
        rw [newNet_eq (newNet h .purif n nh na (rand.getD 0 [])).1, b1]


/-! ### C20.1 — states built from a user-supplied RBM -/

/-- **C20_module.** `Kind(module=m)` on any well-formed heap, when it succeeds: the amplitude network IS
the module object `m` (same object id — hence the same parameter objects and sizes; the module object is
not modified), the state's size attributes are the module's; where a phase network exists it is a NEW
network object whose parameters are NEW tensor objects (ids not in use before, in particular none of the
module's), with the module's size attributes and with contents equal to the module's at construction. -/
theorem C20_module {h : Heap} (wf : HeapWF h) (kind : Kind) (mid : Nat) (m : Net) (hm : h.nets mid = some m)
    (ud : Option (List (String × Tok))) (h' : Heap) (st : NState)
    (hc : constructFrom h kind mid ud = .ok (h', st)) :
    st.kind = kind ∧ aget st.nets "rbm_am" = some mid ∧ h'.nets mid = some m ∧ viewNet h' mid = viewNet h mid ∧
    st.nv = m.nv ∧ st.nh = m.nh ∧ (kind = .dens → st.na = some m.na) ∧
    st.nets.map Prod.fst = netNames kind ∧
    (kind ≠ .pos → ∃ ph cp, aget st.nets "rbm_ph" = some ph ∧ h.next ≤ ph ∧ ph ≠ mid ∧
        h'.nets ph = some { m with params := cp } ∧ (∀ x ∈ ids cp, h.next ≤ x) ∧
        (∀ x ∈ ids cp, x ∉ ids m.params) ∧ viewNet h' ph = viewNet h mid) := by
  have hmid : mid < h.next := wf.net_lt mid (by simp [hm])
  -- facts about the deep copy
  have hcopy : ∃ cp, (deepcopyNet h mid).1.nets (deepcopyNet h mid).2 = some { m with params := cp } ∧
      viewNet (deepcopyNet h mid).1 (deepcopyNet h mid).2 = viewNet h mid ∧ (∀ x ∈ ids cp, h.next ≤ x) ∧
      h.next ≤ (deepcopyNet h mid).2 ∧ (deepcopyNet h mid).1.nets mid = some m ∧
      viewNet (deepcopyNet h mid).1 mid = viewNet h mid := by
    unfold deepcopyNet
    simp only [hm]
    obtain ⟨cp, a1, a2, a3, a4⟩ := allocNet_new h m.kind m.nv m.nh m.na (viewParams h m.params)
    obtain ⟨o1, o2⟩ := allocNet_old wf m.kind m.nv m.nh m.na (viewParams h m.params) mid (by simp [hm])
    refine ⟨cp, a1, ?_, a3, a4, by rw [o1, hm], o2⟩
    rw [a2]; simp [viewNet, hm]
  obtain ⟨cp, d1, d2, d3, d4, d5, d6⟩ := hcopy
  have hfresh : ∀ x ∈ ids cp, x ∉ ids m.params := by
    intro x hx hx2
    have h1 := d3 x hx
    have h2 := wf.lt_of_isSome x (wf.alloc mid m hm x hx2)
    omega
  unfold constructFrom at hc
  simp only [hm] at hc
  cases kind with
  | pos =>
    simp only [Except.ok.injEq, Prod.mk.injEq] at hc
    obtain ⟨rfl, rfl⟩ := hc
    exact ⟨rfl, by simp [aget_cons], hm, rfl, rfl, rfl, by simp, rfl, by simp⟩
  | cplx =>
    simp only [Except.ok.injEq, Prod.mk.injEq] at hc
    obtain ⟨rfl, rfl⟩ := hc
    refine ⟨rfl, by simp [aget_cons], d5, d6, rfl, rfl, by simp, rfl, fun _ => ?_⟩
    exact ⟨_, cp, by simp [aget_cons], d4, by omega, d1, d3, hfresh, d2⟩
  | dens =>
    cases hk : m.kind with
    | binary => simp [hk] at hc
    | purif =>
      simp only [hk, Except.ok.injEq, Prod.mk.injEq] at hc
      obtain ⟨rfl, rfl⟩ := hc
      refine ⟨rfl, by simp [aget_cons], d5, d6, rfl, rfl, fun _ => rfl, rfl, fun _ => ?_⟩
      rw [hk] at d1
      exact ⟨_, cp, by simp [aget_cons], d4, by omega, d1, d3, hfresh, d2⟩

/-- `DensityMatrix(module=BinaryRBM(…))` is refused (`num_aux` does not exist) -/
theorem C20_module_wrong_type {h : Heap} (mid : Nat) (m : Net) (hm : h.nets mid = some m) (hk : m.kind = .binary)
    (ud : Option (List (String × Tok))) : constructFrom h .dens mid ud = .error .AttributeError := by
  simp [constructFrom, hm, hk]

/-- **C20_module_args_ignored.** The constructor call as the caller writes it,
`Kind(num_visible, num_hidden, num_aux, unitary_dict, module=m)` (`ctorOp`, what the driver executes for every
construction): with a module, the sizes passed alongside it play no role — any two choices (nothing, the module's own
sizes, other numbers; any generator draws) give the same world and the same outcome, namely those of `Kind(module=m)`;
without a module it is the sizes branch with exactly these sizes. -/
theorem C20_module_args_ignored (w : World) (slot : Nat) (kind : Kind) (nv nv' : Nat) (nh na nh' na' : Option Nat)
    (ud : Option (List (String × Tok))) (ms : Nat) (rand rand' : List (List Tok)) :
    step w (ctorOp slot kind nv nh na ud (some ms) rand) = step w (ctorOp slot kind nv' nh' na' ud (some ms) rand') ∧
    step w (ctorOp slot kind nv nh na ud (some ms) rand) = step w (.constructFrom slot kind ms ud) ∧
    step w (ctorOp slot kind nv nh na ud none rand) = step w (.construct slot kind nv nh na ud rand) :=
  ⟨rfl, rfl, rfl⟩

/-- **C20_module_sizes_from_module.** Whatever sizes the caller passes alongside `module=m` (for every world with a
well-formed heap, every slot, every state type): if the constructor call succeeds, the state bound afterwards has the
MODULE's sizes (`num_visible`, `num_hidden`, and `num_aux` for a mixed state) and the module object itself as its
amplitude network, the module object is unchanged, and a phase network (where one exists) is a new object with the
module's size attributes — none of this depends on the arguments `nv nh na`. -/
theorem C20_module_sizes_from_module (w : World) (wf : HeapWF w.heap) (slot : Nat) (kind : Kind) (nv : Nat)
    (nh na : Option Nat) (ud : Option (List (String × Tok))) (ms : Nat) (rand : List (List Tok))
    (mid : Nat) (m : Net) (hms : w.modules ms = some mid) (hm : w.heap.nets mid = some m)
    (hok : (step w (ctorOp slot kind nv nh na ud (some ms) rand)).2 = none) :
    ∃ st, (step w (ctorOp slot kind nv nh na ud (some ms) rand)).1.states slot = some st ∧
      st.kind = kind ∧ st.nv = m.nv ∧ st.nh = m.nh ∧ (kind = .dens → st.na = some m.na) ∧
      aget st.nets "rbm_am" = some mid ∧
      (step w (ctorOp slot kind nv nh na ud (some ms) rand)).1.heap.nets mid = some m ∧
      (kind ≠ .pos → ∃ ph cp, aget st.nets "rbm_ph" = some ph ∧ ph ≠ mid ∧
        (step w (ctorOp slot kind nv nh na ud (some ms) rand)).1.heap.nets ph = some { m with params := cp }) := by
  simp only [ctorOp, step, hms] at hok ⊢
  cases hc : constructFrom w.heap kind mid ud with
  | error e => simp [hc] at hok
  | ok r =>
    obtain ⟨h', st⟩ := r
    obtain ⟨a1, a2, a3, _, a5, a6, a7, _, a9⟩ := C20_module wf kind mid m hm ud h' st hc
    refine ⟨st, by simp, a1, a5, a6, a7, a2, by simpa using a3, fun hk => ?_⟩
    obtain ⟨ph, cp, b1, _, b3, b4, _⟩ := a9 hk
    exact ⟨ph, cp, b1, b3, by simpa using b4⟩

/-- the hypotheses are satisfiable and the statement is not vacuous: a mixed state built from a 2-3-1 module together with
the inconsistent sizes `num_visible=7, num_hidden=5, num_aux=4` has the module's sizes 2 / 3 / 1 -/
example : (((run World.empty [.mkModule 0 .purif 2 (some 3) (some 1) false [5, 6],
    ctorOp 0 .dens 7 (some 5) (some 4) none (some 0) []]).states 0).map (fun st => (st.nv, st.nh, st.na)))
    = some (2, 3, some 1) := by decide

/-! ### C20.2 — no aliasing between the networks of a state, for every reachable history -/

/-- **C20_no_alias.** For EVERY history of operations (construct from sizes or modules — including several
states sharing one module —, external writes, training, reinitialise, save, load, autoload, …) and every state
bound at its end: two different networks of the state are different objects owning disjoint sets of
parameter tensors; consequently any in-place write into the parameters of one (an external write
`writeNet`, or whatever else touches only those tensors, e.g. an optimizer step on that network) leaves every
read of the other unchanged. -/
theorem C20_no_alias (ops : List Op) (slot : Nat) (st : NState)
    (hs : (run World.empty ops).states slot = some st) (p q : String × Nat)
    (hp : p ∈ st.nets) (hq : q ∈ st.nets) (hpq : p ≠ q) :
    let h := (run World.empty ops).heap
    p.2 ≠ q.2 ∧ (∀ x ∈ netIds h p.2, x ∉ netIds h q.2) ∧
    (∀ toks, viewNet (writeNet h p.2 toks) q.2 = viewNet h q.2) ∧
    (∀ h', Touches h h' (netIds h p.2) → viewNet h' q.2 = viewNet h q.2) := by
  intro h
  have wfw := run_wf World.empty WorldWF.empty ops
  have ok := wfw.stateOK hs
  obtain ⟨hne, hd⟩ := nets_disjoint wfw.heap ok p q hp hq hpq
  have hd' : ∀ x ∈ netIds h q.2, x ∉ netIds h p.2 := fun x hx hx2 => hd x hx2 hx
  have key : ∀ h', Touches h h' (netIds h p.2) → viewNet h' q.2 = viewNet h q.2 := by
    intro h' t
    exact viewNet_touches_disj t q.2 (fun net hn x hx => hd' x (by unfold netIds; rw [hn]; exact hx))
  refine ⟨hne, hd, ?_, key⟩
  intro toks
  cases hn : h.nets p.2 with
  | none => simp [writeNet, hn]
  | some net =>
    apply key
    have := touches_writeNet h p.2 toks net hn
    unfold netIds; rw [hn]; exact this

/-! ### C20.4 — reinitialise -/

/-- **C20_reinit.** `reinitialize_parameters()` on a state of a well-formed heap: EVERY network of the state
(index `j` in `self.networks`) keeps its identity and size attributes and gets NEW parameter tensors (ids not
in use before) holding generator weights `rand[j]` and zero biases; the parameter names and shapes are the
ones it had before. -/
theorem C20_reinit {h : Heap} (wf : HeapWF h) (st : NState) (ok : StateOK h st) (rand : List (List Tok))
    (j : Nat) (p : String × Nat) (hp : st.nets[j]? = some p) :
    ∃ net ps, h.nets p.2 = some net ∧ (reinit h st.nets rand).nets p.2 = some { net with params := ps } ∧
      viewNet (reinit h st.nets rand) p.2 = freshParams net.kind net.nv net.nh net.na (rand.getD j []) ∧
      (∀ x ∈ ids ps, h.next ≤ x) ∧ (∀ x ∈ ids ps, x ∉ ids net.params) ∧
      shapesOf (viewNet (reinit h st.nets rand) p.2) = shapesOf (viewNet h p.2) := by
  obtain ⟨net, ps, a1, a2, a3, a4⟩ := reinit_spec wf st.nets rand ok.nets ok.idsNodup j p hp
  refine ⟨net, ps, a1, a2, by rw [a3, freshParams_eq], a4, ?_, ?_⟩
  · intro x hx hx2
    have h1 := a4 x hx
    have h2 := wf.lt_of_isSome x (wf.alloc p.2 net a1 x hx2)
    omega
  · rw [a3, shapesOf_paramSpecs]
    simp only [viewNet, a1]
    exact (wf.shapes p.2 net a1).symm

/-! ### C20.4' — the `zero_weights` option of the RBM constructors is not remembered -/

/-- the weights a module gets from `initialize_parameters(zero_weights=b)` / the RBM constructors:
all-zero with `zero_weights=True`, otherwise the generator's draws -/
def initWeights (zeroWeights : Bool) (rand : List Tok) : List Tok := if zeroWeights then [] else rand

/-- **C20_module_ctor.** `BinaryRBM(n, nh, zero_weights=zw)` / `PurificationRBM(n, nh, na, zero_weights=zw)`:
a NEW module object with NEW tensors of the requested or defaulted shapes, zero biases, and weights that are
the generator's draws — or all zero iff `zero_weights=True` was asked for. -/
theorem C20_module_ctor (w : World) (mslot : Nat) (k : NetKind) (n : Nat) (nh na : Option Nat) (zw : Bool)
    (rand : List Tok) :
    let r := step w (.mkModule mslot k n nh na zw rand)
    r.2 = none ∧ ∃ id ps, r.1.modules mslot = some id ∧ w.heap.next ≤ id ∧
      r.1.heap.nets id = some ⟨k, n, hiddenDefault k n nh, defaultA k n na, ps⟩ ∧
      viewNet r.1.heap id = freshParams k n (hiddenDefault k n nh) (defaultA k n na) (initWeights zw rand) ∧
      (∀ x ∈ ids ps, w.heap.next ≤ x) := by
  intro r
  obtain ⟨ps, a1, a2, a3, a4⟩ := allocNet_new w.heap k n (defaultH k n nh) (defaultA k n na)
    (paramSpecs k n (defaultH k n nh) (defaultA k n na) (weightToks zw rand))
  rw [← newNet_eq] at a1 a2 a4
  have hw : initWeights zw rand = weightToks zw rand := rfl
  refine ⟨rfl, (newNet w.heap k n nh na (weightToks zw rand)).2, ps, ?_, a4, ?_, ?_, a3⟩
  · simp [r, step, upd]
  · rw [← hiddenDefault_eq]; exact a1
  · rw [← hiddenDefault_eq, ← freshParams_eq, hw]; exact a2

/-- **C20_init_module.** `module.initialize_parameters()` / `module.initialize_parameters(zero_weights=b)` on a
module the caller holds — whatever created it (in particular a constructor call with `zero_weights=True`) and
whatever happened to it since: the module keeps its identity and sizes and gets NEW parameter tensors with zero
biases and weights drawn from the generator, all-zero ONLY if this very call asked for `zero_weights=True`
(`zw = none` is the call without the argument); every other network object is left alone. -/
theorem C20_init_module (w : World) (wf : HeapWF w.heap) (mslot id : Nat) (net : Net)
    (hm : w.modules mslot = some id) (hn : w.heap.nets id = some net) (zw : Option Bool) (rand : List Tok) :
    let r := step w (.initModule mslot zw rand)
    r.2 = none ∧ r.1.modules = w.modules ∧ r.1.states = w.states ∧
    (∃ ps, r.1.heap.nets id = some { net with params := ps } ∧
      viewNet r.1.heap id = freshParams net.kind net.nv net.nh net.na (initWeights (zw.getD false) rand) ∧
      (∀ x ∈ ids ps, w.heap.next ≤ x) ∧ (∀ x ∈ ids ps, x ∉ ids net.params)) ∧
    (∀ i, i ≠ id → r.1.heap.nets i = w.heap.nets i ∧ viewNet r.1.heap i = viewNet w.heap i) := by
  intro r
  have hr : r = ({ w with heap := initParams w.heap id (weightToks (zw.getD false) rand) }, none) := by
    simp [r, step, hm]
  obtain ⟨ps, n1, n2, n3, _⟩ := initParams_new w.heap id (weightToks (zw.getD false) rand) net hn
  rw [hr]
  refine ⟨rfl, rfl, rfl, ⟨ps, n1, ?_, n3, ?_⟩, fun i hi => initParams_old wf id _ i hi⟩
  · rw [← freshParams_eq]; exact n2
  · intro x hx hx2
    have h1 := n3 x hx
    have h2 := wf.lt_of_isSome x (wf.alloc id net hn x hx2)
    omega

/-- a module created with `zero_weights=True`, handed to a complex state and reinitialised: BOTH networks of the
state end up with generator weights (tokens 8 and 9), not with zeros — the constructor's option is not sticky -/
example :
    let w := run World.empty [.mkModule 0 .binary 2 (some 3) none true [7], .constructFrom 0 .cplx 0 none,
      .reinit 0 [[8], [9]]]
    ((w.states 0).map (fun st => st.nets.map (fun p => viewNet w.heap p.2)))
      = some [freshParams .binary 2 3 0 [8], freshParams .binary 2 3 0 [9]] := by decide

/-- … while the constructor itself honoured it: directly after `BinaryRBM(2, 3, zero_weights=True)` the weights
are the zero token, and an explicit `initialize_parameters(zero_weights=True)` zeroes them again -/
example :
    let w := run World.empty [.mkModule 0 .binary 2 (some 3) none true [7]]
    (w.modules 0).map (viewNet w.heap) = some (freshParams .binary 2 3 0 []) := by decide
example :
    let w := run World.empty [.mkModule 0 .purif 2 none (some 0) false [7, 8], .initModule 0 (some true) [5, 6]]
    (w.modules 0).map (viewNet w.heap) = some (freshParams .purif 2 2 0 []) := by decide
example :
    let w := run World.empty [.mkModule 0 .purif 2 none (some 0) true [7, 8], .initModule 0 none [5, 6]]
    (w.modules 0).map (viewNet w.heap) = some (freshParams .purif 2 2 0 [5, 6]) := by decide

/-! ### C20.5 — the `fit` guards -/

/-- **C20_fit_guard.** Training a complex or mixed state without measurement bases is a `ValueError` and the
world (every parameter of every object, every file) is exactly what it was; the positive state ignores
`input_bases`. -/
theorem C20_fit_guard (w : World) (slot : Nat) (st : NState) (hs : w.states slot = some st)
    (toks : List (List Tok)) :
    (st.kind ≠ .pos → step w (.train slot false toks) = (w, some .ValueError)) ∧
    (st.kind = .pos → step w (.train slot false toks) = step w (.train slot true toks) ∧
        (step w (.train slot false toks)).2 = none) := by
  constructor
  · intro hk
    cases hkk : st.kind <;> simp_all [step, fit]
  · intro hk
    simp [step, hs, fit, hk]

/-! ### C20.6 — the phase network's auxiliary bias -/

section numeric
variable {α : Type} [Field α] [Transc α]

/-- the contributions `gradient(samples, bases)[1]` accumulates for one coordinate of the phase network's
auxiliary bias: `0.0` for an all-`Z` basis, otherwise the `rotated_gradient` contraction (any rotated
amplitudes `UrhoU_v`, any inverse probabilities, any sigmoid values in `pi_grad`) of `ph_grads`. -/
inductive AuxContribution : α → Prop
  | zBasis : AuxContribution 0
  | rotated (N B : ℕ) (U : Fin N → Fin N → Fin B → C α) (inv : Fin B → α) (sig : Fin N → Fin N → Fin B → C α) :
      AuxContribution (rotatedAux N B U inv (fun i j b => phGradsAux (sig i j b)))

/-- a gradient value the code can hand to the optimizer for that coordinate: contributions of the batch's
unique bases, summed and divided by the batch size -/
def IsPhaseAuxGrad (g : α) : Prop :=
  ∃ (contribs : List α) (batchSize : α), (∀ c ∈ contribs, AuxContribution c) ∧ g = batchGradAux contribs batchSize

/-- **C20_phase_aux_grad_zero.** the aux-bias entries of `pi_grad(phase=True)`, `gamma_grad`, hence of `ph_grads`,
of the rotated gradient and of the batch gradient are identically zero. -/
theorem C20_phase_aux_grad_zero (g : α) (hg : IsPhaseAuxGrad g) : g = 0 := by
  obtain ⟨cs, bs, hc, rfl⟩ := hg
  apply batchGradAux_eq_zero
  intro c hcm
  cases hc c hcm with
  | zBasis => rfl
  | rotated N B U inv sig => exact rotatedAux_eq_zero N B U inv _ (fun i j b => phGradsAux_eq_zero _)

/-- **C20_phase_aux_bias_zero.** Every coordinate of the phase network's auxiliary bias that is zero when
training starts is zero after ANY number of optimizer steps, for SGD with any learning rate, momentum,
dampening, weight decay, with or without Nesterov, and for Adam with any learning rate, betas, eps, weight
decay — because every gradient it receives is one of `IsPhaseAuxGrad`, i.e. zero. -/
theorem C20_phase_aux_bias_zero (gs : List α) (hg : ∀ g ∈ gs, IsPhaseAuxGrad g) :
    (∀ c : SGDCfg α, (sgdRun c ⟨0, none⟩ gs).p = 0) ∧
    (∀ c : AdamCfg α, (adamRun c ⟨0, 0, 0, 0⟩ gs).p = 0) := by
  have h0 : ∀ g ∈ gs, g = 0 := fun g hm => C20_phase_aux_grad_zero g (hg g hm)
  exact ⟨fun c => sgdRun_zero c gs h0 _ rfl (Or.inl rfl), fun c => adamRun_zero c gs h0 _ rfl rfl rfl⟩

/-- **C20_phase_aux_bias_zero_any_rule.** "ANY optimizer": for every update rule `r` that has a zero-fixed invariant
(`ZeroFixed`: the invariant forces the coordinate to be `0` and survives a zero-gradient step whatever that step's
hyper-parameters are), started in a state satisfying the invariant, and every sequence of steps whose gradients
are phase-aux gradients of the code (`IsPhaseAuxGrad`) — with hyper-parameters that may change from step to step
(a learning-rate scheduler) — the coordinate is `0` at the end AND after every single step (`trace`: what a
callback sees at each `on_batch_end`). -/
theorem C20_phase_aux_bias_zero_any_rule {κ σ : Type} (r : Rule α κ σ) (Inv : σ → Prop) (h : ZeroFixed r Inv)
    (s0 : σ) (h0 : Inv s0) (cgs : List (κ × α)) (hg : ∀ cg ∈ cgs, IsPhaseAuxGrad cg.2) :
    r.param (r.run s0 cgs) = 0 ∧ (∀ x ∈ r.trace s0 cgs, x = 0) ∧ (r.trace s0 cgs).length = cgs.length := by
  have hz : ∀ cg ∈ cgs, cg.2 = 0 := fun cg hm => C20_phase_aux_grad_zero cg.2 (hg cg hm)
  exact ⟨h.run_zero cgs hz s0 h0, h.trace_zero cgs hz s0 h0, trace_length r s0 cgs⟩

/-- **C20_phase_aux_bias_zero_torch_rules.** The instances: the single-tensor rules of `torch.optim.SGD` (weight
decay, momentum, dampening, Nesterov, maximize), `Adam` / `AdamW` (coupled or decoupled weight decay, amsgrad,
maximize), `Adadelta`, `Adagrad` (lr decay, any initial accumulator), `RMSprop` (momentum, centered), `Adamax`,
`NAdam` (momentum decay, coupled / decoupled decay) — each started from the optimizer's initial state for a
coordinate that is `0` (the accumulators may hold ANY values, only the momentum-like buffers are `0` as torch
creates them), with arbitrary and arbitrarily changing hyper-parameters: the phase auxiliary bias is `0` after
every step. (RAdam, Rprop, ASGD are exercised by the correspondence check only; LBFGS and SparseAdam cannot be
used with `fit`, which calls `optimizer.step()` without a closure and with dense gradients.) -/
theorem C20_phase_aux_bias_zero_torch_rules :
    (∀ cgs : List (SGDX α × α), (∀ cg ∈ cgs, IsPhaseAuxGrad cg.2) →
        ∀ x ∈ sgdRule.trace ⟨0, none⟩ cgs, x = 0) ∧
    (∀ (v vmax : α) (t : ℕ) (cgs : List (AdamX α × α)), (∀ cg ∈ cgs, IsPhaseAuxGrad cg.2) →
        ∀ x ∈ adamRule.trace ⟨0, 0, v, vmax, t⟩ cgs, x = 0) ∧
    (∀ (sq acc : α) (cgs : List (AdadeltaCfg α × α)), (∀ cg ∈ cgs, IsPhaseAuxGrad cg.2) →
        ∀ x ∈ adadeltaRule.trace ⟨0, sq, acc⟩ cgs, x = 0) ∧
    (∀ (acc0 : α) (t : ℕ) (cgs : List (AdagradCfg α × α)), (∀ cg ∈ cgs, IsPhaseAuxGrad cg.2) →
        ∀ x ∈ adagradRule.trace ⟨0, acc0, t⟩ cgs, x = 0) ∧
    (∀ (sq gavg : α) (cgs : List (RMSpropCfg α × α)), (∀ cg ∈ cgs, IsPhaseAuxGrad cg.2) →
        ∀ x ∈ rmspropRule.trace ⟨0, sq, gavg, 0⟩ cgs, x = 0) ∧
    (∀ (u : α) (t : ℕ) (cgs : List (AdamaxCfg α × α)), (∀ cg ∈ cgs, IsPhaseAuxGrad cg.2) →
        ∀ x ∈ adamaxRule.trace ⟨0, 0, u, t⟩ cgs, x = 0) ∧
    (∀ (v mp : α) (t : ℕ) (cgs : List (NAdamCfg α × α)), (∀ cg ∈ cgs, IsPhaseAuxGrad cg.2) →
        ∀ x ∈ nadamRule.trace ⟨0, 0, v, mp, t⟩ cgs, x = 0) :=
  ⟨fun cgs hg => (C20_phase_aux_bias_zero_any_rule _ _ zeroFixed_sgd _ ⟨rfl, Or.inl rfl⟩ cgs hg).2.1,
   fun _ _ _ cgs hg => (C20_phase_aux_bias_zero_any_rule _ _ zeroFixed_adam _ ⟨rfl, rfl⟩ cgs hg).2.1,
   fun _ _ cgs hg => (C20_phase_aux_bias_zero_any_rule _ _ zeroFixed_adadelta _ rfl cgs hg).2.1,
   fun _ _ cgs hg => (C20_phase_aux_bias_zero_any_rule _ _ zeroFixed_adagrad _ rfl cgs hg).2.1,
   fun _ _ cgs hg => (C20_phase_aux_bias_zero_any_rule _ _ zeroFixed_rmsprop _ ⟨rfl, rfl⟩ cgs hg).2.1,
   fun _ _ cgs hg => (C20_phase_aux_bias_zero_any_rule _ _ zeroFixed_adamax _ ⟨rfl, rfl⟩ cgs hg).2.1,
   fun _ _ _ cgs hg => (C20_phase_aux_bias_zero_any_rule _ _ zeroFixed_nadam _ ⟨rfl, rfl⟩ cgs hg).2.1⟩

/-- the hypothesis `ZeroFixed` is not automatic: plain gradient descent with a constant drift term — a rule that moves a
zero coordinate under a zero gradient — has no zero-fixed invariant containing its zero state (so the generic theorem
cannot be instantiated for it, as it should). -/
theorem C20_zeroFixed_not_automatic (drift : α) (hd : drift ≠ 0) :
    ¬ ∃ Inv : α → Prop, Inv 0 ∧ ZeroFixed (⟨fun (_ : Unit) p g => p + (-g) + drift, fun p => p⟩ : Rule α Unit α) Inv := by
  rintro ⟨Inv, h0, h⟩
  have h1 := h.step_zero () 0 h0
  have h2 := h.param_zero _ h1
  simp at h2
  exact hd h2

end numeric

/-! ### C20.6' — scope of the clause: a module-built phase network may carry a non-zero auxiliary bias -/

section scope
variable {α : Type} [Add α] [Mul α] [Neg α] [Sub α] [Div α] [Zero α] [One α] [Transc α]

/-- **C20_phase_aux_bias_unused.** `DensityMatrix(module=m)` copies `m` — INCLUDING a non-zero `aux_bias` — into the phase
network (`C20_module`: the copy's contents are the module's), so for such a state "stays zero" has nothing to say
(`C20_phase_aux_bias_zero*` assume a zero start). What makes the clause harmless there: the phase network's auxiliary
bias enters neither `pi` nor `rho` — replacing it by ANY other vector leaves both unchanged (the model of `pi` reads
`U_μ` only, `gamma` reads `W, b, c` only, as the code does). -/
theorem C20_phase_aux_bias_unused {n h a : ℕ} (am ph : PRBM α n h a) (d' : Fin a → α) (v vp : Fin n → α) :
    Density.rho am { ph with d := d' } v vp = Density.rho am ph v vp ∧
    Density.pi am { ph with d := d' } v vp = Density.pi am ph v vp ∧
    (∀ s, PRBM.gamma { ph with d := d' } s v vp = PRBM.gamma ph s v vp) :=
  ⟨rfl, rfl, fun _ => rfl⟩

end scope

/-- … and the zero start IS needed: under weight decay a NON-zero coordinate moves although all its gradients are zero
(one SGD step, `lr = 1`, `weight_decay = 1`: `2 ↦ 0`). -/
example : (sgdStep (α := ℝ) ⟨1, 0, 0, 1, false, false, true⟩ ⟨2, none⟩ 0).p = 0 := by
  norm_num [sgdStep]

/-! ### non-vacuity -/

/-- a complex state built from a 3-hidden-unit module on 2 sites whose biases were overwritten: the
hypotheses of `C20_module` hold and the construction succeeds -/
example : ∃ h' st, constructFrom
    (writeNet (newNet Heap.empty .binary 2 (some 3) none [7]).1 (newNet Heap.empty .binary 2 (some 3) none [7]).2 [8, 9, 10])
    .cplx (newNet Heap.empty .binary 2 (some 3) none [7]).2 none = .ok (h', st) ∧ st.nets.length = 2 := by
  refine ⟨_, _, rfl, rfl⟩

/-- `C20_fit_guard` / `C20_no_alias` talk about non-empty worlds: after this history slot 0 holds a mixed
state with two networks -/
example : ((run World.empty [.mkModule 0 .purif 2 (some 1) (some 3) false [5, 6], .constructFrom 0 .dens 0 none,
    .reinit 0 [[1], [2]]]).states 0).isSome = true := by decide

/-- a non-trivial gradient history for `C20_phase_aux_bias_zero` over ℝ: one all-`Z` batch and one rotated batch -/
example : ∀ g ∈ [batchGradAux [(0 : ℝ)] 2,
      batchGradAux [rotatedAux 1 1 (fun _ _ _ => ((3 : ℝ), 4)) (fun _ => 5) (fun _ _ _ => phGradsAux ((0.3 : ℝ), 0.7)), 0] 2],
    IsPhaseAuxGrad g := by
  intro g hg
  simp only [List.mem_cons, List.not_mem_nil, or_false] at hg
  rcases hg with rfl | rfl
  · exact ⟨[0], 2, by intro c hc; simp at hc; subst hc; exact .zBasis, rfl⟩
  · refine ⟨_, 2, ?_, rfl⟩
    intro c hc
    simp only [List.mem_cons, List.not_mem_nil, or_false] at hc
    rcases hc with rfl | rfl
    · exact .rotated 1 1 _ _ (fun _ _ _ => ((0.3 : ℝ), 0.7))
    · exact .zBasis

/-! ### Extension round 2: the initialisation LAW (values of the weights as a function of the draws)

`QV.Model.InitLaw.initParams` models `initialize_parameters` entry by entry; the theorems below relate it to
the declarative specification "`W[i][j] = z[pos + i·n + j] / √n`, `U[i][j] = z[pos + H·n + i·n + j] / √n`,
all biases 0", to the draw counts of `QV.Model.Frame` (C14) and to the documented size defaults. -/

/-- a list of rows is an `r × c` matrix -/
def IsMat (M : List (List ℝ)) (r c : ℕ) : Prop := M.length = r ∧ ∀ row ∈ M, row.length = c

/-- entry `(i, j)` of a list of rows -/
def entry (M : List (List ℝ)) (i j : ℕ) : ℝ := (M.getD i []).getD j 0

/-- documented default of `num_aux` (`PurificationRBM` only; a `BinaryRBM` has none: 0): `None → num_visible`,
anything else (incl. 0) kept -/
def auxDefault (k : NetKind) (n : ℕ) (na : Option ℕ) : ℕ :=
  match k, na with
  | .binary, _ => 0
  | .purif, none => n
  | .purif, some x => x

/-- **C20_init_values.** `initialize_parameters()` (random branch) of a module with sizes `n, H, A`, for EVERY
stream of standard-normal draws `z` and stream position `pos`: the weight matrix is `H × n` with
`W[i][j] = z[pos + i·n + j] / √n` (row-major, the first `H·n` draws), for a `PurificationRBM` the second matrix is
`A × n` with `U[i][j] = z[pos + H·n + i·n + j] / √n` (the NEXT `A·n` draws: W before U), every bias is exactly 0
(length `n`, `H`, `A`), a `BinaryRBM` has no `U` / aux bias, and the stream advances by exactly `H·n` (`H·n + A·n`). -/
theorem C20_init_values (k : NetKind) (n H A : ℕ) (z : ℕ → ℝ) (pos : ℕ) :
    IsMat (InitLaw.initParams k n H A false z pos).1.W H n ∧
    (∀ i < H, ∀ j < n, entry (InitLaw.initParams k n H A false z pos).1.W i j = z (pos + (i * n + j)) / Real.sqrt n) ∧
    (InitLaw.initParams k n H A false z pos).1.b = List.replicate n 0 ∧
    (InitLaw.initParams k n H A false z pos).1.c = List.replicate H 0 ∧
    (k = .binary → (InitLaw.initParams k n H A false z pos).1.U = none ∧
        (InitLaw.initParams k n H A false z pos).1.d = none ∧
        (InitLaw.initParams k n H A false z pos).2 = pos + H * n) ∧
    (k = .purif → ∃ U, (InitLaw.initParams k n H A false z pos).1.U = some U ∧ IsMat U A n ∧
        (∀ i < A, ∀ j < n, entry U i j = z (pos + H * n + (i * n + j)) / Real.sqrt n) ∧
        (InitLaw.initParams k n H A false z pos).1.d = some (List.replicate A 0) ∧
        (InitLaw.initParams k n H A false z pos).2 = pos + H * n + A * n) := by
  have hW : ∀ i < H, ∀ j < n, entry (InitLaw.tab2 H n (fun i j => z (pos + (i * n + j)) / InitLaw.scale n)) i j
      = z (pos + (i * n + j)) / Real.sqrt n := by
    intro i hi j hj
    exact InitLaw.tab2_entry (0 : ℝ) H n _ hi hj
  cases k
  · refine ⟨⟨InitLaw.tab2_length _ _ _, InitLaw.tab2_row_length _ _ _⟩, hW, rfl, rfl, fun _ => ⟨rfl, rfl, rfl⟩, (fun h => by cases h)⟩
  · refine ⟨⟨InitLaw.tab2_length _ _ _, InitLaw.tab2_row_length _ _ _⟩, hW, rfl, rfl, (fun h => by cases h), fun _ => ?_⟩
    refine ⟨_, rfl, ⟨InitLaw.tab2_length _ _ _, InitLaw.tab2_row_length _ _ _⟩, ?_, rfl, rfl⟩
    intro i hi j hj
    exact InitLaw.tab2_entry (0 : ℝ) A n _ hi hj

/-- **C20_init_draw_count.** The number of draws `initialize_parameters` consumes in the value model is the
number of `torch.randn` elements C14's call model (`QV.Frame.netInitCalls`) lists for one network of that
architecture: `H·n` for the wavefunction kinds (BinaryRBM), `H·n + A·n` for the density matrix (PurificationRBM). -/
theorem C20_init_draw_count (k : NetKind) (Ar : Frame.Arch) (hk : Ar.kind = .dens ↔ k = .purif)
    (z : ℕ → ℝ) (pos : ℕ) :
    (InitLaw.initParams k Ar.n Ar.h Ar.a false z pos).2 = pos + Frame.callsTotal (Frame.netInitCalls Ar) := by
  obtain ⟨kind, n, h, a⟩ := Ar
  cases k <;> cases kind <;> simp_all [InitLaw.initParams, InitLaw.genMatrix, Frame.netInitCalls, Frame.callsTotal] <;> omega

/-- **C20_init_zero_weights.** `initialize_parameters(zero_weights=True)`: NO draw is consumed (the stream position
is returned unchanged), the result does not depend on the stream at all, the shapes are the same as in the random
branch, and every entry of every weight matrix and every bias is exactly 0. -/
theorem C20_init_zero_weights (k : NetKind) (n H A : ℕ) (z z' : ℕ → ℝ) (pos pos' : ℕ) :
    (InitLaw.initParams k n H A true z pos).2 = pos ∧
    (InitLaw.initParams k n H A true z pos).1 = (InitLaw.initParams k n H A true z' pos').1 ∧
    IsMat (InitLaw.initParams k n H A true z pos).1.W H n ∧
    (∀ row ∈ (InitLaw.initParams k n H A true z pos).1.W, ∀ x ∈ row, x = 0) ∧
    (∀ U, (InitLaw.initParams k n H A true z pos).1.U = some U → k = .purif ∧ IsMat U A n ∧ ∀ row ∈ U, ∀ x ∈ row, x = 0) ∧
    (k = .purif → (InitLaw.initParams k n H A true z pos).1.U ≠ none) ∧
    (InitLaw.initParams k n H A true z pos).1.b = List.replicate n 0 ∧
    (InitLaw.initParams k n H A true z pos).1.c = List.replicate H 0 ∧
    (∀ d, (InitLaw.initParams k n H A true z pos).1.d = some d → d = List.replicate A 0) := by
  have h0 : ∀ r c, ∀ row ∈ InitLaw.tab2 r c (fun _ _ => (0 : ℝ) / InitLaw.scale n), ∀ x ∈ row, x = 0 := by
    intro r c row hrow x hx
    rw [InitLaw.tab2_mem_const r c _ row hrow x hx, zero_div]
  cases k
  · refine ⟨rfl, rfl, ⟨InitLaw.tab2_length _ _ _, InitLaw.tab2_row_length _ _ _⟩, h0 _ _, ?_, (fun h => by cases h), rfl, rfl, ?_⟩
    · intro U hU; cases hU
    · intro d hd; cases hd
  · refine ⟨rfl, rfl, ⟨InitLaw.tab2_length _ _ _, InitLaw.tab2_row_length _ _ _⟩, h0 _ _, ?_, (fun _ h => by cases h), rfl, rfl, ?_⟩
    · intro U hU
      cases hU
      exact ⟨rfl, ⟨InitLaw.tab2_length _ _ _, InitLaw.tab2_row_length _ _ _⟩, h0 _ _⟩
    · intro d hd; cases hd; rfl

/-- **C20_default_sizes.** The constructors `BinaryRBM(n, num_hidden)` / `PurificationRBM(n, num_hidden, num_aux)` produce
exactly what `initialize_parameters` produces for the DOCUMENTED sizes: `num_hidden` omitted → `n` (BinaryRBM: also 0 → `n`),
`num_aux` omitted → `n` (NOT `num_hidden`); in particular the weight matrices have shapes `hiddenDefault × n` and
`auxDefault × n` and the biases lengths `n`, `hiddenDefault`, `auxDefault`, with or without `zero_weights`. -/
theorem C20_default_sizes (k : NetKind) (n : ℕ) (nh na : Option ℕ) (zw : Bool) (z : ℕ → ℝ) (pos : ℕ) :
    InitLaw.construct k n nh na zw z pos
      = InitLaw.initParams k n (hiddenDefault k n nh) (auxDefault k n na) zw z pos ∧
    IsMat (InitLaw.construct k n nh na zw z pos).1.W (hiddenDefault k n nh) n ∧
    (InitLaw.construct k n nh na zw z pos).1.b.length = n ∧
    (InitLaw.construct k n nh na zw z pos).1.c.length = hiddenDefault k n nh ∧
    (k = .purif → ∃ U d, (InitLaw.construct k n nh na zw z pos).1.U = some U ∧ IsMat U (auxDefault k n na) n ∧
        (InitLaw.construct k n nh na zw z pos).1.d = some d ∧ d.length = auxDefault k n na) := by
  have hA : defaultA k n na = (auxDefault k n na) := by
    cases k <;> cases na <;> rfl
  have e : InitLaw.construct k n nh na zw z pos
      = InitLaw.initParams k n (hiddenDefault k n nh) (auxDefault k n na) zw z pos := by
    simp only [InitLaw.construct, InitLaw.ctorSizes, hiddenDefault_eq, hA]
  rw [e]
  refine ⟨rfl, ?_⟩
  cases k <;> cases zw
  all_goals
    refine ⟨⟨InitLaw.tab2_length _ _ _, InitLaw.tab2_row_length _ _ _⟩, by simp [InitLaw.initParams, InitLaw.zerosVec],
      by simp [InitLaw.initParams, InitLaw.zerosVec], ?_⟩
  · intro h; cases h
  · intro h; cases h
  · intro _
    exact ⟨_, _, rfl, ⟨InitLaw.tab2_length _ _ _, InitLaw.tab2_row_length _ _ _⟩, rfl, by simp [InitLaw.zerosVec]⟩
  · intro _
    exact ⟨_, _, rfl, ⟨InitLaw.tab2_length _ _ _, InitLaw.tab2_row_length _ _ _⟩, rfl, by simp [InitLaw.zerosVec]⟩

/-- a non-trivial instance of `C20_init_values` / `C20_default_sizes`: `PurificationRBM(4)` (both sizes omitted) from the
stream `z_t = t` at position 5: `num_aux = 4`, and `U[1][2] = z[5 + 16 + 6] / √4`. -/
example : ∃ U, (InitLaw.construct .purif 4 none none false (fun t => (t : ℝ)) 5).1.U = some U ∧ IsMat U 4 4 ∧
    entry U 1 2 = (27 : ℝ) / Real.sqrt 4 ∧
    (InitLaw.construct .purif 4 none none false (fun t => (t : ℝ)) 5).2 = 37 := by
  obtain ⟨_, _, _, _, _, hp⟩ := C20_init_values .purif 4 4 4 (fun t => (t : ℝ)) 5
  obtain ⟨U, hU, hM, hE, _, hc⟩ := hp rfl
  refine ⟨U, hU, hM, ?_, hc⟩
  have := hE 1 (by norm_num) 2 (by norm_num)
  rw [this]; norm_num

end C20
end QV.Props
