/-
C05 — Gibbs sampling targets exactly the distribution the model reports.

"The k-step block-Gibbs transition that sampling performs leaves the model's reported
basis-state distribution invariant (it satisfies detailed balance with it), for plain and
purification RBMs alike: each step draws every hidden (and auxiliary) unit from its exact
conditional given the current visible state and then every visible unit from its exact
conditional given those draws. Samples are 0/1 arrays of the requested shape whose k-step law
from any start state is the k-th power of that kernel, the caller's start state is left
untouched unless overwriting was requested, and then it is updated in place."

All theorems: ∀ n h a, ∀ real parameters, ∀ states `Fin n → Bool`, ∀ k, ∀ batch sizes.
Model definitions: `QV.Model.Prob` (`Prog`, `law`, `run`, `flipVec`, `flipMat`, `RBM.gibbsStep(s)(B)`,
`PRBM.gibbsStep(s)(B)`, `sampleFrom`, `gibbsCall`) on top of `QV.Model.Rbm` (`probH`, `probV`, `probA`,
`effEnergy`, `effEnergyAux`) and `QV.Model.States` (`probability`); the SAME terms are replayed by the
driver (`run`, over Float) on executions recorded from the real `gibbs_steps` / `sample`.

Specification side (this file): the joint Boltzmann weights `rbmJoint`, `prbmJoint`, the reported
distribution `rbmPi`/`prbmPi` (= the model of `NeuralStateBase.probability`), and the transition
matrices `rbmP`/`prbmP` as Mathlib matrices (so "k-th power" is `Matrix` `^ k`, invariance is `ᵥ*`).
-/
import Mathlib.Data.Matrix.Mul
import Mathlib.Algebra.BigOperators.Field
import QV.Model.Prob
import QV.Model.States
import QV.Lemmas.Prob
import QV.Lemmas.Gibbs
import QV.Lemmas.PyFlag
import QV.Lemmas.CallShape
import QV.Lemmas.DrawCount

namespace QV.Props
namespace C05
open QV Finset Prog Matrix

variable {n h a : ℕ}

/-! ## Specification -/

/-- joint Boltzmann weight `exp(-E(v,h))` of a `BinaryRBM`, `E(v,h) = -(b·v + c·h + hᵀ W v)` -/
noncomputable def rbmJoint (r : RBM ℝ n h) (v : Fin n → Bool) (hid : Fin h → Bool) : ℝ :=
  Real.exp (∑ j, bit (v j) * r.b j + ∑ i, bit (hid i) * r.c i
    + ∑ i, ∑ j, bit (hid i) * r.W i j * bit (v j))

/-- joint Boltzmann weight of a `PurificationRBM`,
`E(v,h,a) = -(b·v + c·h + d·a + hᵀ W v + aᵀ U v)` -/
noncomputable def prbmJoint (r : PRBM ℝ n h a) (v : Fin n → Bool) (hid : Fin h → Bool)
    (aux : Fin a → Bool) : ℝ :=
  Real.exp (∑ j, bit (v j) * r.b j + ∑ i, bit (hid i) * r.c i + ∑ k, bit (aux k) * r.d k
    + ∑ i, ∑ j, bit (hid i) * r.W i j * bit (v j) + ∑ k, ∑ j, bit (aux k) * r.U k j * bit (v j))

/-- the distribution a wavefunction state REPORTS for basis state `v`: `probability(v, Z)` -/
noncomputable def rbmPi (r : RBM ℝ n h) (Z : ℝ) (v : Fin n → Bool) : ℝ := Wave.probability r (bvec v) Z

/-- the distribution a density-matrix state reports: `probability(v, Z)` -/
noncomputable def prbmPi (r : PRBM ℝ n h a) (Z : ℝ) (v : Fin n → Bool) : ℝ :=
  Density.probability r (bvec v) Z

/-- one-pass transition matrix of the sampler: `P v v' = law (gibbsStep v) v'` -/
noncomputable def rbmP (r : RBM ℝ n h) : Matrix (Fin n → Bool) (Fin n → Bool) ℝ := kernelOf r.gibbsStep
noncomputable def prbmP (r : PRBM ℝ n h a) : Matrix (Fin n → Bool) (Fin n → Bool) ℝ :=
  kernelOf r.gibbsStep

/-- mass of a vector of independent Bernoullis with success probabilities `p` at outcome `t` -/
noncomputable def bernVec {m : ℕ} (p : Fin m → ℝ) (t : Fin m → Bool) : ℝ := ∏ i, bern (p i) (t i)

/-! ## 1. conditionals -/

/-- **C05.1a** `clamp_(0,1)` is the identity on a sigmoid; every conditional the sampler presents is
`σ(pre-activation)`, strictly between 0 and 1. -/
theorem C05_clamp_id (x : ℝ) :
    clamp01 (sigmoid x : ℝ) = sigmoid x ∧ 0 < (sigmoid x : ℝ) ∧ (sigmoid x : ℝ) < 1 :=
  ⟨clamp01_sigmoid x, sigmoid_pos x, sigmoid_lt_one x⟩

theorem C05_clamp_id_conditionals (r : RBM ℝ n h) (q : PRBM ℝ n h a) (v : Fin n → ℝ) (hid : Fin h → ℝ)
    (aux : Fin a → ℝ) :
    (∀ i, r.probH v i = sigmoid (∑ j, v j * r.W i j + r.c i))
    ∧ (∀ j, r.probV hid j = sigmoid (∑ i, hid i * r.W i j + r.b j))
    ∧ (∀ i, q.probH v i = sigmoid (∑ j, v j * q.W i j + q.c i))
    ∧ (∀ k, q.probA v k = sigmoid (∑ j, v j * q.U k j + q.d k))
    ∧ (∀ j, q.probV hid aux j = sigmoid (∑ i, hid i * q.W i j + q.b j + ∑ k, aux k * q.U k j)) := by
  refine ⟨?_, ?_, ?_, ?_, ?_⟩ <;> intro i <;>
    simp [RBM.probH, RBM.probV, RBM.preact, PRBM.probH, PRBM.probA, PRBM.probV, PRBM.preactH,
      PRBM.preactA]

/-- **C05.1b** `prob_h_given_v` is the exact conditional of the joint weight:
`J(v,h) = π(v) · Π_i Bern(probH v i)(h_i)` with `π(v) = probability(v, 1)`. -/
theorem C05_cond_h (r : RBM ℝ n h) (v : Fin n → Bool) (hid : Fin h → Bool) :
    rbmJoint r v hid = rbmPi r 1 v * bernVec (r.probH (bvec v)) hid := by
  have hpos := prod_one_add_exp_pos h (r.preact (bvec v))
  simp only [rbmPi, Wave.probability, transc_exp, div_one, bernVec, RBM.probH]
  rw [RBM.exp_neg_effEnergy, prod_bern_sigmoid, mul_assoc, mul_div_cancel₀ _ hpos.ne', ← Real.exp_add,
    rbm_hsum, rbmJoint]
  simp only [bvec, add_assoc]

private theorem rbm_vsum (r : RBM ℝ n h) (v : Fin n → Bool) (hid : Fin h → Bool) :
    rbmJoint r v hid = Real.exp (∑ i, bit (hid i) * r.c i)
      * Real.exp (∑ j, bit (v j) * (∑ i, bit (hid i) * r.W i j + r.b j)) := by
  rw [rbmJoint, ← Real.exp_add]
  congr 1
  simp only [mul_add, Finset.mul_sum, Finset.sum_add_distrib]
  rw [Finset.sum_comm]
  have : ∀ j i, bit (hid i) * r.W i j * bit (v j) = bit (v j) * (bit (hid i) * r.W i j) :=
    fun j i => by ring
  simp only [this]
  ring

/-- **C05.1c** `prob_v_given_h` is the exact conditional of the joint weight:
`J(v,h) = (Σ_v' J(v',h)) · Π_j Bern(probV h j)(v_j)`. -/
theorem C05_cond_v (r : RBM ℝ n h) (v : Fin n → Bool) (hid : Fin h → Bool) :
    rbmJoint r v hid = (∑ v', rbmJoint r v' hid) * bernVec (r.probV (bvec hid)) v := by
  have hpos := prod_one_add_exp_pos n (fun j => ∑ i, bit (hid i) * r.W i j + r.b j)
  simp only [rbm_vsum, ← Finset.mul_sum, sum_exp_bits, bernVec, RBM.probV, sumFin_eq, bvec]
  rw [prod_bern_sigmoid, mul_assoc, mul_div_cancel₀ _ hpos.ne']

/-- **C05.1d** the reported probability is the hidden marginal of the joint weight. -/
theorem C05_joint_marginal (r : RBM ℝ n h) (v : Fin n → Bool) :
    ∑ hid, rbmJoint r v hid = rbmPi r 1 v := by
  simp only [C05_cond_h, ← Finset.mul_sum, bernVec, ← law_flipVec, sum_law, mul_one]

/-- **C05.1b (purification)** `prob_h_given_v` and `prob_a_given_v` are the exact (conditionally
independent) conditionals: `J(v,h,a) = π(v) · Π_i Bern(probH v i)(h_i) · Π_k Bern(probA v k)(a_k)`. -/
theorem C05_cond_ha (r : PRBM ℝ n h a) (v : Fin n → Bool) (hid : Fin h → Bool) (aux : Fin a → Bool) :
    prbmJoint r v hid aux
      = prbmPi r 1 v * (bernVec (r.probH (bvec v)) hid * bernVec (r.probA (bvec v)) aux) := by
  have hH := prod_one_add_exp_pos h (r.preactH (bvec v))
  have hA := prod_one_add_exp_pos a (r.preactA (bvec v))
  simp only [prbmPi, Density.probability, transc_exp, div_one, bernVec, PRBM.probH, PRBM.probA]
  rw [PRBM.exp_neg_effEnergy, prod_bern_sigmoid, prod_bern_sigmoid, prbmJoint, ← prbm_hasum,
    Real.exp_add, Real.exp_add]
  simp only [bvec]
  field_simp

private theorem prbm_vsum (r : PRBM ℝ n h a) (v : Fin n → Bool) (hid : Fin h → Bool) (aux : Fin a → Bool) :
    prbmJoint r v hid aux = Real.exp (∑ i, bit (hid i) * r.c i + ∑ k, bit (aux k) * r.d k)
      * Real.exp (∑ j, bit (v j) * (∑ i, bit (hid i) * r.W i j + r.b j + ∑ k, bit (aux k) * r.U k j)) := by
  rw [prbmJoint, ← Real.exp_add]
  congr 1
  simp only [mul_add, Finset.mul_sum, Finset.sum_add_distrib]
  rw [Finset.sum_comm (f := fun i j => bit (hid i) * r.W i j * bit (v j)),
    Finset.sum_comm (f := fun k j => bit (aux k) * r.U k j * bit (v j))]
  have e1 : ∀ j i, bit (hid i) * r.W i j * bit (v j) = bit (v j) * (bit (hid i) * r.W i j) :=
    fun j i => by ring
  have e2 : ∀ j k, bit (aux k) * r.U k j * bit (v j) = bit (v j) * (bit (aux k) * r.U k j) :=
    fun j k => by ring
  simp only [e1, e2]
  ring

/-- **C05.1c (purification)** `prob_v_given_ha` is the exact conditional:
`J(v,h,a) = (Σ_v' J(v',h,a)) · Π_j Bern(probV h a j)(v_j)`. -/
theorem C05_cond_v_purif (r : PRBM ℝ n h a) (v : Fin n → Bool) (hid : Fin h → Bool)
    (aux : Fin a → Bool) :
    prbmJoint r v hid aux
      = (∑ v', prbmJoint r v' hid aux) * bernVec (r.probV (bvec hid) (bvec aux)) v := by
  have hpos := prod_one_add_exp_pos n
    (fun j => ∑ i, bit (hid i) * r.W i j + r.b j + ∑ k, bit (aux k) * r.U k j)
  simp only [prbm_vsum, ← Finset.mul_sum, sum_exp_bits, bernVec, PRBM.probV, sumFin_eq, bvec]
  rw [prod_bern_sigmoid, mul_assoc, mul_div_cancel₀ _ hpos.ne']

/-- **C05.1d (purification)** the reported probability is the (hidden, auxiliary)-marginal of the
joint weight, and the public two-argument `effective_energy(v, a)` is its hidden marginal. -/
theorem C05_joint_marginal_purif (r : PRBM ℝ n h a) (v : Fin n → Bool) :
    (∑ hid, ∑ aux, prbmJoint r v hid aux = prbmPi r 1 v)
    ∧ ∀ aux : Fin a → Bool,
        ∑ hid, prbmJoint r v hid aux = Real.exp (-(r.effEnergyAux (bvec v) (bvec aux))) := by
  constructor
  · simp only [C05_cond_ha, ← Finset.mul_sum, bernVec, ← law_flipVec, sum_law, mul_one]
  · intro aux
    have hH := prod_one_add_exp_pos h (r.preactH (bvec v))
    have key : ∀ hid, prbmJoint r v hid aux
        = Real.exp (∑ j, bit (v j) * r.b j)
            * Real.exp (∑ k, bit (aux k) * r.d k + ∑ k, ∑ j, bit (v j) * r.U k j * bit (aux k))
            * Real.exp (∑ i, bit (hid i) * r.preactH (bvec v) i) := by
      intro hid
      rw [prbmJoint, ← Real.exp_add, ← Real.exp_add]
      congr 1
      simp only [PRBM.preactH, sumFin_eq, bvec, mul_add, Finset.mul_sum, Finset.sum_add_distrib]
      have e1 : ∀ i j, bit (hid i) * (bit (v j) * r.W i j) = bit (hid i) * r.W i j * bit (v j) :=
        fun i j => by ring
      have e2 : ∀ k j, bit (v j) * r.U k j * bit (aux k) = bit (aux k) * r.U k j * bit (v j) :=
        fun k j => by ring
      simp only [e1, e2]
      ring
    simp only [key, ← Finset.mul_sum, sum_exp_bits]
    rw [PRBM.exp_neg_effEnergyAux]
    simp only [bvec]
    ring

/-! ## 2. the kernel -/

/-- **C05.2** the one-pass transition probability is `Σ_h p(h|v) p(v'|h)`; entries are ≥ 0 and
every row sums to 1. -/
theorem C05_kernel (r : RBM ℝ n h) (v v' : Fin n → Bool) :
    rbmP r v v' = ∑ hid : Fin h → Bool,
        bernVec (r.probH (bvec v)) hid * bernVec (r.probV (bvec hid)) v'
    ∧ 0 ≤ rbmP r v v' ∧ ∑ w, rbmP r v w = 1 := by
  have hk : rbmP r v v' = ∑ hid : Fin h → Bool,
      bernVec (r.probH (bvec v)) hid * bernVec (r.probV (bvec hid)) v' := by
    simp only [rbmP, kernelOf, Matrix.of_apply, RBM.gibbsStep, law_bind, law_flipVec, bernVec]
  refine ⟨hk, ?_, ?_⟩
  · rw [hk]
    refine Finset.sum_nonneg fun hid _ => mul_nonneg ?_ ?_ <;>
      exact Finset.prod_nonneg fun i _ => bern_clamp_sigmoid_nonneg _ _
  · simp only [rbmP, kernelOf, Matrix.of_apply, sum_law]

/-- **C05.2 (purification)** `P(v,v') = Σ_{h,a} p(h|v) p(a|v) p(v'|h,a)`; entries ≥ 0, rows sum to 1. -/
theorem C05_kernel_purif (r : PRBM ℝ n h a) (v v' : Fin n → Bool) :
    prbmP r v v' = ∑ hid : Fin h → Bool, ∑ aux : Fin a → Bool,
        bernVec (r.probH (bvec v)) hid * bernVec (r.probA (bvec v)) aux
          * bernVec (r.probV (bvec hid) (bvec aux)) v'
    ∧ 0 ≤ prbmP r v v' ∧ ∑ w, prbmP r v w = 1 := by
  have hk : prbmP r v v' = ∑ hid : Fin h → Bool, ∑ aux : Fin a → Bool,
        bernVec (r.probH (bvec v)) hid * bernVec (r.probA (bvec v)) aux
          * bernVec (r.probV (bvec hid) (bvec aux)) v' := by
    simp only [prbmP, kernelOf, Matrix.of_apply, PRBM.gibbsStep, law_bind, law_flipVec, bernVec,
      Finset.mul_sum, mul_assoc]
  refine ⟨hk, ?_, ?_⟩
  · rw [hk]
    refine Finset.sum_nonneg fun hid _ => Finset.sum_nonneg fun aux _ =>
      mul_nonneg (mul_nonneg ?_ ?_) ?_ <;>
      exact Finset.prod_nonneg fun i _ => bern_clamp_sigmoid_nonneg _ _
  · simp only [prbmP, kernelOf, Matrix.of_apply, sum_law]

/-- **C05.2'** every transition has strictly positive probability and the reported weights are strictly
positive (so detailed balance is never the trivial `0 = 0`, and the chain is irreducible and aperiodic). -/
theorem C05_kernel_pos (r : RBM ℝ n h) (q : PRBM ℝ n h a) (v v' : Fin n → Bool) :
    0 < rbmP r v v' ∧ 0 < prbmP q v v' ∧ 0 < rbmPi r 1 v ∧ 0 < prbmPi q 1 v := by
  have hb : ∀ {m : ℕ} (x : Fin m → ℝ) (t : Fin m → Bool),
      0 < ∏ i, bern (clamp01 (sigmoid (x i) : ℝ)) (t i) := by
    intro m x t
    refine Finset.prod_pos fun i _ => ?_
    rw [bern_sigmoid_factor]; positivity
  refine ⟨?_, ?_, ?_, ?_⟩
  · rw [(C05_kernel r v v').1]
    exact Finset.sum_pos (fun hid _ => mul_pos (hb _ _) (hb _ _)) Finset.univ_nonempty
  · rw [(C05_kernel_purif q v v').1]
    exact Finset.sum_pos (fun hid _ => Finset.sum_pos
      (fun aux _ => mul_pos (mul_pos (hb _ _) (hb _ _)) (hb _ _)) Finset.univ_nonempty) Finset.univ_nonempty
  · simp only [rbmPi, Wave.probability, transc_exp, div_one]; exact Real.exp_pos _
  · simp only [prbmPi, Density.probability, transc_exp, div_one]; exact Real.exp_pos _

/-! ## 3. detailed balance and invariance -/

private theorem rbmPi_div (r : RBM ℝ n h) (Z : ℝ) (v : Fin n → Bool) : rbmPi r Z v = rbmPi r 1 v / Z := by
  simp [rbmPi, Wave.probability]

private theorem prbmPi_div (r : PRBM ℝ n h a) (Z : ℝ) (v : Fin n → Bool) : prbmPi r Z v = prbmPi r 1 v / Z := by
  simp [prbmPi, Density.probability]

/-- **C05.3a** detailed balance of the sampler's kernel with the reported distribution
(any normalisation `Z`, in particular `Z = 1` and `Z = normalization`). -/
theorem C05_detailed_balance (r : RBM ℝ n h) (Z : ℝ) (v v' : Fin n → Bool) :
    rbmPi r Z v * rbmP r v v' = rbmPi r Z v' * rbmP r v' v := by
  have key := kernel_detailed_balance (rbmJoint r) (rbmPi r 1) (fun hid => ∑ w, rbmJoint r w hid)
    (fun v hid => bernVec (r.probH (bvec v)) hid) (fun hid v => bernVec (r.probV (bvec hid)) v)
    (C05_cond_h r) (C05_cond_v r) v v'
  rw [(C05_kernel r v v').1, (C05_kernel r v' v).1, rbmPi_div r Z v, rbmPi_div r Z v', div_mul_eq_mul_div,
    div_mul_eq_mul_div, key]

theorem C05_detailed_balance_purif (r : PRBM ℝ n h a) (Z : ℝ) (v v' : Fin n → Bool) :
    prbmPi r Z v * prbmP r v v' = prbmPi r Z v' * prbmP r v' v := by
  have key := kernel_detailed_balance (Hd := (Fin h → Bool) × (Fin a → Bool))
    (fun v x => prbmJoint r v x.1 x.2) (prbmPi r 1) (fun x => ∑ w, prbmJoint r w x.1 x.2)
    (fun v x => bernVec (r.probH (bvec v)) x.1 * bernVec (r.probA (bvec v)) x.2)
    (fun x v => bernVec (r.probV (bvec x.1) (bvec x.2)) v)
    (fun v x => C05_cond_ha r v x.1 x.2) (fun v x => C05_cond_v_purif r v x.1 x.2) v v'
  simp only [Fintype.sum_prod_type] at key
  rw [(C05_kernel_purif r v v').1, (C05_kernel_purif r v' v).1, prbmPi_div r Z v, prbmPi_div r Z v',
    div_mul_eq_mul_div, div_mul_eq_mul_div, key]

/-- **C05.3b** the reported distribution is invariant under one pass: `π P = π`. -/
theorem C05_invariant (r : RBM ℝ n h) (Z : ℝ) : rbmPi r Z ᵥ* rbmP r = rbmPi r Z := by
  funext v'
  simp only [Matrix.vecMul, dotProduct, C05_detailed_balance r Z _ v', ← Finset.mul_sum,
    (C05_kernel r v' v').2.2, mul_one]

theorem C05_invariant_purif (r : PRBM ℝ n h a) (Z : ℝ) : prbmPi r Z ᵥ* prbmP r = prbmPi r Z := by
  funext v'
  simp only [Matrix.vecMul, dotProduct, C05_detailed_balance_purif r Z _ v', ← Finset.mul_sum,
    (C05_kernel_purif r v' v').2.2, mul_one]

/-! ## 4. k passes -/

/-- **C05.4a** the law of `gibbs_steps(k, v₀)` is row `v₀` of the `k`-th matrix power of the kernel
(`k = 0`: the start state itself). -/
theorem C05_k_step_law (r : RBM ℝ n h) (k : ℕ) (v₀ w : Fin n → Bool) :
    (r.gibbsSteps k v₀).law w = (rbmP r ^ k) v₀ w := law_iter _ k v₀ w

theorem C05_k_step_law_purif (r : PRBM ℝ n h a) (k : ℕ) (v₀ w : Fin n → Bool) :
    (r.gibbsSteps k v₀).law w = (prbmP r ^ k) v₀ w := law_iter _ k v₀ w

theorem C05_zero_steps (r : RBM ℝ n h) (q : PRBM ℝ n h a) (v₀ : Fin n → Bool) :
    r.gibbsSteps 0 v₀ = Prog.ret v₀ ∧ q.gibbsSteps 0 v₀ = Prog.ret v₀
    ∧ ∀ w, (r.gibbsSteps 0 v₀).law w = if v₀ = w then 1 else 0 := ⟨rfl, rfl, fun _ => rfl⟩

/-- **C05.4b** the reported distribution is invariant under `k` passes, and the `k`-pass kernel
satisfies detailed balance with it. -/
theorem C05_invariant_k (r : RBM ℝ n h) (Z : ℝ) (k : ℕ) : rbmPi r Z ᵥ* rbmP r ^ k = rbmPi r Z :=
  vecMul_pow_of_invariant _ _ (C05_invariant r Z) k

theorem C05_invariant_k_purif (r : PRBM ℝ n h a) (Z : ℝ) (k : ℕ) :
    prbmPi r Z ᵥ* prbmP r ^ k = prbmPi r Z :=
  vecMul_pow_of_invariant _ _ (C05_invariant_purif r Z) k

/-- in sampler terms: starting from the reported distribution, `k` passes return it:
`Σ_v π(v) · law (gibbsSteps k v) w = π(w)` -/
theorem C05_invariant_k_law (r : RBM ℝ n h) (q : PRBM ℝ n h a) (Z : ℝ) (k : ℕ) (w : Fin n → Bool) :
    ∑ v, rbmPi r Z v * (r.gibbsSteps k v).law w = rbmPi r Z w
    ∧ ∑ v, prbmPi q Z v * (q.gibbsSteps k v).law w = prbmPi q Z w := by
  constructor
  · simpa [Matrix.vecMul, dotProduct, C05_k_step_law] using congrFun (C05_invariant_k r Z k) w
  · simpa [Matrix.vecMul, dotProduct, C05_k_step_law_purif] using congrFun (C05_invariant_k_purif q Z k) w

theorem C05_detailed_balance_k (r : RBM ℝ n h) (q : PRBM ℝ n h a) (Z : ℝ) (k : ℕ) (v w : Fin n → Bool) :
    rbmPi r Z v * (r.gibbsSteps k v).law w = rbmPi r Z w * (r.gibbsSteps k w).law v
    ∧ prbmPi q Z v * (q.gibbsSteps k v).law w = prbmPi q Z w * (q.gibbsSteps k w).law v := by
  simp only [C05_k_step_law, C05_k_step_law_purif]
  exact ⟨detailed_balance_pow _ _ (C05_detailed_balance r Z) k v w,
    detailed_balance_pow _ _ (C05_detailed_balance_purif q Z) k v w⟩

/-- **C05.4c** chains continued across calls: `k₁` passes followed by `k₂` passes from the result is
THE SAME PROGRAM as `k₁ + k₂` passes (hence same law, same replay). -/
theorem C05_continue (r : RBM ℝ n h) (q : PRBM ℝ n h a) (k₁ k₂ : ℕ) (v : Fin n → Bool) :
    (r.gibbsSteps k₁ v).bind (r.gibbsSteps k₂) = r.gibbsSteps (k₁ + k₂) v
    ∧ (q.gibbsSteps k₁ v).bind (q.gibbsSteps k₂) = q.gibbsSteps (k₁ + k₂) v :=
  ⟨iter_add _ k₁ k₂ v, iter_add _ k₁ k₂ v⟩

theorem C05_continue_law (r : RBM ℝ n h) (k₁ k₂ : ℕ) (v w : Fin n → Bool) :
    ((r.gibbsSteps k₁ v).bind (r.gibbsSteps k₂)).law w = (rbmP r ^ (k₁ + k₂)) v w
    ∧ ((r.gibbsSteps k₁ v).bind (r.gibbsSteps k₂)).law w
        = ∑ u, (rbmP r ^ k₁) v u * (rbmP r ^ k₂) u w := by
  constructor
  · have e := iter_add r.gibbsStep k₁ k₂ v
    show ((iter r.gibbsStep k₁ v).bind (iter r.gibbsStep k₂)).law w = _
    rw [e]
    exact C05_k_step_law r (k₁ + k₂) v w
  · simp only [law_bind, C05_k_step_law]

/-- the same for batches of chains (`B` rows) -/
theorem C05_continue_batch (r : RBM ℝ n h) (q : PRBM ℝ n h a) {B : ℕ} (k₁ k₂ : ℕ)
    (vs : Fin B → Fin n → Bool) :
    (r.gibbsStepsB k₁ vs).bind (r.gibbsStepsB k₂) = r.gibbsStepsB (k₁ + k₂) vs
    ∧ (q.gibbsStepsB k₁ vs).bind (q.gibbsStepsB k₂) = q.gibbsStepsB (k₁ + k₂) vs :=
  ⟨iter_add _ k₁ k₂ vs, iter_add _ k₁ k₂ vs⟩

/-! ## 5. batches, start state, values and shapes -/

/-- **C05.5a** a batch of `B` chains (one `torch.bernoulli` call per conditional for the whole batch)
consists of independent chains, each following the `k`-th power of the kernel. -/
theorem C05_batch_law (r : RBM ℝ n h) {B : ℕ} (k : ℕ) (vs ws : Fin B → Fin n → Bool) :
    (r.gibbsStepsB k vs).law ws = ∏ b, (rbmP r ^ k) (vs b) (ws b) := by
  simp only [← C05_k_step_law]
  refine law_iter_batch r.gibbsStep r.gibbsStepB (fun vs ws => ?_) k vs ws
  simp only [RBM.gibbsStepB, RBM.gibbsStep, law_bind, law_flipMat, law_flipVec, ← Finset.prod_mul_distrib]
  rw [← Fintype.prod_sum (fun (b : Fin B) (hid : Fin h → Bool) =>
    (∏ i, bern (r.probH (bvec (vs b)) i) (hid i)) * ∏ j, bern (r.probV (bvec hid) j) (ws b j))]

theorem C05_batch_law_purif (r : PRBM ℝ n h a) {B : ℕ} (k : ℕ) (vs ws : Fin B → Fin n → Bool) :
    (r.gibbsStepsB k vs).law ws = ∏ b, (prbmP r ^ k) (vs b) (ws b) := by
  simp only [← C05_k_step_law_purif]
  refine law_iter_batch r.gibbsStep r.gibbsStepB (fun vs ws => ?_) k vs ws
  simp only [PRBM.gibbsStepB, PRBM.gibbsStep, law_bind, law_flipMat, law_flipVec, Finset.mul_sum,
    ← Finset.prod_mul_distrib]
  have inner : ∀ hs : Fin B → Fin h → Bool,
      ∑ as : Fin B → Fin a → Bool, ∏ b, ((∏ i, bern (r.probH (bvec (vs b)) i) (hs b i))
          * ((∏ k, bern (r.probA (bvec (vs b)) k) (as b k))
            * ∏ j, bern (r.probV (bvec (hs b)) (bvec (as b)) j) (ws b j)))
        = ∏ b, ∑ aux : Fin a → Bool, ((∏ i, bern (r.probH (bvec (vs b)) i) (hs b i))
          * ((∏ k, bern (r.probA (bvec (vs b)) k) (aux k))
            * ∏ j, bern (r.probV (bvec (hs b)) (bvec aux) j) (ws b j))) := by
    intro hs
    rw [Fintype.prod_sum (fun (b : Fin B) (aux : Fin a → Bool) =>
      (∏ i, bern (r.probH (bvec (vs b)) i) (hs b i))
          * ((∏ k, bern (r.probA (bvec (vs b)) k) (aux k))
            * ∏ j, bern (r.probV (bvec (hs b)) (bvec aux) j) (ws b j)))]
  simp only [inner]
  rw [Fintype.prod_sum (fun (b : Fin B) (hid : Fin h → Bool) =>
    ∑ aux : Fin a → Bool, ((∏ i, bern (r.probH (bvec (vs b)) i) (hid i))
          * ((∏ k, bern (r.probA (bvec (vs b)) k) (aux k))
            * ∏ j, bern (r.probV (bvec hid) (bvec aux) j) (ws b j))))]

/-- **C05.5b** `sample` with an initial state runs the chains from it; without one it first draws a
uniformly distributed `B × n` start (fair coins), then runs the chains. -/
theorem C05_sample_start {B : ℕ} (steps : (Fin B → Fin n → Bool) → Prog ℝ (Fin B → Fin n → Bool))
    (vs ws : Fin B → Fin n → Bool) :
    sampleFrom steps (some vs) = steps vs
    ∧ (sampleFrom steps none).law ws = ∑ us, (1 / 2 : ℝ) ^ (B * n) * (steps us).law ws := by
  refine ⟨rfl, ?_⟩
  simp only [sampleFrom, law_bind, law_flipMat]
  refine Finset.sum_congr rfl fun us _ => ?_
  congr 1
  have hb : ∀ t : Bool, bern (half : ℝ) t = 1 / 2 := by
    intro t; cases t <;> norm_num [bern, half]
  simp only [hb, Finset.prod_const, Finset.card_univ, Fintype.card_fin]
  rw [← pow_mul, Nat.mul_comm]

/-- **C05.5c** values and shape: an outcome of the sampler is (by its type) a `B × n` array of bits;
rendered as the `torch.double` tensor the code returns (`bvec`), every entry is exactly 0 or 1, every
row has length `n`, there are `B` rows; and every outcome that a replay (`run`) of `gibbs_steps` can
produce is of this form. -/
theorem C05_values_shape {B : ℕ} (ws : Fin B → Fin n → Bool) :
    (∀ b j, (bvec (ws b) j : ℝ) = 0 ∨ (bvec (ws b) j : ℝ) = 1)
    ∧ (List.ofFn fun b => List.ofFn (bvec (α := ℝ) (ws b))).length = B
    ∧ ∀ row ∈ (List.ofFn fun b => List.ofFn (bvec (α := ℝ) (ws b))), row.length = n := by
  refine ⟨fun b j => ?_, by simp, ?_⟩
  · cases hw : ws b j <;> simp [bvec, bit, hw]
  · intro row hrow
    simp only [List.mem_ofFn] at hrow
    obtain ⟨b, rfl⟩ := hrow
    simp

/-! ## 6. buffers -/

/-- **C05.6** `overwrite = False`: the caller's tensor is unchanged (same object, same contents) and the
result is a different object holding the final state. `overwrite = True` (tensor of the network's
dtype/device): the result IS the caller's object and it holds the final state. Guarded exception,
as coded (`.to(self.weights)` copies): a tensor of another dtype/device is never overwritten.
Stated for every outcome `x` of the call with non-zero probability — in fact for every path. -/
theorem C05_overwrite {σ : Type} (steps : σ → Prog ℝ σ) (fresh : ℕ) (init : Buf σ)
    (hfresh : init.id < fresh) (overwrite : Bool) :
    ∀ x ∈ (gibbsCall steps fresh overwrite init).paths,
      (∃ y ∈ (steps init.data).paths, x.1.result.data = y.1 ∧ x.2 = y.2)
      ∧ (overwrite = false → x.1.caller = init ∧ x.1.result.id ≠ init.id)
      ∧ (overwrite = true → init.native = true →
            x.1.result.id = init.id ∧ x.1.caller = x.1.result)
      ∧ (overwrite = true → init.native = false → x.1.caller = init ∧ x.1.result.id ≠ init.id) := by
  intro x hx
  obtain ⟨id0, nat0, d0⟩ := init
  simp only at hfresh
  cases overwrite <;> cases nat0 <;>
    simp only [gibbsCall, paths_map, List.mem_map, if_true, if_false, Bool.false_eq_true] at hx <;>
    obtain ⟨y, hy, rfl⟩ := hx <;>
    refine ⟨⟨y, hy, rfl, rfl⟩, ?_, ?_, ?_⟩ <;> simp <;> omega

/-- **C05.6b** the buffer contract for the OBJECT passed as `overwrite` (documented as `bool`; the int `1`, a `numpy.bool_`, a
0-dim bool array or tensor are what callers also pass): `sample` hands the object on and `gibbs_steps` tests its TRUTH VALUE
(`initial_state if overwrite else initial_state.clone()`), so every clause of `C05_overwrite` holds with `bool(overwrite)` in the
place of the flag — overwriting was "requested" exactly when the object is truthy.  (In the model of a slip that tests
`overwrite is True`, i.e. `gibbsCall … overwrite.isTrueSingleton …`, the third clause fails for `PyFlag.npBool true`.) -/
theorem C05_overwrite_flag {σ : Type} (steps : σ → Prog ℝ σ) (fresh : ℕ) (init : Buf σ)
    (hfresh : init.id < fresh) (overwrite : PyFlag) :
    ∀ x ∈ (gibbsCallF steps fresh overwrite init).paths,
      (∃ y ∈ (steps init.data).paths, x.1.result.data = y.1 ∧ x.2 = y.2)
      ∧ (overwrite.truthy = false → x.1.caller = init ∧ x.1.result.id ≠ init.id)
      ∧ (overwrite.truthy = true → init.native = true →
            x.1.result.id = init.id ∧ x.1.caller = x.1.result)
      ∧ (overwrite.truthy = true → init.native = false → x.1.caller = init ∧ x.1.result.id ≠ init.id) :=
  C05_overwrite steps fresh init hfresh overwrite.truthy

/-- **C05.6c** whichever kind of object (`bool`, `int` 0/1, `numpy.bool_`, 0-dim bool array, 0-dim bool tensor: `form` 0…4) the
caller uses to say `b`, the call is the call with the singleton. -/
theorem C05_overwrite_any_form {σ : Type} (steps : σ → Prog ℝ σ) (fresh : ℕ) (init : Buf σ) (form : ℕ) (b : Bool) :
    gibbsCallF steps fresh (PyFlag.ofBool form b) init = gibbsCall steps fresh b init := by
  unfold gibbsCallF
  rw [PyFlag.truthy_ofBool]

/-! ## 7. replay soundness -/

/-- **C05.7** link between the two interpretations of the same program term:
(a) the law of an outcome is the sum, over the complete executions returning it, of the product of
the Bernoulli masses `Bern(p_i)(d_i)` of the probabilities presented and the draws made;
(b) every successful replay `run prog draws = some (x, ps, rest)` follows exactly one such execution
(`draws = used ++ rest`, `(x, ps, used) ∈ paths`), and (c) every execution replays to itself.
So a recorded run of the real sampler that `run` reproduces (same probabilities presented, same
result) is a summand of the law the theorems above are about. -/
theorem C05_run_law {β : Type} [DecidableEq β] (prog : Prog ℝ β) :
    (∀ x, prog.law x
        = ((prog.paths.filter (fun y => y.1 = x)).map (fun y => weight y.2.1 y.2.2)).sum)
    ∧ (∀ ds x ps rest, prog.run ds = some (x, ps, rest) →
        ∃ used, ds = used ++ rest ∧ (x, ps, used) ∈ prog.paths ∧ ps.length = used.length)
    ∧ (∀ y ∈ prog.paths, ∀ rest, prog.run (y.2.2 ++ rest) = some (y.1, y.2.1, rest)) := by
  refine ⟨law_eq_sum_paths prog, ?_, run_of_mem_paths prog⟩
  intro ds x ps rest hrun
  obtain ⟨used, hds, hmem⟩ := mem_paths_of_run prog ds x ps rest hrun
  exact ⟨used, hds, hmem, paths_length prog _ hmem⟩

/-! ## non-vacuity -/

/-- a concrete architecture with `h ≠ n`, non-zero biases of both signs: detailed balance and `k`-pass
invariance are instances (the theorems have no hypotheses), with strictly positive flows. -/
example : let r : RBM ℝ 2 3 := ⟨fun i j => (i.val : ℝ) - j.val + 0.5, fun j => if j = 0 then -1.5 else 2,
      fun i => if i = 0 then 0.7 else -0.3⟩
    ∀ v v', rbmPi r 1 v * rbmP r v v' = rbmPi r 1 v' * rbmP r v' v ∧ 0 < rbmPi r 1 v * rbmP r v v' := by
  intro r v v'
  refine ⟨C05_detailed_balance r 1 v v', mul_pos ?_ ?_⟩
  · exact (C05_kernel_pos r (⟨fun _ _ => 0, fun _ _ => 0, fun _ => 0, fun _ => 0, fun _ => 0⟩ : PRBM ℝ 2 3 0) v v').2.2.1
  · exact (C05_kernel_pos r (⟨fun _ _ => 0, fun _ _ => 0, fun _ => 0, fun _ => 0, fun _ => 0⟩ : PRBM ℝ 2 3 0) v v').1

/-- `run` on a concrete program: two flips presented with probability 5 (any carrier), recorded draws
`[true, false, true]`: result `(true, false)`, probabilities `[5, 5]`, one draw left over. -/
example : (Prog.flipVec 2 (fun _ => (5 : ℕ))).run [true, false, true]
    = some (fun i => Fin.cases true (fun j => Fin.cases false (fun k => k.elim0) j) i, [5, 5], [true]) := rfl

/-- a too-short recording is rejected -/
example : (Prog.flipVec 2 (fun _ => (5 : ℕ))).run [true] = none := rfl

/-- the hypotheses of `C05_overwrite` are satisfiable: caller tensor with id 1, fresh ids from 2 -/
example : (1 : ℕ) < 2 := by decide


/-! ## Extension round 2: the 1-D / batched / mixed call forms of the public conditionals (`auto_unsqueeze_args`) -/

/-- **C05.9** every public conditional-probability method, as the caller reaches it through `@auto_unsqueeze_args()`
(qucumber/utils/__init__.py:20-43), satisfies the call-form specification `CallFormsAgree` with the exact conditional of
`C05_cond_h` / `C05_cond_v` / `C05_cond_ha` as its per-state value: the 1-D form returns the `(h,)` / `(n,)` / `(a,)` probability
vector of that state, a tensor with leading axes (batch incl. `B = 1`, rank-3 chains) a result of exactly that leading shape whose
row `idx` is the conditional of row `idx`; likewise the traced `PurificationRBM.effective_energy(v)`. -/
theorem C05_call_forms (r : RBM ℝ n h) (q : PRBM ℝ n h a) :
    CallFormsAgree r.probHGivenV r.probH
      ∧ CallFormsAgree r.probVGivenH r.probV
      ∧ CallFormsAgree q.probHGivenV q.probH
      ∧ CallFormsAgree q.probAGivenV q.probA
      ∧ CallFormsAgree (fun v => q.effectiveEnergy v none) q.effEnergy :=
  ⟨callFormsAgree_map _, callFormsAgree_map _, callFormsAgree_map _, callFormsAgree_map _, callFormsAgree_map _⟩

/-- **C05.9'** in the words of the work plan: the vector form on a state is row `i` of the batched form on any `(B, ·)` batch
whose row `i` is that state, with result shapes `()` (one probability vector) and `(B,)` (one per row). -/
theorem C05_vector_form_is_row (r : RBM ℝ n h) (q : PRBM ℝ n h a) (v : Fin n → ℝ) (hid : Fin h → ℝ) (B : ℕ)
    (vs : ℕ → Fin n → ℝ) (hs : ℕ → Fin h → ℝ) (i : ℕ) (hi : i < B) (hv : vs i = v) (hh : hs i = hid) :
    (∃ o oB, r.probHGivenV (.scalar v) = .ok o ∧ r.probHGivenV (.ofRows B vs) = .ok oB ∧ o.shape = [] ∧ oB.shape = [B]
        ∧ o.get [] = r.probH v ∧ oB.get [i] = o.get [])
      ∧ (∃ o oB, r.probVGivenH (.scalar hid) = .ok o ∧ r.probVGivenH (.ofRows B hs) = .ok oB ∧ o.shape = [] ∧ oB.shape = [B]
        ∧ o.get [] = r.probV hid ∧ oB.get [i] = o.get [])
      ∧ (∃ o oB, q.probHGivenV (.scalar v) = .ok o ∧ q.probHGivenV (.ofRows B vs) = .ok oB ∧ o.shape = [] ∧ oB.shape = [B]
        ∧ o.get [] = q.probH v ∧ oB.get [i] = o.get [])
      ∧ (∃ o oB, q.probAGivenV (.scalar v) = .ok o ∧ q.probAGivenV (.ofRows B vs) = .ok oB ∧ o.shape = [] ∧ oB.shape = [B]
        ∧ o.get [] = q.probA v ∧ oB.get [i] = o.get []) := by
  obtain ⟨h1, h2, h3, h4, _⟩ := C05_call_forms r q
  have key : ∀ {m : ℕ} {β : Type} {f : FT (Fin m → ℝ) → Except PyErr (FT β)} {core : (Fin m → ℝ) → β} (w : Fin m → ℝ)
      (ws : ℕ → Fin m → ℝ), ws i = w → CallFormsAgree f core →
      ∃ o oB, f (.scalar w) = .ok o ∧ f (.ofRows B ws) = .ok oB ∧ o.shape = [] ∧ oB.shape = [B] ∧ o.get [] = core w
        ∧ oB.get [i] = o.get [] := fun w ws hw hf => by
    obtain ⟨o, oB, a1, a2, a3, a4, a5, _, a7⟩ := hf.vector_is_row w B ws
    exact ⟨o, oB, a1, a2, a3, a4, a5, a7 i hi hw⟩
  exact ⟨key v vs hv h1, key hid hs hh h2, key v vs hv h3, key v vs hv h4⟩

/-- **C05.10** `prob_v_given_ha(h, a)` under `@auto_unsqueeze_args(1, 2)` (purification_rbm.py:237-259), every rank combination of
vectors and batches, as the code has it:
* both 1-D: the `(n,)` vector `probV h a`;  both `(B, ·)`: row `i` is `probV h_i a_i`;
* `h` a batch of `B ≠ 1` rows, `a` 1-D: accepted, `a` is used for every row (`(B, n)`);
* `h` a batch of exactly one row, `a` 1-D: accepted, but the result LOSES its batch axis (one flag for both positions: the result is
  squeezed because `a` was 1-D) — the value is still `probV h_0 a`;
* `h` 1-D, `a` a batch of `B ≠ 1` rows: REFUSED (the second `add_` is in place on the `(1, n)` buffer made from `h`);
  with exactly one row: accepted, 0 leading axes, `probV h a_0`.
In every accepted form each returned row is the exact visible conditional of `C05_cond_v_purif` for the rows it pairs. -/
theorem C05_call_forms_ha (q : PRBM ℝ n h a) (hid : Fin h → ℝ) (aux : Fin a → ℝ) (B : ℕ) (hs : ℕ → Fin h → ℝ)
    (as : ℕ → Fin a → ℝ) :
    (∃ o, q.probVGivenHA (.scalar hid) (.scalar aux) = .ok o ∧ o.shape = [] ∧ o.get [] = q.probV hid aux)
      ∧ (∃ o, q.probVGivenHA (.ofRows B hs) (.ofRows B as) = .ok o ∧ o.shape = [B] ∧ ∀ i, i < B → o.get [i] = q.probV (hs i) (as i))
      ∧ (B ≠ 1 → ∃ o, q.probVGivenHA (.ofRows B hs) (.scalar aux) = .ok o ∧ o.shape = [B]
          ∧ ∀ i, i < B → o.get [i] = q.probV (hs i) aux)
      ∧ (∃ o, q.probVGivenHA (.ofRows 1 hs) (.scalar aux) = .ok o ∧ o.shape = [] ∧ o.get [] = q.probV (hs 0) aux)
      ∧ (B ≠ 1 → q.probVGivenHA (.scalar hid) (.ofRows B as) = .error .RuntimeError)
      ∧ (∃ o, q.probVGivenHA (.scalar hid) (.ofRows 1 as) = .ok o ∧ o.shape = [] ∧ o.get [] = q.probV hid (as 0)) :=
  ⟨q.probVGivenHA_vec_vec hid aux, q.probVGivenHA_batch_batch B hs as, fun hB => q.probVGivenHA_batch_vec B hB hs aux,
    q.probVGivenHA_batch1_vec hs aux, fun hB => q.probVGivenHA_vec_batch B hB hid as, q.probVGivenHA_vec_batch1 hid as⟩

/-- non-vacuity: a 2×3×2 purification RBM, a 1-D hidden state against a 1-D auxiliary state, and the same hidden state as row 1 of
a 3-row batch against the 1-D auxiliary state: the mixed form's row 1 is the vector form's result. -/
example :
    let q : PRBM ℝ 2 3 2 := ⟨fun i j => (i.val : ℝ) - j.val + 0.5, fun k j => (k.val : ℝ) + j.val - 2.5,
      fun j => if j = 0 then -1.5 else 2, fun i => if i = 0 then 0.7 else -0.3, fun k => if k = 0 then 1.2 else -0.4⟩
    let hd : Fin 3 → ℝ := fun i => if i = 1 then 1 else 0
    let ax : Fin 2 → ℝ := fun _ => 1
    ∃ o oB, q.probVGivenHA (.scalar hd) (.scalar ax) = .ok o
      ∧ q.probVGivenHA (.ofRows 3 (fun i => if i = 1 then hd else fun _ => 1)) (.scalar ax) = .ok oB ∧ oB.get [1] = o.get [] := by
  intro q hd ax
  obtain ⟨o, ho, _, hg⟩ := (C05_call_forms_ha q hd ax 3 (fun i => if i = 1 then hd else fun _ => 1) (fun _ => ax)).1
  obtain ⟨oB, hoB, _, hgB⟩ := (C05_call_forms_ha q hd ax 3 (fun i => if i = 1 then hd else fun _ => 1) (fun _ => ax)).2.2.1
    (by norm_num)
  exact ⟨o, oB, ho, hoB, by rw [hg, hgB 1 (by norm_num)]; simp⟩

/-! ## 9. the public one-step samplers and their `out=` buffer (extension round 2) -/

/-- SPECIFICATION of what a caller sees after a one-step sampler drew `t`: with `out=` given the returned tensor IS the `out`
object and holds the 0/1 draw; without, a new tensor (not the one that held the probabilities) holds it. -/
def stepOutcome {m : ℕ} (fresh : ℕ) (out : Option (Buf (Fin m → ℝ))) (t : Fin m → Bool) : StepResult (Fin m → ℝ) :=
  match out with
  | some o => ⟨⟨o.id, o.native, bvec t⟩, some ⟨o.id, o.native, bvec t⟩⟩
  | none => ⟨⟨fresh + 1, true, bvec t⟩, none⟩

theorem expect_map' {β γ : Type} (m : Prog ℝ β) (f : β → γ) (g : γ → ℝ) : (m.map f).expect g = m.expect (fun b => g (f b)) := by
  simp only [Prog.map, expect_bind, Prog.expect]

theorem sampleCall_expect {m : ℕ} (probs : Fin m → ℝ) (fresh : ℕ) (out : Option (Buf (Fin m → ℝ)))
    (g : StepResult (Fin m → ℝ) → ℝ) :
    (sampleCall probs fresh out).expect g = ∑ t, bernVec probs t * g (stepOutcome fresh out t) := by
  cases out <;> simp only [sampleCall, expect_map', expect_flipVec, bernVec, stepOutcome]

theorem sum_bernVec {m : ℕ} (p : Fin m → ℝ) : ∑ t, bernVec p t = 1 := by
  simp only [bernVec, ← law_flipVec, sum_law]

/-- **C05_sample_out_identity.** `sample_…(x, out=out)` for every execution: the returned tensor holds a 0/1 vector `t` that is
a draw of exactly the probabilities `probs` presented to `torch.bernoulli` (same probabilities, same draws as the bare
`flipVec`); when `out` was given the returned tensor IS that object (same identity, dtype class) and the caller's `out` holds
the DRAW afterwards (not the probabilities that were written into it first); when no `out` was given nothing of the caller's
is touched and the result is a new tensor. -/
theorem C05_sample_out_identity {m : ℕ} (probs : Fin m → ℝ) (fresh : ℕ) (out : Option (Buf (Fin m → ℝ))) :
    ∀ x ∈ (sampleCall probs fresh out).paths,
      (∃ t, (t, x.2.1, x.2.2) ∈ (flipVec m probs).paths ∧ x.1.result.data = bvec t
          ∧ ∀ j, x.1.result.data j = 0 ∨ x.1.result.data j = 1)
      ∧ (∀ o, out = some o → x.1.result.id = o.id ∧ x.1.result.native = o.native ∧ x.1.out = some x.1.result)
      ∧ (out = none → x.1.out = none ∧ x.1.result.id = fresh + 1) := by
  intro x hx
  have h01 : ∀ (t : Fin m → Bool) j, (bvec t : Fin m → ℝ) j = 0 ∨ (bvec t : Fin m → ℝ) j = 1 := by
    intro t j; cases ht : t j <;> simp [bvec, bit, ht]
  cases out with
  | none =>
    simp only [sampleCall, paths_map, List.mem_map] at hx
    obtain ⟨y, hy, rfl⟩ := hx
    exact ⟨⟨y.1, hy, rfl, h01 y.1⟩, (fun o ho => by cases ho), fun _ => ⟨rfl, rfl⟩⟩
  | some o =>
    simp only [sampleCall, paths_map, List.mem_map] at hx
    obtain ⟨y, hy, rfl⟩ := hx
    exact ⟨⟨y.1, hy, rfl, h01 y.1⟩, (fun o' ho => by cases ho; exact ⟨rfl, rfl, rfl⟩), fun h => by cases h⟩

/-- **C05_sample_step_law.** The law of each public one-step sampler, with or without `out=`, started from 0/1 states, is the
product-Bernoulli law of the EXACT conditional of the joint Boltzmann weight, and the caller-visible outcome of the draw `t` is
`stepOutcome` (for every test function `g` of the outcome):
`π(v) · E[g] = Σ_h J(v,h) g(h)` for `sample_h_given_v`, `(Σ_v' J(v',h)) · E[g] = Σ_v J(v,h) g(v)` for `sample_v_given_h`, and for
the purification RBM `π(v) · E[g] = Σ_h (Σ_a J(v,h,a)) g(h)`, `π(v) · E[g] = Σ_a (Σ_h J(v,h,a)) g(a)`,
`(Σ_v' J(v',h,a)) · E[g] = Σ_v J(v,h,a) g(v)`. -/
theorem C05_sample_step_law (r : RBM ℝ n h) (q : PRBM ℝ n h a) (v : Fin n → Bool) (hid : Fin h → Bool)
    (aux : Fin a → Bool) (fresh : ℕ) :
    (∀ out g, rbmPi r 1 v * (r.sampleH (bvec v) fresh out).expect g
        = ∑ t, rbmJoint r v t * g (stepOutcome fresh out t))
    ∧ (∀ out g, (∑ v', rbmJoint r v' hid) * (r.sampleV (bvec hid) fresh out).expect g
        = ∑ t, rbmJoint r t hid * g (stepOutcome fresh out t))
    ∧ (∀ out g, prbmPi q 1 v * (q.sampleH (bvec v) fresh out).expect g
        = ∑ t, (∑ aux', prbmJoint q v t aux') * g (stepOutcome fresh out t))
    ∧ (∀ out g, prbmPi q 1 v * (q.sampleA (bvec v) fresh out).expect g
        = ∑ t, (∑ hid', prbmJoint q v hid' t) * g (stepOutcome fresh out t))
    ∧ (∀ out g, (∑ v', prbmJoint q v' hid aux) * (q.sampleV (bvec hid) (bvec aux) fresh out).expect g
        = ∑ t, prbmJoint q t hid aux * g (stepOutcome fresh out t)) := by
  refine ⟨?_, ?_, ?_, ?_, ?_⟩ <;> intro out g
  · simp only [RBM.sampleH, sampleCall_expect, C05_cond_h, Finset.mul_sum, mul_assoc]
  · rw [RBM.sampleV, sampleCall_expect, Finset.mul_sum]
    refine Finset.sum_congr rfl fun t _ => ?_
    rw [C05_cond_v r t hid, mul_assoc]
  · rw [PRBM.sampleH, sampleCall_expect, Finset.mul_sum]
    refine Finset.sum_congr rfl fun t _ => ?_
    simp only [C05_cond_ha, ← Finset.mul_sum, sum_bernVec, mul_one, mul_assoc]
  · rw [PRBM.sampleA, sampleCall_expect, Finset.mul_sum]
    refine Finset.sum_congr rfl fun t _ => ?_
    simp only [C05_cond_ha, ← Finset.mul_sum, ← Finset.sum_mul, sum_bernVec, one_mul, mul_assoc]
  · rw [PRBM.sampleV, sampleCall_expect, Finset.mul_sum]
    refine Finset.sum_congr rfl fun t _ => ?_
    rw [C05_cond_v_purif q t hid aux, mul_assoc]

/-- **C05_gibbs_step_buffers.** The loop body of `gibbs_steps` written with the public samplers on buffer OBJECTS (`out=h`,
[`out=a`,] `out=v`, return values discarded, each call reading the CONTENTS its predecessors left in the buffers) is the
verified kernel `gibbsStep`: the buffer objects keep their identities and the visible buffer ends up holding the 0/1 encoding of
the kernel's next state. (A sampler that leaves the probabilities in `out` breaks this: the next call would be fed probabilities.) -/
theorem C05_gibbs_step_buffers (r : RBM ℝ n h) (q : PRBM ℝ n h a) (fresh : ℕ) (hb : Buf (Fin h → ℝ))
    (ab : Buf (Fin a → ℝ)) (vid : ℕ) (vnat : Bool) (v : Fin n → Bool) :
    (r.gibbsStepBuf fresh hb ⟨vid, vnat, bvec v⟩).map (fun s => (s.1.id, s.2.id, s.2.data))
        = (r.gibbsStep v).map (fun w => (hb.id, vid, bvec w))
    ∧ (q.gibbsStepBuf fresh hb ab ⟨vid, vnat, bvec v⟩).map (fun s => (s.1.id, s.2.1.id, s.2.2.id, s.2.2.data))
        = (q.gibbsStep v).map (fun w => (hb.id, ab.id, vid, bvec w)) := by
  constructor
  · simp only [RBM.gibbsStepBuf, RBM.sampleH, RBM.sampleV, sampleCall, RBM.gibbsStep, Prog.map, bind_assoc, Prog.bind,
      Option.getD_some]
  · simp only [PRBM.gibbsStepBuf, PRBM.sampleH, PRBM.sampleA, PRBM.sampleV, sampleCall, PRBM.gibbsStep, Prog.map, bind_assoc,
      Prog.bind, Option.getD_some]

/-- the hypotheses of `C05_sample_out_identity` / `C05_sample_step_law` are satisfiable non-trivially: a 2-unit sampler with an
`out` buffer that initially holds garbage; the execution drawing (1, 0) returns object 7 holding `[1, 0]`. -/
example : (⟨⟨7, true, bvec (fun i : Fin 2 => i = 0)⟩, some ⟨7, true, bvec (fun i : Fin 2 => i = 0)⟩⟩, [(0.3 : ℝ), 0.9], [true, false])
    ∈ ((sampleCall (fun i : Fin 2 => if i = 0 then (0.3 : ℝ) else 0.9) 100 (some ⟨7, true, fun _ => 42⟩)).paths.map
        (fun x => (x.1, x.2.1, x.2.2))) := by
  simp only [sampleCall, paths_map, Prog.flipVec, Prog.paths, Prog.bind, List.map_map, List.map_cons, List.map_nil, List.cons_append, List.nil_append, List.mem_cons]
  right; left
  refine Prod.ext ?_ rfl
  have e : (fun i : Fin 2 => decide (i = 0)) = (fun i => Fin.cases true (fun i => Fin.cases false (fun i => i.elim0) i) i) := by
    funext i; fin_cases i <;> rfl
  simp only [Function.comp, e]

/-! ## Late theorems: the `torch.bernoulli` call pattern of `gibbs_steps` -/

/-- **C05_call_shapes_list.** The recorded call pattern the harness compares with (`RBM.callShapes` / `PRBM.callShapes`, the
shapes of the tensors handed to `torch.bernoulli` by `gibbs_steps(k, ·)` on `B` chains, in call order) is `k` repetitions of
`[(B,h), (B,n)]` resp. `[(B,h), (B,a), (B,n)]` — hidden [, auxiliary], visible per pass — so it has `2k` resp. `3k` calls, and
its total element count is `k·B·(h+n)` resp. `k·B·(h+a+n)`. (The list form is by construction of the model; the counts are
what the next theorem ties to the sampler program.) -/
theorem C05_call_shapes_list (r : RBM ℝ n h) (q : PRBM ℝ n h a) (k B : ℕ) :
    r.callShapes k B = (List.replicate k [(B, h), (B, n)]).flatten
    ∧ q.callShapes k B = (List.replicate k [(B, h), (B, a), (B, n)]).flatten
    ∧ (r.callShapes k B).length = 2 * k ∧ (q.callShapes k B).length = 3 * k
    ∧ ((r.callShapes k B).map fun s => s.1 * s.2).sum = k * (B * (h + n))
    ∧ ((q.callShapes k B).map fun s => s.1 * s.2).sum = k * (B * (h + a + n)) := by
  have e1 : ∀ k : ℕ, r.callShapes k B = (List.replicate k [(B, h), (B, n)]).flatten := by
    intro k
    unfold RBM.callShapes
    induction k with
    | zero => rfl
    | succ k ih => rw [List.range_succ, List.flatMap_append, ih, List.replicate_succ', List.flatten_append]; simp
  have e2 : ∀ k : ℕ, q.callShapes k B = (List.replicate k [(B, h), (B, a), (B, n)]).flatten := by
    intro k
    unfold PRBM.callShapes
    induction k with
    | zero => rfl
    | succ k ih => rw [List.range_succ, List.flatMap_append, ih, List.replicate_succ', List.flatten_append]; simp
  have t1 : ∀ k : ℕ, ((List.replicate k [(B, h), (B, n)]).flatten.map fun s => s.1 * s.2).sum = k * (B * (h + n)) := by
    intro k
    induction k with
    | zero => simp
    | succ k ih => rw [List.replicate_succ, List.flatten_cons, List.map_append, List.sum_append, ih]; simp; ring
  have t2 : ∀ k : ℕ, ((List.replicate k [(B, h), (B, a), (B, n)]).flatten.map fun s => s.1 * s.2).sum
      = k * (B * (h + a + n)) := by
    intro k
    induction k with
    | zero => simp
    | succ k ih => rw [List.replicate_succ, List.flatten_cons, List.map_append, List.sum_append, ih]; simp; ring
  refine ⟨e1 k, e2 k, ?_, ?_, ?_, ?_⟩
  · rw [e1]; simp [List.length_flatten, Nat.mul_comm]
  · rw [e2]; simp [List.length_flatten, Nat.mul_comm]
  · rw [e1, t1]
  · rw [e2, t2]

/-- **C05_call_shapes.** The call pattern IS the draw pattern of the model's own sampler program: on EVERY complete execution
path of the batched `gibbsStepsB k` started from ANY batch of `B` rows (and of `sampleFrom` with / without a start state, which
adds the one `B × n` fair-coin call), the number of Bernoulli draws consumed — and of probabilities presented to the sampler —
equals the total element count of `callShapes k B`: `k·B·(h+n)` for a `BinaryRBM`, `k·B·(h+a+n)` for a `PurificationRBM`;
for the single-chain `gibbsSteps k` it is the `B = 1` count. So every pass draws every hidden (auxiliary) and visible unit of
every chain exactly once, no execution draws more or fewer, and a recording is replayed (`run`) successfully only if exactly
that many draws were consumed. Proof: induction over `k` (`draws_iter`) and over the `Prog` structure (`draws_bind`,
`draws_flipVec`, `draws_flipMat` of `QV.Lemmas.DrawCount`). -/
theorem C05_call_shapes (r : RBM ℝ n h) (q : PRBM ℝ n h a) (k : ℕ) {B : ℕ} (vs : Fin B → Fin n → Bool)
    (v : Fin n → Bool) :
    Draws (r.gibbsStepsB k vs) ((r.callShapes k B).map fun s => s.1 * s.2).sum
    ∧ Draws (q.gibbsStepsB k vs) ((q.callShapes k B).map fun s => s.1 * s.2).sum
    ∧ Draws (r.gibbsSteps k v) ((r.callShapes k 1).map fun s => s.1 * s.2).sum
    ∧ Draws (q.gibbsSteps k v) ((q.callShapes k 1).map fun s => s.1 * s.2).sum
    ∧ Draws (sampleFrom (r.gibbsStepsB k) (some vs)) (k * (B * (h + n)))
    ∧ Draws (sampleFrom (r.gibbsStepsB (B := B) k) none) (B * n + k * (B * (h + n)))
    ∧ Draws (sampleFrom (q.gibbsStepsB (B := B) k) none) (B * n + k * (B * (h + a + n)))
    ∧ (∀ ds w ps rest, (r.gibbsStepsB k vs).run ds = some (w, ps, rest) →
        ps.length = k * (B * (h + n)) ∧ ds.length = k * (B * (h + n)) + rest.length)
    ∧ (∀ ds w ps rest, (q.gibbsStepsB k vs).run ds = some (w, ps, rest) →
        ps.length = k * (B * (h + a + n)) ∧ ds.length = k * (B * (h + a + n)) + rest.length) := by
  obtain ⟨-, -, -, -, s1, s2⟩ := C05_call_shapes_list r q k B
  obtain ⟨-, -, -, -, s1', s2'⟩ := C05_call_shapes_list r q k 1
  have stepB : ∀ us : Fin B → Fin n → Bool, Draws (r.gibbsStepB us) (B * (h + n)) := fun us => by
    rw [Nat.mul_add]; exact draws_bind (draws_flipMat _ _ _) (fun _ => draws_flipMat _ _ _)
  have stepBq : ∀ us : Fin B → Fin n → Bool, Draws (q.gibbsStepB us) (B * (h + a + n)) := fun us => by
    rw [Nat.mul_add, Nat.mul_add, Nat.add_assoc]
    exact draws_bind (draws_flipMat _ _ _) (fun _ => draws_bind (draws_flipMat _ _ _) (fun _ => draws_flipMat _ _ _))
  have step1 : ∀ u : Fin n → Bool, Draws (r.gibbsStep u) (1 * (h + n)) := fun u => by
    rw [Nat.one_mul]; exact draws_bind (draws_flipVec _ _) (fun _ => draws_flipVec _ _)
  have step1q : ∀ u : Fin n → Bool, Draws (q.gibbsStep u) (1 * (h + a + n)) := fun u => by
    rw [Nat.one_mul, Nat.add_assoc]
    exact draws_bind (draws_flipVec _ _) (fun _ => draws_bind (draws_flipVec _ _) (fun _ => draws_flipVec _ _))
  have dB : ∀ us, Draws (r.gibbsStepsB k us) (k * (B * (h + n))) := fun us => draws_iter stepB k us
  have dBq : ∀ us, Draws (q.gibbsStepsB k us) (k * (B * (h + a + n))) := fun us => draws_iter stepBq k us
  refine ⟨?_, ?_, ?_, ?_, dB vs, ?_, ?_, ?_, ?_⟩
  · rw [s1]; exact dB vs
  · rw [s2]; exact dBq vs
  · rw [s1']; exact draws_iter step1 k v
  · rw [s2']; exact draws_iter step1q k v
  · exact draws_bind (draws_flipMat _ _ _) dB
  · exact draws_bind (draws_flipMat _ _ _) dBq
  · intro ds w ps rest hr; exact draws_run (dB vs) hr
  · intro ds w ps rest hr; exact draws_run (dBq vs) hr

/-- the statement of `C05_call_shapes` is about non-empty sets of executions with a non-trivial count: a 1-visible / 1-hidden
`BinaryRBM`, one chain, one pass has the execution "hidden draw 1, visible draw 0" among its `2 = 1·1·(1+1)`-draw paths, and
`callShapes 1 1 = [(1,1), (1,1)]`. -/
example : ([true, false] ∈ ((⟨fun _ _ => 0, fun _ => 0, fun _ => 0⟩ : RBM ℝ 1 1).gibbsStepsB (B := 1) 1 (fun _ _ => false)).paths.map
      (fun x => x.2.2))
    ∧ (⟨fun _ _ => 0, fun _ => 0, fun _ => 0⟩ : RBM ℝ 1 1).callShapes 1 1 = [(1, 1), (1, 1)] := by
  refine ⟨?_, rfl⟩
  simp [RBM.gibbsStepsB, Prog.iter, RBM.gibbsStepB, Prog.flipMat, Prog.flipVec, Prog.bind, Prog.paths]

/-- **C05_call_contents.** WHAT the calls of `C05_call_shapes` present and return, on EVERY complete execution path of one batched
pass (`flatM` = the tensor flattened row-major, the recorder's order): the first `torch.bernoulli` call is handed the `B × h`
hidden conditionals of the CURRENT visible batch, [the second the `B × a` auxiliary conditionals of the same batch,] the last the
`B × n` visible conditionals given exactly the bits DRAWN by the preceding call(s), and the state the pass returns is exactly the
matrix of the bits drawn by the last call — nothing is drawn twice, dropped or reordered. And the executions of `k+1` passes are
the executions of one pass followed by the executions of `k` passes from the state that pass returned (for `k = 0`: no draw at
all), so this describes every call of `gibbs_steps(k)`. -/
theorem C05_call_contents (r : RBM ℝ n h) (q : PRBM ℝ n h a) {B : ℕ} (vs : Fin B → Fin n → Bool) (k : ℕ) :
    (∀ x ∈ (r.gibbsStepB vs).paths, ∃ hs : Fin B → Fin h → Bool,
        x.2.1 = flatM (fun b => r.probH (bvec (vs b))) ++ flatM (fun b => r.probV (bvec (hs b)))
        ∧ x.2.2 = flatM hs ++ flatM x.1)
    ∧ (∀ x ∈ (q.gibbsStepB vs).paths, ∃ (hs : Fin B → Fin h → Bool) (as : Fin B → Fin a → Bool),
        x.2.1 = flatM (fun b => q.probH (bvec (vs b))) ++ (flatM (fun b => q.probA (bvec (vs b)))
                  ++ flatM (fun b => q.probV (bvec (hs b)) (bvec (as b))))
        ∧ x.2.2 = flatM hs ++ (flatM as ++ flatM x.1))
    ∧ (r.gibbsStepsB 0 vs).paths = [(vs, [], [])] ∧ (q.gibbsStepsB 0 vs).paths = [(vs, [], [])]
    ∧ (r.gibbsStepsB (k + 1) vs).paths = (r.gibbsStepB vs).paths.flatMap (fun x =>
        (r.gibbsStepsB k x.1).paths.map fun y => (y.1, x.2.1 ++ y.2.1, x.2.2 ++ y.2.2))
    ∧ (q.gibbsStepsB (k + 1) vs).paths = (q.gibbsStepB vs).paths.flatMap (fun x =>
        (q.gibbsStepsB k x.1).paths.map fun y => (y.1, x.2.1 ++ y.2.1, x.2.2 ++ y.2.2)) := by
  refine ⟨?_, ?_, rfl, rfl, paths_bind _ _, paths_bind _ _⟩
  · intro x hx
    simp only [RBM.gibbsStepB, paths_bind, List.mem_flatMap, List.mem_map] at hx
    obtain ⟨y, hy, z, hz, rfl⟩ := hx
    refine ⟨y.1, ?_, ?_⟩
    · simp only [(paths_flipMat _ _ _ y hy).1, (paths_flipMat _ _ _ z hz).1]
    · simp only [(paths_flipMat _ _ _ y hy).2, (paths_flipMat _ _ _ z hz).2]
  · intro x hx
    simp only [PRBM.gibbsStepB, paths_bind, List.mem_flatMap, List.mem_map] at hx
    obtain ⟨y, hy, _, ⟨w, hw, z, hz, rfl⟩, rfl⟩ := hx
    refine ⟨y.1, w.1, ?_, ?_⟩
    · simp only [(paths_flipMat _ _ _ y hy).1, (paths_flipMat _ _ _ w hw).1, (paths_flipMat _ _ _ z hz).1]
    · simp only [(paths_flipMat _ _ _ y hy).2, (paths_flipMat _ _ _ w hw).2, (paths_flipMat _ _ _ z hz).2]

/-- `C05_call_contents` on a concrete execution: 2 chains of a 1-visible / 1-hidden `BinaryRBM` with zero parameters (all
conditionals `σ(0)`), hidden draws `(1,0)`, visible draws `(0,1)`: the pass returns the batch `[[0],[1]]`. -/
example : ∃ x ∈ ((⟨fun _ _ => 0, fun _ => 0, fun _ => 0⟩ : RBM ℝ 1 1).gibbsStepB (B := 2) (fun _ _ => false)).paths,
    x.2.2 = [true, false, false, true] ∧ flatM x.1 = [false, true] := by
  simp [RBM.gibbsStepB, Prog.flipMat, Prog.flipVec, Prog.bind, Prog.paths, flatM, List.ofFn_succ]
  rfl

/-- **C05_replay_length.** The replay the harness performs (`run` on the recorded draws) succeeds EXACTLY on recordings that hold at
least the `callShapes` element count: `gibbsStepsB k` from any batch of `B` rows replays a recording `ds` iff
`k·B·(h+n) ≤ ds.length` (`PurificationRBM`: `k·B·(h+a+n)`; `sample` without a start state: plus the `B·n` fair coins), and then the
leftover is the recording minus exactly that many draws (`C05_call_shapes`). A sampler that makes one call fewer or one more per
pass therefore cannot be replayed onto the recorded pattern with nothing left over. -/
theorem C05_replay_length (r : RBM ℝ n h) (q : PRBM ℝ n h a) (k : ℕ) {B : ℕ} (vs : Fin B → Fin n → Bool) (ds : List Bool) :
    (((r.gibbsStepsB k vs).run ds).isSome ↔ k * (B * (h + n)) ≤ ds.length)
    ∧ (((q.gibbsStepsB k vs).run ds).isSome ↔ k * (B * (h + a + n)) ≤ ds.length)
    ∧ (((sampleFrom (r.gibbsStepsB (B := B) k) none).run ds).isSome ↔ B * n + k * (B * (h + n)) ≤ ds.length)
    ∧ (((sampleFrom (q.gibbsStepsB (B := B) k) none).run ds).isSome ↔ B * n + k * (B * (h + a + n)) ≤ ds.length) := by
  obtain ⟨-, -, -, -, d1, d2, d3, -, -⟩ := C05_call_shapes r q k vs (fun _ => false)
  have d0 := (C05_call_shapes r q k vs (fun _ => false)).2.1
  rw [(C05_call_shapes_list r q k B).2.2.2.2.2] at d0
  exact ⟨draws_run_isSome d1 ds, draws_run_isSome d0 ds, draws_run_isSome d2 ds, draws_run_isSome d3 ds⟩

/-- `C05_replay_length` on a concrete recording: one chain, one pass of a 1-visible / 1-hidden `BinaryRBM` needs 2 draws; the
recording `[1]` is refused, `[1,0,1]` is replayed with `[1]` left over and returns the visible state `0`. -/
example : ((⟨fun _ _ => 0, fun _ => 0, fun _ => 0⟩ : RBM ℝ 1 1).gibbsStepsB (B := 1) 1 (fun _ _ => false)).run [true] = none
    ∧ (((⟨fun _ _ => 0, fun _ => 0, fun _ => 0⟩ : RBM ℝ 1 1).gibbsStepsB (B := 1) 1 (fun _ _ => false)).run
        [true, false, true]).map (fun x => (x.1 0 0, x.2.2)) = some (false, [true]) := by
  constructor <;>
    simp [RBM.gibbsStepsB, Prog.iter, RBM.gibbsStepB, Prog.flipMat, Prog.flipVec, Prog.bind, Prog.run]

end C05
end QV.Props
