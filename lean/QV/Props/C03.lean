/-
C03 — Training gradients are the exact gradients of the negative log-likelihood.

"For every state type, parameter setting, dataset and assignment of measurement bases, the gradient the
library computes for training (data-driven positive phase plus exact model-driven negative phase) equals
the derivative, with respect to every parameter of every network, of the dataset's negative
log-likelihood under the Born rule in each sample's own measurement basis (for mixed states up to the
library's 1e-8 regularisation of rotated probabilities), in the same parameter order in which training
writes gradients into the model. The positive-phase gradient of a batch is the mean of its per-sample
gradients however the batch is ordered or grouped by basis, and every public method that returns such a
gradient is callable and agrees."

Derivatives are stated along ARBITRARY differentiable parameter curves `r : ℝ → RBM ℝ n h` with velocity `dr`
(`RBM.CurveAt`): the loss composed with the curve has derivative `G.pair dr = Σ_k G_k · dr_k`, where `G` is the
model's gradient record. Taking coordinate lines gives every partial derivative; linearity in `dr` gives the
total derivative. Model: QV.Model.Grads (executed against the code by the C03 correspondence).

Audit round (second half of the file): the losses differentiated here ARE the Born-rule negative log-likelihood of the
dense Kronecker rotation of C04 (`C03_nll_is_born_complex`, `C03_nll_is_born_density`, normalisation
`C03_born_complex_normalised`, `C03_born_density_normalised`); `p̃ + ε > 0` follows from the guard and `ε > 0`
(`C03_exact_gradient_density_eps_pos`); the pairing is the dot product of the flattened records in `parameters()` order
(`C03_layout`, `C03_layout_prbm`, `C03_exact_gradient_*_flat`); batch of one (`C03_single_sample*`); `bases=None` / all-Z rows
(`C03_bases_none*`); mixed-state permutation invariance; the unused default branch of `pi_grad` (`C03_pi_grad_branches_*`).
-/
import Mathlib.Analysis.SpecialFunctions.Log.Deriv
import QV.Lemmas.Deriv
import QV.Lemmas.GradLin
import QV.Lemmas.Hilbert
import QV.Lemmas.CplxGrad
import QV.Lemmas.Grouping
import QV.Lemmas.DMGrad
import QV.Lemmas.GradArgs
import Mathlib.Analysis.SpecialFunctions.Log.ENNRealLog
import QV.Props.C01
import QV.Props.C02
import QV.Props.C04

namespace QV.Props
open QV Finset Grads

variable {n h a : ℕ}

/-- **C03.1a** effective energy of the BinaryRBM: the code's per-sample gradient vector is the gradient. -/
theorem C03_energy_grad (r : ℝ → RBM ℝ n h) (dr : RBM ℝ n h) (t : ℝ) (hr : RBM.CurveAt r dr t) (v : Fin n → ℝ) :
    HasDerivAt (fun s => (r s).effEnergy v) (((r t).effEnergyGrad1 v).pair dr) t :=
  RBM.hasDerivAt_effEnergy r dr t hr v

/-- **C03.1b** the same for the PurificationRBM (auxiliary units traced out), in the layout `[W, U, b, c, d]`. -/
theorem C03_energy_grad_prbm (r : ℝ → PRBM ℝ n h a) (dr : PRBM ℝ n h a) (t : ℝ) (hr : PRBM.CurveAt r dr t)
    (v : Fin n → ℝ) :
    HasDerivAt (fun s => (r s).effEnergy v) (((r t).effEnergyGrad1 v).pair dr) t :=
  PRBM.hasDerivAt_effEnergy r dr t hr v

/-- partition function as the plain sum over the generated space (what `compute_exact_gradients` uses) -/
noncomputable def Zsum (am : RBM ℝ n h) : ℝ := ∑ k : Fin (2 ^ n), Real.exp (-(am.effEnergy (spaceRow n k.val)))

theorem Zsum_pos (am : RBM ℝ n h) : 0 < Zsum am :=
  Finset.sum_pos (fun _ _ => Real.exp_pos _) ⟨⟨0, Nat.pos_of_ne_zero (by positivity)⟩, mem_univ _⟩

/-- **C03.2** `d/dt log Z = −Σ_σ p(σ) ⟨∇E(σ), θ'⟩`, and the model's exact negative phase is that weighted average. -/
theorem C03_logZ_grad (r : ℝ → RBM ℝ n h) (dr : RBM ℝ n h) (t : ℝ) (hr : RBM.CurveAt r dr t) :
    HasDerivAt (fun s => Real.log (Zsum (r s))) (-((negPhaseExact (r t)).pair dr)) t := by
  have hZ : HasDerivAt (fun s => Zsum (r s))
      (∑ k : Fin (2 ^ n), Real.exp (-((r t).effEnergy (spaceRow n k.val)))
          * -(((r t).effEnergyGrad1 (spaceRow n k.val)).pair dr)) t := by
    unfold Zsum
    exact HasDerivAt.fun_sum (fun k _ => ((RBM.hasDerivAt_effEnergy r dr t hr _).neg).exp)
  have := hZ.log (Zsum_pos (r t)).ne'
  refine this.congr_deriv ?_
  have hneg : (negPhaseExact (r t)).pair dr
      = ∑ k : Fin (2 ^ n), (Real.exp (-((r t).effEnergy (spaceRow n k.val))) / Zsum (r t))
          * ((r t).effEnergyGrad1 (spaceRow n k.val)).pair dr := by
    have := RBM.pair_weighted (fun k : Fin (2 ^ n) => (r t).effEnergyGrad1 (spaceRow n k.val))
      (fun k => Real.exp (-((r t).effEnergy (spaceRow n k.val))) / Zsum (r t)) dr
    rw [← this]
    simp only [negPhaseExact, sumFin_eq, transc_exp, Zsum]
  rw [hneg, Finset.sum_div, ← Finset.sum_neg_distrib]
  refine Finset.sum_congr rfl (fun k _ => ?_)
  ring

/-- the negative log-likelihood of a dataset of computational-basis outcomes under the positive state:
`−(1/B) Σ_b log( probability(v_b) / Z )` with the model's `probability` and `Z = Σ_σ probability(σ)`. -/
noncomputable def nllPos (am : RBM ℝ n h) {B : ℕ} (vs : Fin B → Fin n → ℝ) : ℝ :=
  -((∑ b, Real.log (Wave.probability am (vs b) (Zsum am))) / B)

theorem nllPos_eq (am : RBM ℝ n h) {B : ℕ} (hB : 0 < B) (vs : Fin B → Fin n → ℝ) :
    nllPos am vs = (∑ b, am.effEnergy (vs b)) / B + Real.log (Zsum am) := by
  have hZ := Zsum_pos am
  have hBr : (B : ℝ) ≠ 0 := by exact_mod_cast hB.ne'
  simp only [nllPos, Wave.probability, transc_exp]
  have : ∀ b, Real.log (Real.exp (-(am.effEnergy (vs b))) / Zsum am) = -(am.effEnergy (vs b)) - Real.log (Zsum am) := by
    intro b; rw [Real.log_div (Real.exp_pos _).ne' hZ.ne', Real.log_exp]
  simp only [this, Finset.sum_sub_distrib, Finset.sum_neg_distrib, Finset.sum_const, Finset.card_univ, Fintype.card_fin,
    nsmul_eq_mul]
  field_simp
  ring

/-- **C03.3 (positive state)** `compute_exact_gradients` (= `compute_exact_grads`) is the gradient of the NLL:
along any differentiable parameter curve the NLL has derivative `Σ_k G_k θ'_k` with `G` the model's output. -/
theorem C03_exact_gradient_positive (r : ℝ → RBM ℝ n h) (dr : RBM ℝ n h) (t : ℝ) (hr : RBM.CurveAt r dr t)
    {B : ℕ} (hB : 0 < B) (vs : Fin B → Fin n → ℝ) :
    HasDerivAt (fun s => nllPos (r s) vs) ((exactGradientsPos (r t) vs).pair dr) t := by
  have hfun : (fun s => nllPos (r s) vs)
      = fun s => (∑ b, (r s).effEnergy (vs b)) / B + Real.log (Zsum (r s)) := by
    funext s; exact nllPos_eq (r s) hB vs
  rw [hfun]
  have h1 : HasDerivAt (fun s => (∑ b, (r s).effEnergy (vs b)) / (B : ℝ))
      ((∑ b, ((r t).effEnergyGrad1 (vs b)).pair dr) / B) t :=
    (HasDerivAt.fun_sum (fun b _ => RBM.hasDerivAt_effEnergy r dr t hr (vs b))).div_const _
  refine (h1.add (C03_logZ_grad r dr t hr)).congr_deriv ?_
  simp only [exactGradientsPos, positivePhasePos, gradientPos, RBM.pair_sub, RBM.pair_sdiv, RBM.pair_effEnergyGrad,
    transc_ofNat]
  ring

/-- **C03.5 (positive)** the positive phase is the mean of the per-sample gradients (pairing form), hence invariant
under any permutation of the batch. -/
theorem C03_batch_is_sum_positive (am d : RBM ℝ n h) {B : ℕ} (vs : Fin B → Fin n → ℝ) :
    (positivePhasePos am vs).pair d = (∑ b, (am.effEnergyGrad1 (vs b)).pair d) / B := by
  simp only [positivePhasePos, gradientPos, RBM.pair_sdiv, RBM.pair_effEnergyGrad, transc_ofNat]

theorem C03_perm_invariant_positive (am d : RBM ℝ n h) {B : ℕ} (vs : Fin B → Fin n → ℝ) (e : Equiv.Perm (Fin B)) :
    (positivePhasePos am (fun b => vs (e b))).pair d = (positivePhasePos am vs).pair d := by
  rw [C03_batch_is_sum_positive, C03_batch_is_sum_positive]
  congr 1
  exact Equiv.sum_comp e (fun b => (am.effEnergyGrad1 (vs b)).pair d)

/-! ### complex wavefunction, arbitrary measurement bases -/

open Unitaries

/-- for an all-`Z` sample the rotated amplitude is `ψ(σ)` itself -/
theorem cplxUpsi_allZ (am ph : RBM ℝ n h) (dict : Char → M2 ℝ) (smp : Sample n) (hz : smp.allZ = true) :
    toC (cplxUpsi am ph dict smp) = toC (Wave.psiCplx am ph smp.vis) := by
  have hrot : ∀ j, smp.rot j = false := by
    intro j
    have := List.all_eq_true.mp hz j (List.mem_finRange j)
    simpa using this
  rw [toC_cplxUpsi, sum_rows n (fun τ => rotC dict smp τ * toC (Wave.psiCplx am ph (visOf τ)))]
  rw [Finset.sum_eq_single smp.σ]
  · have hag : agreesOff n smp.rot smp.σ smp.σ = true := by
      simp [agreesOff]
    simp only [rotC, hag, if_true, rotCoeff, toC_prod, hrot, Bool.false_eq_true, if_false, toC_one,
      Finset.prod_const_one, one_mul]
    rfl
  · intro τ _ hτ
    have : agreesOff n smp.rot smp.σ τ = false := by
      by_contra hcon
      have hcon' : agreesOff n smp.rot smp.σ τ = true := by simpa using hcon
      unfold agreesOff at hcon'
      have hall := List.all_eq_true.mp hcon'
      apply hτ
      funext j
      have := hall j (List.mem_finRange j)
      simp [hrot j] at this
      exact this.symm
    simp [rotC, this]
  · simp

/-- per-sample loss `−log p̃_β(σ)` with `p̃_β(σ) = |Σ_τ Ut_τ ψ(τ)|²` the unnormalised Born probability of outcome σ in
basis β (entry σ of the dense Kronecker rotation applied to ψ: `C03_upsi_is_dense_amplitude`, `C03_loss_is_born_complex`;
the dataset loss is the Born-rule NLL: `C03_nll_is_born_complex`). -/
noncomputable def sampleLossCplx (am ph : RBM ℝ n h) (dict : Char → M2 ℝ) (smp : Sample n) : ℝ :=
  -Real.log (Complex.normSq (toC (cplxUpsi am ph dict smp)))

/-- **C03.3 (complex state, one sample)**: all-`Z` fast path and rotated path alike. -/
theorem C03_sample_gradient_complex (ram rph : ℝ → RBM ℝ n h) (dam dph : RBM ℝ n h) (t : ℝ)
    (ha : RBM.CurveAt ram dam t) (hp : RBM.CurveAt rph dph t) (dict : Char → M2 ℝ) (smp : Sample n)
    (hU : toC (cplxUpsi (ram t) (rph t) dict smp) ≠ 0) :
    HasDerivAt (fun s => sampleLossCplx (ram s) (rph s) dict smp)
      ((cplxGrad1 (ram t) (rph t) dict smp).1.pair dam + (cplxGrad1 (ram t) (rph t) dict smp).2.pair dph) t := by
  unfold sampleLossCplx
  by_cases hz : smp.allZ = true
  · have hfun : (fun s => -Real.log (Complex.normSq (toC (cplxUpsi (ram s) (rph s) dict smp))))
        = fun s => (ram s).effEnergy smp.vis := by
      funext s
      rw [cplxUpsi_allZ _ _ _ _ hz, toC_psiCplx, Complex.normSq_eq_norm_sq, Complex.norm_exp]
      simp only [Complex.add_re, Complex.ofReal_re, Complex.mul_re, Complex.I_re, Complex.I_im, Complex.ofReal_im,
        mul_zero, sub_zero, mul_one, add_zero]
      rw [← Real.exp_nat_mul, Real.log_exp]
      push_cast; ring
    rw [hfun]
    refine (RBM.hasDerivAt_effEnergy ram dam t ha smp.vis).congr_deriv ?_
    simp [cplxGrad1, hz, RBM.pair_zero]
  · exact hasDerivAt_sampleLoss_rot ram rph dam dph t ha hp dict smp (by simpa using hz) hU

/-- grouped accumulation = plain sum over the batch (pairing form) -/
theorem pair_gradientCplx (am ph d : RBM ℝ n h) (dict : Char → M2 ℝ) (D : List (Sample n)) :
    (gradientCplx am ph dict D).1.pair d = (D.map (fun s => (cplxGrad1 am ph dict s).1.pair d)).sum
    ∧ (gradientCplx am ph dict D).2.pair d = (D.map (fun s => (cplxGrad1 am ph dict s).2.pair d)).sum :=
  ⟨pair_grouped D (fun s => s.basis) (fun s => (cplxGrad1 am ph dict s).1) d,
   pair_grouped D (fun s => s.basis) (fun s => (cplxGrad1 am ph dict s).2) d⟩

/-- the dataset NLL of the complex state under the Born rule: `(1/N) Σ_s −log p̃_{β_s}(σ_s) + log Z`. -/
noncomputable def nllCplx (am ph : RBM ℝ n h) (dict : Char → M2 ℝ) (D : List (Sample n)) : ℝ :=
  (D.map (fun smp => sampleLossCplx am ph dict smp)).sum / D.length + Real.log (Zsum am)

theorem hasDerivAt_list_sum {ι : Type} (l : List ι) (f : ι → ℝ → ℝ) (f' : ι → ℝ) (t : ℝ)
    (hf : ∀ x ∈ l, HasDerivAt (f x) (f' x) t) :
    HasDerivAt (fun s => (l.map (fun x => f x s)).sum) ((l.map f').sum) t := by
  induction l with
  | nil => simpa using hasDerivAt_const t (0 : ℝ)
  | cons x xs ih =>
    simp only [List.map_cons, List.sum_cons]
    exact (hf x List.mem_cons_self).add (ih (fun y hy => hf y (List.mem_cons_of_mem _ hy)))

/-- **C03.3 (complex state)** `compute_exact_gradients(samples, space, bases)` — grouped by unique basis, all-`Z` rows
through the fast path — is the gradient of the dataset NLL w.r.t. every parameter of both networks, whenever every
sample has non-zero model probability in its basis (i.e. the NLL is finite). -/
theorem C03_exact_gradient_complex (ram rph : ℝ → RBM ℝ n h) (dam dph : RBM ℝ n h) (t : ℝ)
    (ha : RBM.CurveAt ram dam t) (hp : RBM.CurveAt rph dph t) (dict : Char → M2 ℝ) (D : List (Sample n))
    (hU : ∀ smp ∈ D, toC (cplxUpsi (ram t) (rph t) dict smp) ≠ 0) :
    HasDerivAt (fun s => nllCplx (ram s) (rph s) dict D)
      ((exactGradientsCplx (ram t) (rph t) dict D).1.pair dam
        + (exactGradientsCplx (ram t) (rph t) dict D).2.pair dph) t := by
  unfold nllCplx
  have h1 := (hasDerivAt_list_sum D (fun smp s => sampleLossCplx (ram s) (rph s) dict smp) _ t
    (fun smp hs => C03_sample_gradient_complex ram rph dam dph t ha hp dict smp (hU smp hs))).div_const (D.length : ℝ)
  refine (h1.add (C03_logZ_grad ram dam t ha)).congr_deriv ?_
  simp only [exactGradientsCplx, positivePhaseCplx, RBM.pair_sub, RBM.pair_sdiv, transc_ofNat,
    (pair_gradientCplx _ _ _ _ _).1, (pair_gradientCplx _ _ _ _ _).2]
  rw [List.sum_map_add]
  ring

/-- **C03.5** the positive phase of ANY batch is the mean of the per-sample gradients, whatever the grouping by
basis (pairing form); hence invariant under permutation of the batch. -/
theorem C03_batch_is_sum_complex (am ph d : RBM ℝ n h) (dict : Char → M2 ℝ) (D : List (Sample n)) :
    (positivePhaseCplx am ph dict D).1.pair d = (D.map (fun s => (cplxGrad1 am ph dict s).1.pair d)).sum / D.length
    ∧ (positivePhaseCplx am ph dict D).2.pair d = (D.map (fun s => (cplxGrad1 am ph dict s).2.pair d)).sum / D.length := by
  simp only [positivePhaseCplx, RBM.pair_sdiv, transc_ofNat, (pair_gradientCplx _ _ _ _ _).1,
    (pair_gradientCplx _ _ _ _ _).2, and_self]

theorem C03_perm_invariant_complex (am ph d : RBM ℝ n h) (dict : Char → M2 ℝ) (D D' : List (Sample n))
    (hperm : D.Perm D') :
    (positivePhaseCplx am ph dict D).1.pair d = (positivePhaseCplx am ph dict D').1.pair d
    ∧ (positivePhaseCplx am ph dict D).2.pair d = (positivePhaseCplx am ph dict D').2.pair d := by
  rw [(C03_batch_is_sum_complex am ph d dict D).1, (C03_batch_is_sum_complex am ph d dict D).2,
    (C03_batch_is_sum_complex am ph d dict D').1, (C03_batch_is_sum_complex am ph d dict D').2, hperm.length_eq]
  exact ⟨by rw [(hperm.map _).sum_eq], by rw [(hperm.map _).sum_eq]⟩

/-- the per-sample rotated amplitude of the gradient model IS the model of `rotate_psi_inner_prod` (C04), hence by
`C04_inner_prod` entry σ of the dense basis rotation applied to ψ: the loss above is the Born-rule loss. -/
theorem C03_upsi_is_rotated_amplitude (am ph : RBM ℝ n h) (dict : Char → M2 ℝ) (smp : Sample n) :
    cplxUpsi am ph dict smp
      = rotatePsiInnerProd n (fun j => dict (smp.letter j)) smp.rot (fun τ => Wave.psiCplx am ph (visOf τ)) smp.σ := rfl

/-! ### mixed state (DensityMatrix), arbitrary measurement bases, with the code's `ε`-regularisation -/

/-- per-sample loss of the mixed state: `E_λ(σ)` for a reference-basis row (fast path, no regulariser) and
`−log(p̃_β(σ) + ε)` for a rotated row, `p̃_β(σ) = Σ_{τ,τ'} Re[U_τ conj(U_τ') ρ(τ,τ')]` the unnormalised Born probability
of outcome σ in basis β (the model of `rotate_rho_probs`: `C03_urhou_is_rotated_prob`; the diagonal of the dense `K ρ Kᴴ`:
`C03_urhou_is_born`; the two branches are one Born-rule loss: `C03_loss_allZ_density`, `C03_loss_is_born_density`;
dataset level: `C03_nll_is_born_density`). -/
noncomputable def sampleLossDM (am ph : PRBM ℝ n h a) (dict : Char → M2 ℝ) (eps : ℝ) (smp : Sample n) : ℝ :=
  if smp.allZ then am.effEnergy smp.vis else -Real.log (dmUrhoU am ph dict smp + eps)

/-- **C03.3 (mixed state, one sample)** the model's per-sample gradient pair is the gradient of the per-sample loss,
wherever the auxiliary-trace guard holds (`NZall`, see C02) and the regularised probability is positive. -/
theorem C03_sample_gradient_density (ram rph : ℝ → PRBM ℝ n h a) (dam dph : PRBM ℝ n h a) (t : ℝ)
    (ha : PRBM.CurveAt ram dam t) (hp : PRBM.CurveAt rph dph t) (dict : Char → M2 ℝ) (eps : ℝ) (smp : Sample n)
    (hz : NZall (ram t) (rph t)) (hpos : dmUrhoU (ram t) (rph t) dict smp + eps ≠ 0) :
    HasDerivAt (fun s => sampleLossDM (ram s) (rph s) dict eps smp)
      ((dmGrad1 (ram t) (rph t) dict eps smp).1.pair dam + (dmGrad1 (ram t) (rph t) dict eps smp).2.pair dph) t := by
  unfold sampleLossDM
  by_cases hallz : smp.allZ = true
  · simp only [hallz, if_true]
    refine (PRBM.hasDerivAt_effEnergy ram dam t ha smp.vis).congr_deriv ?_
    simp [dmGrad1, hallz, PRBM.pair_zero]
  · simp only [hallz, Bool.false_eq_true, if_false]
    have hd := ((hasDerivAt_dmUrhoU ram rph dam dph t ha hp dict smp hz).add_const eps).log hpos |>.neg
    refine hd.congr_deriv ?_
    have h1 := pair_dmRot (ram t) (rph t) dam dict eps smp
      (fun τ1 τ2 => dmAmGrads (ram t) (rph t) (visOf τ1) (visOf τ2))
    have h2 := pair_dmRot (ram t) (rph t) dph dict eps smp
      (fun τ1 τ2 => dmPhGrads (ram t) (rph t) (visOf τ1) (visOf τ2))
    simp only [dmGrad1, hallz, Bool.false_eq_true, if_false]
    rw [h1, h2, ← add_div, ← neg_add, ← Finset.sum_add_distrib, neg_div]
    congr 2
    refine Finset.sum_congr rfl (fun x _ => ?_)
    rw [mul_add, Complex.add_re]

/-- partition function of the purification RBM as the plain sum over the generated space -/
noncomputable def ZsumDM (am : PRBM ℝ n h a) : ℝ := ∑ k : Fin (2 ^ n), Real.exp (-(am.effEnergy (spaceRow n k.val)))

theorem ZsumDM_pos (am : PRBM ℝ n h a) : 0 < ZsumDM am :=
  Finset.sum_pos (fun _ _ => Real.exp_pos _) ⟨⟨0, Nat.pos_of_ne_zero (by positivity)⟩, mem_univ _⟩

/-- **C03.2 (purification RBM)** `d/dt log Z = −⟨exact negative phase, θ'⟩`. -/
theorem C03_logZ_grad_prbm (r : ℝ → PRBM ℝ n h a) (dr : PRBM ℝ n h a) (t : ℝ) (hr : PRBM.CurveAt r dr t) :
    HasDerivAt (fun s => Real.log (ZsumDM (r s))) (-((negPhaseExactDM (r t)).pair dr)) t := by
  have hZ : HasDerivAt (fun s => ZsumDM (r s))
      (∑ k : Fin (2 ^ n), Real.exp (-((r t).effEnergy (spaceRow n k.val)))
          * -(((r t).effEnergyGrad1 (spaceRow n k.val)).pair dr)) t := by
    unfold ZsumDM
    exact HasDerivAt.fun_sum (fun k _ => ((PRBM.hasDerivAt_effEnergy r dr t hr _).neg).exp)
  have := hZ.log (ZsumDM_pos (r t)).ne'
  refine this.congr_deriv ?_
  have hneg : (negPhaseExactDM (r t)).pair dr
      = ∑ k : Fin (2 ^ n), (Real.exp (-((r t).effEnergy (spaceRow n k.val))) / ZsumDM (r t))
          * ((r t).effEnergyGrad1 (spaceRow n k.val)).pair dr := by
    have := PRBM.pair_weighted (fun k : Fin (2 ^ n) => (r t).effEnergyGrad1 (spaceRow n k.val))
      (fun k => Real.exp (-((r t).effEnergy (spaceRow n k.val))) / ZsumDM (r t)) dr
    rw [← this]
    simp only [negPhaseExactDM, sumFin_eq, transc_exp, ZsumDM]
  rw [hneg, Finset.sum_div, ← Finset.sum_neg_distrib]
  refine Finset.sum_congr rfl (fun k _ => ?_)
  ring

theorem pair_foldl_add_prbm (l : List (PRBM ℝ n h a)) (acc d : PRBM ℝ n h a) :
    (l.foldl PRBM.add acc).pair d = acc.pair d + (l.map (fun x => x.pair d)).sum := by
  induction l generalizing acc with
  | nil => simp
  | cons x xs ih => rw [List.foldl_cons, ih, PRBM.pair_add, List.map_cons, List.sum_cons, add_assoc]

theorem pair_sumPRBM (l : List (PRBM ℝ n h a)) (d : PRBM ℝ n h a) :
    (sumPRBM l).pair d = (l.map (fun x => x.pair d)).sum := by
  simp [sumPRBM, pair_foldl_add_prbm, PRBM.pair_zero]

theorem pair_grouped_prbm {ι κ : Type} [BEq κ] [LawfulBEq κ] (D : List ι) (key : ι → κ) (f : ι → PRBM ℝ n h a)
    (d : PRBM ℝ n h a) :
    (sumPRBM ((((D.map key).foldr List.insert []).map (fun u => D.filter (fun s => key s == u))).map
        (fun g => sumPRBM (g.map f)))).pair d
      = (D.map (fun s => (f s).pair d)).sum := by
  rw [pair_sumPRBM, List.map_map, List.map_map]
  have := sum_groups D key (fun s => (f s).pair d)
  rw [← this]
  congr 1
  refine List.map_congr_left (fun u _ => ?_)
  simp only [Function.comp, pair_sumPRBM, List.map_map]
  rfl

theorem pair_gradientDM (am ph d : PRBM ℝ n h a) (dict : Char → M2 ℝ) (eps : ℝ) (D : List (Sample n)) :
    (gradientDM am ph dict eps D).1.pair d = (D.map (fun s => (dmGrad1 am ph dict eps s).1.pair d)).sum
    ∧ (gradientDM am ph dict eps D).2.pair d = (D.map (fun s => (dmGrad1 am ph dict eps s).2.pair d)).sum :=
  ⟨pair_grouped_prbm D (fun s => s.basis) (fun s => (dmGrad1 am ph dict eps s).1) d,
   pair_grouped_prbm D (fun s => s.basis) (fun s => (dmGrad1 am ph dict eps s).2) d⟩

/-- the dataset NLL of the mixed state with the library's regularisation of rotated probabilities -/
noncomputable def nllDM (am ph : PRBM ℝ n h a) (dict : Char → M2 ℝ) (eps : ℝ) (D : List (Sample n)) : ℝ :=
  (D.map (fun smp => sampleLossDM am ph dict eps smp)).sum / D.length + Real.log (ZsumDM am)

/-- **C03.3 (mixed state)** `compute_exact_gradients(samples, space, bases)` of the DensityMatrix is the gradient of the
(ε-regularised) dataset NLL w.r.t. every parameter of both purification networks. -/
theorem C03_exact_gradient_density (ram rph : ℝ → PRBM ℝ n h a) (dam dph : PRBM ℝ n h a) (t : ℝ)
    (ha : PRBM.CurveAt ram dam t) (hp : PRBM.CurveAt rph dph t) (dict : Char → M2 ℝ) (eps : ℝ) (D : List (Sample n))
    (hz : NZall (ram t) (rph t)) (hpos : ∀ smp ∈ D, dmUrhoU (ram t) (rph t) dict smp + eps ≠ 0) :
    HasDerivAt (fun s => nllDM (ram s) (rph s) dict eps D)
      ((exactGradientsDM (ram t) (rph t) dict eps D).1.pair dam
        + (exactGradientsDM (ram t) (rph t) dict eps D).2.pair dph) t := by
  unfold nllDM
  have h1 := (hasDerivAt_list_sum D (fun smp s => sampleLossDM (ram s) (rph s) dict eps smp) _ t
    (fun smp hs => C03_sample_gradient_density ram rph dam dph t ha hp dict eps smp hz (hpos smp hs))).div_const (D.length : ℝ)
  refine (h1.add (C03_logZ_grad_prbm ram dam t ha)).congr_deriv ?_
  simp only [exactGradientsDM, positivePhaseDM, PRBM.pair_sub, PRBM.pair_sdiv, transc_ofNat,
    (pair_gradientDM _ _ _ _ _ _).1, (pair_gradientDM _ _ _ _ _ _).2]
  rw [List.sum_map_add]
  ring

/-- **C03.5 (mixed)** positive phase = mean of per-sample gradients, whatever the grouping; permutation invariant. -/
theorem C03_batch_is_sum_density (am ph d : PRBM ℝ n h a) (dict : Char → M2 ℝ) (eps : ℝ) (D : List (Sample n)) :
    (positivePhaseDM am ph dict eps D).1.pair d = (D.map (fun s => (dmGrad1 am ph dict eps s).1.pair d)).sum / D.length
    ∧ (positivePhaseDM am ph dict eps D).2.pair d = (D.map (fun s => (dmGrad1 am ph dict eps s).2.pair d)).sum / D.length := by
  simp only [positivePhaseDM, PRBM.pair_sdiv, transc_ofNat, (pair_gradientDM _ _ _ _ _ _).1,
    (pair_gradientDM _ _ _ _ _ _).2, and_self]


/-! ## Audit round: Born rule, layout, call forms (C03-1, C03-3, C03-5, C03-8) -/

open Matrix
/-! ### C03-1: the loss of the gradient theorems IS the Born-rule loss (dense Kronecker rotation, C04) -/

/-- the fast paths test the LETTER `Z`; if the dictionary maps `Z` to the identity, every non-rotated site of a sample
carries the identity -/
theorem hZ_of_dictZ (dict : Char → M2 ℝ) (smp : Sample n) (hZ : m2c (dict 'Z') = 1) :
    ∀ j, smp.rot j = false → m2c (dict (smp.letter j)) = 1 := by
  intro j hj
  have : smp.letter j = 'Z' := by simpa [Sample.rot] using hj
  rw [this]; exact hZ

/-- SPEC (Born rule, pure state): unnormalised probability of outcome `σ` when site `j` is measured in the basis whose
unitary is `us j`: `|(K ψ)_σ|²` with `K = ⊗_j us j` the DENSE tensor-product operator of C04. -/
noncomputable def bornPsi (us : Fin n → M2 ℝ) (ψ : (Fin n → Bool) → ℂ) (σ : Fin n → Bool) : ℝ :=
  Complex.normSq ((denseK us).mulVec ψ σ)

/-- the complex state as a vector over bit-strings -/
noncomputable def psiOf (am ph : RBM ℝ n h) : (Fin n → Bool) → ℂ := fun τ => toC (Wave.psiCplx am ph (visOf τ))

/-- the per-site unitaries of a sample's basis string -/
def usOf (dict : Char → M2 ℝ) (smp : Sample n) : Fin n → M2 ℝ := fun j => dict (smp.letter j)

/-- **C03.4a** the rotated amplitude used by the gradient code is what `rotate_psi_inner_prod` computes BY ENUMERATION of the
expanded states (the C04 model the driver executes) … -/
theorem C03_upsi_as_coded (am ph : RBM ℝ n h) (dict : Char → M2 ℝ) (smp : Sample n) :
    cplxUpsi am ph dict smp
      = rotatePsiInnerProdE n (usOf dict smp) smp.rot (fun τ => Wave.psiCplx am ph (visOf τ)) smp.σ := by
  rw [rotatePsiInnerProdE_eq]; rfl

/-- **C03.4b** … and it is entry `σ` of the dense Kronecker rotation applied to `ψ` (`C04_inner_prod_dense`). -/
theorem C03_upsi_is_dense_amplitude (am ph : RBM ℝ n h) (dict : Char → M2 ℝ) (smp : Sample n)
    (hZ : m2c (dict 'Z') = 1) :
    toC (cplxUpsi am ph dict smp) = (denseK (usOf dict smp)).mulVec (psiOf am ph) smp.σ := by
  rw [C03_upsi_is_rotated_amplitude]
  exact C04_inner_prod_dense _ _ (fun τ => Wave.psiCplx am ph (visOf τ)) _ (hZ_of_dictZ dict smp hZ)

/-- **C03.4c** the per-sample loss of `C03_sample_gradient_complex` is `−log` of the Born probability of the sample's
outcome in the sample's own basis; where that probability is non-zero, `exp(−loss)` is the probability itself. -/
theorem C03_loss_is_born_complex (am ph : RBM ℝ n h) (dict : Char → M2 ℝ) (smp : Sample n)
    (hZ : m2c (dict 'Z') = 1) :
    sampleLossCplx am ph dict smp = -Real.log (bornPsi (usOf dict smp) (psiOf am ph) smp.σ)
    ∧ (toC (cplxUpsi am ph dict smp) ≠ 0 →
        Real.exp (-(sampleLossCplx am ph dict smp)) = bornPsi (usOf dict smp) (psiOf am ph) smp.σ) := by
  have h1 : sampleLossCplx am ph dict smp = -Real.log (bornPsi (usOf dict smp) (psiOf am ph) smp.σ) := by
    unfold sampleLossCplx bornPsi
    rw [C03_upsi_is_dense_amplitude am ph dict smp hZ]
  refine ⟨h1, fun hU => ?_⟩
  rw [h1, neg_neg, Real.exp_log]
  unfold bornPsi
  rw [← C03_upsi_is_dense_amplitude am ph dict smp hZ]
  exact Complex.normSq_pos.mpr hU

/-- a unitary operator preserves the squared norm (generic form of `C04_psi_probs_sum`) -/
theorem sum_normSq_mulVec {ι : Type*} [Fintype ι] [DecidableEq ι] (K : Matrix ι ι ℂ) (hK : Kᴴ * K = 1) (v : ι → ℂ) :
    ∑ σ, Complex.normSq (K.mulVec v σ) = ∑ σ, Complex.normSq (v σ) := by
  have : star (K.mulVec v) ⬝ᵥ (K.mulVec v) = star v ⬝ᵥ v := by
    rw [Matrix.star_mulVec, Matrix.dotProduct_mulVec, Matrix.vecMul_vecMul, hK, Matrix.vecMul_one]
  have conv : ∀ w : ι → ℂ, ((star w ⬝ᵥ w : ℂ)).re = ∑ σ, Complex.normSq (w σ) := by
    intro w
    simp only [dotProduct, Pi.star_apply, Complex.re_sum]
    refine Finset.sum_congr rfl (fun σ _ => ?_)
    simp [Complex.normSq_apply, Complex.mul_re]
  rw [← conv, ← conv, this]

/-- **C03.4d** `Z_λ` (the `log Z` term of the NLL) is the squared norm of `ψ` … -/
theorem C03_Zsum_is_norm (am ph : RBM ℝ n h) : Zsum am = ∑ τ, Complex.normSq (psiOf am ph τ) := by
  unfold Zsum
  rw [← sum_rows n (fun τ => Complex.normSq (psiOf am ph τ))]
  refine Finset.sum_congr rfl (fun k _ => ?_)
  have := C01_normSq_psi_complex am ph (visOf (rowBits n k.val))
  simp only [Wave.probability, transc_exp, div_one] at this
  rw [psiOf, Complex.normSq_apply, toC_re, toC_im, ← sq, ← sq, this]
  rfl

/-- **C03.4e** … which is also the total Born probability in EVERY basis whose per-site matrices are unitary: the
quantity under the logarithm of the NLL, divided by `Z_λ`, is a probability distribution over outcomes. -/
theorem C03_born_complex_normalised (am ph : RBM ℝ n h) (us : Fin n → M2 ℝ)
    (hU : ∀ j, (m2c (us j))ᴴ * m2c (us j) = 1) :
    ∑ σ, bornPsi us (psiOf am ph) σ = Zsum am
    ∧ ∑ σ, bornPsi us (psiOf am ph) σ / Zsum am = 1 := by
  have h1 : ∑ σ, bornPsi us (psiOf am ph) σ = Zsum am := by
    rw [C03_Zsum_is_norm am ph]
    exact sum_normSq_mulVec _ (C04_dense_unitary us hU) _
  refine ⟨h1, ?_⟩
  rw [← Finset.sum_div, h1, div_self (Zsum_pos am).ne']

theorem list_sum_map_add_const {ι : Type} (l : List ι) (f : ι → ℝ) (c : ℝ) :
    (l.map (fun x => f x + c)).sum = (l.map f).sum + l.length * c := by
  induction l with
  | nil => simp
  | cons x xs ih => simp only [List.map_cons, List.sum_cons, ih, List.length_cons]; push_cast; ring

/-- **C03.4 (complex state)** the dataset loss differentiated in `C03_exact_gradient_complex` IS the negative
log-likelihood under the Born rule: the mean over the dataset of `−log( |(K_{β_s} ψ)_{σ_s}|² / ‖ψ‖² )`, `K_β` the dense
Kronecker product of the dictionary matrices of the sample's own basis string. -/
theorem C03_nll_is_born_complex (am ph : RBM ℝ n h) (dict : Char → M2 ℝ) (hZ : m2c (dict 'Z') = 1)
    (D : List (Sample n)) (hD : D ≠ []) (hU : ∀ smp ∈ D, toC (cplxUpsi am ph dict smp) ≠ 0) :
    nllCplx am ph dict D
      = (D.map (fun smp => -Real.log (bornPsi (usOf dict smp) (psiOf am ph) smp.σ
            / ∑ τ, Complex.normSq (psiOf am ph τ)))).sum / D.length := by
  have hN : (D.length : ℝ) ≠ 0 := by
    have : D.length ≠ 0 := by simpa using hD
    exact_mod_cast this
  have key : ∀ smp ∈ D, -Real.log (bornPsi (usOf dict smp) (psiOf am ph) smp.σ / ∑ τ, Complex.normSq (psiOf am ph τ))
      = sampleLossCplx am ph dict smp + Real.log (Zsum am) := by
    intro smp hs
    have hp : bornPsi (usOf dict smp) (psiOf am ph) smp.σ ≠ 0 := by
      unfold bornPsi
      rw [← C03_upsi_is_dense_amplitude am ph dict smp hZ]
      exact (Complex.normSq_pos.mpr (hU smp hs)).ne'
    rw [← C03_Zsum_is_norm, Real.log_div hp (Zsum_pos am).ne', (C03_loss_is_born_complex am ph dict smp hZ).1]
    ring
  unfold nllCplx
  rw [List.map_congr_left key, list_sum_map_add_const]
  field_simp

/-! ### mixed state -/

open scoped ComplexOrder

/-- SPEC (Born rule, mixed state): unnormalised probability of outcome `σ` in the basis with per-site unitaries `us`:
the real part of the diagonal entry of `K ρ Kᴴ`, `K` the DENSE tensor-product operator of C04. -/
noncomputable def bornRho (us : Fin n → M2 ℝ) (ρ : Matrix (Fin n → Bool) (Fin n → Bool) ℂ) (σ : Fin n → Bool) : ℝ :=
  ((denseK us * ρ * (denseK us)ᴴ) σ σ).re

/-- the model's density matrix over bit-strings as a complex matrix (the matrix of `C02_posSemidef`, `C02_hermitian`) -/
theorem rhoMat_eq_of (am ph : PRBM ℝ n h a) :
    C02.rhoMat am ph = Matrix.of fun σ τ => toC (Density.rho am ph (visOf σ) (visOf τ)) := rfl

/-- **C03.4f** `UrhoU` of `DensityMatrix.rotated_gradient` is the model of `rotate_rho_probs` (C04) applied to the
model's `rho` in the sample's basis … -/
theorem C03_urhou_is_rotated_prob (am ph : PRBM ℝ n h a) (dict : Char → M2 ℝ) (smp : Sample n) :
    dmUrhoU am ph dict smp
      = rotateRhoProbs n (usOf dict smp) smp.rot (fun τ τ' => Density.rho am ph (visOf τ) (visOf τ')) smp.σ := by
  unfold dmUrhoU rotateRhoProbs dmCoef
  congr 1; funext k; congr 1; funext l
  by_cases hc : (agreesOff n smp.rot smp.σ (fun j => spaceBit n k.val j)
      && agreesOff n smp.rot smp.σ (fun j => spaceBit n l.val j)) = true
  · simp only [hc, if_true]; rfl
  · simp only [hc, Bool.false_eq_true, if_false]; rfl

/-- … also in the as-coded form (double enumeration of the expanded states, what the C04 driver executes) … -/
theorem C03_urhou_as_coded (am ph : PRBM ℝ n h a) (dict : Char → M2 ℝ) (smp : Sample n) :
    dmUrhoU am ph dict smp
      = rotateRhoProbsE n (usOf dict smp) smp.rot (fun τ τ' => Density.rho am ph (visOf τ) (visOf τ')) smp.σ := by
  rw [rotateRhoProbsE_eq, C03_urhou_is_rotated_prob]

/-- **C03.4g** … hence the Born probability `Re (K ρ Kᴴ)_{σσ}` of the dense Kronecker rotation (`C04_rho_probs_dense`). -/
theorem C03_urhou_is_born (am ph : PRBM ℝ n h a) (dict : Char → M2 ℝ) (smp : Sample n) (hZ : m2c (dict 'Z') = 1) :
    dmUrhoU am ph dict smp = bornRho (usOf dict smp) (C02.rhoMat am ph) smp.σ := by
  rw [C03_urhou_is_rotated_prob, C04_rho_probs_dense (usOf dict smp) smp.rot _ smp.σ (hZ_of_dictZ dict smp hZ)]
  rfl

theorem fastK_no_rot (us : Fin n → M2 ℝ) (rot : Fin n → Bool) (hrot : ∀ j, rot j = false) : fastK us rot = 1 := by
  funext σ τ
  unfold fastK
  simp only [hrot, Bool.false_eq_true, if_false, Matrix.one_apply]
  by_cases hστ : σ = τ
  · subst hστ; simp
  · rw [if_neg hστ]
    obtain ⟨j, hj⟩ := Function.ne_iff.mp hστ
    exact Finset.prod_eq_zero (mem_univ j) (by simp [hj])

theorem allZ_rot {smp : Sample n} (hz : smp.allZ = true) : ∀ j, smp.rot j = false := by
  intro j
  have := List.all_eq_true.mp hz j (List.mem_finRange j)
  simpa using this

/-- **C03.4h (consistency of the piecewise loss)** on a reference-basis row the rotated probability is the diagonal element
`ρ(σ,σ) = exp(−E_λ(σ))`: the fast-path loss `E_λ(σ)` of `sampleLossDM` is `−log UrhoU` (no regulariser), i.e. the same
Born-rule loss as on the rotated rows with `ε = 0`. -/
theorem C03_loss_allZ_density (am ph : PRBM ℝ n h a) (dict : Char → M2 ℝ) (smp : Sample n) (hz : smp.allZ = true) :
    dmUrhoU am ph dict smp = Real.exp (-(am.effEnergy smp.vis))
    ∧ am.effEnergy smp.vis = -Real.log (dmUrhoU am ph dict smp) := by
  have h1 : dmUrhoU am ph dict smp = Real.exp (-(am.effEnergy smp.vis)) := by
    rw [C03_urhou_is_rotated_prob, C04_rho_probs, fastK_no_rot _ _ (allZ_rot hz)]
    simp only [Matrix.conjTranspose_one, Matrix.mul_one, Matrix.one_mul, Matrix.of_apply, toC_re]
    rw [(C02.C02_diagonal am ph _).1]
    rfl
  exact ⟨h1, by rw [h1, Real.log_exp, neg_neg]⟩

/-- **C03.4i** the per-sample loss of `C03_sample_gradient_density` is `−log(Born probability + ε·[row is rotated])`. -/
theorem C03_loss_is_born_density (am ph : PRBM ℝ n h a) (dict : Char → M2 ℝ) (eps : ℝ) (smp : Sample n)
    (hZ : m2c (dict 'Z') = 1) :
    sampleLossDM am ph dict eps smp
      = -Real.log (bornRho (usOf dict smp) (C02.rhoMat am ph) smp.σ + (if smp.allZ then 0 else eps)) := by
  unfold sampleLossDM
  rw [← C03_urhou_is_born am ph dict smp hZ]
  by_cases hz : smp.allZ = true
  · simp only [hz, if_true, add_zero]
    exact (C03_loss_allZ_density am ph dict smp hz).2
  · simp only [hz, Bool.false_eq_true, if_false]

/-- `NZall` (guard of the gradient theorems) is the C02 guard for every pair of basis states -/
theorem NZall_iff (am ph : PRBM ℝ n h a) :
    NZall am ph ↔ ∀ σ τ : Fin n → Bool, C02.NZ am ph (C02.bits σ) (C02.bits τ) := Iff.rfl

/-- **C03.4j** under the auxiliary-trace guard the rotated probability is non-negative in every basis (ρ is positive
semidefinite, `C02_posSemidef`), so with the code's `ε > 0` the regularised probability is strictly positive … -/
theorem C03_urhou_nonneg (am ph : PRBM ℝ n h a) (dict : Char → M2 ℝ) (smp : Sample n) (hz : NZall am ph) :
    0 ≤ dmUrhoU am ph dict smp := by
  rw [C03_urhou_is_rotated_prob, C04_rho_probs]
  have hρ : (C02.rhoMat am ph).PosSemidef := by
    rw [C02.rhoMat_eq_mul_conjTranspose am ph ((NZall_iff am ph).mp hz)]
    exact Matrix.posSemidef_self_mul_conjTranspose _
  exact C04_rho_probs_nonneg (fastK (usOf dict smp) smp.rot) (C02.rhoMat am ph) hρ smp.σ

/-- **C03.3 (mixed state, ε > 0)** … hence `compute_exact_gradients` of the DensityMatrix is the gradient of the
ε-regularised dataset NLL for EVERY dataset and every assignment of bases, under the auxiliary-trace guard alone. -/
theorem C03_exact_gradient_density_eps_pos (ram rph : ℝ → PRBM ℝ n h a) (dam dph : PRBM ℝ n h a) (t : ℝ)
    (ha : PRBM.CurveAt ram dam t) (hp : PRBM.CurveAt rph dph t) (dict : Char → M2 ℝ) (eps : ℝ) (heps : 0 < eps)
    (D : List (Sample n)) (hz : NZall (ram t) (rph t)) :
    HasDerivAt (fun s => nllDM (ram s) (rph s) dict eps D)
      ((exactGradientsDM (ram t) (rph t) dict eps D).1.pair dam
        + (exactGradientsDM (ram t) (rph t) dict eps D).2.pair dph) t :=
  C03_exact_gradient_density ram rph dam dph t ha hp dict eps D hz
    (fun smp _ => (add_pos_of_nonneg_of_pos (C03_urhou_nonneg _ _ dict smp hz) heps).ne')

/-- **C03.4k** `Z_λ` of the mixed state is the trace of `ρ`, which is the total Born probability in every basis whose
per-site matrices are unitary (`C04_rho_probs_sum`, `C02_diagonal`). -/
theorem C03_born_density_normalised (am ph : PRBM ℝ n h a) (us : Fin n → M2 ℝ)
    (hU : ∀ j, (m2c (us j))ᴴ * m2c (us j) = 1) :
    ((C02.rhoMat am ph).trace).re = ZsumDM am
    ∧ ∑ σ, bornRho us (C02.rhoMat am ph) σ = ZsumDM am := by
  have htr : ((C02.rhoMat am ph).trace).re = ZsumDM am := by
    unfold ZsumDM
    rw [show (∑ k : Fin (2 ^ n), Real.exp (-(am.effEnergy (spaceRow n k.val))))
        = ∑ τ : Fin n → Bool, Real.exp (-(am.effEnergy (visOf τ))) from
          sum_rows n (fun τ => Real.exp (-(am.effEnergy (visOf τ)))), Matrix.trace, Complex.re_sum]
    refine Finset.sum_congr rfl (fun σ _ => ?_)
    simp only [Matrix.diag_apply, C02.rhoMat, C02.rhoC]
    rw [(C02.C02_diagonal am ph _).1]
    rfl
  refine ⟨htr, ?_⟩
  have := C04_rho_probs_sum (denseK us) (C02.rhoMat am ph) (C04_dense_unitary us hU)
  rw [← htr, ← this, Complex.re_sum]
  rfl

/-- **C03.4 (mixed state)** the dataset loss differentiated in `C03_exact_gradient_density` IS the negative log-likelihood
under the Born rule up to the library's regularisation: the mean over the dataset of
`−log( (Re (K_{β_s} ρ K_{β_s}ᴴ)_{σ_s σ_s} + ε·[β_s ≠ Z…Z]) / tr ρ )`. -/
theorem C03_nll_is_born_density (am ph : PRBM ℝ n h a) (dict : Char → M2 ℝ) (hZ : m2c (dict 'Z') = 1)
    (eps : ℝ) (heps : 0 < eps) (D : List (Sample n)) (hD : D ≠ []) (hz : NZall am ph) :
    nllDM am ph dict eps D
      = (D.map (fun smp => -Real.log ((bornRho (usOf dict smp) (C02.rhoMat am ph) smp.σ + (if smp.allZ then 0 else eps))
            / ((C02.rhoMat am ph).trace).re))).sum / D.length := by
  have hN : (D.length : ℝ) ≠ 0 := by
    have : D.length ≠ 0 := by simpa using hD
    exact_mod_cast this
  have hid : ∀ j : Fin n, (m2c (dZ : M2 ℝ))ᴴ * m2c dZ = 1 := fun _ => by rw [C04_dZ]; simp
  have htr := (C03_born_density_normalised am ph (fun _ : Fin n => dZ) hid).1
  have key : ∀ smp ∈ D,
      -Real.log ((bornRho (usOf dict smp) (C02.rhoMat am ph) smp.σ + (if smp.allZ then 0 else eps))
            / ((C02.rhoMat am ph).trace).re)
      = sampleLossDM am ph dict eps smp + Real.log (ZsumDM am) := by
    intro smp _
    have hp : bornRho (usOf dict smp) (C02.rhoMat am ph) smp.σ + (if smp.allZ then 0 else eps) ≠ 0 := by
      rw [← C03_urhou_is_born am ph dict smp hZ]
      by_cases hzz : smp.allZ = true
      · simp only [hzz, if_true, add_zero, (C03_loss_allZ_density am ph dict smp hzz).1]
        exact (Real.exp_pos _).ne'
      · simp only [hzz, Bool.false_eq_true, if_false]
        exact (add_pos_of_nonneg_of_pos (C03_urhou_nonneg am ph dict smp hz) heps).ne'
    rw [htr, Real.log_div hp (ZsumDM_pos am).ne', C03_loss_is_born_density am ph dict eps smp hZ]
    ring
  unfold nllDM
  rw [List.map_congr_left key, list_sum_map_add_const]
  field_simp

/-- **C03.5 (mixed)** permutation invariance of the positive phase (any reordering / regrouping of the batch). -/
theorem C03_perm_invariant_density (am ph d : PRBM ℝ n h a) (dict : Char → M2 ℝ) (eps : ℝ) (D D' : List (Sample n))
    (hperm : D.Perm D') :
    (positivePhaseDM am ph dict eps D).1.pair d = (positivePhaseDM am ph dict eps D').1.pair d
    ∧ (positivePhaseDM am ph dict eps D).2.pair d = (positivePhaseDM am ph dict eps D').2.pair d := by
  rw [(C03_batch_is_sum_density am ph d dict eps D).1, (C03_batch_is_sum_density am ph d dict eps D).2,
    (C03_batch_is_sum_density am ph d dict eps D').1, (C03_batch_is_sum_density am ph d dict eps D').2, hperm.length_eq]
  exact ⟨by rw [(hperm.map _).sum_eq], by rw [(hperm.map _).sum_eq]⟩

/-! ### C03-5: layout — the pairing is the dot product of the flattened records in `parameters()` order -/

/-- dot product of two flat vectors (lists) -/
def dotList (l m : List ℝ) : ℝ := (List.zipWith (· * ·) l m).sum

theorem dotList_append (l1 l2 m1 m2 : List ℝ) (hl : l1.length = m1.length) :
    dotList (l1 ++ l2) (m1 ++ m2) = dotList l1 m1 + dotList l2 m2 := by
  unfold dotList
  rw [List.zipWith_append hl, List.sum_append]

theorem dotList_map_finRange (m : ℕ) (f g : Fin m → ℝ) :
    dotList ((List.finRange m).map f) ((List.finRange m).map g) = ∑ j, f j * g j := by
  unfold dotList
  rw [List.zipWith_map, List.zipWith_self, Fin.sum_univ_def]

theorem dotList_rows (r c : ℕ) (x y : Fin r → Fin c → ℝ) :
    dotList ((List.finRange r).flatMap (fun i => (List.finRange c).map (fun j => x i j)))
        ((List.finRange r).flatMap (fun i => (List.finRange c).map (fun j => y i j)))
      = ∑ i, ∑ j, x i j * y i j := by
  induction r with
  | zero => simp [dotList]
  | succ k ih =>
    rw [List.finRange_succ, List.flatMap_cons, List.flatMap_cons, List.flatMap_map, List.flatMap_map,
      dotList_append _ _ _ _ (by simp), dotList_map_finRange, Fin.sum_univ_succ]
    congr 1
    exact ih (fun i j => x i.succ j) (fun i j => y i.succ j)

/-- **C03.4 (layout, BinaryRBM)** the pairing used by all gradient theorems is the dot product of the FLATTENED gradient with
the FLATTENED velocity, both in the order `[W row-major, b, c]` of `parameters()` (the order the harness compares with
`parameters_to_vector`, and the order `vector_to_grads` slices, `C06_lands_on_parameter`); the flat vector has
`h·n + n + h` entries. So entry `k` of the flat gradient multiplies the velocity of flat parameter `k`. -/
theorem C03_layout (g d : RBM ℝ n h) :
    g.pair d = dotList g.flatten d.flatten ∧ g.flatten.length = h * n + n + h := by
  constructor
  · unfold RBM.pair RBM.flatten
    rw [dotList_append _ _ _ _ (by simp), dotList_append _ _ _ _ (by simp),
      dotList_rows, dotList_map_finRange, dotList_map_finRange]
  · simp [RBM.flatten]; ring

/-- **C03.4 (layout, PurificationRBM)** the same in the order `[W, U, b, c, d]`. -/
theorem C03_layout_prbm (g d : PRBM ℝ n h a) :
    g.pair d = dotList g.flatten d.flatten ∧ g.flatten.length = h * n + a * n + n + h + a := by
  constructor
  · unfold PRBM.pair PRBM.flatten
    rw [dotList_append _ _ _ _ (by simp), dotList_append _ _ _ _ (by simp),
      dotList_append _ _ _ _ (by simp), dotList_append _ _ _ _ (by simp),
      dotList_rows, dotList_rows, dotList_map_finRange, dotList_map_finRange, dotList_map_finRange]
  · simp [PRBM.flatten]; ring

/-- **C03.3 (flat form)** `compute_exact_gradients` in the flat `parameters()` layout is the gradient of the NLL with respect
to the flat parameter vector: the derivative along any curve is `⟨flatten G, flatten θ'⟩`. Positive state … -/
theorem C03_exact_gradient_positive_flat (r : ℝ → RBM ℝ n h) (dr : RBM ℝ n h) (t : ℝ) (hr : RBM.CurveAt r dr t)
    {B : ℕ} (hB : 0 < B) (vs : Fin B → Fin n → ℝ) :
    HasDerivAt (fun s => nllPos (r s) vs) (dotList (exactGradientsPos (r t) vs).flatten dr.flatten) t := by
  rw [← (C03_layout _ _).1]
  exact C03_exact_gradient_positive r dr t hr hB vs

/-- … complex state (two networks, `[amplitude, phase]`) … -/
theorem C03_exact_gradient_complex_flat (ram rph : ℝ → RBM ℝ n h) (dam dph : RBM ℝ n h) (t : ℝ)
    (ha : RBM.CurveAt ram dam t) (hp : RBM.CurveAt rph dph t) (dict : Char → M2 ℝ) (D : List (Sample n))
    (hU : ∀ smp ∈ D, toC (cplxUpsi (ram t) (rph t) dict smp) ≠ 0) :
    HasDerivAt (fun s => nllCplx (ram s) (rph s) dict D)
      (dotList (exactGradientsCplx (ram t) (rph t) dict D).1.flatten dam.flatten
        + dotList (exactGradientsCplx (ram t) (rph t) dict D).2.flatten dph.flatten) t := by
  rw [← (C03_layout _ _).1, ← (C03_layout _ _).1]
  exact C03_exact_gradient_complex ram rph dam dph t ha hp dict D hU

/-- … mixed state. -/
theorem C03_exact_gradient_density_flat (ram rph : ℝ → PRBM ℝ n h a) (dam dph : PRBM ℝ n h a) (t : ℝ)
    (ha : PRBM.CurveAt ram dam t) (hp : PRBM.CurveAt rph dph t) (dict : Char → M2 ℝ) (eps : ℝ) (heps : 0 < eps)
    (D : List (Sample n)) (hz : NZall (ram t) (rph t)) :
    HasDerivAt (fun s => nllDM (ram s) (rph s) dict eps D)
      (dotList (exactGradientsDM (ram t) (rph t) dict eps D).1.flatten dam.flatten
        + dotList (exactGradientsDM (ram t) (rph t) dict eps D).2.flatten dph.flatten) t := by
  rw [← (C03_layout_prbm _ _).1, ← (C03_layout_prbm _ _).1]
  exact C03_exact_gradient_density_eps_pos ram rph dam dph t ha hp dict eps heps D hz

/-! ### C03-5: a single sample (the 1-D call form unsqueezes to a batch of one) -/

/-- **C03.6** `gradient` of a batch of ONE row (what the 1-D call form computes after `unsqueeze(0)`) is the per-sample
gradient, and so is its positive phase (`/ 1`), for the complex and the mixed state (pairing form). -/
theorem C03_single_sample (am ph d : RBM ℝ n h) (dict : Char → M2 ℝ) (s : Sample n) :
    (gradientCplx am ph dict [s]).1.pair d = (cplxGrad1 am ph dict s).1.pair d
    ∧ (gradientCplx am ph dict [s]).2.pair d = (cplxGrad1 am ph dict s).2.pair d
    ∧ (positivePhaseCplx am ph dict [s]).1.pair d = (cplxGrad1 am ph dict s).1.pair d
    ∧ (positivePhaseCplx am ph dict [s]).2.pair d = (cplxGrad1 am ph dict s).2.pair d := by
  have h1 := pair_gradientCplx am ph d dict [s]
  have h2 := C03_batch_is_sum_complex am ph d dict [s]
  simp only [List.map_cons, List.map_nil, List.sum_cons, List.sum_nil, add_zero, List.length_singleton, Nat.cast_one,
    div_one] at h1 h2
  exact ⟨h1.1, h1.2, h2.1, h2.2⟩

theorem C03_single_sample_density (am ph d : PRBM ℝ n h a) (dict : Char → M2 ℝ) (eps : ℝ) (s : Sample n) :
    (gradientDM am ph dict eps [s]).1.pair d = (dmGrad1 am ph dict eps s).1.pair d
    ∧ (gradientDM am ph dict eps [s]).2.pair d = (dmGrad1 am ph dict eps s).2.pair d
    ∧ (positivePhaseDM am ph dict eps [s]).1.pair d = (dmGrad1 am ph dict eps s).1.pair d
    ∧ (positivePhaseDM am ph dict eps [s]).2.pair d = (dmGrad1 am ph dict eps s).2.pair d := by
  have h1 := pair_gradientDM am ph d dict eps [s]
  have h2 := C03_batch_is_sum_density am ph d dict eps [s]
  simp only [List.map_cons, List.map_nil, List.sum_cons, List.sum_nil, add_zero, List.length_singleton, Nat.cast_one,
    div_one] at h1 h2
  exact ⟨h1.1, h1.2, h2.1, h2.2⟩

theorem cplxGrad1_allZ (am ph : RBM ℝ n h) (dict : Char → M2 ℝ) (s : Sample n) (hz : s.allZ = true) :
    cplxGrad1 am ph dict s = (am.effEnergyGrad1 s.vis, RBM.zero) := by
  simp [cplxGrad1, hz]

theorem dmGrad1_allZ (am ph : PRBM ℝ n h a) (dict : Char → M2 ℝ) (eps : ℝ) (s : Sample n) (hz : s.allZ = true) :
    dmGrad1 am ph dict eps s = (am.effEnergyGrad1 s.vis, PRBM.zero) := by
  simp [dmGrad1, hz]

/-- **C03.7** `gradient(samples, bases=None)` — computed by the code as `[effective_energy_gradient(samples), zeros]`, the model
`gradientPos` of the amplitude network — is what the grouped per-basis accumulation `gradient(samples, bases)` returns
when every row is a reference-basis row (whatever the strings look like, as long as every letter is `Z`): the amplitude
part is the batch energy gradient (no row lost or double-counted by the grouping), the phase part is zero. -/
theorem C03_bases_none (am ph d : RBM ℝ n h) (dict : Char → M2 ℝ) {B : ℕ} (σs : Fin B → Fin n → Bool)
    (bs : Fin B → List Char) (hz : ∀ b, (⟨σs b, bs b⟩ : Sample n).allZ = true) :
    (gradientCplx am ph dict ((List.finRange B).map (fun b => (⟨σs b, bs b⟩ : Sample n)))).1.pair d
        = (gradientPos am (fun b => visOf (σs b))).pair d
    ∧ (gradientCplx am ph dict ((List.finRange B).map (fun b => (⟨σs b, bs b⟩ : Sample n)))).2.pair d = 0 := by
  have h := pair_gradientCplx am ph d dict ((List.finRange B).map (fun b => (⟨σs b, bs b⟩ : Sample n)))
  rw [h.1, h.2, List.map_map, List.map_map]
  constructor
  · rw [gradientPos, RBM.pair_effEnergyGrad, Fin.sum_univ_def]
    congr 1
    refine List.map_congr_left (fun b _ => ?_)
    simp only [Function.comp, cplxGrad1_allZ am ph dict _ (hz b)]
    rfl
  · rw [← Fin.sum_univ_def]
    refine Finset.sum_eq_zero (fun b _ => ?_)
    simp only [Function.comp, cplxGrad1_allZ am ph dict _ (hz b), RBM.pair_zero]

theorem C03_bases_none_density (am ph d : PRBM ℝ n h a) (dict : Char → M2 ℝ) (eps : ℝ) {B : ℕ} (σs : Fin B → Fin n → Bool)
    (bs : Fin B → List Char) (hz : ∀ b, (⟨σs b, bs b⟩ : Sample n).allZ = true) :
    (gradientDM am ph dict eps ((List.finRange B).map (fun b => (⟨σs b, bs b⟩ : Sample n)))).1.pair d
        = (am.effEnergyGrad (fun b => visOf (σs b))).pair d
    ∧ (gradientDM am ph dict eps ((List.finRange B).map (fun b => (⟨σs b, bs b⟩ : Sample n)))).2.pair d = 0 := by
  have h := pair_gradientDM am ph d dict eps ((List.finRange B).map (fun b => (⟨σs b, bs b⟩ : Sample n)))
  rw [h.1, h.2, List.map_map, List.map_map]
  constructor
  · rw [PRBM.pair_effEnergyGrad, Fin.sum_univ_def]
    congr 1
    refine List.map_congr_left (fun b _ => ?_)
    simp only [Function.comp, dmGrad1_allZ am ph dict eps _ (hz b)]
    rfl
  · rw [← Fin.sum_univ_def]
    refine Finset.sum_eq_zero (fun b _ => ?_)
    simp only [Function.comp, dmGrad1_allZ am ph dict eps _ (hz b), PRBM.pair_zero]

/-! ### C03-3: the `expand=False` (default) branch of `pi_grad` -/

theorem mixingTerm_add_eq (am : PRBM ℝ n h a) (v vp : Fin n → ℝ) (k : Fin a) :
    am.mixingTerm (fun j => v j + vp j) k = Density.piArgRe am v vp k := by
  simp only [PRBM.mixingTerm, Density.piArgRe, PRBM.preactA, sumFin_eq, two_eq]
  have : ∑ j, (v j + vp j) * (1 / 2 * am.U k j) = (∑ j, v j * am.U k j + ∑ j, vp j * am.U k j) / 2 := by
    rw [← Finset.sum_add_distrib, Finset.sum_div]
    exact Finset.sum_congr rfl (fun j _ => by ring)
  rw [this]; ring

theorem mixingTerm_sub_eq (ph : PRBM ℝ n h a) (v vp : Fin n → ℝ) (k : Fin a) :
    ph.mixingTerm (fun j => v j - vp j) k = Density.piArgIm ph v vp k + ph.d k := by
  simp only [PRBM.mixingTerm, Density.piArgIm, sumFin_eq, two_eq]
  have : ∑ j, (v j - vp j) * (1 / 2 * ph.U k j) = (∑ j, v j * ph.U k j - ∑ j, vp j * ph.U k j) / 2 := by
    rw [← Finset.sum_sub_distrib, Finset.sum_div]
    exact Finset.sum_congr rfl (fun j _ => by ring)
  rw [this]

/-- **C03.8 (scope of `pi_grad`)** the `expand=False` branch of `pi_grad` (never used by training) evaluates the complex
sigmoid at `y_k + d_μ,k` instead of `y_k`; it therefore coincides with the `expand=True` branch — the one `am_grads` /
`ph_grads` use and whose output is proved to be the gradient of `ρ` (`hasDerivAt_toC_rho`) — exactly when … the phase
network's auxiliary bias vanishes, which training maintains (`C20`: the phase aux bias receives a zero gradient). -/
theorem C03_pi_grad_branches_agree (am ph : PRBM ℝ n h a) (phase : Bool) (v vp : Fin n → ℝ) (hd : ∀ k, ph.d k = 0) :
    piGradNoExpand am ph phase v vp = piGrad am ph phase v vp := by
  unfold piGradNoExpand piGrad
  simp only [mixingTerm_add_eq, mixingTerm_sub_eq, hd, add_zero]

/-- … and differs otherwise: one auxiliary unit, all weights 0, `d_μ = π/2`: the imaginary part of the aux-bias entry is
`1/2` on the default branch and `0` on the `expand=True` branch (and `pi`, `rho` do not depend on `d_μ` at all,
`C02_rho_indep_phase_aux_bias`, so the default branch is NOT the gradient of `pi` there). -/
theorem C03_pi_grad_branches_differ :
    let am : PRBM ℝ 1 1 1 := ⟨fun _ _ => 0, fun _ _ => 0, fun _ => 0, fun _ => 0, fun _ => 0⟩
    let ph : PRBM ℝ 1 1 1 := ⟨fun _ _ => 0, fun _ _ => 0, fun _ => 0, fun _ => 0, fun _ => Real.pi / 2⟩
    (piGradNoExpand am ph false (fun _ => 0) (fun _ => 0)).2.d 0 = 1 / 2
    ∧ (piGrad am ph false (fun _ => 0) (fun _ => 0)).2.d 0 = 0 := by
  intro am ph
  constructor
  · simp only [piGradNoExpand, Bool.false_eq_true, if_false, mixingTerm_add_eq, mixingTerm_sub_eq]
    simp [am, ph, C.csigmoidH_eq, csigmoid, Density.piArgRe, Density.piArgIm, PRBM.preactA, sumFin_eq, C.div, C.mul, C.conj, C.add,
      C.one, C.normSq]
    norm_num
  · simp [piGrad, am, ph, C.csigmoidH_eq, csigmoid, Density.piArgRe, Density.piArgIm, PRBM.preactA, sumFin_eq, C.div, C.mul, C.conj,
      C.add, C.one, C.normSq]

/-! ### Extension round (package X2): the complex arithmetic of the gradient model is the kernel AS CODED AT /repo HEAD

`cplxRotComp` calls `C.invH` (`cplx.inverse` after fix F17: operand scaled by its larger component) and `piGrad` /
`piGradNoExpand` call `C.csigmoidH` (`cplx.sigmoid` after F17: `1/(1+e^{-z})` in the right half plane, `e^z/(1+e^z)` in the
left one) — the SAME scalar functions the C15 tensor model applies entrywise (`C15_inverse_entry`, `C15_sigmoid_entry`).
All derivative theorems above are therefore statements about the formulas the code executes; they go through the equalities
`C15_invH_eq` (guard `Upsi ≠ 0`, which the theorems carry anyway) and `C15_csigmoidH_eq` (unconditional).  The two theorems
below state what that means for the gradient components. -/

/-- **C03.9a (rotated gradient of the complex state, HEAD's inverse)**: wherever the rotated amplitude `Upsi` is non-zero, the
component the model computes with the scaled inverse is the textbook `Re[Upsi⁻¹ · Σ_τ Upsi_v[τ] · g'(τ)]` — first as the
pair formula with `C.inv = conj z / |z|²` (the code before F17), then in ℂ. -/
theorem C03_rot_comp_textbook (am ph : RBM ℝ n h) (dict : Char → M2 ℝ) (smp : Sample n) (isPhase : Bool)
    (g : (Fin n → Bool) → ℝ) (hU : toC (cplxUpsi am ph dict smp) ≠ 0) :
    cplxRotComp am ph dict smp isPhase g
      = (C.mul (C.inv (cplxUpsi am ph dict smp)) (C.sum (2 ^ n) (fun k =>
          C.mul (cplxCoef am ph dict smp (rowBits n k.val))
            (if isPhase then (0, g (rowBits n k.val)) else (g (rowBits n k.val), 0))))).1
    ∧ cplxRotComp am ph dict smp isPhase g
      = ((toC (cplxUpsi am ph dict smp))⁻¹ * ∑ k : Fin (2 ^ n), toC (cplxCoef am ph dict smp (rowBits n k.val))
          * (if isPhase then (g (rowBits n k.val) : ℂ) * Complex.I else (g (rowBits n k.val) : ℂ))).re := by
  have h1 : cplxRotComp am ph dict smp isPhase g
      = (C.mul (C.inv (cplxUpsi am ph dict smp)) (C.sum (2 ^ n) (fun k =>
          C.mul (cplxCoef am ph dict smp (rowBits n k.val))
            (if isPhase then (0, g (rowBits n k.val)) else (g (rowBits n k.val), 0))))).1 := by
    unfold cplxRotComp
    rw [C.invH_eq _ ((C.ne_zero_iff _).2 hU)]
    rfl
  refine ⟨h1, ?_⟩
  rw [h1, ← toC_re, toC_mul, toC_inv _ hU, toC_sum]
  refine congrArg Complex.re (congrArg _ (Finset.sum_congr rfl (fun k _ => ?_)))
  have e1 : ∀ x : ℝ, toC (x, 0) = (x : ℂ) := fun x => by apply Complex.ext <;> simp
  have e2 : ∀ x : ℝ, toC (0, x) = (x : ℂ) * Complex.I := fun x => by apply Complex.ext <;> simp
  rw [toC_mul]
  cases isPhase
  · simp only [Bool.false_eq_true, if_false, e1]
  · simp only [if_true, e2]

/-- **C03.9b (`pi_grad`, HEAD's sigmoid)**: the complex sigmoid inside `pi_grad` — computed in the overflow-free branch form —
is the textbook `e^z/(1+e^z)` pair formula for EVERY argument: the aux-bias entry of `pi_grad(phase=False)` is that number,
the `U` entries are `½ · s'_k · (v_j ± v'_j)` with `s' = s` resp. `s · i`; under the guard of the mixed-state theorems
(`1 + e^{z_k} ≠ 0`) it decodes to the complex logistic function of `z_k`. -/
theorem C03_pi_grad_sigmoid (am ph : PRBM ℝ n h a) (v vp : Fin n → ℝ) (k : Fin a) :
    ((piGrad am ph false v vp).1.d k, (piGrad am ph false v vp).2.d k)
        = csigmoid (Density.piArgRe am v vp k) (Density.piArgIm ph v vp k)
    ∧ (∀ (phase : Bool) (j : Fin n),
        ((piGrad am ph phase v vp).1.U k j, (piGrad am ph phase v vp).2.U k j)
          = C.smul (1 / 2 * (if phase then v j - vp j else v j + vp j))
              (if phase then C.mul (csigmoid (Density.piArgRe am v vp k) (Density.piArgIm ph v vp k)) C.I
               else csigmoid (Density.piArgRe am v vp k) (Density.piArgIm ph v vp k)))
    ∧ ((1 : ℂ) + Complex.exp (zArg am ph v vp k) ≠ 0 →
        toC ((piGrad am ph false v vp).1.d k, (piGrad am ph false v vp).2.d k) = sigC (zArg am ph v vp k)) := by
  have h1 : ((piGrad am ph false v vp).1.d k, (piGrad am ph false v vp).2.d k)
        = csigmoid (Density.piArgRe am v vp k) (Density.piArgIm ph v vp k) := by
    simp only [piGrad, C.csigmoidH_eq, Bool.false_eq_true, if_false]
  refine ⟨h1, fun phase j => ?_, fun hz => ?_⟩
  · cases phase
    · simp only [piGrad, C.csigmoidH_eq, C.smul, two_eq, Bool.false_eq_true, if_false]
      apply Prod.ext <;> simp only <;> ring
    · simp only [piGrad, C.csigmoidH_eq, C.smul, two_eq, if_true]
      apply Prod.ext <;> simp only <;> ring
  · rw [h1]; exact toC_csigmoid _ _ hz

/-- the guard of `C03_rot_comp_textbook` (and of the complex-state theorems) is met by every reference-basis sample of every
network (`Upsi = ψ(σ) = e^{…} ≠ 0`), all sizes and parameters -/
example (am ph : RBM ℝ n h) (dict : Char → M2 ℝ) (smp : Sample n) (hz : smp.allZ = true) :
    toC (cplxUpsi am ph dict smp) ≠ 0 := by
  rw [cplxUpsi_allZ _ _ _ _ hz, toC_psiCplx]; exact Complex.exp_ne_zero _

/-- … and the scalar equality it rests on, at a concrete non-zero number -/
example : ((3, -4) : C ℝ) ≠ (0, 0) ∧ C.invH ((3, -4) : C ℝ) = C.inv (3, -4) := by
  have h : ((3, -4) : C ℝ) ≠ (0, 0) := by intro h; have := congrArg Prod.fst h; norm_num at this
  exact ⟨h, C.invH_eq _ h⟩

/-! ### non-vacuity of the hypotheses used above -/

/-- the default dictionary `create_dict()` as a function on letters -/
noncomputable def defaultDict : Char → M2 ℝ := fun c => if c = 'X' then dX else if c = 'Y' then dY else dZ

/-- the default dictionary satisfies both hypotheses of the Born-rule theorems for EVERY sample: `Z ↦ 1` and every per-site
matrix of every basis string is unitary (`C04_dX_unitary`, `C04_dY_unitary`, `C04_dZ`). -/
theorem C03_default_dictionary_ok :
    m2c (defaultDict 'Z') = 1
    ∧ ∀ (smp : Sample n) (j : Fin n), (m2c (usOf defaultDict smp j))ᴴ * m2c (usOf defaultDict smp j) = 1 := by
  refine ⟨by simp [defaultDict, C04_dZ], fun smp j => ?_⟩
  unfold usOf defaultDict
  split_ifs
  · exact C04_dX_unitary
  · exact C04_dY_unitary
  · rw [C04_dZ]; simp

/-- the guard `NZall` holds e.g. whenever the phase network's auxiliary couplings are small (`C02_NZ_of_phase_weights_small`),
in particular at `U_μ = 0`, for arbitrary other parameters -/
example (am ph : PRBM ℝ n h a) (hU : ∀ k, ∑ j, |ph.U k j| < 2 * Real.pi) : NZall am ph :=
  (NZall_iff am ph).mpr (C02.C02_NZ_of_phase_weights_small am ph hU)

/-! ## Extension round 2 (code inside the model): call forms of `bases`, zero rotated amplitude, batch layout -/

/-- **C03.8a (call forms of `bases`, batch)** `gradient(samples, bases)` with the arguments as the caller passes them
(`gradientArgs`, neural_state.py:339-356; `core` is the grouped accumulation `gradientCplx am ph dict` /
`gradientDM am ph dict eps` that `C03_exact_gradient_*` are about, `noBases` the `bases is None` branch): for a non-empty
batch with one basis string per sample, all of one length `L ≤ n` (the code treats missing trailing sites as `Z`) and made of
`Z` and dictionary letters, the documented `list[str]` / tuple / 1-D `ndarray` form (fix F22) and the 2-D array of letters
are ACCEPTED and return the core value on the same per-sample (outcome, basis) pairs — so every theorem about
`gradientCplx` / `gradientDM` applies to every form. A model that mis-expanded a form (e.g. read the list of strings
as ONE row of letters, or dropped/duplicated a row) would fail this. -/
theorem C03_bases_forms_agree {γ : Type} (keys : List Char) (noBases : List (Fin n → Bool) → γ)
    (core : List (Sample n) → γ) (σs : List (Fin n → Bool)) (bs : List (List Char)) (hne : σs ≠ [])
    (hlen : bs.length = σs.length) (L : ℕ) (hLn : L ≤ n) (hL : ∀ b ∈ bs, b.length = L)
    (hkeys : ∀ b ∈ bs, ∀ c ∈ b, c = 'Z' ∨ c ∈ keys) :
    gradientArgs keys noBases core (.batch σs) (.seq1 bs) = .ok (core (List.zipWith Sample.mk σs bs))
    ∧ gradientArgs keys noBases core (.batch σs) (.seq2 (bs.map lettersOf))
        = .ok (core (List.zipWith Sample.mk σs bs)) := by
  have hbs : bs ≠ [] := by
    intro h0; rw [h0] at hlen; exact hne (List.length_eq_zero_iff.mp hlen.symm)
  obtain ⟨b0, bt, rfl⟩ := List.exists_cons_of_ne_nil hbs
  have hrect : rect ((b0 :: bt).map lettersOf) = .ok ((b0 :: bt).map lettersOf) :=
    rect_ok_of_lengths _ L (by
      intro r hr
      obtain ⟨b, hb, rfl⟩ := List.mem_map.1 hr
      rw [length_lettersOf]; exact hL b hb)
  have hall : ((b0 :: bt).map lettersOf).all (rowOk keys n) = true := by
    rw [List.all_eq_true]
    intro r hr
    obtain ⟨b, hb, rfl⟩ := List.mem_map.1 hr
    exact rowOk_lettersOf keys b n (by rw [hL b hb]; exact hLn) (hkeys b hb)
  have hlen' : ((b0 :: bt).map lettersOf).length = σs.length := by rw [List.length_map]; exact hlen
  have key : normBases (.seq1 (b0 :: bt)) false σs.length n keys = .ok ((b0 :: bt).map lettersOf) := by
    simp only [normBases, toArray, Bool.false_eq_true, if_false, hrect, hlen', ne_eq, not_true_eq_false, hall, if_true]
  have key2 : normBases (.seq2 ((b0 :: bt).map lettersOf)) false σs.length n keys = .ok ((b0 :: bt).map lettersOf) := by
    have hr2 := hrect
    rw [List.map_cons] at hr2 hlen' hall ⊢
    simp only [normBases, toArray, Bool.false_eq_true, if_false, hr2, hlen', ne_eq, not_true_eq_false, hall, if_true]
  constructor
  · simp only [gradientArgs, SamplesArg.isOne, SamplesArg.rows, key, zipWith_toSample_lettersOf]
  · rw [List.map_cons] at key2 ⊢
    simp only [gradientArgs, SamplesArg.isOne, SamplesArg.rows, key2]
    rw [← List.map_cons, zipWith_toSample_lettersOf]

/-- **C03.8b (call forms, 1-D single sample)** the 1-D call form named in the quantifier: the basis as a Python `str`, as a
list / 1-D char array of letters, as a one-row 2-D array — and the batch of one with `[str]` — all return the core value on
the single pair `(σ, b)` (`C03_single_sample*` then give the per-sample gradient). -/
theorem C03_bases_forms_agree_1d {γ : Type} (keys : List Char) (noBases : List (Fin n → Bool) → γ)
    (core : List (Sample n) → γ) (σ : Fin n → Bool) (b : List Char) (hL : b.length ≤ n)
    (hkeys : ∀ c ∈ b, c = 'Z' ∨ c ∈ keys) :
    gradientArgs keys noBases core (.one σ) (.str b) = .ok (core [⟨σ, b⟩])
    ∧ gradientArgs keys noBases core (.one σ) (.seq1 (lettersOf b)) = .ok (core [⟨σ, b⟩])
    ∧ gradientArgs keys noBases core (.one σ) (.seq2 [lettersOf b]) = .ok (core [⟨σ, b⟩])
    ∧ gradientArgs keys noBases core (.batch [σ]) (.seq1 [b]) = .ok (core [⟨σ, b⟩]) := by
  have hrow := rowOk_lettersOf keys b n hL hkeys
  have hts := toSample_lettersOf σ b
  refine ⟨?_, ?_, ?_, ?_⟩
  · simp [gradientArgs, normBases, toArray, SamplesArg.isOne, SamplesArg.rows, hrow, hts]
  · simp [gradientArgs, normBases, toArray, SamplesArg.isOne, SamplesArg.rows, hrow, hts]
  · simp [gradientArgs, normBases, toArray, rect, SamplesArg.isOne, SamplesArg.rows, hrow, hts]
  · simp [gradientArgs, normBases, toArray, rect, SamplesArg.isOne, SamplesArg.rows, hrow, hts]

/-- **C03.8c (refusals)** what `gradient` refuses, as coded: a single `str` for a 2-D batch (0-d array), an empty `bases`,
a number of basis rows different from the number of samples (either container form), strings / rows of different
lengths; and whatever it ACCEPTS has one row per sample whose entries are `"Z"` or one-letter dictionary keys. -/
theorem C03_bases_forms_refused (keys : List Char) (nS nSites : ℕ) :
    (∀ s, ∃ e, normBases (.str s) false nS nSites keys = .error e)
    ∧ (∃ e, normBases (.seq1 []) false nS nSites keys = .error e)
    ∧ (∃ e, normBases (.seq2 []) false nS nSites keys = .error e)
    ∧ (∀ l : List Letter, l.length ≠ nS → ∃ e, normBases (.seq1 l) false nS nSites keys = .error e)
    ∧ (∀ l : List (List Letter), l.length ≠ nS → ∃ e, normBases (.seq2 l) false nS nSites keys = .error e)
    ∧ (∀ (r : List Letter) (rs : List (List Letter)) (x : List Letter), x ∈ rs → x.length ≠ r.length →
        ∃ e, normBases (.seq2 (r :: rs)) false nS nSites keys = .error e)
    ∧ (∀ b oneD arr, normBases b oneD nS nSites keys = .ok arr →
        arr.length = nS ∧ ∀ row ∈ arr, ∀ e ∈ row, e = ['Z'] ∨ ∃ c ∈ keys, e = [c]) := by
  refine ⟨fun s => ⟨.ValueError, by simp [normBases, toArray]⟩, ⟨.ValueError, by simp [normBases, toArray]⟩,
    ⟨.ValueError, by simp [normBases, toArray]⟩, ?_, ?_, ?_, ?_⟩
  · intro l hl
    cases l with
    | nil => exact ⟨.ValueError, by simp [normBases, toArray]⟩
    | cons s l =>
      cases hr : rect ((s :: l).map lettersOf) with
      | error e => exact ⟨e, by simp only [normBases, toArray, Bool.false_eq_true, if_false, hr]⟩
      | ok out =>
        have := rect_ok_inv _ _ hr
        have hlen : out.length ≠ nS := by rw [this, List.length_map]; exact hl
        exact ⟨.IndexError, by simp only [normBases, toArray, Bool.false_eq_true, if_false, hr, ne_eq, hlen, not_false_eq_true, if_true]⟩
  · intro l hl
    cases l with
    | nil => exact ⟨.ValueError, by simp [normBases, toArray]⟩
    | cons s l =>
      cases hr : rect (s :: l) with
      | error e => exact ⟨e, by simp only [normBases, toArray, Bool.false_eq_true, if_false, hr]⟩
      | ok out =>
        have := rect_ok_inv _ _ hr
        have hlen : out.length ≠ nS := by rw [this]; exact hl
        exact ⟨.IndexError, by simp only [normBases, toArray, Bool.false_eq_true, if_false, hr, ne_eq, hlen, not_false_eq_true, if_true]⟩
  · intro r rs x hx hne
    exact ⟨.ValueError, by simp only [normBases, toArray, Bool.false_eq_true, if_false, rect_error_of_ragged r rs x hx hne]⟩
  · intro b oneD arr hok
    cases b with
    | none =>
      simp only [normBases, Except.ok.injEq] at hok
      subst hok
      refine ⟨by simp, fun row hrow e he => Or.inl ?_⟩
      rw [List.eq_of_mem_replicate hrow] at he
      exact List.eq_of_mem_replicate he
    | str s | seq1 l | seq2 l =>
      simp only [normBases] at hok
      split at hok
      · cases hok
      · rename_i arr' _
        split at hok
        · cases hok
        · rename_i hlen
          split at hok
          · rename_i hall
            cases hok
            refine ⟨by simpa using hlen, fun row hrow => ?_⟩
            exact rowOk_entries keys nSites row (List.all_eq_true.mp hall row hrow)
          · cases hok

/-- satisfiable, non-trivially: two samples on two sites, `list[str]` bases `["XZ", "ZY"]` with the default letters -/
example : ([[false, true], [true, true]].map (fun l => fun (j : Fin 2) => l.getD j.val false)) ≠ []
    ∧ (["XZ".toList, "ZY".toList] : List (List Char)).length = 2
    ∧ (∀ b ∈ (["XZ".toList, "ZY".toList] : List (List Char)), b.length = 2)
    ∧ (∀ b ∈ (["XZ".toList, "ZY".toList] : List (List Char)), ∀ c ∈ b, c = 'Z' ∨ c ∈ ['X', 'Y', 'Z']) := by
  refine ⟨by simp, by simp, by decide, by decide⟩

/-- **C03.9 (zero rotated amplitude, coverage-map item 9)** `ComplexWaveFunction.rotated_gradient` divides by the rotated
amplitude `Upsi` with no regulariser (`cplx.inverse(Upsi)`); `C03_sample_gradient_complex` carries `Upsi ≠ 0`. That guard
excludes EXACTLY the samples on which the loss itself is undefined: `Upsi = 0` iff the Born probability of the sample's
outcome in its own basis (dense Kronecker rotation, C04) is zero iff its negative log-likelihood term, computed in the
extended reals, is `+∞`. The left side is reachable (`C03_zero_amplitude_reachable`). What the code returns at such a point
(`nan`: `0/0`, as does the Float model; counted by the harness probe `zero-amplitude`) is NOT part of this statement; the value
the real-number model takes there is the separate `C03_zero_amplitude_real_model_artifact`. -/
theorem C03_zero_amplitude_iff_infinite_nll (am ph : RBM ℝ n h) (dict : Char → M2 ℝ) (smp : Sample n)
    (hZ : m2c (dict 'Z') = 1) :
    (toC (cplxUpsi am ph dict smp) = 0 ↔ bornPsi (usOf dict smp) (psiOf am ph) smp.σ = 0)
    ∧ (bornPsi (usOf dict smp) (psiOf am ph) smp.σ = 0
        ↔ -(ENNReal.log (ENNReal.ofReal (bornPsi (usOf dict smp) (psiOf am ph) smp.σ))) = (⊤ : EReal)) := by
  refine ⟨?_, ?_⟩
  · unfold bornPsi
    rw [← C03_upsi_is_dense_amplitude am ph dict smp hZ, Complex.normSq_eq_zero]
  · rw [EReal.neg_eq_top_iff, ENNReal.log_eq_bot_iff, ENNReal.ofReal_eq_zero]
    have h0 : 0 ≤ bornPsi (usOf dict smp) (psiOf am ph) smp.σ := Complex.normSq_nonneg _
    constructor
    · intro h; rw [h]
    · intro h; exact le_antisymm h h0

/-- **ARTEFACT of totalised division — NOT a statement about the code.** At `Upsi = 0` the REAL-number model gives `0` for every
component of the rotated gradient, only because `x / 0 = 0` in Lean's ℝ (`C.invH (0, 0) = (0, 0)`). The code (and the Float
model the driver runs) computes `0/0 = nan` there: no finite gradient exists at such a point and none is claimed. Recorded so
that nobody reads the real-model value as a prediction; used by no other theorem. -/
theorem C03_zero_amplitude_real_model_artifact (am ph : RBM ℝ n h) (dict : Char → M2 ℝ) (smp : Sample n)
    (hU : toC (cplxUpsi am ph dict smp) = 0) (isPhase : Bool) (g : (Fin n → Bool) → ℝ) :
    cplxRotComp am ph dict smp isPhase g = 0 := by
  have hU0 : cplxUpsi am ph dict smp = (0, 0) := by
    by_contra hne
    exact ((C.ne_zero_iff _).1 hne) hU
  unfold cplxRotComp
  rw [hU0, C.invH_zero]
  simp [C.inv, C.mul, C.conj, C.normSq]

/-- the all-zero network (`n` visible, `h` hidden units) -/
def zeroRBM (n h : ℕ) : RBM ℝ n h := ⟨fun _ _ => 0, fun _ => 0, fun _ => 0⟩

/-- with all parameters zero `ψ` is the same number at every basis state (one visible unit) -/
theorem psiCplx_zero_const (h : ℕ) (v w : Fin 1 → ℝ) :
    Wave.psiCplx (zeroRBM 1 h) (zeroRBM 1 h) v = Wave.psiCplx (zeroRBM 1 h) (zeroRBM 1 h) w := by
  simp [Wave.psiCplx, Wave.amplitude, Wave.phase, RBM.effEnergy, RBM.preact, zeroRBM, dot, sumFin, Fin.foldl_succ]

/-- **a reachable zero rotated amplitude** (so the left side of `C03_zero_amplitude_iff_infinite_nll` is not vacuous): one
visible unit, any number of hidden units, ALL parameters of both networks zero (`ψ(0) = ψ(1)`), default dictionary, the sample
"outcome 1 measured in basis X": `Upsi = (ψ(0) − ψ(1)) / √2 = 0`. Hence its Born probability is `0` and its NLL term `+∞`
— the data point `("1", "X")` at the uniform state `|+⟩`, where `rotated_gradient` divides `0` by `0`. -/
theorem C03_zero_amplitude_reachable (h : ℕ) :
    cplxUpsi (zeroRBM 1 h) (zeroRBM 1 h) defaultDict ⟨fun _ => true, ['X']⟩ = (0, 0)
    ∧ toC (cplxUpsi (zeroRBM 1 h) (zeroRBM 1 h) defaultDict ⟨fun _ => true, ['X']⟩) = 0
    ∧ bornPsi (usOf defaultDict (⟨fun _ => true, ['X']⟩ : Sample 1)) (psiOf (zeroRBM 1 h) (zeroRBM 1 h)) (fun _ => true) = 0
    ∧ -(ENNReal.log (ENNReal.ofReal
          (bornPsi (usOf defaultDict (⟨fun _ => true, ['X']⟩ : Sample 1)) (psiOf (zeroRBM 1 h) (zeroRBM 1 h)) (fun _ => true))))
        = (⊤ : EReal) := by
  have h0 : cplxUpsi (zeroRBM 1 h) (zeroRBM 1 h) defaultDict ⟨fun _ => true, ['X']⟩ = (0, 0) := by
    have hp := psiCplx_zero_const h (visOf (fun _ : Fin 1 => false)) (visOf (fun _ : Fin 1 => true))
    simp only [cplxUpsi, C.sum, Nat.pow_one]
    simp [Fin.foldl_succ, cplxCoef, Unitaries.agreesOff, Unitaries.rotCoeff, C.prod, Sample.rot, Sample.letter, defaultDict,
      List.finRange, C.mul, C.add, C.zero, C.one, Unitaries.dX, spaceBit]
    rw [hp]
    constructor <;> ring
  have hC : toC (cplxUpsi (zeroRBM 1 h) (zeroRBM 1 h) defaultDict ⟨fun _ => true, ['X']⟩) = 0 := by
    rw [h0]; apply Complex.ext <;> simp
  have hiff := C03_zero_amplitude_iff_infinite_nll (zeroRBM 1 h) (zeroRBM 1 h) defaultDict
    (⟨fun _ => true, ['X']⟩ : Sample 1) (by simp [defaultDict, C04_dZ])
  have hB := hiff.1.1 hC
  exact ⟨h0, hC, hB, hiff.2.1 hB⟩

/-- **C03.10a (batch layout of `gamma_grad`)** the tensor `PurificationRBM.gamma_grad(v, vp, eta, expand)` returns
(`gammaGradT`: `unsqueezed`, `batch_sizes`, the `.view(*batch_sizes, -1)` index arithmetic `q ↦ [q / n, q % n]`, the offsets
of `torch.cat([W, U, b, c, d], -1)`, the squeeze) holds, at `[i, j, :]` (`expand=True`, shape `(B, B', P)`) resp. `[i, :]`
(`expand=False`, two batches of `B` rows, shape `(B, P)`) resp. `[:]` (1-D operands, shape `(P,)`), the per-pair record
`gammaGrad` of `C03_sample_gradient_density` for the pair `(v_i, vp_j)` resp. `(v_i, vp_i)` in the `parameters()` order
`PRBM.flatten` (the order `C03_layout_prbm` / `C06_lands_on_parameter_prbm` are about); other batch-size pairs are refused.
A swapped `unsqueeze` axis, a transposed `view`, a wrong block order or offset in the model would fail this. -/
theorem C03_gamma_grad_layout (r : PRBM ℝ n h a) (sgn : ℝ) (v vp : RowsArg ℝ n) :
    (∃ t, gammaGradT r sgn true v vp = .ok t ∧ t.shape = [v.B, vp.B, h * n + a * n + n + h + a]
      ∧ ∀ i j q, t.get [i, j, q] = (gammaGrad r sgn (v.row i) (vp.row j)).flatten.getD q 0)
    ∧ (∀ B, v.batch = some B → vp.batch = some B →
        ∃ t, gammaGradT r sgn false v vp = .ok t ∧ t.shape = [B, h * n + a * n + n + h + a]
          ∧ ∀ i q, i < B → t.get [i, q] = (gammaGrad r sgn (v.row i) (vp.row i)).flatten.getD q 0)
    ∧ (∀ B, B ≠ 1 → v.batch = some B → vp.B = 1 →
        ∃ t, gammaGradT r sgn false v vp = .ok t ∧ t.shape = [B, h * n + a * n + n + h + a]
          ∧ ∀ i q, t.get [i, q] = (gammaGrad r sgn (v.row i) (vp.row 0)).flatten.getD q 0)
    ∧ ((v.batch = none ∨ vp.batch = none) → v.B = 1 → vp.B = 1 →
        ∃ t, gammaGradT r sgn false v vp = .ok t ∧ t.shape = [h * n + a * n + n + h + a]
          ∧ ∀ q, t.get [q] = (gammaGrad r sgn (v.row 0) (vp.row 0)).flatten.getD q 0)
    ∧ (vp.B ≠ v.B → vp.B ≠ 1 → gammaGradT r sgn false v vp = .error .RuntimeError) :=
  ⟨layoutT_expand v vp _, fun B hv hvp => layoutT_paired v vp _ B hv hvp,
   fun B hB hv hvp => layoutT_broadcast v vp _ B hB hv hvp, fun hu hB hBp => layoutT_1d v vp _ hu hB hBp,
   fun h1 h2 => layoutT_refused v vp _ h1 h2⟩

/-- **C03.10b (batch layout of `pi_grad`)** the same for `DensityMatrix.pi_grad(v, vp, phase, expand)` (`piGradT`), real and
imaginary part: `expand=True` holds the record `piGrad` of the pair `(v_i, vp_j)` at `[i, j, :]`; `expand=False` (the default,
which evaluates the sigmoid at `mixing_term(v ± vp)`: `piGradNoExpand`, see `C03_pi_grad_branches_*`) the record of
`(v_i, vp_i)` at `[i, :]`; 1-D operands give the squeezed `(P,)` record. -/
theorem C03_pi_grad_layout (am ph : PRBM ℝ n h a) (phase : Bool) (v vp : RowsArg ℝ n) :
    (∃ t, piGradT am ph phase true v vp = .ok t
      ∧ t.1.shape = [v.B, vp.B, h * n + a * n + n + h + a] ∧ t.2.shape = [v.B, vp.B, h * n + a * n + n + h + a]
      ∧ ∀ i j q, t.1.get [i, j, q] = (piGrad am ph phase (v.row i) (vp.row j)).1.flatten.getD q 0
          ∧ t.2.get [i, j, q] = (piGrad am ph phase (v.row i) (vp.row j)).2.flatten.getD q 0)
    ∧ (∀ B, v.batch = some B → vp.batch = some B →
        ∃ t, piGradT am ph phase false v vp = .ok t
          ∧ t.1.shape = [B, h * n + a * n + n + h + a] ∧ t.2.shape = [B, h * n + a * n + n + h + a]
          ∧ ∀ i q, i < B → t.1.get [i, q] = (piGradNoExpand am ph phase (v.row i) (vp.row i)).1.flatten.getD q 0
              ∧ t.2.get [i, q] = (piGradNoExpand am ph phase (v.row i) (vp.row i)).2.flatten.getD q 0)
    ∧ ((v.batch = none ∨ vp.batch = none) → v.B = 1 → vp.B = 1 →
        ∃ t, piGradT am ph phase false v vp = .ok t
          ∧ t.1.shape = [h * n + a * n + n + h + a] ∧ t.2.shape = [h * n + a * n + n + h + a]
          ∧ ∀ q, t.1.get [q] = (piGradNoExpand am ph phase (v.row 0) (vp.row 0)).1.flatten.getD q 0
              ∧ t.2.get [q] = (piGradNoExpand am ph phase (v.row 0) (vp.row 0)).2.flatten.getD q 0)
    ∧ (vp.B ≠ v.B → vp.B ≠ 1 → (phase = false ∨ v.B ≠ 1) → ∃ e, piGradT am ph phase false v vp = .error e)
    ∧ (vp.B ≠ 1 → v.B = 1 → ∃ t, piGradT am ph true false v vp = .ok t
        ∧ t.1.shape = (if (v.isOne || vp.isOne) = true then [h * n + vp.B * (a * n) + n + h + a]
            else [1, h * n + vp.B * (a * n) + n + h + a])) := by
  refine ⟨?_, ?_, ?_, ?_, ?_⟩
  · obtain ⟨t1, h1, s1, g1⟩ := layoutT_expand v vp (fun i j => (piGrad am ph phase (v.row i) (vp.row j)).1)
    obtain ⟨t2, h2, s2, g2⟩ := layoutT_expand v vp (fun i j => (piGrad am ph phase (v.row i) (vp.row j)).2)
    exact ⟨(t1, t2), by simp only [piGradT, if_true, h1, h2], s1, s2, fun i j q => ⟨g1 i j q, g2 i j q⟩⟩
  · intro B hv hvp
    obtain ⟨t1, h1, s1, g1⟩ := layoutT_paired v vp (fun i j => (piGradNoExpand am ph phase (v.row i) (vp.row j)).1) B hv hvp
    obtain ⟨t2, h2, s2, g2⟩ := layoutT_paired v vp (fun i j => (piGradNoExpand am ph phase (v.row i) (vp.row j)).2) B hv hvp
    exact ⟨(t1, t2), by simp only [piGradT, Bool.false_eq_true, if_false, h1, h2], s1, s2,
      fun i q hi => ⟨g1 i q hi, g2 i q hi⟩⟩
  · intro hu hB hBp
    obtain ⟨t1, h1, s1, g1⟩ := layoutT_1d v vp (fun i j => (piGradNoExpand am ph phase (v.row i) (vp.row j)).1) hu hB hBp
    obtain ⟨t2, h2, s2, g2⟩ := layoutT_1d v vp (fun i j => (piGradNoExpand am ph phase (v.row i) (vp.row j)).2) hu hB hBp
    exact ⟨(t1, t2), by simp only [piGradT, Bool.false_eq_true, if_false, h1, h2], s1, s2, fun q => ⟨g1 q, g2 q⟩⟩
  · intro h1 h2 h3
    refine ⟨.RuntimeError, ?_⟩
    have hc : (phase && v.B == 1) = false := by
      rcases h3 with h3 | h3
      · simp [h3]
      · simp [h3]
    simp only [piGradT, Bool.false_eq_true, if_false, layoutT_refused v vp _ h1 h2, hc]
  · intro h2 hB
    have h1 : vp.B ≠ v.B := by rw [hB]; exact h2
    refine ⟨_, by simp only [piGradT, Bool.false_eq_true, if_false, layoutT_refused v vp _ h1 h2, hB, Bool.true_and,
      beq_self_eq_true, if_true]; rfl, ?_⟩
    by_cases hu : (v.isOne || vp.isOne) = true
    · simp [piGradOddT, hu, FT.squeeze0]
    · simp [piGradOddT, hu]

/-- satisfiable: `B = 2`, `B' = 3` rows on two sites (expand), and two 2-row batches (paired) -/
example : ∃ v vp : RowsArg ℝ 2, v.B = 2 ∧ vp.B = 3 ∧ v.batch = some 2 :=
  ⟨⟨some 2, fun i j => if i = 0 then 1 else j.val⟩, ⟨some 3, fun i _ => if i = 1 then 1 else 0⟩, rfl, rfl, rfl⟩

end QV.Props
