import QV.Model.Grads
namespace QV.Props
theorem C03_placeholder : True := trivial
end QV.Props
