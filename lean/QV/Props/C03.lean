/-
C03 — Training gradients are the exact gradients of the negative log-likelihood.

"For every state type, parameter setting, dataset and assignment of measurement bases, the gradient the
library computes for training (data-driven positive phase plus exact model-driven negative phase) equals
the derivative, with respect to every parameter of every network, of the dataset's negative
log-likelihood under the Born rule in each sample's own measurement basis (for mixed states up to the
library's 1e-8 regularisation of rotated probabilities), in the same parameter order in which training
writes gradients into the model. The positive-phase gradient of a batch is the mean of its per-sample
gradients however the batch is ordered or grouped by basis, and every public method that returns such a
gradient is callable and agrees."

Derivatives are stated along ARBITRARY differentiable parameter curves `r : ℝ → RBM ℝ n h` with velocity `dr`
(`RBM.CurveAt`): the loss composed with the curve has derivative `G.pair dr = Σ_k G_k · dr_k`, where `G` is the
model's gradient record. Taking coordinate lines gives every partial derivative; linearity in `dr` gives the
total derivative. Model: QV.Model.Grads (executed against the code by the C03 correspondence).
-/
import Mathlib.Analysis.SpecialFunctions.Log.Deriv
import QV.Lemmas.Deriv
import QV.Lemmas.GradLin
import QV.Lemmas.Hilbert
import QV.Lemmas.CplxGrad
import QV.Lemmas.Grouping
import QV.Lemmas.DMGrad

namespace QV.Props
open QV Finset Grads

variable {n h a : ℕ}

/-- **C03.1a** effective energy of the BinaryRBM: the code's per-sample gradient vector is the gradient. -/
theorem C03_energy_grad (r : ℝ → RBM ℝ n h) (dr : RBM ℝ n h) (t : ℝ) (hr : RBM.CurveAt r dr t) (v : Fin n → ℝ) :
    HasDerivAt (fun s => (r s).effEnergy v) (((r t).effEnergyGrad1 v).pair dr) t :=
  RBM.hasDerivAt_effEnergy r dr t hr v

/-- **C03.1b** the same for the PurificationRBM (auxiliary units traced out), in the layout `[W, U, b, c, d]`. -/
theorem C03_energy_grad_prbm (r : ℝ → PRBM ℝ n h a) (dr : PRBM ℝ n h a) (t : ℝ) (hr : PRBM.CurveAt r dr t)
    (v : Fin n → ℝ) :
    HasDerivAt (fun s => (r s).effEnergy v) (((r t).effEnergyGrad1 v).pair dr) t :=
  PRBM.hasDerivAt_effEnergy r dr t hr v

/-- partition function as the plain sum over the generated space (what `compute_exact_gradients` uses) -/
noncomputable def Zsum (am : RBM ℝ n h) : ℝ := ∑ k : Fin (2 ^ n), Real.exp (-(am.effEnergy (spaceRow n k.val)))

theorem Zsum_pos (am : RBM ℝ n h) : 0 < Zsum am :=
  Finset.sum_pos (fun _ _ => Real.exp_pos _) ⟨⟨0, Nat.pos_of_ne_zero (by positivity)⟩, mem_univ _⟩

/-- **C03.2** `d/dt log Z = −Σ_σ p(σ) ⟨∇E(σ), θ'⟩`, and the model's exact negative phase is that weighted average. -/
theorem C03_logZ_grad (r : ℝ → RBM ℝ n h) (dr : RBM ℝ n h) (t : ℝ) (hr : RBM.CurveAt r dr t) :
    HasDerivAt (fun s => Real.log (Zsum (r s))) (-((negPhaseExact (r t)).pair dr)) t := by
  have hZ : HasDerivAt (fun s => Zsum (r s))
      (∑ k : Fin (2 ^ n), Real.exp (-((r t).effEnergy (spaceRow n k.val)))
          * -(((r t).effEnergyGrad1 (spaceRow n k.val)).pair dr)) t := by
    unfold Zsum
    exact HasDerivAt.fun_sum (fun k _ => ((RBM.hasDerivAt_effEnergy r dr t hr _).neg).exp)
  have := hZ.log (Zsum_pos (r t)).ne'
  refine this.congr_deriv ?_
  have hneg : (negPhaseExact (r t)).pair dr
      = ∑ k : Fin (2 ^ n), (Real.exp (-((r t).effEnergy (spaceRow n k.val))) / Zsum (r t))
          * ((r t).effEnergyGrad1 (spaceRow n k.val)).pair dr := by
    have := RBM.pair_weighted (fun k : Fin (2 ^ n) => (r t).effEnergyGrad1 (spaceRow n k.val))
      (fun k => Real.exp (-((r t).effEnergy (spaceRow n k.val))) / Zsum (r t)) dr
    rw [← this]
    simp only [negPhaseExact, sumFin_eq, transc_exp, Zsum]
  rw [hneg, Finset.sum_div, ← Finset.sum_neg_distrib]
  refine Finset.sum_congr rfl (fun k _ => ?_)
  ring

/-- the negative log-likelihood of a dataset of computational-basis outcomes under the positive state:
`−(1/B) Σ_b log( probability(v_b) / Z )` with the model's `probability` and `Z = Σ_σ probability(σ)`. -/
noncomputable def nllPos (am : RBM ℝ n h) {B : ℕ} (vs : Fin B → Fin n → ℝ) : ℝ :=
  -((∑ b, Real.log (Wave.probability am (vs b) (Zsum am))) / B)

theorem nllPos_eq (am : RBM ℝ n h) {B : ℕ} (hB : 0 < B) (vs : Fin B → Fin n → ℝ) :
    nllPos am vs = (∑ b, am.effEnergy (vs b)) / B + Real.log (Zsum am) := by
  have hZ := Zsum_pos am
  have hBr : (B : ℝ) ≠ 0 := by exact_mod_cast hB.ne'
  simp only [nllPos, Wave.probability, transc_exp]
  have : ∀ b, Real.log (Real.exp (-(am.effEnergy (vs b))) / Zsum am) = -(am.effEnergy (vs b)) - Real.log (Zsum am) := by
    intro b; rw [Real.log_div (Real.exp_pos _).ne' hZ.ne', Real.log_exp]
  simp only [this, Finset.sum_sub_distrib, Finset.sum_neg_distrib, Finset.sum_const, Finset.card_univ, Fintype.card_fin,
    nsmul_eq_mul]
  field_simp
  ring

/-- **C03.3 (positive state)** `compute_exact_gradients` (= `compute_exact_grads`) is the gradient of the NLL:
along any differentiable parameter curve the NLL has derivative `Σ_k G_k θ'_k` with `G` the model's output. -/
theorem C03_exact_gradient_positive (r : ℝ → RBM ℝ n h) (dr : RBM ℝ n h) (t : ℝ) (hr : RBM.CurveAt r dr t)
    {B : ℕ} (hB : 0 < B) (vs : Fin B → Fin n → ℝ) :
    HasDerivAt (fun s => nllPos (r s) vs) ((exactGradientsPos (r t) vs).pair dr) t := by
  have hfun : (fun s => nllPos (r s) vs)
      = fun s => (∑ b, (r s).effEnergy (vs b)) / B + Real.log (Zsum (r s)) := by
    funext s; exact nllPos_eq (r s) hB vs
  rw [hfun]
  have h1 : HasDerivAt (fun s => (∑ b, (r s).effEnergy (vs b)) / (B : ℝ))
      ((∑ b, ((r t).effEnergyGrad1 (vs b)).pair dr) / B) t :=
    (HasDerivAt.fun_sum (fun b _ => RBM.hasDerivAt_effEnergy r dr t hr (vs b))).div_const _
  refine (h1.add (C03_logZ_grad r dr t hr)).congr_deriv ?_
  simp only [exactGradientsPos, positivePhasePos, gradientPos, RBM.pair_sub, RBM.pair_sdiv, RBM.pair_effEnergyGrad,
    transc_ofNat]
  ring

/-- **C03.5 (positive)** the positive phase is the mean of the per-sample gradients (pairing form), hence invariant
under any permutation of the batch. -/
theorem C03_batch_is_sum_positive (am d : RBM ℝ n h) {B : ℕ} (vs : Fin B → Fin n → ℝ) :
    (positivePhasePos am vs).pair d = (∑ b, (am.effEnergyGrad1 (vs b)).pair d) / B := by
  simp only [positivePhasePos, gradientPos, RBM.pair_sdiv, RBM.pair_effEnergyGrad, transc_ofNat]

theorem C03_perm_invariant_positive (am d : RBM ℝ n h) {B : ℕ} (vs : Fin B → Fin n → ℝ) (e : Equiv.Perm (Fin B)) :
    (positivePhasePos am (fun b => vs (e b))).pair d = (positivePhasePos am vs).pair d := by
  rw [C03_batch_is_sum_positive, C03_batch_is_sum_positive]
  congr 1
  exact Equiv.sum_comp e (fun b => (am.effEnergyGrad1 (vs b)).pair d)

/-! ### complex wavefunction, arbitrary measurement bases -/

open Unitaries

/-- for an all-`Z` sample the rotated amplitude is `ψ(σ)` itself -/
theorem cplxUpsi_allZ (am ph : RBM ℝ n h) (dict : Char → M2 ℝ) (smp : Sample n) (hz : smp.allZ = true) :
    toC (cplxUpsi am ph dict smp) = toC (Wave.psiCplx am ph smp.vis) := by
  have hrot : ∀ j, smp.rot j = false := by
    intro j
    have := List.all_eq_true.mp hz j (List.mem_finRange j)
    simpa using this
  rw [toC_cplxUpsi, sum_rows n (fun τ => rotC dict smp τ * toC (Wave.psiCplx am ph (visOf τ)))]
  rw [Finset.sum_eq_single smp.σ]
  · have hag : agreesOff n smp.rot smp.σ smp.σ = true := by
      simp [agreesOff]
    simp only [rotC, hag, if_true, rotCoeff, toC_prod, hrot, Bool.false_eq_true, if_false, toC_one,
      Finset.prod_const_one, one_mul]
    rfl
  · intro τ _ hτ
    have : agreesOff n smp.rot smp.σ τ = false := by
      by_contra hcon
      have hcon' : agreesOff n smp.rot smp.σ τ = true := by simpa using hcon
      unfold agreesOff at hcon'
      have hall := List.all_eq_true.mp hcon'
      apply hτ
      funext j
      have := hall j (List.mem_finRange j)
      simp [hrot j] at this
      exact this.symm
    simp [rotC, this]
  · simp

/-- per-sample loss `−log p̃_β(σ)` with `p̃_β(σ) = |Σ_τ Ut_τ ψ(τ)|²` the unnormalised Born probability of outcome σ in
basis β (by `C04_inner_prod`, entry σ of the dense rotation applied to ψ). -/
noncomputable def sampleLossCplx (am ph : RBM ℝ n h) (dict : Char → M2 ℝ) (smp : Sample n) : ℝ :=
  -Real.log (Complex.normSq (toC (cplxUpsi am ph dict smp)))

/-- **C03.3 (complex state, one sample)**: all-`Z` fast path and rotated path alike. -/
theorem C03_sample_gradient_complex (ram rph : ℝ → RBM ℝ n h) (dam dph : RBM ℝ n h) (t : ℝ)
    (ha : RBM.CurveAt ram dam t) (hp : RBM.CurveAt rph dph t) (dict : Char → M2 ℝ) (smp : Sample n)
    (hU : toC (cplxUpsi (ram t) (rph t) dict smp) ≠ 0) :
    HasDerivAt (fun s => sampleLossCplx (ram s) (rph s) dict smp)
      ((cplxGrad1 (ram t) (rph t) dict smp).1.pair dam + (cplxGrad1 (ram t) (rph t) dict smp).2.pair dph) t := by
  unfold sampleLossCplx
  by_cases hz : smp.allZ = true
  · have hfun : (fun s => -Real.log (Complex.normSq (toC (cplxUpsi (ram s) (rph s) dict smp))))
        = fun s => (ram s).effEnergy smp.vis := by
      funext s
      rw [cplxUpsi_allZ _ _ _ _ hz, toC_psiCplx, Complex.normSq_eq_norm_sq, Complex.norm_exp]
      simp only [Complex.add_re, Complex.ofReal_re, Complex.mul_re, Complex.I_re, Complex.I_im, Complex.ofReal_im,
        mul_zero, sub_zero, mul_one, add_zero]
      rw [← Real.exp_nat_mul, Real.log_exp]
      push_cast; ring
    rw [hfun]
    refine (RBM.hasDerivAt_effEnergy ram dam t ha smp.vis).congr_deriv ?_
    simp [cplxGrad1, hz, RBM.pair_zero]
  · exact hasDerivAt_sampleLoss_rot ram rph dam dph t ha hp dict smp (by simpa using hz) hU

/-- grouped accumulation = plain sum over the batch (pairing form) -/
theorem pair_gradientCplx (am ph d : RBM ℝ n h) (dict : Char → M2 ℝ) (D : List (Sample n)) :
    (gradientCplx am ph dict D).1.pair d = (D.map (fun s => (cplxGrad1 am ph dict s).1.pair d)).sum
    ∧ (gradientCplx am ph dict D).2.pair d = (D.map (fun s => (cplxGrad1 am ph dict s).2.pair d)).sum :=
  ⟨pair_grouped D (fun s => s.basis) (fun s => (cplxGrad1 am ph dict s).1) d,
   pair_grouped D (fun s => s.basis) (fun s => (cplxGrad1 am ph dict s).2) d⟩

/-- the dataset NLL of the complex state under the Born rule: `(1/N) Σ_s −log p̃_{β_s}(σ_s) + log Z`. -/
noncomputable def nllCplx (am ph : RBM ℝ n h) (dict : Char → M2 ℝ) (D : List (Sample n)) : ℝ :=
  (D.map (fun smp => sampleLossCplx am ph dict smp)).sum / D.length + Real.log (Zsum am)

theorem hasDerivAt_list_sum {ι : Type} (l : List ι) (f : ι → ℝ → ℝ) (f' : ι → ℝ) (t : ℝ)
    (hf : ∀ x ∈ l, HasDerivAt (f x) (f' x) t) :
    HasDerivAt (fun s => (l.map (fun x => f x s)).sum) ((l.map f').sum) t := by
  induction l with
  | nil => simpa using hasDerivAt_const t (0 : ℝ)
  | cons x xs ih =>
    simp only [List.map_cons, List.sum_cons]
    exact (hf x List.mem_cons_self).add (ih (fun y hy => hf y (List.mem_cons_of_mem _ hy)))

/-- **C03.3 (complex state)** `compute_exact_gradients(samples, space, bases)` — grouped by unique basis, all-`Z` rows
through the fast path — is the gradient of the dataset NLL w.r.t. every parameter of both networks, whenever every
sample has non-zero model probability in its basis (i.e. the NLL is finite). -/
theorem C03_exact_gradient_complex (ram rph : ℝ → RBM ℝ n h) (dam dph : RBM ℝ n h) (t : ℝ)
    (ha : RBM.CurveAt ram dam t) (hp : RBM.CurveAt rph dph t) (dict : Char → M2 ℝ) (D : List (Sample n))
    (hU : ∀ smp ∈ D, toC (cplxUpsi (ram t) (rph t) dict smp) ≠ 0) :
    HasDerivAt (fun s => nllCplx (ram s) (rph s) dict D)
      ((exactGradientsCplx (ram t) (rph t) dict D).1.pair dam
        + (exactGradientsCplx (ram t) (rph t) dict D).2.pair dph) t := by
  unfold nllCplx
  have h1 := (hasDerivAt_list_sum D (fun smp s => sampleLossCplx (ram s) (rph s) dict smp) _ t
    (fun smp hs => C03_sample_gradient_complex ram rph dam dph t ha hp dict smp (hU smp hs))).div_const (D.length : ℝ)
  refine (h1.add (C03_logZ_grad ram dam t ha)).congr_deriv ?_
  simp only [exactGradientsCplx, positivePhaseCplx, RBM.pair_sub, RBM.pair_sdiv, transc_ofNat,
    (pair_gradientCplx _ _ _ _ _).1, (pair_gradientCplx _ _ _ _ _).2]
  rw [List.sum_map_add]
  ring

/-- **C03.5** the positive phase of ANY batch is the mean of the per-sample gradients, whatever the grouping by
basis (pairing form); hence invariant under permutation of the batch. -/
theorem C03_batch_is_sum_complex (am ph d : RBM ℝ n h) (dict : Char → M2 ℝ) (D : List (Sample n)) :
    (positivePhaseCplx am ph dict D).1.pair d = (D.map (fun s => (cplxGrad1 am ph dict s).1.pair d)).sum / D.length
    ∧ (positivePhaseCplx am ph dict D).2.pair d = (D.map (fun s => (cplxGrad1 am ph dict s).2.pair d)).sum / D.length := by
  simp only [positivePhaseCplx, RBM.pair_sdiv, transc_ofNat, (pair_gradientCplx _ _ _ _ _).1,
    (pair_gradientCplx _ _ _ _ _).2, and_self]

theorem C03_perm_invariant_complex (am ph d : RBM ℝ n h) (dict : Char → M2 ℝ) (D D' : List (Sample n))
    (hperm : D.Perm D') :
    (positivePhaseCplx am ph dict D).1.pair d = (positivePhaseCplx am ph dict D').1.pair d
    ∧ (positivePhaseCplx am ph dict D).2.pair d = (positivePhaseCplx am ph dict D').2.pair d := by
  rw [(C03_batch_is_sum_complex am ph d dict D).1, (C03_batch_is_sum_complex am ph d dict D).2,
    (C03_batch_is_sum_complex am ph d dict D').1, (C03_batch_is_sum_complex am ph d dict D').2, hperm.length_eq]
  exact ⟨by rw [(hperm.map _).sum_eq], by rw [(hperm.map _).sum_eq]⟩

/-- the per-sample rotated amplitude of the gradient model IS the model of `rotate_psi_inner_prod` (C04), hence by
`C04_inner_prod` entry σ of the dense basis rotation applied to ψ: the loss above is the Born-rule loss. -/
theorem C03_upsi_is_rotated_amplitude (am ph : RBM ℝ n h) (dict : Char → M2 ℝ) (smp : Sample n) :
    cplxUpsi am ph dict smp
      = rotatePsiInnerProd n (fun j => dict (smp.letter j)) smp.rot (fun τ => Wave.psiCplx am ph (visOf τ)) smp.σ := rfl

/-! ### mixed state (DensityMatrix), arbitrary measurement bases, with the code's `ε`-regularisation -/

/-- per-sample loss of the mixed state: `E_λ(σ)` for a reference-basis row (fast path, no regulariser) and
`−log(p̃_β(σ) + ε)` for a rotated row, `p̃_β(σ) = Σ_{τ,τ'} Re[U_τ conj(U_τ') ρ(τ,τ')]` the unnormalised Born probability
of outcome σ in basis β (the model of `rotate_rho_probs`, C04_rho_probs). -/
noncomputable def sampleLossDM (am ph : PRBM ℝ n h a) (dict : Char → M2 ℝ) (eps : ℝ) (smp : Sample n) : ℝ :=
  if smp.allZ then am.effEnergy smp.vis else -Real.log (dmUrhoU am ph dict smp + eps)

/-- **C03.3 (mixed state, one sample)** the model's per-sample gradient pair is the gradient of the per-sample loss,
wherever the auxiliary-trace guard holds (`NZall`, see C02) and the regularised probability is positive. -/
theorem C03_sample_gradient_density (ram rph : ℝ → PRBM ℝ n h a) (dam dph : PRBM ℝ n h a) (t : ℝ)
    (ha : PRBM.CurveAt ram dam t) (hp : PRBM.CurveAt rph dph t) (dict : Char → M2 ℝ) (eps : ℝ) (smp : Sample n)
    (hz : NZall (ram t) (rph t)) (hpos : dmUrhoU (ram t) (rph t) dict smp + eps ≠ 0) :
    HasDerivAt (fun s => sampleLossDM (ram s) (rph s) dict eps smp)
      ((dmGrad1 (ram t) (rph t) dict eps smp).1.pair dam + (dmGrad1 (ram t) (rph t) dict eps smp).2.pair dph) t := by
  unfold sampleLossDM
  by_cases hallz : smp.allZ = true
  · simp only [hallz, if_true]
    refine (PRBM.hasDerivAt_effEnergy ram dam t ha smp.vis).congr_deriv ?_
    simp [dmGrad1, hallz, PRBM.pair_zero]
  · simp only [hallz, Bool.false_eq_true, if_false]
    have hd := ((hasDerivAt_dmUrhoU ram rph dam dph t ha hp dict smp hz).add_const eps).log hpos |>.neg
    refine hd.congr_deriv ?_
    have h1 := pair_dmRot (ram t) (rph t) dam dict eps smp
      (fun τ1 τ2 => dmAmGrads (ram t) (rph t) (visOf τ1) (visOf τ2))
    have h2 := pair_dmRot (ram t) (rph t) dph dict eps smp
      (fun τ1 τ2 => dmPhGrads (ram t) (rph t) (visOf τ1) (visOf τ2))
    simp only [dmGrad1, hallz, Bool.false_eq_true, if_false]
    rw [h1, h2, ← add_div, ← neg_add, ← Finset.sum_add_distrib, neg_div]
    congr 2
    refine Finset.sum_congr rfl (fun x _ => ?_)
    rw [mul_add, Complex.add_re]

/-- partition function of the purification RBM as the plain sum over the generated space -/
noncomputable def ZsumDM (am : PRBM ℝ n h a) : ℝ := ∑ k : Fin (2 ^ n), Real.exp (-(am.effEnergy (spaceRow n k.val)))

theorem ZsumDM_pos (am : PRBM ℝ n h a) : 0 < ZsumDM am :=
  Finset.sum_pos (fun _ _ => Real.exp_pos _) ⟨⟨0, Nat.pos_of_ne_zero (by positivity)⟩, mem_univ _⟩

/-- **C03.2 (purification RBM)** `d/dt log Z = −⟨exact negative phase, θ'⟩`. -/
theorem C03_logZ_grad_prbm (r : ℝ → PRBM ℝ n h a) (dr : PRBM ℝ n h a) (t : ℝ) (hr : PRBM.CurveAt r dr t) :
    HasDerivAt (fun s => Real.log (ZsumDM (r s))) (-((negPhaseExactDM (r t)).pair dr)) t := by
  have hZ : HasDerivAt (fun s => ZsumDM (r s))
      (∑ k : Fin (2 ^ n), Real.exp (-((r t).effEnergy (spaceRow n k.val)))
          * -(((r t).effEnergyGrad1 (spaceRow n k.val)).pair dr)) t := by
    unfold ZsumDM
    exact HasDerivAt.fun_sum (fun k _ => ((PRBM.hasDerivAt_effEnergy r dr t hr _).neg).exp)
  have := hZ.log (ZsumDM_pos (r t)).ne'
  refine this.congr_deriv ?_
  have hneg : (negPhaseExactDM (r t)).pair dr
      = ∑ k : Fin (2 ^ n), (Real.exp (-((r t).effEnergy (spaceRow n k.val))) / ZsumDM (r t))
          * ((r t).effEnergyGrad1 (spaceRow n k.val)).pair dr := by
    have := PRBM.pair_weighted (fun k : Fin (2 ^ n) => (r t).effEnergyGrad1 (spaceRow n k.val))
      (fun k => Real.exp (-((r t).effEnergy (spaceRow n k.val))) / ZsumDM (r t)) dr
    rw [← this]
    simp only [negPhaseExactDM, sumFin_eq, transc_exp, ZsumDM]
  rw [hneg, Finset.sum_div, ← Finset.sum_neg_distrib]
  refine Finset.sum_congr rfl (fun k _ => ?_)
  ring

theorem pair_foldl_add_prbm (l : List (PRBM ℝ n h a)) (acc d : PRBM ℝ n h a) :
    (l.foldl PRBM.add acc).pair d = acc.pair d + (l.map (fun x => x.pair d)).sum := by
  induction l generalizing acc with
  | nil => simp
  | cons x xs ih => rw [List.foldl_cons, ih, PRBM.pair_add, List.map_cons, List.sum_cons, add_assoc]

theorem pair_sumPRBM (l : List (PRBM ℝ n h a)) (d : PRBM ℝ n h a) :
    (sumPRBM l).pair d = (l.map (fun x => x.pair d)).sum := by
  simp [sumPRBM, pair_foldl_add_prbm, PRBM.pair_zero]

theorem pair_grouped_prbm {ι κ : Type} [BEq κ] [LawfulBEq κ] (D : List ι) (key : ι → κ) (f : ι → PRBM ℝ n h a)
    (d : PRBM ℝ n h a) :
    (sumPRBM ((((D.map key).foldr List.insert []).map (fun u => D.filter (fun s => key s == u))).map
        (fun g => sumPRBM (g.map f)))).pair d
      = (D.map (fun s => (f s).pair d)).sum := by
  rw [pair_sumPRBM, List.map_map, List.map_map]
  have := sum_groups D key (fun s => (f s).pair d)
  rw [← this]
  congr 1
  refine List.map_congr_left (fun u _ => ?_)
  simp only [Function.comp, pair_sumPRBM, List.map_map]
  rfl

theorem pair_gradientDM (am ph d : PRBM ℝ n h a) (dict : Char → M2 ℝ) (eps : ℝ) (D : List (Sample n)) :
    (gradientDM am ph dict eps D).1.pair d = (D.map (fun s => (dmGrad1 am ph dict eps s).1.pair d)).sum
    ∧ (gradientDM am ph dict eps D).2.pair d = (D.map (fun s => (dmGrad1 am ph dict eps s).2.pair d)).sum :=
  ⟨pair_grouped_prbm D (fun s => s.basis) (fun s => (dmGrad1 am ph dict eps s).1) d,
   pair_grouped_prbm D (fun s => s.basis) (fun s => (dmGrad1 am ph dict eps s).2) d⟩

/-- the dataset NLL of the mixed state with the library's regularisation of rotated probabilities -/
noncomputable def nllDM (am ph : PRBM ℝ n h a) (dict : Char → M2 ℝ) (eps : ℝ) (D : List (Sample n)) : ℝ :=
  (D.map (fun smp => sampleLossDM am ph dict eps smp)).sum / D.length + Real.log (ZsumDM am)

/-- **C03.3 (mixed state)** `compute_exact_gradients(samples, space, bases)` of the DensityMatrix is the gradient of the
(ε-regularised) dataset NLL w.r.t. every parameter of both purification networks. -/
theorem C03_exact_gradient_density (ram rph : ℝ → PRBM ℝ n h a) (dam dph : PRBM ℝ n h a) (t : ℝ)
    (ha : PRBM.CurveAt ram dam t) (hp : PRBM.CurveAt rph dph t) (dict : Char → M2 ℝ) (eps : ℝ) (D : List (Sample n))
    (hz : NZall (ram t) (rph t)) (hpos : ∀ smp ∈ D, dmUrhoU (ram t) (rph t) dict smp + eps ≠ 0) :
    HasDerivAt (fun s => nllDM (ram s) (rph s) dict eps D)
      ((exactGradientsDM (ram t) (rph t) dict eps D).1.pair dam
        + (exactGradientsDM (ram t) (rph t) dict eps D).2.pair dph) t := by
  unfold nllDM
  have h1 := (hasDerivAt_list_sum D (fun smp s => sampleLossDM (ram s) (rph s) dict eps smp) _ t
    (fun smp hs => C03_sample_gradient_density ram rph dam dph t ha hp dict eps smp hz (hpos smp hs))).div_const (D.length : ℝ)
  refine (h1.add (C03_logZ_grad_prbm ram dam t ha)).congr_deriv ?_
  simp only [exactGradientsDM, positivePhaseDM, PRBM.pair_sub, PRBM.pair_sdiv, transc_ofNat,
    (pair_gradientDM _ _ _ _ _ _).1, (pair_gradientDM _ _ _ _ _ _).2]
  rw [List.sum_map_add]
  ring

/-- **C03.5 (mixed)** positive phase = mean of per-sample gradients, whatever the grouping; permutation invariant. -/
theorem C03_batch_is_sum_density (am ph d : PRBM ℝ n h a) (dict : Char → M2 ℝ) (eps : ℝ) (D : List (Sample n)) :
    (positivePhaseDM am ph dict eps D).1.pair d = (D.map (fun s => (dmGrad1 am ph dict eps s).1.pair d)).sum / D.length
    ∧ (positivePhaseDM am ph dict eps D).2.pair d = (D.map (fun s => (dmGrad1 am ph dict eps s).2.pair d)).sum / D.length := by
  simp only [positivePhaseDM, PRBM.pair_sdiv, transc_ofNat, (pair_gradientDM _ _ _ _ _ _).1,
    (pair_gradientDM _ _ _ _ _ _).2, and_self]

end QV.Props
