/-
C15 — The complex-tensor kernel agrees with complex arithmetic.

"Every operation of the library's real-pair complex tensor representation — construction and
conversion, products (scalar, elementwise, matrix, inner, outer, Kronecker, Einstein-summation),
conjugation and conjugate transpose, division and inverse, modulus and norms, complex sigmoid —
returns the real-pair encoding of what native complex arithmetic gives on the decoded operands, for
all supported shapes, and rejects unsupported shapes or aliasing output buffers with an error rather
than a wrong value."

Model: QV.Model.Cplx (executed against qucumber/utils/cplx.py by the C15 correspondence check).
Vocabulary (QV.Lemmas.Cplx): `Valid s idx` — `idx` is a multi-index of shape `s`; `IsCplx x s` — `x` is a
well-formed tensor of shape `2 :: s`; `centry x idx = (x[0,idx], x[1,idx])` — the decoded complex entry as a
real pair; `dec : C ℝ → ℂ`.  The ring statements hold over EVERY carrier (they are equalities of pairs built
with the pair operations `C.mul`, `C.conj`, … whose meaning in ℂ is fixed by `C15_dec_*`); sums need a
commutative ring; division / modulus / sigmoid are stated in ℂ.
-/
import Mathlib.Data.Complex.Basic
import Mathlib.Data.Matrix.Mul
import Mathlib.LinearAlgebra.Matrix.ConjTranspose
import Mathlib.LinearAlgebra.Matrix.Kronecker
import QV.Real
import QV.Model.Cplx
import QV.Lemmas.CplxTensor
import QV.Lemmas.CplxStorage
import QV.Lemmas.CplxEinsumEq
import QV.Lemmas.CplxHead
import QV.Lemmas.PyFlag

namespace QV.Props
namespace C15
open QV QV.Cplx
set_option linter.unusedSectionVars false

section anycarrier
variable {α : Type} [Add α] [Mul α] [Neg α] [Sub α] [Zero α] [One α]

/-- **make_complex(x, y)**: for equally shaped (well-formed) real tensors the result is the complex tensor
with real plane `x` and imaginary plane `y`. -/
theorem C15_make_complex {x y : Tensor α} (hs : y.shape = x.shape) (hx : WF x) (hy : WF y) :
    ∃ z, makeComplex x (some y) = .ok z ∧ IsCplx z x.shape ∧
      ∀ idx, Valid x.shape idx → centry z idx = (x.at idx, y.at idx) := by
  refine ⟨⟨2 :: x.shape, x.data ++ y.data⟩, ?_, isCplx_cat hs hx hy, fun idx hv => centry_cat hs hx hy hv⟩
  simp [makeComplex, cat2, hs]

/-- **make_complex(x)**: the imaginary part defaults to zero. -/
theorem C15_make_complex_none {x : Tensor α} (hx : WF x) :
    ∃ z, makeComplex x none = .ok z ∧ IsCplx z x.shape ∧
      ∀ idx, Valid x.shape idx → centry z idx = (x.at idx, 0) := by
  have hz : WF (zerosLike x) := by unfold WF at *; simpa [zerosLike] using hx
  refine ⟨⟨2 :: x.shape, x.data ++ (zerosLike x).data⟩, ?_, isCplx_cat (a := x) (b := zerosLike x) rfl hx hz, fun idx hv => ?_⟩
  · simp [makeComplex, cat2, zerosLike]
  · rw [centry_cat (a := x) (b := zerosLike x) rfl hx hz hv]
    have hlt : flatten x.shape idx < x.data.length := by rw [hx]; exact flatten_lt hv
    congr 1
    simp only [Tensor.at, zerosLike]
    rw [List.getD_eq_getElem _ _ (by simpa using hlt)]
    simp

/-- `make_complex` rejects exactly the pairs of different shape (`torch.cat` raises `RuntimeError`). -/
theorem C15_rejects_make_complex (x y : Tensor α) :
    makeComplex x (some y) = .error .RuntimeError ↔ x.shape ≠ y.shape := by
  unfold makeComplex cat2
  by_cases h : x.shape = y.shape <;> simp [h]

/-- **scalar_mult / elementwise_mult**: for every broadcastable pair of tensor shapes the result has the
broadcast shape and entry `idx` is the complex product of the operand entries the right-aligned broadcast
selects. -/
theorem C15_scalar_mult {x y : Tensor α} {sx sy r : List Nat} (hx : IsCplx x sx) (hy : IsCplx y sy)
    (hb : broadcastShape sx sy = .ok r) :
    ∃ z, scalarMult x y = .ok z ∧ IsCplx z r ∧
      ∀ idx, Valid r idx → centry z idx = C.mul (centry x (bidx sx idx)) (centry y (bidx sy idx)) := by
  unfold scalarMult
  rw [real_eq hx, real_eq hy, imag_eq hx, imag_eq hy]
  simp only [ok_bind]
  rw [bop_eq _ (reT x sx) (reT y sy) hb, bop_eq _ (imT x sx) (imT y sy) hb, bop_eq _ (reT x sx) (imT y sy) hb,
    bop_eq _ (imT x sx) (reT y sy) hb]
  simp only [ok_bind]
  refine cat2_spec _ rfl rfl (wf_zip_build _ _ _ _) (wf_zip_build _ _ _ _) ?_
  intro idx hv
  have hvv := broadcast_valid hb hv
  rw [at_zip_build _ _ _ _ hv, at_zip_build _ _ _ _ hv]
  simp only [reT_shape, imT_shape, reT_at hx hvv.1, reT_at hy hvv.2, imT_at hx hvv.1, imT_at hy hvv.2]
  rfl


/-- `elementwise_mult` IS `scalar_mult` (cplx.py:259-261). -/
theorem C15_elementwise_mult (x y : Tensor α) : elementwiseMult x y = scalarMult x y := rfl

/-- a pair that does not broadcast is rejected with torch's `RuntimeError`. -/
theorem C15_rejects_scalar_mult_shape {x y : Tensor α} {sx sy : List Nat} {e : PyErr} (hx : IsCplx x sx)
    (hy : IsCplx y sy) (hb : broadcastShape sx sy = .error e) : scalarMult x y = .error .RuntimeError := by
  unfold scalarMult
  rw [real_eq hx, real_eq hy]
  simp only [ok_bind]
  rw [bop_err _ (reT x sx) (reT y sy) hb, broadcastShape_err hb]
  rfl

/-- **real / imag**: the two planes of a complex tensor. -/
theorem C15_real_imag {x : Tensor α} {s : List Nat} (hx : IsCplx x s) :
    ∃ re im, real x = .ok re ∧ imag x = .ok im ∧ re.shape = s ∧ im.shape = s ∧ WF re ∧ WF im ∧
      ∀ idx, Valid s idx → (re.at idx, im.at idx) = centry x idx :=
  ⟨reT x s, imT x s, real_eq hx, imag_eq hx, rfl, rfl, reT_wf hx, imT_wf hx,
    fun idx hv => by rw [reT_at hx hv, imT_at hx hv]⟩

/-- `real` / `imag` raise `IndexError` exactly on tensors without a (long enough) leading axis. -/
theorem C15_rejects_real_imag (x : Tensor α) :
    (real x = .error .IndexError ↔ x.shape = [] ∨ x.shape.head? = some 0) ∧
    (imag x = .error .IndexError ↔ x.shape = [] ∨ x.shape.head? = some 0 ∨ x.shape.head? = some 1) := by
  unfold real imag
  constructor
  · split <;> simp_all
  · split <;> simp_all

/-- a tensor that is NOT a complex tensor (0-d, or leading axis of length 0 or 1) either has no real plane or no imaginary plane;
the model's only error there is `IndexError` (final pass, audit item C15-5) -/
theorem C15_rejects_not_complex_planes (x : Tensor α) (h : x.shape = [] ∨ x.shape.head? = some 0 ∨ x.shape.head? = some 1) :
    imag x = .error .IndexError ∧ (real x = .error .IndexError ∨ ∃ r, real x = .ok r) := by
  refine ⟨(C15_rejects_real_imag x).2.mpr h, ?_⟩
  unfold real
  split <;> simp

/-- **conj rejects** (`IndexError`) every tensor that is not a complex tensor: 0-d, leading axis of length 0 or 1
(final pass, audit item C15-5; a leading axis ≥ 3 is accepted, planes 0 and 1 are used: scope note in claims.d/C15.json). -/
theorem C15_rejects_conj (x : Tensor α) (h : x.shape = [] ∨ x.shape.head? = some 0 ∨ x.shape.head? = some 1) :
    conj x = .error .IndexError := by
  obtain ⟨hi, hr | ⟨r, hr⟩⟩ := C15_rejects_not_complex_planes x h
  · unfold conj; rw [hr]; rfl
  · unfold conj; rw [hr, hi]; rfl

/-- **conj**: entrywise complex conjugate, same shape, every rank. -/
theorem C15_conj {x : Tensor α} {s : List Nat} (hx : IsCplx x s) :
    ∃ z, conj x = .ok z ∧ IsCplx z s ∧ ∀ idx, Valid s idx → centry z idx = C.conj (centry x idx) := by
  unfold conj
  rw [real_eq hx, imag_eq hx]
  simp only [ok_bind, makeComplex_some]
  refine cat2_spec _ rfl rfl (reT_wf hx) (wf_map _ _ (imT_wf hx)) ?_
  intro idx hv
  rw [at_map _ _ (imT_wf hx) (by simpa using hv), reT_at hx hv, imT_at hx hv]
  rfl

/-- **conjugate** of a scalar or vector (`dim() < 3`) is the entrywise conjugate. -/
theorem C15_conjugate_low_rank {x : Tensor α} {s : List Nat} (hx : IsCplx x s) (hr : s.length < 2) :
    ∃ z, conjugate x = .ok z ∧ IsCplx z s ∧ ∀ idx, Valid s idx → centry z idx = C.conj (centry x idx) := by
  have : x.shape.length < 3 := by rw [hx.1]; simp; omega
  unfold conjugate
  rw [if_pos this]
  exact C15_conj hx

/-- **conjugate** of a matrix or higher-rank tensor is the CONJUGATE TRANSPOSE in the first two tensor axes:
shape `d1 :: d0 :: s`, entry `(j, i, rest) = conj (x (i, j, rest))`. -/
theorem C15_conjugate_transpose {x : Tensor α} {d0 d1 : Nat} {s : List Nat} (hx : IsCplx x (d0 :: d1 :: s)) :
    ∃ z, conjugate x = .ok z ∧ IsCplx z (d1 :: d0 :: s) ∧
      ∀ i j rest, Valid (d1 :: d0 :: s) (j :: i :: rest) →
        centry z (j :: i :: rest) = C.conj (centry x (i :: j :: rest)) := by
  have : ¬ x.shape.length < 3 := by rw [hx.1]; simp
  unfold conjugate
  rw [if_neg this, real_eq hx, imag_eq hx]
  simp only [ok_bind, transpose01, reT_shape, imT_shape, makeComplex_some]
  refine Exists.imp (fun z h => ⟨h.1, h.2.1, fun i j rest hv => h.2.2 (j :: i :: rest) hv⟩)
    (cat2_spec (s := d1 :: d0 :: s)
      (fun idx => match idx with
        | j :: i :: rest => C.conj (centry x (i :: j :: rest))
        | _ => (0, -0))
      (build_shape _ _) rfl (wf_build _ _) (wf_map _ _ (wf_build _ _)) ?_)
  intro idx hv
  rw [at_map _ _ (wf_build _ _) (by simpa using hv), at_build _ hv, at_build _ hv]
  match idx, hv with
  | j :: i :: rest, hv =>
    have hv' : Valid (d0 :: d1 :: s) (i :: j :: rest) := by
      simp only [valid_cons] at hv ⊢; tauto
    simp only [reT_at hx hv', imT_at hx hv']
    rfl

/-- **outer_prod**: `z[i, j] = x_i · conj(y_j)` for vectors of ANY two lengths. -/
theorem C15_outer_prod {x y : Tensor α} {n m : Nat} (hx : IsCplx x [n]) (hy : IsCplx y [m]) :
    ∃ z, outerProd x y = .ok z ∧ IsCplx z [n, m] ∧
      ∀ i j, i < n → j < m → centry z [i, j] = C.mul (centry x [i]) (C.conj (centry y [j])) := by
  have h2 : ¬ (x.shape.length ≠ 2 ∨ y.shape.length ≠ 2) := by rw [hx.1, hy.1]; simp
  unfold outerProd
  rw [if_neg h2, real_eq hx, real_eq hy, imag_eq hx, imag_eq hy]
  simp only [ok_bind, gerR, reT_shape, imT_shape, map_shape]
  refine Exists.imp (fun z h => ⟨h.1, h.2.1, fun i j hi hj => h.2.2 [i, j] (by simp [hi, hj])⟩)
    (cat2_spec (s := [n, m])
      (fun idx => C.mul (centry x [idx.getD 0 0]) (C.conj (centry y [idx.getD 1 0])))
      rfl rfl (wf_zip_build _ _ _ _) (wf_zip_build _ _ _ _) ?_)
  intro idx hv
  rw [at_zip_build _ _ _ _ hv, at_zip_build _ _ _ _ hv]
  match idx, hv with
  | [i, j], hv =>
    simp only [valid_cons] at hv
    have hi : Valid [n] [i] := by simp [hv.1]
    have hj : Valid [m] [j] := by simp [hv.2.1]
    simp only [List.getD_cons_zero, List.getD_cons_succ, reT_at hx hi, imT_at hx hi, reT_at hy hj,
      at_map _ _ (imT_wf hy) (idx := [j]) (by simpa using hj), imT_at hy hj]
    rfl

/-- `outer_prod` raises `ValueError` exactly when an operand is not a complex vector (`dim() != 2`). -/
theorem C15_rejects_outer_prod (x y : Tensor α) (h : x.shape.length ≠ 2 ∨ y.shape.length ≠ 2) :
    outerProd x y = .error .ValueError := by
  unfold outerProd; rw [if_pos h]


/-- **broadcasting is torch's right-aligned rule**: two tensor shapes are accepted iff, counting axes from the
RIGHT and treating missing axes as length 1 (`rdim`), every pair of lengths is equal or contains a 1; the result
has the longer rank and, at each position, the length that is not 1. -/
theorem C15_broadcast_shape (sx sy r : List Nat) : broadcastShape sx sy = .ok r ↔
    r.length = max sx.length sy.length ∧
    ∀ k, (rdim sx k = rdim sy k ∨ rdim sx k = 1 ∨ rdim sy k = 1) ∧
      rdim r k = if rdim sx k = 1 then rdim sy k else rdim sx k :=
  broadcastShape_iff

/-- **the broadcast index map is the right-aligned one**: for a result index `idx`, each operand is read at a
VALID multi-index of its own shape which, `k` positions from the right, is 0 where the operand's axis has length 1
and the result's own component otherwise (leading result axes the operand lacks are dropped). -/
theorem C15_broadcast_index {sx sy r idx : List Nat} (hb : broadcastShape sx sy = .ok r) (hv : Valid r idx) :
    (Valid sx (bidx sx idx) ∧ ∀ k, k < sx.length → ridx (bidx sx idx) k = if rdim sx k = 1 then 0 else ridx idx k) ∧
    (Valid sy (bidx sy idx) ∧ ∀ k, k < sy.length → ridx (bidx sy idx) k = if rdim sy k = 1 then 0 else ridx idx k) := by
  have hl := broadcast_length hb
  have hil := hv.length
  have hvv := broadcast_valid hb hv
  exact ⟨⟨hvv.1, (bidx_spec (by omega)).2⟩, ⟨hvv.2, (bidx_spec (by omega)).2⟩⟩

/-- **numpy(x)**: the complex array whose entry `idx` is the decoded entry of `x`. -/
theorem C15_numpy {x : Tensor α} {s : List Nat} (hx : IsCplx x s) :
    ∃ z : Tensor (C α), numpy x = .ok z ∧ z.shape = s ∧ z.data.length = numel s ∧
      ∀ idx, Valid s idx → z.data.getD (flatten s idx) (0, 0) = centry x idx := by
  have hl := hx.length
  unfold numpy
  rw [real_eq hx, imag_eq hx]
  simp only [ok_bind, pure_eq_ok]
  refine ⟨_, rfl, rfl, ?_, fun idx hv => ?_⟩
  · simp [reT, imT]; omega
  · have hlt := flatten_lt hv
    have hc : centry x idx = ((reT x s).at idx, (imT x s).at idx) := by rw [reT_at hx hv, imT_at hx hv]
    rw [hc]
    simp only [Tensor.at, reT_shape, imT_shape]
    rw [List.getD_eq_getElem _ _ (by simp [reT, imT]; omega), List.getElem_zipWith,
      List.getD_eq_getElem _ _ (by simp [reT]; omega), List.getD_eq_getElem _ _ (by simp [imT]; omega)]

/-- **make_complex(ndarray)** and **numpy** are inverse to each other: a complex array becomes the complex
tensor with the same entries, and converting back returns the array. -/
theorem C15_ofNdarray_numpy (z : Tensor (C α)) (hz : z.data.length = numel z.shape) :
    ∃ x, ofNdarray z = .ok x ∧ IsCplx x z.shape ∧
      (∀ idx, Valid z.shape idx → centry x idx = z.data.getD (flatten z.shape idx) (0, 0)) ∧
      numpy x = .ok z := by
  have hwr : WF (⟨z.shape, z.data.map (fun c => c.1)⟩ : Tensor α) := by simp [WF, hz]
  have hwi : WF (⟨z.shape, z.data.map (fun c => c.2)⟩ : Tensor α) := by simp [WF, hz]
  obtain ⟨x, hxo, hxc, hxe⟩ := cat2_spec (a := (⟨z.shape, z.data.map (fun c => c.1)⟩ : Tensor α))
    (b := ⟨z.shape, z.data.map (fun c => c.2)⟩) (s := z.shape)
    (fun idx => z.data.getD (flatten z.shape idx) (0, 0)) rfl rfl hwr hwi (by
      intro idx hv
      have hlt : flatten z.shape idx < z.data.length := by rw [hz]; exact flatten_lt hv
      simp only [Tensor.at]
      rw [List.getD_eq_getElem _ _ (by simpa using hlt), List.getD_eq_getElem _ _ (by simpa using hlt),
        List.getD_eq_getElem _ _ hlt]
      simp)
  refine ⟨x, by simpa [ofNdarray, makeComplex_some] using hxo, hxc, hxe, ?_⟩
  -- round trip
  have hx' : x = ⟨2 :: z.shape, z.data.map (fun c => c.1) ++ z.data.map (fun c => c.2)⟩ := by
    simp only [cat2, if_true, Except.ok.injEq] at hxo; exact hxo.symm
  unfold numpy
  rw [real_eq hxc, imag_eq hxc]
  simp only [ok_bind, pure_eq_ok, reT, imT, hx']
  have h1 : (z.data.map (fun c => c.1)).length = numel z.shape := by simp [hz]
  congr 1
  rw [List.take_left' h1, List.drop_left' h1, List.take_of_length_le (by simp [hz])]
  cases z with
  | mk sh d =>
    simp only
    clear hz hwr hwi hxo hxc hxe hx' h1
    induction d with
    | nil => rfl
    | cons c d _ => simp

/-- `y.to(x)`: the same object when the dtypes agree, otherwise a NEW object of `x`'s dtype; the values are
always those of `y`. -/
theorem C15_toLike (y x : Obj α) (fresh : Nat) :
    (y.dtype = x.dtype → toLike y x fresh = y) ∧
    (y.dtype ≠ x.dtype → (toLike y x fresh).id = fresh ∧ (toLike y x fresh).dtype = x.dtype) ∧
    (toLike y x fresh).t = y.t := by
  unfold toLike
  by_cases h : y.dtype = x.dtype <;> simp [h]

/-- **aliasing output buffers are rejected, whatever the dtypes and shapes**: `out is x` or `out is y` — tested on
the caller's ORIGINAL objects, before `y = y.to(x)` — gives `RuntimeError`. (Before fix b571e19 the test ran after the
cast, so a `y` of another dtype was overwritten.) -/
theorem C15_rejects_scalar_mult_alias (x y o : Obj α) (f1 f2 : Nat) (h : o.id = x.id ∨ o.id = y.id) :
    scalarMultO x y (some o) f1 f2 = .error .RuntimeError := by
  simp only [scalarMultO, if_pos h]

/-- for well-formed broadcastable operands, `RuntimeError` with an `out` buffer means aliasing and nothing else. -/
theorem C15_scalar_mult_alias_iff {x y o : Obj α} {sx sy r : List Nat} (f1 f2 : Nat) (hx : IsCplx x.t sx)
    (hy : IsCplx y.t sy) (hb : broadcastShape sx sy = .ok r) :
    scalarMultO x y (some o) f1 f2 = .error .RuntimeError ↔ (o.id = x.id ∨ o.id = y.id) := by
  have ht : (toLike y x f1).t = y.t := (C15_toLike y x f1).2.2
  constructor
  · intro h
    by_contra hna
    obtain ⟨z, hz, _, _⟩ := C15_scalar_mult hx hy hb
    simp only [scalarMultO, if_neg hna, ht, resultShape_eq hx hy hb, ok_bind] at h
    split at h
    · cases h
    · simp only [hz, ok_bind, pure_eq_ok] at h; cases h
  · exact C15_rejects_scalar_mult_alias x y o f1 f2

/-- **an `out=` buffer of the wrong shape is rejected** (fix 89aee63): for a non-aliasing buffer the call raises
`ValueError` IF AND ONLY IF the buffer's shape differs from the result shape `2 :: broadcast(sx, sy)` — a
broadcastable-but-different, larger, smaller or differently ranked buffer is never written. -/
theorem C15_rejects_scalar_mult_out_shape {x y o : Obj α} {sx sy r : List Nat} (f1 f2 : Nat) (hx : IsCplx x.t sx)
    (hy : IsCplx y.t sy) (hb : broadcastShape sx sy = .ok r) (hna : ¬ (o.id = x.id ∨ o.id = y.id)) :
    scalarMultO x y (some o) f1 f2 = .error .ValueError ↔ o.t.shape ≠ 2 :: r := by
  have ht : (toLike y x f1).t = y.t := (C15_toLike y x f1).2.2
  obtain ⟨z, hz, _, _⟩ := C15_scalar_mult hx hy hb
  simp only [scalarMultO, if_neg hna, ht, resultShape_eq hx hy hb, ok_bind]
  by_cases hs : o.t.shape = 2 :: r
  · simp [hs, hz]
  · simp [hs]

/-- **scalar_mult with `out=`, every accepted buffer**: a non-aliasing buffer of the result shape receives the
product — the returned object IS the buffer (its identity, its dtype), its value is the value computed without
`out` (entrywise complex product under broadcasting) and has the buffer's shape; without `out` a new object of
`x`'s dtype is returned. -/
theorem C15_scalar_mult_out {x y o : Obj α} {sx sy r : List Nat} (f1 f2 : Nat) (hx : IsCplx x.t sx)
    (hy : IsCplx y.t sy) (hb : broadcastShape sx sy = .ok r) :
    ∃ z, scalarMult x.t y.t = .ok z ∧ IsCplx z r ∧
      (∀ idx, Valid r idx → centry z idx = C.mul (centry x.t (bidx sx idx)) (centry y.t (bidx sy idx))) ∧
      scalarMultO x y none f1 f2 = .ok ⟨f2, x.dtype, z⟩ ∧
      (¬ (o.id = x.id ∨ o.id = y.id) → o.t.shape = 2 :: r →
        scalarMultO x y (some o) f1 f2 = .ok ⟨o.id, o.dtype, z⟩ ∧ z.shape = o.t.shape) := by
  have ht : (toLike y x f1).t = y.t := (C15_toLike y x f1).2.2
  obtain ⟨z, hz, hc, he⟩ := C15_scalar_mult hx hy hb
  refine ⟨z, hz, hc, he, ?_, fun hna hs => ⟨?_, by rw [hc.1, hs]⟩⟩
  · simp only [scalarMultO, ht, hz, ok_bind, pure_eq_ok]
  · simp only [scalarMultO, if_neg hna, ht, resultShape_eq hx hy hb, ok_bind, hs, ne_eq, not_true_eq_false,
      if_false, hz, pure_eq_ok]

/-- **out= buffers are judged by what they SHOW, not by where they live** (cplx.py:101-109 after fix 96aa40c): let `x`, `y`,
`o` be arbitrary strided views of one memory `m` — `o` may be non-contiguous (transposed buffer, column or stepped slice of a
workspace) and may share any number of cells with `x` and/or `y` (a different object on the same storage: `x[...]`,
`x.detach()`, overlapping windows), only its own entries must occupy distinct cells (`Nodup`: not an expanded view). If the
shape test passes, the call succeeds, what `o` shows afterwards is exactly `scalar_mult` of what `x` and `y` showed BEFORE the
call, and every cell outside `o` is unchanged.  (The pre-fix order — real part written before the imaginary part is computed
— does not satisfy this when `o` overlaps an operand.) -/
theorem C15_scalar_mult_out_storage (m : Nat → α) (x y o : View) {z : Tensor α}
    (hrs : resultShape (readView m x) (readView m y) = .ok o.shape)
    (hz : scalarMult (readView m x) (readView m y) = .ok z)
    (hlen : o.addr.length = z.data.length) (hnd : o.addr.Nodup) :
    ∃ m2, scalarMultMem m x y o = .ok (m2, z) ∧ ∀ a, a ∉ o.addr → m2 a = m a := by
  have hshape : z.shape = o.shape := scalarMult_shape hrs hz
  set n := numel (o.shape.drop 1) with hn
  set m1 := writeList m (o.addr.take n) (z.data.take n) with hm1
  set m2 := writeList m1 (o.addr.drop n) (z.data.drop n) with hm2
  have hsplit : (o.addr.take n ++ o.addr.drop n).Nodup := by rw [List.take_append_drop]; exact hnd
  have hdisj := List.disjoint_of_nodup_append hsplit
  refine ⟨m2, ?_, ?_⟩
  · have hread : readView m2 o = z := by
      have hdata : o.addr.map m2 = z.data := by
        conv_lhs => rw [← List.take_append_drop n o.addr]
        conv_rhs => rw [← List.take_append_drop n z.data]
        rw [List.map_append]
        congr 1
        · have : (o.addr.take n).map m2 = (o.addr.take n).map m1 :=
            List.map_congr_left (fun a ha => writeList_of_notMem _ _ _ _ (fun hd => hdisj ha hd))
          rw [this, hm1]
          exact map_writeList _ _ _ (List.nodup_append.mp hsplit).1 (by simp [hlen])
        · rw [hm2]
          exact map_writeList _ _ _ (List.nodup_append.mp hsplit).2.1 (by simp [hlen])
      cases z with
      | mk zs zd =>
        simp only [readView] at hdata ⊢
        simp only at hshape
        rw [hdata, hshape]
    simp only [scalarMultMem, hrs, ok_bind, ne_eq, not_true_eq_false, if_false, hz, pure_eq_ok]
    rw [← hn, ← hm1, ← hm2, hread]
  · intro a ha
    rw [hm2, writeList_of_notMem _ _ _ _ (fun h => ha (List.mem_of_mem_drop h)), hm1,
      writeList_of_notMem _ _ _ _ (fun h => ha (List.mem_of_mem_take h))]

/-- the same for well-formed complex operands: every correctly shaped, non-self-overlapping `out=` view — contiguous or
not, sharing storage with the operands or not — ends up showing the entrywise complex product (under broadcasting) of the
operands as they were; a view of any other shape is refused with `ValueError` (and nothing is written). -/
theorem C15_scalar_mult_out_view (m : Nat → α) (x y o : View) {sx sy r : List Nat}
    (hx : IsCplx (readView m x) sx) (hy : IsCplx (readView m y) sy) (hb : broadcastShape sx sy = .ok r) :
    (o.shape ≠ 2 :: r → scalarMultMem m x y o = .error .ValueError) ∧
    (o.shape = 2 :: r → o.addr.length = numel o.shape → o.addr.Nodup →
      ∃ m2 z, scalarMultMem m x y o = .ok (m2, z) ∧ IsCplx z r ∧
        (∀ idx, Valid r idx → centry z idx =
          C.mul (centry (readView m x) (bidx sx idx)) (centry (readView m y) (bidx sy idx))) ∧
        ∀ a, a ∉ o.addr → m2 a = m a) := by
  have hrs := resultShape_eq hx hy hb
  constructor
  · intro hne
    simp only [scalarMultMem, hrs, ok_bind, ne_eq, hne, not_false_eq_true, if_true]
  · intro hs hl hnd
    obtain ⟨z, hz, hc, he⟩ := C15_scalar_mult hx hy hb
    have hzl : o.addr.length = z.data.length := by
      have := hc.2; unfold WF at this; rw [this, hc.1, hl, hs]
    obtain ⟨m2, h2, hframe⟩ := C15_scalar_mult_out_storage m x y o (by rw [hs]; exact hrs) hz hzl hnd
    exact ⟨m2, z, h2, hc, he, hframe⟩

/-- **no accepted call returns a wrong object or a value of the wrong shape** — for ARBITRARY operands (well-formed
or not): whenever `scalar_mult(x, y, out=o)` returns, `o` aliases neither operand, the result is `o` itself (identity,
dtype), its value is exactly what `scalar_mult(x, y)` computes, and that value has `o`'s shape. -/
theorem C15_scalar_mult_out_sound (x y o res : Obj α) (f1 f2 : Nat)
    (h : scalarMultO x y (some o) f1 f2 = .ok res) :
    ¬ (o.id = x.id ∨ o.id = y.id) ∧ res.id = o.id ∧ res.dtype = o.dtype ∧
      scalarMult x.t y.t = .ok res.t ∧ res.t.shape = o.t.shape := by
  have ht : (toLike y x f1).t = y.t := (C15_toLike y x f1).2.2
  by_cases hna : o.id = x.id ∨ o.id = y.id
  · simp only [scalarMultO, if_pos hna] at h; cases h
  · simp only [scalarMultO, if_neg hna, ht] at h
    cases hrs : resultShape x.t y.t with
    | error e => rw [hrs] at h; cases h
    | ok rs =>
      rw [hrs] at h
      simp only [ok_bind] at h
      by_cases hs : o.t.shape = rs
      · simp only [hs, ne_eq, not_true_eq_false, if_false] at h
        cases hz : scalarMult x.t y.t with
        | error e => rw [hz] at h; cases h
        | ok z =>
          rw [hz] at h
          simp only [ok_bind, pure_eq_ok, Except.ok.injEq] at h
          subst h
          exact ⟨hna, rfl, rfl, rfl, by rw [hs]; exact scalarMult_shape hrs hz⟩
      · simp only [ne_eq, hs, not_false_eq_true, if_true] at h; cases h

end anycarrier
section ring
variable {R : Type} [CommRing R]

/-- **matmul, batched matrices** `(…, m, k) · (…, k, p)` with torch's broadcasting of the batch axes:
entry `(batch, i, j) = Σ_c x(batch_x, i, c) · y(batch_y, c, j)` (complex products, complex sum). -/
theorem C15_matmul_batched {x y : Tensor R} {xb yb bs : List Nat} {m k p : Nat}
    (hx : IsCplx x (xb ++ [m, k])) (hy : IsCplx y (yb ++ [k, p])) (hb : broadcastShape xb yb = .ok bs) :
    ∃ z, matmul x y = .ok z ∧ IsCplx z (bs ++ [m, p]) ∧
      ∀ bi i j, Valid bs bi → i < m → j < p →
        centry z (bi ++ [i, j]) = C.sum k (fun c =>
          C.mul (centry x (bidx xb bi ++ [i, c.val])) (centry y (bidx yb bi ++ [c.val, j]))) := by
  have hlx : ((xb ++ [m, k]).length == 1) = false := by simp
  have hly : ((yb ++ [k, p]).length == 1) = false := by simp
  obtain ⟨z, hz, hc, he⟩ := matmul_core (xb := xb) (yb := yb) (m := m) (k := k) (p := p) hx hy (by simp) (by simp)
    (by simp) (by simp) hb (by simp)
  simp only [hlx, hly, Bool.false_eq_true, if_false, List.append_assoc, List.cons_append, List.nil_append] at hc he
  refine ⟨z, hz, hc, fun bi i j hbi hi hj => ?_⟩
  have hl := hbi.length
  have hbv := broadcast_valid hb hbi
  rw [he (bi ++ [i, j]) bi i j ((valid_append hl).2 ⟨hbi, by simp [hi, hj]⟩) hbi hi hj rfl]
  congr 1
  funext c
  rw [pentry_self hx ((valid_append hbv.1.length).2 ⟨hbv.1, by simp [hi]⟩),
    pentry_self hy ((valid_append hbv.2.length).2 ⟨hbv.2, by simp [hj]⟩)]

/-- **matmul, matrix · matrix** (any `m, k, p`, non-square included). -/
theorem C15_matmul_mat_mat {x y : Tensor R} {m k p : Nat} (hx : IsCplx x [m, k]) (hy : IsCplx y [k, p]) :
    ∃ z, matmul x y = .ok z ∧ IsCplx z [m, p] ∧
      ∀ i j, i < m → j < p →
        centry z [i, j] = C.sum k (fun c => C.mul (centry x [i, c.val]) (centry y [c.val, j])) := by
  obtain ⟨z, hz, hc, he⟩ := C15_matmul_batched (xb := []) (yb := []) (bs := []) hx hy rfl
  exact ⟨z, hz, hc, fun i j hi hj => by simpa [bidx] using he [] i j valid_nil hi hj⟩

/-- **matmul, matrix · vector** (the form `_kron_mult` uses): `z_i = Σ_c x(i, c) · y_c`. -/
theorem C15_matmul_mat_vec {x y : Tensor R} {m k : Nat} (hx : IsCplx x [m, k]) (hy : IsCplx y [k]) :
    ∃ z, matmul x y = .ok z ∧ IsCplx z [m] ∧
      ∀ i, i < m → centry z [i] = C.sum k (fun c => C.mul (centry x [i, c.val]) (centry y [c.val])) := by
  obtain ⟨z, hz, hc, he⟩ := matmul_core (xb := []) (yb := []) (bs := []) (m := m) (k := k) (p := 1) hx hy
    (by simp) (by simp) (by simp) (by simp) rfl (by simp [numel])
  simp only [List.length_cons, List.length_nil, show ((0 + 1 + 1 == 1) = true) = False by simp,
    show ((0 + 1 == 1) = true) = True by simp, if_false, if_true, List.nil_append, List.append_nil] at hc he
  refine ⟨z, hz, hc, fun i hi => ?_⟩
  rw [he [i] [] i 0 (by simp [hi]) valid_nil hi (by omega) (by simp [flatten, numel])]
  congr 1
  funext c
  simp only [bidx, List.zipWith_nil_left, List.nil_append]
  rw [pentry_self hx (by simp [hi]), pentry_vec_right hy c.isLt]

/-- **matmul, batched matrices · one vector** `(…, m, k) · (k)`: `z(batch, i) = Σ_c x(batch, i, c) · y_c`. -/
theorem C15_matmul_batched_mat_vec {x y : Tensor R} {xb : List Nat} {m k : Nat}
    (hx : IsCplx x (xb ++ [m, k])) (hy : IsCplx y [k]) :
    ∃ z, matmul x y = .ok z ∧ IsCplx z (xb ++ [m]) ∧
      ∀ bi i, Valid xb bi → i < m →
        centry z (bi ++ [i]) = C.sum k (fun c => C.mul (centry x (bi ++ [i, c.val])) (centry y [c.val])) := by
  have hlx : ((xb ++ [m, k]).length == 1) = false := by simp
  obtain ⟨z, hz, hc, he⟩ := matmul_core (xb := xb) (yb := []) (bs := xb) (m := m) (k := k) (p := 1) hx hy
    (by simp) (by simp) (by simp) (by simp) (broadcastShape_nil_right xb) (by simp [numel_append, numel])
  simp only [hlx, Bool.false_eq_true, if_false, List.length_cons, List.length_nil,
    show ((0 + 1 == 1) = true) = True by simp, if_true, List.append_nil] at hc he
  refine ⟨z, hz, hc, fun bi i hbi hi => ?_⟩
  have hl := hbi.length
  rw [he (bi ++ [i]) bi i 0 ((valid_append hl).2 ⟨hbi, by simp [hi]⟩) hbi hi (by omega)
    (by rw [flatten_append hl, flatten_append hl]; simp [flatten, numel])]
  congr 1
  funext c
  rw [bidx_self hbi, bidx_nil, pentry_self hx ((valid_append hl).2 ⟨hbi, by simp [hi]⟩)]
  simp only [List.nil_append]
  rw [pentry_vec_right hy c.isLt]

/-- **matmul, one vector · batched matrices** `(k) · (…, k, p)` (torch promotes the vector to `1×k`, broadcasts it
over the batch axes and removes the added axis): `z(batch, j) = Σ_c x_c · y(batch, c, j)`. -/
theorem C15_matmul_vec_batched {x y : Tensor R} {yb : List Nat} {k p : Nat}
    (hx : IsCplx x [k]) (hy : IsCplx y (yb ++ [k, p])) :
    ∃ z, matmul x y = .ok z ∧ IsCplx z (yb ++ [p]) ∧
      ∀ bi j, Valid yb bi → j < p →
        centry z (bi ++ [j]) = C.sum k (fun c => C.mul (centry x [c.val]) (centry y (bi ++ [c.val, j]))) := by
  have hly : ((yb ++ [k, p]).length == 1) = false := by simp
  obtain ⟨z, hz, hc, he⟩ := matmul_core (xb := []) (yb := yb) (bs := yb) (m := 1) (k := k) (p := p) hx hy
    (by simp) (by simp) (by simp) (by simp) (broadcastShape_nil_left yb) (by simp [numel_append, numel])
  simp only [hly, Bool.false_eq_true, if_false, List.length_cons, List.length_nil,
    show ((0 + 1 == 1) = true) = True by simp, if_true, List.append_nil] at hc he
  refine ⟨z, hz, hc, fun bi j hbi hj => ?_⟩
  have hl := hbi.length
  rw [he (bi ++ [j]) bi 0 j ((valid_append hl).2 ⟨hbi, by simp [hj]⟩) hbi (by omega) hj
    (by rw [flatten_append hl, flatten_append hl]; simp [flatten, numel])]
  congr 1
  funext c
  rw [bidx_self hbi, bidx_nil, pentry_self hy ((valid_append hl).2 ⟨hbi, by simp [hj]⟩)]
  simp only [List.nil_append]
  rw [pentry_vec_left hx c.isLt]

/-- **matmul, vector · matrix**: `z_j = Σ_c x_c · y(c, j)`. -/
theorem C15_matmul_vec_mat {x y : Tensor R} {k p : Nat} (hx : IsCplx x [k]) (hy : IsCplx y [k, p]) :
    ∃ z, matmul x y = .ok z ∧ IsCplx z [p] ∧
      ∀ j, j < p → centry z [j] = C.sum k (fun c => C.mul (centry x [c.val]) (centry y [c.val, j])) := by
  obtain ⟨z, hz, hc, he⟩ := matmul_core (xb := []) (yb := []) (bs := []) (m := 1) (k := k) (p := p) hx hy
    (by simp) (by simp) (by simp) (by simp) rfl (by simp [numel])
  simp only [List.length_cons, List.length_nil, show ((0 + 1 + 1 == 1) = true) = False by simp,
    show ((0 + 1 == 1) = true) = True by simp, if_false, if_true, List.nil_append, List.append_nil] at hc he
  refine ⟨z, hz, hc, fun j hj => ?_⟩
  rw [he [j] [] 0 j (by simp [hj]) valid_nil (by omega) hj (by simp [flatten, numel])]
  congr 1
  funext c
  simp only [bidx, List.zipWith_nil_left, List.nil_append]
  rw [pentry_self hy (by simp [hj]), pentry_vec_left hx c.isLt]

/-- **matmul, vector · vector**: the (unconjugated) dot product, a complex scalar. -/
theorem C15_matmul_vec_vec {x y : Tensor R} {k : Nat} (hx : IsCplx x [k]) (hy : IsCplx y [k]) :
    ∃ z, matmul x y = .ok z ∧ IsCplx z [] ∧
      centry z [] = C.sum k (fun c => C.mul (centry x [c.val]) (centry y [c.val])) := by
  obtain ⟨z, hz, hc, he⟩ := matmul_core (xb := []) (yb := []) (bs := []) (m := 1) (k := k) (p := 1) hx hy
    (by simp) (by simp) (by simp) (by simp) rfl (by simp [numel])
  simp only [List.length_cons, List.length_nil, show ((0 + 1 == 1) = true) = True by simp, if_true,
    List.nil_append, List.append_nil] at hc he
  refine ⟨z, hz, hc, ?_⟩
  rw [he [] [] 0 0 valid_nil valid_nil (by omega) (by omega) (by simp [flatten, numel])]
  congr 1
  funext c
  simp only [bidx, List.zipWith_nil_left, List.nil_append]
  rw [pentry_vec_left hx c.isLt, pentry_vec_right hy c.isLt]

/-- `matmul` rejects a contraction-length mismatch (any ranks ≥ 1, vectors promoted as torch does) and
0-d operands with torch's `RuntimeError`. -/
theorem C15_rejects_matmul {x y : Tensor R} {sx sy : List Nat} (hx : IsCplx x sx) (hy : IsCplx y sy) :
    (sx = [] ∨ sy = [] → matmul x y = .error .RuntimeError) ∧
    (∀ xb yb m k k' p, sx ≠ [] → sy ≠ [] → (if sx.length == 1 then 1 :: sx else sx) = xb ++ [m, k] →
      (if sy.length == 1 then sy ++ [1] else sy) = yb ++ [k', p] → k ≠ k' → matmul x y = .error .RuntimeError) := by
  constructor
  · intro h
    unfold matmul
    rw [real_eq hx, real_eq hy]
    simp only [ok_bind]
    rw [matmulR_err_scalar (x := reT x sx) (y := reT y sy) (by simpa using h)]
    rfl
  · intro xb yb m k k' p hx0 hy0 hxs hys hk
    unfold matmul
    rw [real_eq hx, real_eq hy]
    simp only [ok_bind]
    rw [matmulR_err_inner (x := reT x sx) (y := reT y sy) (sx := sx) (sy := sy) rfl rfl hx0 hy0 hxs hys hk]
    rfl

/-- **inner_prod of vectors** `⟨x|y⟩ = Σ_c conj(x_c) · y_c`: conjugate-linear in the LEFT argument; the result
is a complex scalar of shape `(2,)`. -/
theorem C15_inner_prod_vec {x y : Tensor R} {n : Nat} (hx : IsCplx x [n]) (hy : IsCplx y [n]) :
    ∃ z, innerProd x y = .ok z ∧ IsCplx z [] ∧
      centry z [] = C.sum n (fun c => C.mul (C.conj (centry x [c.val])) (centry y [c.val])) := by
  have h2 : x.shape.length = 2 ∧ y.shape.length = 2 := by rw [hx.1, hy.1]; simp
  unfold innerProd
  rw [if_pos h2, real_eq hx, real_eq hy, imag_eq hx, imag_eq hy]
  simp only [ok_bind, dotR, reT_shape, imT_shape, if_true, makeComplex_some, Tensor.zip, List.zipWith_cons_cons,
    List.zipWith_nil_right, cat2, List.cons_append, List.nil_append]
  refine ⟨_, rfl, isCplx_scalar _ _, ?_⟩
  rw [centry_scalar, csum_eq]
  have hv : ∀ c : Fin n, Valid [n] [c.val] := fun c => by simp
  simp only [sumFin_eq, C.mul, C.conj, reT_at hx (hv _), imT_at hx (hv _), reT_at hy (hv _), imT_at hy (hv _)]
  refine Prod.ext ?_ ?_
  · simp only [← Finset.sum_add_distrib]
    exact Finset.sum_congr rfl (fun c _ => by ring)
  · simp only [← Finset.sum_sub_distrib]
    exact Finset.sum_congr rfl (fun c _ => by ring)

/-- **inner_prod of complex scalars**: `conj(x) · y`. -/
theorem C15_inner_prod_scalar {x y : Tensor R} (hx : IsCplx x []) (hy : IsCplx y []) :
    ∃ z, innerProd x y = .ok z ∧ IsCplx z [] ∧ centry z [] = C.mul (C.conj (centry x [])) (centry y []) := by
  have h2 : ¬ (x.shape.length = 2 ∧ y.shape.length = 2) := by rw [hx.1, hy.1]; simp
  have h1 : x.shape.length = 1 ∧ y.shape.length = 1 := by rw [hx.1, hy.1]; simp
  have hb : broadcastShape [] [] = .ok [] := rfl
  unfold innerProd
  rw [if_neg h2, if_pos h1, real_eq hx, real_eq hy, imag_eq hx, imag_eq hy]
  simp only [ok_bind]
  rw [bop_eq _ (reT x []) (reT y []) hb, bop_eq _ (imT x []) (imT y []) hb, bop_eq _ (reT x []) (imT y []) hb,
    bop_eq _ (imT x []) (reT y []) hb]
  simp only [ok_bind, makeComplex_some]
  refine Exists.imp (fun z h => ⟨h.1, h.2.1, h.2.2 [] valid_nil⟩)
    (cat2_spec (s := []) (fun _ => C.mul (C.conj (centry x [])) (centry y []))
      rfl rfl (wf_zip_build _ _ _ _) (wf_zip_build _ _ _ _) ?_)
  intro idx hv
  rw [at_zip_build _ _ _ _ hv, at_zip_build _ _ _ _ hv]
  cases hv
  simp only [reT_shape, imT_shape, bidx, List.zipWith_nil_left, reT_at hx valid_nil, imT_at hx valid_nil,
    reT_at hy valid_nil, imT_at hy valid_nil, C.mul, C.conj]
  refine Prod.ext ?_ ?_ <;> simp only <;> ring

/-- `inner_prod` raises `ValueError` for every rank combination other than vector·vector and scalar·scalar
(`dim()` counts the complex axis), and torch's `RuntimeError` for vectors of different lengths. -/
theorem C15_rejects_inner_prod (x y : Tensor R) :
    (¬ (x.shape.length = 2 ∧ y.shape.length = 2) → ¬ (x.shape.length = 1 ∧ y.shape.length = 1) →
      innerProd x y = .error .ValueError) ∧
    (∀ n m, IsCplx x [n] → IsCplx y [m] → n ≠ m → innerProd x y = .error .RuntimeError) := by
  constructor
  · intro h2 h1
    unfold innerProd
    rw [if_neg h2, if_neg h1]
  · intro n m hx hy hnm
    have h2 : x.shape.length = 2 ∧ y.shape.length = 2 := by rw [hx.1, hy.1]; simp
    unfold innerProd
    rw [if_pos h2, real_eq hx, real_eq hy]
    simp only [ok_bind, dotR, reT_shape, if_neg hnm]
    rfl

/-- **norm_sqr** of a complex vector: `Σ_c |x_c|²` (a real 0-d tensor); of a complex scalar: `|x|²`. -/
theorem C15_norm_sqr {x : Tensor R} :
    (∀ n, IsCplx x [n] → ∃ r, normSqr x = .ok r ∧ r.shape = [] ∧ WF r ∧
      r.at [] = ∑ c : Fin n, C.normSq (centry x [c.val])) ∧
    (IsCplx x [] → ∃ r, normSqr x = .ok r ∧ r.shape = [] ∧ WF r ∧ r.at [] = C.normSq (centry x [])) := by
  constructor
  · intro n hx
    obtain ⟨z, hz, hc, he⟩ := C15_inner_prod_vec hx hx
    unfold normSqr
    rw [hz]
    simp only [ok_bind, real_eq hc]
    refine ⟨_, rfl, rfl, reT_wf hc, ?_⟩
    rw [reT_at hc valid_nil, he, csum_eq]
    simp only [C.mul, C.conj, C.normSq]
    exact Finset.sum_congr rfl (fun c _ => by ring)
  · intro hx
    obtain ⟨z, hz, hc, he⟩ := C15_inner_prod_scalar hx hx
    unfold normSqr
    rw [hz]
    simp only [ok_bind, real_eq hc]
    refine ⟨_, rfl, rfl, reT_wf hc, ?_⟩
    rw [reT_at hc valid_nil, he]
    simp only [C.mul, C.conj, C.normSq]
    ring

/-! #### Einstein summation -/

/-- length of label `l` in `einsum eq` on operands of tensor shapes `sa`, `sb` -/
abbrev einSize (eq : EinEq) (sa sb : List Nat) (l : Nat) : Nat := (labelSize eq sa sb l).getD 0

/-- SPECIFICATION: the complex terms `a[…] · b[…]` of output entry `idx`, one for every assignment `sidx` of
the contracted labels (all valid multi-indices of their lengths, each once: `C15_allIdx_spec`). -/
def einTerms (eq : EinEq) (a b : Tensor R) (sa sb : List Nat) (idx : List Nat) : List (C R) :=
  (allIdx ((sumLabels eq).map (einSize eq sa sb))).map (fun sidx =>
    C.mul (centry a (opIdx eq.a sa (eq.out.zip idx ++ (sumLabels eq).zip sidx)))
      (centry b (opIdx eq.b sb (eq.out.zip idx ++ (sumLabels eq).zip sidx))))

/-- the summation range of `einsum` is the set of all valid multi-indices, each exactly once -/
theorem C15_allIdx_spec (s idx : List Nat) : (idx ∈ allIdx s ↔ Valid s idx) ∧ (allIdx s).Nodup :=
  ⟨mem_allIdx, nodup_allIdx s⟩

/-- the contracted labels are exactly the operand labels missing from the output, each once -/
theorem C15_sumLabels_spec (eq : EinEq) (l : Nat) :
    (l ∈ sumLabels eq ↔ (l ∈ eq.a ∨ l ∈ eq.b) ∧ l ∉ eq.out) ∧ (sumLabels eq).Nodup :=
  ⟨mem_sumLabels, (nodup_dedup _).filter _⟩

/-- every operand entry read by an einsum term is a genuine entry (valid multi-index) of the operand -/
theorem C15_einsum_reads_valid {eq : EinEq} {sa sb idx sidx : List Nat} (hok : einOk eq sa sb = true)
    (ho : Valid (eq.out.map (einSize eq sa sb)) idx) (hs : Valid ((sumLabels eq).map (einSize eq sa sb)) sidx) :
    Valid sa (opIdx eq.a sa (eq.out.zip idx ++ (sumLabels eq).zip sidx)) ∧
    Valid sb (opIdx eq.b sb (eq.out.zip idx ++ (sumLabels eq).zip sidx)) :=
  valid_opIdx hok ho hs

/-- real-part branch of `einsum` (`rr − ii`) = real part of the complex Einstein sum -/
theorem C15_einsum_real_part {a b : Tensor R} {sa sb : List Nat} (eq : EinEq) (ha : IsCplx a sa) (hb : IsCplx b sb)
    (hok : einOk eq sa sb = true) :
    ∃ r, einsumRe eq a b = .ok r ∧ r.shape = eq.out.map (einSize eq sa sb) ∧ WF r ∧
      ∀ idx, Valid (eq.out.map (einSize eq sa sb)) idx → r.at idx = (cpairSum (einTerms eq a b sa sb idx)).1 := by
  unfold einsumRe
  rw [real_eq ha, real_eq hb, imag_eq ha, imag_eq hb]
  simp only [ok_bind]
  rw [einsumR_eq (x := reT a sa) (y := reT b sb) (sa := sa) (sb := sb) rfl rfl hok,
    einsumR_eq (x := imT a sa) (y := imT b sb) (sa := sa) (sb := sb) rfl rfl hok]
  simp only [ok_bind, pure_eq_ok]
  rw [zip_build]
  refine ⟨_, rfl, rfl, wf_build _ _, fun idx hv => ?_⟩
  rw [at_build _ hv, lsum_eq_sum, lsum_eq_sum, list_sum_map_sub]
  simp only [cpairSum, einTerms, List.map_map]
  congr 1
  refine List.map_congr_left (fun sidx hs => ?_)
  have hvv := valid_opIdx hok hv (mem_allIdx.1 hs)
  simp only [Function.comp, reT_at ha hvv.1, imT_at ha hvv.1, reT_at hb hvv.2, imT_at hb hvv.2, C.mul]

/-- imaginary-part branch of `einsum` (`ri + ir`) = imaginary part of the complex Einstein sum -/
theorem C15_einsum_imag_part {a b : Tensor R} {sa sb : List Nat} (eq : EinEq) (ha : IsCplx a sa) (hb : IsCplx b sb)
    (hok : einOk eq sa sb = true) :
    ∃ r, einsumIm eq a b = .ok r ∧ r.shape = eq.out.map (einSize eq sa sb) ∧ WF r ∧
      ∀ idx, Valid (eq.out.map (einSize eq sa sb)) idx → r.at idx = (cpairSum (einTerms eq a b sa sb idx)).2 := by
  unfold einsumIm
  rw [real_eq ha, real_eq hb, imag_eq ha, imag_eq hb]
  simp only [ok_bind]
  rw [einsumR_eq (x := reT a sa) (y := imT b sb) (sa := sa) (sb := sb) rfl rfl hok,
    einsumR_eq (x := imT a sa) (y := reT b sb) (sa := sa) (sb := sb) rfl rfl hok]
  simp only [ok_bind, pure_eq_ok]
  rw [zip_build]
  refine ⟨_, rfl, rfl, wf_build _ _, fun idx hv => ?_⟩
  rw [at_build _ hv, lsum_eq_sum, lsum_eq_sum, list_sum_map_add]
  simp only [cpairSum, einTerms, List.map_map]
  congr 1
  refine List.map_congr_left (fun sidx hs => ?_)
  have hvv := valid_opIdx hok hv (mem_allIdx.1 hs)
  simp only [Function.comp, reT_at ha hvv.1, imT_at ha hvv.1, reT_at hb hvv.2, imT_at hb hvv.2, C.mul]

/-- **einsum** (both parts) for ANY accepted two-operand equation (repeated labels, contracted labels, permuted
outputs, size-1 broadcasting): output entry `idx` is the complex sum over all assignments of the contracted labels
of the complex products `a[…]·b[…]` — i.e. `Re = rr − ii`, `Im = ri + ir` of the real contractions. -/
theorem C15_einsum {a b : Tensor R} {sa sb : List Nat} (eq : EinEq) (ha : IsCplx a sa) (hb : IsCplx b sb)
    (hok : einOk eq sa sb = true) :
    ∃ z, einsum eq a b true true = .ok (.cplx z) ∧ einsumFull eq a b = .ok z ∧
      IsCplx z (eq.out.map (einSize eq sa sb)) ∧
      ∀ idx, Valid (eq.out.map (einSize eq sa sb)) idx → centry z idx = cpairSum (einTerms eq a b sa sb idx) := by
  obtain ⟨r, hr, hrs, hrw, hre⟩ := C15_einsum_real_part eq ha hb hok
  obtain ⟨i, hi, his, hiw, hie⟩ := C15_einsum_imag_part eq ha hb hok
  obtain ⟨z, hz, hc, he⟩ := cat2_spec (a := r) (b := i) (fun idx => cpairSum (einTerms eq a b sa sb idx)) hrs his hrw hiw
    (fun idx hv => by rw [hre idx hv, hie idx hv])
  have hfull : einsumFull eq a b = .ok z := by
    unfold einsumFull; rw [hr, hi]; simpa [makeComplex_some] using hz
  refine ⟨z, ?_, hfull, hc, he⟩
  simp only [einsum, hfull, ok_bind, pure_eq_ok]

/-- **einsum flags**: `real_part` only returns the REAL tensor `Re(einsum)`, `imag_part` only `Im(einsum)`,
neither returns `None`. -/
theorem C15_einsum_flags {a b : Tensor R} {sa sb : List Nat} (eq : EinEq) (ha : IsCplx a sa) (hb : IsCplx b sb)
    (hok : einOk eq sa sb = true) :
    (∃ r, einsum eq a b true false = .ok (.re r) ∧ r.shape = eq.out.map (einSize eq sa sb) ∧ WF r ∧
      ∀ idx, Valid (eq.out.map (einSize eq sa sb)) idx → r.at idx = (cpairSum (einTerms eq a b sa sb idx)).1) ∧
    (∃ r, einsum eq a b false true = .ok (.re r) ∧ r.shape = eq.out.map (einSize eq sa sb) ∧ WF r ∧
      ∀ idx, Valid (eq.out.map (einSize eq sa sb)) idx → r.at idx = (cpairSum (einTerms eq a b sa sb idx)).2) ∧
    einsum eq a b false false = .ok .none := by
  obtain ⟨r, hr, hrs, hrw, hre⟩ := C15_einsum_real_part eq ha hb hok
  obtain ⟨i, hi, his, hiw, hie⟩ := C15_einsum_imag_part eq ha hb hok
  refine ⟨⟨r, ?_, hrs, hrw, hre⟩, ⟨i, ?_, his, hiw, hie⟩, rfl⟩
  · simp only [einsum, hr, ok_bind, pure_eq_ok]
  · simp only [einsum, hi, ok_bind, pure_eq_ok]

/-- **einsum, the OBJECTS passed as `real_part` / `imag_part`** (documented as `bool`; callers also pass `1` / `0`, `numpy.bool_`
values, 0-dim bool arrays / tensors): whatever object of whatever kind says `p` resp. `q`, the call is the call with the singletons
`p`, `q` — so every theorem about `einsumS` / `einsum` (`C15_einsum_string`, `C15_einsum`, `C15_einsum_flags`, …) applies to it.
(A slip `if real_part is True` would be `isTrueSingleton` in the model: `numpy.True_`, `1` would select nothing.) -/
theorem C15_einsum_flag (raw : RawEq) (a b : Tensor R) (rp ip : PyFlag) :
    einsumF raw a b rp ip = einsumS raw a b rp.truthy ip.truthy ∧
    ∀ (f g : Nat) (p q : Bool), einsumF raw a b (PyFlag.ofBool f p) (PyFlag.ofBool g q) = einsumS raw a b p q := by
  refine ⟨rfl, fun f g p q => ?_⟩
  unfold einsumF
  rw [PyFlag.truthy_ofBool, PyFlag.truthy_ofBool]

/-- **einsum rejects** (torch `RuntimeError`) exactly the equations / shapes that fail `einOk`: wrong number of
subscripts, a label repeated inside an operand with different lengths, lengths that do not broadcast between the
operands, a repeated or unknown output label — whenever a part is requested. -/
theorem C15_rejects_einsum {a b : Tensor R} {sa sb : List Nat} (eq : EinEq) (ha : IsCplx a sa) (hb : IsCplx b sb)
    (hok : einOk eq sa sb = false) (rp ip : Bool) (h : rp = true ∨ ip = true) :
    einsum eq a b rp ip = .error .RuntimeError := by
  have hre : einsumRe eq a b = .error .RuntimeError := by
    unfold einsumRe
    rw [real_eq ha, real_eq hb]
    simp only [ok_bind]
    rw [einsumR_err (x := reT a sa) (y := reT b sb) (sa := sa) (sb := sb) rfl rfl hok]; rfl
  have him : einsumIm eq a b = .error .RuntimeError := by
    unfold einsumIm
    rw [real_eq ha, imag_eq hb]
    simp only [ok_bind]
    rw [einsumR_err (x := reT a sa) (y := imT b sb) (sa := sa) (sb := sb) rfl rfl hok]; rfl
  cases rp <;> cases ip <;> simp_all [einsum, einsumFull]

/-! #### the equation string: implicit output, ellipsis (everything `torch.einsum` accepts for two operands) -/

/-- **explicit equations without ellipsis are taken as written** (so every theorem above applies to them), provided each
operand has one subscript per axis; otherwise torch's `RuntimeError`. -/
theorem C15_einsum_explicit_equation (a b o sa sb : List Nat) :
    elabEq ⟨a.map Tok.lab, b.map Tok.lab, some (o.map Tok.lab)⟩ sa sb
      = if a.length = sa.length ∧ b.length = sb.length then .ok ⟨a, b, o⟩ else .error .RuntimeError := by
  unfold elabEq ellCover
  simp only [labels_map_lab, ellCount_map_lab, expandSub_map_lab]
  by_cases h1 : a.length = sa.length <;> by_cases h2 : b.length = sb.length <;> simp [h1, h2]

/-- **implicit output** (`"ij,jk"`, no `->`): the operands' subscripts are kept and the output consists of exactly the
labels that occur ONCE in the two operands together, in strictly increasing order of their character codes. -/
theorem C15_einsum_implicit_output (a b sa sb : List Nat) :
    elabEq ⟨a.map Tok.lab, b.map Tok.lab, none⟩ sa sb
      = (if a.length = sa.length ∧ b.length = sb.length then .ok ⟨a, b, onceLabels (a ++ b)⟩ else .error .RuntimeError) ∧
    (∀ l, l ∈ onceLabels (a ++ b) ↔ (a ++ b).count l = 1) ∧ (onceLabels (a ++ b)).Pairwise (· < ·) := by
  refine ⟨?_, fun l => mem_onceLabels, onceLabels_sorted _⟩
  unfold elabEq ellCover
  simp only [labels_map_lab, ellCount_map_lab, expandSub_map_lab]
  by_cases h1 : a.length = sa.length <;> by_cases h2 : b.length = sb.length <;> simp [h1, h2, ellLabels]

/-- **ellipsis**: what an accepted raw equation is turned into. Each operand has at most one `...`, which covers the
`k = rank − #named` axes its named subscripts leave over (`ellCover`); the equation gets `K = max ka kb` ellipsis labels, all
larger than every named label (fresh); each operand's `...` is replaced by its labels (`expandSub`, see
`C15_einsum_ellipsis_alignment`), after which it has one label per axis; an explicit output has at most one `...`,
replaced by ALL `K` labels (without it the ellipsis axes are contracted like any label missing from the output:
`C15_sumLabels_spec`); an implicit output is the `K` ellipsis labels followed by the sorted once-only labels. -/
theorem C15_einsum_ellipsis_spec {raw : RawEq} {sa sb : List Nat} {eq : EinEq} (h : elabEq raw sa sb = .ok eq) :
    ∃ ka kb base, ellCover raw.a sa.length = some ka ∧ ellCover raw.b sb.length = some kb ∧
      eq.a = expandSub base (max ka kb) ka raw.a ∧ eq.b = expandSub base (max ka kb) kb raw.b ∧
      eq.a.length = sa.length ∧ eq.b.length = sb.length ∧
      (∀ l ∈ Tok.labels raw.a ++ Tok.labels raw.b, l < base) ∧
      (raw.out = none →
        eq.out = ellLabels base (max ka kb) (max ka kb) ++ onceLabels (Tok.labels raw.a ++ Tok.labels raw.b)) ∧
      (∀ o, raw.out = some o → Tok.ellCount o ≤ 1 ∧ eq.out = expandSub base (max ka kb) (max ka kb) o ∧
        ∀ l ∈ Tok.labels o, l < base) := by
  unfold elabEq at h
  rcases hka : ellCover raw.a sa.length with _ | ka
  · simp [hka] at h
  rcases hkb : ellCover raw.b sb.length with _ | kb
  · simp [hka, hkb] at h
  simp only [hka, hkb] at h
  have hlen : ∀ {ts : List Tok} {r k : Nat} (base K : Nat), ellCover ts r = some k →
      (expandSub base K k ts).length = r := by
    intro ts r k base K hc
    rw [expandSub_length]
    rcases ellCover_eq_some.1 hc with ⟨h0, h1, h2⟩ | ⟨h0, h1⟩
    · rw [h0, h1]; simp
    · rw [h0]; omega
  rcases ho : raw.out with _ | o
  · simp only [ho, List.append_nil] at h
    cases h
    have hb := le_foldl_max (Tok.labels raw.a ++ Tok.labels raw.b) 0
    exact ⟨ka, kb, _, rfl, rfl, rfl, rfl, hlen _ _ hka, hlen _ _ hkb, fun l hl => Nat.lt_succ_of_le (hb.2 l hl),
      fun _ => rfl, fun o ho' => (by cases ho')⟩
  · simp only [ho] at h
    split_ifs at h with he
    cases h
    have hb := le_foldl_max (Tok.labels raw.a ++ Tok.labels raw.b ++ Tok.labels o) 0
    refine ⟨ka, kb, _, rfl, rfl, rfl, rfl, hlen _ _ hka, hlen _ _ hkb,
      fun l hl => Nat.lt_succ_of_le (hb.2 l (List.mem_append_left _ hl)), fun hn => (by cases hn), fun o' ho' => ?_⟩
    cases ho'
    exact ⟨he, rfl, fun l hl => Nat.lt_succ_of_le (hb.2 l (List.mem_append_right _ hl))⟩

/-- **ellipsis alignment**: in an operand `pre ... post` the named labels keep their places around the ellipsis labels;
the `K` ellipsis labels are `base, …, base+K-1`; an ellipsis covering `k ≤ K` axes carries the LAST `k` of them, i.e. the
axis `j` positions from the right end of ANY operand's ellipsis carries the same label `base + (K-1-j)`: ellipsis axes
are matched from the right (and then broadcast by the size rule of `einOk`, like named labels). -/
theorem C15_einsum_ellipsis_alignment (base : Nat) {K k : Nat} (hk : k ≤ K) (pre post : List Nat) :
    expandSub base K k (pre.map Tok.lab ++ Tok.ell :: post.map Tok.lab) = pre ++ ellLabels base K k ++ post ∧
    ellLabels base K K = (List.range K).map (fun i => base + i) ∧
    ellLabels base K k = (ellLabels base K K).drop (K - k) ∧
    ∀ j, j < k → (ellLabels base K k).reverse[j]? = some (base + (K - 1 - j)) := by
  refine ⟨?_, ellLabels_full base K, ellLabels_suffix base hk, fun j hj => ellLabels_from_right base hk hj⟩
  rw [expandSub_append, expandSub_map_lab]
  simp [expandSub, expandSub_map_lab]

/-- **einsum on an equation string**: an accepted string behaves as its elaborated explicit equation (to which
`C15_einsum`, `C15_einsum_flags`, `C15_rejects_einsum` apply); a string torch rejects raises `RuntimeError` as soon as a
part is requested; with neither part requested the result is `None` whatever the string. -/
theorem C15_einsum_string {a b : Tensor R} {sa sb : List Nat} (raw : RawEq) (ha : IsCplx a sa) (hb : IsCplx b sb)
    (rp ip : Bool) :
    (∀ eq, elabEq raw sa sb = .ok eq → einsumS raw a b rp ip = einsum eq a b rp ip) ∧
    (∀ e, elabEq raw sa sb = .error e → rp = true ∨ ip = true → einsumS raw a b rp ip = .error .RuntimeError) ∧
    einsumS raw a b false false = .ok .none := by
  have hsa : a.shape.drop 1 = sa := by rw [ha.1]; rfl
  have hsb : b.shape.drop 1 = sb := by rw [hb.1]; rfl
  refine ⟨fun eq h => ?_, fun e h hp => ?_, ?_⟩
  · unfold einsumS; rw [hsa, hsb, h]
  · unfold einsumS; rw [hsa, hsb, h]
    exact C15_rejects_einsum badEq ha hb (by simp [einOk, badEq]) rp ip hp
  · unfold einsumS; split <;> rfl

/-- **kronecker_prod** for arbitrary (NON-SQUARE) matrices `a×b`, `c×d`: shape `(a·c)×(b·d)` and
entry `(i·c + k, j·d + l) = x_ij · y_kl`. -/
theorem C15_kronecker_prod {x y : Tensor R} {a b c d : Nat} (hx : IsCplx x [a, b]) (hy : IsCplx y [c, d]) :
    ∃ w, kroneckerProd x y = .ok w ∧ IsCplx w [a * c, b * d] ∧
      ∀ i k j l, i < a → k < c → j < b → l < d →
        centry w [i * c + k, j * d + l] = C.mul (centry x [i, j]) (centry y [k, l]) := by
  have hok : einOk kronEq [a, b] [c, d] = true := by
    simp [einOk, kronEq, operandOk, labelDim, labelSize, List.lookup, nodupB]
  obtain ⟨z, _, hz, hc, he⟩ := C15_einsum kronEq hx hy hok
  have hsh : kronEq.out.map (einSize kronEq [a, b] [c, d]) = [a, c, b, d] := by
    simp [kronEq, einSize, labelSize, labelDim, List.lookup]
  rw [hsh] at hc he
  have h3 : ¬ ¬ (x.shape.length = y.shape.length ∧ y.shape.length = 3) := by rw [hx.1, hy.1]; simp
  unfold kroneckerProd
  rw [if_neg h3, hz]
  simp only [ok_bind, hx.1, hy.1, List.getD_cons_succ, List.getD_cons_zero, reshape, hc.1]
  have hnum : numel [2, a, c, b, d] = numel [2, a * c, b * d] := by simp only [numel]; ring
  rw [if_pos hnum]
  have hlen := hc.length
  refine ⟨_, rfl, ⟨rfl, ?_⟩, ?_⟩
  · unfold WF; simp only; rw [hlen]; simp only [numel]; ring
  · intro i k j l hi hk hj hl
    have hv : Valid [a, c, b, d] [i, k, j, l] := by simp [hi, hk, hj, hl]
    have hf : ∀ e, flatten [2, a * c, b * d] [e, i * c + k, j * d + l] = flatten z.shape [e, i, k, j, l] := by
      intro e; rw [hc.1]; simp only [flatten, numel]; ring
    have hw : centry (⟨[2, a * c, b * d], z.data⟩ : Tensor R) [i * c + k, j * d + l] = centry z [i, k, j, l] := by
      simp only [centry]; rw [at_view z (hf 0), at_view z (hf 1)]
    rw [hw, he _ hv]
    have hs0 : sumLabels kronEq = [] := by decide
    simp only [einTerms, cpairSum, hs0, List.map_nil, allIdx, List.map_cons, List.sum_cons, List.sum_nil, add_zero,
      List.zip_nil_right, List.append_nil]
    simp only [kronEq, opIdx, List.zip_cons_cons, List.zip_nil_right, List.map_cons, List.map_nil,
      envVal, List.lookup]
    have e1 : (if a = 1 then 0 else i) = i := by split_ifs with h <;> omega
    have e2 : (if b = 1 then 0 else j) = j := by split_ifs with h <;> omega
    have e3 : (if c = 1 then 0 else k) = k := by split_ifs with h <;> omega
    have e4 : (if d = 1 then 0 else l) = l := by split_ifs with h <;> omega
    simp [e1, e2, e3, e4]

/-- `kronecker_prod` raises `ValueError` unless both operands are complex matrices (`dim() == 3`). -/
theorem C15_rejects_kronecker_prod (x y : Tensor R) (h : ¬ (x.shape.length = y.shape.length ∧ y.shape.length = 3)) :
    kroneckerProd x y = .error .ValueError := by
  unfold kroneckerProd; rw [if_pos h]

end ring
/-! ### ℂ: meaning of the pair operations, division, modulus, sigmoid -/
section complex
open Complex

/-- **decoding**: the pair operations used in the statements above ARE complex arithmetic. -/
theorem C15_dec_ops (a b : C ℝ) :
    dec (C.mul a b) = dec a * dec b ∧ dec (C.conj a) = (starRingEnd ℂ) (dec a) ∧ dec (C.add a b) = dec a + dec b ∧
    C.normSq a = Complex.normSq (dec a) ∧ Function.Injective dec :=
  ⟨dec_mul a b, dec_conj a, dec_add a b, dec_normSq a, dec_injective⟩

/-- **decoding of sums**: `C.sum` is `∑` in ℂ and `cpairSum` is the list sum in ℂ. -/
theorem C15_dec_sums (n : ℕ) (f : Fin n → C ℝ) (l : List (C ℝ)) :
    dec (C.sum n f) = ∑ i, dec (f i) ∧ dec (cpairSum l) = (l.map dec).sum :=
  ⟨dec_sum n f, dec_cpairSum l⟩

/-- **hypot**: the scaled formula the model (and C99 / `torch.hypot`) uses for the modulus IS `√(a² + b²)`, for all
reals including `a = b = 0` (where the scale is 0 and the formula must not divide). -/
theorem C15_hypot (a b : ℝ) : hypot a b = Real.sqrt (a * a + b * b) ∧ hypot a b = ‖dec (a, b)‖ :=
  ⟨hypot_eq a b, hypot_eq_norm (a, b)⟩

/-- **why the scaled forms cannot overflow**: for a non-zero entry the components divided by the larger one lie in
`[-1, 1]` and `|z/scale|²` in `[1, 2]` — the quantities `inverse`, `elementwise_division` and `hypot` square are of
order 1 whatever the magnitude of `z` (the pre-repair code squared `z` itself). -/
theorem C15_scaled_operand_range {z : Tensor ℝ} {s : List Nat} (hz : IsCplx z s) :
    ∃ sc w, cscale z = .ok sc ∧ bop (fun a b => a / b) z sc = .ok w ∧ IsCplx w s ∧
      ∀ idx, Valid s idx → dec (centry z idx) ≠ 0 →
        0 < sc.at idx ∧ dec (centry w idx) = dec (centry z idx) / (sc.at idx : ℂ) ∧
        |(centry w idx).1| ≤ 1 ∧ |(centry w idx).2| ≤ 1 ∧ 1 ≤ C.normSq (centry w idx) ∧ C.normSq (centry w idx) ≤ 2 := by
  obtain ⟨hss, hsw, hse⟩ := zip_planes (fun a b : ℝ => Transc.max (Transc.abs a) (Transc.abs b)) hz
  obtain ⟨w, hw, hwc, hwe⟩ := bop_planes (fun a b : ℝ => a / b) hz hss
  refine ⟨_, w, by unfold cscale; rw [real_eq hz, imag_eq hz]; rfl, hw, hwc, fun idx hv hne => ?_⟩
  have hpos := cscale_pos hne
  obtain ⟨h1, h2, h3, h4⟩ := scaled_bounds (centry z idx).1 (centry z idx).2 hpos
  rw [hwe idx hv, hse idx hv]
  simp only [transc_max, transc_abs]
  refine ⟨hpos, ?_, h1, h2, h3, h4⟩
  apply Complex.ext <;> simp [Complex.div_re, Complex.div_im, Complex.normSq_apply] <;> field_simp

/-- **absolute_value**: the complex modulus, entrywise, every rank. -/
theorem C15_absolute_value {x : Tensor ℝ} {s : List Nat} (hx : IsCplx x s) :
    ∃ r, absoluteValue x = .ok r ∧ r.shape = s ∧ WF r ∧ ∀ idx, Valid s idx → r.at idx = ‖dec (centry x idx)‖ := by
  obtain ⟨hss, hsw, hse⟩ := zip_planes (hypot (α := ℝ)) hx
  unfold absoluteValue
  rw [real_eq hx, imag_eq hx]
  simp only [ok_bind, pure_eq_ok]
  refine ⟨_, rfl, hss, hsw, fun idx hv => ?_⟩
  rw [hse idx hv]
  exact hypot_eq_norm _

/-- **elementwise_division**: `x / y` entrywise for equally shaped operands, at every entry where `y ≠ 0`
(at `y = 0` the code yields `nan`; recorded in notes/C15.md). -/
theorem C15_elementwise_division {x y : Tensor ℝ} {s : List Nat} (hx : IsCplx x s) (hy : IsCplx y s) :
    ∃ z, elementwiseDivision x y = .ok z ∧ IsCplx z s ∧
      ∀ idx, Valid s idx → dec (centry y idx) ≠ 0 → dec (centry z idx) = dec (centry x idx) / dec (centry y idx) := by
  obtain ⟨hss, hsw, hse⟩ := zip_planes (fun a b : ℝ => Transc.max (Transc.abs a) (Transc.abs b)) hy
  obtain ⟨y', hy', hy'c, hy'e⟩ := bop_planes (fun a b : ℝ => a / b) hy hss
  obtain ⟨ys, hys, hysc, hyse⟩ := C15_conj hy'c
  obtain ⟨ab, hab, habs, habw, habe⟩ := C15_absolute_value hy'c
  obtain ⟨x', hx', hx'c, hx'e⟩ := bop_planes (fun a b : ℝ => a / b) hx hss
  obtain ⟨p, hp, hpc, hpe⟩ := C15_scalar_mult hx'c hysc (broadcastShape_self s)
  have hsh : ¬ x.shape ≠ y.shape := by rw [hx.1, hy.1]; simp
  unfold elementwiseDivision cscale
  rw [if_neg hsh, real_eq hy, imag_eq hy]
  simp only [ok_bind, pure_eq_ok, hy', hys, hab, hx', elementwiseMult, hp]
  obtain ⟨z, hz, hzc, hze⟩ := bop_planes (fun a b : ℝ => a / b) hpc
    (sc := ab.map fun v => v * v) (by rw [map_shape, habs])
  refine ⟨z, hz, hzc, fun idx hv hne => ?_⟩
  rw [hze idx hv, at_map _ _ habw (idx := idx) (by rw [habs]; exact hv), habe idx hv, hpe idx hv, bidx_self hv,
    hyse idx hv, hx'e idx hv, hy'e idx hv, hse idx hv, ← hypot_eq_norm]
  exact dec_div_scaled _ _ _ (ne_of_gt (cscale_pos hne)) hne

/-- `elementwise_division` raises `ValueError` exactly on operands of different shapes (equal sizes or
broadcastable shapes are NOT enough). -/
theorem C15_rejects_elementwise_division (x y : Tensor ℝ) (h : x.shape ≠ y.shape) :
    elementwiseDivision x y = .error .ValueError := by
  unfold elementwiseDivision; rw [if_pos h]

/-- **absolute_value / inverse / elementwise_division reject** (`IndexError`) operands that are not complex tensors (0-d, leading
axis of length 0 or 1), for `elementwise_division` a divisor of the dividend's shape (final pass, audit item C15-5). -/
theorem C15_rejects_field_not_complex (x : Tensor ℝ) (h : x.shape = [] ∨ x.shape.head? = some 0 ∨ x.shape.head? = some 1) :
    absoluteValue x = .error .IndexError ∧ inverse x = .error .IndexError ∧
    ∀ w : Tensor ℝ, w.shape = x.shape → elementwiseDivision w x = .error .IndexError := by
  obtain ⟨hi, hr⟩ := C15_rejects_not_complex_planes x h
  have hsc : cscale x = .error .IndexError := by
    unfold cscale
    rcases hr with hr | ⟨r, hr⟩
    · rw [hr]; rfl
    · rw [hr, hi]; rfl
  refine ⟨?_, ?_, fun w hw => ?_⟩
  · unfold absoluteValue
    rcases hr with hr | ⟨r, hr⟩
    · rw [hr]; rfl
    · rw [hr, hi]; rfl
  · unfold inverse; rw [hsc]; rfl
  · unfold elementwiseDivision; rw [if_neg (by simpa using hw), hsc]; rfl

/-- **inverse**: `z⁻¹` entrywise wherever `z ≠ 0` (at `0`: `nan`, recorded in notes/C15.md). -/
theorem C15_inverse {z : Tensor ℝ} {s : List Nat} (hz : IsCplx z s) :
    ∃ w, inverse z = .ok w ∧ IsCplx w s ∧
      ∀ idx, Valid s idx → dec (centry z idx) ≠ 0 → dec (centry w idx) = (dec (centry z idx))⁻¹ := by
  obtain ⟨hss, hsw, hse⟩ := zip_planes (fun a b : ℝ => Transc.max (Transc.abs a) (Transc.abs b)) hz
  obtain ⟨z', hz', hz'c, hz'e⟩ := bop_planes (fun a b : ℝ => a / b) hz hss
  obtain ⟨zs, hzs, hzsc, hzse⟩ := C15_conj hz'c
  obtain ⟨p, hp, hpc, hpe⟩ := C15_scalar_mult hz'c hzsc (broadcastShape_self s)
  obtain ⟨q, hq, hqc, hqe⟩ := bop_planes (fun a b : ℝ => a / b) hzsc (reT_shape p s)
  obtain ⟨w, hw, hwc, hwe⟩ := bop_planes (fun a b : ℝ => a / b) hqc hss
  unfold inverse cscale
  rw [real_eq hz, imag_eq hz]
  simp only [ok_bind, pure_eq_ok, hz', hzs, hp, real_eq hpc, hq]
  refine ⟨w, hw, hwc, fun idx hv hne => ?_⟩
  rw [hwe idx hv, hqe idx hv, reT_at hpc hv, hpe idx hv, bidx_self hv, hzse idx hv, hz'e idx hv, hse idx hv]
  exact dec_inv_scaled _ _ (ne_of_gt (cscale_pos hne))

/-- **scalar_divide**: `x / y` with the same broadcasting as `scalar_mult`, wherever the divisor entry is non-zero. -/
theorem C15_scalar_divide {x y : Tensor ℝ} {sx sy r : List Nat} (hx : IsCplx x sx) (hy : IsCplx y sy)
    (hb : broadcastShape sx sy = .ok r) :
    ∃ z, scalarDivide x y = .ok z ∧ IsCplx z r ∧
      ∀ idx, Valid r idx → dec (centry y (bidx sy idx)) ≠ 0 →
        dec (centry z idx) = dec (centry x (bidx sx idx)) / dec (centry y (bidx sy idx)) := by
  obtain ⟨iy, hiy, hiyc, hiye⟩ := C15_inverse hy
  obtain ⟨z, hz, hzc, hze⟩ := C15_scalar_mult hx hiyc hb
  unfold scalarDivide
  rw [hiy]
  simp only [ok_bind]
  refine ⟨z, hz, hzc, fun idx hv hne => ?_⟩
  rw [hze idx hv, dec_mul, hiye _ (broadcast_valid hb hv).2 hne, div_eq_mul_inv]

/-- the scale `norm` divides by is positive (the largest component, or 1 for the zero tensor) -/
theorem normScale_pos (l : List ℝ) : 0 < (if 0 < maxAbs l then maxAbs l else 1) := by
  split_ifs with h
  · exact h
  · exact one_pos

/-- **norm**: the Euclidean norm `√(Σ_c |x_c|²)` of a complex vector, `|x|` of a complex scalar (zero tensors included:
the scale is then 1). -/
theorem C15_norm {x : Tensor ℝ} :
    (∀ n, IsCplx x [n] → ∃ r, Cplx.norm x = .ok r ∧ r.shape = [] ∧
      r.at [] = Real.sqrt (∑ c : Fin n, ‖dec (centry x [c.val])‖ ^ 2)) ∧
    (IsCplx x [] → ∃ r, Cplx.norm x = .ok r ∧ r.shape = [] ∧ r.at [] = ‖dec (centry x [])‖) := by
  have hpos := normScale_pos x.data
  set sc : ℝ := if 0 < maxAbs x.data then maxAbs x.data else 1 with hsc
  have key : ∀ a b : ℝ, C.normSq (a / sc, b / sc) = C.normSq (a, b) / (sc * sc) := by
    intro a b; simp only [C.normSq]; field_simp
  have hsqrt : ∀ t : ℝ, 0 ≤ t → Real.sqrt (t / (sc * sc)) * sc = Real.sqrt t := by
    intro t ht
    rw [Real.sqrt_div ht, Real.sqrt_mul_self hpos.le, div_mul_cancel₀ _ (ne_of_gt hpos)]
  constructor
  · intro n hx
    obtain ⟨hmc, hme⟩ := map_cplx (fun v : ℝ => v / sc) hx
    obtain ⟨r, hr, hrs, hrw, hre⟩ := (C15_norm_sqr (x := x.map fun v => v / sc)).1 n hmc
    unfold Cplx.norm
    simp only [← hsc, hr, ok_bind, pure_eq_ok]
    refine ⟨_, rfl, hrs, ?_⟩
    rw [at_map _ _ hrw (by rw [hrs]; exact valid_nil), hre]
    simp only [transc_sqrt]
    have : ∑ c : Fin n, C.normSq (centry (x.map fun v => v / sc) [c.val])
        = (∑ c : Fin n, ‖dec (centry x [c.val])‖ ^ 2) / (sc * sc) := by
      rw [div_eq_mul_inv, Finset.sum_mul]
      refine Finset.sum_congr rfl (fun c _ => ?_)
      rw [hme [c.val] (by simp), key, dec_normSq, Complex.normSq_eq_norm_sq, div_eq_mul_inv]
    rw [this]
    exact hsqrt _ (Finset.sum_nonneg (fun c _ => by positivity))
  · intro hx
    obtain ⟨hmc, hme⟩ := map_cplx (fun v : ℝ => v / sc) hx
    obtain ⟨r, hr, hrs, hrw, hre⟩ := (C15_norm_sqr (x := x.map fun v => v / sc)).2 hmc
    unfold Cplx.norm
    simp only [← hsc, hr, ok_bind, pure_eq_ok]
    refine ⟨_, rfl, hrs, ?_⟩
    rw [at_map _ _ hrw (by rw [hrs]; exact valid_nil), hre, hme [] valid_nil, key]
    simp only [transc_sqrt]
    rw [hsqrt _ (by unfold C.normSq; exact add_nonneg (mul_self_nonneg _) (mul_self_nonneg _)), dec_normSq,
      Complex.norm_def]

/-- **sigmoid(x, y)** of two real tensors (numpy broadcasting): the complex logistic function
`e^z / (1 + e^z)` of `z = x + iy`, wherever `1 + e^z ≠ 0` (at `z = iπ` the code divides by ≈0; notes/C15.md).
The model computes it as the repaired code does (`1/(1+e^{-z})` for `Re z > 0`, `e^z/(1+e^z)` otherwise). -/
theorem C15_sigmoid {x y : Tensor ℝ} {r : List Nat} (hb : broadcastShape x.shape y.shape = .ok r) :
    ∃ z, Cplx.sigmoid x y = .ok z ∧ IsCplx z r ∧
      ∀ idx, Valid r idx →
        1 + Complex.exp (dec (x.at (bidx x.shape idx), y.at (bidx y.shape idx))) ≠ 0 →
        dec (centry z idx) = Complex.exp (dec (x.at (bidx x.shape idx), y.at (bidx y.shape idx)))
          / (1 + Complex.exp (dec (x.at (bidx x.shape idx), y.at (bidx y.shape idx)))) := by
  unfold Cplx.sigmoid
  simp only [hb]
  refine Exists.imp (fun z h => ⟨h.1, h.2.1, fun idx hv hne => ?_⟩)
    (cat2_spec (s := r) (fun idx => sigC (x.at (bidx x.shape idx), y.at (bidx y.shape idx)))
      rfl rfl (wf_build _ _) (wf_build _ _) (fun idx hv => by rw [at_build _ hv, at_build _ hv]))
  rw [h.2.2 idx hv, dec_sigC _ hne]

/-- **the exponential the sigmoid forms cannot overflow**: whichever branch `sigC` takes, the argument of its `exp` has
non-positive real part, so `|e^{±z}| ≤ 1` (the pre-repair formula `e^z/(1+e^z)` formed `e^z`, which is `inf` for
`Re z > 709.78`). -/
theorem C15_sigmoid_exp_bounded (z : C ℝ) :
    sigC z = (let e := expC (if 0 < z.1 then C.neg z else z)
              C.div (if 0 < z.1 then C.one else e) (1 + e.1, e.2)) ∧
    ‖dec (expC (if 0 < z.1 then C.neg z else z))‖ ≤ 1 := by
  refine ⟨?_, sigC_exp_bounded z⟩
  unfold sigC
  split_ifs <;> rfl

/-- `sigmoid` raises numpy's `ValueError` when the two real tensors do not broadcast. -/
theorem C15_rejects_sigmoid {x y : Tensor ℝ} {e : PyErr} (hb : broadcastShape x.shape y.shape = .error e) :
    Cplx.sigmoid x y = .error .ValueError := by
  unfold Cplx.sigmoid; simp only [hb]

/-! #### the same statements in Mathlib's own vocabulary (matrices over ℂ) -/

/-- the complex matrix / vector / scalar denoted by a complex tensor -/
noncomputable def toMatrix (x : Tensor ℝ) (m n : ℕ) : Matrix (Fin m) (Fin n) ℂ := fun i j => dec (centry x [i.val, j.val])
noncomputable def toVector (x : Tensor ℝ) (n : ℕ) : Fin n → ℂ := fun i => dec (centry x [i.val])

/-- **scalar_mult in ℂ**: entrywise complex product under broadcasting. -/
theorem C15_scalar_mult_complex {x y : Tensor ℝ} {sx sy r : List Nat} (hx : IsCplx x sx) (hy : IsCplx y sy)
    (hb : broadcastShape sx sy = .ok r) :
    ∃ z, scalarMult x y = .ok z ∧ IsCplx z r ∧
      ∀ idx, Valid r idx → dec (centry z idx) = dec (centry x (bidx sx idx)) * dec (centry y (bidx sy idx)) := by
  obtain ⟨z, hz, hc, he⟩ := C15_scalar_mult hx hy hb
  exact ⟨z, hz, hc, fun idx hv => by rw [he idx hv, dec_mul]⟩

/-- **matmul is the matrix product over ℂ** (any `m, k, p`). -/
theorem C15_matmul_is_matrix_product {x y : Tensor ℝ} {m k p : ℕ} (hx : IsCplx x [m, k]) (hy : IsCplx y [k, p]) :
    ∃ z, matmul x y = .ok z ∧ IsCplx z [m, p] ∧ toMatrix z m p = toMatrix x m k * toMatrix y k p := by
  obtain ⟨z, hz, hc, he⟩ := C15_matmul_mat_mat hx hy
  refine ⟨z, hz, hc, ?_⟩
  funext i j
  simp only [toMatrix, Matrix.mul_apply, he i.val j.val i.isLt j.isLt, dec_sum, dec_mul]

/-- **matmul matrix·vector is `Matrix.mulVec` over ℂ**. -/
theorem C15_matmul_is_mulVec {x y : Tensor ℝ} {m k : ℕ} (hx : IsCplx x [m, k]) (hy : IsCplx y [k]) :
    ∃ z, matmul x y = .ok z ∧ IsCplx z [m] ∧ toVector z m = (toMatrix x m k).mulVec (toVector y k) := by
  obtain ⟨z, hz, hc, he⟩ := C15_matmul_mat_vec hx hy
  refine ⟨z, hz, hc, ?_⟩
  funext i
  simp only [toVector, toMatrix, Matrix.mulVec, dotProduct, he i.val i.isLt, dec_sum, dec_mul]

/-- **inner_prod is the Hermitian inner product** `⟨x|y⟩ = Σ conj(x_c) y_c` (conjugate-linear on the LEFT). -/
theorem C15_inner_prod_is_star_dot {x y : Tensor ℝ} {n : ℕ} (hx : IsCplx x [n]) (hy : IsCplx y [n]) :
    ∃ z, innerProd x y = .ok z ∧ IsCplx z [] ∧ dec (centry z []) = star (toVector x n) ⬝ᵥ toVector y n := by
  obtain ⟨z, hz, hc, he⟩ := C15_inner_prod_vec hx hy
  refine ⟨z, hz, hc, ?_⟩
  simp only [he, dec_sum, dec_mul, dec_conj, dotProduct, toVector, Pi.star_apply]
  rfl

/-- **outer_prod is `|x⟩⟨y|`**: `vecMulVec x (star y)`. -/
theorem C15_outer_prod_is_vecMulVec {x y : Tensor ℝ} {n m : ℕ} (hx : IsCplx x [n]) (hy : IsCplx y [m]) :
    ∃ z, outerProd x y = .ok z ∧ IsCplx z [n, m] ∧ toMatrix z n m = Matrix.vecMulVec (toVector x n) (star (toVector y m)) := by
  obtain ⟨z, hz, hc, he⟩ := C15_outer_prod hx hy
  refine ⟨z, hz, hc, ?_⟩
  funext i j
  simp only [toMatrix, Matrix.vecMulVec_apply, he i.val j.val i.isLt j.isLt, dec_mul, dec_conj, toVector, Pi.star_apply]
  rfl

/-- **conjugate of a matrix is the conjugate transpose** `xᴴ` (non-square included). -/
theorem C15_conjugate_is_conjTranspose {x : Tensor ℝ} {m n : ℕ} (hx : IsCplx x [m, n]) :
    ∃ z, conjugate x = .ok z ∧ IsCplx z [n, m] ∧ toMatrix z n m = (toMatrix x m n).conjTranspose := by
  obtain ⟨z, hz, hc, he⟩ := C15_conjugate_transpose hx
  refine ⟨z, hz, hc, ?_⟩
  funext j i
  simp only [toMatrix, Matrix.conjTranspose_apply, he i.val j.val [] (by simp), dec_conj]
  rfl

/-- **kronecker_prod is the Kronecker product over ℂ**: entry `(i·c+k, j·d+l)` is entry `((i,k),(j,l))` of
`Matrix.kronecker`, for non-square operands too. -/
theorem C15_kronecker_is_kronecker {x y : Tensor ℝ} {a b c d : ℕ} (hx : IsCplx x [a, b]) (hy : IsCplx y [c, d]) :
    ∃ w, kroneckerProd x y = .ok w ∧ IsCplx w [a * c, b * d] ∧
      ∀ (i : Fin a) (k : Fin c) (j : Fin b) (l : Fin d),
        dec (centry w [i.val * c + k.val, j.val * d + l.val])
          = Matrix.kroneckerMap (· * ·) (toMatrix x a b) (toMatrix y c d) (i, k) (j, l) := by
  obtain ⟨w, hw, hc, he⟩ := C15_kronecker_prod hx hy
  refine ⟨w, hw, hc, fun i k j l => ?_⟩
  simp only [Matrix.kroneckerMap_apply, toMatrix, he i.val k.val j.val l.val i.isLt k.isLt j.isLt l.isLt, dec_mul]

/-- **einsum in ℂ**: every output entry is the complex sum, over all assignments of the contracted labels, of the
complex products of the operand entries. -/
theorem C15_einsum_complex {a b : Tensor ℝ} {sa sb : List Nat} (eq : EinEq) (ha : IsCplx a sa) (hb : IsCplx b sb)
    (hok : einOk eq sa sb = true) :
    ∃ z, einsumFull eq a b = .ok z ∧ IsCplx z (eq.out.map (einSize eq sa sb)) ∧
      ∀ idx, Valid (eq.out.map (einSize eq sa sb)) idx →
        dec (centry z idx) = ((allIdx ((sumLabels eq).map (einSize eq sa sb))).map (fun sidx =>
          dec (centry a (opIdx eq.a sa (eq.out.zip idx ++ (sumLabels eq).zip sidx)))
            * dec (centry b (opIdx eq.b sb (eq.out.zip idx ++ (sumLabels eq).zip sidx))))).sum := by
  obtain ⟨z, _, hz, hc, he⟩ := C15_einsum eq ha hb hok
  refine ⟨z, hz, hc, fun idx hv => ?_⟩
  rw [he idx hv, dec_cpairSum]
  simp only [einTerms, List.map_map]
  congr 1

/-- the library's gradient contraction `"ib,ibg->bg"` (complex_wavefunction.py:182) as an instance of `C15_einsum`:
`z[b, g] = Σ_{i<n} a[i, b] · y[i, b, g]` in ℂ. -/
theorem C15_einsum_ib_ibg {a y : Tensor ℝ} {n B G : ℕ} (ha : IsCplx a [n, B]) (hy : IsCplx y [n, B, G]) :
    ∃ z, einsumFull ⟨[0, 1], [0, 1, 2], [1, 2]⟩ a y = .ok z ∧ IsCplx z [B, G] ∧
      ∀ b g, b < B → g < G →
        dec (centry z [b, g]) = ∑ i : Fin n, dec (centry a [i.val, b]) * dec (centry y [i.val, b, g]) := by
  have hok : einOk ⟨[0, 1], [0, 1, 2], [1, 2]⟩ [n, B] [n, B, G] = true := by
    simp [einOk, operandOk, labelDim, labelSize, List.lookup, nodupB, bdim]
  obtain ⟨z, hz, hc, he⟩ := C15_einsum_complex ⟨[0, 1], [0, 1, 2], [1, 2]⟩ ha hy hok
  have hsh : (EinEq.out ⟨[0, 1], [0, 1, 2], [1, 2]⟩).map (einSize ⟨[0, 1], [0, 1, 2], [1, 2]⟩ [n, B] [n, B, G]) = [B, G] := by
    simp [einSize, labelSize, labelDim, List.lookup, bdim]
  have hs0 : sumLabels ⟨[0, 1], [0, 1, 2], [1, 2]⟩ = [0] := by decide
  have hsz : einSize ⟨[0, 1], [0, 1, 2], [1, 2]⟩ [n, B] [n, B, G] 0 = n := by
    simp [einSize, labelSize, labelDim, bdim]
  rw [hsh] at hc he
  refine ⟨z, hz, hc, fun b g hb hg => ?_⟩
  rw [he [b, g] (by simp [hb, hg]), hs0]
  simp only [List.map_cons, List.map_nil, hsz, allIdx]
  have hfm : ∀ l : List ℕ, List.flatMap (fun i => [[i]]) l = l.map (fun i => [i]) := by
    intro l; induction l with
    | nil => rfl
    | cons x l ih => simp [List.flatMap_cons, ih]
  have hsum : ∀ (F : ℕ → ℂ) (n : ℕ), ((List.range n).map F).sum = ∑ i : Fin n, F i.val := by
    intro F n; induction n with
    | zero => simp
    | succ n ih => rw [List.range_succ, List.map_append, List.sum_append, ih, Fin.sum_univ_castSucc]; simp
  rw [hfm, List.map_map, ← hsum (fun i => dec (centry a [i, b]) * dec (centry y [i, b, g])) n]
  congr 1
  refine List.map_congr_left (fun i hi => ?_)
  have hi' : i < n := List.mem_range.1 hi
  have e1 : (if n = 1 then 0 else i) = i := by split_ifs with h <;> omega
  have e2 : (if B = 1 then 0 else b) = b := by split_ifs with h <;> omega
  have e3 : (if G = 1 then 0 else g) = g := by split_ifs with h <;> omega
  simp [opIdx, envVal, List.lookup, e1, e2, e3]

/-- the implicit-output string `"ij,jk"` (no `->`; character codes `i j k` = 105 106 107) elaborates to `ij,jk->ik` and
is the complex matrix product: `z[i, k] = Σ_j a[i, j] · b[j, k]`. -/
theorem C15_einsum_implicit_matmul {a b : Tensor ℝ} {m n p : ℕ} (ha : IsCplx a [m, n]) (hb : IsCplx b [n, p]) :
    ∃ z, einsumS ⟨[.lab 105, .lab 106], [.lab 106, .lab 107], none⟩ a b true true = .ok (.cplx z) ∧ IsCplx z [m, p] ∧
      ∀ i k, i < m → k < p →
        dec (centry z [i, k]) = ∑ j : Fin n, dec (centry a [i, j.val]) * dec (centry b [j.val, k]) := by
  have hel : elabEq ⟨[.lab 105, .lab 106], [.lab 106, .lab 107], none⟩ [m, n] [n, p]
      = .ok ⟨[105, 106], [106, 107], [105, 107]⟩ := by rfl
  have hS := (C15_einsum_string (R := ℝ) _ ha hb true true).1 _ hel
  have hok : einOk ⟨[105, 106], [106, 107], [105, 107]⟩ [m, n] [n, p] = true := by
    simp [einOk, operandOk, labelDim, labelSize, List.lookup, nodupB, bdim]
  obtain ⟨z, hz1, hzf, _, _⟩ := C15_einsum ⟨[105, 106], [106, 107], [105, 107]⟩ ha hb hok
  obtain ⟨z', hz', hc, he⟩ := C15_einsum_complex ⟨[105, 106], [106, 107], [105, 107]⟩ ha hb hok
  have hzz : z' = z := by rw [hzf] at hz'; injection hz' with h; exact h.symm
  subst hzz
  have hsh : (EinEq.out ⟨[105, 106], [106, 107], [105, 107]⟩).map
      (einSize ⟨[105, 106], [106, 107], [105, 107]⟩ [m, n] [n, p]) = [m, p] := by
    simp [einSize, labelSize, labelDim, List.lookup]
  have hs0 : sumLabels ⟨[105, 106], [106, 107], [105, 107]⟩ = [106] := by decide
  have hsz : einSize ⟨[105, 106], [106, 107], [105, 107]⟩ [m, n] [n, p] 106 = n := by
    simp [einSize, labelSize, labelDim, List.lookup_cons, bdim]
  rw [hsh] at hc he
  refine ⟨z', by rw [hS]; exact hz1, hc, fun i k hi hk => ?_⟩
  rw [he [i, k] (by simp [hi, hk]), hs0]
  simp only [List.map_cons, List.map_nil, hsz, allIdx]
  rw [flatMap_singletons, List.map_map, ← range_map_sum (fun j => dec (centry a [i, j]) * dec (centry b [j, k])) n]
  congr 1
  refine List.map_congr_left (fun j hj => ?_)
  have hj' : j < n := List.mem_range.1 hj
  have e1 : (if m = 1 then 0 else i) = i := by split_ifs with h <;> omega
  have e2 : (if n = 1 then 0 else j) = j := by split_ifs with h <;> omega
  have e3 : (if p = 1 then 0 else k) = k := by split_ifs with h <;> omega
  simp [opIdx, envVal, List.lookup, e1, e2, e3]

/-- the ellipsis string `"...j,jk->...k"` on a batch of row vectors `(B, n)` and a matrix `(n, p)`: the ellipsis of the
first operand covers its batch axis, the second operand has none, and `z[t, k] = Σ_j a[t, j] · b[j, k]`. -/
theorem C15_einsum_ellipsis_batched {a b : Tensor ℝ} {B n p : ℕ} (ha : IsCplx a [B, n]) (hb : IsCplx b [n, p]) :
    ∃ z, einsumS ⟨[.ell, .lab 106], [.lab 106, .lab 107], some [.ell, .lab 107]⟩ a b true true = .ok (.cplx z) ∧
      IsCplx z [B, p] ∧
      ∀ t k, t < B → k < p →
        dec (centry z [t, k]) = ∑ j : Fin n, dec (centry a [t, j.val]) * dec (centry b [j.val, k]) := by
  have hel : elabEq ⟨[.ell, .lab 106], [.lab 106, .lab 107], some [.ell, .lab 107]⟩ [B, n] [n, p]
      = .ok ⟨[108, 106], [106, 107], [108, 107]⟩ := by rfl
  have hS := (C15_einsum_string (R := ℝ) _ ha hb true true).1 _ hel
  have hok : einOk ⟨[108, 106], [106, 107], [108, 107]⟩ [B, n] [n, p] = true := by
    simp [einOk, operandOk, labelDim, labelSize, List.lookup, nodupB, bdim]
  obtain ⟨z, hz1, hzf, _, _⟩ := C15_einsum ⟨[108, 106], [106, 107], [108, 107]⟩ ha hb hok
  obtain ⟨z', hz', hc, he⟩ := C15_einsum_complex ⟨[108, 106], [106, 107], [108, 107]⟩ ha hb hok
  have hzz : z' = z := by rw [hzf] at hz'; injection hz' with h; exact h.symm
  subst hzz
  have hsh : (EinEq.out ⟨[108, 106], [106, 107], [108, 107]⟩).map
      (einSize ⟨[108, 106], [106, 107], [108, 107]⟩ [B, n] [n, p]) = [B, p] := by
    simp [einSize, labelSize, labelDim, List.lookup]
  have hs0 : sumLabels ⟨[108, 106], [106, 107], [108, 107]⟩ = [106] := by decide
  have hsz : einSize ⟨[108, 106], [106, 107], [108, 107]⟩ [B, n] [n, p] 106 = n := by
    simp [einSize, labelSize, labelDim, List.lookup_cons, bdim]
  rw [hsh] at hc he
  refine ⟨z', by rw [hS]; exact hz1, hc, fun t k ht hk => ?_⟩
  rw [he [t, k] (by simp [ht, hk]), hs0]
  simp only [List.map_cons, List.map_nil, hsz, allIdx]
  rw [flatMap_singletons, List.map_map, ← range_map_sum (fun j => dec (centry a [t, j]) * dec (centry b [j, k])) n]
  congr 1
  refine List.map_congr_left (fun j hj => ?_)
  have hj' : j < n := List.mem_range.1 hj
  have e1 : (if B = 1 then 0 else t) = t := by split_ifs with h <;> omega
  have e2 : (if n = 1 then 0 else j) = j := by split_ifs with h <;> omega
  have e3 : (if p = 1 then 0 else k) = k := by split_ifs with h <;> omega
  simp [opIdx, envVal, List.lookup, e1, e2, e3]

end complex

/-! ### the scalar kernel at /repo HEAD (extension round, package X2)

`C.invH`, `C.divH`, `C.sdivH`, `C.absH`, `C.csigmoidH` (QV.Model.CplxScalar) are `cplx.inverse`, `elementwise_division`,
`scalar_divide`, `absolute_value`, `sigmoid` for ONE complex number, as coded since fix F17 (7038bfb).  (1) The tensor-level
model the C15 driver executes applies exactly these functions entrywise — at EVERY entry (zero divisors included) and over
EVERY carrier (so also at `Float`).  (2) Over ℝ each equals the textbook formula on its domain.  The gradient model of
C03 (`Grads.cplxRotComp`, `Grads.piGrad`) calls `C.invH` / `C.csigmoidH`, so the C03 theorems are about these formulas. -/
section headkernel
variable {α : Type} [Add α] [Mul α] [Neg α] [Sub α] [Div α] [Zero α] [One α] [Transc α] [LT α] [DecidableLT α]

/-- **inverse, entrywise = `C.invH`** (any carrier, every entry): the tensor function is the scalar function of HEAD's
formula applied to each entry — also at entries equal to `0`. -/
theorem C15_inverse_entry {z : Tensor α} {s : List Nat} (hz : IsCplx z s) :
    ∃ w, inverse z = .ok w ∧ IsCplx w s ∧ ∀ idx, Valid s idx → centry w idx = C.invH (centry z idx) := by
  obtain ⟨hss, hsw, hse⟩ := zip_planes (fun a b : α => Transc.max (Transc.abs a) (Transc.abs b)) hz
  obtain ⟨z', hz', hz'c, hz'e⟩ := bop_planes (fun a b : α => a / b) hz hss
  obtain ⟨zs, hzs, hzsc, hzse⟩ := C15_conj hz'c
  obtain ⟨p, hp, hpc, hpe⟩ := C15_scalar_mult hz'c hzsc (broadcastShape_self s)
  obtain ⟨q, hq, hqc, hqe⟩ := bop_planes (fun a b : α => a / b) hzsc (reT_shape p s)
  obtain ⟨w, hw, hwc, hwe⟩ := bop_planes (fun a b : α => a / b) hqc hss
  unfold inverse cscale
  rw [real_eq hz, imag_eq hz]
  simp only [ok_bind, pure_eq_ok, hz', hzs, hp, real_eq hpc, hq]
  refine ⟨w, hw, hwc, fun idx hv => ?_⟩
  rw [hwe idx hv, hqe idx hv, reT_at hpc hv, hpe idx hv, bidx_self hv, hzse idx hv, hz'e idx hv, hse idx hv]
  rfl

/-- **absolute_value, entrywise = `C.absH`** (any carrier, every entry). -/
theorem C15_absolute_value_entry {x : Tensor α} {s : List Nat} (hx : IsCplx x s) :
    ∃ r, absoluteValue x = .ok r ∧ r.shape = s ∧ WF r ∧ ∀ idx, Valid s idx → r.at idx = C.absH (centry x idx) := by
  obtain ⟨hss, hsw, hse⟩ := zip_planes (hypot (α := α)) hx
  unfold absoluteValue
  rw [real_eq hx, imag_eq hx]
  simp only [ok_bind, pure_eq_ok]
  exact ⟨_, rfl, hss, hsw, fun idx hv => by rw [hse idx hv]; rfl⟩

/-- **elementwise_division, entrywise = `C.divH`** (any carrier, every entry of equally shaped operands). -/
theorem C15_elementwise_division_entry {x y : Tensor α} {s : List Nat} (hx : IsCplx x s) (hy : IsCplx y s) :
    ∃ z, elementwiseDivision x y = .ok z ∧ IsCplx z s ∧
      ∀ idx, Valid s idx → centry z idx = C.divH (centry x idx) (centry y idx) := by
  obtain ⟨hss, hsw, hse⟩ := zip_planes (fun a b : α => Transc.max (Transc.abs a) (Transc.abs b)) hy
  obtain ⟨y', hy', hy'c, hy'e⟩ := bop_planes (fun a b : α => a / b) hy hss
  obtain ⟨ys, hys, hysc, hyse⟩ := C15_conj hy'c
  obtain ⟨ab, hab, habs, habw, habe⟩ := C15_absolute_value_entry hy'c
  obtain ⟨x', hx', hx'c, hx'e⟩ := bop_planes (fun a b : α => a / b) hx hss
  obtain ⟨p, hp, hpc, hpe⟩ := C15_scalar_mult hx'c hysc (broadcastShape_self s)
  have hsh : ¬ x.shape ≠ y.shape := by rw [hx.1, hy.1]; simp
  unfold elementwiseDivision cscale
  rw [if_neg hsh, real_eq hy, imag_eq hy]
  simp only [ok_bind, pure_eq_ok, hy', hys, hab, hx', elementwiseMult, hp]
  obtain ⟨z, hz, hzc, hze⟩ := bop_planes (fun a b : α => a / b) hpc
    (sc := ab.map fun v => v * v) (by rw [map_shape, habs])
  refine ⟨z, hz, hzc, fun idx hv => ?_⟩
  rw [hze idx hv, at_map _ _ habw (idx := idx) (by rw [habs]; exact hv), habe idx hv, hpe idx hv, bidx_self hv,
    hyse idx hv, hx'e idx hv, hy'e idx hv, hse idx hv]
  rfl

/-- **scalar_divide, entrywise = `C.sdivH`** (any carrier, same broadcasting as `scalar_mult`, every entry). -/
theorem C15_scalar_divide_entry {x y : Tensor α} {sx sy r : List Nat} (hx : IsCplx x sx) (hy : IsCplx y sy)
    (hb : broadcastShape sx sy = .ok r) :
    ∃ z, scalarDivide x y = .ok z ∧ IsCplx z r ∧
      ∀ idx, Valid r idx → centry z idx = C.sdivH (centry x (bidx sx idx)) (centry y (bidx sy idx)) := by
  obtain ⟨iy, hiy, hiyc, hiye⟩ := C15_inverse_entry hy
  obtain ⟨z, hz, hzc, hze⟩ := C15_scalar_mult hx hiyc hb
  unfold scalarDivide
  rw [hiy]
  simp only [ok_bind]
  refine ⟨z, hz, hzc, fun idx hv => ?_⟩
  rw [hze idx hv, hiye _ (broadcast_valid hb hv).2]
  rfl

/-- **sigmoid, entrywise = `C.csigmoidH`** (any carrier, numpy broadcasting of the two real operands, every entry). -/
theorem C15_sigmoid_entry {x y : Tensor α} {r : List Nat} (hb : broadcastShape x.shape y.shape = .ok r) :
    ∃ z, Cplx.sigmoid x y = .ok z ∧ IsCplx z r ∧
      ∀ idx, Valid r idx → centry z idx = C.csigmoidH (x.at (bidx x.shape idx)) (y.at (bidx y.shape idx)) := by
  unfold Cplx.sigmoid
  simp only [hb]
  exact cat2_spec (s := r) (fun idx => sigC (x.at (bidx x.shape idx), y.at (bidx y.shape idx)))
      rfl rfl (wf_build _ _) (wf_build _ _) (fun idx hv => by rw [at_build _ hv, at_build _ hv])

end headkernel

section headkernel_real
open Complex

/-- **`invH` = textbook inverse on `z ≠ 0`**: HEAD's scaled formula `conj(z/s) / Re((z/s)·conj(z/s)) / s`,
`s = max |Re z| |Im z|`, is `conj z / |z|²`, and decodes to `z⁻¹` in ℂ. (At `z = 0` the code returns `nan` in either form.) -/
theorem C15_invH_eq (z : C ℝ) (hz : z ≠ (0, 0)) :
    C.invH z = C.inv z ∧ dec (C.invH z) = (dec z)⁻¹ :=
  ⟨C.invH_eq z hz, toC_invH z ((C.ne_zero_iff z).1 hz)⟩

/-- **`divH` = textbook quotient on `y ≠ 0`**: `(x/s)·conj(y/s) / hypot(y/s)²` is `x·conj y / |y|²` and decodes to `x / y`. -/
theorem C15_divH_eq (x y : C ℝ) (hy : y ≠ (0, 0)) :
    C.divH x y = C.div x y ∧ dec (C.divH x y) = dec x / dec y :=
  ⟨C.divH_eq x y hy, toC_divH x y ((C.ne_zero_iff y).1 hy)⟩

/-- **`sdivH` (`scalar_divide`: `x · inverse(y)`) = textbook quotient on `y ≠ 0`**, hence the two division routines of the
library agree with each other there. -/
theorem C15_sdivH_eq (x y : C ℝ) (hy : y ≠ (0, 0)) :
    C.sdivH x y = C.div x y ∧ C.sdivH x y = C.divH x y ∧ dec (C.sdivH x y) = dec x / dec y :=
  ⟨C.sdivH_eq x y hy, by rw [C.sdivH_eq x y hy, C.divH_eq x y hy], toC_sdivH x y ((C.ne_zero_iff y).1 hy)⟩

/-- **`absH` = `√(Re² + Im²)` = `|z|` for every `z`** (including `0`, where hypot's scale is `0`). -/
theorem C15_absH_eq (z : C ℝ) : C.absH z = Real.sqrt (C.normSq z) ∧ C.absH z = ‖dec z‖ :=
  ⟨C.absH_eq z, C.absH_eq_norm z⟩

/-- **`csigmoidH` = textbook `e^z / (1 + e^z)` for EVERY argument** (the branch form `1/(1+e^{-z})` for `Re z > 0`,
`e^z/(1+e^z)` otherwise — also at the poles `z = i(2k+1)π`, which lie in the left branch), and it decodes to the complex
logistic function wherever `1 + e^z ≠ 0`. -/
theorem C15_csigmoidH_eq (x y : ℝ) :
    C.csigmoidH x y = Grads.csigmoid x y ∧
    (1 + Complex.exp (dec (x, y)) ≠ 0 →
      dec (C.csigmoidH x y) = Complex.exp (dec (x, y)) / (1 + Complex.exp (dec (x, y)))) :=
  ⟨C.csigmoidH_eq x y, fun h => dec_sigC _ h⟩

/-- **the scaled operand of `invH` / `divH` is of order 1**: for `z ≠ 0` the components of `z / scaleH z` lie in `[-1, 1]`
and the `|·|²` the formulas form lies in `[1, 2]`, whatever the magnitude of `z` (the textbook formula squares `z` itself:
overflow beyond `1e154`, underflow below `1e-154`). -/
theorem C15_invH_operand_range (z : C ℝ) (hz : z ≠ (0, 0)) :
    0 < C.scaleH z ∧ |z.1 / C.scaleH z| ≤ 1 ∧ |z.2 / C.scaleH z| ≤ 1 ∧
    1 ≤ C.normSq (z.1 / C.scaleH z, z.2 / C.scaleH z) ∧ C.normSq (z.1 / C.scaleH z, z.2 / C.scaleH z) ≤ 2 := by
  have hpos := cscale_pos ((C.ne_zero_iff z).1 hz)
  exact ⟨hpos, scaled_bounds z.1 z.2 hpos⟩

-- the hypotheses are met by concrete non-trivial instances
example : ((3, -4) : C ℝ) ≠ (0, 0) := by intro h; have := congrArg Prod.fst h; norm_num at this
example : C.invH ((3, -4) : C ℝ) = (3 / 25, 4 / 25) := by
  rw [(C15_invH_eq _ (by intro h; have := congrArg Prod.fst h; norm_num at this)).1]
  simp only [C.inv, C.conj, C.normSq]; norm_num
example : C.sdivH ((1, 2) : C ℝ) (3, -4) = (-1 / 5, 2 / 5) := by
  rw [(C15_sdivH_eq _ _ (by intro h; have := congrArg Prod.fst h; norm_num at this)).1]
  simp only [C.div, C.mul, C.conj, C.normSq]; norm_num
example : C.absH ((3, -4) : C ℝ) = 5 := by
  rw [(C15_absH_eq _).1]; simp only [C.normSq]
  rw [show (3 : ℝ) * 3 + -4 * -4 = 5 * 5 by norm_num, Real.sqrt_mul_self (by norm_num)]
example : C.csigmoidH (0 : ℝ) 0 = (1 / 2, 0) := by
  rw [(C15_csigmoidH_eq 0 0).1]
  simp [Grads.csigmoid, C.div, C.mul, C.conj, C.add, C.one, C.normSq]; norm_num

end headkernel_real
/-! ### the hypotheses are satisfiable: concrete, non-trivial instances evaluated by the model itself -/
section examples

example : IsCplx (⟨[2, 2], [1, 2, 3, 4]⟩ : Tensor ℤ) [2] := ⟨rfl, rfl⟩
example : IsCplx (⟨[2, 2, 3], [1, 2, 3, 4, 5, 6, -1, -2, -3, -4, -5, -6]⟩ : Tensor ℤ) [2, 3] := ⟨rfl, rfl⟩
/-- right-aligned broadcasting with size-1 expansion on both sides -/
example : broadcastShape [3, 1, 2] [4, 1] = .ok [3, 4, 2] := rfl
example : bidx [4, 1] [2, 3, 1] = [3, 0] := rfl
example : broadcastShape [2, 3] [2] = .error .RuntimeError := rfl
/-- the library's own equations pass the einsum checks on non-trivial shapes -/
example : einOk ⟨[0, 1], [0, 1, 2], [1, 2]⟩ [3, 2] [3, 2, 4] = true := by decide
example : einOk ⟨[1], [1, 2], [2]⟩ [3] [3, 2] = true := by decide
example : einOk ⟨[0, 1, 2], [0, 1, 2, 3], [2, 3]⟩ [2, 2, 3] [2, 2, 3, 2] = true := by decide
example : einOk kronEq [2, 3] [3, 2] = true := by decide
example : einOk ⟨[0, 1], [1, 2], [0, 0]⟩ [2, 2] [2, 2] = false := by decide
/-- `⟨x|y⟩` of `(1+3i, 2+4i)` and `(5+7i, 6+8i)` is `70 − 16i` (conjugation on the LEFT; the other side would give `70 + 16i`) -/
example : innerProd (⟨[2, 2], [1, 2, 3, 4]⟩ : Tensor ℤ) ⟨[2, 2], [5, 6, 7, 8]⟩ = .ok ⟨[2], [70, -16]⟩ := by rfl
/-- `|x⟩⟨y|` of `(1+2i)` and `(3+4i, 5+6i)`: `(11+2i, 17+4i)` -/
example : outerProd (⟨[2, 1], [1, 2]⟩ : Tensor ℤ) ⟨[2, 2], [3, 5, 4, 6]⟩ = .ok ⟨[2, 1, 2], [11, 17, 2, 4]⟩ := by rfl
/-- Kronecker product of a `1×2` by a `2×1` complex matrix is `2×2` -/
example : kroneckerProd (⟨[2, 1, 2], [1, 2, 0, 1]⟩ : Tensor ℤ) ⟨[2, 2, 1], [3, 4, 1, 0]⟩
    = .ok ⟨[2, 2, 2], [3, 5, 4, 8, 1, 5, 0, 4]⟩ := by rfl
/-- conjugate transpose of a `1×2` matrix is `2×1` -/
example : conjugate (⟨[2, 1, 2], [1, 2, 3, 4]⟩ : Tensor ℤ) = .ok ⟨[2, 2, 1], [1, 2, -3, -4]⟩ := by rfl
/-- a buffer of the result shape is accepted and returned (id 3, its own dtype); a differently shaped one —
even one that broadcasts with the result — is rejected with `ValueError`; an aliasing one with `RuntimeError` even
when `y` has another dtype than `x` (so that `y.to(x)` makes a copy) -/
example : scalarMultO (⟨1, .f64, ⟨[2, 2], [1, 2, 3, 4]⟩⟩ : Obj ℤ) ⟨2, .f32, ⟨[2], [0, 1]⟩⟩
    (some ⟨3, .f32, ⟨[2, 2], [7, 7, 7, 7]⟩⟩) 4 5 = .ok ⟨3, .f32, ⟨[2, 2], [-3, -4, 1, 2]⟩⟩ := by rfl
example : scalarMultO (⟨1, .f64, ⟨[2, 2], [1, 2, 3, 4]⟩⟩ : Obj ℤ) ⟨2, .f32, ⟨[2], [0, 1]⟩⟩
    (some ⟨3, .f64, ⟨[2, 1], [7, 7]⟩⟩) 4 5 = .error .ValueError := by rfl
example : scalarMultO (⟨1, .f64, ⟨[2], [2, 3]⟩⟩ : Obj ℤ) ⟨2, .f32, ⟨[2], [0, 1]⟩⟩
    (some ⟨2, .f32, ⟨[2], [0, 1]⟩⟩) 4 5 = .error .RuntimeError := by rfl
/-- aliasing is rejected, a fresh buffer accepted -/
example : scalarMultO (⟨1, .f64, ⟨[2], [1, 2]⟩⟩ : Obj ℤ) ⟨2, .f64, ⟨[2], [3, 4]⟩⟩ (some ⟨2, .f64, ⟨[2], [3, 4]⟩⟩) 4 5
    = .error .RuntimeError := by rfl
/-- the guards of the division / sigmoid theorems are satisfiable -/
example : dec (1, 2) ≠ 0 := by intro h; have := congrArg Complex.re h; simp at this
example : 1 + Complex.exp (dec (0, 0)) ≠ 0 := by
  have : dec (0, 0) = 0 := rfl
  rw [this, Complex.exp_zero]; norm_num

/-- `"b...a,a"` on shapes `(2,5,3)`, `(3)`: the ellipsis covers the middle axis and gets the fresh label 99; implicit output =
ellipsis axes first, then the once-only labels sorted: `...b` (torch returns shape `(5, 2)`) -/
example : elabEq ⟨[.lab 98, .ell, .lab 97], [.lab 97], none⟩ [2, 5, 3] [3] = .ok ⟨[98, 99, 97], [97], [99, 98]⟩ := by rfl
/-- ellipses of different lengths are aligned from the right: `"...a,...b"` on `(2,3)`, `(2,1,4)` -/
example : elabEq ⟨[.ell, .lab 97], [.ell, .lab 98], none⟩ [2, 3] [2, 1, 4] = .ok ⟨[100, 97], [99, 100, 98], [99, 100, 97, 98]⟩ := by
  rfl
/-- an ellipsis left out of an explicit output is contracted (`"...j,jk->k"`), two ellipses in one operand are rejected -/
example : (elabEq ⟨[.ell, .lab 106], [.lab 106, .lab 107], some [.lab 107]⟩ [5, 2, 3] [3, 4]).map sumLabels = .ok [108, 109, 106] := by
  rfl
example : elabEq ⟨[.ell, .lab 105, .ell], [.lab 105], some [.lab 105]⟩ [2, 2] [2] = .error .RuntimeError := by rfl
/-- upper-case labels sort before lower-case ones in an implicit output (`"a,B"` → `Ba`) -/
example : onceLabels [97, 66] = [66, 97] := by rfl
/-- `"ba,ac"` (implicit) on Gaussian integers: the output is `bc` (sorted once-only labels), contraction over `a`;
`x = [[1+i, 2]]` (`b=1, a=2`), `y = [[3], [i]]` (`a=2, c=1`): `z = (1+i)·3 + 2·i = 3 + 5i` -/
example : einsumS ⟨[.lab 98, .lab 97], [.lab 97, .lab 99], none⟩ (⟨[2, 1, 2], [1, 2, 1, 0]⟩ : Tensor ℤ) ⟨[2, 2, 1], [3, 0, 0, 1]⟩
    true true = .ok (.cplx ⟨[2, 1, 1], [3, 5]⟩) := by rfl
/-- `hypot` on the exact carrier side: the scaled formula divides by the larger component first -/
example : cscale (⟨[2, 2], [3, -1, -4, 0]⟩ : Tensor ℝ) = .ok ⟨[2], [max |3| |(-4)|, max |(-1)| |0|]⟩ := by
  simp [cscale, real, imag, numel, Tensor.zip]

end examples
end C15
end QV.Props
