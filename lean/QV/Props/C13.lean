/-
C13 — Streaming observable statistics equal the statistics of all drawn samples.

"However the requested number of samples is split into parallel chains and successive draws, the reported mean,
variance (unbiased), standard error and sample count equal those computed in one pass over the concatenation of
every drawn sample; the count is the number of chains times the number of draws and is never less than requested.
The burn-in is applied once before the first draw and the given number of steps between later draws on the same
continuing chains, and evaluating several observables together gives each the result it would get alone on the
same chain states."

All theorems: ∀ value lists over ℝ, ∀ numbers of chains / draws / samples, ∀ burn-in and step counts, ∀ samplers
(the sampler is an arbitrary function of the call number and the call), ∀ lists of observables.
Model definitions: QV.Model.Stats (`updateStatistics`, `fromSamples`, `obsStatistics`, `sysStatistics`, `draws`,
`chainSetup`, `numTimeSteps`, `systemInit`, `systemStatistics`, `systemFromSamples`, `obsSample`), executed (Float)
against `_update_statistics`, `ObservableBase.statistics / statistics_from_samples / sample` and
`System.__init__ / statistics / statistics_from_samples` by the C13 correspondence check.

FINDING (System/same-name-observables-merged): `System` keys its observables by `name`, so "any set of observables"
holds only for pairwise different names (`C13_system_nodup`); observables sharing a name — `SigmaX()` and
`SigmaX(absolute=True)`, `SWAP([0])` and `SWAP([1])` — are merged into the last one (`C13_system_dict`,
`C13_system_same_name_merged`).
-/
import Mathlib.Analysis.SpecialFunctions.Sqrt
import Mathlib.Tactic.FieldSimp
import Mathlib.Tactic.Ring
import Mathlib.Tactic.Linarith
import QV.Model.Stats
import QV.Model.Observables
import QV.Lemmas.Stats
import QV.Lemmas.Unbiased
import QV.GenBridge.UpdateStatistics

namespace QV.Props
namespace C13
open QV QV.Stats

/-! ### Specification: one-pass statistics of a list of reals -/

/-- arithmetic mean -/
noncomputable def mean (xs : List ℝ) : ℝ := xs.sum / xs.length
/-- sum of squared deviations from the mean -/
noncomputable def ssd (xs : List ℝ) : ℝ := (xs.map (fun x => (x - mean xs) ^ 2)).sum
/-- unbiased sample variance (only meaningful for at least two values) -/
noncomputable def uvar (xs : List ℝ) : ℝ := ssd xs / ((xs.length : ℝ) - 1)
/-- mean, unbiased variance, standard error `sqrt(var / n)` and count in one pass; the variance and the standard
error of fewer than two values are undefined (`none`, Python `nan`). -/
noncomputable def onePass (xs : List ℝ) : Stat ℝ :=
  ⟨mean xs, if 2 ≤ xs.length then some (uvar xs) else none,
   if 2 ≤ xs.length then some (Real.sqrt (uvar xs / xs.length)) else none, xs.length⟩

/-! ### helper facts about the specification -/

theorem meanL_eq (xs : List ℝ) : meanL xs = mean xs := by
  simp [meanL, mean]

theorem uvarL_eq (xs : List ℝ) : uvarL xs = if 2 ≤ xs.length then some (uvar xs) else none := by
  unfold uvarL
  by_cases h : 2 ≤ xs.length
  · have h' : xs.length > 1 := h
    simp only [h', h, if_true, sumList_eq_sum, transc_ofNat, meanL_eq, uvar, ssd]
    rw [Nat.cast_sub (by omega)]
    simp [pow_two]
  · have h' : ¬ xs.length > 1 := by omega
    simp [h', h]

theorem mean_mul_length (xs : List ℝ) (h : 1 ≤ xs.length) : mean xs * xs.length = xs.sum := by
  have : (xs.length : ℝ) ≠ 0 := by positivity
  unfold mean; field_simp

/-- `Σ (x - mean)² = Σ x² − (Σ x)²/n` -/
theorem ssd_eq (xs : List ℝ) (h : 1 ≤ xs.length) :
    ssd xs = (xs.map (fun x => x * x)).sum - xs.sum * xs.sum / xs.length := by
  have hn : (xs.length : ℝ) ≠ 0 := by positivity
  have := sum_sq_sub xs (mean xs)
  simp only [ssd, pow_two, this]
  unfold mean
  field_simp
  ring

theorem ssd_singleton (xs : List ℝ) (h : xs.length = 1) : ssd xs = 0 := by
  match xs, h with
  | [x], _ => simp [ssd, mean]

/-- the merge identity for sums of squared deviations (Chan et al.) -/
theorem ssd_append (xs ys : List ℝ) (hx : 1 ≤ xs.length) (hy : 1 ≤ ys.length) :
    ssd (xs ++ ys) = ssd xs + ssd ys
      + (mean ys - mean xs) * (mean ys - mean xs) * xs.length * ys.length / ((xs.length + ys.length : ℕ) : ℝ) := by
  have hn : (xs.length : ℝ) ≠ 0 := by positivity
  have hm : (ys.length : ℝ) ≠ 0 := by positivity
  have hnm : ((xs.length : ℝ) + ys.length) ≠ 0 := by positivity
  rw [ssd_eq xs hx, ssd_eq ys hy, ssd_eq (xs ++ ys) (by simp; omega)]
  simp only [List.map_append, List.sum_append, List.length_append, mean]
  push_cast
  field_simp
  ring

theorem mean_append (xs ys : List ℝ) (hx : 1 ≤ xs.length) (hy : 1 ≤ ys.length) :
    (mean xs * xs.length + mean ys * ys.length) / ((xs.length + ys.length : ℕ) : ℝ) = mean (xs ++ ys) := by
  rw [mean_mul_length xs hx, mean_mul_length ys hy]
  simp [mean]

theorem scaledVar_spec (xs : List ℝ) (va : Option ℝ) (hx : 1 ≤ xs.length)
    (hva : 2 ≤ xs.length → va = some (uvar xs)) : scaledVar va xs.length = some (ssd xs) := by
  unfold scaledVar
  by_cases h : 2 ≤ xs.length
  · have h' : xs.length > 1 := h
    have hne : (xs.length : ℝ) - 1 ≠ 0 := by
      have : (2 : ℝ) ≤ xs.length := by exact_mod_cast h
      linarith
    simp only [h', if_true, hva h, Option.map_some, transc_ofNat, uvar]
    rw [Nat.cast_sub (by omega)]
    push_cast
    congr 1
    field_simp
  · have h' : ¬ xs.length > 1 := by omega
    simp only [h', if_false]
    rw [ssd_singleton xs (by omega)]

/-! ### C13.1 — the pairwise merge -/

/-- the result of `statistics_from_samples` on per-sample values `xs` is their one-pass statistics -/
theorem C13_fromSamples (xs : List ℝ) (h : xs ≠ []) : fromSamples xs = .ok (onePass xs) := by
  rw [fromSamples_of_ne_nil xs h]
  simp only [statOf, onePass, meanL_eq, uvarL_eq, stdErr, transc_sqrt, transc_ofNat]
  congr 2
  by_cases h2 : 2 ≤ xs.length <;> simp [h2]

/-- **C13.1** merging the (mean, unbiased variance, count) of two non-empty chunks gives the (mean, unbiased
variance, count) of their concatenation. The variance reported for a one-value chunk (`nan` in the code) is
arbitrary: the result does not depend on it. -/
theorem C13_merge (xs ys : List ℝ) (va vb : Option ℝ) (hx : 1 ≤ xs.length) (hy : 1 ≤ ys.length)
    (hva : 2 ≤ xs.length → va = some (uvar xs)) (hvb : 2 ≤ ys.length → vb = some (uvar ys)) :
    updateStatistics (mean xs) va xs.length (mean ys) vb ys.length
      = (mean (xs ++ ys), some (uvar (xs ++ ys)), (xs ++ ys).length) := by
  have hx0 : (xs.length == 0) = false := beq_eq_false_iff_ne.mpr (by omega)
  have h1 : xs.length + ys.length > 1 := by omega
  unfold updateStatistics
  simp only [hx0, Bool.false_and, Bool.false_eq_true, if_false, scaledVar_spec xs va hx hva,
    scaledVar_spec ys vb hy hvb, oadd, h1, if_true, Option.map_some, transc_ofNat]
  refine Prod.ext ?_ (Prod.ext ?_ ?_)
  · exact mean_append xs ys hx hy
  · simp only [uvar, ssd_append xs ys hx hy, List.length_append]
    rw [Nat.cast_sub (by omega)]
    push_cast
    rfl
  · simp

/-- **C13.1 for the translated source (translator tie, composed).** The definition TRANSLATED FROM THE PYTHON SOURCE of
`_update_statistics` (QV/Gen/UpdateStatistics.lean, regenerated from the checked tree on every run), applied to the (mean,
unbiased variance, count) of two non-empty chunks, returns the (mean, unbiased variance, count) of their concatenation —
finite values, whatever variance (also nan) is reported for a one-value chunk. -/
theorem C13_gen_merge (xs ys : List ℝ) (va vb : Option ℝ) (hx : 1 ≤ xs.length) (hy : 1 ≤ ys.length)
    (hva : 2 ≤ xs.length → va = some (uvar xs)) (hvb : 2 ≤ ys.length → vb = some (uvar ys)) :
    QV.Gen.UpdateStatistics.updateStatistics (some (mean xs)) va (xs.length : Int) (some (mean ys)) vb (ys.length : Int)
      = (some (mean (xs ++ ys)), some (uvar (xs ++ ys)), ((xs ++ ys).length : Int)) := by
  rw [C13_gen_update_eq_model, C13_merge xs ys va vb hx hy hva hvb]
  rfl

/-- the hypotheses of `C13_gen_merge` are met: [1, 4] merged with the one-value chunk [7] whose variance is nan -/
example : QV.Gen.UpdateStatistics.updateStatistics (some (mean [1, 4])) (some (uvar [1, 4])) (2 : Int) (some (mean [7])) none (1 : Int)
    = (some (mean [1, 4, 7]), some (uvar [1, 4, 7]), (3 : Int)) :=
  C13_gen_merge [1, 4] [7] (some (uvar [1, 4])) none (by simp) (by simp) (fun _ => rfl) (fun h => absurd h (by simp))

/-- **C13.1'** an empty left operand (the state before the first draw) returns the right one; the right one's
variance is kept only if it is defined. -/
theorem C13_merge_empty_left (a : ℝ) (va : Option ℝ) (b : ℝ) (vb : Option ℝ) (m : ℕ) (hm : 1 ≤ m) :
    updateStatistics a va 0 b vb m = (b, if 2 ≤ m then vb else none, m) := by
  have hm0 : (m == 0) = false := beq_eq_false_iff_ne.mpr (by omega)
  have hmR : (m : ℝ) ≠ 0 := by positivity
  unfold updateStatistics
  simp only [hm0, Bool.and_false, Bool.false_eq_true, if_false, transc_ofNat, Nat.cast_zero,
    mul_zero, zero_add, zero_mul, zero_div, scaledVar, gt_iff_lt]
  refine Prod.ext ?_ (Prod.ext ?_ rfl)
  · simp only; field_simp
  · by_cases h2 : 2 ≤ m
    · have h2' : 1 < m := h2
      have hne : ((m - 1 : ℕ) : ℝ) ≠ 0 := by
        have : 1 ≤ m - 1 := by omega
        positivity
      cases vb with
      | none => simp [h2, h2', oadd]
      | some v => simp [h2, h2', oadd, hne]
    · have h2' : ¬ 1 < m := by omega
      simp [h2, h2']

/-- **C13.1''** an empty right operand (a draw that produced nothing) returns the left one; its variance is kept
only if it is defined (at least two values). Whatever mean / variance is reported for the empty chunk is ignored. -/
theorem C13_merge_empty_right (a : ℝ) (va : Option ℝ) (b : ℝ) (vb : Option ℝ) (n : ℕ) (hn : 1 ≤ n) :
    updateStatistics a va n b vb 0 = (a, if 2 ≤ n then va else none, n) := by
  have hn0 : (n == 0) = false := beq_eq_false_iff_ne.mpr (by omega)
  have hnR : (n : ℝ) ≠ 0 := by positivity
  unfold updateStatistics
  simp only [hn0, Bool.false_and, Bool.false_eq_true, if_false, transc_ofNat, Nat.cast_zero,
    mul_zero, add_zero, zero_div, scaledVar, gt_iff_lt, Nat.not_lt_zero]
  refine Prod.ext ?_ (Prod.ext ?_ rfl)
  · simp only; field_simp
  · by_cases h2 : 2 ≤ n
    · have h2' : 1 < n := h2
      have hne : ((n - 1 : ℕ) : ℝ) ≠ 0 := by
        have : 1 ≤ n - 1 := by omega
        positivity
      cases va with
      | none => simp [h2, h2', oadd]
      | some v => simp [h2, h2', oadd, hne]
    · have h2' : ¬ 1 < n := by omega
      simp [h2, h2']

/-- the statistics of a dataset merged with an empty right part are the statistics of the dataset (split `s = N`) -/
theorem C13_merge_split_end (xs : List ℝ) (hx : 1 ≤ xs.length) (b : ℝ) (vb : Option ℝ) :
    updateStatistics (mean xs) (uvarL xs) xs.length b vb 0
      = (mean xs, if 2 ≤ xs.length then some (uvar xs) else none, xs.length) := by
  rw [C13_merge_empty_right _ _ _ _ _ hx, uvarL_eq]
  by_cases h : 2 ≤ xs.length <;> simp [h]

/-! ### C13.2 — the streaming fold over any chunking -/

/-- the running triple describes the values `A` seen so far -/
def Inv (A : List ℝ) (acc : ℝ × Option ℝ × ℕ) : Prop :=
  acc.1 = mean A ∧ acc.2.2 = A.length ∧ (2 ≤ A.length → acc.2.1 = some (uvar A)) ∧
    (A.length < 2 → acc.2.1 = none)

theorem inv_step (c : ℕ) (A ys : List ℝ) (acc : ℝ × Option ℝ × ℕ) (hA : 1 ≤ A.length) (hys : ys.length = c)
    (hc : 1 ≤ c) (h : Inv A acc) : Inv (A ++ ys) (accStep c acc (statOf ys)) := by
  obtain ⟨h1, h2, h3, _⟩ := h
  have := C13_merge A ys acc.2.1 (uvarL ys) hA (by omega) h3 (by intro h; simp [uvarL_eq, h])
  simp only [accStep, statOf, meanL_eq, h1, h2, ← hys]
  rw [this]
  exact ⟨rfl, rfl, fun _ => rfl, fun hlt => by simp at hlt; omega⟩

theorem inv_first (c : ℕ) (ys : List ℝ) (hys : ys.length = c) (hc : 1 ≤ c) :
    Inv ys (accStep c (0, some 0, 0) (statOf ys)) := by
  subst hys
  simp only [accStep, statOf, meanL_eq]
  rw [C13_merge_empty_left _ _ _ _ _ hc]
  refine ⟨rfl, rfl, fun h => ?_, fun h => ?_⟩
  · simp [uvarL_eq, h]
  · have : ¬ 2 ≤ ys.length := by omega
    simp [this]

theorem inv_fold (c : ℕ) (hc : 1 ≤ c) (L : List (List ℝ)) (hlen : ∀ ys ∈ L, ys.length = c) (A : List ℝ)
    (acc : ℝ × Option ℝ × ℕ) (hA : 1 ≤ A.length) (h : Inv A acc) :
    Inv (A ++ L.flatten) ((L.map statOf).foldl (accStep c) acc) := by
  induction L generalizing A acc with
  | nil => simpa using h
  | cons ys L ih =>
    simp only [List.map_cons, List.foldl_cons, List.flatten_cons, ← List.append_assoc]
    refine ih (fun z hz => hlen z (List.mem_cons_of_mem _ hz)) (A ++ ys) _ (by simp; omega) ?_
    exact inv_step c A ys acc hA (hlen ys (List.mem_cons_self ..)) hc h

theorem finish_of_inv (A : List ℝ) (acc : ℝ × Option ℝ × ℕ) (hA : 1 ≤ A.length) (h : Inv A acc) :
    finish acc = .ok (onePass A) := by
  obtain ⟨m, v, n⟩ := acc
  obtain ⟨h1, h2, h3, h4⟩ := h
  simp only at h1 h2 h3 h4
  subst h1 h2
  have hne : (A.length == 0) = false := beq_eq_false_iff_ne.mpr (by omega)
  simp only [finish, hne, Bool.false_eq_true, if_false, onePass]
  by_cases h2' : 2 ≤ A.length
  · simp [h3 h2', h2', stdErr]
  · simp [h4 (by omega), h2', stdErr]

theorem length_flatten_const (c : ℕ) (L : List (List ℝ)) (hlen : ∀ ys ∈ L, ys.length = c) :
    L.flatten.length = L.length * c := by
  induction L with
  | nil => simp
  | cons ys L ih =>
    simp only [List.flatten_cons, List.length_append, List.length_cons]
    rw [ih (fun z hz => hlen z (List.mem_cons_of_mem _ hz)), hlen ys (List.mem_cons_self ..)]
    ring

/-- **C13.2** for every chunking of the drawn values into `T ≥ 1` chunks of `c ≥ 1` values, folding
`_update_statistics` over the chunks' own statistics and finishing as `statistics` does returns the mean, the
unbiased variance, `sqrt(var / (T·c))` and the count `T·c` of the concatenation (variance and standard error
undefined exactly when `T·c = 1`). -/
theorem C13_stream (c : ℕ) (hc : 1 ≤ c) (L : List (List ℝ)) (hL : L ≠ []) (hlen : ∀ ys ∈ L, ys.length = c) :
    finish (foldStats c (L.map statOf)) = .ok (onePass L.flatten) ∧ L.flatten.length = L.length * c := by
  refine ⟨?_, length_flatten_const c L hlen⟩
  match L, hL with
  | ys :: L, _ =>
    have hys := hlen ys (List.mem_cons_self ..)
    have hinv := inv_fold c hc L (fun z hz => hlen z (List.mem_cons_of_mem _ hz)) ys _ (by omega)
      (inv_first c ys hys hc)
    simp only [foldStats, List.map_cons, List.foldl_cons, List.flatten_cons]
    exact finish_of_inv _ _ (by rw [List.length_append]; omega) hinv

/-! ### C13.3 — number of chains, number of draws, count -/

section count
variable {σ : Type}

/-- **C13.3a** the number of chains: the rows of a user-provided `initial_state`, else `num_chains` unless it is
0 or exceeds `num_samples`, in which case `num_samples`. -/
theorem C13_count_chains (env : Env σ) (a : Args σ) :
    (chainSetup env a).2 = match a.init with
      | some s => env.rows s
      | none => if a.numChains = 0 ∨ a.numSamples < a.numChains then a.numSamples else a.numChains := by
  unfold chainSetup
  cases a.init with
  | some s => rfl
  | none =>
    simp only
    by_cases h0 : a.numChains = 0
    · simp [h0]
    · by_cases hlt : a.numSamples < a.numChains
      · simp [h0, hlt, Nat.min_eq_right (Nat.le_of_lt hlt)]
      · simp [h0, hlt, Nat.min_eq_left (Nat.le_of_not_lt hlt)]

/-- **C13.3b** the number of draws is `⌈num_samples / c⌉`: `num_samples ≤ T·c < num_samples + c`, so the count
`T·c` is never less than requested and exceeds it by less than one round of chains. -/
theorem C13_count (ns c T : ℕ) (h : numTimeSteps ns c = .ok T) : 1 ≤ c ∧ ns ≤ T * c ∧ T * c < ns + c := by
  unfold numTimeSteps at h
  split at h
  · contradiction
  · rename_i hc
    have hc' : 1 ≤ c := by
      simp only [beq_iff_eq] at hc; omega
    have hdm := Nat.div_add_mod ns c
    have hml := Nat.mod_lt ns hc'
    refine ⟨hc', ?_⟩
    split at h
    · rename_i hmod
      simp only [beq_iff_eq] at hmod
      cases h
      rw [hmod, Nat.add_zero] at hdm
      rw [Nat.mul_comm] at hdm
      omega
    · rename_i hmod
      simp only [beq_iff_eq] at hmod
      cases h
      have : (ns / c + 1) * c = c * (ns / c) + c := by ring
      omega

/-- with at least one requested sample there is at least one draw -/
theorem C13_count_pos (ns c T : ℕ) (h : numTimeSteps ns c = .ok T) (hns : 1 ≤ ns) : 1 ≤ T := by
  obtain ⟨hc, h1, _⟩ := C13_count ns c T h
  rcases Nat.eq_zero_or_pos T with h0 | h0
  · subst h0; omega
  · exact h0

/-- `numTimeSteps` succeeds exactly when there is at least one chain -/
theorem numTimeSteps_ok (ns c : ℕ) (hc : 1 ≤ c) : ∃ T, numTimeSteps ns c = .ok T := by
  unfold numTimeSteps
  have : (c == 0) = false := by simp; omega
  simp [this]

end count

/-! ### C13.4 — burn-in / steps schedule and chain threading -/

section schedule
variable {σ : Type}

/-- the calls form one continuing chain: each call's `initial_state` is the previous call's return value, every
call asks for `c` samples with `overwrite=True`, and the recorded state is what the sampler returned. -/
inductive Threaded (env : Env σ) (c : ℕ) : ℕ → Option σ → List (SampleCall σ × σ) → Prop
  | nil (i : ℕ) (ch : Option σ) : Threaded env c i ch []
  | cons (i : ℕ) (ch : Option σ) (call : SampleCall σ) (st : σ) (rest : List (SampleCall σ × σ)) :
      call.init = ch → call.numSamples = c → call.overwrite = true → st = env.samp i call →
      Threaded env c (i + 1) (some st) rest → Threaded env c i ch ((call, st) :: rest)

/-- **C13.4a** the `k` arguments of the `T ≥ 1` sampler calls are `[burn_in, steps, …, steps]`. -/
theorem C13_schedule (env : Env σ) (c burnIn steps T : ℕ) (hT : 1 ≤ T) (ch : Option σ) :
    (draws env c burnIn steps T 0 ch).map (fun d => d.1.k) = burnIn :: List.replicate (T - 1) steps := by
  obtain ⟨n, rfl⟩ : ∃ n, T = n + 1 := ⟨T - 1, by omega⟩
  simp only [draws, List.map_cons, Nat.add_sub_cancel]
  rw [draws_k_later env c burnIn steps n 1 (by omega)]
  simp [gibbsK]

/-- **C13.4b** there are exactly `T` calls and they are threaded from the initial `chains` object. -/
theorem C13_schedule_threaded (env : Env σ) (c burnIn steps T i : ℕ) (ch : Option σ) :
    (draws env c burnIn steps T i ch).length = T ∧ Threaded env c i ch (draws env c burnIn steps T i ch) := by
  refine ⟨draws_length .., ?_⟩
  induction T generalizing i ch with
  | zero => exact .nil i ch
  | succ n ih => exact .cons i ch _ _ _ rfl rfl rfl rfl (ih (i + 1) _)

/-- **C13.4c** the first call starts from nothing (fresh random chains), from the user's own tensor when
`overwrite=True`, and from a clone of it otherwise. -/
theorem C13_schedule_start (env : Env σ) (a : Args σ) :
    (chainSetup env a).1 = match a.init with
      | none => none
      | some u => some (if a.overwrite then u else env.clone u) := by
  unfold chainSetup
  cases a.init <;> rfl

/-- **C13.4d** the caller's `initial_state` is untouched unless `overwrite`: with `overwrite=False`, if `clone`
returns a different object and the sampler only ever returns the caller's object when it was handed that object,
then no sampler call of the loop (all of which may overwrite their argument) receives the caller's object, and no
drawn state is the caller's object. (With `overwrite=True` the first call receives the caller's very tensor:
`C13_schedule_start`.) -/
theorem C13_schedule_untouched (env : Env σ) (ident : σ → ℕ) (a : Args σ) (u : σ) (T : ℕ)
    (hinit : a.init = some u) (hov : a.overwrite = false) (hclone : ident (env.clone u) ≠ ident u)
    (hsamp : ∀ j call, ident (env.samp j call) = ident u → ∃ s, call.init = some s ∧ ident s = ident u) :
    ∀ d ∈ draws env (chainSetup env a).2 a.burnIn a.steps T 0 (chainSetup env a).1,
      (∀ s, d.1.init = some s → ident s ≠ ident u) ∧ ident d.2 ≠ ident u := by
  refine draws_untouched env ident u _ _ _ T 0 _ hsamp ?_
  intro s hs
  rw [C13_schedule_start, hinit] at hs
  simp only [hov, Bool.false_eq_true, if_false, Option.some.injEq] at hs
  rw [← hs]
  exact hclone

end schedule

/-! ### the whole of `ObservableBase.statistics` -/

section whole
variable {σ : Type}

/-- **C13.2 + C13.3 + C13.4 for `ObservableBase.statistics`**: with at least one requested sample and at least
one chain, for an observable producing one value per chain, the call succeeds; the returned dictionary is the
one-pass statistics of the concatenation of the observable's values on every drawn chain state; the count is
`T·c ≥ num_samples`; the sampler calls are those of `draws`. -/
theorem C13_statistics_one_pass (env : Env σ) (f : σ → List ℝ) (a : Args σ) (hns : 1 ≤ a.numSamples)
    (hc : 1 ≤ (chainSetup env a).2) (hf : ∀ st, (f st).length = (chainSetup env a).2) :
    ∃ T, numTimeSteps a.numSamples (chainSetup env a).2 = .ok T ∧ 1 ≤ T ∧
      let ds := draws env (chainSetup env a).2 a.burnIn a.steps T 0 (chainSetup env a).1
      obsStatistics env f a = .ok (onePass (ds.map (fun d => f d.2)).flatten, ds.map (·.1)) ∧
      ((ds.map (fun d => f d.2)).flatten).length = T * (chainSetup env a).2 ∧
      a.numSamples ≤ T * (chainSetup env a).2 := by
  obtain ⟨T, hT⟩ := numTimeSteps_ok a.numSamples _ hc
  have hTpos := C13_count_pos _ _ _ hT hns
  obtain ⟨_, hge, _⟩ := C13_count _ _ _ hT
  refine ⟨T, hT, hTpos, ?_⟩
  intro ds
  have hds : ds = draws env (chainSetup env a).2 a.burnIn a.steps T 0 (chainSetup env a).1 := rfl
  clear_value ds
  have hdslen : ds.length = T := by rw [hds]; exact draws_length ..
  have hdsne : ds.map (fun d => f d.2) ≠ [] := by
    intro h
    have := congrArg List.length h
    simp only [List.length_map, List.length_nil] at this
    rw [hdslen] at this
    omega
  have hlen : ∀ ys ∈ ds.map (fun d => f d.2), ys.length = (chainSetup env a).2 := by
    intro ys hys
    obtain ⟨d, _, rfl⟩ := List.mem_map.mp hys
    exact hf d.2
  obtain ⟨hfin, hcount⟩ := C13_stream _ hc _ hdsne hlen
  have hcollect : collect (ds.map (fun d => fromSamples (f d.2))) = .ok (ds.map (fun d => statOf (f d.2))) :=
    collect_map_ok ds _ _ (fun d _ => fromSamples_of_ne_nil _ (by
      intro h; have := hf d.2; rw [h] at this; simp at this; omega))
  refine ⟨?_, ?_, hge⟩
  · unfold obsStatistics
    simp only [hT, ← hds]
    rw [hcollect]
    simp only [List.map_map] at hfin
    have : (ds.map (fun d => statOf (f d.2))) = ds.map (statOf ∘ fun d => f d.2) := rfl
    rw [this]
    simp only [hfin]
  · rw [hcount, List.length_map, hdslen]

end whole

/-! ### C13.5 — several observables together -/

section system
variable {σ : Type}

/-- **C13.5 (list level)** `System.statistics`' loop over the dictionary VALUES `fs` (one entry per distinct name, see
`C13_system_init`): every entry gets exactly the dictionary (and the run makes exactly the sampler calls) that
`ObservableBase.statistics` gives for that observable alone with the same sampler, hence on the same chain states; in
particular `total_samples` equals each observable's own count. (Observables are assumed to return at least one value
per batch, so that no call fails half-way.) The user-level statements are `C13_system_dict` / `C13_system_nodup`. -/
theorem C13_system (env : Env σ) (fs : List (σ → List ℝ)) (a : Args σ) (hne : ∀ f ∈ fs, ∀ st, f st ≠ [])
    (j : ℕ) (hj : j < fs.length) :
    (sysStatistics env fs a).map (fun r => (r.1[j]?, r.2))
      = (obsStatistics env fs[j] a).map (fun r => (some r.1, r.2)) := by
  unfold sysStatistics obsStatistics
  simp only
  cases hT : numTimeSteps a.numSamples (chainSetup env a).2 with
  | error e => rfl
  | ok T =>
    simp only
    generalize hds : draws env (chainSetup env a).2 a.burnIn a.steps T 0 (chainSetup env a).1 = ds
    have hrow : ∀ d : SampleCall σ × σ, collect (fs.map (fun f => fromSamples (f d.2)))
        = .ok (fs.map (fun f => statOf (f d.2))) :=
      fun d => collect_map_ok fs _ _ (fun f hf => fromSamples_of_ne_nil _ (hne f hf d.2))
    have hrows : collect (ds.map (fun d => collect (fs.map (fun f => fromSamples (f d.2)))))
        = .ok (ds.map (fun d => fs.map (fun f => statOf (f d.2)))) :=
      collect_map_ok ds _ _ (fun d _ => hrow d)
    have hcol : collect (ds.map (fun d => fromSamples (fs[j] d.2)))
        = .ok (ds.map (fun d => statOf (fs[j] d.2))) :=
      collect_map_ok ds _ _ (fun d _ => fromSamples_of_ne_nil _ (hne _ (List.getElem_mem hj) d.2))
    rw [hrows, hcol]
    simp only
    have hproj := sysFold_proj (chainSetup env a).2 fs (fun f (d : SampleCall σ × σ) => statOf (f d.2)) ds
      (List.replicate fs.length (0, some 0)) 0 (by simp) j hj
    simp only [List.getElem_replicate, Nat.zero_add] at hproj
    obtain ⟨h1, h2, h3, h4⟩ := hproj
    have hfsne : (sysFold (chainSetup env a).2 fs.length
        (ds.map (fun d => fs.map (fun f => statOf (f d.2))))).1.isEmpty = false := by
      rw [List.isEmpty_eq_false_iff]
      intro h
      have hl : (sysFold (chainSetup env a).2 fs.length
        (ds.map (fun d => fs.map (fun f => statOf (f d.2))))).1.length = fs.length := h3
      rw [h] at hl
      simp only [List.length_nil] at hl
      omega
    simp only [sysFinish, hfsne, finish, foldStats, Bool.false_eq_true, if_false]
    rw [show (sysFold (chainSetup env a).2 fs.length
        (ds.map (fun d => fs.map (fun f => statOf (f d.2))))).2 = ds.length * (chainSetup env a).2 from h1]
    simp only [h2]
    by_cases h0 : ds.length * (chainSetup env a).2 = 0
    · simp [h0, Except.map]
    · have h0' : (ds.length * (chainSetup env a).2 == 0) = false := by simpa using h0
      simp only [h0', Bool.false_eq_true, if_false, Except.map]
      congr 2
      rw [List.getElem?_map]
      rw [show (sysFold (chainSetup env a).2 fs.length
        (ds.map (fun d => fs.map (fun f => statOf (f d.2))))).1[j]? = _ from h4]
      rfl

/-- **C13.5'** `total_samples` (reported as `num_samples` for every observable) is the number of draws times the
number of chains, whatever the observables are: it is updated once per draw, after the per-observable loop. -/
theorem C13_system_count (c m : ℕ) (rows : List (List (Stat ℝ))) :
    (sysFold c m rows).2 = rows.length * c := by
  simpa [sysFold] using sysFold_total c rows (List.replicate m (0, some 0)) 0

end system

/-! ### C13.5 for `System` as the user calls it: observables keyed by name; `statistics_from_samples`; `sample` -/

section system_dict
variable {σ κ : Type} [BEq κ] [LawfulBEq κ]

/-- **C13.5a** `System.__init__`: the dictionary has one entry per distinct name, in order of first occurrence, and
the entry stored under a name is the LAST observable given with that name — observables sharing a name are merged. -/
theorem C13_system_init {β : Type} (obs : List (κ × β)) :
    (systemInit obs).map (·.1) = firstOcc (obs.map (·.1)) ∧ ((systemInit obs).map (·.1)).Nodup ∧
      (∀ n, (systemInit obs).lookup n = obs.reverse.lookup n) ∧ (∀ e ∈ systemInit obs, e ∈ obs) :=
  ⟨systemInit_keys obs, by rw [systemInit_keys]; exact firstOcc_nodup _, systemInit_lookup obs, mem_systemInit obs⟩

/-- with pairwise different names the dictionary is exactly the given list of observables -/
theorem C13_system_init_nodup {β : Type} (obs : List (κ × β)) (h : (obs.map (·.1)).Nodup) : systemInit obs = obs :=
  systemInit_of_nodup obs h

/-- **C13.5b** (`System.statistics` as called by the user, any names): the entry returned under the name `n` is
exactly the dictionary — and the run makes exactly the sampler calls — that `ObservableBase.statistics` gives, alone
with the same sampler, for the LAST observable that was given with the name `n`. -/
theorem C13_system_dict (env : Env σ) (obs : List (κ × (σ → List ℝ))) (a : Args σ)
    (hne : ∀ o ∈ obs, ∀ st, o.2 st ≠ []) (n : κ) (f : σ → List ℝ) (hlast : obs.reverse.lookup n = some f) :
    (systemStatistics env obs a).map (fun r => (r.1.lookup n, r.2))
      = (obsStatistics env f a).map (fun r => (some r.1, r.2)) := by
  have hd : (systemInit obs).lookup n = some f := by rw [systemInit_lookup]; exact hlast
  obtain ⟨l₁, l₂, hsplit, hl₁⟩ := List.lookup_eq_some_iff.mp hd
  have hj : l₁.length < ((systemInit obs).map (·.2)).length := by rw [hsplit]; simp
  have hfj : ((systemInit obs).map (·.2))[l₁.length] = f := by simp [hsplit]
  have hne' : ∀ g ∈ (systemInit obs).map (·.2), ∀ st, g st ≠ [] := by
    intro g hg st
    obtain ⟨e, he, rfl⟩ := List.mem_map.mp hg
    exact hne e (mem_systemInit obs e he) st
  have key := C13_system env ((systemInit obs).map (·.2)) a hne' l₁.length hj
  rw [hfj] at key
  have hkeys : (systemInit obs).map (·.1) = l₁.map (·.1) ++ n :: l₂.map (·.1) := by rw [hsplit]; simp
  have hnk : n ∉ l₁.map (·.1) := by
    intro hmem
    obtain ⟨p, hp, rfl⟩ := List.mem_map.mp hmem
    have := hl₁ p hp
    simp at this
  unfold systemStatistics
  simp only
  cases hs : sysStatistics env ((systemInit obs).map (·.2)) a with
  | error e => rw [hs] at key; simpa [Except.map] using key
  | ok r =>
    rw [hs] at key
    cases ho : obsStatistics env f a with
    | error e => rw [ho] at key; simp [Except.map] at key
    | ok q =>
      rw [ho] at key
      simp only [Except.map, Except.ok.injEq, Prod.mk.injEq] at key ⊢
      refine ⟨?_, key.2⟩
      rw [hkeys]
      exact lookup_zip_at _ _ n hnk r.1 q.1 (by simpa using key.1)

/-- **C13.5 keys** — the keys of the dictionary `System.statistics` returns are exactly the NAMES of the observables
given, each once, in order of first occurrence (for observables returning at least one value per batch): nothing is
dropped but a repeated name, nothing is added, nothing is renamed or reordered. With `C13_system_dict` (what is stored
under each key) this determines the whole result. -/
theorem C13_system_keys_of_names (env : Env σ) (obs : List (κ × (σ → List ℝ))) (a : Args σ)
    (hne : ∀ o ∈ obs, ∀ st, o.2 st ≠ []) (r : List (κ × Stat ℝ) × List (SampleCall σ))
    (h : systemStatistics env obs a = .ok r) :
    r.1.map (·.1) = firstOcc (obs.map (·.1)) := by
  unfold systemStatistics at h
  simp only at h
  have hne' : ∀ g ∈ (systemInit obs).map (·.2), ∀ st, g st ≠ [] := by
    intro g hg st
    obtain ⟨e, he, rfl⟩ := List.mem_map.mp hg
    exact hne e (mem_systemInit obs e he) st
  cases hs : sysStatistics env ((systemInit obs).map (·.2)) a with
  | error e => rw [hs] at h; cases h
  | ok q =>
    rw [hs] at h
    simp only [Except.ok.injEq] at h
    subst h
    have hlen : ((systemInit obs).map (·.1)).length ≤ q.1.length := by
      by_cases h0 : ((systemInit obs).map (·.2)).length = 0
      · simp only [List.length_map] at h0 ⊢; omega
      · have hj : ((systemInit obs).map (·.2)).length - 1 < ((systemInit obs).map (·.2)).length := by omega
        have key := C13_system env ((systemInit obs).map (·.2)) a hne' _ hj
        rw [hs] at key
        cases ho : obsStatistics env ((systemInit obs).map (·.2))[((systemInit obs).map (·.2)).length - 1] a with
        | error e => rw [ho] at key; simp [Except.map] at key
        | ok p =>
          rw [ho] at key
          simp only [Except.map, Except.ok.injEq, Prod.mk.injEq] at key
          have := key.1
          have hlt : ((systemInit obs).map (·.2)).length - 1 < q.1.length := by
            by_contra hge
            rw [List.getElem?_eq_none (by omega)] at this
            cases this
          simp only [List.length_map] at hlt h0 ⊢
          omega
    simp only
    rw [← systemInit_keys]
    exact List.map_fst_zip hlen

/-- **C13.5** (the statement's clause, for sets of observables with pairwise different names): evaluating the
observables together gives EACH of them — under its own name — exactly the dictionary it would get alone with the
same sampler, hence on the same chain states, and the same sampler calls are made. -/
theorem C13_system_nodup (env : Env σ) (obs : List (κ × (σ → List ℝ))) (a : Args σ)
    (hne : ∀ o ∈ obs, ∀ st, o.2 st ≠ []) (hnd : (obs.map (·.1)).Nodup) (j : ℕ) (hj : j < obs.length) :
    (systemStatistics env obs a).map (fun r => (r.1.lookup obs[j].1, r.2))
      = (obsStatistics env obs[j].2 a).map (fun r => (some r.1, r.2)) := by
  refine C13_system_dict env obs a hne _ _ ?_
  refine lookup_of_nodup obs.reverse ?_ obs[j] (by simp)
  rw [List.map_reverse, List.nodup_reverse]; exact hnd

/-- **FINDING (System/same-name-observables-merged)** two observables given with the same name: the returned
dictionary has the single key `n`, and its entry is what the SECOND observable gets alone — the first observable's
statistics are not reported at all (whatever its values are). -/
theorem C13_system_same_name_merged (env : Env σ) (n : κ) (f g : σ → List ℝ) (a : Args σ)
    (hf : ∀ st, f st ≠ []) (hg : ∀ st, g st ≠ []) :
    (systemStatistics env [(n, f), (n, g)] a).map (fun r => (r.1.map (·.1), r.1.lookup n, r.2))
      = (obsStatistics env g a).map (fun r => ([n], some r.1, r.2)) := by
  have hne : ∀ o ∈ [(n, f), (n, g)], ∀ st, o.2 st ≠ [] := by
    intro o ho st
    simp only [List.mem_cons, List.not_mem_nil, or_false] at ho
    rcases ho with rfl | rfl
    · exact hf st
    · exact hg st
  have key := C13_system_dict env [(n, f), (n, g)] a hne n g (by simp)
  have hinit : systemInit [(n, f), (n, g)] = [(n, g)] := by simp [systemInit, dictSet]
  unfold systemStatistics at key ⊢
  simp only [hinit, List.map_cons, List.map_nil] at key ⊢
  cases hs : sysStatistics env [g] a with
  | error e =>
    rw [hs] at key
    cases ho : obsStatistics env g a with
    | error e' => rw [ho] at key; simpa [Except.map] using key
    | ok q => rw [ho] at key; simp [Except.map] at key
  | ok r =>
    rw [hs] at key
    cases ho : obsStatistics env g a with
    | error e => rw [ho] at key; simp [Except.map] at key
    | ok q =>
      rw [ho] at key
      simp only [Except.map, Except.ok.injEq, Prod.mk.injEq] at key ⊢
      obtain ⟨k1, k2⟩ := key
      refine ⟨?_, k1, k2⟩
      cases hr : r.1 with
      | nil => rw [hr] at k1; simp at k1
      | cons s ss => simp

/-- **C13.6** `System.statistics_from_samples`: the entry under the name `n` is the one-pass statistics of the values
of the last observable given with that name on the given batch (for non-empty values). -/
theorem C13_system_fromSamples (obs : List (κ × (σ → List ℝ))) (samples : σ)
    (hne : ∀ o ∈ obs, o.2 samples ≠ []) (n : κ) (f : σ → List ℝ) (hlast : obs.reverse.lookup n = some f) :
    (systemFromSamples obs samples).map (fun r => r.lookup n) = .ok (some (onePass (f samples))) := by
  have hd : (systemInit obs).lookup n = some f := by rw [systemInit_lookup]; exact hlast
  have hcol : systemFromSamples obs samples
      = .ok ((systemInit obs).map (fun o => (o.1, onePass (o.2 samples)))) := by
    unfold systemFromSamples
    refine collect_map_ok _ _ _ (fun o ho => ?_)
    rw [C13_fromSamples _ (hne o (mem_systemInit obs o ho))]
  rw [hcol]
  simp only [Except.map, Except.ok.injEq]
  rw [lookup_map_snd (systemInit obs) (fun o => onePass (o.2 samples)) n]
  obtain ⟨l₁, l₂, hsplit, hl₁⟩ := List.lookup_eq_some_iff.mp hd
  rw [hsplit, List.find?_append]
  have : l₁.find? (fun e => n == e.1) = none := by
    rw [List.find?_eq_none]
    intro p hp
    have := hl₁ p hp
    simpa using this
  simp [this]

/-! ### `to_01` next to `to_pm1` (observables/utils.py:16-33): the two spin conventions are inverse to each other -/

/-- `to_01(to_pm1(x)) = x` — in particular on the samples' values 0 / 1 -/
theorem C13_to01_toPm1 (x : ℝ) : to01 (toPm1 x) = x := by
  simp only [to01, toPm1, two_eq]; ring

/-- `to_pm1(to_01(s)) = s` — in particular on the spin values −1 / +1 -/
theorem C13_toPm1_to01 (s : ℝ) : toPm1 (to01 s) = s := by
  simp only [to01, toPm1, two_eq]; ring

/-- on the bits themselves: `to_01` sends the spin of a bit (`0 ↦ −1`, `1 ↦ +1`) back to the bit -/
theorem C13_to01_spin (b : Bool) : to01 (spin b : ℝ) = bit b := C13_to01_toPm1 _

example : to01 (-1 : ℝ) = 0 ∧ to01 (1 : ℝ) = 1 := by
  constructor <;> norm_num [to01, two_eq]

theorem collect_map_nil {β γ : Type} (ds : List β) :
    collect (ds.map (fun _ => (Except.ok [] : Except PyErr (List γ)))) = .ok (ds.map (fun _ => [])) := by
  induction ds with
  | nil => rfl
  | cons d ds ih => simp only [List.map_cons, collect, ih]

theorem sysFold_nil (c : ℕ) (rows : List (List (Stat ℝ))) (t : ℕ) :
    (rows.foldl (sysStep c) (([] : List (ℝ × Option ℝ)), t)).1 = [] := by
  induction rows generalizing t with
  | nil => rfl
  | cons r rs ih => simp only [List.foldl_cons, sysStep, sysInner, List.zipWith_nil_left]; exact ih _

/-- **C13.8** the empty set of observables, `System()`: whenever the chain count is positive, `System.statistics` makes
exactly the sampler calls of the loop (the same `draws` as for any other set: burn-in first, then `steps`, threaded) and
returns the empty dictionary. -/
theorem C13_system_empty (env : Env σ) (a : Args σ) (T : ℕ)
    (hT : numTimeSteps a.numSamples (chainSetup env a).2 = .ok T) :
    systemStatistics (κ := κ) env ([] : List (κ × (σ → List ℝ))) a
      = .ok ([], (draws env (chainSetup env a).2 a.burnIn a.steps T 0 (chainSetup env a).1).map (·.1)) := by
  unfold systemStatistics sysStatistics
  simp only [systemInit, List.foldl_nil, List.map_nil, hT, collect, collect_map_nil, List.length_nil, sysFold,
    List.replicate_zero, sysFinish, sysFold_nil, List.isEmpty_nil, if_true, List.zip_nil_left]

/-- an empty batch: every observable's `statistics_from_samples` divides by `len(obs_samples) = 0` -/
theorem C13_fromSamples_empty : fromSamples ([] : List ℝ) = .error .ZeroDivisionError := rfl

end system_dict

section sample
variable {σ : Type}

/-- **C13.7** `ObservableBase.sample`: exactly one sampler call, receiving the caller's `num_samples`, `k`,
`initial_state` and `overwrite` unchanged, and the values are the observable on the tensor that call returned. -/
theorem C13_sample (env : Env σ) (f : σ → List ℝ) (k ns : ℕ) (init : Option σ) (ow : Bool) :
    obsSample env f k ns init ow
      = (f (env.samp 0 { numSamples := ns, k := k, init := init, overwrite := ow }),
         { numSamples := ns, k := k, init := init, overwrite := ow }) := rfl

end sample


/-! ### C13.9 — the reported mean under a stationary sampler (composition with C05; used by C08/C09)

`Stats.drawsProg` is the loop of `draws` with the `i`-th sampler call made a probabilistic program (`QV.Model.StatsProg`);
`Stats.recEnv` turns one of its outcomes into the recorded sampler that `obsStatistics` reads.  No `Prog` of the whole
`statistics` call exists in `QV.Model.Stats` (the sampler is a recorded function there), so the statement has two halves:
(i) for EVERY recorded execution of `T` draws the dictionary `obsStatistics` returns has the one-pass mean of the drawn values
(`C13_statistics_one_pass` on `recEnv`) and the sampler calls carry `k = [burn_in, steps, …]`; (ii) the expectation of that
mean over the joint law of the `T` threaded draws. -/

section stationary
open Prog
variable {σ : Type}

theorem mean_flatten_const (c : ℕ) (L : List (List ℝ)) (hlen : ∀ ys ∈ L, ys.length = c) :
    mean L.flatten = (L.map List.sum).sum / ((L.length * c : ℕ) : ℝ) := by
  unfold mean
  rw [length_flatten_const c L hlen, List.sum_flatten]

/-- **C13.9** (expectation of the reported mean).  Let the `i`-th call `nn_state.sample(k_i, initial_state=chains,
overwrite=True)` of the statistics loop be the program `sampleK k_i chains` and let the distribution `μ` of the chain
states be invariant under every such call.  For an observable `F` returning one value per chain (`c ≥ 1` chains), any
`num_samples ≥ 1`, `burn_in`, `steps`, and the caller's `initial_state` drawn from `μ`:
(i) every execution's dictionary is the one-pass statistics of the `T·c` drawn values, `T = ⌈num_samples/c⌉`, with the
`k` schedule `[burn_in, steps, …, steps]`, and (ii) the EXPECTATION of the reported mean over the joint law of the `T`
successive (dependent: the chains continue) draws is the `μ`-average of the per-batch mean of `F` — whatever `burn_in`,
`steps`, `num_samples` are. -/
theorem C13_mean_stationary [Fintype σ] [DecidableEq σ] (sampleK : ℕ → σ → Prog ℝ σ) (μ : σ → ℝ)
    (hinv : ∀ k w, ∑ v, μ v * (sampleK k v).law w = μ w)
    (F : σ → List ℝ) (c : ℕ) (hc : 1 ≤ c) (hF : ∀ st, (F st).length = c)
    (ns nc burnIn steps : ℕ) (hns : 1 ≤ ns) (ow : Bool) (dflt : σ) :
    ∃ T, numTimeSteps ns c = .ok T ∧ 1 ≤ T ∧ ns ≤ T * c ∧
      (∀ (s₀ : σ) (sts : List σ), sts.length = T →
        ∃ calls, obsStatistics (recEnv c sts dflt) F ⟨ns, nc, burnIn, steps, some s₀, ow⟩
            = .ok (onePass ((sts.map F).flatten), calls)
          ∧ calls.map (·.k) = burnIn :: List.replicate (T - 1) steps) ∧
      ∑ s₀, μ s₀ * (drawsProg sampleK burnIn steps T 0 s₀).expect (fun sts => mean ((sts.map F).flatten))
        = ∑ s, μ s * mean (F s) := by
  obtain ⟨T, hT⟩ := numTimeSteps_ok ns c hc
  have hTpos := C13_count_pos _ _ _ hT hns
  obtain ⟨_, hge, _⟩ := C13_count _ _ _ hT
  refine ⟨T, hT, hTpos, hge, ?_, ?_⟩
  · intro s₀ sts hlen
    have hcs : (chainSetup (recEnv c sts dflt) (⟨ns, nc, burnIn, steps, some s₀, ow⟩ : Args σ)).2 = c := rfl
    obtain ⟨T', hT', _, h1, _, _⟩ := C13_statistics_one_pass (recEnv c sts dflt) F
      ⟨ns, nc, burnIn, steps, some s₀, ow⟩ hns (by rw [hcs]; exact hc) (by intro st; rw [hcs]; exact hF st)
    rw [hcs] at hT'
    have hTT : T' = T := by rw [hT] at hT'; exact (Except.ok.inj hT').symm
    subst hTT
    simp only [hcs] at h1
    generalize (chainSetup (recEnv c sts dflt) (⟨ns, nc, burnIn, steps, some s₀, ow⟩ : Args σ)).1 = ch0 at h1
    have hA : (draws (recEnv c sts dflt) c burnIn steps T' 0 ch0).map (fun d => F d.2) = sts.map F := by
      have := draws_recEnv_all c sts dflt burnIn steps ch0
      rw [hlen] at this
      conv_rhs => rw [← this]
      rw [List.map_map]
      rfl
    refine ⟨(draws (recEnv c sts dflt) c burnIn steps T' 0 ch0).map (·.1), ?_, ?_⟩
    · rw [h1, hA]
    · have := C13_schedule (recEnv c sts dflt) c burnIn steps T' hTpos ch0
      rw [List.map_map]
      exact this
  · have hcR : (c : ℝ) ≠ 0 := by positivity
    have hTR : (T : ℝ) ≠ 0 := by positivity
    have hcongr : ∀ s₀, (drawsProg sampleK burnIn steps T 0 s₀).expect (fun sts => mean ((sts.map F).flatten))
        = (drawsProg sampleK burnIn steps T 0 s₀).expect (fun sts => (sts.map (fun st => (F st).sum)).sum)
            / ((T * c : ℕ) : ℝ) := by
      intro s₀
      rw [← Prog.expect_div_const]
      refine drawsProg_expect_congr sampleK burnIn steps T 0 s₀ _ _ (fun l hl => ?_)
      rw [mean_flatten_const c (l.map F) (by
        intro ys hys
        obtain ⟨st, _, rfl⟩ := List.mem_map.mp hys
        exact hF st), List.map_map, List.length_map, hl]
      rfl
    simp only [hcongr, ← mul_div_assoc]
    rw [← Finset.sum_div, drawsProg_expect_sum sampleK μ hinv]
    have hm : ∀ s, mean (F s) = (F s).sum / c := by intro s; rw [mean, hF s]
    simp only [hm, ← mul_div_assoc]
    rw [← Finset.sum_div]
    push_cast
    field_simp

end stationary

/-! ### Non-vacuity -/

/-- the merged pair of the finding, concretely: `f ≡ [0, 0]` and `g ≡ [1, 1]` under one name, one draw of two
chains — the system reports mean 1 under that name, while `f` alone has mean 0. -/
example (env : Env Unit) :
    ∃ r s, systemStatistics env [("SigmaX", fun _ => [(0 : ℝ), 0]), ("SigmaX", fun _ => [1, 1])] ⟨2, 2, 0, 0, none, false⟩ = .ok r ∧
      r.1.map (·.1) = ["SigmaX"] ∧ obsStatistics env (fun _ => [(0 : ℝ), 0]) ⟨2, 2, 0, 0, none, false⟩ = .ok s ∧
      (r.1.lookup "SigmaX").map (·.mean) = some 1 ∧ s.1.mean = 0 := by
  have hm := C13_system_same_name_merged env "SigmaX" (fun _ => [(0 : ℝ), 0]) (fun _ => [1, 1]) ⟨2, 2, 0, 0, none, false⟩
    (by simp) (by simp)
  obtain ⟨T, hT, _, hg⟩ := C13_statistics_one_pass env (fun _ => [(1 : ℝ), 1]) ⟨2, 2, 0, 0, none, false⟩ (by simp)
    (by simp [chainSetup]) (by simp [chainSetup])
  obtain ⟨T', hT', _, hf⟩ := C13_statistics_one_pass env (fun _ => [(0 : ℝ), 0]) ⟨2, 2, 0, 0, none, false⟩ (by simp)
    (by simp [chainSetup]) (by simp [chainSetup])
  have hT1 : T = 1 := by simp [chainSetup, numTimeSteps] at hT; omega
  have hT1' : T' = 1 := by simp [chainSetup, numTimeSteps] at hT'; omega
  subst hT1 hT1'
  simp only at hg hf
  rw [hg.1] at hm
  cases hs : systemStatistics env [("SigmaX", fun _ => [(0 : ℝ), 0]), ("SigmaX", fun _ => [1, 1])] ⟨2, 2, 0, 0, none, false⟩ with
  | error e => rw [hs] at hm; simp [Except.map] at hm
  | ok r =>
    rw [hs] at hm
    simp only [Except.map, Except.ok.injEq, Prod.mk.injEq] at hm
    refine ⟨r, _, rfl, hm.1, hf.1, ?_, ?_⟩
    · rw [hm.2.1]; simp [onePass, mean, draws, chainSetup]
    · simp [onePass, mean, draws, chainSetup]


/-- three chunks of two values: hypotheses of `C13_stream` hold and the one-pass variance is defined -/
example : finish (foldStats 2 ([[1, 4], [2, 2], [7, -3]].map statOf))
    = .ok (onePass [1, 4, 2, 2, 7, -3]) :=
  (C13_stream 2 (by norm_num) [[1, 4], [2, 2], [7, -3]] (by simp) (by simp)).1

/-- one chain (single-value chunks, variance of each chunk undefined): the case that raised before fix F6 -/
example : finish (foldStats 1 ([[5], [-1], [3]].map statOf)) = .ok (onePass [5, -1, 3]) :=
  (C13_stream 1 (by norm_num) [[5], [-1], [3]] (by simp) (by simp)).1

/-- burn-in 7 once, then 2 steps before each of the two later draws; 7 requested samples on 3 chains are 3 draws -/
example (env : Env ℕ) : (draws env 3 7 2 3 0 none).map (fun d => d.1.k) = [7, 2, 2] :=
  C13_schedule env 3 7 2 3 (by norm_num) none

/-- two observables that always return two values satisfy the hypothesis of `C13_system` -/
example (env : Env ℕ) (a : Args ℕ) :
    (sysStatistics env [fun s => [(s : ℝ), 1], fun s => [2, -(s : ℝ)]] a).map (fun r => (r.1[1]?, r.2))
      = (obsStatistics env (fun s => [2, -(s : ℝ)]) a).map (fun r => (some r.1, r.2)) :=
  C13_system env _ a (by simp) 1 (by simp)

example : numTimeSteps 7 3 = .ok 3 := by decide
example : numTimeSteps 0 0 = .error .ZeroDivisionError := by decide

end C13
end QV.Props
