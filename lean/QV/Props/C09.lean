/-
C09 — The swap estimator measures the purity of the reduced state.

"For every region A of sites, the swap observable's value on a pair of basis states, averaged over
independent pairs drawn from the model's exact distribution, equals the trace of the squared reduced
density matrix of region A of the reconstructed state (pure or mixed), so the derived second Renyi
entropy is non-negative, symmetric between a region and its complement for pure states, and zero for
the empty or full region of a pure state. Within a batch each sample is paired with a cyclic neighbour
(so every sample is used once in each replica role) and the batch itself is not modified."

Specification.  A region is its membership predicate `A : Fin n → Bool`.  Configurations of the sites in
`A` / outside `A` are functions on the subtypes (`CfgIn A`, `CfgOut A`); `glue A a g` is the full
configuration equal to `a` on `A` and to `g` outside (Mathlib's `Equiv.piEquivPiSubtypeProd`).
The reduced density matrix is the partial trace over the complement,
    `reducedDM A R a b = Σ_g R (glue a g) (glue b g)`      (a `Matrix (CfgIn A) (CfgIn A) ℂ`),
and the purity is `tr (ρ_A · ρ_A)` with Mathlib's `Matrix.trace` and matrix product — i.e. the
four-fold sum `Σ_{a,b ∈ cfg(A); g,d ∈ cfg(Aᶜ)} R(a⊔g, b⊔g) · R(b⊔d, a⊔d)`.  This formulation is chosen
because it does not mention the estimator's own "exchange region A between two replicas" operation
(`combine`): that the pair sum of the estimator equals it is the content of `C09_purity`
(via `QV.Obs.purity_pairs`).  States, `Represents`, `normalised`, `dmPure`, `dmMixed`, `bornPure`,
`bornMixed` are those of C08.  `S₂ = −log tr ρ̂_A²`.

Non-negativity of `S₂` needs a STATE (positive semidefinite, trace one): `C09_pure_is_state` gives it for every wavefunction
that vanishes nowhere (all RBM wavefunctions, `C08_rbm_psi_ne_zero`), `C09_mixed_is_state` for the RBM density matrix under
C02's guard `NZ` (`C09_renyi_nonneg_mixed_rbm`); without the guard `C09_purity_pos_mixed_rbm` still gives a real, strictly
positive purity (Hermiticity and unit trace hold for all parameters).

Model definitions: QV.Model.Observables (`swapRows`, `swapApply`, `rollIdx`, `roll1`, `swapRun`,
`normRegion`), executed against the code by the C09 correspondence check.
-/
import Mathlib.LinearAlgebra.Matrix.Trace
import Mathlib.Analysis.InnerProductSpace.Positive
import Mathlib.Analysis.SpecialFunctions.Log.Basic
import QV.Lemmas.Swap
import QV.Lemmas.Unbiased
import QV.Props.C08
import QV.Props.C02

namespace QV.Props
namespace C09
open QV.Props.C08
open QV QV.Obs Finset
open scoped ComplexConjugate ComplexOrder

variable {n : ℕ}

/-! ### Specification -/

example (A : Fin n → Bool) (a : CfgIn A) (g : CfgOut A) (j : Fin n) :
    glue A a g j = if h : A j = true then a ⟨j, h⟩ else g ⟨j, h⟩ := rfl

/-- reduced density matrix of region `A`: partial trace of `R` over the sites outside `A` -/
def reducedDM (A : Fin n → Bool) (R : Op n) : Matrix (CfgIn A) (CfgIn A) ℂ :=
  Matrix.of fun a b => ∑ g : CfgOut A, R (glue A a g) (glue A b g)

/-- `tr ρ_A²` -/
def purity (A : Fin n → Bool) (R : Op n) : ℂ := Matrix.trace (reducedDM A R * reducedDM A R)

/-- complement of a region -/
def regionCompl (A : Fin n → Bool) : Fin n → Bool := fun j => !A j

/-- the purity as a sum over pairs of full configurations with region `A` exchanged -/
theorem purity_eq_pairs (A : Fin n → Bool) (R : Op n) :
    purity A R = ∑ s1 : Cfg n, ∑ s2 : Cfg n, R (combine s2 s1 A) s1 * R (combine s1 s2 A) s2 := by
  simp only [purity, Matrix.trace, Matrix.diag_apply, Matrix.mul_apply, reducedDM, Matrix.of_apply]
  exact purity_pairs A R

theorem trace_reducedDM (A : Fin n → Bool) (R : Op n) : Matrix.trace (reducedDM A R) = ∑ s, R s s := by
  simp only [Matrix.trace, Matrix.diag_apply, reducedDM, Matrix.of_apply]
  exact (sum_split A (fun s => R s s)).symm

theorem normSq_sum_pos (psi : Cfg n → C ℝ) (hψ : ∀ σ, psi σ ≠ (0, 0)) : 0 < ∑ τ, C.normSq (psi τ) := by
  refine Finset.sum_pos (fun σ _ => ?_) Finset.univ_nonempty
  rw [Obs.toC_normSq]
  exact Complex.normSq_pos.2 (Obs.toC_ne_zero (hψ σ))

/-! ### The estimator -/

/-- **C09.1** `Σ_{s₁,s₂} p(s₁) p(s₂) · SWAP_A(s₁,s₂) = Re tr(ρ̂_A²)` for every region `A` and every state
(pure or mixed) represented by the importance-sampling interface. -/
theorem C09_purity {S : ImpState ℝ n} {G : Op n} {p : Cfg n → ℝ} (h : Represents S G p)
    (A : Fin n → Bool) :
    ∑ s1, ∑ s2, p s1 * p s2 * swapApply S A s1 s2 = (purity A (normalised G)).re := by
  rw [purity_eq_pairs, Complex.re_sum]
  refine Finset.sum_congr rfl (fun s1 _ => ?_)
  rw [Complex.re_sum]
  refine Finset.sum_congr rfl (fun s2 _ => ?_)
  exact swap_term S G p _ h.born h.nz h.ratio A s1 s2

/-- pure states (positive / complex wavefunctions, `ψ` nowhere zero) -/
theorem C09_purity_pure (psi : Cfg n → C ℝ) (hψ : ∀ σ, psi σ ≠ (0, 0)) (A : Fin n → Bool) :
    ∑ s1, ∑ s2, bornPure psi s1 * bornPure psi s2 * swapApply (ImpState.pure psi) A s1 s2
      = (purity A (normalised (dmPure psi))).re :=
  C09_purity (C08_represents_pure psi hψ) A

/-- mixed states (`ρ σσ = probability σ ≠ 0`) -/
theorem C09_purity_mixed (rho : Cfg n → Cfg n → C ℝ) (prob : Cfg n → ℝ)
    (hdiag : ∀ σ, rho σ σ = (prob σ, 0)) (hpos : ∀ σ, prob σ ≠ 0) (A : Fin n → Bool) :
    ∑ s1, ∑ s2, bornMixed prob s1 * bornMixed prob s2 * swapApply (ImpState.mixed rho prob) A s1 s2
      = (purity A (normalised (dmMixed rho))).re :=
  C09_purity (C08_represents_mixed rho prob hdiag hpos) A

/-! ### Consequences for the second Rényi entropy -/

/-- for a Hermitian state the purity is real, non-negative, and — when the trace is one — positive. -/
theorem C09_purity_real_pos (A : Fin n → Bool) (R : Op n) (hR : ∀ σ σ', R σ' σ = conj (R σ σ')) :
    (purity A R).im = 0 ∧ 0 ≤ (purity A R).re ∧ ((∑ s, R s s) = 1 → 0 < (purity A R).re) := by
  have hM : ∀ a b, reducedDM A R b a = conj (reducedDM A R a b) := by
    intro a b
    simp only [reducedDM, Matrix.of_apply, map_sum]
    exact Finset.sum_congr rfl (fun g _ => hR _ _)
  have hP : purity A R = ((∑ a, ∑ b, Complex.normSq (reducedDM A R a b) : ℝ) : ℂ) := by
    simp only [purity, Matrix.trace, Matrix.diag_apply, Matrix.mul_apply]
    push_cast
    refine Finset.sum_congr rfl (fun a _ => Finset.sum_congr rfl (fun b _ => ?_))
    rw [hM a b, Complex.mul_conj]
  have hnn : ∀ a ∈ (Finset.univ : Finset (CfgIn A)),
      0 ≤ ∑ b, Complex.normSq (reducedDM A R a b) :=
    fun a _ => Finset.sum_nonneg (fun b _ => Complex.normSq_nonneg _)
  refine ⟨by rw [hP, Complex.ofReal_im], by rw [hP, Complex.ofReal_re]; exact Finset.sum_nonneg hnn, ?_⟩
  intro htr
  rw [hP, Complex.ofReal_re]
  refine lt_of_le_of_ne (Finset.sum_nonneg hnn) (fun h0 => ?_)
  have hz := (Finset.sum_eq_zero_iff_of_nonneg hnn).1 h0.symm
  have hdiag0 : ∀ a, reducedDM A R a a = 0 := by
    intro a
    have := (Finset.sum_eq_zero_iff_of_nonneg (fun b _ => Complex.normSq_nonneg _)).1
      (hz a (Finset.mem_univ a)) a (Finset.mem_univ a)
    exact Complex.normSq_eq_zero.1 this
  have : Matrix.trace (reducedDM A R) = 0 := by
    simp only [Matrix.trace, Matrix.diag_apply, hdiag0, Finset.sum_const_zero]
  rw [trace_reducedDM, htr] at this
  exact one_ne_zero this

/-- **C09.2** for a positive semidefinite state of trace one, `tr ρ̂_A² ≤ 1`. -/
theorem C09_purity_le_one (A : Fin n → Bool) (R : Op n)
    (hpsd : (Matrix.of R : Matrix (Cfg n) (Cfg n) ℂ).PosSemidef) (htr : (∑ s, R s s) = 1) :
    (purity A R).re ≤ 1 := by
  obtain ⟨m, v, hv⟩ := Matrix.posSemidef_iff_eq_sum_vecMulVec.1 hpsd
  have hR : ∀ σ σ', R σ σ' = ∑ k, v k σ * conj (v k σ') := by
    intro σ σ'
    have := congrFun (congrFun hv σ) σ'
    simp only [Matrix.sum_apply, Matrix.vecMulVec_apply, Pi.star_apply] at this
    exact this
  have hN : (∑ s : Cfg n, ∑ k, ‖v k s‖ ^ 2) = 1 := by
    have h1 : ((∑ s : Cfg n, ∑ k, ‖v k s‖ ^ 2 : ℝ) : ℂ) = 1 := by
      rw [← htr]
      push_cast
      refine Finset.sum_congr rfl (fun s _ => ?_)
      rw [hR]
      refine Finset.sum_congr rfl (fun k _ => ?_)
      rw [Complex.mul_conj, Complex.normSq_eq_norm_sq]
      push_cast; rfl
    exact_mod_cast h1
  have := purity_pairs_le v A
  rw [hN] at this
  rw [purity_eq_pairs]
  simp_rw [hR]
  simpa using this

/-- **C09.2'** the second Rényi entropy `S₂(A) = −log tr ρ̂_A²` of a positive semidefinite trace-one state
is non-negative (and well defined: the purity is a positive real). -/
theorem C09_renyi_nonneg (A : Fin n → Bool) (R : Op n)
    (hpsd : (Matrix.of R : Matrix (Cfg n) (Cfg n) ℂ).PosSemidef) (htr : (∑ s, R s s) = 1) :
    0 < (purity A R).re ∧ (purity A R).im = 0 ∧ 0 ≤ -Real.log (purity A R).re := by
  have hH : ∀ σ σ', R σ' σ = conj (R σ σ') := by
    intro σ σ'
    have := congrFun (congrFun hpsd.1 σ') σ
    simp only [Matrix.conjTranspose_apply, Matrix.of_apply] at this
    rw [← this]; rfl
  obtain ⟨him, _, hpos⟩ := C09_purity_real_pos A R hH
  refine ⟨hpos htr, him, ?_⟩
  have := Real.log_nonpos (hpos htr).le (C09_purity_le_one A R hpsd htr)
  linarith

/-- normalised pure states are positive semidefinite with trace one, so the bound applies to them -/
theorem C09_pure_is_state (psi : Cfg n → C ℝ) (hψ : ∀ σ, psi σ ≠ (0, 0)) :
    (Matrix.of (normalised (dmPure psi)) : Matrix (Cfg n) (Cfg n) ℂ).PosSemidef
      ∧ (∑ s, normalised (dmPure psi) s s) = 1 := by
  have hT := normSq_sum_pos psi hψ
  have hTc : ∑ τ, dmPure psi τ τ = ((∑ τ, C.normSq (psi τ) : ℝ) : ℂ) := by
    push_cast
    refine Finset.sum_congr rfl (fun τ _ => ?_)
    rw [dmPure, Complex.mul_conj, Obs.toC_normSq]
  constructor
  · rw [Matrix.posSemidef_iff_eq_sum_vecMulVec]
    refine ⟨1, fun _ σ => Obs.toC (psi σ) / ((Real.sqrt (∑ τ, C.normSq (psi τ)) : ℝ) : ℂ), ?_⟩
    ext σ σ'
    simp only [Matrix.of_apply, Fin.sum_univ_one, Matrix.vecMulVec_apply, Pi.star_apply, normalised,
      RCLike.star_def, map_div₀, Complex.conj_ofReal]
    rw [hTc, div_mul_div_comm, ← Complex.ofReal_mul, Real.mul_self_sqrt hT.le]
    rfl
  · simp only [normalised]
    rw [← Finset.sum_div, div_self]
    rw [hTc]; exact_mod_cast hT.ne'

/-- **C09.3** for pure states the purity of a region equals that of its complement
(`S₂(A) = S₂(Aᶜ)`). -/
theorem C09_pure_symmetric (psi : Cfg n → C ℝ) (A : Fin n → Bool) :
    purity (regionCompl A) (normalised (dmPure psi)) = purity A (normalised (dmPure psi)) := by
  rw [purity_eq_pairs, purity_eq_pairs]
  refine Finset.sum_congr rfl (fun s1 _ => Finset.sum_congr rfl (fun s2 _ => ?_))
  have hc : ∀ σ τ : Cfg n, combine σ τ (regionCompl A) = combine τ σ A := fun σ τ => combine_compl σ τ A
  simp only [hc, normalised, dmPure]
  ring

/-- **C09.4** for pure states the purity of the empty and of the full region is one
(`S₂ = −log 1 = 0`). -/
theorem C09_pure_trivial (psi : Cfg n → C ℝ) (hψ : ∀ σ, psi σ ≠ (0, 0)) :
    purity (fun _ => false) (normalised (dmPure psi)) = 1
      ∧ purity (fun _ => true) (normalised (dmPure psi)) = 1
      ∧ -Real.log (purity (fun _ => false) (normalised (dmPure psi))).re = 0
      ∧ -Real.log (purity (fun _ => true) (normalised (dmPure psi))).re = 0 := by
  have htr := (C09_pure_is_state psi hψ).2
  have h1 : purity (fun _ => false) (normalised (dmPure psi)) = 1 := by
    rw [purity_eq_pairs]
    simp only [combine_empty]
    rw [← Finset.sum_mul_sum, htr, one_mul]
  have h2 : purity (fun _ => true) (normalised (dmPure psi)) = 1 := by
    rw [purity_eq_pairs]
    simp only [combine_full]
    have : ∀ s1 s2 : Cfg n, normalised (dmPure psi) s2 s1 * normalised (dmPure psi) s1 s2
        = normalised (dmPure psi) s1 s1 * normalised (dmPure psi) s2 s2 := by
      intro s1 s2; simp only [normalised, dmPure]; ring
    rw [Finset.sum_congr rfl (fun s1 _ => Finset.sum_congr rfl (fun s2 _ => this s1 s2)),
      ← Finset.sum_mul_sum, htr, one_mul]
  refine ⟨h1, h2, ?_, ?_⟩
  · rw [h1]; simp
  · rw [h2]; simp

/-- the empty region has purity `(tr ρ̂)² = 1` for EVERY trace-one state -/
theorem C09_empty_region (R : Op n) (htr : (∑ s, R s s) = 1) : purity (fun _ => false) R = 1 := by
  rw [purity_eq_pairs]
  simp only [combine_empty]
  rw [← Finset.sum_mul_sum, htr, one_mul]

/-! ### Mixed states: the RBM density matrix is a state (audit item C09-1; from C02)

`rbmRho am ph` / `rbmProb am` (Props/C08) are the density matrix and the reported probability on basis states exactly as the
driver instantiates `ImpState.mixed`.  Index types: C02 proves `ρ = B·Bᴴ` for `C02.rhoMat`, the matrix indexed by bit-vectors
(`rhoMat_eq_mul_conjTranspose`), which IS `Matrix.of (dmMixed (rbmRho am ph))`; no re-indexing through `Fin (2^n)` is needed. -/

section mixedRBM
variable {hid a : ℕ}

/-- **the normalised RBM density matrix is a state** (positive semidefinite, trace one) under C02's guard `NZ` on all pairs of
basis states; the trace-one part needs no guard. -/
theorem C09_mixed_is_state (am ph : PRBM ℝ n hid a)
    (hz : ∀ σ τ : Fin n → Bool, C02.NZ am ph (C02.bits σ) (C02.bits τ)) :
    (Matrix.of (normalised (dmMixed (rbmRho am ph))) : Matrix (Cfg n) (Cfg n) ℂ).PosSemidef
      ∧ (∑ s, normalised (dmMixed (rbmRho am ph)) s s) = 1 := by
  have hT := rbm_trace_pos am
  have hTc := rbm_trace am ph
  constructor
  · have hM : (Matrix.of (normalised (dmMixed (rbmRho am ph))) : Matrix (Cfg n) (Cfg n) ℂ)
        = (1 / ∑ τ, rbmProb am τ : ℝ) • C02.rhoMat am ph := by
      ext σ σ'
      simp only [Matrix.of_apply, normalised, Matrix.smul_apply, hTc]
      rw [Complex.real_smul]
      push_cast
      rw [div_eq_inv_mul, one_div]
      rfl
    rw [hM, C02.rhoMat_eq_mul_conjTranspose am ph hz]
    exact (Matrix.posSemidef_self_mul_conjTranspose _).smul (by positivity)
  · simp only [normalised]
    rw [← Finset.sum_div, div_self]
    rw [hTc]; exact_mod_cast hT.ne'

/-- **C09.1 for the RBM density matrix, no hypotheses**: the pair average of the swap estimator is `Re tr(ρ̂_A²)` for every
parameter setting (the hypotheses of `C09_purity_mixed` hold by `C08_rbm_rho_diag`, i.e. C02_diagonal). -/
theorem C09_purity_mixed_rbm (am ph : PRBM ℝ n hid a) (A : Fin n → Bool) :
    ∑ s1, ∑ s2, bornMixed (rbmProb am) s1 * bornMixed (rbmProb am) s2
        * swapApply (ImpState.mixed (rbmRho am ph) (rbmProb am)) A s1 s2
      = (purity A (normalised (dmMixed (rbmRho am ph)))).re :=
  C09_purity_mixed _ _ (fun σ => (C08_rbm_rho_diag am ph σ).1) (fun σ => (C08_rbm_rho_diag am ph σ).2.ne') A

/-- without any guard (Hermiticity and unit trace hold for all parameters): the purity of every region of the RBM density
matrix is real and strictly positive, so `S₂ = −log tr ρ̂_A²` is well defined; the empty region has purity one. -/
theorem C09_purity_pos_mixed_rbm (am ph : PRBM ℝ n hid a) (A : Fin n → Bool) :
    (purity A (normalised (dmMixed (rbmRho am ph)))).im = 0
      ∧ 0 < (purity A (normalised (dmMixed (rbmRho am ph)))).re
      ∧ purity (fun _ => false) (normalised (dmMixed (rbmRho am ph))) = 1 := by
  have htr : (∑ s, normalised (dmMixed (rbmRho am ph)) s s) = 1 := by
    simp only [normalised]
    rw [← Finset.sum_div, div_self]
    rw [rbm_trace am ph]; exact_mod_cast (rbm_trace_pos am).ne'
  obtain ⟨h1, _, h3⟩ := C09_purity_real_pos A _ (C08_rbm_rho_hermitian am ph)
  exact ⟨h1, h3 htr, C09_empty_region _ htr⟩

/-- **C09.2' for mixed states**: under C02's guard `NZ` on all pairs of basis states (no auxiliary unit with
`1 + e^{x+iy} = 0`; e.g. `Σ_j |U_μ k j| < 2π`, `C02_NZ_of_phase_weights_small`) the exact pair average of the swap estimator on
the RBM density matrix lies in `(0, 1]`, i.e. the derived second Rényi entropy `−log(average)` is non-negative, for every
region.  Off the guard (a measure-zero set of parameters where the real-number model of `log 0` differs from the float code)
only `C09_purity_pos_mixed_rbm` is claimed. -/
theorem C09_renyi_nonneg_mixed_rbm (am ph : PRBM ℝ n hid a)
    (hz : ∀ σ τ : Fin n → Bool, C02.NZ am ph (C02.bits σ) (C02.bits τ)) (A : Fin n → Bool) :
    let avg := ∑ s1, ∑ s2, bornMixed (rbmProb am) s1 * bornMixed (rbmProb am) s2
        * swapApply (ImpState.mixed (rbmRho am ph) (rbmProb am)) A s1 s2
    0 < avg ∧ avg ≤ 1 ∧ 0 ≤ -Real.log avg := by
  intro avg
  have hs := C09_mixed_is_state am ph hz
  have h := C09_renyi_nonneg A _ hs.1 hs.2
  have hle := C09_purity_le_one A _ hs.1 hs.2
  have e : avg = (purity A (normalised (dmMixed (rbmRho am ph)))).re := C09_purity_mixed_rbm am ph A
  rw [e]
  exact ⟨h.1, hle, h.2.2⟩

/-- non-vacuity: the concrete mixed-state model of C02's example (`n = 2`, `h = 3`, `a = 2`, all parameters non-zero)
satisfies the guard, so the entropy bound applies to it. -/
example :
    let am : PRBM ℝ 2 3 2 := ⟨fun i j => (i.val : ℝ) - j.val + 0.5, fun k j => (k.val : ℝ) + j.val - 2.5,
      fun j => if j = 0 then -1.5 else 2, fun i => if i = 0 then 0.7 else -0.3, fun k => if k = 0 then 1.2 else -0.4⟩
    let ph : PRBM ℝ 2 3 2 := ⟨fun i j => 0.3 * (i.val : ℝ) - j.val + 0.25, fun k j => if k.val = j.val then 1 else -0.5,
      fun j => if j = 0 then 0.5 else -1, fun i => if i = 0 then -0.2 else 0.9, fun _ => 0.8⟩
    let A : Fin 2 → Bool := fun j => j = 0
    0 ≤ -Real.log (∑ s1, ∑ s2, bornMixed (rbmProb am) s1 * bornMixed (rbmProb am) s2
        * swapApply (ImpState.mixed (rbmRho am ph) (rbmProb am)) A s1 s2) := by
  intro am ph A
  refine (C09_renyi_nonneg_mixed_rbm am ph (C02.C02_NZ_of_phase_weights_small am ph (fun k => ?_)) A).2.2
  have hpi := Real.two_le_pi
  fin_cases k <;> simp [ph, Fin.sum_univ_two] <;> norm_num <;> linarith

end mixedRBM

/-! ### Pairing inside a batch, no mutation, region argument -/

/-- **C09.5** `samples2 = torch.roll(samples, 1, 0)`: row `i` is paired with row `(i − 1) mod B`; the index
map is a bijection of the batch and the second-replica batch is a permutation of the batch, so every
sample is used exactly once in each replica role. -/
theorem C09_pairing {β : Type} (l : List β) :
    (∀ i : Fin l.length, ((rollIdx l.length i).val : ℤ) = ((i.val : ℤ) - 1) % (l.length : ℤ))
    ∧ Function.Bijective (rollIdx l.length)
    ∧ (roll1 l).length = l.length
    ∧ (∀ (i : ℕ) (h : i < l.length),
        (roll1 l)[i]'(by rw [roll1_length]; exact h) = l[(rollIdx l.length ⟨i, h⟩).val])
    ∧ (roll1 l).Perm l :=
  ⟨rollIdx_int l.length, rollIdx_bijective l.length, roll1_length l, roll1_getElem l, roll1_perm l⟩

/-- **C09.6 no mutation** (any scalar type): `SWAP(A).apply` on tensor `sid` of a heap (the in-place `swap`
acts on the two `clone()`s) leaves every tensor the caller had unchanged and returns, row by row, the
per-pair value of `C09_purity` on `(samples[i], samples[(i−1) mod B])`. -/
theorem C09_no_mutation {α : Type} [Add α] [Mul α] [Neg α] [Sub α] [Div α] [Zero α] [One α] [Transc α]
    (S : ImpState α n) (A : Fin n → Bool) (h : THeap n) (sid : ℕ) (hs : sid < h.next) :
    (∀ k, k < h.next → (swapRun S A h sid).1.cells k = h.cells k) ∧
      (swapRun S A h sid).2 = List.zipWith (swapApply S A) (h.cells sid) (roll1 (h.cells sid)) := by
  have := swapRun_spec S A h sid hs
  exact ⟨this.1.2, this.2⟩

/-- the per-pair swap exchanges exactly region `A` and keeps the rest (what `swap(s1, s2, A)` does) -/
theorem C09_swap_rows (A : Fin n → Bool) (s1 s2 : Cfg n) (j : Fin n) :
    ((swapRows A s1 s2).1 j = if A j then s2 j else s1 j)
      ∧ ((swapRows A s1 s2).2 j = if A j then s1 j else s2 j) := ⟨rfl, rfl⟩

/-- region argument: a list of (possibly negative, possibly repeated) site indices within `[-n, n)` denotes
the set of sites `k mod n`; anything outside raises `IndexError`. -/
theorem C09_region (A : List Int) :
    (∀ f, normRegion n A = .ok f →
        ∀ j : Fin n, f j = true ↔ ∃ k ∈ A, k = (j.val : ℤ) ∨ k = (j.val : ℤ) - n)
    ∧ ((∃ k ∈ A, k < -(n : ℤ) ∨ (n : ℤ) ≤ k) → normRegion n A = .error .IndexError) := by
  constructor
  · intro f hf j
    unfold normRegion at hf
    split at hf
    · next hall =>
      injection hf with hf
      subst hf
      simp only [List.any_eq_true, beq_iff_eq]
      rw [List.all_eq_true] at hall
      constructor
      · rintro ⟨k, hk, hkj⟩
        refine ⟨k, hk, ?_⟩
        split at hkj <;> omega
      · rintro ⟨k, hk, hkj⟩
        refine ⟨k, hk, ?_⟩
        have := hall k hk
        simp only [decide_eq_true_eq] at this
        have hj := j.isLt
        split <;> omega
    · exact absurd hf (by simp)
  · rintro ⟨k, hk, hbad⟩
    unfold normRegion
    rw [if_neg]
    intro hall
    rw [List.all_eq_true] at hall
    have := hall k hk
    simp only [decide_eq_true_eq] at this
    omega


/-! ### Composition with the sampler: the batch mean on i.i.d. rows (extension round, package X3)

`C09_purity` averages over INDEPENDENT pairs `(s₁, s₂) ~ p ⊗ p`.  The code never forms such pairs explicitly: `apply` pairs row `i`
of the batch with row `(i − 1) mod B` (`C09_pairing`, `C09_no_mutation`: the returned list is
`zipWith swapApply rows (roll1 rows)`, i.e. entry `i` is `swapApply (rows i) (rows (rollIdx B i))`, `C09_batch_list_form`).
If the `B` rows are i.i.d. draws from `p` (e.g. `B` independent chains each started from `p` and advanced by the `k`-step sampler,
which keeps the product law `p^{⊗B}`: `C08_born_stationary`, `QV.prod_invariant`), then for `B ≥ 2` every pair `(i, i−1 mod B)`
consists of two DIFFERENT rows, hence is an independent pair, and the expectation of the batch mean is the purity
(`C09_batch_mean_unbiased`; the `B` pairs are not independent of each other — only linearity is used).  For `B = 1` the single
sample is paired with itself, the value is identically 1 and the estimate is biased whenever the purity is below 1
(`C09_single_row`, `C09_single_row_biased`). -/

section batch
open QV.Stats

/-- the list `SWAP.apply` returns on a batch with rows `vs` (by `C09_no_mutation`), entry by entry -/
theorem C09_batch_list_form (S : ImpState ℝ n) (A : Fin n → Bool) {B : ℕ} (vs : Fin B → Cfg n) :
    List.zipWith (swapApply S A) (List.ofFn vs) (roll1 (List.ofFn vs))
      = List.ofFn (fun i : Fin B => swapApply S A (vs i) (vs (rollIdx B i))) := by
  apply List.ext_getElem
  · simp [roll1_length]
  · intro i h1 h2
    have hi : i < B := by simpa using h2
    have hl : (List.ofFn vs).length = B := List.length_ofFn
    rw [List.getElem_zipWith, roll1_getElem _ i (by rw [hl]; exact hi)]
    simp only [List.getElem_ofFn]
    congr 2
    apply Fin.ext
    simp only [rollIdx_val, hl]

/-- **(c) the batch mean of `SWAP.apply` on `B ≥ 2` i.i.d. rows is unbiased for the purity**, every region, every state the
importance-sampling interface represents (`p` a probability distribution). -/
theorem C09_batch_mean_unbiased {S : ImpState ℝ n} {G : Op n} {p : Cfg n → ℝ} (h : Represents S G p)
    (hp : ∑ σ, p σ = 1) (A : Fin n → Bool) (B : ℕ) (hB : 2 ≤ B) :
    ∑ vs : Fin B → Cfg n, (∏ b, p (vs b)) *
        ((List.zipWith (swapApply S A) (List.ofFn vs) (roll1 (List.ofFn vs))).sum / B)
      = (purity A (normalised G)).re := by
  have key : ∀ i : Fin B, ∑ vs : Fin B → Cfg n, (∏ b, p (vs b)) * swapApply S A (vs i) (vs (rollIdx B i))
      = (purity A (normalised G)).re := by
    intro i
    rw [sum_prod_marginal2 p hp i (rollIdx B i) (Ne.symm (rollIdx_ne B hB i)) (fun a c => swapApply S A a c)]
    exact C09_purity h A
  have hBR : (B : ℝ) ≠ 0 := by positivity
  simp only [C09_batch_list_form, List.sum_ofFn, ← mul_div_assoc, Finset.mul_sum]
  rw [← Finset.sum_div, Finset.sum_comm]
  simp only [key]
  rw [Finset.sum_const, Finset.card_univ, Fintype.card_fin, nsmul_eq_mul]
  field_simp

/-- **one row**: a sample paired with itself has value exactly 1, whatever the state, the region and the sample. -/
theorem C09_single_row {S : ImpState ℝ n} {G : Op n} {p : Cfg n → ℝ} (h : Represents S G p) (A : Fin n → Bool)
    (s : Cfg n) : swapApply S A s s = 1 := by
  have hw : Obs.toC (S.weight s s) = 1 := by rw [C08_importance_weight h, div_self (h.nz s)]
  show (Obs.toC (C.mul (S.weight (combine s s A) s) (S.weight (combine s s A) s))).re = 1
  rw [combine_self, Obs.toC_mul, hw]
  simp

/-- … so on a one-row batch (`torch.roll` of one row is that row) `SWAP.apply` returns `[1]` and the expectation of the
"batch mean" over a row drawn from `p` is 1 — not the purity. -/
theorem C09_single_row_mean {S : ImpState ℝ n} {G : Op n} {p : Cfg n → ℝ} (h : Represents S G p)
    (hp : ∑ σ, p σ = 1) (A : Fin n → Bool) :
    (∀ vs : Fin 1 → Cfg n, List.zipWith (swapApply S A) (List.ofFn vs) (roll1 (List.ofFn vs)) = [1])
    ∧ ∑ vs : Fin 1 → Cfg n, (∏ b, p (vs b)) *
        ((List.zipWith (swapApply S A) (List.ofFn vs) (roll1 (List.ofFn vs))).sum / (1 : ℕ)) = 1 := by
  have h1 : ∀ vs : Fin 1 → Cfg n, List.zipWith (swapApply S A) (List.ofFn vs) (roll1 (List.ofFn vs)) = [1] := by
    intro vs
    rw [C09_batch_list_form]
    have : rollIdx 1 (0 : Fin 1) = 0 := Subsingleton.elim _ _
    simp [List.ofFn_succ, this, C09_single_row h A]
  refine ⟨h1, ?_⟩
  simp only [h1, List.sum_singleton, Nat.cast_one, div_one, mul_one]
  have := sum_prod_marginal1 (M := 1) p hp 0 (fun _ => (1 : ℝ))
  simpa [hp] using this

/-- the maximally mixed state of one site, as a `DensityMatrix`-style interface: `ρ = 1`, `probability ≡ 1` -/
def mixed1 : ImpState ℝ 1 :=
  ImpState.mixed (fun σ σ' => if σ = σ' then (1, 0) else (0, 0)) (fun _ => 1)

/-- **one row is biased (witness)**: for the maximally mixed state of one site and the region `{0}` the purity is `1/2`, the
i.i.d. batch mean with `B ≥ 2` rows has expectation `1/2`, the one-row "batch mean" has expectation `1`. -/
theorem C09_single_row_biased :
    let rho : Cfg 1 → Cfg 1 → C ℝ := fun σ σ' => if σ = σ' then (1, 0) else (0, 0)
    let p : Cfg 1 → ℝ := bornMixed (fun _ => 1)
    let A : Fin 1 → Bool := fun _ => true
    Represents mixed1 (dmMixed rho) p ∧ ∑ σ, p σ = 1
    ∧ (purity A (normalised (dmMixed rho))).re = 1 / 2
    ∧ ∑ vs : Fin 1 → Cfg 1, (∏ b, p (vs b)) *
        ((List.zipWith (swapApply mixed1 A) (List.ofFn vs) (roll1 (List.ofFn vs))).sum / (1 : ℕ)) = 1 := by
  intro rho p A
  have hrep : Represents mixed1 (dmMixed rho) p :=
    C08_represents_mixed rho (fun _ => 1) (fun σ => by simp [rho]) (fun _ => one_ne_zero)
  have hcard : Fintype.card (Cfg 1) = 2 := by simp
  have hp : ∑ σ, p σ = 1 := by
    simp only [p, bornMixed, Finset.sum_const, Finset.card_univ, hcard]
    norm_num
  refine ⟨hrep, hp, ?_, (C09_single_row_mean hrep hp A).2⟩
  have hT : ∑ τ : Cfg 1, dmMixed rho τ τ = 2 := by
    simp only [dmMixed, rho, if_true, Obs.toC_mk, Finset.sum_const, Finset.card_univ, hcard]
    simp [Complex.ext_iff]
  have hR : ∀ σ σ' : Cfg 1, normalised (dmMixed rho) σ σ' = if σ = σ' then 1 / 2 else 0 := by
    intro σ σ'
    simp only [normalised, hT]
    by_cases hσ : σ = σ'
    · simp [dmMixed, rho, hσ, Complex.ext_iff]
    · simp [dmMixed, rho, hσ, Complex.ext_iff]
  rw [purity_eq_pairs]
  simp only [A, combine_full, hR]
  simp only [ite_mul, zero_mul]
  norm_num

/-- non-vacuity of `C09_batch_mean_unbiased`: the witness state, three i.i.d. rows -/
example : ∑ vs : Fin 3 → Cfg 1, (∏ b, bornMixed (fun _ => (1 : ℝ)) (vs b)) *
      ((List.zipWith (swapApply mixed1 (fun _ => true)) (List.ofFn vs) (roll1 (List.ofFn vs))).sum / (3 : ℕ)) = 1 / 2 := by
  obtain ⟨hrep, hp, hpur, _⟩ := C09_single_row_biased
  rw [← hpur]
  exact C09_batch_mean_unbiased hrep hp _ 3 (by norm_num)

end batch

/-! ### (d) SWAP through the `statistics` loop (late theorems)

`C09_batch_mean_unbiased` is about ONE batch of i.i.d. rows.  `ObservableBase.statistics` draws `T = ⌈num_samples/B⌉` batches by
threading the SAME `B` chains through the sampler (`Stats.drawsProg`).  Each chain evolves independently under a kernel that
leaves `p` invariant (the batched program has the product law, `C05_batch_law`), so the product `p^{⊗B}` is invariant under every
call (`QV.prod_invariant`): at every draw the `B` rows are again i.i.d. from `p`, every draw's batch mean has expectation
`Re tr ρ̂_A²` (`C09_batch_mean_unbiased`), and by linearity over the draws (`C13_mean_stationary`; the draws are dependent, the
chains continue) so has the mean that `statistics` reports.  No independence lemma beyond the product law of ONE call is needed:
stationarity of the product measure is all `C13_mean_stationary` asks for. -/
section statsLoop
open QV.Stats Prog

/-- what `SWAP.apply` returns on the batch with rows `vs`: entry `i` pairs row `i` with row `i − 1 mod B` (`C09_no_mutation`,
`C09_batch_list_form`) -/
noncomputable def swapBatch (S : ImpState ℝ n) (A : Fin n → Bool) {B : ℕ} (vs : Fin B → Cfg n) : List ℝ :=
  List.zipWith (swapApply S A) (List.ofFn vs) (roll1 (List.ofFn vs))

theorem swapBatch_length (S : ImpState ℝ n) (A : Fin n → Bool) {B : ℕ} (vs : Fin B → Cfg n) :
    (swapBatch S A vs).length = B := by
  simp [swapBatch, roll1_length]

/-- **(d) generic.**  `S` represents `G` with sampling distribution `p` (a probability distribution); `B ≥ 2` chains whose
single-chain `k`-step programs `stepK k` leave `p` invariant, batched as `stepKB k` with the product law; every chain started
from `p`.  For every region `A`, `num_samples ≥ 1`, `burn_in`, `steps`, with `T = ⌈num_samples/B⌉` draws: (i) on every execution
`statistics` returns the one-pass statistics of the `T·B` swap values, the sampler having been called with
`k = [burn_in, steps, …, steps]`, and (ii) the expectation of the reported MEAN over the joint law of all `T` draws of all `B`
chains is `Re tr ρ̂_A²`. -/
theorem C09_statistics_unbiased_generic {S : ImpState ℝ n} {G : Op n} {p : Cfg n → ℝ} (h : Represents S G p)
    (hp : ∑ σ, p σ = 1) (stepK : ℕ → Cfg n → Prog ℝ (Cfg n)) (B : ℕ)
    (stepKB : ℕ → (Fin B → Cfg n) → Prog ℝ (Fin B → Cfg n))
    (hlaw : ∀ k vs ws, (stepKB k vs).law ws = ∏ b, (stepK k (vs b)).law (ws b))
    (hinv : ∀ k w, ∑ v, p v * (stepK k v).law w = p w)
    (A : Fin n → Bool) (hB : 2 ≤ B) (ns nc burnIn steps T : ℕ) (hns : 1 ≤ ns) (hT : numTimeSteps ns B = .ok T)
    (ow : Bool) (dflt : Fin B → Cfg n) :
    (∀ (s₀ : Fin B → Cfg n) (sts : List (Fin B → Cfg n)), sts.length = T →
        ∃ calls, obsStatistics (recEnv B sts dflt) (swapBatch S A) ⟨ns, nc, burnIn, steps, some s₀, ow⟩
            = .ok (C13.onePass ((sts.map (swapBatch S A)).flatten), calls)
          ∧ calls.map (·.k) = burnIn :: List.replicate (T - 1) steps)
    ∧ ∑ vs₀ : Fin B → Cfg n, (∏ b, p (vs₀ b)) *
          (drawsProg stepKB burnIn steps T 0 vs₀).expect (fun sts => C13.mean ((sts.map (swapBatch S A)).flatten))
        = (purity A (normalised G)).re := by
  have hinvB : ∀ k ws, ∑ vs : Fin B → Cfg n, (∏ b, p (vs b)) * (stepKB k vs).law ws = ∏ b, p (ws b) := by
    intro k ws
    simp only [hlaw]
    exact prod_invariant p (fun v w => (stepK k v).law w) (hinv k) ws
  obtain ⟨T', hT', _, _, hrec, hexp⟩ := C13.C13_mean_stationary stepKB (fun vs => ∏ b, p (vs b)) hinvB
    (swapBatch S A) B (by omega) (swapBatch_length S A) ns nc burnIn steps hns ow dflt
  have hTT : T' = T := by rw [hT] at hT'; exact (Except.ok.inj hT').symm
  subst hTT
  refine ⟨hrec, hexp.trans ?_⟩
  have hm : ∀ vs : Fin B → Cfg n, C13.mean (swapBatch S A vs)
      = (List.zipWith (swapApply S A) (List.ofFn vs) (roll1 (List.ofFn vs))).sum / B := by
    intro vs
    rw [C13.mean, swapBatch_length]
    rfl
  simp only [hm]
  exact C09_batch_mean_unbiased h hp A B hB

variable {hid a : ℕ}

/-- **(d) the mean of `SWAP` reported by `statistics` is unbiased for the purity — the three RBM states, no hypotheses on the
parameters.**  `B ≥ 2` chains started i.i.d. from the state's exact sampling distribution (the caller's `initial_state`), the
loop's sampler calls being the model's batched block-Gibbs program `gibbsStepsB k` (C05) with `k = burn_in` once and `k = steps`
afterwards, `T = ⌈num_samples/B⌉` draws: the expectation of the reported mean is `Re tr ρ̂_A²` for the complex wavefunction, the
positive wavefunction and the purification density matrix, every region `A`.  (`B = 1` is excluded for the reason
`C09_single_row_biased` shows.)  NOT claimed: anything about a start that is not stationary, or about the reported variance /
standard error. -/
theorem C09_statistics_unbiased (am ph : RBM ℝ n hid) (qa qp : PRBM ℝ n hid a) (A : Fin n → Bool) (B : ℕ) (hB : 2 ≤ B)
    (ns burnIn steps T : ℕ) (hns : 1 ≤ ns) (hT : numTimeSteps ns B = .ok T) :
    let psiC : Cfg n → C ℝ := fun σ => Wave.psiCplx am ph (fun j => bit (σ j))
    let psiP : Cfg n → C ℝ := fun σ => Wave.psiPos am (fun j => bit (σ j))
    let SM := ImpState.mixed (rbmRho qa qp) (rbmProb qa)
    (∑ vs₀ : Fin B → Cfg n, (∏ b, bornPure psiC (vs₀ b)) *
        (drawsProg (fun k => am.gibbsStepsB k) burnIn steps T 0 vs₀).expect
          (fun sts => C13.mean ((sts.map (swapBatch (ImpState.pure psiC) A)).flatten))
      = (purity A (normalised (dmPure psiC))).re)
    ∧ (∑ vs₀ : Fin B → Cfg n, (∏ b, bornPure psiP (vs₀ b)) *
        (drawsProg (fun k => am.gibbsStepsB k) burnIn steps T 0 vs₀).expect
          (fun sts => C13.mean ((sts.map (swapBatch (ImpState.pure psiP) A)).flatten))
      = (purity A (normalised (dmPure psiP))).re)
    ∧ (∑ vs₀ : Fin B → Cfg n, (∏ b, bornMixed (rbmProb qa) (vs₀ b)) *
        (drawsProg (fun k => qa.gibbsStepsB k) burnIn steps T 0 vs₀).expect
          (fun sts => C13.mean ((sts.map (swapBatch SM A)).flatten))
      = (purity A (normalised (dmMixed (rbmRho qa qp)))).re) := by
  intro psiC psiP SM
  have hst := fun k w => C08_born_stationary am ph qa k w
  have hst0 := C08_born_stationary am ph qa 0 (fun _ => false)
  have hstP := fun k w => C08_born_stationary am am qa k w
  refine ⟨?_, ?_, ?_⟩
  · exact (C09_statistics_unbiased_generic (C08_represents_pure psiC (fun σ => (C08_rbm_psi_ne_zero am ph σ).2))
      hst0.2.2.2.1 (fun k => am.gibbsSteps k) B (fun k => am.gibbsStepsB k)
      (fun k vs ws => (gibbsStepsB_law am qa k vs ws).1) (fun k w => (hst k w).1) A hB ns 0 burnIn steps T hns hT false
      (fun _ _ => false)).2
  · exact (C09_statistics_unbiased_generic (C08_represents_pure psiP (fun σ => (C08_rbm_psi_ne_zero am am σ).1))
      hst0.2.2.2.2.1 (fun k => am.gibbsSteps k) B (fun k => am.gibbsStepsB k)
      (fun k vs ws => (gibbsStepsB_law am qa k vs ws).1) (fun k w => (hstP k w).2.1) A hB ns 0 burnIn steps T hns hT false
      (fun _ _ => false)).2
  · exact (C09_statistics_unbiased_generic
      (C08_represents_mixed (rbmRho qa qp) (rbmProb qa) (fun σ => (C08_rbm_rho_diag qa qp σ).1)
        (fun σ => (C08_rbm_rho_diag qa qp σ).2.ne'))
      hst0.2.2.2.2.2 (fun k => qa.gibbsSteps k) B (fun k => qa.gibbsStepsB k)
      (fun k vs ws => (gibbsStepsB_law am qa k vs ws).2) (fun k w => (hst k w).2.2.1) A hB ns 0 burnIn steps T hns hT false
      (fun _ _ => false)).2

/-- non-vacuity: a concrete complex RBM state on two sites (`h = 3`), region `{0}`, 3 chains, 7 requested samples (= 3 draws),
burn-in 5, 2 steps between draws: the expectation of the `SWAP` mean reported by `statistics` is the purity of site 0. -/
example : let am : RBM ℝ 2 3 := ⟨fun i j => (i.val : ℝ) - j.val + 0.5, fun j => if j = 0 then -1.5 else 2,
      fun i => if i = 0 then 0.7 else -0.3⟩
    let ph : RBM ℝ 2 3 := ⟨fun i j => 0.25 * (i.val : ℝ) + j.val, fun j => if j = 0 then 1 else -2,
      fun i => if i = 0 then -0.4 else 0.9⟩
    let psi : Cfg 2 → C ℝ := fun σ => Wave.psiCplx am ph (fun j => bit (σ j))
    let A : Fin 2 → Bool := fun j => j = 0
    ∑ vs₀ : Fin 3 → Cfg 2, (∏ b, bornPure psi (vs₀ b)) *
      (drawsProg (fun k => am.gibbsStepsB k) 5 2 3 0 vs₀).expect
        (fun sts => C13.mean ((sts.map (swapBatch (ImpState.pure psi) A)).flatten))
      = (purity A (normalised (dmPure psi))).re :=
  (C09_statistics_unbiased _ _ (⟨fun _ _ => 0, fun _ _ => 0, fun _ => 0, fun _ => 0, fun _ => 0⟩ : PRBM ℝ 2 3 0)
    ⟨fun _ _ => 0, fun _ _ => 0, fun _ => 0, fun _ => 0, fun _ => 0⟩ _ 3 (by norm_num) 7 5 2 3 (by norm_num) (by decide)).1

/-- … and on the generic theorem's (i): the maximally mixed one-site state with the identity "sampler" (`ret`, which leaves every
distribution invariant), two chains — hypotheses of `C09_statistics_unbiased_generic` are jointly satisfiable with a mixed state. -/
example : ∑ vs₀ : Fin 2 → Cfg 1, (∏ b, bornMixed (fun _ => (1 : ℝ)) (vs₀ b)) *
      (drawsProg (fun _ vs => (Prog.ret vs : Prog ℝ (Fin 2 → Cfg 1))) 0 0 2 0 vs₀).expect
        (fun sts => C13.mean ((sts.map (swapBatch mixed1 (fun _ => true))).flatten)) = 1 / 2 := by
  obtain ⟨hrep, hp, hpur, _⟩ := C09_single_row_biased
  rw [← hpur]
  refine (C09_statistics_unbiased_generic hrep hp (fun _ v => Prog.ret v) 2 (fun _ vs => Prog.ret vs) ?_ ?_ _ le_rfl
    3 0 0 0 2 (by norm_num) (by decide) false (fun _ _ => false)).2
  · intro k vs ws
    simp only [Prog.law]
    by_cases h : vs = ws
    · subst h; simp
    · obtain ⟨b, hb⟩ := Function.ne_iff.mp h
      rw [if_neg h, eq_comm]
      exact Finset.prod_eq_zero (Finset.mem_univ b) (by simp [hb])
  · intro k w
    simp [Prog.law]

end statsLoop

/-- non-vacuity: complex RBM state, region `{0}` of two sites -/
example : let am : RBM ℝ 2 3 := ⟨fun i j => (i.val : ℝ) - j.val + 0.5, fun j => if j = 0 then -1.5 else 2,
      fun i => if i = 0 then 0.7 else -0.3⟩
    let ph : RBM ℝ 2 3 := ⟨fun i j => 0.25 * (i.val : ℝ) + j.val, fun j => if j = 0 then 1 else -2,
      fun i => if i = 0 then -0.4 else 0.9⟩
    let psi : Cfg 2 → C ℝ := fun σ => Wave.psiCplx am ph (fun j => bit (σ j))
    let A : Fin 2 → Bool := fun j => j = 0
    (∑ s1, ∑ s2, bornPure psi s1 * bornPure psi s2 * swapApply (ImpState.pure psi) A s1 s2
        = (purity A (normalised (dmPure psi))).re)
      ∧ 0 ≤ -Real.log (purity A (normalised (dmPure psi))).re := by
  intro am ph psi A
  have hψ : ∀ σ, psi σ ≠ (0, 0) := fun σ => (C08_rbm_psi_ne_zero am ph σ).2
  exact ⟨C09_purity_pure psi hψ A,
    (C09_renyi_nonneg A _ (C09_pure_is_state psi hψ).1 (C09_pure_is_state psi hψ).2).2.2⟩

/-- **RBM wavefunctions, no hypotheses** (second audit, item C09-A1): for EVERY parameter setting of the complex
wavefunction `ψ_λμ` and every region `A` the swap estimator averages to the purity of the reduced state, the purity is a
positive real ≤ 1 (second Rényi entropy well defined and non-negative), equal for `A` and its complement, and one for the
empty and the full region. (`C09_purity_pure`, `C09_renyi_nonneg`, `C09_pure_symmetric`, `C09_pure_trivial` with the
hypothesis `ψ ≠ 0` discharged by `C08_rbm_psi_ne_zero`.) -/
theorem C09_renyi_nonneg_pure_rbm {hid : ℕ} (am ph : RBM ℝ n hid) (A : Fin n → Bool) :
    let psi : Cfg n → C ℝ := fun σ => Wave.psiCplx am ph (fun j => bit (σ j))
    (∑ s1, ∑ s2, bornPure psi s1 * bornPure psi s2 * swapApply (ImpState.pure psi) A s1 s2
        = (purity A (normalised (dmPure psi))).re)
      ∧ 0 < (purity A (normalised (dmPure psi))).re
      ∧ 0 ≤ -Real.log (purity A (normalised (dmPure psi))).re
      ∧ purity (regionCompl A) (normalised (dmPure psi)) = purity A (normalised (dmPure psi))
      ∧ purity (fun _ => false) (normalised (dmPure psi)) = 1
      ∧ purity (fun _ => true) (normalised (dmPure psi)) = 1 := by
  intro psi
  have hψ : ∀ σ, psi σ ≠ (0, 0) := fun σ => (C08_rbm_psi_ne_zero am ph σ).2
  have hr := C09_renyi_nonneg A _ (C09_pure_is_state psi hψ).1 (C09_pure_is_state psi hψ).2
  exact ⟨C09_purity_pure psi hψ A, hr.1, hr.2.2, C09_pure_symmetric psi A, (C09_pure_trivial psi hψ).1,
    (C09_pure_trivial psi hψ).2.1⟩

/-- … and of the positive wavefunction `ψ_λ`. -/
theorem C09_renyi_nonneg_pure_rbm_pos {hid : ℕ} (am : RBM ℝ n hid) (A : Fin n → Bool) :
    let psi : Cfg n → C ℝ := fun σ => Wave.psiPos am (fun j => bit (σ j))
    (∑ s1, ∑ s2, bornPure psi s1 * bornPure psi s2 * swapApply (ImpState.pure psi) A s1 s2
        = (purity A (normalised (dmPure psi))).re)
      ∧ 0 < (purity A (normalised (dmPure psi))).re
      ∧ 0 ≤ -Real.log (purity A (normalised (dmPure psi))).re
      ∧ purity (regionCompl A) (normalised (dmPure psi)) = purity A (normalised (dmPure psi))
      ∧ purity (fun _ => false) (normalised (dmPure psi)) = 1
      ∧ purity (fun _ => true) (normalised (dmPure psi)) = 1 := by
  intro psi
  have hψ : ∀ σ, psi σ ≠ (0, 0) := fun σ => (C08_rbm_psi_ne_zero am am σ).1
  have hr := C09_renyi_nonneg A _ (C09_pure_is_state psi hψ).1 (C09_pure_is_state psi hψ).2
  exact ⟨C09_purity_pure psi hψ A, hr.1, hr.2.2, C09_pure_symmetric psi A, (C09_pure_trivial psi hψ).1,
    (C09_pure_trivial psi hψ).2.1⟩

end C09
end QV.Props
