/-
C17 — Periodic callbacks fire on schedule and their records match what happened.

"A metric evaluator, observable evaluator, model saver or logger with period p acts at exactly those
epochs of the run that are multiples of p (plus the initial save when requested) and at no other time.
Everything the evaluators expose afterwards — number of evaluations, epochs, per-name value arrays,
indexed lookup, last values, the CSV log — agrees with the values computed at those epochs in order, and
each file written by the model saver is named by the epoch and loads back to the parameters the model
had at the end of that epoch with the requested metadata."

All theorems: ∀ periods p ≥ 1, ∀ event streams (ARBITRARY lists of events: complete runs, runs cut short
by a stop request, several runs in sequence, any interleaving of other events), ∀ initial states of the
callback (fresh, after earlier runs, after `clear_history`), ∀ environments (metric functions, statistics,
metadata callables, parameter snapshots as functions of the world token carried by each event).
Model definitions: QV.Model.Callbacks (executed against the code by the C17 correspondence check).

Specification (independent of the model's state machines): `firedEpochs` = the epoch-end events of the
stream, `scheduled p` = those whose epoch is divisible by `p` (Int divisibility `p ∣ e`, not the code's
`%`), and the per-callback record lists built from them by `List.map`/`List.filterMap`.
-/
import Mathlib.Data.List.Forall2
import QV.Model.Callbacks
import QV.Lemmas.Callbacks
import QV.Lemmas.Stats
import QV.Props.C12

namespace QV.Props
namespace C17
open QV QV.Cb

variable {W V X P M Msg : Type}

/-! ### specification -/

/-- the `(epoch, world)` pairs of the epoch-end events of a stream, in order -/
def firedEpochs : List (Ev W) → List (Int × W)
  | [] => []
  | .epochEnd e w :: rest => (e, w) :: firedEpochs rest
  | .trainStart _ :: rest => firedEpochs rest
  | .epochStart _ _ :: rest => firedEpochs rest
  | .batchStart _ _ _ :: rest => firedEpochs rest
  | .batchEnd _ _ _ :: rest => firedEpochs rest
  | .trainEnd _ :: rest => firedEpochs rest

/-- the epoch-end events at which a callback of period `p` has to act: epoch divisible by `p` -/
def scheduled (p : Int) (evs : List (Ev W)) : List (Int × W) :=
  (firedEpochs evs).filter (fun x => decide (p ∣ x.1))

/-- the records `[(e, values at e)]` an evaluator must hold for the evaluation points `pts` -/
def recordsOf (vals : W → Dict String X) (pts : List (Int × W)) : List (Int × Dict String X) :=
  pts.map (fun x => (x.1, vals x.2))

/-- `last` after the evaluation points `pts` (unchanged when there is none) -/
def lastOf (vals : W → Dict String X) (last₀ : Dict String X) (pts : List (Int × W)) : Dict String X :=
  match pts.getLast? with
  | none => last₀
  | some x => vals x.2

/-- the CSV row of a metric evaluator for one evaluation point: epoch, then the metric values in the
order of `names` -/
def metricRow (c : MetricEvaluator W V) (x : Int × W) : List (Cell V) :=
  Cell.int x.1 :: c.metrics.map (fun nf => Cell.val (nf.2 x.2))

/-- the cell for observable `o`, statistic `st` -/
def statCell (last : Dict String (Dict String V)) (o st : String) : Cell V :=
  match last.lookup o with
  | some d => (match d.lookup st with | some v => Cell.val v | none => Cell.blank)
  | none => Cell.blank

/-- the CSV row of an observable evaluator: epoch, then mean / variance / std_error of each observable in
the order of `names` (nothing else: `num_samples` has no column) -/
def observableRow (c : ObservableEvaluator W V) (x : Int × W) : List (Cell V) :=
  Cell.int x.1 :: c.names.flatMap (fun o => ["mean", "variance", "std_error"].map (fun st => statCell (c.statistics x.2) o st))

/-- what a model saver has to write for one event -/
def saverWrite (c : ModelSaver W P M) : Ev W → Option (FileArg × FileBody P M)
  | .trainStart w =>
    if c.saveInitial then
      some (.initial, if c.metadataOnly then .metaOnly (c.mdFor w 0) else .full (c.params w) (c.mdFor w 0))
    else none
  | .epochEnd e w =>
    if c.period ∣ e then
      some (.epoch e, if c.metadataOnly then .metaOnly (c.mdFor w e) else .full (c.params w) (c.mdFor w e))
    else none
  | _ => none

/-- python dict invariant: distinct keys, at both levels of a statistics dict -/
def StatsWF (d : Dict String (Dict String V)) : Prop :=
  d.keys.Nodup ∧ ∀ od ∈ d, od.2.keys.Nodup

/-! ### auxiliary facts about the specification -/

theorem scheduled_cons_epochEnd (p e : Int) (w : W) (rest : List (Ev W)) :
    scheduled p (.epochEnd e w :: rest) = if p ∣ e then (e, w) :: scheduled p rest else scheduled p rest := by
  simp only [scheduled, firedEpochs, List.filter_cons]
  by_cases h : p ∣ e <;> simp [h]

theorem scheduled_cons_other (p : Int) (ev : Ev W) (rest : List (Ev W)) (h : ∀ e w, ev ≠ .epochEnd e w) :
    scheduled p (ev :: rest) = scheduled p rest := by
  cases ev <;> simp_all [scheduled, firedEpochs]

theorem lastOf_cons (vals : W → Dict String X) (last₀ : Dict String X) (x : Int × W) (pts : List (Int × W)) :
    lastOf vals last₀ (x :: pts) = lastOf vals (vals x.2) pts := by
  unfold lastOf
  rw [List.getLast?_cons]
  cases pts.getLast? <;> rfl

/-! ### MetricEvaluator -/

/-- the metric functions' values, looked up by name in the dict built at one evaluation -/
theorem C17_records_metric_value (c : MetricEvaluator W V) (hnd : c.names.Nodup) (w : W)
    {name : String} {f : W → V} (hf : (name, f) ∈ c.metrics) :
    (c.evalAll w).getItem name = .ok (f w) := by
  apply getItem_of_mem_nodup
  · simpa [MetricEvaluator.evalAll, Dict.keys, MetricEvaluator.names, List.map_map, Function.comp_def] using hnd
  · exact List.mem_map.mpr ⟨(name, f), hf, rfl⟩

theorem metric_logRow (c : MetricEvaluator W V) (hnd : c.names.Nodup) (hep : "epoch" ∉ c.names) (e : Int) (w : W) :
    c.logRow e (c.evalAll w) = .ok (metricRow c (e, w)) := by
  have hkeys : (c.evalAll w).keys = c.names := by
    simp [MetricEvaluator.evalAll, Dict.keys, MetricEvaluator.names, List.map_map, Function.comp_def]
  have h1 : (c.evalAll w).keys.contains "epoch" = false := by
    rw [hkeys]; simpa using hep
  unfold MetricEvaluator.logRow
  simp only [h1, Bool.false_eq_true, if_false]
  unfold dictWriterRow
  have hextra : (Dict.keys ((Field.epoch, Cell.int e) :: (c.evalAll w).map (fun nv => (Field.name nv.1, Cell.val nv.2)))).any
      (fun k => !(c.csvFields).contains k) = false := by
    rw [List.any_eq_false]
    intro k hk
    simp only [Dict.keys, List.map_cons, List.map_map, List.mem_cons, List.mem_map, Function.comp_def] at hk
    rcases hk with hk | ⟨nv, hnv, hk⟩
    · subst hk; simp [MetricEvaluator.csvFields]
    · subst hk
      have : nv.1 ∈ c.names := by
        rw [← hkeys]; exact List.mem_map.mpr ⟨nv, hnv, rfl⟩
      simp [MetricEvaluator.csvFields, this]
  simp only [hextra, Bool.not_false, Bool.true_and, Bool.false_eq_true, if_false]
  congr 1
  simp only [MetricEvaluator.csvFields, List.map_cons, metricRow, List.lookup, beq_self_eq_true, List.map_map]
  congr 1
  unfold MetricEvaluator.names Dict.keys
  rw [List.map_map]
  apply List.map_congr_left
  intro nf hnf
  have hmem : (Field.name nf.1, Cell.val (nf.2 w)) ∈
      (c.evalAll w).map (fun nv => (Field.name nv.1, (Cell.val nv.2 : Cell V))) := by
    apply List.mem_map.mpr
    exact ⟨(nf.1, nf.2 w), List.mem_map.mpr ⟨nf, hnf, rfl⟩, rfl⟩
  have hnd' : (((c.evalAll w).map (fun nv => (Field.name nv.1, (Cell.val nv.2 : Cell V)))).map Prod.fst).Nodup := by
    have : ((c.evalAll w).map (fun nv => (Field.name nv.1, (Cell.val nv.2 : Cell V)))).map Prod.fst
        = c.names.map Field.name := by
      rw [← hkeys]; simp [Dict.keys, List.map_map, Function.comp_def]
    rw [this]
    exact hnd.map (fun a b h => by cases h; rfl)
  have hne : (Field.name nf.1 == Field.epoch) = false := by simp
  simp only [Function.comp_def, hne]
  rw [lookup_of_mem_nodup hnd' hmem]
  rfl

/-- one `on_epoch_end` of a metric evaluator -/
theorem metric_onEpochEnd (c : MetricEvaluator W V) (hp : 1 ≤ c.period) (hnd : c.names.Nodup)
    (hep : c.log = true → "epoch" ∉ c.names) (s : EvalState V V) (e : Int) (w : W) :
    c.onEpochEnd s e w = .ok (if c.period ∣ e then
      { past := s.past ++ [(e, c.evalAll w)], last := c.evalAll w,
        log := s.log ++ (if c.log then [metricRow c (e, w)] else []) } else s) := by
  unfold MetricEvaluator.onEpochEnd
  rw [gate_pos hp]
  by_cases hd : c.period ∣ e
  · simp only [hd, decide_true, if_true]
    by_cases hl : c.log = true
    · simp [hl, metric_logRow c hnd (hep hl)]
    · simp [hl]
  · simp [hd]

/-- **C17 records (MetricEvaluator).** After ANY event stream, from ANY state: the history is the old one
followed by `(e, values at e)` for exactly the scheduled epoch-ends in order, `last` is the values of the
last scheduled one, and the CSV log gained one row `epoch, values…` per scheduled epoch-end. -/
theorem C17_records_metric_run (c : MetricEvaluator W V) (hp : 1 ≤ c.period) (hnd : c.names.Nodup)
    (hep : c.log = true → "epoch" ∉ c.names) (s : EvalState V V) (evs : List (Ev W)) :
    c.run s evs = .ok
      { past := s.past ++ recordsOf c.evalAll (scheduled c.period evs),
        last := lastOf c.evalAll s.last (scheduled c.period evs),
        log := s.log ++ (if c.log then (scheduled c.period evs).map (metricRow c) else []) } := by
  induction evs generalizing s with
  | nil => simp [MetricEvaluator.run, runWith, scheduled, firedEpochs, recordsOf, lastOf]
  | cons ev rest ih =>
    unfold MetricEvaluator.run at ih ⊢
    cases ev with
    | epochEnd e w =>
      simp only [runWith, MetricEvaluator.step, metric_onEpochEnd c hp hnd hep]
      rw [ih, scheduled_cons_epochEnd]
      by_cases hd : c.period ∣ e
      · simp only [hd, if_true, recordsOf, List.map_cons, lastOf_cons]
        by_cases hl : c.log = true <;> simp [hl, List.append_assoc]
      · simp [hd]
    | trainStart w => simpa [runWith, MetricEvaluator.step, scheduled_cons_other] using ih s
    | epochStart e w => simpa [runWith, MetricEvaluator.step, scheduled_cons_other] using ih s
    | batchStart e b w => simpa [runWith, MetricEvaluator.step, scheduled_cons_other] using ih s
    | batchEnd e b w => simpa [runWith, MetricEvaluator.step, scheduled_cons_other] using ih s
    | trainEnd w => simpa [runWith, MetricEvaluator.step, scheduled_cons_other] using ih s

/-- **C17 schedule (MetricEvaluator).** The epochs at which the evaluator acted (its `epochs`) are the old
ones followed by exactly the fired epoch-ends divisible by `p`, in order — nothing at any other event. -/
theorem C17_schedule_metric (c : MetricEvaluator W V) (hp : 1 ≤ c.period) (hnd : c.names.Nodup)
    (hep : c.log = true → "epoch" ∉ c.names) (s : EvalState V V) (evs : List (Ev W)) :
    ∃ s', c.run s evs = .ok s' ∧
      s'.epochs = s.epochs ++ ((firedEpochs evs).filter (fun x => decide (c.period ∣ x.1))).map Prod.fst := by
  refine ⟨_, C17_records_metric_run c hp hnd hep s evs, ?_⟩
  simp [EvalState.epochs, recordsOf, scheduled, List.map_map, Function.comp_def]

/-! ### accessors of an evaluator whose history is `recordsOf vals pts` (both evaluators) -/

/-- `len(evaluator)` = number of evaluations, `evaluator.epochs` = their epochs in order -/
theorem C17_records_len_epochs (vals : W → Dict String X) (pts : List (Int × W)) (s : EvalState X V)
    (hs : s.past = recordsOf vals pts) :
    s.len = pts.length ∧ s.epochs = pts.map Prod.fst := by
  simp [EvalState.len, EvalState.epochs, hs, recordsOf, List.map_map, Function.comp_def]

/-- `evaluator[name]` = the values computed for `name` at the evaluation points, in order -/
theorem C17_records_getitem (vals : W → Dict String X) (pts : List (Int × W)) (s : EvalState X V)
    (hs : s.past = recordsOf vals pts) (name : String) (g : W → X)
    (hg : ∀ x ∈ pts, (vals x.2).getItem name = .ok (g x.2)) :
    s.getItem name = .ok (pts.map (fun x => g x.2)) := by
  unfold EvalState.getItem
  rw [hs, recordsOf]
  have h2 : mapE (fun (r : Int × Dict String X) => r.2.getItem name) (pts.map (fun x => (x.1, vals x.2)))
      = .ok (pts.map (fun x => g x.2)) := by
    clear hs
    induction pts with
    | nil => rfl
    | cons x rest ih =>
      have hx := hg x (by simp)
      have hr := ih (fun y hy => hg y (by simp [hy]))
      simp [mapE, hx, hr]
  rw [h2]

/-- **name spaces** — `name` is ANY string, in particular one that the evaluator object also uses for an attribute,
property or method of its own (`log`, `period`, `last`, `verbose`, `epochs`, `names`, `metrics`, `past_values`,
`get_value`, `__len__`, …; `own` = the names Python's normal lookup resolves):
* subscripting `evaluator[name]` is the recorded values of `name`, whatever `own` is;
* attribute syntax `evaluator.name` is the same array exactly when `name ∉ own`, and the evaluator's own attribute
  (never the recorded values, `__getattr__` is not consulted) when `name ∈ own`. -/
theorem C17_records_getattr (own : List String) (vals : W → Dict String X) (pts : List (Int × W)) (s : EvalState X V)
    (hs : s.past = recordsOf vals pts) (name : String) (g : W → X)
    (hg : ∀ x ∈ pts, (vals x.2).getItem name = .ok (g x.2)) :
    s.getItem name = .ok (pts.map (fun x => g x.2)) ∧
    (name ∉ own → s.getAttr own name = .ok (.dynamic (pts.map (fun x => g x.2)))) ∧
    (name ∈ own → s.getAttr own name = .ok (.own name)) := by
  have h := C17_records_getitem (V := V) vals pts s hs name g hg
  refine ⟨h, fun hn => ?_, fun hn => ?_⟩
  · simp [EvalState.getAttr, pyGetattr, hn, h]
  · simp [EvalState.getAttr, pyGetattr, hn]

/-- the same rule one level down, on `ObservableStatistics`: `stats[statistic]` is always the plural-stripping lookup in
the recorded dicts (`obsStatGet`, see `C17_records_observable_statistics`), even for a statistic called `data`;
`stats.statistic` is that lookup iff the name is not one of the object's own attributes (`data`, dunders), and an
untracked non-own name is an `AttributeError` in both syntaxes. -/
theorem C17_records_statistics_getattr (own : List String) (data : List (Dict String V)) (statistic : String) :
    (statistic ∉ own → ∀ r, obsStatGet data statistic = .ok r → obsStatGetAttr own data statistic = .ok (.dynamic r)) ∧
    (statistic ∉ own → ∀ e, obsStatGet data statistic = .error e → obsStatGetAttr own data statistic = .error e) ∧
    (statistic ∈ own → obsStatGetAttr own data statistic = .ok (.own statistic)) := by
  refine ⟨fun hn r hr => ?_, fun hn e he => ?_, fun hn => ?_⟩
  · simp [obsStatGetAttr, pyGetattr, hn, hr]
  · simp [obsStatGetAttr, pyGetattr, hn, he]
  · simp [obsStatGetAttr, pyGetattr, hn]

/-- a name that is not tracked is an `AttributeError` (as soon as there is at least one record; with an
empty history the code returns an empty array for every name) -/
theorem C17_records_getitem_missing (vals : W → Dict String X) (pts : List (Int × W)) (s : EvalState X V)
    (hs : s.past = recordsOf vals pts) (name : String) (x : Int × W) (rest : List (Int × W))
    (hpts : pts = x :: rest) (hmiss : name ∉ (vals x.2).keys) :
    s.getItem name = .error .AttributeError ∧
    ({ s with past := [] } : EvalState X V).getItem name = .ok [] := by
  constructor
  · unfold EvalState.getItem
    rw [hs, hpts, recordsOf, List.map_cons]
    simp [mapE, getItem_of_not_mem hmiss]
  · simp [EvalState.getItem, mapE]

/-- `get_value(name, i)`: for `0 ≤ k < len` both `i = k` and `i = k − len` (Python negative indexing) give the
value computed for `name` at the `k`-th evaluation point -/
theorem C17_records_get_value (vals : W → Dict String X) (pts : List (Int × W)) (s : EvalState X V)
    (hs : s.past = recordsOf vals pts) (name : String) (k : Nat) (hk : k < pts.length) :
    s.getValue name (some (k : Int)) = (vals pts[k].2).getItem name ∧
    s.getValue name (some ((k : Int) - pts.length)) = (vals pts[k].2).getItem name := by
  have hlen : s.past.length = pts.length := by simp [hs, recordsOf]
  have hk' : k < s.past.length := by omega
  have hget : s.past[k] = (pts[k].1, vals pts[k].2) := by simp [hs, recordsOf]
  constructor
  · simp [EvalState.getValue, pyIndex_nonneg s.past k hk', hget]
  · have := pyIndex_neg s.past k hk'
    rw [hlen] at this
    simp [EvalState.getValue, this, hget]

/-- `get_value(name, i)` outside `−len ≤ i < len` is an `IndexError` -/
theorem C17_records_get_value_out_of_range (vals : W → Dict String X) (pts : List (Int × W)) (s : EvalState X V)
    (hs : s.past = recordsOf vals pts) (name : String) (i : Int)
    (hi : (pts.length : Int) ≤ i ∨ i < -(pts.length : Int)) :
    s.getValue name (some i) = .error .IndexError := by
  have hlen : s.past.length = pts.length := by simp [hs, recordsOf]
  have := pyIndex_out s.past i (by rw [hlen]; exact hi)
  simp [EvalState.getValue, this]

/-- `get_value(name)` (no index) is the value at the LAST evaluation point; `IndexError` on an empty history -/
theorem C17_records_get_value_default (vals : W → Dict String X) (pts : List (Int × W)) (s : EvalState X V)
    (hs : s.past = recordsOf vals pts) (name : String) :
    s.getValue name none = (match pts.getLast? with
      | some x => (vals x.2).getItem name
      | none => .error .IndexError) := by
  rcases Nat.eq_zero_or_pos pts.length with h0 | hpos
  · have : pts = [] := List.eq_nil_of_length_eq_zero h0
    subst this
    simp [EvalState.getValue, hs, recordsOf, pyIndex]
  · have hk : pts.length - 1 < pts.length := by omega
    have h := (C17_records_get_value vals pts s hs name (pts.length - 1) hk).2
    have hidx : ((pts.length - 1 : Nat) : Int) - pts.length = -1 := by omega
    rw [hidx] at h
    have hlast : pts.getLast? = some pts[pts.length - 1] := by
      rw [List.getLast?_eq_getElem?, List.getElem?_eq_getElem hk]
    rw [hlast]
    simpa [EvalState.getValue] using h

/-- `clear_history()` empties the history and `last` and leaves the log file alone; a following run is
recorded as if the evaluator were new (C17_records_metric_run / C17_records_observable_run with `past = []`). -/
theorem C17_records_clear_history (s : EvalState X V) :
    s.clearHistory.past = [] ∧ s.clearHistory.last = [] ∧ s.clearHistory.log = s.log ∧
    s.clearHistory.len = 0 ∧ s.clearHistory.epochs = [] := by
  simp [EvalState.clearHistory, EvalState.len, EvalState.epochs]

/-! ### ObservableEvaluator -/

/-- the flat list of `(field, cell)` assignments of the row loop -/
def flatRow (last : Dict String (Dict String V)) : List (Field × Cell V) :=
  last.flatMap (fun od => od.2.map (fun sv => (Field.stat od.1 sv.1, Cell.val sv.2)))

theorem rowDict_eq_foldl (e : Int) (last : Dict String (Dict String V)) :
    ObservableEvaluator.rowDict e last =
      (flatRow last).foldl (fun (d : Dict Field (Cell V)) (kv : Field × Cell V) => d.set kv.1 kv.2)
        [(Field.epoch, Cell.int e)] := by
  unfold ObservableEvaluator.rowDict flatRow
  rw [List.foldl_flatMap]
  congr 1
  funext row od
  rw [List.foldl_map]

theorem flatRow_keys_nodup (last : Dict String (Dict String V)) (hwf : StatsWF last) :
    ((flatRow last).map Prod.fst).Nodup := by
  induction last with
  | nil => simp [flatRow]
  | cons od rest ih =>
    obtain ⟨hk, hin⟩ := hwf
    simp only [Dict.keys, List.map_cons, List.nodup_cons] at hk
    have ih' := ih ⟨hk.2, fun x hx => hin x (by simp [hx])⟩
    simp only [flatRow, List.flatMap_cons, List.map_append, List.map_map, Function.comp_def] at ih' ⊢
    rw [List.nodup_append]
    refine ⟨?_, ih', ?_⟩
    · have h1 := hin od (by simp)
      have h2 : od.2.map (fun x => Field.stat od.1 x.1) = (od.2.map Prod.fst).map (Field.stat od.1) := by
        simp [List.map_map, Function.comp_def]
      rw [h2]
      exact List.Nodup.map (fun a b h => by simpa using h) h1
    · intro a ha b hb hab
      subst hab
      simp only [List.mem_map] at ha
      obtain ⟨sv, _, rfl⟩ := ha
      simp only [List.map_flatMap, List.mem_flatMap, List.mem_map, List.map_map, Function.comp_def] at hb
      obtain ⟨od', hod', sv', _, heq⟩ := hb
      simp only [Field.stat.injEq] at heq
      apply hk.1
      exact List.mem_map.mpr ⟨od', hod', heq.1⟩

theorem rowDict_lookup_stat (e : Int) (last : Dict String (Dict String V)) (hwf : StatsWF last) (o st : String) :
    ((ObservableEvaluator.rowDict e last).lookup (Field.stat o st)).getD Cell.blank = statCell last o st := by
  rw [rowDict_eq_foldl, lookup_foldl_set]
  have hnd := flatRow_keys_nodup last hwf
  have hndr : ((flatRow last).reverse.map Prod.fst).Nodup := by
    rw [List.map_reverse]; exact List.nodup_reverse.mpr hnd
  have hne : (Field.stat o st == Field.epoch) = false := by
    rw [beq_eq_false_iff_ne]; intro h; cases h
  unfold statCell
  cases ho : last.lookup o with
  | some d =>
    cases hs : d.lookup st with
    | some v =>
      have hmem : (Field.stat o st, Cell.val v) ∈ (flatRow last).reverse := by
        rw [List.mem_reverse]
        simp only [flatRow, List.mem_flatMap, List.mem_map]
        exact ⟨(o, d), mem_of_lookup_eq_some ho, (st, v), mem_of_lookup_eq_some hs, rfl⟩
      rw [lookup_of_mem_nodup hndr hmem]
      simp [hs]
    | none =>
      have hnot : Field.stat o st ∉ (flatRow last).reverse.map Prod.fst := by
        intro hmem
        simp only [List.map_reverse, List.mem_reverse, flatRow, List.map_flatMap, List.mem_flatMap,
          List.mem_map, List.map_map, Function.comp_def] at hmem
        obtain ⟨od, hod, sv, hsv, heq⟩ := hmem
        cases heq
        have h1 := lookup_of_mem_nodup hwf.1 (show (od.1, od.2) ∈ last from hod)
        rw [h1] at ho
        cases ho
        have h2 := lookup_of_mem_nodup (hwf.2 od hod) (show (sv.1, sv.2) ∈ od.2 from hsv)
        rw [h2] at hs
        cases hs
      rw [lookup_none_of_not_mem hnot]
      simp [List.lookup, hs, hne]
  | none =>
    have hnot : Field.stat o st ∉ (flatRow last).reverse.map Prod.fst := by
      intro hmem
      simp only [List.map_reverse, List.mem_reverse, flatRow, List.map_flatMap, List.mem_flatMap,
        List.mem_map, List.map_map, Function.comp_def] at hmem
      obtain ⟨od, hod, sv, _, heq⟩ := hmem
      cases heq
      have h1 := lookup_of_mem_nodup hwf.1 (show (od.1, od.2) ∈ last from hod)
      rw [h1] at ho
      cases ho
    rw [lookup_none_of_not_mem hnot]
    simp [List.lookup, hne]

theorem rowDict_lookup_epoch (e : Int) (last : Dict String (Dict String V)) :
    (ObservableEvaluator.rowDict e last).lookup Field.epoch = some (Cell.int e) := by
  rw [rowDict_eq_foldl, lookup_foldl_set]
  have hnot : Field.epoch ∉ (flatRow last).reverse.map Prod.fst := by
    intro hmem
    simp only [List.map_reverse, List.mem_reverse, flatRow, List.map_flatMap, List.mem_flatMap,
      List.mem_map, List.map_map, Function.comp_def] at hmem
    obtain ⟨od, _, sv, _, heq⟩ := hmem
    cases heq
  rw [lookup_none_of_not_mem hnot]
  simp [List.lookup]

/-- **C17 records (ObservableEvaluator CSV row).** The row written for one evaluation is: the epoch, then for
each tracked observable its mean, variance and std_error — `num_samples` is dropped, nothing raises. -/
theorem C17_records_observable_csv_row (c : ObservableEvaluator W V) (x : Int × W) (hwf : StatsWF (c.statistics x.2)) :
    dictWriterRow c.csvFields (ObservableEvaluator.rowDict x.1 (c.statistics x.2)) true = .ok (observableRow c x) := by
  unfold dictWriterRow
  simp only [Bool.not_true, Bool.false_and, Bool.false_eq_true, if_false]
  congr 1
  simp only [ObservableEvaluator.csvFields, List.map_cons, rowDict_lookup_epoch, observableRow, csvStats,
    List.map_flatMap, List.map_map, Function.comp_def]
  congr 1
  apply List.flatMap_congr
  intro o _
  simp only [List.map_nil]
  rw [rowDict_lookup_stat _ _ hwf, rowDict_lookup_stat _ _ hwf, rowDict_lookup_stat _ _ hwf]

theorem observable_onEpochEnd (c : ObservableEvaluator W V) (hp : 1 ≤ c.period)
    (hwf : c.log = true → ∀ w, StatsWF (c.statistics w)) (s : EvalState (Dict String V) V) (e : Int) (w : W) :
    c.onEpochEnd s e w = .ok (if c.period ∣ e then
      { past := s.past ++ [(e, c.statistics w)], last := c.statistics w,
        log := s.log ++ (if c.log then [observableRow c (e, w)] else []) } else s) := by
  unfold ObservableEvaluator.onEpochEnd
  rw [gate_pos hp]
  by_cases hd : c.period ∣ e
  · simp only [hd, decide_true, if_true]
    by_cases hl : c.log = true
    · have := C17_records_observable_csv_row c (e, w) (hwf hl w)
      simp only at this
      simp [hl, this]
    · simp [hl]
  · simp [hd]

/-- **C17 records (ObservableEvaluator).** Same statement as for the metric evaluator, with the statistics
dicts returned by `System.statistics` at the scheduled epoch-ends as values. -/
theorem C17_records_observable_run (c : ObservableEvaluator W V) (hp : 1 ≤ c.period)
    (hwf : c.log = true → ∀ w, StatsWF (c.statistics w)) (s : EvalState (Dict String V) V) (evs : List (Ev W)) :
    c.run s evs = .ok
      { past := s.past ++ recordsOf c.statistics (scheduled c.period evs),
        last := lastOf c.statistics s.last (scheduled c.period evs),
        log := s.log ++ (if c.log then (scheduled c.period evs).map (observableRow c) else []) } := by
  induction evs generalizing s with
  | nil => simp [ObservableEvaluator.run, runWith, scheduled, firedEpochs, recordsOf, lastOf]
  | cons ev rest ih =>
    unfold ObservableEvaluator.run at ih ⊢
    cases ev with
    | epochEnd e w =>
      simp only [runWith, ObservableEvaluator.step, observable_onEpochEnd c hp hwf]
      rw [ih, scheduled_cons_epochEnd]
      by_cases hd : c.period ∣ e
      · simp only [hd, if_true, recordsOf, List.map_cons, lastOf_cons]
        by_cases hl : c.log = true <;> simp [hl, List.append_assoc]
      · simp [hd]
    | trainStart w => simpa [runWith, ObservableEvaluator.step, scheduled_cons_other] using ih s
    | epochStart e w => simpa [runWith, ObservableEvaluator.step, scheduled_cons_other] using ih s
    | batchStart e b w => simpa [runWith, ObservableEvaluator.step, scheduled_cons_other] using ih s
    | batchEnd e b w => simpa [runWith, ObservableEvaluator.step, scheduled_cons_other] using ih s
    | trainEnd w => simpa [runWith, ObservableEvaluator.step, scheduled_cons_other] using ih s

/-- **C17 schedule (ObservableEvaluator).** -/
theorem C17_schedule_observable (c : ObservableEvaluator W V) (hp : 1 ≤ c.period)
    (hwf : c.log = true → ∀ w, StatsWF (c.statistics w)) (s : EvalState (Dict String V) V) (evs : List (Ev W)) :
    ∃ s', c.run s evs = .ok s' ∧
      s'.epochs = s.epochs ++ ((firedEpochs evs).filter (fun x => decide (c.period ∣ x.1))).map Prod.fst := by
  refine ⟨_, C17_records_observable_run c hp hwf s evs, ?_⟩
  simp [EvalState.epochs, recordsOf, scheduled, List.map_map, Function.comp_def]

/-- **C17 records (ObservableStatistics).** `evaluator[obs][statistic]` on the statistics dicts `data`:
if every dict has the key `k` obtained by stripping ONE trailing "s" from `statistic` (`"means" ↦ "mean"`,
`"variances" ↦ "variance"`, `"std_errors" ↦ "std_error"`, and a name without trailing "s" unchanged),
the result is the column `k`; if the FIRST dict lacks `k` (`"num_samples" ↦ "num_sample"`) and every dict
has `statistic` itself, the result is the column `statistic`. -/
theorem C17_records_observable_statistics (data : List (Dict String V)) (statistic : String) (g : Dict String V → V) :
    ((∀ d ∈ data, (stripPlural statistic) ∈ d.keys ∧ d.getItem (stripPlural statistic) = .ok (g d)) →
      obsStatGet data statistic = .ok (data.map g)) ∧
    ((∀ d0 rest, data = d0 :: rest → (stripPlural statistic) ∉ d0.keys) →
      (∀ d ∈ data, d.getItem statistic = .ok (g d)) →
      obsStatGet data statistic = .ok (data.map g)) := by
  constructor
  · intro h
    unfold obsStatGet
    cases data with
    | nil => simp [mapE]
    | cons d0 rest =>
      have h0 := (h d0 (by simp)).1
      have hc : (Dict.keys d0).contains (stripPlural statistic) = true := by simpa using h0
      simp only [hc, if_true]
      rw [mapE_ok _ g _ (fun d hd => (h d hd).2)]
  · intro h0 h
    unfold obsStatGet
    cases data with
    | nil => simp [mapE]
    | cons d0 rest =>
      have hc : (Dict.keys d0).contains (stripPlural statistic) = false := by
        simpa using h0 d0 rest rfl
      simp only [hc, Bool.false_eq_true, if_false]
      rw [mapE_ok _ g _ h]

/-! ### Logger -/

/-- **C17 schedule (Logger).** The messages handed to `logger_fn` are the old ones followed by
`msg_gen(state, e)` for exactly the fired epoch-ends with `p ∣ e`, in order. -/
theorem C17_schedule_logger (c : Logger W Msg) (hp : 1 ≤ c.period) (out : List Msg) (evs : List (Ev W)) :
    c.run out evs = .ok (out ++ ((firedEpochs evs).filter (fun x => decide (c.period ∣ x.1))).map (fun x => c.msgGen x.2 x.1)) := by
  change c.run out evs = .ok (out ++ (scheduled c.period evs).map (fun x => c.msgGen x.2 x.1))
  induction evs generalizing out with
  | nil => simp [Logger.run, runWith, scheduled, firedEpochs]
  | cons ev rest ih =>
    unfold Logger.run at ih ⊢
    cases ev with
    | epochEnd e w =>
      simp only [runWith, Logger.step, gate_pos hp]
      rw [scheduled_cons_epochEnd]
      by_cases hd : c.period ∣ e
      · simp [hd, ih, List.append_assoc]
      · simp [hd, ih]
    | trainStart w => simpa [runWith, Logger.step, scheduled_cons_other] using ih out
    | epochStart e w => simpa [runWith, Logger.step, scheduled_cons_other] using ih out
    | batchStart e b w => simpa [runWith, Logger.step, scheduled_cons_other] using ih out
    | batchEnd e b w => simpa [runWith, Logger.step, scheduled_cons_other] using ih out
    | trainEnd w => simpa [runWith, Logger.step, scheduled_cons_other] using ih out

/-! ### ModelSaver -/

/-- **C17 schedule + content (ModelSaver).** The writes are the old ones followed, in stream order, by one
write per train-start iff `save_initial` (file argument "initial", metadata callable called with epoch 0)
and one write per fired epoch-end with `p ∣ e` (file argument `e`) — nothing at any other event
(in particular nothing at train end).  Each body is the parameter snapshot AT THAT EVENT together with the
metadata `md(state, e)` / the dict / `{}`, or exactly the metadata when `metadata_only`. -/
theorem C17_saver (c : ModelSaver W P M) (hp : 1 ≤ c.period)
    (hres : c.metadataOnly = false → ∀ w e, c.reserved (c.mdFor w e) = false)
    (ws : List (FileArg × FileBody P M)) (evs : List (Ev W)) :
    c.run ws evs = .ok (ws ++ evs.filterMap (saverWrite c)) := by
  induction evs generalizing ws with
  | nil => simp [ModelSaver.run, runWith]
  | cons ev rest ih =>
    unfold ModelSaver.run at ih ⊢
    cases ev with
    | epochEnd e w =>
      simp only [runWith, ModelSaver.step, gate_pos hp, List.filterMap_cons, saverWrite]
      by_cases hd : c.period ∣ e
      · by_cases hm : c.metadataOnly = true
        · simp [hd, hm, ModelSaver.save, ih, List.append_assoc]
        · have hm' : c.metadataOnly = false := by simpa using hm
          simp [hd, hm', ModelSaver.save, hres hm' w e, ih, List.append_assoc]
      · simp [hd, ih]
    | trainStart w =>
      simp only [runWith, ModelSaver.step, List.filterMap_cons, saverWrite]
      by_cases hi : c.saveInitial = true
      · by_cases hm : c.metadataOnly = true
        · simp [hi, hm, ModelSaver.save, ih, List.append_assoc]
        · have hm' : c.metadataOnly = false := by simpa using hm
          simp [hi, hm', ModelSaver.save, hres hm' w 0, ih, List.append_assoc]
      · simp [hi, ih]
    | epochStart e w => simpa [runWith, ModelSaver.step, saverWrite, List.filterMap_cons] using ih ws
    | batchStart e b w => simpa [runWith, ModelSaver.step, saverWrite, List.filterMap_cons] using ih ws
    | batchEnd e b w => simpa [runWith, ModelSaver.step, saverWrite, List.filterMap_cons] using ih ws
    | trainEnd w => simpa [runWith, ModelSaver.step, saverWrite, List.filterMap_cons] using ih ws

/-- **C17 schedule (ModelSaver).** The file arguments written, in order: "initial" at each train start iff
`save_initial`, the epoch `e` at each fired epoch-end with `p ∣ e`, nothing else. -/
theorem C17_schedule_saver (c : ModelSaver W P M) (hp : 1 ≤ c.period)
    (hres : c.metadataOnly = false → ∀ w e, c.reserved (c.mdFor w e) = false)
    (ws : List (FileArg × FileBody P M)) (evs : List (Ev W)) :
    ∃ ws', c.run ws evs = .ok ws' ∧
      ws'.map Prod.fst = ws.map Prod.fst ++ evs.filterMap (fun ev => match ev with
        | .trainStart _ => if c.saveInitial then some FileArg.initial else none
        | .epochEnd e _ => if c.period ∣ e then some (FileArg.epoch e) else none
        | _ => none) := by
  refine ⟨_, C17_saver c hp hres ws evs, ?_⟩
  rw [List.map_append, List.map_filterMap]
  congr 1
  apply List.filterMap_congr
  intro ev _
  cases ev <;> simp [saverWrite]

/-- **C17 saver, file by file.** When every file argument is written at most once in the stream (one run:
epochs increase, one train start), the file for epoch `e` — named `pre ++ str(e) ++ post` — holds the
snapshot of the parameters at the end of epoch `e` with the metadata for `(state at e, e)`; with
`metadata_only` exactly the metadata. -/
theorem C17_saver_file (c : ModelSaver W P M) (evs : List (Ev W))
    (hnd : ((evs.filterMap (saverWrite c)).map Prod.fst).Nodup)
    (e : Int) (w : W) (hmem : Ev.epochEnd e w ∈ evs) (hd : c.period ∣ e) :
    ModelSaver.readBack (evs.filterMap (saverWrite c)) (.epoch e)
      = some (if c.metadataOnly then .metaOnly (c.mdFor w e) else .full (c.params w) (c.mdFor w e)) ∧
    c.fileName (.epoch e) = c.pre ++ toString e ++ c.post := by
  refine ⟨?_, rfl⟩
  unfold ModelSaver.readBack
  apply lookup_of_mem_nodup
  · rw [List.map_reverse]; exact List.nodup_reverse.mpr hnd
  · rw [List.mem_reverse, List.mem_filterMap]
    exact ⟨_, hmem, by simp [saverWrite, hd]⟩

/-- the "initial" file: written at train start iff `save_initial`, with epoch 0 passed to the metadata callable -/
theorem C17_saver_initial_file (c : ModelSaver W P M) (evs : List (Ev W))
    (hnd : ((evs.filterMap (saverWrite c)).map Prod.fst).Nodup)
    (w : W) (hmem : Ev.trainStart w ∈ evs) :
    (c.saveInitial = true →
      ModelSaver.readBack (evs.filterMap (saverWrite c)) .initial
        = some (if c.metadataOnly then .metaOnly (c.mdFor w 0) else .full (c.params w) (c.mdFor w 0))) ∧
    (c.saveInitial = false → ModelSaver.readBack (evs.filterMap (saverWrite c)) .initial = none) := by
  constructor
  · intro hi
    unfold ModelSaver.readBack
    apply lookup_of_mem_nodup
    · rw [List.map_reverse]; exact List.nodup_reverse.mpr hnd
    · rw [List.mem_reverse, List.mem_filterMap]
      exact ⟨_, hmem, by simp [saverWrite, hi]⟩
  · intro hi
    unfold ModelSaver.readBack
    apply lookup_none_of_not_mem
    intro h
    simp only [List.map_reverse, List.mem_reverse, List.mem_map, List.mem_filterMap] at h
    obtain ⟨⟨arg, body⟩, ⟨ev, _, hev⟩, harg⟩ := h
    simp only at harg
    subst harg
    cases ev <;> simp [saverWrite, hi] at hev

/-! ### ModelSaver: the file, unconditionally (several runs, repeated "initial" and repeated epochs) -/

/-- **C17 saver, file by file, unconditional.** Whatever was written before (`ws`: earlier runs) and however often the
same file argument is written in the stream (several runs write "initial" and the same epochs again), the file for
`arg` holds the body of the LAST event of the stream that writes `arg` (`post` writes it no more). -/
theorem C17_saver_file_last (c : ModelSaver W P M) (ws : List (FileArg × FileBody P M)) (pre post : List (Ev W))
    (ev : Ev W) (arg : FileArg) (body : FileBody P M) (hw : saverWrite c ev = some (arg, body))
    (hlast : ∀ ev' ∈ post, ∀ b, saverWrite c ev' ≠ some (arg, b)) :
    ModelSaver.readBack (ws ++ (pre ++ ev :: post).filterMap (saverWrite c)) arg = some body := by
  unfold ModelSaver.readBack
  simp only [List.filterMap_append, List.filterMap_cons, hw, List.reverse_append, List.reverse_cons, List.append_assoc,
    List.singleton_append]
  apply lookup_append_cons_self
  intro hmem
  simp only [List.map_reverse, List.mem_reverse, List.mem_map, List.mem_filterMap] at hmem
  obtain ⟨⟨a, b⟩, ⟨ev', hev', hwr⟩, ha⟩ := hmem
  simp only at ha
  subst ha
  exact hlast ev' hev' b hwr

/-- a file argument that neither the earlier writes nor any event of the stream writes does not exist -/
theorem C17_saver_file_none (c : ModelSaver W P M) (ws : List (FileArg × FileBody P M)) (evs : List (Ev W)) (arg : FileArg)
    (hws : arg ∉ ws.map Prod.fst) (hno : ∀ ev ∈ evs, ∀ b, saverWrite c ev ≠ some (arg, b)) :
    ModelSaver.readBack (ws ++ evs.filterMap (saverWrite c)) arg = none := by
  unfold ModelSaver.readBack
  apply lookup_none_of_not_mem
  intro hmem
  simp only [List.map_reverse, List.mem_reverse, List.map_append, List.mem_append, List.mem_map, List.mem_filterMap] at hmem
  rcases hmem with ⟨x, hx, rfl⟩ | ⟨⟨a, b⟩, ⟨ev, hev, hwr⟩, ha⟩
  · exact hws (List.mem_map.mpr ⟨x, hx, rfl⟩)
  · simp only at ha
    subst ha
    exact hno ev hev b hwr

/-- **C17 saver: the epoch file after any history.** After a stream in which the LAST epoch-end of epoch `e` (with `p ∣ e`) is
`epochEnd e w` — earlier runs may have saved epoch `e` before, other epochs and "initial" may be saved before and after —
the file `pre ++ str(e) ++ post` holds the parameters at THAT event with the metadata for `(state at w, e)`;
likewise the "initial" file holds the snapshot of the LAST train start. -/
theorem C17_saver_file_overwrite (c : ModelSaver W P M) (ws : List (FileArg × FileBody P M)) (pre post : List (Ev W)) (w : W) :
    (∀ e : Int, c.period ∣ e → (∀ w', Ev.epochEnd e w' ∉ post) →
      ModelSaver.readBack (ws ++ (pre ++ Ev.epochEnd e w :: post).filterMap (saverWrite c)) (.epoch e)
        = some (if c.metadataOnly then .metaOnly (c.mdFor w e) else .full (c.params w) (c.mdFor w e))) ∧
    (c.saveInitial = true → (∀ w', Ev.trainStart w' ∉ post) →
      ModelSaver.readBack (ws ++ (pre ++ Ev.trainStart w :: post).filterMap (saverWrite c)) .initial
        = some (if c.metadataOnly then .metaOnly (c.mdFor w 0) else .full (c.params w) (c.mdFor w 0))) := by
  constructor
  · intro e hd hpost
    apply C17_saver_file_last c ws pre post _ _ _ (by simp [saverWrite, hd])
    intro ev' hev' b hwr
    cases ev' with
    | epochEnd e' w' =>
      by_cases hd' : c.period ∣ e'
      · simp only [saverWrite, hd', if_true, Option.some.injEq, Prod.mk.injEq, FileArg.epoch.injEq] at hwr
        obtain ⟨he, _⟩ := hwr
        subst he
        exact hpost w' hev'
      · simp [saverWrite, hd'] at hwr
    | trainStart w' => by_cases hi : c.saveInitial = true <;> simp [saverWrite, hi] at hwr
    | epochStart _ _ => simp [saverWrite] at hwr
    | batchStart _ _ _ => simp [saverWrite] at hwr
    | batchEnd _ _ _ => simp [saverWrite] at hwr
    | trainEnd _ => simp [saverWrite] at hwr
  · intro hi hpost
    apply C17_saver_file_last c ws pre post _ _ _ (by simp [saverWrite, hi])
    intro ev' hev' b hwr
    cases ev' with
    | epochEnd e' w' => by_cases hd' : c.period ∣ e' <;> simp [saverWrite, hd'] at hwr
    | trainStart w' => exact hpost w' hev'
    | epochStart _ _ => simp [saverWrite] at hwr
    | batchStart _ _ _ => simp [saverWrite] at hwr
    | batchEnd _ _ _ => simp [saverWrite] at hwr
    | trainEnd _ => simp [saverWrite] at hwr

/-! ### Logger with the default message generator -/

/-- **C17 logger, default message.** `Logger(period, logger_fn)` without `msg_gen` hands `logger_fn` the text
`"Epoch " + str(e) + ": " + str(kwargs)` for exactly the fired epoch-ends with `p ∣ e`, in order. -/
theorem C17_logger_default_msg (p : Int) (hp : 1 ≤ p) (kwargsRepr : String) (out : List String) (evs : List (Ev W)) :
    (⟨p, fun _ e => defaultMsg kwargsRepr e⟩ : Logger W String).run out evs
      = .ok (out ++ (scheduled p evs).map (fun x => "Epoch " ++ toString x.1 ++ ": " ++ kwargsRepr)) := by
  rw [C17_schedule_logger _ hp]
  rfl

/-! ### Logger: constructor fallback and `logger_fn` branches (extension round 2) -/

/-- **C17_logger_msg_gen_fallback.** `Logger(period, logger_fn, msg_gen=X, **kwargs)`: a NON-CALLABLE `X` (a string, a number, …) behaves
exactly like an omitted `msg_gen` — the messages are the default text `"Epoch e: " + str(kwargs)` at exactly the scheduled epochs —
while a callable `X = f` gives `f(state at e, e)` at exactly those epochs. -/
theorem C17_logger_msg_gen_fallback (p : Int) (hp : 1 ≤ p) (kwargsRepr : String) (f : W → Int → String) (out : List String)
    (evs : List (Ev W)) :
    (Logger.new p (.nonCallable : MsgGenArg W) kwargsRepr) = Logger.new p .omitted kwargsRepr
    ∧ (Logger.new p (.nonCallable : MsgGenArg W) kwargsRepr).run out evs
        = .ok (out ++ (scheduled p evs).map (fun x => "Epoch " ++ toString x.1 ++ ": " ++ kwargsRepr))
    ∧ (Logger.new p (.callable f) kwargsRepr).run out evs = .ok (out ++ (scheduled p evs).map (fun x => f x.2 x.1)) := by
  refine ⟨rfl, C17_logger_default_msg p hp kwargsRepr out evs, ?_⟩
  exact C17_schedule_logger (Logger.new p (.callable f) kwargsRepr) hp out evs

/-- **C17_logger_fn_branches.** Which lines a logger of period `p ≥ 1` emits, for every event stream: with the default
`logger_fn=print` exactly one stdout line per scheduled epoch (`p ∣ e`, fired), in order, with the generated message, and nothing
is handed anywhere else; with a callable `logger_fn` the same messages are handed to it (this is `Logger.run`) and nothing is
printed; with a NON-CALLABLE `logger_fn` the run is untouched as long as no scheduled epoch end occurs and is refused
(`TypeError`) as soon as one does. -/
theorem C17_logger_fn_branches (c : Logger W String) (hp : 1 ≤ c.period) (s : LogOut) (evs : List (Ev W)) :
    c.runFn .print s evs = .ok ⟨s.handed, s.printed ++ (scheduled c.period evs).map (fun x => c.msgGen x.2 x.1)⟩
    ∧ c.runFn .callable s evs = .ok ⟨s.handed ++ (scheduled c.period evs).map (fun x => c.msgGen x.2 x.1), s.printed⟩
    ∧ (c.runFn .callable s evs).map LogOut.handed = c.run s.handed evs
    ∧ (scheduled c.period evs = [] → c.runFn .nonCallable s evs = .ok s)
    ∧ (scheduled c.period evs ≠ [] → c.runFn .nonCallable s evs = .error .TypeError) := by
  have hprint : ∀ (evs : List (Ev W)) (s : LogOut), c.runFn .print s evs
      = .ok ⟨s.handed, s.printed ++ (scheduled c.period evs).map (fun x => c.msgGen x.2 x.1)⟩ := by
    intro evs
    induction evs with
    | nil => intro s; simp [Logger.runFn, runWith, scheduled, firedEpochs]
    | cons ev rest ih =>
      intro s
      unfold Logger.runFn at ih ⊢
      cases ev with
      | epochEnd e w =>
        simp only [runWith, Logger.stepFn, gate_pos hp]
        rw [scheduled_cons_epochEnd]
        by_cases hd : c.period ∣ e
        · simp [hd, ih, List.append_assoc]
        · simp [hd, ih]
      | trainStart w => simpa [runWith, Logger.stepFn, scheduled_cons_other] using ih s
      | epochStart e w => simpa [runWith, Logger.stepFn, scheduled_cons_other] using ih s
      | batchStart e b w => simpa [runWith, Logger.stepFn, scheduled_cons_other] using ih s
      | batchEnd e b w => simpa [runWith, Logger.stepFn, scheduled_cons_other] using ih s
      | trainEnd w => simpa [runWith, Logger.stepFn, scheduled_cons_other] using ih s
  have hcall : ∀ (evs : List (Ev W)) (s : LogOut), c.runFn .callable s evs
      = .ok ⟨s.handed ++ (scheduled c.period evs).map (fun x => c.msgGen x.2 x.1), s.printed⟩ := by
    intro evs
    induction evs with
    | nil => intro s; simp [Logger.runFn, runWith, scheduled, firedEpochs]
    | cons ev rest ih =>
      intro s
      unfold Logger.runFn at ih ⊢
      cases ev with
      | epochEnd e w =>
        simp only [runWith, Logger.stepFn, gate_pos hp]
        rw [scheduled_cons_epochEnd]
        by_cases hd : c.period ∣ e
        · simp [hd, ih, List.append_assoc]
        · simp [hd, ih]
      | trainStart w => simpa [runWith, Logger.stepFn, scheduled_cons_other] using ih s
      | epochStart e w => simpa [runWith, Logger.stepFn, scheduled_cons_other] using ih s
      | batchStart e b w => simpa [runWith, Logger.stepFn, scheduled_cons_other] using ih s
      | batchEnd e b w => simpa [runWith, Logger.stepFn, scheduled_cons_other] using ih s
      | trainEnd w => simpa [runWith, Logger.stepFn, scheduled_cons_other] using ih s
  have hnon : ∀ evs : List (Ev W), (scheduled c.period evs = [] → c.runFn .nonCallable s evs = .ok s)
      ∧ (scheduled c.period evs ≠ [] → c.runFn .nonCallable s evs = .error .TypeError) := by
    intro evs
    induction evs with
    | nil => simp [Logger.runFn, runWith, scheduled, firedEpochs]
    | cons ev rest ih =>
      unfold Logger.runFn at ih ⊢
      cases ev with
      | epochEnd e w =>
        simp only [runWith, Logger.stepFn, gate_pos hp]
        rw [scheduled_cons_epochEnd]
        by_cases hd : c.period ∣ e
        · simp [hd]
        · simpa [hd] using ih
      | trainStart w => simpa [runWith, Logger.stepFn, scheduled_cons_other] using ih
      | epochStart e w => simpa [runWith, Logger.stepFn, scheduled_cons_other] using ih
      | batchStart e b w => simpa [runWith, Logger.stepFn, scheduled_cons_other] using ih
      | batchEnd e b w => simpa [runWith, Logger.stepFn, scheduled_cons_other] using ih
      | trainEnd w => simpa [runWith, Logger.stepFn, scheduled_cons_other] using ih
  refine ⟨hprint evs s, hcall evs s, ?_, (hnon evs).1, (hnon evs).2⟩
  rw [hcall evs s, C17_schedule_logger c hp]
  rfl

/-- a non-trivial instance: period 2 over epoch ends 1..4 with `print`: exactly the lines for epochs 2 and 4; a non-callable
`logger_fn` is refused on the same stream and untouched on a stream that ends before epoch 2 -/
example : (Logger.new 2 (.nonCallable : MsgGenArg Unit) "{}").runFn .print ⟨[], []⟩
      [.epochEnd 1 (), .epochEnd 2 (), .epochEnd 3 (), .epochEnd 4 ()] = .ok ⟨[], ["Epoch 2: {}", "Epoch 4: {}"]⟩
    ∧ (Logger.new 2 (.omitted : MsgGenArg Unit) "{}").runFn .nonCallable ⟨[], []⟩ [.epochEnd 1 (), .epochEnd 2 ()] = .error .TypeError
    ∧ (Logger.new 2 (.omitted : MsgGenArg Unit) "{}").runFn .nonCallable ⟨[], []⟩ [.epochEnd 1 ()] = .ok ⟨[], []⟩ := by
  refine ⟨by decide, by decide, by decide⟩

/-! ### composition with C12: the stream a real `fit(starting_epoch, epochs)` produces -/

/-- a `fit` event (C12's `QV.Train.Event`) as the callbacks receive it, `wof ev` being the world (the state being
trained) at the moment `ev` is dispatched -/
def toEv (wof : Train.Event → W) : Train.Event → Ev W
  | .trainStart => .trainStart (wof .trainStart)
  | .epochStart e => .epochStart e (wof (.epochStart e))
  | .batchStart e b => .batchStart e b (wof (.batchStart e b))
  | .batchEnd e b => .batchEnd e b (wof (.batchEnd e b))
  | .epochEnd e => .epochEnd e (wof (.epochEnd e))
  | .trainEnd => .trainEnd (wof .trainEnd)

/-- the callback-event stream of ONE call `fit(…, starting_epoch = c.start, epochs = c.epochs, callbacks = …)` with stop
requests `R`, started with `stop_training = stop₀`: the event trace of the C12 model of `fit` -/
def fitStream (wof : Train.Event → W) (c : Train.Cfg) (R : Train.Req) (stop₀ : Bool) : List (Ev W) :=
  (Train.events (Train.fit c R stop₀).1).map (toEv wof)

/-- the events a periodic callback reacts to: train starts and epoch ends -/
def keyEvents (evs : List (Ev W)) : List (Ev W) :=
  evs.filter (fun ev => match ev with | .trainStart _ => true | .epochEnd _ _ => true | _ => false)

/-- `RunEnds c R last`: the last epoch whose end is reached by `fit` is `last` —
* nobody requests a stop before train end: `last = epochs` (all of `start..epochs`; none if the range is empty);
* the first stop request falls in epoch `e` (at its epoch start, at / during / after any of its batches, or at its
  epoch end): `last = e` — the epoch's end event still fires;
* a stop is requested at train start: one batch of the first epoch runs and its end fires (`last = start`), if there is one. -/
inductive RunEnds (c : Train.Cfg) (R : Train.Req) : Int → Prop
  | uncut : C12.QuietBefore c R (c.epochs + 1) → RunEnds c R c.epochs
  | cut (e : Int) : c.start ≤ e → e ≤ c.epochs → C12.QuietBefore c R e → ¬ C12.QuietEpoch c R e → RunEnds c R e
  | atStart : Train.reqEv c R .trainStart = true → RunEnds c R (min c.start c.epochs)

theorem firedEpochs_keyEvents (evs : List (Ev W)) : firedEpochs (keyEvents evs) = firedEpochs evs := by
  induction evs with
  | nil => rfl
  | cons ev rest ih => cases ev <;> simp_all [keyEvents, firedEpochs]

theorem filterMap_keyEvents {β : Type} (f : Ev W → Option β)
    (hf : ∀ ev, (match ev with | .trainStart _ => False | .epochEnd _ _ => False | _ => True) → f ev = none)
    (evs : List (Ev W)) : (keyEvents evs).filterMap f = evs.filterMap f := by
  induction evs with
  | nil => rfl
  | cons ev rest ih =>
    have hkeep : ∀ ev : Ev W, (match ev with | .trainStart _ => True | .epochEnd _ _ => True | _ => False) →
        keyEvents (ev :: rest) = ev :: keyEvents rest := by
      intro ev hev; cases ev <;> simp_all [keyEvents]
    have hdrop : ∀ ev : Ev W, (match ev with | .trainStart _ => False | .epochEnd _ _ => False | _ => True) →
        keyEvents (ev :: rest) = keyEvents rest := by
      intro ev hev; cases ev <;> simp_all [keyEvents]
    cases ev with
    | trainStart w => rw [hkeep _ trivial, List.filterMap_cons, List.filterMap_cons, ih]
    | epochEnd e w => rw [hkeep _ trivial, List.filterMap_cons, List.filterMap_cons, ih]
    | epochStart e w => rw [hdrop _ trivial, List.filterMap_cons, hf (.epochStart e w) trivial, ih]
    | batchStart e b w => rw [hdrop _ trivial, List.filterMap_cons, hf (.batchStart e b w) trivial, ih]
    | batchEnd e b w => rw [hdrop _ trivial, List.filterMap_cons, hf (.batchEnd e b w) trivial, ih]
    | trainEnd w => rw [hdrop _ trivial, List.filterMap_cons, hf (.trainEnd w) trivial, ih]

theorem firedEpochs_map_epochEnd (g : Int → W) (l : List Int) :
    firedEpochs (l.map (fun e => Ev.epochEnd e (g e))) = l.map (fun e => (e, g e)) := by
  induction l with
  | nil => rfl
  | cons e rest ih => simp [firedEpochs, ih]

theorem keyEvents_append (a b : List (Ev W)) : keyEvents (a ++ b) = keyEvents a ++ keyEvents b := by
  simp [keyEvents]

theorem keyEvents_epochBlock (wof : Train.Event → W) (e : Int) (k : Nat) :
    keyEvents ((C12.epochBlock e k).map (toEv wof)) = [Ev.epochEnd e (wof (.epochEnd e))] := by
  have hp : keyEvents ((C12.pairs e k).map (toEv wof)) = [] := by
    unfold C12.pairs
    induction k with
    | zero => simp [keyEvents]
    | succ k ih =>
      rw [List.range_succ, List.flatMap_append, List.map_append, keyEvents_append, ih]
      simp [keyEvents, toEv]
  simp only [C12.epochBlock, List.map_cons, List.map_append, List.map_nil]
  rw [show (toEv wof (Train.Event.epochStart e) :: ((C12.pairs e k).map (toEv wof) ++ [toEv wof (Train.Event.epochEnd e)]))
      = [toEv wof (Train.Event.epochStart e)] ++ ((C12.pairs e k).map (toEv wof) ++ [toEv wof (Train.Event.epochEnd e)]) from rfl,
    keyEvents_append, keyEvents_append, hp]
  simp [keyEvents, toEv]

theorem keyEvents_fullEpochs (wof : Train.Event → W) (nb : Nat) (a b : Int) :
    keyEvents ((C12.fullEpochs nb a b).map (toEv wof))
      = (Train.epochRange a b).map (fun e => Ev.epochEnd e (wof (.epochEnd e))) := by
  unfold C12.fullEpochs
  induction Train.epochRange a b with
  | nil => simp [keyEvents]
  | cons e rest ih =>
    rw [List.flatMap_cons, List.map_append, keyEvents_append, keyEvents_epochBlock, ih]
    rfl

/-- **C17 ∘ C12: the events a periodic callback reacts to in one real `fit`.** In a run that was not stopped beforehand
there is exactly ONE train start, first, followed by the epoch ends of `starting_epoch, …, last` in order, where `last`
is `epochs` for an uncut run and the epoch of the first stop request otherwise (`RunEnds`): a stop requested at a
batch end or at the epoch end of epoch `e` still produces the epoch-end event of `e`, and no later one. -/
theorem C17_fit_stream (wof : Train.Event → W) (c : Train.Cfg) (R : Train.Req) (hnb : 1 ≤ c.numBatches)
    (last : Int) (h : RunEnds c R last) :
    keyEvents (fitStream wof c R false)
      = Ev.trainStart (wof .trainStart) ::
          (Train.epochRange c.start last).map (fun e => Ev.epochEnd e (wof (.epochEnd e))) := by
  unfold fitStream
  cases h with
  | uncut hq =>
    rw [(C12.C12_complete_without_stop c R hq).1]
    rw [List.map_cons, List.map_append,
      show (toEv wof Train.Event.trainStart :: ((C12.fullEpochs c.numBatches c.start c.epochs).map (toEv wof) ++ [Train.Event.trainEnd].map (toEv wof)))
        = [toEv wof Train.Event.trainStart] ++ ((C12.fullEpochs c.numBatches c.start c.epochs).map (toEv wof) ++ [Train.Event.trainEnd].map (toEv wof)) from rfl,
      keyEvents_append, keyEvents_append, keyEvents_fullEpochs]
    simp [keyEvents, toEv]
  | cut _ h1 h2 hq hne =>
    have hr : Train.epochReq c R last = true := by
      cases hx : Train.epochReq c R last
      · exact absurd ((C12.quietEpoch_iff c R last).mpr hx) hne
      · rfl
    rw [(C12.fit_first_stop c R last h1 h2 hq hr).1]
    rw [List.map_cons, List.map_append, List.map_append,
      show (toEv wof Train.Event.trainStart :: (((C12.fullEpochs c.numBatches c.start (last - 1)).map (toEv wof) ++
          (C12.epochBlock last (Train.batchesRun c R false last)).map (toEv wof)) ++ [Train.Event.trainEnd].map (toEv wof)))
        = [toEv wof Train.Event.trainStart] ++ (((C12.fullEpochs c.numBatches c.start (last - 1)).map (toEv wof) ++
          (C12.epochBlock last (Train.batchesRun c R false last)).map (toEv wof)) ++ [Train.Event.trainEnd].map (toEv wof)) from rfl,
      keyEvents_append, keyEvents_append, keyEvents_append, keyEvents_fullEpochs, keyEvents_epochBlock,
      Train.epochRange_snoc c.start last h1]
    simp [keyEvents, toEv]
  | atStart hr =>
    rw [(C12.C12_stop_at_train_start c R hnb hr).1]
    by_cases hse : c.start ≤ c.epochs
    · have hrange : Train.epochRange c.start (min c.start c.epochs) = [c.start] := by
        have hmin : min c.start c.epochs = c.start := by omega
        rw [hmin, Train.epochRange_snoc c.start c.start (Int.le_refl _), Train.epochRange_rec, if_pos (by omega)]
        rfl
      rw [if_pos hse, hrange, List.map_cons, List.map_append,
        show (toEv wof Train.Event.trainStart :: ((C12.epochBlock c.start 1).map (toEv wof) ++ [Train.Event.trainEnd].map (toEv wof)))
          = [toEv wof Train.Event.trainStart] ++ ((C12.epochBlock c.start 1).map (toEv wof) ++ [Train.Event.trainEnd].map (toEv wof)) from rfl,
        keyEvents_append, keyEvents_append, keyEvents_epochBlock]
      simp [keyEvents, toEv]
    · have hrange : Train.epochRange c.start (min c.start c.epochs) = [] := by
        have hmin : min c.start c.epochs = c.epochs := by omega
        rw [hmin, Train.epochRange_rec, if_pos (by omega)]
      rw [if_neg hse, hrange]
      simp [keyEvents, toEv]

/-- **C17 fit schedule.** In one real `fit(starting_epoch, epochs)` whose last reached epoch is `last` (`RunEnds`: `epochs`
if uncut, the epoch of the first stop request if cut short), the epoch-ends at which a callback of period `p` has to act
are exactly the multiples of `p` in `starting_epoch..last`, in increasing order, each with the state at the END of that
epoch. -/
theorem C17_fit_schedule (wof : Train.Event → W) (c : Train.Cfg) (R : Train.Req) (hnb : 1 ≤ c.numBatches)
    (last : Int) (h : RunEnds c R last) (p : Int) :
    scheduled p (fitStream wof c R false)
      = ((Train.epochRange c.start last).filter (fun e => decide (p ∣ e))).map (fun e => (e, wof (.epochEnd e))) ∧
    (∀ e, e ∈ (scheduled p (fitStream wof c R false)).map Prod.fst ↔ (c.start ≤ e ∧ e ≤ last ∧ p ∣ e)) := by
  have hs : scheduled p (fitStream wof c R false)
      = ((Train.epochRange c.start last).filter (fun e => decide (p ∣ e))).map (fun e => (e, wof (.epochEnd e))) := by
    unfold scheduled
    rw [← firedEpochs_keyEvents, C17_fit_stream wof c R hnb last h]
    simp only [firedEpochs]
    rw [firedEpochs_map_epochEnd (fun e => wof (.epochEnd e)), List.filter_map]
    rfl
  refine ⟨hs, fun e => ?_⟩
  rw [hs]
  simp only [List.map_map, List.mem_map, List.mem_filter, decide_eq_true_eq, Function.comp]
  constructor
  · rintro ⟨e', ⟨hmem, hd⟩, rfl⟩
    have := (Train.mem_epochRange _ _ _).mp hmem
    exact ⟨this.1, this.2, hd⟩
  · rintro ⟨h1, h2, hd⟩
    exact ⟨e, ⟨(Train.mem_epochRange _ _ _).mpr ⟨h1, h2⟩, hd⟩, rfl⟩

/-- **C17 fit schedule, per callback.** The four periodic callbacks driven through one real `fit` whose last reached epoch is
`last`: the evaluators act (their `epochs` grow by) exactly at the multiples of their period in `starting_epoch..last`; the
logger emits `msg_gen(state at the end of e, e)` for those; the saver writes "initial" once, FIRST, iff `save_initial`, then
one file per multiple of its period — in particular the stop epoch itself is evaluated / logged / saved when it is a
multiple of the period, and nothing after it. -/
theorem C17_fit_callbacks (wof : Train.Event → W) (c : Train.Cfg) (R : Train.Req) (hnb : 1 ≤ c.numBatches)
    (last : Int) (h : RunEnds c R last) :
    (∀ (m : MetricEvaluator W V), 1 ≤ m.period → m.names.Nodup → (m.log = true → "epoch" ∉ m.names) → ∀ s,
      ∃ s', m.run s (fitStream wof c R false) = .ok s' ∧
        s'.epochs = s.epochs ++ (Train.epochRange c.start last).filter (fun e => decide (m.period ∣ e))) ∧
    (∀ (o : ObservableEvaluator W V), 1 ≤ o.period → (o.log = true → ∀ w, StatsWF (o.statistics w)) → ∀ s,
      ∃ s', o.run s (fitStream wof c R false) = .ok s' ∧
        s'.epochs = s.epochs ++ (Train.epochRange c.start last).filter (fun e => decide (o.period ∣ e))) ∧
    (∀ (l : Logger W Msg), 1 ≤ l.period → ∀ out,
      l.run out (fitStream wof c R false) = .ok (out ++
        ((Train.epochRange c.start last).filter (fun e => decide (l.period ∣ e))).map (fun e => l.msgGen (wof (.epochEnd e)) e))) ∧
    (∀ (sv : ModelSaver W P M), 1 ≤ sv.period → (sv.metadataOnly = false → ∀ w e, sv.reserved (sv.mdFor w e) = false) → ∀ ws,
      ∃ ws', sv.run ws (fitStream wof c R false) = .ok ws' ∧
        ws'.map Prod.fst = ws.map Prod.fst ++ ((if sv.saveInitial then [FileArg.initial] else []) ++
          ((Train.epochRange c.start last).filter (fun e => decide (sv.period ∣ e))).map FileArg.epoch)) := by
  have hsched := fun p => (C17_fit_schedule wof c R hnb last h p).1
  have hfired : ∀ p : Int, ((firedEpochs (fitStream wof c R false)).filter (fun x => decide (p ∣ x.1)))
      = ((Train.epochRange c.start last).filter (fun e => decide (p ∣ e))).map (fun e => (e, wof (.epochEnd e))) := hsched
  refine ⟨fun m hp hnd hep s => ?_, fun o hp hwf s => ?_, fun l hp out => ?_, fun sv hp hres ws => ?_⟩
  · obtain ⟨s', h1, h2⟩ := C17_schedule_metric m hp hnd hep s (fitStream wof c R false)
    refine ⟨s', h1, ?_⟩
    rw [h2, hfired]
    simp [List.map_map, Function.comp_def]
  · obtain ⟨s', h1, h2⟩ := C17_schedule_observable o hp hwf s (fitStream wof c R false)
    refine ⟨s', h1, ?_⟩
    rw [h2, hfired]
    simp [List.map_map, Function.comp_def]
  · rw [C17_schedule_logger l hp, hfired]
    simp [List.map_map, Function.comp_def]
  · obtain ⟨ws', h1, h2⟩ := C17_schedule_saver sv hp hres ws (fitStream wof c R false)
    refine ⟨ws', h1, ?_⟩
    rw [h2]
    congr 1
    rw [← filterMap_keyEvents _ (by intro ev hev; cases ev <;> simp_all), C17_fit_stream wof c R hnb last h,
      List.filterMap_cons]
    have htail : ((Train.epochRange c.start last).map (fun e => Ev.epochEnd e (wof (.epochEnd e)))).filterMap
        (fun ev => match ev with
          | .trainStart _ => if sv.saveInitial then some FileArg.initial else none
          | .epochEnd e _ => if sv.period ∣ e then some (FileArg.epoch e) else none
          | _ => none)
        = ((Train.epochRange c.start last).filter (fun e => decide (sv.period ∣ e))).map FileArg.epoch := by
      induction Train.epochRange c.start last with
      | nil => rfl
      | cons e rest ih =>
        by_cases hd : sv.period ∣ e <;> simp [hd, ih]
    rw [htail]
    by_cases hi : sv.saveInitial = true <;> simp [hi]

/-- **C17: a run started with a stop already requested.** `fit` returns before `on_train_start`: the stream is empty, so no
callback acts — no initial save, no evaluation, no message; every callback state is unchanged. -/
theorem C17_fit_stopped_beforehand (wof : Train.Event → W) (c : Train.Cfg) (R : Train.Req) :
    fitStream wof c R true = [] ∧
    (∀ (m : MetricEvaluator W V) s, m.run s (fitStream wof c R true) = .ok s) ∧
    (∀ (o : ObservableEvaluator W V) s, o.run s (fitStream wof c R true) = .ok s) ∧
    (∀ (l : Logger W Msg) out, l.run out (fitStream wof c R true) = .ok out) ∧
    (∀ (sv : ModelSaver W P M) ws, sv.run ws (fitStream wof c R true) = .ok ws) := by
  have h0 : fitStream wof c R true = [] := by
    unfold fitStream
    rw [Train.fit_stopped]
    rfl
  refine ⟨h0, ?_, ?_, ?_, ?_⟩ <;> intros <;> rw [h0] <;> rfl

/-! ### several callbacks in one list -/

/-- **C17 independent.** A list of periodic callbacks (any mix, any periods) driven through a stream ends in
states `res` exactly when each callback, driven ALONE through the same stream from its own state, ends in
the corresponding state: no callback's record depends on the presence, period or position of another. -/
theorem C17_independent (evs : List (Ev W)) :
    ∀ (cs : List (Callback W V P M Msg × CbState V P M Msg))
      (res : List (Callback W V P M Msg × CbState V P M Msg)),
      runAll cs evs = .ok res ↔
        List.Forall₂ (fun (cs : Callback W V P M Msg × CbState V P M Msg) r => r.1 = cs.1 ∧ cs.1.run cs.2 evs = .ok r.2) cs res := by
  have hstep : ∀ (ev : Ev W) (cs res : List (Callback W V P M Msg × CbState V P M Msg)),
      stepAll ev cs = .ok res ↔
        List.Forall₂ (fun (cs : Callback W V P M Msg × CbState V P M Msg) r => r.1 = cs.1 ∧ cs.1.step cs.2 ev = .ok r.2) cs res := by
    intro ev cs
    induction cs with
    | nil =>
      intro res
      simp only [stepAll, List.forall₂_nil_left_iff]
      constructor
      · intro h; cases h; rfl
      · intro h; rw [h]
    | cons c rest ih =>
      intro res
      obtain ⟨c, s⟩ := c
      simp only [stepAll]
      constructor
      · intro h
        cases hs : c.step s ev with
        | error e => simp [hs] at h
        | ok s' =>
          cases hr : stepAll ev rest with
          | error e => simp [hs, hr] at h
          | ok rest' =>
            simp only [hs, hr, Except.ok.injEq] at h
            subst h
            exact List.Forall₂.cons ⟨rfl, hs⟩ ((ih rest').mp hr)
      · intro h
        cases h with
        | cons h1 h2 =>
          rename_i r res'
          obtain ⟨rc, rs⟩ := r
          simp only at h1
          obtain ⟨h1a, h1b⟩ := h1
          subst h1a
          rw [h1b, (ih res').mpr h2]
  induction evs with
  | nil =>
    intro cs res
    simp only [runAll, runWith, Callback.run]
    have hR : (fun (cs : Callback W V P M Msg × CbState V P M Msg) (r : Callback W V P M Msg × CbState V P M Msg) =>
        r.1 = cs.1 ∧ (Except.ok cs.2 : Except PyErr _) = .ok r.2) = Eq := by
      funext a b
      apply propext
      obtain ⟨a1, a2⟩ := a
      obtain ⟨b1, b2⟩ := b
      simp only [Except.ok.injEq, Prod.mk.injEq]
      constructor
      · rintro ⟨h1, h2⟩; exact ⟨h1.symm, h2⟩
      · rintro ⟨h1, h2⟩; exact ⟨h1.symm, h2⟩
    rw [hR, List.forall₂_eq_eq_eq]
    simp
  | cons ev rest ih =>
    intro cs res
    simp only [runAll, runWith, Callback.run] at ih ⊢
    constructor
    · intro h
      cases hs : stepAll ev cs with
      | error e => simp [hs] at h
      | ok mid =>
        simp only [hs] at h
        have h1 := (hstep ev cs mid).mp hs
        have h2 := (ih mid res).mp h
        clear hs h ih hstep
        induction h1 generalizing res with
        | nil => cases h2; exact List.Forall₂.nil
        | cons hab _ ihh =>
          cases h2 with
          | cons hbc hrest =>
            refine List.Forall₂.cons ?_ (ihh _ hrest)
            obtain ⟨e1, e2⟩ := hab
            obtain ⟨f1, f2⟩ := hbc
            refine ⟨f1.trans e1, ?_⟩
            rw [e2]
            simpa [e1] using f2
    · intro h
      -- build the intermediate list
      have hmid : ∃ mid, stepAll ev cs = .ok mid ∧
          List.Forall₂ (fun (m : Callback W V P M Msg × CbState V P M Msg) r => r.1 = m.1 ∧ runWith m.1.step m.2 rest = .ok r.2) mid res := by
        clear ih
        induction h with
        | nil => exact ⟨[], rfl, List.Forall₂.nil⟩
        | @cons a b l1 l2 hab _ ihh =>
          obtain ⟨mid, hm1, hm2⟩ := ihh
          obtain ⟨a1, a2⟩ := a
          obtain ⟨e1, e2⟩ := hab
          simp only at e1 e2
          cases hs : a1.step a2 ev with
          | error err => simp [hs] at e2
          | ok s' =>
            refine ⟨(a1, s') :: mid, by simp [stepAll, hs, hm1], List.Forall₂.cons ⟨e1, ?_⟩ hm2⟩
            simpa [hs] using e2
      obtain ⟨mid, hm1, hm2⟩ := hmid
      rw [hm1]
      exact (ih mid res).mpr hm2

/-! ### the evaluator's names, CSV columns and attribute names are the observables' names -/

section columns

theorem dictSet_eq {K B : Type} [BEq K] [LawfulBEq K] (d : Dict K B) (k : K) (v : B) :
    Dict.set d k v = Stats.dictSet d k v := by
  unfold Dict.set Stats.dictSet
  have hc : d.keys.contains k = d.any (fun e => e.1 == k) := by
    rw [Bool.eq_iff_iff]
    simp only [Dict.keys, List.contains_iff_mem, List.mem_map, List.any_eq_true, beq_iff_eq]
  rw [hc]
  split
  · refine List.map_congr_left (fun e _ => ?_)
    by_cases h : e.1 == k
    · have : e.1 = k := by simpa using h
      simp [this]
    · simp [h]
  · rfl

theorem ofPairs_eq_systemInit {K B : Type} [BEq K] [LawfulBEq K] (l : List (K × B)) :
    Dict.ofPairs l = Stats.systemInit l := by
  unfold Dict.ofPairs Stats.systemInit
  congr 1
  funext d kv
  exact dictSet_eq d kv.1 kv.2

/-- **C17 columns** — `names`, and with them the CSV header and the attribute names `evaluator.<name>`, of an
`ObservableEvaluator` are the NAMES of the observables it was given, each once, in order of first occurrence (the key
order of the `System` dictionary, `C13_system_keys_of_names`); the header reads `epoch`, then for every such name
`<name>_mean`, `<name>_variance`, `<name>_std_error` in this order. (For composites the names are `exprText`,
`C16_name_of_build`.) -/
theorem C17_columns_of_names (c : ObservableEvaluator W V) :
    c.names = Stats.firstOcc c.obsNames ∧
    c.csvFields.map Field.text = "epoch" :: (Stats.firstOcc c.obsNames).flatMap
      (fun o => [o ++ "_" ++ "mean", o ++ "_" ++ "variance", o ++ "_" ++ "std_error"]) := by
  have hn : c.names = Stats.firstOcc c.obsNames := by
    unfold ObservableEvaluator.names
    rw [ofPairs_eq_systemInit]
    have := Stats.systemInit_keys (c.obsNames.map (fun n => (n, ())))
    simp only [List.map_map] at this
    simpa [Dict.keys, Function.comp_def] using this
  refine ⟨hn, ?_⟩
  unfold ObservableEvaluator.csvFields
  rw [hn]
  simp only [List.map_cons, Field.text, List.map_flatMap, csvStats, List.map_nil]

end columns

/-! ### `verbose`: the printing branches and the order of effects -/

section verbose

/-- **C17 verbose (metric evaluator)** — whenever every value computed at this evaluation can be formatted with
`{v:.6f}`, the record appended, `last`, the CSV row and the exception (if any) are the same for EVERY object passed as
`verbose` (the singleton `True`, `False`, `1`, `numpy.True_`, …), namely those of the plain state machine
`onEpochEnd` all the C17 theorems speak about. -/
theorem C17_verbose_irrelevant_when_formattable (c : MetricEvaluator W V) (fmt : V → Except PyErr String)
    (s : EvalState V V) (e : Int) (w : W) (hf : ∀ nv ∈ c.evalAll w, ∃ t, fmt nv.2 = .ok t) (verbose : PyFlag) :
    (c.onEpochEndV verbose fmt s e w).toExcept = c.onEpochEnd s e w ∧
    (c.onEpochEndV verbose fmt s e w).state = (c.onEpochEndV (.pyBool false) fmt s e w).state ∧
    (c.onEpochEndV verbose fmt s e w).err = (c.onEpochEndV (.pyBool false) fmt s e w).err := by
  obtain ⟨line, hl⟩ := fmtJoin_ok fmt " = " (c.evalAll w) hf
  unfold MetricEvaluator.onEpochEndV MetricEvaluator.onEpochEnd
  cases hg : gate e c.period with
  | error err => simp [Effects.toExcept]
  | ok b =>
    cases b with
    | false => simp [Effects.toExcept]
    | true =>
      have hF : (PyFlag.pyBool false).isTrueSingleton = false := rfl
      simp only [hl, hF]
      cases hv : verbose.isTrueSingleton <;> cases hlog : c.log <;> simp [Effects.toExcept] <;>
        cases hr : c.logRow e (c.evalAll w) <;> simp

/-- the same for whole runs: over any event stream on which every computed value is formattable, the verbose
callback leaves the state / raises the exception of the plain `run` (so every `C17_records_*` / `C17_schedule_*`
theorem applies to it), whatever `verbose` is. -/
theorem C17_verbose_run_irrelevant_when_formattable (c : MetricEvaluator W V) (fmt : V → Except PyErr String)
    (hf : ∀ w, ∀ nv ∈ c.evalAll w, ∃ t, fmt nv.2 = .ok t) (verbose : PyFlag) (evs : List (Ev W)) (s : EvalState V V) :
    (c.runV verbose fmt s evs).toExcept = c.run s evs := by
  induction evs generalizing s with
  | nil => rfl
  | cons ev rest ih =>
    cases ev with
    | epochEnd e w =>
      have h1 := (C17_verbose_irrelevant_when_formattable c fmt s e w (hf w) verbose).1
      simp only [MetricEvaluator.runV, MetricEvaluator.run, runWith, MetricEvaluator.step]
      cases herr : (c.onEpochEndV verbose fmt s e w).err with
      | some err =>
        simp only [Effects.toExcept, herr] at h1 ⊢
        rw [← h1]
      | none =>
        simp only [Effects.toExcept, herr] at h1
        rw [← h1]
        exact ih _
    | trainStart w => simpa [MetricEvaluator.runV, MetricEvaluator.run, runWith, MetricEvaluator.step] using ih s
    | trainEnd w => simpa [MetricEvaluator.runV, MetricEvaluator.run, runWith, MetricEvaluator.step] using ih s
    | epochStart e w => simpa [MetricEvaluator.runV, MetricEvaluator.run, runWith, MetricEvaluator.step] using ih s
    | batchStart e b w => simpa [MetricEvaluator.runV, MetricEvaluator.run, runWith, MetricEvaluator.step] using ih s
    | batchEnd e b w => simpa [MetricEvaluator.runV, MetricEvaluator.run, runWith, MetricEvaluator.step] using ih s

/-- `verbose is True` is an identity test: any object that is not the singleton `True` prints nothing and never
formats a value (so an unformattable value is harmless then). -/
theorem C17_verbose_identity_test (c : MetricEvaluator W V) (fmt : V → Except PyErr String)
    (s : EvalState V V) (e : Int) (w : W) (verbose : PyFlag) (hv : verbose.isTrueSingleton = false) :
    (c.onEpochEndV verbose fmt s e w).out = [] ∧ (c.onEpochEndV verbose fmt s e w).toExcept = c.onEpochEnd s e w := by
  unfold MetricEvaluator.onEpochEndV MetricEvaluator.onEpochEnd
  cases hg : gate e c.period with
  | error err => simp [Effects.toExcept]
  | ok b =>
    cases b with
    | false => simp [Effects.toExcept]
    | true =>
      simp only [hv]
      cases hlog : c.log <;> simp [Effects.toExcept] <;> cases hr : c.logRow e (c.evalAll w) <;> simp

/-- **what has happened when formatting raises** (`verbose=True`, the evaluation is due, some value is not
formattable): the exception propagates; the record IS appended (`len` grew by one, `last` is the new dict), the epoch
header is on stdout, but the CSV row is NOT written — history and log file are out of step from then on. -/
theorem C17_verbose_unformattable_partial (c : MetricEvaluator W V) (fmt : V → Except PyErr String)
    (s : EvalState V V) (e : Int) (w : W) (hg : gate e c.period = .ok true)
    (hbad : ∃ nv ∈ c.evalAll w, ∃ err, fmt nv.2 = .error err) :
    ∃ err, c.onEpochEndV (.pyBool true) fmt s e w =
      ⟨{ s with last := c.evalAll w, past := s.past ++ [(e, c.evalAll w)] }, ["Epoch: " ++ toString e ++ "\t"], some err⟩ ∧
      (c.onEpochEndV (.pyBool true) fmt s e w).state.len = s.len + 1 ∧
      (c.onEpochEndV (.pyBool true) fmt s e w).state.log = s.log := by
  obtain ⟨err, herr⟩ := fmtJoin_error fmt " = " (c.evalAll w) hbad
  refine ⟨err, ?_⟩
  have : c.onEpochEndV (.pyBool true) fmt s e w =
      ⟨{ s with last := c.evalAll w, past := s.past ++ [(e, c.evalAll w)] }, ["Epoch: " ++ toString e ++ "\t"], some err⟩ := by
    simp [MetricEvaluator.onEpochEndV, hg, PyFlag.isTrueSingleton, herr]
  refine ⟨this, ?_, ?_⟩ <;> rw [this] <;> simp [EvalState.len]

/-- **C17 verbose (observable evaluator)** — as for the metric evaluator: with formattable statistics the record, the
CSV row and the outcome do not depend on `verbose` and are those of `onEpochEnd`. -/
theorem C17_verbose_irrelevant_when_formattable_observable (c : ObservableEvaluator W V)
    (fmt : V → Except PyErr String) (s : EvalState (Dict String V) V) (e : Int) (w : W)
    (hf : ∀ od ∈ c.statistics w, ∀ kv ∈ od.2, ∃ t, fmt kv.2 = .ok t) (verbose : PyFlag) :
    (c.onEpochEndV verbose fmt s e w).toExcept = c.onEpochEnd s e w ∧
    (c.onEpochEndV verbose fmt s e w).state = (c.onEpochEndV (.pyBool false) fmt s e w).state ∧
    (c.onEpochEndV verbose fmt s e w).err = (c.onEpochEndV (.pyBool false) fmt s e w).err := by
  obtain ⟨body, hl⟩ := verboseBody_ok fmt (c.statistics w) hf
  unfold ObservableEvaluator.onEpochEndV ObservableEvaluator.onEpochEnd
  cases hg : gate e c.period with
  | error err => simp [Effects.toExcept]
  | ok b =>
    cases b with
    | false => simp [Effects.toExcept]
    | true =>
      have hF : (PyFlag.pyBool false).isTrueSingleton = false := rfl
      simp only [hl, hF]
      cases hv : verbose.isTrueSingleton <;> cases hlog : c.log <;> simp [Effects.toExcept] <;>
        cases hr : dictWriterRow c.csvFields (ObservableEvaluator.rowDict e (c.statistics w)) true <;> simp

/-- observable evaluator, formatting raises: record appended, header printed, no CSV row. -/
theorem C17_verbose_unformattable_partial_observable (c : ObservableEvaluator W V) (fmt : V → Except PyErr String)
    (s : EvalState (Dict String V) V) (e : Int) (w : W) (hg : gate e c.period = .ok true) (err : PyErr)
    (hbad : ObservableEvaluator.verboseBody fmt (c.statistics w) = .error err) :
    c.onEpochEndV (.pyBool true) fmt s e w =
      ⟨{ s with last := c.statistics w, past := s.past ++ [(e, c.statistics w)] }, ["Epoch: " ++ toString e ++ "\n"],
        some err⟩ := by
  simp [ObservableEvaluator.onEpochEndV, hg, PyFlag.isTrueSingleton, hbad]

end verbose

/-! ### non-vacuity: a concrete stream with a stopped run followed by a second run -/

/-- run 1: epochs 1..4 (other events interleaved), cut short after epoch 4; run 2: epochs 3..4 again -/
def exStream : List (Ev Nat) :=
  [.trainStart 0, .epochStart 1 0, .batchStart 1 0 0, .batchEnd 1 0 1, .epochEnd 1 1, .epochEnd 2 2, .epochEnd 3 3,
   .epochEnd 4 4, .trainEnd 4, .trainStart 4, .epochEnd 3 5, .epochEnd 4 6, .trainEnd 6]

/-- two metrics, period 2, logging -/
def exMetric : MetricEvaluator Nat Nat := ⟨2, [("a", fun w => 10 * w), ("b", fun w => w + 1)], true⟩

example : scheduled 2 exStream = [(2, 2), (4, 4), (4, 6)] := by decide

/-- verbose: a metric returning a formattable value (`w ≠ 3`) or a string (`w = 3`, `fmt` raises `ValueError`): the
verbose run over `exStream` (period 2: evaluations at worlds 2, 4, 6) completes and prints; with the unformattable value
at world 2 the run stops there with one record, the header on stdout and only the CSV header in the log. -/
example : let fmt : Nat → Except PyErr String := fun v => if v = 20 then .error .ValueError else .ok (toString v)
    let r := exMetric.runV (.pyBool true) fmt exMetric.init exStream
    (r.err, r.state.epochs, r.state.log.length, r.out) = (some .ValueError, [2], 1, ["Epoch: 2\t"]) := by decide
example : let fmt : Nat → Except PyErr String := fun v => .ok (toString v)
    let r := exMetric.runV (.pyBool true) fmt exMetric.init exStream
    (r.err, r.state.epochs, r.state.log.length, r.out.take 2) = (none, [2, 4, 4], 4, ["Epoch: 2\t", "a = 20\tb = 3\n"]) := by
  decide
example : exMetric.names.Nodup ∧ (exMetric.log = true → "epoch" ∉ exMetric.names) := by decide

/-- the model, executed on the example, gives exactly the records the theorem predicts -/
example : (exMetric.run exMetric.init exStream).toOption.map (fun s => (s.epochs, s.last, s.log.length))
    = some ([2, 4, 4], [("a", 60), ("b", 7)], 4) := by decide

/-- a saver with period 3, initial save, callable metadata `(w, e) ↦ (w, e)`: writes of the example stream -/
example : (ModelSaver.run (⟨3, "m_", ".pt", true, .callable (fun w e => (w, e)), false, (0, 0), fun w => w, fun _ => false⟩ :
      ModelSaver Nat Nat (Nat × Int)) [] exStream)
    = .ok [(.initial, .full 0 (0, 0)), (.epoch 3, .full 3 (3, 3)), (.initial, .full 4 (4, 0)), (.epoch 3, .full 5 (5, 3))] := by
  rw [C17_saver _ (by decide) (by intros; rfl)]
  rfl

/-- the hypothesis of `C17_saver_file` (every file argument written at most once) holds for a single run -/
example : (([Ev.trainStart 0, .epochEnd 1 1, .epochEnd 2 2, .epochEnd 3 3, .epochEnd 4 4, .trainEnd 4].filterMap
    (saverWrite (⟨2, "m_", ".pt", true, .none, false, (), fun w => w, fun _ => false⟩ : ModelSaver Nat Nat Unit))).map Prod.fst).Nodup := by
  decide

/-- statistics dicts of the shape `System.statistics` returns satisfy `StatsWF` -/
example : StatsWF ([("sx", [("mean", 1), ("variance", 2), ("std_error", 3), ("num_samples", 4)]),
    ("sz", [("mean", 5), ("variance", 6), ("std_error", 7), ("num_samples", 8)])] : Dict String (Dict String Nat)) := by
  refine ⟨by decide, ?_⟩
  intro od hod
  simp at hod
  rcases hod with h | h <;> subst h <;> decide

/-- plural stripping of `ObservableStatistics` -/
example : stripPlural "means" = "mean" ∧ stripPlural "std_errors" = "std_error" ∧
    stripPlural "num_samples" = "num_sample" ∧ stripPlural "variance" = "variance" := by decide

/-- metrics called "log" and "period" (names the evaluator uses for attributes of its own), period 2: subscripting
gives the recorded values, attribute syntax the attribute, for a name that does not collide both agree -/
def exShadow : MetricEvaluator Nat Nat := ⟨2, [("log", fun w => 10 * w), ("period", fun w => w + 1), ("kl", fun w => w)], false⟩

example : (exShadow.run exShadow.init exStream).toOption.map
      (fun s => ((s.getItem "log").toOption, (s.getAttr ["log", "period", "last"] "log").toOption,
        (s.getAttr ["log", "period", "last"] "kl").toOption, (s.getValue "period" (some (-1))).toOption))
    = some (some [20, 40, 60], some (.own "log"), some (.dynamic [2, 4, 6]), some 7) := by decide

/-! ### non-vacuity of the composition with C12 -/

/-- `fit(starting_epoch = 1, epochs = 5)`, two batches per epoch, one user callback -/
def exCfg : Train.Cfg := ⟨1, 5, 2, [0], false, false⟩

/-- the callback requests a stop at the END of batch 1 of epoch 3 -/
def exReq : Train.Req := ⟨fun _ ev => ev == .batchEnd 3 1, fun _ _ => false⟩

/-- nobody ever requests a stop -/
def exQuiet : Train.Req := ⟨fun _ _ => false, fun _ _ => false⟩

/-- the model of `fit`, executed: the stop at the batch end of epoch 3 still lets epoch 3's end fire, a saver / evaluator of
period 3 acts there (and nowhere else), one of period 2 acts at epoch 2 only; the uncut run gives the multiples in 1..5 -/
example : scheduled 3 (fitStream (fun ev => ev) exCfg exReq false) = [(3, .epochEnd 3)] ∧
    scheduled 2 (fitStream (fun ev => ev) exCfg exReq false) = [(2, .epochEnd 2)] ∧
    scheduled 2 (fitStream (fun ev => ev) exCfg exQuiet false) = [(2, .epochEnd 2), (4, .epochEnd 4)] ∧
    fitStream (fun ev => ev) exCfg exReq true = [] := by decide

/-- the hypothesis `RunEnds` of `C17_fit_schedule` holds for it with `last = 3` (first stop request in epoch 3) -/
example : RunEnds exCfg exReq 3 := by
  have hreq : ∀ ev, Train.reqEv exCfg exReq ev = (ev == .batchEnd 3 1) := by
    intro ev; simp [Train.reqEv, exCfg, exReq]
  refine RunEnds.cut 3 (by decide) (by decide) ⟨by rw [hreq]; rfl, ?_⟩ ?_
  · intro e' h1 h2
    have hne : e' ≠ 3 := by omega
    refine ⟨⟨by rw [hreq]; rfl, ?_⟩, by rw [hreq]; rfl⟩
    intro b _
    refine ⟨by rw [hreq]; rfl, rfl, ?_⟩
    rw [hreq]
    simp [hne]
  · intro hq
    have := (hq.1.2 1 (by decide)).2.2
    rw [hreq] at this
    simp at this

/-- … and with `last = epochs = 5` for the run without stop requests -/
example : RunEnds exCfg exQuiet 5 := by
  refine RunEnds.uncut ⟨rfl, fun e' _ _ => ⟨⟨rfl, fun b _ => ⟨rfl, rfl, rfl⟩⟩, rfl⟩⟩

end C17
end QV.Props
