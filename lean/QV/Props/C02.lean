/-
C02 — The reconstructed density matrix is always a physical state.

"For every parameter setting of a mixed-state model, the matrix of density-matrix elements over
the full basis is Hermitian and positive semidefinite, its diagonal equals the unnormalised
probabilities the model reports and samples from, and its trace equals the reported
normalisation. It equals, entry for entry, the partial trace over the auxiliary units of the
purified two-network RBM state that defines it, whichever call form (full matrix, paired vector
of elements, single element) is used."

All theorems: ∀ n h a, ∀ real parameters of both networks, ∀ visible vectors (real-valued, not only
0/1 ones) unless a matrix over the basis is formed.  Model definitions: `QV.Model.Rbm` (PRBM),
`QV.Model.States` (namespace Density), `QV.Model.Density` (call forms) — executed against the real
`DensityMatrix` by the C02 correspondence check.

THE GUARD `NZ`.  `DensityMatrix.pi` computes `log √(1 + 2eˣcos y + e²ˣ) = log |1 + e^{x+iy}|` per
auxiliary unit.  When `1 + e^{x+iy} = 0` (only possible for `x = 0` and `y` an odd multiple of `π`) the
float code gives `log 0 = -∞`, hence `rho = exp(-∞)·… = 0`, the correct limit, whereas over `ℝ`
Mathlib's `Real.log 0 = 0` would make the model value `exp(Γ⁺)·…  ≠ 0`.  This is a totalisation
artefact of `ℝ`, not of the code, so the partial-trace / positive-semidefinite theorems carry the
hypothesis `NZ` (no auxiliary unit has `1 + e^{x+iy} = 0`); the diagonal, the trace, Hermiticity, the
call forms and the irrelevance of the phase auxiliary bias need no guard.  `C02_NZ_of_abs_lt_pi` and
`C02_NZ_of_phase_weights_small` give realistic sufficient conditions; the excluded point itself is
exercised on the real code by the harness (auxiliary probe `nz-probe`).
-/
import Mathlib.LinearAlgebra.Matrix.PosDef
import Mathlib.Analysis.Complex.Order
import Mathlib.Algebra.BigOperators.Field
import Mathlib.Analysis.SpecialFunctions.Trigonometric.Complex
import QV.Model.Density
import QV.Lemmas.Basic
import QV.Lemmas.Hilbert
import QV.Lemmas.Density
import QV.Lemmas.PyFlag
import QV.Lemmas.CallShape
import QV.Props.C05

namespace QV.Props
namespace C02
open QV Finset Complex Density
open scoped ComplexOrder ComplexConjugate

variable {n h a : ℕ}

/-! ### Specification (not part of the code) -/

/-- SPEC. Logarithm of one network's joint Boltzmann weight with the hidden units summed out:
`b·σ + Σ_i sp(c_i + W_i·σ) + Σ_k aux_k (U_k·σ + d_k)`, `sp x = log(1+eˣ)`. -/
noncomputable def logWeight (r : PRBM ℝ n h a) (σ : Fin n → ℝ) (aux : Fin a → Bool) : ℝ :=
  ∑ j, r.b j * σ j + ∑ i, Real.log (1 + Real.exp (r.c i + ∑ j, r.W i j * σ j))
    + ∑ k, if aux k then (∑ j, r.U k j * σ j) + r.d k else 0

/-- SPEC. Amplitude of the purified two-network RBM state on (visible, auxiliary) with the hidden
units summed out: `φ(σ,aux) = exp(½ logWeight_λ + (i/2) logWeight_μ)`. -/
noncomputable def purAmp (am ph : PRBM ℝ n h a) (σ : Fin n → ℝ) (aux : Fin a → Bool) : ℂ :=
  Complex.exp ((1 / 2 : ℂ) * ((logWeight am σ aux : ℝ) : ℂ) + (I / 2) * ((logWeight ph σ aux : ℝ) : ℂ))

/-- the guard: no auxiliary unit has `1 + e^{x_k + i y_k} = 0` -/
def NZ (am ph : PRBM ℝ n h a) (v vp : Fin n → ℝ) : Prop :=
  ∀ k, (1 : ℂ) + Complex.exp (((piArgRe am v vp k : ℝ) : ℂ) + ((piArgIm ph v vp k : ℝ) : ℂ) * I) ≠ 0

/-- the model's `rho v v'` (a real pair, as `cplx.make_complex` stores it) read as a complex number -/
noncomputable def rhoC (am ph : PRBM ℝ n h a) (v vp : Fin n → ℝ) : ℂ :=
  ⟨(rho am ph v vp).1, (rho am ph v vp).2⟩

/-- 0/1 encoding of a basis state -/
def bits (σ : Fin n → Bool) : Fin n → ℝ := fun j => bit (σ j)

/-- the model's `rho(space, space)` over the generated Hilbert space, as a complex matrix -/
noncomputable def rhoFullC (am ph : PRBM ℝ n h a) : Matrix (Fin (2 ^ n)) (Fin (2 ^ n)) ℂ :=
  fun k l => ⟨(rhoFull am ph k l).1, (rhoFull am ph k l).2⟩

/-- the same matrix indexed by bit-vectors -/
noncomputable def rhoMat (am ph : PRBM ℝ n h a) : Matrix (Fin n → Bool) (Fin n → Bool) ℂ :=
  fun σ τ => rhoC am ph (bits σ) (bits τ)

/-- SPEC. the purified state as a (visible × auxiliary) matrix -/
noncomputable def purMat (am ph : PRBM ℝ n h a) : Matrix (Fin n → Bool) (Fin a → Bool) ℂ :=
  fun σ aux => purAmp am ph (bits σ) aux

/-! ### Helper identities linking the specification to the model's building blocks -/

theorem logWeight_eq (r : PRBM ℝ n h a) (σ : Fin n → ℝ) (aux : Fin a → Bool) :
    logWeight r σ aux = r.visTerm σ + ∑ k, if aux k then r.preactA σ k else 0 := by
  have e1 : ∀ j, r.b j * σ j = σ j * r.b j := fun j => mul_comm _ _
  have e2 : ∀ i, r.c i + ∑ j, r.W i j * σ j = (∑ j, σ j * r.W i j) + r.c i := by
    intro i; rw [add_comm]; congr 1; exact Finset.sum_congr rfl (fun j _ => mul_comm _ _)
  have e3 : ∀ k, ∑ j, r.U k j * σ j = ∑ j, σ j * r.U k j :=
    fun k => Finset.sum_congr rfl (fun j _ => mul_comm _ _)
  unfold logWeight
  simp_rw [e1, e2, e3, PRBM.visTerm_eq, PRBM.preactH_eq, PRBM.preactA_eq]

theorem gammaPlus_add_aux (am : PRBM ℝ n h a) (v vp : Fin n → ℝ) (aux : Fin a → Bool) :
    am.gamma 1 v vp + ∑ k, (if aux k then piArgRe am v vp k else 0)
      = (logWeight am v aux + logWeight am vp aux) / 2 := by
  rw [logWeight_eq, logWeight_eq, PRBM.gamma_eq]
  have : ∑ k, (if aux k then piArgRe am v vp k else 0)
      = (∑ k, (if aux k then am.preactA v k else 0) + ∑ k, (if aux k then am.preactA vp k else 0)) / 2 := by
    rw [← Finset.sum_add_distrib, Finset.sum_div]
    refine Finset.sum_congr rfl (fun k _ => ?_)
    simp only [piArgRe, two_eq]
    split_ifs <;> ring
  rw [this]; ring

theorem gammaMinus_add_aux (ph : PRBM ℝ n h a) (v vp : Fin n → ℝ) (aux : Fin a → Bool) :
    ph.gamma (-1) v vp + ∑ k, (if aux k then piArgIm ph v vp k else 0)
      = (logWeight ph v aux - logWeight ph vp aux) / 2 := by
  rw [logWeight_eq, logWeight_eq, PRBM.gamma_eq]
  have : ∑ k, (if aux k then piArgIm ph v vp k else 0)
      = (∑ k, (if aux k then ph.preactA v k else 0) - ∑ k, (if aux k then ph.preactA vp k else 0)) / 2 := by
    rw [← Finset.sum_sub_distrib, Finset.sum_div]
    refine Finset.sum_congr rfl (fun k _ => ?_)
    simp only [piArgIm, two_eq, PRBM.preactA_eq, sumFin_eq]
    split_ifs <;> ring
  rw [this]; ring

/-- `φ(v,aux)·conj φ(v',aux) = exp(½(L_λ v + L_λ v') + (i/2)(L_μ v − L_μ v'))` -/
theorem purAmp_mul_conj (am ph : PRBM ℝ n h a) (v vp : Fin n → ℝ) (aux : Fin a → Bool) :
    purAmp am ph v aux * conj (purAmp am ph vp aux)
      = Complex.exp ((((logWeight am v aux + logWeight am vp aux) / 2 : ℝ) : ℂ)
          + (((logWeight ph v aux - logWeight ph vp aux) / 2 : ℝ) : ℂ) * I) := by
  unfold purAmp
  rw [← Complex.exp_conj, ← Complex.exp_add]
  congr 1
  simp only [map_add, map_mul, map_div₀, Complex.conj_ofReal, Complex.conj_I, map_one, map_ofNat]
  push_cast
  ring

theorem NZ_self (am ph : PRBM ℝ n h a) (v : Fin n → ℝ) : NZ am ph v v := by
  intro k
  rw [piArgIm_self, one_add_cexp]
  intro h0
  have := congrArg Complex.re h0
  simp only [Real.cos_zero, mul_one, Complex.zero_re] at this
  linarith [Real.exp_pos (piArgRe am v v k)]

/-! ### C02.1 — the analytic auxiliary trace, one unit -/

/-- **C02.1** per auxiliary unit, `exp(Re Π + i Im Π) = 1 + e^{x+iy}` for the code's
`log √(1 + 2eˣcos y + e²ˣ)` and `atan2(eˣ sin y, 1 + eˣ cos y)`, whenever the right side is non-zero. -/
theorem C02_pi_unit (x y : ℝ) (hz : (1 : ℂ) + Complex.exp ((x : ℂ) + (y : ℂ) * I) ≠ 0) :
    Complex.exp (((piRe1 x y : ℝ) : ℂ) + ((piIm1 x y : ℝ) : ℂ) * I)
      = 1 + Complex.exp ((x : ℂ) + (y : ℂ) * I) :=
  pi_unit x y hz

/-- the guard can only fail at `x = 0`, `cos y = -1` (i.e. `y` an odd multiple of `π`) -/
theorem C02_guard_fails_only_at (x y : ℝ)
    (h0 : (1 : ℂ) + Complex.exp ((x : ℂ) + (y : ℂ) * I) = 0) : x = 0 ∧ Real.cos y = -1 := by
  rw [one_add_cexp] at h0
  have hre : 1 + Real.exp x * Real.cos y = 0 := by simpa using congrArg Complex.re h0
  have him : Real.exp x * Real.sin y = 0 := by simpa using congrArg Complex.im h0
  have hs : Real.sin y = 0 := by
    rcases mul_eq_zero.mp him with h | h
    · exact absurd h (Real.exp_pos x).ne'
    · exact h
  have hc := Real.sin_sq_add_cos_sq y
  rw [hs] at hc
  have hc2 : Real.cos y = 1 ∨ Real.cos y = -1 := by
    have : (Real.cos y - 1) * (Real.cos y + 1) = 0 := by nlinarith
    rcases mul_eq_zero.mp this with h | h
    · left; linarith
    · right; linarith
  rcases hc2 with h1 | h1
  · rw [h1] at hre; linarith [Real.exp_pos x]
  · refine ⟨?_, h1⟩
    rw [h1] at hre
    have : Real.exp x = 1 := by linarith
    exact (Real.exp_eq_one_iff x).mp this

/-- sufficient condition: `|y_k| < π` for every auxiliary unit -/
theorem C02_NZ_of_abs_lt_pi (am ph : PRBM ℝ n h a) (v vp : Fin n → ℝ)
    (hy : ∀ k, |piArgIm ph v vp k| < Real.pi) : NZ am ph v vp := by
  intro k h0
  obtain ⟨-, hc⟩ := C02_guard_fails_only_at _ _ h0
  have hk := abs_lt.mp (hy k)
  have : Real.cos (piArgIm ph v vp k) ≠ -1 := by
    intro hc'
    have hpi := Real.cos_eq_neg_one_iff.mp hc'  -- ∃ k, π + k*2π = y
    obtain ⟨m, hm⟩ := hpi
    have hpos := Real.pi_pos
    rcases le_or_gt 0 m with hm0 | hm0
    · have : (0 : ℝ) ≤ (m : ℝ) := by exact_mod_cast hm0
      nlinarith
    · have : (m : ℝ) ≤ -1 := by exact_mod_cast Int.le_sub_one_of_lt hm0
      nlinarith
  exact this hc

/-- sufficient condition on the parameters alone: if every row of the phase network's auxiliary
weights has `Σ_j |U_μ k j| < 2π`, the guard holds for every pair of basis states. -/
theorem C02_NZ_of_phase_weights_small (am ph : PRBM ℝ n h a)
    (hU : ∀ k, ∑ j, |ph.U k j| < 2 * Real.pi) (σ τ : Fin n → Bool) :
    NZ am ph (bits σ) (bits τ) := by
  apply C02_NZ_of_abs_lt_pi
  intro k
  have e : piArgIm ph (bits σ) (bits τ) k = (∑ j, (bits σ j - bits τ j) * ph.U k j) / 2 := by
    simp only [piArgIm, two_eq, sumFin_eq]
    rw [← Finset.sum_sub_distrib]
    congr 1
    exact Finset.sum_congr rfl (fun j _ => by ring)
  rw [e, abs_div, abs_two, div_lt_iff₀ (by norm_num)]
  calc |∑ j, (bits σ j - bits τ j) * ph.U k j|
      ≤ ∑ j, |(bits σ j - bits τ j) * ph.U k j| := Finset.abs_sum_le_sum_abs _ _
    _ ≤ ∑ j, |ph.U k j| := by
        refine Finset.sum_le_sum (fun j _ => ?_)
        rw [abs_mul]
        have : |bits σ j - bits τ j| ≤ 1 := by
          simp only [bits, bit]
          cases σ j <;> cases τ j <;> simp
        calc |bits σ j - bits τ j| * |ph.U k j| ≤ 1 * |ph.U k j| :=
              mul_le_mul_of_nonneg_right this (abs_nonneg _)
          _ = |ph.U k j| := one_mul _
    _ < 2 * Real.pi := hU k
    _ = Real.pi * 2 := by ring

/-- sufficient condition on the AMPLITUDE network only (audit item C02-1): the guard can fail only at
`x_k = 0`, so it holds whenever no auxiliary unit has `x_k = ((U_λ v + d_λ) + (U_λ v' + d_λ))_k / 2 = 0` —
whatever the phase network is (in particular for phase weights of magnitude 30, where
`C02_NZ_of_phase_weights_small` does not apply). -/
theorem C02_NZ_of_x_ne_zero (am ph : PRBM ℝ n h a) (v vp : Fin n → ℝ)
    (hx : ∀ k, piArgRe am v vp k ≠ 0) : NZ am ph v vp :=
  fun k h0 => hx k (C02_guard_fails_only_at _ _ h0).1

/-- the same condition written on the parameters: for a pair of basis states `x_k = 0` is the hyperplane
`Σ_j U_λ[k,j] (σ_j + τ_j) + 2 d_λ[k] = 0` in the amplitude network's auxiliary weights and bias. Off these
finitely many hyperplanes (`a · 3ⁿ` of them: `σ + τ ∈ {0,1,2}ⁿ`) the guard holds for every pair of basis
states and EVERY phase network. -/
theorem C02_NZ_of_amp_off_hyperplanes (am ph : PRBM ℝ n h a)
    (hU : ∀ (k : Fin a) (σ τ : Fin n → Bool),
      ∑ j, am.U k j * (bits σ j + bits τ j) + 2 * am.d k ≠ 0) (σ τ : Fin n → Bool) :
    NZ am ph (bits σ) (bits τ) := by
  apply C02_NZ_of_x_ne_zero
  intro k hk
  apply hU k σ τ
  have e : piArgRe am (bits σ) (bits τ) k
      = (∑ j, am.U k j * (bits σ j + bits τ j) + 2 * am.d k) / 2 := by
    simp only [piArgRe, two_eq, PRBM.preactA_eq]
    have : ∑ j, am.U k j * (bits σ j + bits τ j)
        = ∑ j, bits σ j * am.U k j + ∑ j, bits τ j * am.U k j := by
      rw [← Finset.sum_add_distrib]
      exact Finset.sum_congr rfl (fun j _ => by ring)
    rw [this]; ring
  rw [e] at hk
  linarith [(div_eq_zero_iff.mp hk).resolve_right (by norm_num)]

/-! ### C02.2 — entry for entry the partial trace over the auxiliary units -/

/-- **C02.2** `rho v v' = Σ_{aux ∈ 𝔹ᴬ} φ(v,aux) · conj φ(v',aux)` for all real visible vectors. -/
theorem C02_rho_eq_partial_trace (am ph : PRBM ℝ n h a) (v vp : Fin n → ℝ) (hz : NZ am ph v vp) :
    rhoC am ph v vp = ∑ aux : Fin a → Bool, purAmp am ph v aux * conj (purAmp am ph vp aux) := by
  unfold rhoC
  rw [rho_complex_eq am ph v vp hz, ← sum_aux_exp]
  refine Finset.sum_congr rfl (fun aux _ => ?_)
  have hsum : ∑ k, (if aux k then ((piArgRe am v vp k : ℝ) : ℂ) + ((piArgIm ph v vp k : ℝ) : ℂ) * I else 0)
      = ((∑ k, (if aux k then piArgRe am v vp k else 0) : ℝ) : ℂ)
        + ((∑ k, (if aux k then piArgIm ph v vp k else 0) : ℝ) : ℂ) * I := by
    rw [Complex.ofReal_sum, Complex.ofReal_sum, Finset.sum_mul, ← Finset.sum_add_distrib]
    refine Finset.sum_congr rfl (fun k _ => ?_)
    split_ifs <;> simp
  rw [purAmp_mul_conj, ← gammaPlus_add_aux, ← gammaMinus_add_aux, hsum]
  congr 1
  push_cast
  ring

/-- **C02.2b** the partial trace does not depend on the phase network's auxiliary bias `d_μ`. -/
theorem C02_phase_aux_bias_irrelevant (am ph : PRBM ℝ n h a) (d' : Fin a → ℝ) (v vp : Fin n → ℝ) :
    ∑ aux : Fin a → Bool, purAmp am ph v aux * conj (purAmp am ph vp aux)
      = ∑ aux : Fin a → Bool, purAmp am { ph with d := d' } v aux * conj (purAmp am { ph with d := d' } vp aux) := by
  refine Finset.sum_congr rfl (fun aux _ => ?_)
  rw [purAmp_mul_conj, purAmp_mul_conj]
  have key : ∀ r : PRBM ℝ n h a, logWeight r v aux - logWeight r vp aux
      = (∑ j, r.b j * v j + ∑ i, Real.log (1 + Real.exp (r.c i + ∑ j, r.W i j * v j)))
        - (∑ j, r.b j * vp j + ∑ i, Real.log (1 + Real.exp (r.c i + ∑ j, r.W i j * vp j)))
        + ∑ k, if aux k then (∑ j, r.U k j * v j) - (∑ j, r.U k j * vp j) else 0 := by
    intro r
    unfold logWeight
    rw [add_sub_add_comm, ← Finset.sum_sub_distrib]
    congr 1
    refine Finset.sum_congr rfl (fun k _ => ?_)
    split_ifs <;> ring
  rw [key ph, key { ph with d := d' }]

/-- … and the MODEL's `rho` ignores `d_μ` exactly as the code does (`F.linear(v, rbm_ph.weights_U)` has
no bias argument; `gamma` never touches the auxiliary layer). -/
theorem C02_rho_indep_phase_aux_bias (am ph : PRBM ℝ n h a) (d' : Fin a → ℝ) (v vp : Fin n → ℝ) :
    rho am { ph with d := d' } v vp = rho am ph v vp := rfl

/-! ### C02.4 — the diagonal -/

/-- **C02.4** (no guard) `rho σ σ = (exp(−E_λ σ), 0) = (probability σ 1, 0)` with `E_λ` the
auxiliary-traced effective energy of the amplitude network. -/
theorem C02_diagonal (am ph : PRBM ℝ n h a) (v : Fin n → ℝ) :
    rho am ph v v = (Real.exp (-(am.effEnergy v)), 0)
      ∧ rho am ph v v = (probability am v 1, 0) := by
  have hphs : ph.gamma (-1) v v = 0 := by rw [PRBM.gamma_eq]; ring
  have hamp : am.gamma 1 v v = am.visTerm v := by rw [PRBM.gamma_eq]; ring
  have h1 : rho am ph v v = (Real.exp (-(am.effEnergy v)), 0) := by
    simp only [rho, Density.pi, piArgIm_self, piArgRe_self, piRe1_zero, piIm1_zero, hphs, hamp,
      sumFin_eq, Finset.sum_const_zero, add_zero, transc_exp, transc_cos, transc_sin,
      Real.cos_zero, Real.sin_zero, mul_one, mul_zero, PRBM.neg_effEnergy_eq]
  refine ⟨h1, ?_⟩
  rw [h1]; simp [probability]

/-- **C02.6d** `rho(v, expand=False)` with `vp=None` (= `make_complex(probability(v))`) is the diagonal
element of `rho`. -/
theorem C02_rhoDiag_eq_rho_diag (am ph : PRBM ℝ n h a) (v : Fin n → ℝ) :
    rhoDiag am v = rho am ph v v := by
  rw [(C02_diagonal am ph v).2]; rfl

/-- the diagonal is itself the partial trace (the guard holds automatically there):
`probability σ 1 = Σ_aux |φ(σ,aux)|²`. -/
theorem C02_probability_eq_partial_trace (am ph : PRBM ℝ n h a) (v : Fin n → ℝ) :
    ((probability am v 1 : ℝ) : ℂ)
      = ∑ aux : Fin a → Bool, purAmp am ph v aux * conj (purAmp am ph v aux) := by
  rw [← C02_rho_eq_partial_trace am ph v v (NZ_self am ph v)]
  unfold rhoC
  rw [(C02_diagonal am ph v).2]
  apply Complex.ext <;> simp

/-- `|φ(σ,aux)|² = exp(−E_λ(σ,aux))`, the un-traced effective energy `effective_energy(v, a)` of the
amplitude network: the unnormalised probability is the auxiliary marginal
`probability σ 1 = Σ_aux exp(−E_λ(σ,aux))` of the distribution the Gibbs sampler targets. -/
theorem C02_probability_eq_aux_marginal (am : PRBM ℝ n h a) (v : Fin n → ℝ) :
    probability am v 1 = ∑ aux : Fin a → Bool, Real.exp (-(am.effEnergyAux v (fun k => bit (aux k)))) := by
  have hE : ∀ aux : Fin a → Bool,
      -(am.effEnergyAux v (fun k => bit (aux k))) = logWeight am v aux := by
    intro aux
    rw [logWeight_eq]
    simp only [PRBM.effEnergyAux, neg_neg, dot_eq, sumFin_eq, PRBM.preactA_eq]
    rw [add_assoc, ← Finset.sum_add_distrib]
    congr 1
    refine Finset.sum_congr rfl (fun k _ => ?_)
    simp only [bit]
    split_ifs
    · rw [← Finset.sum_mul]; ring
    · simp
  have h := C02_probability_eq_partial_trace am am v
  simp_rw [purAmp_mul_conj] at h
  have h2 : ∀ aux : Fin a → Bool,
      Complex.exp ((((logWeight am v aux + logWeight am v aux) / 2 : ℝ) : ℂ)
          + (((logWeight am v aux - logWeight am v aux) / 2 : ℝ) : ℂ) * I)
        = ((Real.exp (logWeight am v aux) : ℝ) : ℂ) := by
    intro aux
    rw [sub_self, zero_div, Complex.ofReal_zero, zero_mul, add_zero, Complex.ofReal_exp]
    congr 2; ring
  simp_rw [h2, ← Complex.ofReal_sum] at h
  simp_rw [hE]
  exact_mod_cast h

/-! ### C02.3 — Hermitian, positive semidefinite -/

/-- Hermiticity entry by entry, for all real visible vectors and WITHOUT the guard:
`rho v' v = conj (rho v v')`. -/
theorem C02_hermitian_entry (am ph : PRBM ℝ n h a) (v vp : Fin n → ℝ) :
    rhoC am ph vp v = conj (rhoC am ph v vp) := by
  have hx : ∀ k, piArgRe am vp v k = piArgRe am v vp k := by
    intro k; simp only [piArgRe]; ring
  have hy : ∀ k, piArgIm ph vp v k = -(piArgIm ph v vp k) := by
    intro k; simp only [piArgIm, two_eq]; ring
  have hgp : am.gamma 1 vp v = am.gamma 1 v vp := by rw [PRBM.gamma_eq, PRBM.gamma_eq]; ring
  have hgm : ph.gamma (-1) vp v = -(ph.gamma (-1) v vp) := by
    rw [PRBM.gamma_eq, PRBM.gamma_eq]; ring
  have hre : ∀ x y : ℝ, piRe1 x (-y) = piRe1 x y := by
    intro x y; simp [piRe1]
  -- e^{i·Im Π_k} is conjugated when y changes sign (also when arg = π, and at z = 0)
  have him : ∀ x y : ℝ, Complex.exp (((piIm1 x (-y) : ℝ) : ℂ) * I)
      = conj (Complex.exp (((piIm1 x y : ℝ) : ℂ) * I)) := by
    intro x y
    have hz : (1 : ℂ) + Complex.exp ((x : ℂ) + ((-y : ℝ) : ℂ) * I)
        = conj ((1 : ℂ) + Complex.exp ((x : ℂ) + (y : ℂ) * I)) := by
      rw [map_add, map_one, ← Complex.exp_conj]
      simp
    rw [piIm1_eq, piIm1_eq, hz, Complex.arg_conj, ← Complex.exp_conj]
    split_ifs with hpi
    · rw [hpi]
      simp [Complex.exp_pi_mul_I, Complex.exp_neg]
    · simp
  unfold rhoC
  simp only [rho, Density.pi, transc_exp, transc_cos, transc_sin, sumFin_eq]
  rw [polar_mk, polar_mk]
  simp only [hx, hy, hgp, hgm, hre]
  rw [← Complex.exp_conj]
  -- split off the phase factor
  have split : ∀ (r θ : ℝ), Complex.exp ((r : ℂ) + (θ : ℂ) * I)
      = Complex.exp (r : ℂ) * Complex.exp ((θ : ℂ) * I) := fun r θ => Complex.exp_add _ _
  rw [Complex.exp_conj, split, split, map_mul]
  congr 1
  · rw [← Complex.ofReal_exp, Complex.conj_ofReal]
  · push_cast
    rw [add_mul, add_mul, Complex.exp_add, Complex.exp_add, map_mul, Finset.sum_mul, Finset.sum_mul,
      Complex.exp_sum, Complex.exp_sum, map_prod]
    congr 1
    · rw [← Complex.exp_conj]; simp
    · exact Finset.prod_congr rfl (fun k _ => him _ _)

theorem rhoFullC_eq_submatrix (am ph : PRBM ℝ n h a) :
    rhoFullC am ph = (rhoMat am ph).submatrix (rowEquiv n) (rowEquiv n) := rfl

/-- under the guard the density matrix factors through the purified state: `R = B · Bᴴ` -/
theorem rhoMat_eq_mul_conjTranspose (am ph : PRBM ℝ n h a)
    (hz : ∀ σ τ : Fin n → Bool, NZ am ph (bits σ) (bits τ)) :
    rhoMat am ph = purMat am ph * (purMat am ph).conjTranspose := by
  ext σ τ
  rw [Matrix.mul_apply]
  simp only [rhoMat, purMat, Matrix.conjTranspose_apply]
  exact C02_rho_eq_partial_trace am ph _ _ (hz σ τ)

/-- **C02.3a** the matrix `rho(space, space)` over the generated Hilbert space is Hermitian
(for all parameters, no guard). -/
theorem C02_hermitian (am ph : PRBM ℝ n h a) : (rhoFullC am ph).IsHermitian := by
  ext k l
  rw [Matrix.conjTranspose_apply]
  change conj (rhoC am ph (spaceRow n l.val) (spaceRow n k.val))
    = rhoC am ph (spaceRow n k.val) (spaceRow n l.val)
  exact (C02_hermitian_entry am ph _ _).symm

/-- **C02.3b** the matrix `rho(space, space)` over the generated Hilbert space is positive
semidefinite whenever the guard holds for all pairs of basis states. -/
theorem C02_posSemidef (am ph : PRBM ℝ n h a)
    (hz : ∀ σ τ : Fin n → Bool, NZ am ph (bits σ) (bits τ)) :
    (rhoFullC am ph).PosSemidef := by
  rw [rhoFullC_eq_submatrix, rhoMat_eq_mul_conjTranspose am ph hz]
  exact (Matrix.posSemidef_self_mul_conjTranspose _).submatrix _

/-- **C02.3c** in particular for every parameter setting with `Σ_j |U_μ k j| < 2π` per auxiliary unit. -/
theorem C02_posSemidef_of_phase_weights_small (am ph : PRBM ℝ n h a)
    (hU : ∀ k, ∑ j, |ph.U k j| < 2 * Real.pi) : (rhoFullC am ph).PosSemidef :=
  C02_posSemidef am ph (C02_NZ_of_phase_weights_small am ph hU)

/-- **C02.3d** (audit item C02-1) positive semidefinite under a condition on the amplitude network's auxiliary
pre-activations only: no pair of basis states with `x_k = 0`. No restriction on the phase network. -/
theorem C02_posSemidef_of_x_ne_zero (am ph : PRBM ℝ n h a)
    (hx : ∀ (k : Fin a) (σ τ : Fin n → Bool), piArgRe am (bits σ) (bits τ) k ≠ 0) :
    (rhoFullC am ph).PosSemidef :=
  C02_posSemidef am ph (fun σ τ => C02_NZ_of_x_ne_zero am ph _ _ (fun k => hx k σ τ))

/-- **C02.3e** … and on the parameters: off the hyperplanes `Σ_j U_λ[k,j] (σ_j + τ_j) + 2 d_λ[k] = 0`. -/
theorem C02_posSemidef_of_amp_off_hyperplanes (am ph : PRBM ℝ n h a)
    (hU : ∀ (k : Fin a) (σ τ : Fin n → Bool),
      ∑ j, am.U k j * (bits σ j + bits τ j) + 2 * am.d k ≠ 0) :
    (rhoFullC am ph).PosSemidef :=
  C02_posSemidef am ph (C02_NZ_of_amp_off_hyperplanes am ph hU)

/-- **C02.2c** the partial-trace identity for every pair of basis states under the same parameter condition. -/
theorem C02_rho_eq_partial_trace_of_amp_off_hyperplanes (am ph : PRBM ℝ n h a)
    (hU : ∀ (k : Fin a) (σ τ : Fin n → Bool),
      ∑ j, am.U k j * (bits σ j + bits τ j) + 2 * am.d k ≠ 0) (σ τ : Fin n → Bool) :
    rhoC am ph (bits σ) (bits τ)
      = ∑ aux : Fin a → Bool, purAmp am ph (bits σ) aux * conj (purAmp am ph (bits τ) aux) :=
  C02_rho_eq_partial_trace am ph _ _ (C02_NZ_of_amp_off_hyperplanes am ph hU σ τ)

/-! ### C02.5 — the trace -/

/-- **C02.5** (no guard) the real parts of the diagonal of `rho(space, space)` sum to the reported
normalisation `rbm_am.partition(space)` (model's stable log-sum-exp), the imaginary parts vanish. -/
theorem C02_trace (am ph : PRBM ℝ n h a) :
    ∑ k : Fin (2 ^ n), (rhoFull am ph k k).1
        = normalization am (fun k : Fin (2 ^ n) => (spaceRow n k.val : Fin n → ℝ))
      ∧ ∀ k : Fin (2 ^ n), (rhoFull am ph k k).2 = 0 := by
  constructor
  · simp only [normalization, PRBM.partition, transc_exp]
    rw [exp_logSumExp _ _ (Nat.pos_of_ne_zero (by positivity))]
    refine Finset.sum_congr rfl (fun k _ => ?_)
    simp only [rhoFull, rhoMatrix]
    rw [(C02_diagonal am ph _).1]
  · intro k
    simp only [rhoFull, rhoMatrix]
    rw [(C02_diagonal am ph _).1]

/-- the trace of the complex matrix is the (real) normalisation -/
theorem C02_trace_matrix (am ph : PRBM ℝ n h a) :
    (rhoFullC am ph).trace
      = ((normalization am (fun k : Fin (2 ^ n) => (spaceRow n k.val : Fin n → ℝ)) : ℝ) : ℂ) := by
  rw [← (C02_trace am ph).1, Matrix.trace]
  push_cast
  refine Finset.sum_congr rfl (fun k _ => ?_)
  simp only [Matrix.diag_apply, rhoFullC]
  apply Complex.ext
  · simp
  · simp [(C02_trace am ph).2 k]

/-- the normalisation is the sum over ALL bit-vectors of the unnormalised probabilities -/
theorem C02_normalization (am : PRBM ℝ n h a) :
    normalization am (fun k : Fin (2 ^ n) => (spaceRow n k.val : Fin n → ℝ))
      = ∑ σ : Fin n → Bool, probability am (bits σ) 1 := by
  simp only [normalization, PRBM.partition, transc_exp]
  rw [exp_logSumExp _ _ (Nat.pos_of_ne_zero (by positivity))]
  rw [← sum_rows n (fun σ => probability am (bits σ) 1)]
  refine Finset.sum_congr rfl (fun k _ => ?_)
  simp only [probability, transc_exp, div_one]
  rfl

theorem C02_normalization_pos (am : PRBM ℝ n h a) :
    0 < normalization am (fun k : Fin (2 ^ n) => (spaceRow n k.val : Fin n → ℝ)) := by
  simp only [normalization, PRBM.partition, transc_exp]
  exact Real.exp_pos _

/-- with `Z = normalization` the diagonal of `rho/Z` sums to one (unit trace) -/
theorem C02_unit_trace (am : PRBM ℝ n h a) :
    ∑ σ : Fin n → Bool, probability am (bits σ)
        (normalization am (fun k : Fin (2 ^ n) => (spaceRow n k.val : Fin n → ℝ))) = 1 := by
  have hZ := C02_normalization_pos am
  have h1 : ∀ σ : Fin n → Bool, probability am (bits σ)
        (normalization am (fun k : Fin (2 ^ n) => (spaceRow n k.val : Fin n → ℝ)))
      = probability am (bits σ) 1
        / (normalization am (fun k : Fin (2 ^ n) => (spaceRow n k.val : Fin n → ℝ))) := by
    intro σ; simp [probability]
  simp_rw [h1]
  rw [← Finset.sum_div, ← C02_normalization, div_self hZ.ne']

/-! ### C02.4s — the diagonal is the distribution the state SAMPLES FROM -/

/-- **C02.4s** "its diagonal equals the unnormalised probabilities the model reports AND SAMPLES FROM":
for every number of passes `k` and every `Z` (in particular `Z` = the trace), the diagonal of `rho`
divided by `Z` is stationary for the law of the sampler `PurificationRBM.gibbs_steps` — the program
`PRBM.gibbsSteps` that the harness replays against the real `DensityMatrix.sample` on scripted draws:
`Σ_v (rho v v).1 / Z · law (gibbsSteps k v) w = (rho w w).1 / Z`, and the `k`-pass law is reversible
with respect to it. -/
theorem C02_diagonal_sampled (am ph : PRBM ℝ n h a) (Z : ℝ) (k : ℕ) (v w : Fin n → Bool) :
    ∑ u : Fin n → Bool, (rho am ph (bits u) (bits u)).1 / Z * (am.gibbsSteps k u).law w
        = (rho am ph (bits w) (bits w)).1 / Z
    ∧ (rho am ph (bits v) (bits v)).1 / Z * (am.gibbsSteps k v).law w
        = (rho am ph (bits w) (bits w)).1 / Z * (am.gibbsSteps k w).law v := by
  have hd : ∀ u : Fin n → Bool, (rho am ph (bits u) (bits u)).1 / Z = C05.prbmPi am Z u := by
    intro u
    rw [(C02_diagonal am ph (bits u)).2]
    have hb : (bits u : Fin n → ℝ) = bvec u := rfl
    simp [C05.prbmPi, probability, hb]
  simp only [hd]
  refine ⟨?_, ?_⟩
  · simpa [Matrix.vecMul, dotProduct, C05.C05_k_step_law_purif] using
      congrFun (C05.C05_invariant_k_purif am Z k) w
  · simp only [C05.C05_k_step_law_purif]
    exact detailed_balance_pow _ _ (C05.C05_detailed_balance_purif am Z) k v w

/-! ### C02.6 — call forms -/

/-- **C02.6** the three call forms (and the `vp=None` short-cut) return the same elements:
`expand=True` entry `[i,j]` is `rho v_i v'_j`, `expand=False` entry `[i]` is `rho v_i v'_i` (the diagonal of
the `expand=True` matrix), the 1-D form (which runs `gamma`'s separate 1-D branch) is `rho v v'`, and
`rho(v, expand=False)` alone is `rho v_i v_i`. -/
theorem C02_call_forms (am ph : PRBM ℝ n h a) {B B' : ℕ} (vs vs' : Fin B → Fin n → ℝ)
    (ws : Fin B' → Fin n → ℝ) :
    (∀ i j, rhoMatrix am ph vs ws i j = rho am ph (vs i) (ws j))
      ∧ (∀ i, rhoPaired am ph vs vs' i = rhoMatrix am ph vs vs' i i)
      ∧ (∀ v vp : Fin n → ℝ, rhoVec am ph v vp = rho am ph v vp)
      ∧ (∀ i, rhoDiagBatch am vs i = rhoPaired am ph vs vs i) := by
  refine ⟨fun _ _ => rfl, fun _ => rfl, fun v vp => ?_, fun i => ?_⟩
  · simp only [rhoVec, rho, PRBM.gammaVec_eq_gamma]
  · exact C02_rhoDiag_eq_rho_diag am ph (vs i)

/-- **C02.6e** the call forms for the OBJECT passed as `expand` (documented as `bool`; `1` / `0`, `numpy.bool_` values, 0-dim bool
arrays / tensors are what callers also pass).  `rho` hands the same object to `pi`, `gamma(+1)` and `gamma(-1)`, each of which tests
its truth value, and takes the `vp=None` short-cut only for the singleton `False`; for EVERY object the result is defined (the three
factors agree on the layout) and is the full matrix `[i,j] ↦ rho v_i v'_j` exactly when the object is truthy, the paired vector
`[i] ↦ rho v_i v'_i` otherwise (with `v' = v` when `vp=None`).  (In the model of a slip that tests `expand is True` inside `gamma`
only, `rhoFlagged … (PyFlag.npBool true) …` is `none`: a vector broadcast against a matrix.) -/
theorem C02_expand_flag (am ph : PRBM ℝ n h a) (expand : PyFlag) {B : ℕ} (vs : Fin B → Fin n → ℝ)
    (vps : Option (Fin B → Fin n → ℝ)) :
    rhoFlagged am ph expand vs vps
        = some (if expand.truthy then RhoOut.matrix (fun i j => rho am ph (vs i) ((vps.getD vs) j))
                else RhoOut.vector (fun i => rho am ph (vs i) ((vps.getD vs) i)))
      ∧ gammaForm expand = (if expand.truthy then CallForm.matrix else CallForm.paired)
      ∧ piForm expand = gammaForm expand := by
  refine ⟨?_, rfl, rfl⟩
  unfold rhoFlagged rhoForm piForm gammaForm
  by_cases hF : expand.isFalseSingleton = true
  · have ht := PyFlag.not_truthy_of_isFalseSingleton hF
    cases vps with
    | none =>
      simp only [hF, ht, Option.isNone_none, Bool.and_self, if_true, Bool.false_eq_true, if_false, Option.getD_none]
      congr 2
      funext i
      exact C02_rhoDiag_eq_rho_diag am ph (vs i)
    | some ws => simp [ht]; rfl
  · cases ht : expand.truthy <;> simp [hF] <;> rfl

/-- **C02.6f** … and therefore, whatever object is passed, every returned element is the partial trace over the auxiliary units
of the purified state (under the guard of `C02_rho_eq_partial_trace`). -/
theorem C02_expand_flag_partial_trace (am ph : PRBM ℝ n h a) (expand : PyFlag) {B : ℕ} (vs : Fin B → Fin n → ℝ)
    (vps : Option (Fin B → Fin n → ℝ)) (hz : ∀ i j, NZ am ph (vs i) ((vps.getD vs) j)) :
    (expand.truthy = true → ∃ m, rhoFlagged am ph expand vs vps = some (.matrix m) ∧
        ∀ i j, (⟨(m i j).1, (m i j).2⟩ : ℂ)
          = ∑ aux : Fin a → Bool, purAmp am ph (vs i) aux * conj (purAmp am ph ((vps.getD vs) j) aux))
    ∧ (expand.truthy = false → ∃ p, rhoFlagged am ph expand vs vps = some (.vector p) ∧
        ∀ i, (⟨(p i).1, (p i).2⟩ : ℂ)
          = ∑ aux : Fin a → Bool, purAmp am ph (vs i) aux * conj (purAmp am ph ((vps.getD vs) i) aux)) := by
  have hf := (C02_expand_flag am ph expand vs vps).1
  refine ⟨fun ht => ?_, fun ht => ?_⟩
  · rw [ht] at hf
    exact ⟨_, hf, fun i j => C02_rho_eq_partial_trace am ph (vs i) ((vps.getD vs) j) (hz i j)⟩
  · rw [ht] at hf
    exact ⟨_, hf, fun i => C02_rho_eq_partial_trace am ph (vs i) ((vps.getD vs) i) (hz i i)⟩

/-! ### Non-vacuity -/

/-- A concrete mixed-state model (`n = 2`, `h = 3`, `a = 2`; every weight and bias of both networks
non-zero, including `d_μ`) satisfies the guard for all pairs of basis states (`Σ_j |U_μ k j| = 3/2 < 2π`), so
its density matrix is positive semidefinite by `C02_posSemidef`. -/
example :
    let am : PRBM ℝ 2 3 2 := ⟨fun i j => (i.val : ℝ) - j.val + 0.5, fun k j => (k.val : ℝ) + j.val - 2.5,
      fun j => if j = 0 then -1.5 else 2, fun i => if i = 0 then 0.7 else -0.3, fun k => if k = 0 then 1.2 else -0.4⟩
    let ph : PRBM ℝ 2 3 2 := ⟨fun i j => 0.3 * (i.val : ℝ) - j.val + 0.25, fun k j => if k.val = j.val then 1 else -0.5,
      fun j => if j = 0 then 0.5 else -1, fun i => if i = 0 then -0.2 else 0.9, fun _ => 0.8⟩
    (rhoFullC am ph).PosSemidef ∧ (rhoFullC am ph).IsHermitian := by
  intro am ph
  refine ⟨C02_posSemidef_of_phase_weights_small am ph (fun k => ?_), C02_hermitian am ph⟩
  have hpi := Real.two_le_pi
  fin_cases k <;> simp [ph, Fin.sum_univ_two] <;> norm_num <;> linarith

/-- non-vacuity of `C02_posSemidef_of_amp_off_hyperplanes` in the quantifier's magnitude-30 regime: amplitude
auxiliary weights all 30 and biases 7.3 (every `x_k ≥ 7.3 > 0`), the PHASE network completely arbitrary
(e.g. weights of magnitude 30, where `Σ_j |U_μ k j| < 2π` fails): positive semidefinite for every architecture. -/
example (am ph : PRBM ℝ n h a) (hU : ∀ k j, am.U k j = 30) (hd : ∀ k, am.d k = 7.3) :
    (rhoFullC am ph).PosSemidef := by
  apply C02_posSemidef_of_amp_off_hyperplanes
  intro k σ τ
  have h0 : 0 ≤ ∑ j, am.U k j * (bits σ j + bits τ j) := by
    apply Finset.sum_nonneg
    intro j _
    rw [hU]
    have h1 : (0 : ℝ) ≤ bits σ j := by simp only [bits, bit]; split_ifs <;> norm_num
    have h2 : (0 : ℝ) ≤ bits τ j := by simp only [bits, bit]; split_ifs <;> norm_num
    positivity
  rw [hd]
  intro hcon
  linarith

/-- the guard is not vacuous either way: at `x = 0`, `y = π` the excluded point `1 + e^{iπ} = 0` is real. -/
example : (1 : ℂ) + Complex.exp (((0 : ℝ) : ℂ) + ((Real.pi : ℝ) : ℂ) * I) = 0 := by
  simp [Complex.exp_pi_mul_I]


/-! ### Extension round 2: the call forms of `rho` / `pi` / `gamma` AS THE CODE COMPUTES THEM

`Density.rhoCall` / `piCall` / `PRBM.gammaCall` (QV/Model/Density.lean) transcribe the rank tests, `unsqueeze_`s and broadcasting of
density_matrix.py:132-158, 265-274 and purification_rbm.py:375-396 on tensors (`FT`).  That entry `[i, j]` pairs row `i` of `v` with
row `j` of `v'`, that `expand=False` pairs row `i` with row `i`, which rank combinations are refused, and that the separately coded
both-1-D branch of `gamma` computes the same number, are now THEOREMS about those transcriptions (the older `rhoMatrix`, `rhoPaired`,
`rhoVecBatch`, … are the values they are proved equal to).  The complex number of an entry is `Complex.mk re im`. -/

/-- the partial trace over the auxiliary units that `C02_rho_eq_partial_trace` identifies `rho v v'` with -/
noncomputable def ptrace (am ph : PRBM ℝ n h a) (v vp : Fin n → ℝ) : ℂ :=
  ∑ aux : Fin a → Bool, purAmp am ph v aux * conj (purAmp am ph vp aux)

/-- **C02.7a** single element (both arguments 1-D, `expand` ignored; also `rho(v)` alone with `expand=True`): accepted, 0-dim, and the
value is the SAME scalar `rho v v'` as an entry of the batched forms although `gamma` computes it in a separate branch
(`dot(v + sign·v', b) + Σ softplus(W v + c) + sign·Σ softplus(W v' + c)`) — for all `v`, `v'`, in particular `v ≠ v'`, where a second
softplus term evaluated on `v` instead of `v'` would differ.  Hence (guard `NZ`) it is the partial trace. -/
theorem C02_call_forms_single (am ph : PRBM ℝ n h a) (v vp : Fin n → ℝ) (e : Bool) :
    (∃ o, rhoCall am ph (.scalar v) (some (.scalar vp)) e = .ok o ∧ o.shape = [] ∧ o.get [] = rho am ph v vp
        ∧ (NZ am ph v vp → (⟨(o.get []).1, (o.get []).2⟩ : ℂ) = ptrace am ph v vp))
      ∧ (∃ o, rhoCall am ph (.scalar v) none true = .ok o ∧ o.shape = [] ∧ o.get [] = rho am ph v v)
      ∧ (∀ sgn : ℝ, ∀ r : PRBM ℝ n h a, r.gammaCall sgn (.scalar v) (.scalar vp) e = .ok (.scalar (r.gamma sgn v vp)))
      ∧ (∃ p, piCall am ph (.scalar v) (.scalar vp) e = .ok p ∧ p.shape = [] ∧ p.get [] = pi am ph v vp) := by
  have hvec : ∀ w wp : Fin n → ℝ, rhoVec am ph w wp = rho am ph w wp := fun w wp => by
    simp only [rhoVec, rho, PRBM.gammaVec_eq_gamma]
  refine ⟨?_, ?_, fun sgn r => ?_, piCall_vec_vec am ph v vp e⟩
  · obtain ⟨o, ho, hs, hg⟩ := rhoCall_vec_vec am ph v vp e
    refine ⟨o, ho, hs, by rw [hg, hvec], fun hz => ?_⟩
    rw [hg, hvec]
    exact C02_rho_eq_partial_trace am ph v vp hz
  · obtain ⟨o, ho, hs, hg⟩ := rhoCall_vec_none am ph v
    exact ⟨o, ho, hs, by rw [hg, hvec]⟩
  · rw [PRBM.gammaCall_vec_vec, PRBM.gammaVec_eq_gamma]

/-- **C02.7b** full matrix (`expand=True`, `(B, n)` against `(B', n)`, any `B`, `B'` incl. 0 and 1; `vp=None` means `v' = v`): accepted,
shape `(B, B')`, entry `[i, j]` is `rho v_i v'_j` — row index from the FIRST argument — hence the partial trace; the factors `gamma`
and `pi` have the same layout. -/
theorem C02_call_forms_matrix (am ph : PRBM ℝ n h a) (B B' : ℕ) (vs vps : ℕ → Fin n → ℝ) :
    (∃ o, rhoCall am ph (.ofRows B vs) (some (.ofRows B' vps)) true = .ok o ∧ o.shape = [B, B']
        ∧ ∀ i j, i < B → j < B' → o.get [i, j] = rho am ph (vs i) (vps j)
          ∧ (NZ am ph (vs i) (vps j) → (⟨(o.get [i, j]).1, (o.get [i, j]).2⟩ : ℂ) = ptrace am ph (vs i) (vps j)))
      ∧ (∃ o, rhoCall am ph (.ofRows B vs) none true = .ok o ∧ o.shape = [B, B]
        ∧ ∀ i j, i < B → j < B → o.get [i, j] = rho am ph (vs i) (vs j))
      ∧ (∀ sgn : ℝ, ∀ r : PRBM ℝ n h a, ∃ g, r.gammaCall sgn (.ofRows B vs) (.ofRows B' vps) true = .ok g ∧ g.shape = [B, B']
        ∧ ∀ i j, i < B → j < B' → g.get [i, j] = r.gamma sgn (vs i) (vps j))
      ∧ (∃ p, piCall am ph (.ofRows B vs) (.ofRows B' vps) true = .ok p ∧ p.shape = [B, B']
        ∧ ∀ i j, i < B → j < B' → p.get [i, j] = pi am ph (vs i) (vps j)) := by
  refine ⟨?_, rhoCall_matrix_none am ph B vs, fun sgn r => PRBM.gammaCall_matrix r sgn B B' vs vps, piCall_matrix am ph B B' vs vps⟩
  obtain ⟨o, ho, hs, hg⟩ := rhoCall_matrix am ph B B' vs vps
  refine ⟨o, ho, hs, fun i j hi hj => ⟨hg i j hi hj, fun hz => ?_⟩⟩
  rw [hg i j hi hj]
  exact C02_rho_eq_partial_trace am ph _ _ hz

/-- **C02.7c** paired vector (`expand=False`, both arguments batches): accepted EXACTLY when the batch sizes are equal or one of them
is 1 (`pairedBatch`: torch broadcasting of `(B,)` with `(B',)`), refused otherwise; entry `[i]` is `rho v_i v'_i`, a single row being
paired with every row of the other batch; with `vp=None` the call returns `make_complex(probability(v))`, which is that diagonal. -/
theorem C02_call_forms_paired (am ph : PRBM ℝ n h a) (B B' : ℕ) (vs vps : ℕ → Fin n → ℝ) :
    ((∃ o, rhoCall am ph (.ofRows B vs) (some (.ofRows B' vps)) false = .ok o) ↔ (B = B' ∨ B = 1 ∨ B' = 1))
      ∧ (∀ C, pairedBatch B B' = .ok C →
          ∃ o, rhoCall am ph (.ofRows B vs) (some (.ofRows B' vps)) false = .ok o ∧ o.shape = [C]
            ∧ ∀ i, i < C → o.get [i] = rho am ph (vs (if B = 1 then 0 else i)) (vps (if B' = 1 then 0 else i)))
      ∧ (∃ o, rhoCall am ph (.ofRows B vs) (some (.ofRows B vps)) false = .ok o ∧ o.shape = [B]
          ∧ ∀ i, i < B → o.get [i] = rho am ph (vs i) (vps i)
            ∧ (NZ am ph (vs i) (vps i) → (⟨(o.get [i]).1, (o.get [i]).2⟩ : ℂ) = ptrace am ph (vs i) (vps i)))
      ∧ (∃ o, rhoCall am ph (.ofRows B vs) none false = .ok o ∧ o.shape = [B]
          ∧ ∀ i, i < B → o.get [i] = rho am ph (vs i) (vs i)) := by
  have hp := rhoCall_paired am ph B B' vs vps
  refine ⟨?_, ?_, ?_, ?_⟩
  · constructor
    · rintro ⟨o, ho⟩
      by_contra hne
      simp only [not_or] at hne
      have : pairedBatch B B' = .error .RuntimeError := by simp [pairedBatch, hne.1, hne.2.1, hne.2.2]
      rw [this] at hp
      obtain ⟨e, he⟩ := hp
      rw [he] at ho
      cases ho
    · intro hc
      have : ∃ C, pairedBatch B B' = .ok C := by
        unfold pairedBatch
        rcases hc with h | h | h
        · exact ⟨B, by simp [h]⟩
        · by_cases h1 : B = B'
          · exact ⟨B, by simp [h1]⟩
          · exact ⟨B', by rw [if_neg h1, if_pos h]⟩
        · by_cases h1 : B = B'
          · exact ⟨B, by simp [h1]⟩
          · by_cases h2 : B = 1
            · exact ⟨B', by rw [if_neg h1, if_pos h2]⟩
            · exact ⟨B, by rw [if_neg h1, if_neg h2, if_pos h]⟩
      obtain ⟨C, hC⟩ := this
      rw [hC] at hp
      obtain ⟨o, ho, _⟩ := hp
      exact ⟨o, ho⟩
  · intro C hC
    rw [hC] at hp
    exact hp
  · have hq := rhoCall_paired am ph B B vs vps
    have hC : pairedBatch B B = .ok B := by simp [pairedBatch]
    rw [hC] at hq
    obtain ⟨o, ho, hs, hg⟩ := hq
    have hrow : ∀ i, i < B → o.get [i] = rho am ph (vs i) (vps i) := fun i hi => by
      rw [hg i hi, bsel_lt hi]
    refine ⟨o, ho, hs, fun i hi => ⟨hrow i hi, fun hz => ?_⟩⟩
    rw [hrow i hi]
    exact C02_rho_eq_partial_trace am ph _ _ hz
  · refine ⟨_, rhoCall_diag am ph _, rfl, fun i _ => ?_⟩
    simpa [FT.map, FT.ofRows] using C02_rhoDiag_eq_rho_diag am ph (vs i)

/-- **C02.7d** mixed ranks, exactly as the code has them: a 1-D `v` against a batch is REFUSED with `expand=True` (`gamma`'s
`temp1.unsqueeze_(1)` on a 0-dim tensor — although `pi` alone accepts the form, `piCall_vec_batch_expand`) and gives the `(B',)` vector
`rho v v'_j` with `expand=False`; a batch against a 1-D `v'` gives the `(B, 1)` column (`expand=True`) resp. the `(B,)` vector
(`expand=False`) of `rho v_i v'`; in every accepted form the shape is the one `rhoRankOutcome` tabulates. -/
theorem C02_call_forms_mixed (am ph : PRBM ℝ n h a) (v : Fin n → ℝ) (B : ℕ) (vs : ℕ → Fin n → ℝ) :
    (∃ e, rhoCall am ph (.scalar v) (some (.ofRows B vs)) true = .error e)
      ∧ (∃ o, rhoCall am ph (.scalar v) (some (.ofRows B vs)) false = .ok o ∧ o.shape = [B]
          ∧ ∀ j (hj : j < B), o.get [j] = rhoVecBatch am ph v (fun k : Fin B => vs k) ⟨j, hj⟩ ∧ o.get [j] = rho am ph v (vs j))
      ∧ (∃ o, rhoCall am ph (.ofRows B vs) (some (.scalar v)) true = .ok o ∧ o.shape = [B, 1]
          ∧ ∀ i, i < B → o.get [i, 0] = rho am ph (vs i) v)
      ∧ (∃ o, rhoCall am ph (.ofRows B vs) (some (.scalar v)) false = .ok o ∧ o.shape = [B]
          ∧ ∀ i (hi : i < B), o.get [i] = rhoBatchVec am ph (fun k : Fin B => vs k) v ⟨i, hi⟩ ∧ o.get [i] = rho am ph (vs i) v)
      ∧ rhoRankOutcome .vec (.batch B) true = .error .IndexError
      ∧ rhoRankOutcome .vec (.batch B) false = .ok [B]
      ∧ rhoRankOutcome (.batch B) .vec true = .ok [B, 1]
      ∧ rhoRankOutcome (.batch B) .vec false = .ok [B] := by
  refine ⟨rhoCall_vec_batch_expand am ph v B vs, ?_, rhoCall_batch_vec_expand am ph B vs v, ?_, rfl, rfl, rfl, rfl⟩
  · obtain ⟨o, ho, hs, hg⟩ := rhoCall_vec_batch am ph v B vs
    exact ⟨o, ho, hs, fun j hj => ⟨hg j hj, hg j hj⟩⟩
  · obtain ⟨o, ho, hs, hg⟩ := rhoCall_batch_vec am ph B vs v
    exact ⟨o, ho, hs, fun i hi => ⟨hg i hi, hg i hi⟩⟩

/-- **C02.7e** the shape / refusal table `rhoRankOutcome` (and `rhoOutcome` for double arguments) IS the shape / refusal of the
transcribed code for every rank combination of vectors and batches and both values of `expand` (`none` = refused). -/
theorem C02_call_forms_outcome (am ph : PRBM ℝ n h a) (v vp : Fin n → ℝ) (B B' : ℕ) (vs vps : ℕ → Fin n → ℝ) (expand : Bool) :
    let sh := fun (r : Except PyErr (FT (CPair ℝ))) => r.toOption.map FT.shape
    sh (rhoCall am ph (.scalar v) (some (.scalar vp)) expand) = (rhoRankOutcome .vec .vec expand).toOption
      ∧ sh (rhoCall am ph (.ofRows B vs) (some (.ofRows B' vps)) expand) = (rhoRankOutcome (.batch B) (.batch B') expand).toOption
      ∧ sh (rhoCall am ph (.scalar v) (some (.ofRows B' vps)) expand) = (rhoRankOutcome .vec (.batch B') expand).toOption
      ∧ sh (rhoCall am ph (.ofRows B vs) (some (.scalar vp)) expand) = (rhoRankOutcome (.batch B) .vec expand).toOption
      ∧ rhoOutcome (.batch B) (some (.batch B')) expand .double = rhoRankOutcome (.batch B) (.batch B') expand := by
  intro sh
  refine ⟨?_, ?_, ?_, ?_, by cases expand <;> rfl⟩
  · obtain ⟨o, ho, hs, _⟩ := rhoCall_vec_vec am ph v vp expand
    simp [sh, ho, hs, rhoRankOutcome, Except.toOption]
  · cases expand
    · have hp := rhoCall_paired am ph B B' vs vps
      rcases hC : pairedBatch B B' with e | C
      · rw [hC] at hp
        obtain ⟨e', he'⟩ := hp
        simp [sh, he', rhoRankOutcome, hC, Except.toOption]
      · rw [hC] at hp
        obtain ⟨o, ho, hs, _⟩ := hp
        simp [sh, ho, hs, rhoRankOutcome, hC, Except.toOption]
    · obtain ⟨o, ho, hs, _⟩ := rhoCall_matrix am ph B B' vs vps
      simp [sh, ho, hs, rhoRankOutcome, Except.toOption]
  · cases expand
    · obtain ⟨o, ho, hs, _⟩ := rhoCall_vec_batch am ph v B' vps
      simp [sh, ho, hs, rhoRankOutcome, Except.toOption]
    · obtain ⟨e, he⟩ := rhoCall_vec_batch_expand am ph v B' vps
      simp [sh, he, rhoRankOutcome, Except.toOption]
  · cases expand
    · obtain ⟨o, ho, hs, _⟩ := rhoCall_batch_vec am ph B vs vp
      simp [sh, ho, hs, rhoRankOutcome, Except.toOption]
    · obtain ⟨o, ho, hs, _⟩ := rhoCall_batch_vec_expand am ph B vs vp
      simp [sh, ho, hs, rhoRankOutcome, Except.toOption]

/-- **C02.7f** the pointwise definitions the driver op `c02.eval` has executed since round 1 (`gammaMatrix`, `gammaPaired`, `piMatrix`,
`piPaired`, `rhoMatrix`, `rhoPaired`) are the entries of the transcribed code on the same batches: `[i, j]` of the `expand=True` call
resp. `[i]` of the `expand=False` call on equal batch sizes — for `gamma` (any sign, any network), `pi` and `rho`. -/
theorem C02_call_forms_pointwise_defs (am ph : PRBM ℝ n h a) (sgn : ℝ) (B B' : ℕ) (vs vs' : Fin B → Fin n → ℝ) (ws : Fin B' → Fin n → ℝ)
    (ext : ∀ {C : ℕ}, (Fin C → Fin n → ℝ) → ℕ → Fin n → ℝ)
    (hext : ∀ {C : ℕ} (f : Fin C → Fin n → ℝ) (i : Fin C), ext f i.val = f i) :
    (∃ g, am.gammaCall sgn (.ofRows B (ext vs)) (.ofRows B' (ext ws)) true = .ok g ∧ g.shape = [B, B']
        ∧ ∀ (i : Fin B) (j : Fin B'), g.get [i.val, j.val] = am.gammaMatrix sgn vs ws i j)
      ∧ (∃ g, am.gammaCall sgn (.ofRows B (ext vs)) (.ofRows B (ext vs')) false = .ok g ∧ g.shape = [B]
        ∧ ∀ i : Fin B, g.get [i.val] = am.gammaPaired sgn vs vs' i)
      ∧ (∃ p, piCall am ph (.ofRows B (ext vs)) (.ofRows B' (ext ws)) true = .ok p ∧ p.shape = [B, B']
        ∧ ∀ (i : Fin B) (j : Fin B'), p.get [i.val, j.val] = piMatrix am ph vs ws i j)
      ∧ (∃ p, piCall am ph (.ofRows B (ext vs)) (.ofRows B (ext vs')) false = .ok p ∧ p.shape = [B]
        ∧ ∀ i : Fin B, p.get [i.val] = piPaired am ph vs vs' i)
      ∧ (∃ o, rhoCall am ph (.ofRows B (ext vs)) (some (.ofRows B' (ext ws))) true = .ok o ∧ o.shape = [B, B']
        ∧ ∀ (i : Fin B) (j : Fin B'), o.get [i.val, j.val] = rhoMatrix am ph vs ws i j)
      ∧ (∃ o, rhoCall am ph (.ofRows B (ext vs)) (some (.ofRows B (ext vs'))) false = .ok o ∧ o.shape = [B]
        ∧ ∀ i : Fin B, o.get [i.val] = rhoPaired am ph vs vs' i) := by
  have hBB : pairedBatch B B = .ok B := by simp [pairedBatch]
  refine ⟨?_, ?_, ?_, ?_, ?_, ?_⟩
  · obtain ⟨g, hg, hs, he⟩ := PRBM.gammaCall_matrix am sgn B B' (ext vs) (ext ws)
    exact ⟨g, hg, hs, fun i j => by rw [he i.val j.val i.isLt j.isLt, hext, hext]; rfl⟩
  · have hq := PRBM.gammaCall_paired am sgn B B (ext vs) (ext vs')
    rw [hBB] at hq
    obtain ⟨g, hg, hs, he⟩ := hq
    exact ⟨g, hg, hs, fun i => by rw [he i.val i.isLt, bsel_lt i.isLt, hext, hext]; rfl⟩
  · obtain ⟨p, hp, hs, he⟩ := piCall_matrix am ph B B' (ext vs) (ext ws)
    exact ⟨p, hp, hs, fun i j => by rw [he i.val j.val i.isLt j.isLt, hext, hext]; rfl⟩
  · have hq := piCall_paired am ph B B (ext vs) (ext vs')
    rw [hBB] at hq
    obtain ⟨p, hp, hs, he⟩ := hq
    exact ⟨p, hp, hs, fun i => by rw [he i.val i.isLt, bsel_lt i.isLt, hext, hext]; rfl⟩
  · obtain ⟨o, ho, hs, he⟩ := rhoCall_matrix am ph B B' (ext vs) (ext ws)
    exact ⟨o, ho, hs, fun i j => by rw [he i.val j.val i.isLt j.isLt, hext, hext]; rfl⟩
  · have hq := rhoCall_paired am ph B B (ext vs) (ext vs')
    rw [hBB] at hq
    obtain ⟨o, ho, hs, he⟩ := hq
    exact ⟨o, ho, hs, fun i => by rw [he i.val i.isLt, bsel_lt i.isLt, hext, hext]; rfl⟩

/-- the extension hypothesis of `C02_call_forms_pointwise_defs` is satisfiable: rows beyond the batch are arbitrary (zero here) -/
example : ∃ ext : ∀ {C : ℕ}, (Fin C → Fin n → ℝ) → ℕ → Fin n → ℝ, ∀ {C : ℕ} (f : Fin C → Fin n → ℝ) (i : Fin C), ext f i.val = f i :=
  ⟨fun {C} f k => if hk : k < C then f ⟨k, hk⟩ else fun _ => 0, fun f i => by simp [i.isLt]⟩

/-- non-vacuity: a concrete 2-qubit model with all biases non-zero; the single-element form on `v = (1,0) ≠ v' = (0,1)` is entry
`[0, 1]` of the full-matrix form on the batch `[(1,0), (0,1)]` and entry `[0]` of the paired form on `[(1,0)]`, `[(0,1)]`. -/
example :
    let am : PRBM ℝ 2 3 2 := ⟨fun i j => (i.val : ℝ) - j.val + 0.5, fun k j => (k.val : ℝ) + j.val - 2.5,
      fun j => if j = 0 then -1.5 else 2, fun i => if i = 0 then 0.7 else -0.3, fun k => if k = 0 then 1.2 else -0.4⟩
    let ph : PRBM ℝ 2 3 2 := ⟨fun i j => 0.3 * (i.val : ℝ) - j.val + 0.25, fun k j => if k.val = j.val then 1 else -0.5,
      fun j => if j = 0 then 0.5 else -1, fun i => if i = 0 then -0.2 else 0.9, fun _ => 0.8⟩
    let v : Fin 2 → ℝ := fun j => if j = 0 then 1 else 0
    let w : Fin 2 → ℝ := fun j => if j = 0 then 0 else 1
    let rows : ℕ → Fin 2 → ℝ := fun i => if i = 0 then v else w
    ∃ o m, rhoCall am ph (.scalar v) (some (.scalar w)) true = .ok o ∧ rhoCall am ph (.ofRows 2 rows) (some (.ofRows 2 rows)) true = .ok m
      ∧ m.get [0, 1] = o.get [] := by
  intro am ph v w rows
  obtain ⟨o, ho, _, hg, _⟩ := (C02_call_forms_single am ph v w true).1
  obtain ⟨m, hm, _, hmg⟩ := (C02_call_forms_matrix am ph 2 2 rows rows).1
  refine ⟨o, m, ho, hm, ?_⟩
  rw [hg, (hmg 0 1 (by norm_num) (by norm_num)).1]
  simp [rows]

end C02
end QV.Props
