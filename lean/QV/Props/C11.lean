/-
C11 — Saving and reloading reproduces the state exactly and has no side effects.

"Whatever state is saved, loading the file into a compatible model or auto-constructing a model from it
yields bit-identical parameters for every network, the same architecture and the same unitary dictionary
(including user-added unitaries), with the caller's metadata stored alongside and reserved names refused.
Saving changes neither the model nor the metadata object passed in, so the same state and metadata can be
saved any number of times (as the periodic model-saving callback does) with equivalent results."

Model: QV.Model.Store — heap of tensor / network / dict objects with identities, `save` / `load` / `autoload`
/ `ModelSaver._save` in the code's order, the history machine `step` / `run` over construct / write / train /
reinit / addUnitary / mkMeta / save / saverSave / load / autoload; executed against the real code by the C11
correspondence check.  "Bit-identical" = equal contents tokens (`viewNet`); `torch.save`/`torch.load` are a
map of tokens (trusted).  All theorems: every well-formed heap, every state, every metadata dict, every
history.
-/
import QV.Lemmas.StoreIO
import QV.Props.C20

namespace QV.Props
open QV QV.Store

/-! ### specification vocabulary -/

/-- THE SPECIFICATION of a saved file: the contents of every network of the state (as read through the heap
at the moment of the save), then the caller's metadata entries, then the state's unitary dictionary. -/
def snapshot (h : Heap) (st : NState) (e0 : MDict) : File :=
  st.nets.map (fun p => (MKey.str p.1, FVal.sd (viewNet h p.2))) ++ e0 ++
    (match st.ud with
      | some u => [(MKey.str "unitary_dict", u)]
      | none => [])

/-- a metadata key is reserved: a network name, or `unitary_dict` when the state has a unitary dictionary -/
def Reserved (st : NState) (e0 : MDict) : Prop :=
  (st.ud.isSome ∧ MKey.str "unitary_dict" ∈ keys e0) ∨ ∃ p ∈ st.nets, MKey.str p.1 ∈ keys e0

/-- some metadata key is not a string (`data.update(**metadata)` then raises `TypeError`) -/
def NonStringKey (e0 : MDict) : Prop := ∃ k ∈ keys e0, isStrKey k = false

theorem any_ahas_iff (st : NState) (e : MDict) :
    (st.nets.any fun p => ahas e (MKey.str p.1)) = true ↔ ∃ p ∈ st.nets, MKey.str p.1 ∈ keys e := by
  simp [List.any_eq_true, ahas_iff]

theorem mem_keys_saveMeta (st : NState) (e0 : MDict) (x : MKey) :
    x ∈ keys (saveMeta st e0) ↔ x ∈ keys e0 ∨ (st.ud.isSome ∧ x = MKey.str "unitary_dict") := by
  unfold saveMeta
  cases st.ud with
  | none => simp
  | some u => simp [mem_keys_aset]

/-- the three outcomes of `save` in terms of the declarative conditions -/
theorem save_cases (h : Heap) (fs : Files) (st : NState) (md : Option Nat) (path : Nat)
    (hnm : ∀ p ∈ st.nets, p.1 ≠ "unitary_dict") :
    (Reserved st (mdEntries h md) ∧ save h fs st md path = .error .ValueError) ∨
    (¬ Reserved st (mdEntries h md) ∧ NonStringKey (mdEntries h md) ∧ save h fs st md path = .error .TypeError) ∨
    (¬ Reserved st (mdEntries h md) ∧ ¬ NonStringKey (mdEntries h md) ∧
      save h fs st md path = .ok (upd fs path (savedFile h st (mdEntries h md)), h)) := by
  rw [save_eq]
  by_cases c1 : (st.ud.isSome && ahas (mdEntries h md) (.str "unitary_dict")) = true
  · left
    simp only [Bool.and_eq_true, ahas_iff] at c1
    exact ⟨Or.inl c1, by simp [c1, ahas_iff]⟩
  · have c1' : ¬ (st.ud.isSome ∧ MKey.str "unitary_dict" ∈ keys (mdEntries h md)) := by
      simpa [Bool.and_eq_true, ahas_iff] using c1
    by_cases c2 : (st.nets.any fun p => ahas (saveMeta st (mdEntries h md)) (MKey.str p.1)) = true
    · left
      refine ⟨Or.inr ?_, by simp [c1, c2]⟩
      obtain ⟨p, hp, hk⟩ := (any_ahas_iff st _).1 c2
      rcases (mem_keys_saveMeta st _ _).1 hk with hk | ⟨_, hk⟩
      · exact ⟨p, hp, hk⟩
      · exact absurd (by injection hk) (hnm p hp)
    · have c2' : ¬ ∃ p ∈ st.nets, MKey.str p.1 ∈ keys (mdEntries h md) := by
        rintro ⟨p, hp, hk⟩
        exact c2 ((any_ahas_iff st _).2 ⟨p, hp, (mem_keys_saveMeta st _ _).2 (Or.inl hk)⟩)
      have hres : ¬ Reserved st (mdEntries h md) := by
        rintro (hr | hr)
        · exact c1' hr
        · exact c2' hr
      right
      by_cases c3 : ((saveMeta st (mdEntries h md)).any fun kv => !isStrKey kv.1) = true
      · left
        refine ⟨hres, ?_, by simp [c1, c2, c3]⟩
        simp only [List.any_eq_true, Bool.not_eq_eq_eq_not, Bool.not_true] at c3
        obtain ⟨kv, hkv, hb⟩ := c3
        have hk : kv.1 ∈ keys (saveMeta st (mdEntries h md)) := List.mem_map.2 ⟨kv, hkv, rfl⟩
        rcases (mem_keys_saveMeta st _ _).1 hk with hk | ⟨_, hk⟩
        · exact ⟨kv.1, hk, hb⟩
        · rw [hk] at hb; simp [isStrKey] at hb
      · right
        refine ⟨hres, ?_, by simp [c1, c2, c3]⟩
        rintro ⟨k, hk, hb⟩
        apply c3
        simp only [List.any_eq_true, Bool.not_eq_eq_eq_not, Bool.not_true]
        have hk2 : k ∈ keys (saveMeta st (mdEntries h md)) := (mem_keys_saveMeta st _ _).2 (Or.inl hk)
        obtain ⟨kv, hkv, rfl⟩ := List.mem_map.1 hk2
        exact ⟨kv, hkv, hb⟩

/-- a `save` step either succeeds or leaves the world untouched -/
theorem step_save_fail_or (w : World) (slot : Nat) (md : Option Nat) (path : Nat) :
    (step w (.save slot md path)).2 = none ∨ (step w (.save slot md path)).1 = w := by
  simp only [step]
  split
  · right; rfl
  · split
    · right; rfl
    · split
      · right; rfl
      · left; rfl

theorem step_saverSave_fail_or (w : World) (slot : Nat) (src : SaverSrc) (mo : Bool) (path : Nat) :
    (step w (.saverSave slot src mo path)).2 = none ∨ (step w (.saverSave slot src mo path)).1 = w := by
  simp only [step]
  split
  · right; rfl
  · split
    · right; rfl
    · split
      · right; rfl
      · left; rfl

/-! ### C11.2 — reserved names -/

/-- **C11_reserved.** `save` fails with `ValueError` IFF a metadata key is a network name or — when the state has
a unitary dictionary — `unitary_dict`; it fails at all only for that reason or for a non-string key
(`TypeError`); and a failing `save` (or `ModelSaver._save`) leaves the whole world — every file included — exactly
as it was ("writes nothing"). -/
theorem C11_reserved (h : Heap) (fs : Files) (st : NState) (md : Option Nat) (path : Nat)
    (hnm : ∀ p ∈ st.nets, p.1 ≠ "unitary_dict") :
    (save h fs st md path = .error .ValueError ↔ Reserved st (mdEntries h md)) ∧
    ((∃ e, save h fs st md path = .error e) ↔ Reserved st (mdEntries h md) ∨ NonStringKey (mdEntries h md)) ∧
    (∀ (w : World) (slot : Nat) (mdslot : Option Nat) (src : SaverSrc) (mo : Bool),
        ((step w (.save slot mdslot path)).2 ≠ none → (step w (.save slot mdslot path)).1 = w) ∧
        ((step w (.saverSave slot src mo path)).2 ≠ none → (step w (.saverSave slot src mo path)).1 = w)) := by
  refine ⟨?_, ?_, ?_⟩
  · rcases save_cases h fs st md path hnm with ⟨r, e⟩ | ⟨r, _, e⟩ | ⟨r, _, e⟩
    · simp [e, r]
    · simp [e, r]
    · simp [e, r]
  · rcases save_cases h fs st md path hnm with ⟨r, e⟩ | ⟨r, k, e⟩ | ⟨r, k, e⟩
    · simp [e, r]
    · simp [e, k]
    · simp [e, r, k]
  · intro w slot mdslot src mo
    constructor
    · intro he
      rcases step_save_fail_or w slot mdslot path with h1 | h1
      · exact absurd h1 he
      · exact h1
    · intro he
      rcases step_saverSave_fail_or w slot src mo path with h1 | h1
      · exact absurd h1 he
      · exact h1

/-! ### C11.3 — no side effects, idempotence -/

/-- **C11_no_side_effect.** A successful `save` returns the heap it was given: every tensor of the model, every
network object, every dict object — in particular the caller's metadata object — is unchanged, and only the file
at `path` is (re)written.  The same holds for `ModelSaver._save` with a dict (the callback passes THE SAME dict
object at every period). -/
theorem C11_no_side_effect (h : Heap) (fs : Files) (st : NState) (md : Option Nat) (path : Nat)
    (fs' : Files) (h' : Heap) (hs : save h fs st md path = .ok (fs', h')) :
    h' = h ∧ (∀ id, h'.dicts id = h.dicts id) ∧ (∀ id, viewNet h' id = viewNet h id) ∧
    (∀ p, p ≠ path → fs' p = fs p) ∧
    (∀ id, saverSave h fs st (.dict id) false path = save h fs st (some id) path) := by
  have hh := save_heap h fs st md path fs' h' hs
  subst hh
  refine ⟨rfl, fun _ => rfl, fun _ => rfl, ?_, fun _ => rfl⟩
  intro p hp
  rw [save_eq] at hs
  split at hs
  · simp at hs
  · split at hs
    · simp at hs
    · split at hs
      · simp at hs
      · simp only [Except.ok.injEq, Prod.mk.injEq] at hs
        rw [← hs.1, upd_ne _ _ _ _ hp]

/-- **C11_idempotent.** `save; save` with the same arguments: the second call succeeds too and returns exactly the
file system and heap the first one returned (the written files are equal) — so the pair is a fixed point and the
same state and metadata can be saved any number of times, e.g. by `ModelSaver` with one metadata dict. -/
theorem C11_idempotent (h : Heap) (fs : Files) (st : NState) (md : Option Nat) (path : Nat)
    (fs' : Files) (h' : Heap) (hs : save h fs st md path = .ok (fs', h')) :
    save h' fs' st md path = .ok (fs', h') ∧
    (∀ id, md = some id → saverSave h' fs' st (.dict id) false path = .ok (fs', h')) := by
  have hh := save_heap h fs st md path fs' h' hs
  subst hh
  have key : save h' fs' st md path = .ok (fs', h') := by
    rw [save_eq] at hs ⊢
    split at hs
    · simp at hs
    · split at hs
      · simp at hs
      · split at hs
        · simp at hs
        · rename_i c1 c2 c3
          simp only [Except.ok.injEq, Prod.mk.injEq, and_true] at hs
          have e : upd fs' path (savedFile h' st (mdEntries h' md)) = fs' := by
            rw [← hs]
            funext p
            by_cases hp : p = path
            · subst hp; simp
            · simp [upd_ne _ _ _ _ hp]
          simp [c1, c2, c3, e]
  exact ⟨key, fun id hid => by subst hid; exact key⟩

/-- the code BEFORE the F5 fix (`metadata = metadata if metadata else {}`) is not idempotent: a complex state with
the default unitary dictionary and the caller's dict `{"epoch": …}` — the first save succeeds, the second raises
`ValueError` (the model of the unchanged code proves the negation witness). -/
example : ∃ fs' h',
    saveWith false ⟨fun _ => none, fun _ => none, upd (fun _ => none) 0 [(MKey.str "epoch", FVal.mv false 9)], 1⟩
      (fun _ => none) ⟨.cplx, [], some (.ud defaultUD), 1, 1, none⟩ (some 0) 0 = .ok (fs', h') ∧
    saveWith false h' fs' ⟨.cplx, [], some (.ud defaultUD), 1, 1, none⟩ (some 0) 0 = .error .ValueError :=
  ⟨_, _, rfl, rfl⟩


/-! ### C11.1 — round trip -/

theorem mdEntries_nodup {h : Heap} (wf : HeapWF h) (md : Option Nat) : (keys (mdEntries h md)).Nodup := by
  unfold mdEntries
  cases md with
  | none => simp [keys]
  | some id =>
    cases hd : h.dicts id with
    | none => simp [keys, hd]
    | some d => simpa [hd] using wf.dkeys id d hd

/-- a successful `save` writes exactly the specified snapshot -/
theorem savedFile_snapshot {h : Heap} (wf : HeapWF h) (st : NState) (md : Option Nat)
    (hnm : ∀ p ∈ st.nets, p.1 ≠ "unitary_dict") (hres : ¬ Reserved st (mdEntries h md)) :
    savedFile h st (mdEntries h md) = snapshot h st (mdEntries h md) := by
  have hk : st.ud.isSome → MKey.str "unitary_dict" ∉ keys (mdEntries h md) :=
    fun hu hm => hres (Or.inl ⟨hu, hm⟩)
  have hn : (keys (saveMeta st (mdEntries h md))).Nodup := by
    unfold saveMeta
    cases st.ud with
    | none => exact mdEntries_nodup wf md
    | some u => exact nodup_keys_aset _ _ _ (mdEntries_nodup wf md)
  have hd : ∀ k ∈ keys (saveMeta st (mdEntries h md)), k ∉ st.nets.map (fun p => MKey.str p.1) := by
    intro k hk2 hm
    obtain ⟨p, hp, rfl⟩ := List.mem_map.1 hm
    rcases (mem_keys_saveMeta st _ _).1 hk2 with h1 | ⟨_, h1⟩
    · exact hres (Or.inr ⟨p, hp, h1⟩)
    · exact hnm p hp (by injection h1)
  rw [savedFile_eq h st _ hn hd, saveMeta_eq st _ hk]
  unfold snapshot
  cases st.ud <;> simp

/-- what can be read from a snapshot -/
theorem snapshot_reads (h : Heap) (st : NState) (e0 : MDict) (hnames : (keys st.nets).Nodup)
    (hnm : ∀ p ∈ st.nets, p.1 ≠ "unitary_dict") (hres : ¬ Reserved st e0) :
    (∀ p ∈ st.nets, aget (snapshot h st e0) (.str p.1) = some (.sd (viewNet h p.2))) ∧
    (∀ k v, aget e0 k = some v → aget (snapshot h st e0) k = some v) ∧
    (∀ u, st.ud = some u → aget (snapshot h st e0) (.str "unitary_dict") = some u) := by
  refine ⟨?_, ?_, ?_⟩
  · intro p hp
    simp only [snapshot, List.append_assoc, aget_append]
    rw [aget_nets_map st.nets (fun id => FVal.sd (viewNet h id)) p hp hnames]
  · intro k v hkv
    have hk : k ∈ keys e0 := by
      have := aget_mem e0 k v hkv
      exact List.mem_map.2 ⟨(k, v), this, rfl⟩
    have hnot : k ∉ st.nets.map (fun q => MKey.str q.1) := by
      intro hm
      obtain ⟨p, hp, rfl⟩ := List.mem_map.1 hm
      exact hres (Or.inr ⟨p, hp, hk⟩)
    simp only [snapshot, List.append_assoc, aget_append]
    rw [aget_nets_map_none st.nets (fun id => FVal.sd (viewNet h id)) k hnot]
    simp [hkv]
  · intro u hu
    have hnot : MKey.str "unitary_dict" ∉ st.nets.map (fun q => MKey.str q.1) := by
      intro hm
      obtain ⟨p, hp, he⟩ := List.mem_map.1 hm
      exact hnm p hp (by injection he)
    have hnot2 : aget e0 (MKey.str "unitary_dict") = none := by
      rw [aget_none_iff]
      intro hm
      exact hres (Or.inl ⟨by simp [hu], hm⟩)
    simp only [snapshot, List.append_assoc, aget_append]
    rw [aget_nets_map_none st.nets (fun id => FVal.sd (viewNet h id)) _ hnot]
    simp [hnot2, hu, aget_cons]

/-- **C11_roundtrip.** After a successful `save M md P` on a well-formed heap: the file at `P` is the snapshot of
`M` (every network's contents, the metadata, the unitary dictionary); `file[k] = md[k]` for every metadata key;
and `load P` into ANY shape-compatible state `M'` of ANY later well-formed heap in which the file is still the
one written succeeds and makes every parameter of every network of `M'` bit-identical to what `M` had at the
save, replaces `M'`'s unitary dictionary by `M`'s (including user-added unitaries) and leaves `M'`'s
architecture attributes alone.  (`autoload`: `C11_roundtrip_autoload`.) -/
theorem C11_roundtrip {h : Heap} (wf : HeapWF h) (fs : Files) (st : NState) (md : Option Nat) (path : Nat)
    (ok : StateOK h st) (hnm : ∀ p ∈ st.nets, p.1 ≠ "unitary_dict")
    (fs' : Files) (h' : Heap) (hs : save h fs st md path = .ok (fs', h')) :
    ∀ file, file = snapshot h st (mdEntries h md) →
    fs' path = some file ∧
    (∀ k v, aget (mdEntries h md) k = some v → aget file k = some v) ∧
    (∀ p ∈ st.nets, aget file (.str p.1) = some (.sd (viewNet h p.2))) ∧
    (∀ u, st.ud = some u → aget file (.str "unitary_dict") = some u) ∧
    (∀ (h2 : Heap) (fs2 : Files) (st2 : NState), HeapWF h2 → StateOK h2 st2 → fs2 path = some file →
        Compatible h2 file st2.nets →
        (load h2 fs2 st2 path).2.2 = none ∧
        (∀ q ∈ st2.nets, ∀ p ∈ st.nets, q.1 = p.1 → viewNet (load h2 fs2 st2 path).1 q.2 = viewNet h p.2) ∧
        (∀ u, st.ud = some u → st2.ud.isSome → (load h2 fs2 st2 path).2.1.ud = some u) ∧
        (load h2 fs2 st2 path).2.1.nets = st2.nets ∧ (load h2 fs2 st2 path).2.1.kind = st2.kind ∧
        (load h2 fs2 st2 path).2.1.nv = st2.nv ∧ (load h2 fs2 st2 path).2.1.nh = st2.nh ∧
        (load h2 fs2 st2 path).2.1.na = st2.na) := by
  intro file hfile
  subst hfile
  rcases save_cases h fs st md path hnm with ⟨_, e⟩ | ⟨_, _, e⟩ | ⟨hres, _, e⟩
  · rw [e] at hs; simp at hs
  · rw [e] at hs; simp at hs
  · rw [e] at hs
    simp only [Except.ok.injEq, Prod.mk.injEq] at hs
    obtain ⟨r1, r2, r3⟩ := snapshot_reads h st (mdEntries h md) ok.names hnm hres
    refine ⟨?_, r2, r1, r3, ?_⟩
    · rw [← hs.1, savedFile_snapshot wf st md hnm hres]; simp
    · intro h2 fs2 st2 wf2 ok2 hf2 hc
      obtain ⟨l1, l2, l3⟩ := load_ok wf2 fs2 st2 path _ hf2 ok2 hc
      refine ⟨l1, ?_, ?_, by rw [l3], by rw [l3], by rw [l3], by rw [l3], by rw [l3]⟩
      · intro q hq p hp hqp
        have a := l2 q hq
        have b := r1 p hp
        rw [hqp] at a
        have : FVal.sd (viewNet (load h2 fs2 st2 path).1 q.2) = FVal.sd (viewNet h p.2) :=
          Option.some.inj (a.symm.trans b)
        injection this
      · intro u hu hsome
        rw [l3]
        cases hu2 : st2.ud with
        | none => simp [hu2] at hsome
        | some u0 =>
          have hr := r3 u hu
          simp only [hr]

end QV.Props
