/-
C11 — Saving and reloading reproduces the state exactly and has no side effects.

"Whatever state is saved, loading the file into a compatible model or auto-constructing a model from it
yields bit-identical parameters for every network, the same architecture and the same unitary dictionary
(including user-added unitaries), with the caller's metadata stored alongside and reserved names refused.
Saving changes neither the model nor the metadata object passed in, so the same state and metadata can be
saved any number of times (as the periodic model-saving callback does) with equivalent results."

Model: QV.Model.Store — heap of tensor / network / dict objects with identities, `save` / `load` / `autoload`
/ `ModelSaver._save` in the code's order, the history machine `step` / `run` over construct / write / train /
reinit / addUnitary / mkMeta / save / saverSave / load / autoload; executed against the real code by the C11
correspondence check.  "Bit-identical" = equal contents tokens (`viewNet`); `torch.save`/`torch.load` are a
map of tokens (trusted).  All theorems: every well-formed heap, every state, every metadata dict, every
history.
-/
import QV.Lemmas.StoreIO
import QV.Lemmas.StoreLoc
import QV.Props.C20

namespace QV.Props
namespace C11
open QV.Props.C20
open QV QV.Store

/-! ### specification vocabulary -/

/-- THE SPECIFICATION of a saved file: the contents of every network of the state (as read through the heap
at the moment of the save), then the caller's metadata entries, then the state's unitary dictionary. -/
def snapshot (h : Heap) (st : NState) (e0 : MDict) : File :=
  st.nets.map (fun p => (MKey.str p.1, FVal.sd (viewNet h p.2))) ++ e0 ++
    (match st.ud with
      | some u => [(MKey.str "unitary_dict", u)]
      | none => [])

/-- a metadata key is reserved: a network name, or `unitary_dict` when the state has a unitary dictionary -/
def Reserved (st : NState) (e0 : MDict) : Prop :=
  (st.ud.isSome ∧ MKey.str "unitary_dict" ∈ keys e0) ∨ ∃ p ∈ st.nets, MKey.str p.1 ∈ keys e0

/-- some metadata key is not a string (`data.update(**metadata)` then raises `TypeError`) -/
def NonStringKey (e0 : MDict) : Prop := ∃ k ∈ keys e0, isStrKey k = false

theorem any_ahas_iff (st : NState) (e : MDict) :
    (st.nets.any fun p => ahas e (MKey.str p.1)) = true ↔ ∃ p ∈ st.nets, MKey.str p.1 ∈ keys e := by
  simp [List.any_eq_true, ahas_iff]

theorem mem_keys_saveMeta (st : NState) (e0 : MDict) (x : MKey) :
    x ∈ keys (saveMeta st e0) ↔ x ∈ keys e0 ∨ (st.ud.isSome ∧ x = MKey.str "unitary_dict") := by
  unfold saveMeta
  cases st.ud with
  | none => simp
  | some u => simp [mem_keys_aset]

/-- the three outcomes of `save` in terms of the declarative conditions -/
theorem save_cases (h : Heap) (fs : Files) (st : NState) (md : Option Nat) (path : Nat)
    (hnm : ∀ p ∈ st.nets, p.1 ≠ "unitary_dict") :
    (Reserved st (mdEntries h md) ∧ save h fs st md path = .error .ValueError) ∨
    (¬ Reserved st (mdEntries h md) ∧ NonStringKey (mdEntries h md) ∧ save h fs st md path = .error .TypeError) ∨
    (¬ Reserved st (mdEntries h md) ∧ ¬ NonStringKey (mdEntries h md) ∧
      save h fs st md path = .ok (upd fs path (savedFile h st (mdEntries h md)), h)) := by
  rw [save_eq]
  by_cases c1 : (st.ud.isSome && ahas (mdEntries h md) (.str "unitary_dict")) = true
  · left
    simp only [Bool.and_eq_true, ahas_iff] at c1
    exact ⟨Or.inl c1, by simp [c1, ahas_iff]⟩
  · have c1' : ¬ (st.ud.isSome ∧ MKey.str "unitary_dict" ∈ keys (mdEntries h md)) := by
      simpa [Bool.and_eq_true, ahas_iff] using c1
    by_cases c2 : (st.nets.any fun p => ahas (saveMeta st (mdEntries h md)) (MKey.str p.1)) = true
    · left
      refine ⟨Or.inr ?_, by simp [c1, c2]⟩
      obtain ⟨p, hp, hk⟩ := (any_ahas_iff st _).1 c2
      rcases (mem_keys_saveMeta st _ _).1 hk with hk | ⟨_, hk⟩
      · exact ⟨p, hp, hk⟩
      · exact absurd (by injection hk) (hnm p hp)
    · have c2' : ¬ ∃ p ∈ st.nets, MKey.str p.1 ∈ keys (mdEntries h md) := by
        rintro ⟨p, hp, hk⟩
        exact c2 ((any_ahas_iff st _).2 ⟨p, hp, (mem_keys_saveMeta st _ _).2 (Or.inl hk)⟩)
      have hres : ¬ Reserved st (mdEntries h md) := by
        rintro (hr | hr)
        · exact c1' hr
        · exact c2' hr
      right
      by_cases c3 : ((saveMeta st (mdEntries h md)).any fun kv => !isStrKey kv.1) = true
      · left
        refine ⟨hres, ?_, by simp [c1, c2, c3]⟩
        simp only [List.any_eq_true, Bool.not_eq_eq_eq_not, Bool.not_true] at c3
        obtain ⟨kv, hkv, hb⟩ := c3
        have hk : kv.1 ∈ keys (saveMeta st (mdEntries h md)) := List.mem_map.2 ⟨kv, hkv, rfl⟩
        rcases (mem_keys_saveMeta st _ _).1 hk with hk | ⟨_, hk⟩
        · exact ⟨kv.1, hk, hb⟩
        · rw [hk] at hb; simp [isStrKey] at hb
      · right
        refine ⟨hres, ?_, by simp [c1, c2, c3]⟩
        rintro ⟨k, hk, hb⟩
        apply c3
        simp only [List.any_eq_true, Bool.not_eq_eq_eq_not, Bool.not_true]
        have hk2 : k ∈ keys (saveMeta st (mdEntries h md)) := (mem_keys_saveMeta st _ _).2 (Or.inl hk)
        obtain ⟨kv, hkv, rfl⟩ := List.mem_map.1 hk2
        exact ⟨kv, hkv, hb⟩

/-- a `save` step either succeeds or leaves the world untouched -/
theorem step_save_fail_or (w : World) (slot : Nat) (md : Option Nat) (path : Nat) :
    (step w (.save slot md path)).2 = none ∨ (step w (.save slot md path)).1 = w := by
  simp only [step]
  split
  · right; rfl
  · split
    · right; rfl
    · split
      · right; rfl
      · left; rfl

theorem step_saverSave_fail_or (w : World) (slot : Nat) (src : SaverSrc) (mo : Bool) (path : Nat) :
    (step w (.saverSave slot src mo path)).2 = none ∨ (step w (.saverSave slot src mo path)).1 = w := by
  simp only [step]
  split
  · right; rfl
  · split
    · right; rfl
    · split
      · right; rfl
      · left; rfl

/-! ### C11.2 — reserved names -/

/-- **C11_reserved.** `save` fails with `ValueError` IFF a metadata key is a network name or — when the state has
a unitary dictionary — `unitary_dict`; it fails at all only for that reason or for a non-string key
(`TypeError`); and a failing `save` (or `ModelSaver._save`) leaves the whole world — every file included — exactly
as it was ("writes nothing"). -/
theorem C11_reserved (h : Heap) (fs : Files) (st : NState) (md : Option Nat) (path : Nat)
    (hnm : ∀ p ∈ st.nets, p.1 ≠ "unitary_dict") :
    (save h fs st md path = .error .ValueError ↔ Reserved st (mdEntries h md)) ∧
    ((∃ e, save h fs st md path = .error e) ↔ Reserved st (mdEntries h md) ∨ NonStringKey (mdEntries h md)) ∧
    (∀ (w : World) (slot : Nat) (mdslot : Option Nat) (src : SaverSrc) (mo : Bool),
        ((step w (.save slot mdslot path)).2 ≠ none → (step w (.save slot mdslot path)).1 = w) ∧
        ((step w (.saverSave slot src mo path)).2 ≠ none → (step w (.saverSave slot src mo path)).1 = w)) := by
  refine ⟨?_, ?_, ?_⟩
  · rcases save_cases h fs st md path hnm with ⟨r, e⟩ | ⟨r, _, e⟩ | ⟨r, _, e⟩
    · simp [e, r]
    · simp [e, r]
    · simp [e, r]
  · rcases save_cases h fs st md path hnm with ⟨r, e⟩ | ⟨r, k, e⟩ | ⟨r, k, e⟩
    · simp [e, r]
    · simp [e, k]
    · simp [e, r, k]
  · intro w slot mdslot src mo
    constructor
    · intro he
      rcases step_save_fail_or w slot mdslot path with h1 | h1
      · exact absurd h1 he
      · exact h1
    · intro he
      rcases step_saverSave_fail_or w slot src mo path with h1 | h1
      · exact absurd h1 he
      · exact h1

/-! ### C11.3 — no side effects, idempotence -/

/-- **C11_no_side_effect.** A successful `save` returns the heap it was given: every tensor of the model, every
network object, every dict object — in particular the caller's metadata object — is unchanged, and only the file
at `path` is (re)written.  The same holds for `ModelSaver._save` with a dict (the callback passes THE SAME dict
object at every period). -/
theorem C11_no_side_effect (h : Heap) (fs : Files) (st : NState) (md : Option Nat) (path : Nat)
    (fs' : Files) (h' : Heap) (hs : save h fs st md path = .ok (fs', h')) :
    h' = h ∧ (∀ id, h'.dicts id = h.dicts id) ∧ (∀ id, viewNet h' id = viewNet h id) ∧
    (∀ p, p ≠ path → fs' p = fs p) ∧
    (∀ id, saverSave h fs st (.dict id) false path = save h fs st (some id) path) := by
  have hh := save_heap h fs st md path fs' h' hs
  subst hh
  refine ⟨rfl, fun _ => rfl, fun _ => rfl, ?_, fun _ => rfl⟩
  intro p hp
  rw [save_eq] at hs
  split at hs
  · simp at hs
  · split at hs
    · simp at hs
    · split at hs
      · simp at hs
      · simp only [Except.ok.injEq, Prod.mk.injEq] at hs
        rw [← hs.1, upd_ne _ _ _ _ hp]

/-- **C11_idempotent.** `save; save` with the same arguments: the second call succeeds too and returns exactly the
file system and heap the first one returned (the written files are equal) — so the pair is a fixed point and the
same state and metadata can be saved any number of times, e.g. by `ModelSaver` with one metadata dict. -/
theorem C11_idempotent (h : Heap) (fs : Files) (st : NState) (md : Option Nat) (path : Nat)
    (fs' : Files) (h' : Heap) (hs : save h fs st md path = .ok (fs', h')) :
    save h' fs' st md path = .ok (fs', h') ∧
    (∀ id, md = some id → saverSave h' fs' st (.dict id) false path = .ok (fs', h')) := by
  have hh := save_heap h fs st md path fs' h' hs
  subst hh
  have key : save h' fs' st md path = .ok (fs', h') := by
    rw [save_eq] at hs ⊢
    split at hs
    · simp at hs
    · split at hs
      · simp at hs
      · split at hs
        · simp at hs
        · rename_i c1 c2 c3
          simp only [Except.ok.injEq, Prod.mk.injEq, and_true] at hs
          have e : upd fs' path (savedFile h' st (mdEntries h' md)) = fs' := by
            rw [← hs]
            funext p
            by_cases hp : p = path
            · subst hp; simp
            · simp [upd_ne _ _ _ _ hp]
          simp [c1, c2, c3, e]
  exact ⟨key, fun id hid => by subst hid; exact key⟩

/-- the code BEFORE the F5 fix (`metadata = metadata if metadata else {}`) is not idempotent: a complex state with
the default unitary dictionary and the caller's dict `{"epoch": …}` — the first save succeeds, the second raises
`ValueError` (the model of the unchanged code proves the negation witness). -/
example : ∃ fs' h',
    saveWith false ⟨fun _ => none, fun _ => none, upd (fun _ => none) 0 [(MKey.str "epoch", FVal.mv false 9)], 1⟩
      (fun _ => none) ⟨.cplx, [], some (.ud defaultUD), 1, 1, none⟩ (some 0) 0 = .ok (fs', h') ∧
    saveWith false h' fs' ⟨.cplx, [], some (.ud defaultUD), 1, 1, none⟩ (some 0) 0 = .error .ValueError :=
  ⟨_, _, rfl, rfl⟩


/-! ### C11.1 — round trip -/

theorem mdEntries_nodup {h : Heap} (wf : HeapWF h) (md : Option Nat) : (keys (mdEntries h md)).Nodup := by
  unfold mdEntries
  cases md with
  | none => simp [keys]
  | some id =>
    cases hd : h.dicts id with
    | none => simp [keys, hd]
    | some d => simpa [hd] using wf.dkeys id d hd

/-- a successful `save` writes exactly the specified snapshot -/
theorem savedFile_snapshot {h : Heap} (wf : HeapWF h) (st : NState) (md : Option Nat)
    (hnm : ∀ p ∈ st.nets, p.1 ≠ "unitary_dict") (hres : ¬ Reserved st (mdEntries h md)) :
    savedFile h st (mdEntries h md) = snapshot h st (mdEntries h md) := by
  have hk : st.ud.isSome → MKey.str "unitary_dict" ∉ keys (mdEntries h md) :=
    fun hu hm => hres (Or.inl ⟨hu, hm⟩)
  have hn : (keys (saveMeta st (mdEntries h md))).Nodup := by
    unfold saveMeta
    cases st.ud with
    | none => exact mdEntries_nodup wf md
    | some u => exact nodup_keys_aset _ _ _ (mdEntries_nodup wf md)
  have hd : ∀ k ∈ keys (saveMeta st (mdEntries h md)), k ∉ st.nets.map (fun p => MKey.str p.1) := by
    intro k hk2 hm
    obtain ⟨p, hp, rfl⟩ := List.mem_map.1 hm
    rcases (mem_keys_saveMeta st _ _).1 hk2 with h1 | ⟨_, h1⟩
    · exact hres (Or.inr ⟨p, hp, h1⟩)
    · exact hnm p hp (by injection h1)
  rw [savedFile_eq h st _ hn hd, saveMeta_eq st _ hk]
  unfold snapshot
  cases st.ud <;> simp

/-- what can be read from a snapshot -/
theorem snapshot_reads (h : Heap) (st : NState) (e0 : MDict) (hnames : (keys st.nets).Nodup)
    (hnm : ∀ p ∈ st.nets, p.1 ≠ "unitary_dict") (hres : ¬ Reserved st e0) :
    (∀ p ∈ st.nets, aget (snapshot h st e0) (.str p.1) = some (.sd (viewNet h p.2))) ∧
    (∀ k v, aget e0 k = some v → aget (snapshot h st e0) k = some v) ∧
    (∀ u, st.ud = some u → aget (snapshot h st e0) (.str "unitary_dict") = some u) := by
  refine ⟨?_, ?_, ?_⟩
  · intro p hp
    simp only [snapshot, List.append_assoc, aget_append]
    rw [aget_nets_map st.nets (fun id => FVal.sd (viewNet h id)) p hp hnames]
  · intro k v hkv
    have hk : k ∈ keys e0 := by
      have := aget_mem e0 k v hkv
      exact List.mem_map.2 ⟨(k, v), this, rfl⟩
    have hnot : k ∉ st.nets.map (fun q => MKey.str q.1) := by
      intro hm
      obtain ⟨p, hp, rfl⟩ := List.mem_map.1 hm
      exact hres (Or.inr ⟨p, hp, hk⟩)
    simp only [snapshot, List.append_assoc, aget_append]
    rw [aget_nets_map_none st.nets (fun id => FVal.sd (viewNet h id)) k hnot]
    simp [hkv]
  · intro u hu
    have hnot : MKey.str "unitary_dict" ∉ st.nets.map (fun q => MKey.str q.1) := by
      intro hm
      obtain ⟨p, hp, he⟩ := List.mem_map.1 hm
      exact hnm p hp (by injection he)
    have hnot2 : aget e0 (MKey.str "unitary_dict") = none := by
      rw [aget_none_iff]
      intro hm
      exact hres (Or.inl ⟨by simp [hu], hm⟩)
    simp only [snapshot, List.append_assoc, aget_append]
    rw [aget_nets_map_none st.nets (fun id => FVal.sd (viewNet h id)) _ hnot]
    simp [hnot2, hu, aget_cons]

/-- **C11_roundtrip.** After a successful `save M md P` on a well-formed heap: the file at `P` is the snapshot of
`M` (every network's contents, the metadata, the unitary dictionary); `file[k] = md[k]` for every metadata key;
and `load P` into ANY shape-compatible state `M'` of ANY later well-formed heap in which the file is still the
one written succeeds and makes every parameter of every network of `M'` bit-identical to what `M` had at the
save, replaces `M'`'s unitary dictionary by `M`'s (including user-added unitaries) and leaves `M'`'s
architecture attributes alone.  (`autoload`: `C11_roundtrip_autoload`.) -/
theorem C11_roundtrip {h : Heap} (wf : HeapWF h) (fs : Files) (st : NState) (md : Option Nat) (path : Nat)
    (ok : StateOK h st) (fs' : Files) (h' : Heap) (hs : save h fs st md path = .ok (fs', h')) :
    ∀ file, file = snapshot h st (mdEntries h md) →
    fs' path = some file ∧
    (∀ k v, aget (mdEntries h md) k = some v → aget file k = some v) ∧
    (∀ p ∈ st.nets, aget file (.str p.1) = some (.sd (viewNet h p.2))) ∧
    (∀ u, st.ud = some u → aget file (.str "unitary_dict") = some u) ∧
    (∀ (h2 : Heap) (fs2 : Files) (st2 : NState), HeapWF h2 → StateOK h2 st2 → fs2 path = some file →
        Compatible h2 file st2.nets →
        (load h2 fs2 st2 path).2.2 = none ∧
        (∀ q ∈ st2.nets, ∀ p ∈ st.nets, q.1 = p.1 → viewNet (load h2 fs2 st2 path).1 q.2 = viewNet h p.2) ∧
        (∀ u, st.ud = some u → st2.ud.isSome → (load h2 fs2 st2 path).2.1.ud = some u) ∧
        (load h2 fs2 st2 path).2.1.nets = st2.nets ∧ (load h2 fs2 st2 path).2.1.kind = st2.kind ∧
        (load h2 fs2 st2 path).2.1.nv = st2.nv ∧ (load h2 fs2 st2 path).2.1.nh = st2.nh ∧
        (load h2 fs2 st2 path).2.1.na = st2.na) := by
  intro file hfile
  subst hfile
  have hnm := ok.noUD
  rcases save_cases h fs st md path hnm with ⟨_, e⟩ | ⟨_, _, e⟩ | ⟨hres, _, e⟩
  · rw [e] at hs; simp at hs
  · rw [e] at hs; simp at hs
  · rw [e] at hs
    simp only [Except.ok.injEq, Prod.mk.injEq] at hs
    obtain ⟨r1, r2, r3⟩ := snapshot_reads h st (mdEntries h md) ok.names hnm hres
    refine ⟨?_, r2, r1, r3, ?_⟩
    · rw [← hs.1, savedFile_snapshot wf st md hnm hres]; simp
    · intro h2 fs2 st2 wf2 ok2 hf2 hc
      obtain ⟨l1, l2, l3⟩ := load_ok wf2 fs2 st2 path _ hf2 ok2 hc
      refine ⟨l1, ?_, ?_, by rw [l3], by rw [l3], by rw [l3], by rw [l3], by rw [l3]⟩
      · intro q hq p hp hqp
        have a := l2 q hq
        have b := r1 p hp
        rw [hqp] at a
        have : FVal.sd (viewNet (load h2 fs2 st2 path).1 q.2) = FVal.sd (viewNet h p.2) :=
          Option.some.inj (a.symm.trans b)
        injection this
      · intro u hu hsome
        rw [l3]
        cases hu2 : st2.ud with
        | none => simp [hu2] at hsome
        | some u0 =>
          have hr := r3 u hu
          simp only [hr]


/-! ### C11.4 — the refinement theorem: files = "path ↦ snapshot at the last successful save" -/

/-- what a `save` / `ModelSaver._save` operation is SPECIFIED to write when it succeeds in world `w`: the path and
the snapshot of the state bound to `slot` with the metadata it is given (`metadata_only`: the metadata alone) -/
def specWrite (w : World) : Op → Option (Nat × File)
  | .save slot md path =>
    match w.states slot with
    | none => none
    | some st =>
      match md with
      | none => some (path, snapshot w.heap st [])
      | some s =>
        match w.metas s with
        | none => none
        | some id => some (path, snapshot w.heap st (mdEntries w.heap (some id)))
  | .saverSave slot src mo path =>
    match w.states slot with
    | none => none
    | some st =>
      let e0 : Option MDict := match src with
        | .absent => some []
        | .callable es => some (mkDict es)
        | .dict s => (w.metas s).map (fun id => mdEntries w.heap (some id))
      e0.map (fun e => (path, if mo then e else snapshot w.heap st e))
  | _ => none

/-- one step of the ABSTRACT machine `path ↦ snapshot at the last successful save`: a successful operation that
is specified to write overrides the entry of its path; every other operation (and every failing one) leaves the
map alone -/
def absStep (w : World) (abs : Files) (op : Op) : Files :=
  if (step w op).2 = none then
    match specWrite w op with
    | some (path, f) => upd abs path f
    | none => abs
  else abs

/-- the abstract machine run along a history (it consults the concrete world only for the contents being
snapshotted and for whether the operation succeeded, which `C11_reserved` characterises) -/
def absRun (w : World) (abs : Files) : List Op → Files
  | [] => abs
  | op :: ops => absRun (step w op).1 (absStep w abs op) ops

theorem run_append (w : World) (a b : List Op) : run w (a ++ b) = run (run w a) b := by
  induction a generalizing w with
  | nil => rfl
  | cons op r ih => simp [run, ih]

/-- "most recent": appending one operation to a history applies one abstract step on top of the abstract state of
the history — a later successful save to `P` overrides, anything else preserves -/
theorem absRun_snoc (w : World) (abs : Files) (ops : List Op) (op : Op) :
    absRun w abs (ops ++ [op]) = absStep (run w ops) (absRun w abs ops) op := by
  induction ops generalizing w abs with
  | nil => rfl
  | cons o r ih => simp [absRun, run, ih]

/-- a successful `save` writes the snapshot, as a statement about the whole file system -/
theorem save_ok_files {h : Heap} (wf : HeapWF h) (fs : Files) (st : NState) (md : Option Nat) (path : Nat)
    (hnm : ∀ p ∈ st.nets, p.1 ≠ "unitary_dict") (fs' : Files) (h' : Heap)
    (hs : save h fs st md path = .ok (fs', h')) :
    fs' = upd fs path (snapshot h st (mdEntries h md)) ∧ h' = h := by
  rcases save_cases h fs st md path hnm with ⟨_, e⟩ | ⟨_, _, e⟩ | ⟨hres, _, e⟩
  · rw [e] at hs; simp at hs
  · rw [e] at hs; simp at hs
  · rw [e] at hs
    simp only [Except.ok.injEq, Prod.mk.injEq] at hs
    rw [← hs.1, ← hs.2, savedFile_snapshot wf st md hnm hres]
    exact ⟨rfl, rfl⟩

theorem step_files_save (w : World) (wf : WorldWF w) (slot : Nat) (md : Option Nat) (path : Nat) :
    (step w (.save slot md path)).1.files = absStep w w.files (.save slot md path) := by
  unfold absStep
  cases hs : w.states slot with
  | none => simp [step, hs]
  | some st =>
    have hnm := wf.st_noud slot st hs
    cases md with
    | none =>
      cases hsv : save w.heap w.files st none path with
      | error e => simp [step, hs, hsv]
      | ok r =>
        obtain ⟨a, _⟩ := save_ok_files wf.heap w.files st none path hnm r.1 r.2 hsv
        simp [step, hs, hsv, specWrite, a, mdEntries]
    | some s =>
      cases hm : w.metas s with
      | none => simp [step, hs, hm]
      | some id =>
        cases hsv : save w.heap w.files st (some id) path with
        | error e => simp [step, hs, hm, hsv]
        | ok r =>
          obtain ⟨a, _⟩ := save_ok_files wf.heap w.files st (some id) path hnm r.1 r.2 hsv
          simp [step, hs, hm, hsv, specWrite, a]

theorem snapshot_allocDict (h : Heap) (d : MDict) (st : NState) (e0 : MDict) :
    snapshot { h with dicts := upd h.dicts h.next d, next := h.next + 1 } st e0 = snapshot h st e0 := rfl

theorem step_files_saverSave (w : World) (wf : WorldWF w) (slot : Nat) (src : SaverSrc) (mo : Bool) (path : Nat) :
    (step w (.saverSave slot src mo path)).1.files = absStep w w.files (.saverSave slot src mo path) := by
  unfold absStep
  cases hs : w.states slot with
  | none => simp [step, hs]
  | some st =>
    have hnm := wf.st_noud slot st hs
    cases src with
    | absent =>
      cases mo with
      | true => simp [step, hs, saverSave, specWrite]
      | false =>
        have e : saverSave w.heap w.files st .absent false path = save w.heap w.files st none path := rfl
        cases hsv : save w.heap w.files st none path with
        | error e' => simp [step, hs, e, hsv]
        | ok r =>
          obtain ⟨a, _⟩ := save_ok_files wf.heap w.files st none path hnm r.1 r.2 hsv
          simp [step, hs, e, hsv, specWrite, a, mdEntries]
    | dict s =>
      cases hm : w.metas s with
      | none => simp [step, hs, hm]
      | some id =>
        cases mo with
        | true => simp [step, hs, hm, saverSave, specWrite, mdEntries]
        | false =>
          have e : saverSave w.heap w.files st (.dict id) false path = save w.heap w.files st (some id) path := rfl
          cases hsv : save w.heap w.files st (some id) path with
          | error e' => simp [step, hs, hm, e, hsv]
          | ok r =>
            obtain ⟨a, _⟩ := save_ok_files wf.heap w.files st (some id) path hnm r.1 r.2 hsv
            simp [step, hs, hm, e, hsv, specWrite, a]
    | callable es =>
      cases mo with
      | true => simp [step, hs, saverSave, specWrite]
      | false =>
        have wf2 := wf.heap.allocDict (mkDict es) (mkDict_nodup es)
        have e : saverSave w.heap w.files st (.callable (mkDict es)) false path
            = save { w.heap with dicts := upd w.heap.dicts w.heap.next (mkDict es), next := w.heap.next + 1 }
                w.files st (some w.heap.next) path := rfl
        have hme : mdEntries { w.heap with dicts := upd w.heap.dicts w.heap.next (mkDict es), next := w.heap.next + 1 }
            (some w.heap.next) = mkDict es := by simp [mdEntries]
        cases hsv : save { w.heap with dicts := upd w.heap.dicts w.heap.next (mkDict es), next := w.heap.next + 1 }
            w.files st (some w.heap.next) path with
        | error e' => simp [step, hs, e, hsv]
        | ok r =>
          obtain ⟨a, _⟩ := save_ok_files wf2 w.files st (some w.heap.next) path hnm r.1 r.2 hsv
          rw [hme, snapshot_allocDict] at a
          simp [step, hs, e, hsv, specWrite, a]

/-- every operation moves the concrete file system exactly as the abstract machine prescribes -/
theorem step_files (w : World) (wf : WorldWF w) (op : Op) : (step w op).1.files = absStep w w.files op := by
  cases op with
  | save slot md path => exact step_files_save w wf slot md path
  | saverSave slot src mo path => exact step_files_saverSave w wf slot src mo path
  | construct slot kind nv nh na ud rand => simp [step, absStep, specWrite]
  | mkModule mslot k nv nh na zw rand => simp [step, absStep, specWrite]
  | initModule mslot zw rand =>
    have : absStep w w.files (.initModule mslot zw rand) = w.files := by simp [absStep, specWrite]
    rw [this]; simp only [step]; repeat' split
    all_goals rfl
  | mkMeta mdslot entries => simp [step, absStep, specWrite]
  | constructFrom slot kind mslot ud =>
    have : absStep w w.files (.constructFrom slot kind mslot ud) = w.files := by simp [absStep, specWrite]
    rw [this]; simp only [step]; repeat' split
    all_goals rfl
  | write slot net toks =>
    have : absStep w w.files (.write slot net toks) = w.files := by simp [absStep, specWrite]
    rw [this]; simp only [step]; repeat' split
    all_goals rfl
  | writeModule mslot toks =>
    have : absStep w w.files (.writeModule mslot toks) = w.files := by simp [absStep, specWrite]
    rw [this]; simp only [step]; repeat' split
    all_goals rfl
  | train slot bases toks =>
    have : absStep w w.files (.train slot bases toks) = w.files := by simp [absStep, specWrite]
    rw [this]; simp only [step]; repeat' split
    all_goals rfl
  | reinit slot rand =>
    have : absStep w w.files (.reinit slot rand) = w.files := by simp [absStep, specWrite]
    rw [this]; simp only [step]; repeat' split
    all_goals rfl
  | addUnitary slot name tok =>
    have : absStep w w.files (.addUnitary slot name tok) = w.files := by simp [absStep, specWrite]
    rw [this]; simp only [step]; repeat' split
    all_goals rfl
  | load slot path =>
    have : absStep w w.files (.load slot path) = w.files := by simp [absStep, specWrite]
    rw [this]; simp only [step]; repeat' split
    all_goals rfl
  | autoload slot kind path rand =>
    have : absStep w w.files (.autoload slot kind path rand) = w.files := by simp [absStep, specWrite]
    rw [this]; simp only [step]; repeat' split
    all_goals rfl

theorem run_files (w : World) (wf : WorldWF w) (ops : List Op) : (run w ops).files = absRun w w.files ops := by
  induction ops generalizing w with
  | nil => rfl
  | cons op r ih =>
    simp only [run, absRun]
    rw [ih _ (step_wf w wf op), step_files w wf op]

/-- **C11_history** (the refinement theorem). For EVERY history of operations from the empty world, over any
number of states, modules, metadata dicts and files: the file system is the abstract map
`path ↦ snapshot taken at the most recent successful save to that path` (`absRun`, compositional in the last
operation by `absRun_snoc`); and a `load P` issued at the end of the history into any state `M'` that is
shape-compatible with that snapshot succeeds and makes every parameter of every network of `M'` bit-identical to
the snapshot's entry for that network (and `M'`'s unitary dictionary the snapshot's), whatever happened to the
source model, to other models and to other files in between.  `C11_roundtrip`, `C11_no_side_effect`,
`C11_idempotent` are the one-step instances. -/
theorem C11_history (ops : List Op) :
    let w := run World.empty ops
    w.files = absRun World.empty (fun _ => none) ops ∧
    (∀ P, w.files P = none → ∀ slot st, w.states slot = some st →
        (load w.heap w.files st P).2.2 = some .FileNotFoundError ∧ (load w.heap w.files st P).1 = w.heap) ∧
    (∀ P file slot st, absRun World.empty (fun _ => none) ops P = some file → w.states slot = some st →
        Compatible w.heap file st.nets →
        (load w.heap w.files st P).2.2 = none ∧
        (∀ q ∈ st.nets, aget file (.str q.1) = some (.sd (viewNet (load w.heap w.files st P).1 q.2))) ∧
        (st.ud.isSome → ∀ u, aget file (.str "unitary_dict") = some u → (load w.heap w.files st P).2.1.ud = some u)) := by
  intro w
  have wfw : WorldWF w := run_wf World.empty WorldWF.empty ops
  have hfiles : w.files = absRun World.empty (fun _ => none) ops := run_files World.empty WorldWF.empty ops
  refine ⟨hfiles, ?_, ?_⟩
  · intro P hP slot st _
    simp [load, hP]
  · intro P file slot st hf hs hc
    have hf' : w.files P = some file := by rw [hfiles]; exact hf
    obtain ⟨l1, l2, l3⟩ := load_ok wfw.heap w.files st P file hf' (wfw.stateOK hs) hc
    refine ⟨l1, l2, ?_⟩
    intro hsome u hu
    rw [l3]
    cases hu2 : st.ud with
    | none => simp [hu2] at hsome
    | some u0 => simp only [hu]


/-! ### C11.1 (autoload) -/

/-- the state is an instance of one of the three library classes: its own networks under their names, RBMs of
its own kind whose size attributes are the state's, a unitary dictionary iff it is not a positive
wavefunction; a `BinaryRBM` never has 0 hidden units (`if num_hidden`). Every state produced by the size
constructors satisfies this (`C20_sizes`), and so does one built from a module of the matching class. -/
structure Canonical (h : Heap) (st : NState) : Prop where
  names : st.nets.map Prod.fst = netNames st.kind
  nets : ∀ p ∈ st.nets, ∃ net, h.nets p.2 = some net ∧ net.kind = netKindOf st.kind ∧ net.nv = st.nv ∧
    net.nh = st.nh ∧ net.na = st.na.getD 0
  na : st.na.isSome ↔ st.kind = .dens
  ud : st.kind ≠ .pos → ∃ d, st.ud = some (.ud d)
  udpos : st.kind = .pos → st.ud = none
  hid : netKindOf st.kind = .binary → st.nh ≠ 0

/-- **C11_roundtrip_autoload.** After a successful `save M md P` of a library state `M` on a well-formed heap,
`Kind(M).autoload(P)` in ANY later well-formed heap where the file is still the one written succeeds and
returns a NEW state (all parameter tensors are new objects) of the same type with the same architecture
`(num_visible, num_hidden[, num_aux])`, the same unitary dictionary (including user-added unitaries) and, for every
network, parameters bit-identical to those `M` had at the save. -/
theorem C11_roundtrip_autoload {h : Heap} (wf : HeapWF h) (fs : Files) (st : NState) (md : Option Nat) (path : Nat)
    (ok : StateOK h st) (can : Canonical h st) (fs' : Files) (h' : Heap)
    (hs : save h fs st md path = .ok (fs', h'))
    (h2 : Heap) (fs2 : Files) (rand : List (List Tok)) (wf2 : HeapWF h2)
    (hf2 : fs2 path = some (snapshot h st (mdEntries h md))) :
    ∃ h3 st3, autoload h2 fs2 st.kind path rand = .ok (h3, st3) ∧
      st3.kind = st.kind ∧ st3.nv = st.nv ∧ st3.nh = st.nh ∧ st3.na = st.na ∧ st3.ud = st.ud ∧
      st3.nets.map Prod.fst = st.nets.map Prod.fst ∧
      (∀ q ∈ st3.nets, ∀ p ∈ st.nets, q.1 = p.1 → viewNet h3 q.2 = viewNet h p.2) ∧
      (∀ q ∈ st3.nets, ∀ x ∈ netIds h3 q.2, h2.next ≤ x) := by
  have hnm := ok.noUD
  -- the save succeeded, so no key was reserved and the file can be read entry by entry
  have hres : ¬ Reserved st (mdEntries h md) := by
    rcases save_cases h fs st md path hnm with ⟨_, e⟩ | ⟨_, _, e⟩ | ⟨hres, _, _⟩
    · rw [e] at hs; simp at hs
    · rw [e] at hs; simp at hs
    · exact hres
  obtain ⟨r1, _, r3⟩ := snapshot_reads h st (mdEntries h md) ok.names hnm hres
  -- names and shapes of every saved network
  have hshape : ∀ p ∈ st.nets, shapesOf (viewNet h p.2)
      = shapesOf (paramSpecs (netKindOf st.kind) st.nv st.nh (st.na.getD 0) []) := by
    intro p hp
    obtain ⟨net, hn, hk, hv, hh, ha⟩ := can.nets p hp
    simp only [viewNet, hn]
    rw [wf.shapes p.2 net hn, hk, hv, hh, ha]
  have ham : ∃ am, ("rbm_am", am) ∈ st.nets := by
    have : "rbm_am" ∈ st.nets.map Prod.fst := by rw [can.names]; cases st.kind <;> simp [netNames]
    obtain ⟨p, hp, he⟩ := List.mem_map.1 this
    exact ⟨p.2, by rw [← he]; exact hp⟩
  obtain ⟨am, hamm⟩ := ham
  have hfam := r1 _ hamm
  obtain ⟨l1, l2, l3⟩ := lenOf_of_shapes (netKindOf st.kind) st.nv st.nh (st.na.getD 0) (viewNet h am)
    (hshape _ hamm)
  -- the constructor arguments read from the file
  have hargs : ∃ udo, autoloadArgs (snapshot h st (mdEntries h md)) st.kind = .ok (udo, st.nv, st.nh, st.na) ∧
      (st.kind ≠ .pos → ∃ d, udo = some d ∧ st.ud = some (.ud d)) := by
    cases hk : st.kind with
    | pos =>
      have hna : st.na = none := by
        cases hx : st.na with
        | none => rfl
        | some a => have := can.na.1 (by simp [hx]); rw [hk] at this; cases this
      refine ⟨none, ?_, by simp⟩
      simp [autoloadArgs, hfam, l1, l2, hna]
    | cplx =>
      have hna : st.na = none := by
        cases hx : st.na with
        | none => rfl
        | some a => have := can.na.1 (by simp [hx]); rw [hk] at this; cases this
      obtain ⟨d, hd⟩ := can.ud (by rw [hk]; simp)
      refine ⟨some d, ?_, fun _ => ⟨d, rfl, hd⟩⟩
      simp [autoloadArgs, hfam, l1, l2, hna, r3 _ hd]
    | dens =>
      obtain ⟨a, ha⟩ : ∃ a, st.na = some a := by
        have := can.na.2 hk
        cases hx : st.na with
        | none => simp [hx] at this
        | some a => exact ⟨a, rfl⟩
      obtain ⟨d, hd⟩ := can.ud (by rw [hk]; simp)
      have l3' := l3 (by rw [hk]; rfl)
      rw [ha] at l3'
      refine ⟨some d, ?_, fun _ => ⟨d, rfl, hd⟩⟩
      simp [autoloadArgs, hfam, l1, l2, l3', ha, r3 _ hd]
  obtain ⟨udo, hargs, hudo⟩ := hargs
  -- the fresh object
  obtain ⟨c1, c2, c3, c4, c5, c6, _⟩ := C20_sizes wf2 st.kind st.nv (some st.nh) st.na udo rand
  obtain ⟨f1, f2, f3⟩ := constructSizes_facts wf2 st.kind st.nv (some st.nh) st.na udo rand
  have hH : hiddenDefault (netKindOf st.kind) st.nv (some st.nh) = st.nh := by
    simp only [hiddenDefault]
    split
    · rename_i hc; exact absurd hc.2 (can.hid hc.1)
    · rfl
  have hA : (if st.kind = .dens then st.na.getD st.nv else 0) = st.na.getD 0 := by
    by_cases hk : st.kind = .dens
    · obtain ⟨a, ha⟩ : ∃ a, st.na = some a := by
        have := can.na.2 hk
        cases hx : st.na with
        | none => simp [hx] at this
        | some a => exact ⟨a, rfl⟩
      simp [hk, ha]
    · have hna : st.na = none := by
        cases hx : st.na with
        | none => rfl
        | some a => exact absurd (can.na.1 (by simp [hx])) hk
      simp [hk, hna]
  have hna' : (if st.kind = .dens then some (if st.kind = .dens then st.na.getD st.nv else 0) else none) = st.na := by
    by_cases hk : st.kind = .dens
    · obtain ⟨a, ha⟩ : ∃ a, st.na = some a := by
        have := can.na.2 hk
        cases hx : st.na with
        | none => simp [hx] at this
        | some a => exact ⟨a, rfl⟩
      simp [hk, ha]
    · have hna : st.na = none := by
        cases hx : st.na with
        | none => rfl
        | some a => exact absurd (can.na.1 (by simp [hx])) hk
      simp [hk, hna]
  -- every network of the fresh object finds its entry in the file, with its own names and shapes
  have hpair : ∀ q ∈ (constructSizes h2 st.kind st.nv (some st.nh) st.na udo rand).2.nets,
      ∃ p ∈ st.nets, p.1 = q.1 := by
    intro q hq
    have : q.1 ∈ st.nets.map Prod.fst := by
      rw [can.names, ← c5]; exact List.mem_map.2 ⟨q, hq, rfl⟩
    obtain ⟨p, hp, he⟩ := List.mem_map.1 this
    exact ⟨p, hp, he⟩
  have hcompat : Compatible (constructSizes h2 st.kind st.nv (some st.nh) st.na udo rand).1
      (snapshot h st (mdEntries h md)) (constructSizes h2 st.kind st.nv (some st.nh) st.na udo rand).2.nets := by
    intro q hq
    obtain ⟨p, hp, he⟩ := hpair q hq
    obtain ⟨j, hj⟩ := List.getElem?_of_mem hq
    obtain ⟨v1, _, _, _⟩ := c6 j q hj
    refine ⟨viewNet h p.2, by rw [← he]; exact r1 p hp, ?_⟩
    rw [v1, ← freshParams_eq, shapesOf_paramSpecs, hH, hA]
    exact hshape p hp
  obtain ⟨o1, o2, o3⟩ := load_ok f1 fs2 _ path _ hf2 f3 hcompat
  have t := (load_facts (constructSizes h2 st.kind st.nv (some st.nh) st.na udo rand).1 fs2
    (constructSizes h2 st.kind st.nv (some st.nh) st.na udo rand).2 path).1
  refine ⟨(load (constructSizes h2 st.kind st.nv (some st.nh) st.na udo rand).1 fs2
      (constructSizes h2 st.kind st.nv (some st.nh) st.na udo rand).2 path).1,
    (load (constructSizes h2 st.kind st.nv (some st.nh) st.na udo rand).1 fs2
      (constructSizes h2 st.kind st.nv (some st.nh) st.na udo rand).2 path).2.1, ?_, ?_, ?_, ?_, ?_, ?_, ?_, ?_, ?_⟩
  · simp only [autoload, hf2, hargs, o1]
  · rw [o3]; exact c1
  · rw [o3]; exact c2
  · rw [o3]; exact c3.trans hH
  · rw [o3]; exact c4.trans hna'
  · rw [o3]
    by_cases hk : st.kind = .pos
    · have hu0 : (constructSizes h2 st.kind st.nv (some st.nh) st.na udo rand).2.ud = none := by
        rw [hk]; rfl
      simp only [hu0]
      exact (can.udpos hk).symm
    · obtain ⟨d, _, hd⟩ := hudo hk
      have hu0 : ((constructSizes h2 st.kind st.nv (some st.nh) st.na udo rand).2.ud).isSome := by
        cases hkk : st.kind with
        | pos => exact absurd hkk hk
        | cplx => rfl
        | dens => rfl
      cases hu1 : (constructSizes h2 st.kind st.nv (some st.nh) st.na udo rand).2.ud with
      | none => simp [hu1] at hu0
      | some u0 => simp only [r3 _ hd]; exact hd.symm
  · rw [o3]; exact c5.trans can.names.symm
  · intro q hq p hp hqp
    rw [o3] at hq
    have a := o2 q hq
    have b := r1 p hp
    rw [hqp] at a
    have : FVal.sd (viewNet _ q.2) = FVal.sd (viewNet h p.2) := Option.some.inj (a.symm.trans b)
    injection this
  · intro q hq x hx
    rw [o3] at hq
    obtain ⟨j, hj⟩ := List.getElem?_of_mem hq
    obtain ⟨_, _, v3, _⟩ := c6 j q hj
    apply v3 x
    unfold netIds at hx ⊢
    rw [t.nets] at hx
    exact hx

/-- the hypotheses of `C11_roundtrip_autoload` are satisfiable: a mixed state built from sizes `(2, 3, 1)` with a
user-added unitary is a well-formed canonical state -/
example : ∃ w : World, WorldWF w ∧ ∃ st, w.states 0 = some st ∧ Canonical w.heap st ∧ st.nh ≠ st.nv := by
  refine ⟨run World.empty [.construct 0 .dens 2 (some 3) (some 1) (some [("X", 1), ("Y", 2), ("Z", 3), ("H", 4)]) [[5, 6], [7, 8]],
    .addUnitary 0 "K" 9], run_wf _ WorldWF.empty _, ?_⟩
  refine ⟨_, rfl, ⟨rfl, ?_, (by decide), fun _ => ⟨_, rfl⟩, (by intro hk; exact absurd hk (by decide)),
    (by intro hk; exact absurd hk (by decide))⟩, (by decide)⟩
  intro p hp
  simp [constructSizes, netKindOf] at hp
  rcases hp with rfl | rfl
  · exact ⟨_, rfl, rfl, rfl, rfl, rfl⟩
  · exact ⟨_, rfl, rfl, rfl, rfl, rfl⟩


/-- a concrete non-trivial history on which the hypotheses of `C11_roundtrip` / `C11_history` hold: a complex
state with `H = 3 ≠ n = 2`, a user-added unitary, externally written (non-zero) parameters in both networks, flat
metadata in a caller-owned dict; it is saved twice with the same dict (both succeed), then loaded into a second
state of the same shape (succeeds), autoloaded (succeeds), and loaded into a state of another shape (`RuntimeError`). -/
example :
    let w := run World.empty [
      .construct 0 .cplx 2 (some 3) none (some [("X", 1), ("Y", 2), ("Z", 3), ("H", 4)]) [[5], [6]],
      .write 0 "rbm_am" [7, 8, 9], .write 0 "rbm_ph" [10, 11, 12], .addUnitary 0 "K" 13,
      .mkMeta 0 [(.str "epoch", .mv false 14), (.str "cfg", .mv true 15)],
      .construct 1 .cplx 2 (some 3) none none [[16], [17]],
      .construct 2 .cplx 2 (some 2) none none [[18], [19]]]
    (step w (.save 0 (some 0) 0)).2 = none ∧
    (step (step w (.save 0 (some 0) 0)).1 (.save 0 (some 0) 0)).2 = none ∧
    (step (step w (.save 0 (some 0) 0)).1 (.load 1 0)).2 = none ∧
    (step (step w (.save 0 (some 0) 0)).1 (.autoload 1 .cplx 0 [])).2 = none ∧
    (step (step w (.save 0 (some 0) 0)).1 (.load 2 0)).2 = some .RuntimeError ∧
    (step w (.load 1 0)).2 = some .FileNotFoundError := by
  decide

/-- reserved names are really refused in the model: metadata `{"rbm_ph": …}` on a complex state, `{"unitary_dict": …}`
on a mixed state; and accepted on a positive state, which has neither -/
example :
    let w := run World.empty [
      .construct 0 .cplx 2 none none none [[5], [6]], .construct 1 .dens 2 (some 1) (some 3) none [[7, 8], [9, 10]],
      .construct 2 .pos 2 none none none [[11]],
      .mkMeta 0 [(.str "rbm_ph", .mv false 12)], .mkMeta 1 [(.str "epoch", .mv false 13), (.str "unitary_dict", .mv false 14)]]
    (step w (.save 0 (some 0) 0)).2 = some .ValueError ∧ (step w (.save 1 (some 1) 0)).2 = some .ValueError ∧
    (step w (.save 2 (some 0) 0)).2 = none ∧ (step w (.save 2 (some 1) 0)).2 = none := by
  decide

/-- audit item C11-1: on a state WITHOUT a unitary dictionary the metadata key `unitary_dict` is ordinary metadata — the save
succeeds (twice), the file holds the caller's value under that key, `load` into a compatible positive state and
`PositiveWaveFunction.autoload` succeed; only the autoload as a state type that reads the entry is refused. -/
example :
    let w := run World.empty [
      .construct 2 .pos 2 none none none [[11]], .construct 1 .pos 2 none none none [[15]],
      .mkMeta 1 [(.str "epoch", .mv false 13), (.str "unitary_dict", .mv false 14)]]
    let w1 := (step w (.save 2 (some 1) 0)).1
    (step w (.save 2 (some 1) 0)).2 = none ∧ (step w1 (.save 2 (some 1) 0)).2 = none ∧
    (w1.files 0).bind (fun f => aget f (.str "unitary_dict")) = some (.mv false 14) ∧
    (step w1 (.load 1 0)).2 = none ∧ (step w1 (.autoload 0 .pos 0 [])).2 = none ∧
    (step w1 (.autoload 0 .cplx 0 [])).2 = some .AttributeError := by
  decide

/-! ## Extension round 2: the location forms inside the model (`QV.Model.StoreLoc`) -/

/-! ### C11.5 — `location` is an open file object: streams of checkpoints -/

/-- **C11_autoload_stream.** For EVERY file object holding any number of segments (checkpoints of any models, of equal or
different sizes, headers) and EVERY start position that is the boundary in front of a checkpoint: `Kind.autoload(fileobj)`
(first read, construction, `seek(start)`, second read) returns exactly what the path-form `autoload` returns for the archive
stored at THAT boundary — refused iff that one is — and leaves the object at the next boundary, behind the archive it read.
Hence (second clause) if the archive was written by a non-refused `save` of a library state, the result is a NEW state of the
same type with the architecture, the unitary dictionary (user-added unitaries included) and, for every network, the
parameters the saved state had — whatever the other checkpoints of the stream hold. -/
theorem C11_autoload_stream (h : Heap) (kind : Kind) (rand : List (List Tok)) (recs : List Rec)
    (hpos : ∀ r ∈ recs, 0 < r.size) (k : Nat) (hk : k < recs.length) (sz : Nat) (file : File)
    (hrec : recs[k] = ⟨sz, some file⟩) :
    (autoloadStream h ⟨recs, offset recs k⟩ kind rand =
      match autoload h (fun _ => some file) kind 0 rand with
      | .error e => .error e
      | .ok r => .ok (r.1, r.2, ⟨recs, offset recs k + sz⟩)) ∧
    (∀ (h0 : Heap) (st0 : NState) (md : Option Nat) (s0 s0' : Stream) (sz0 : Nat) (h0' : Heap),
        HeapWF h0 → StateOK h0 st0 → Canonical h0 st0 → saveStream h0 s0 st0 md sz0 = .ok (s0', h0') →
        file = snapshot h0 st0 (mdEntries h0 md) → kind = st0.kind → HeapWF h →
        ∃ h3 st3, autoloadStream h ⟨recs, offset recs k⟩ kind rand = .ok (h3, st3, ⟨recs, offset recs k + sz⟩) ∧
          st3.kind = st0.kind ∧ st3.nv = st0.nv ∧ st3.nh = st0.nh ∧ st3.na = st0.na ∧ st3.ud = st0.ud ∧
          st3.nets.map Prod.fst = st0.nets.map Prod.fst ∧
          (∀ q ∈ st3.nets, ∀ p ∈ st0.nets, q.1 = p.1 → viewNet h3 q.2 = viewNet h0 p.2) ∧
          (∀ q ∈ st3.nets, ∀ x ∈ netIds h3 q.2, h.next ≤ x)) := by
  have hnext : offset recs (k + 1) = offset recs k + sz := by rw [offset_succ recs k hk, hrec]
  have main := autoloadStream_boundary h kind rand recs hpos k hk sz file hrec
  rw [hnext] at main
  refine ⟨main, ?_⟩
  intro h0 st0 md s0 s0' sz0 h0' wf0 ok0 can0 hsv hfile hkind wf
  rw [saveStream_eq] at hsv
  cases hsave : save h0 (fun _ => none) st0 md 0 with
  | error e => simp [hsave] at hsv
  | ok r =>
    obtain ⟨fs', h1⟩ := r
    obtain ⟨h3, st3, ha, rest⟩ := C11_roundtrip_autoload wf0 (fun _ => none) st0 md 0 ok0 can0 fs' h1 hsave h
      (fun _ => some file) rand wf (by rw [hfile])
    refine ⟨h3, st3, ?_, rest⟩
    rw [main, hkind, ha]

/-- the hypotheses of `C11_autoload_stream` are satisfiable, and the remember-and-rewind step matters: a stream
`[checkpoint of a 1-visible model (3 bytes) | 10-byte header | checkpoint of a 2-visible model (4 bytes)]`, read at the third
boundary (position 13).  The code returns the 2-visible model and leaves the object at 17; rewinding to the start of the FILE
(`seek(0)`, mutant class M4_C11_2) or not rewinding at all (the code before fix F21) is refused. -/
example :
    let fileA : File := [(.str "rbm_am", .sd [("weights", [1, 1], 5), ("visible_bias", [1], 0), ("hidden_bias", [1], 0)])]
    let fileB : File := [(.str "rbm_am", .sd [("weights", [1, 2], 6), ("visible_bias", [2], 7), ("hidden_bias", [1], 8)])]
    let recs : List Rec := [⟨3, some fileA⟩, ⟨10, none⟩, ⟨4, some fileB⟩]
    let see := fun (r : Except SErr (Heap × NState × Stream)) => match r with
      | .ok x => some (x.2.1.nv, x.2.1.nets.map (fun p => (viewNet x.1 p.2).map (fun e => e.2.2)), x.2.2.pos)
      | .error _ => none
    offset recs 2 = 13 ∧
    see (autoloadStream Heap.empty ⟨recs, 13⟩ .pos []) = some (2, [[6, 7, 8]], 17) ∧
    see (autoloadStreamWith (fun _ => some 0) Heap.empty ⟨recs, 13⟩ .pos []) = none ∧
    see (autoloadStreamWith (fun _ => none) Heap.empty ⟨recs, 13⟩ .pos []) = none ∧
    see (autoloadStream Heap.empty ⟨recs, 3⟩ .pos []) = none := by
  decide

/-- … and between checkpoints of EQUAL size and architecture the `seek(0)` variant is not even refused: it silently returns
the parameters of the FIRST checkpoint (tokens 1, 2, 3) where the caller asked for the second (6, 7, 8). -/
example :
    let fileA : File := [(.str "rbm_am", .sd [("weights", [1, 2], 1), ("visible_bias", [2], 2), ("hidden_bias", [1], 3)])]
    let fileB : File := [(.str "rbm_am", .sd [("weights", [1, 2], 6), ("visible_bias", [2], 7), ("hidden_bias", [1], 8)])]
    let recs : List Rec := [⟨4, some fileA⟩, ⟨4, some fileB⟩]
    let see := fun (r : Except SErr (Heap × NState × Stream)) => match r with
      | .ok x => some (x.2.1.nets.map (fun p => (viewNet x.1 p.2).map (fun e => e.2.2)), x.2.2.pos)
      | .error _ => none
    see (autoloadStream Heap.empty ⟨recs, 4⟩ .pos []) = some ([[6, 7, 8]], 8) ∧
    see (autoloadStreamWith (fun _ => some 0) Heap.empty ⟨recs, 4⟩ .pos []) = some ([[1, 2, 3]], 4) := by
  decide

/-- **C11_load_stream.** `state.load(fileobj)` with the object at the boundary in front of a checkpoint is the path-form
`load` of THAT archive and leaves the object at the next boundary; into a shape-compatible state it succeeds, every network's
contents are the archive's entries and the unitary dictionary is the archive's; a position that holds a header is refused
with the model untouched. -/
theorem C11_load_stream {h : Heap} (wf : HeapWF h) (st : NState) (ok : StateOK h st) (recs : List Rec)
    (hpos : ∀ r ∈ recs, 0 < r.size) (k : Nat) (hk : k < recs.length) (sz : Nat) :
    (∀ file, recs[k] = ⟨sz, some file⟩ →
      loadStream h ⟨recs, offset recs k⟩ st =
        ((load h (fun _ => some file) st 0).1, (load h (fun _ => some file) st 0).2.1, ⟨recs, offset recs k + sz⟩,
          (load h (fun _ => some file) st 0).2.2) ∧
      (Compatible h file st.nets →
        (loadStream h ⟨recs, offset recs k⟩ st).2.2.2 = none ∧
        (∀ p ∈ st.nets, aget file (.str p.1) = some (.sd (viewNet (loadStream h ⟨recs, offset recs k⟩ st).1 p.2))) ∧
        (st.ud.isSome → ∀ u, aget file (.str "unitary_dict") = some u →
          (loadStream h ⟨recs, offset recs k⟩ st).2.1.ud = some u))) ∧
    (recs[k] = ⟨sz, none⟩ →
      (loadStream h ⟨recs, offset recs k⟩ st).2.2.2 = some .RuntimeError ∧
      (loadStream h ⟨recs, offset recs k⟩ st).1 = h ∧ (loadStream h ⟨recs, offset recs k⟩ st).2.1 = st) := by
  constructor
  · intro file hrec
    have hnext : offset recs (k + 1) = offset recs k + sz := by rw [offset_succ recs k hk, hrec]
    have e := loadStream_boundary h st recs hpos k hk sz file hrec
    rw [hnext] at e
    refine ⟨e, ?_⟩
    intro hc
    obtain ⟨l1, l2, l3⟩ := load_ok wf (fun _ => some file) st 0 file rfl ok hc
    rw [e]
    refine ⟨l1, l2, ?_⟩
    intro hsome u hu
    dsimp only
    rw [l3]
    cases hu2 : st.ud with
    | none => simp [hu2] at hsome
    | some u0 => simp only [hu]
  · intro hrec
    simp [loadStream, torchLoadS_header recs hpos k hk sz hrec]

/-- **C11_save_stream.** `state.save(fileobj, metadata)`: refused exactly when the path-form save is (reserved name or
non-string key) — and then nothing has been written; otherwise the heap is the one it was given (no side effect) and ONE
archive holding the snapshot (networks ++ metadata ++ unitary dictionary) has been written at the object's position.  With the
object at its end (appending to a stream of checkpoints): every earlier segment and boundary is as before, the new
checkpoint starts at the old end, and the object is at the new end. -/
theorem C11_save_stream {h : Heap} (wf : HeapWF h) (s : Stream) (st : NState) (md : Option Nat) (size : Nat)
    (hnm : ∀ p ∈ st.nets, p.1 ≠ "unitary_dict") :
    ((∃ e, saveStream h s st md size = .error e) ↔ Reserved st (mdEntries h md) ∨ NonStringKey (mdEntries h md)) ∧
    (∀ s' h', saveStream h s st md size = .ok (s', h') →
      h' = h ∧ s' = writeS s size (some (snapshot h st (mdEntries h md))) ∧
      (s.pos = totalSize s.recs →
        s'.recs = s.recs ++ [⟨size, some (snapshot h st (mdEntries h md))⟩] ∧ s'.pos = totalSize s'.recs ∧
        offset s'.recs s.recs.length = s.pos ∧
        (∀ k (hk : k < s.recs.length), s'.recs[k]? = some s.recs[k] ∧ offset s'.recs k = offset s.recs k))) := by
  rw [saveStream_eq]
  rcases save_cases h (fun _ => none) st md 0 hnm with ⟨r, e⟩ | ⟨r, k, e⟩ | ⟨r, k, e⟩
  · simp [e, r]
  · simp [e, k]
  · rw [e, savedFile_snapshot wf st md hnm r]
    refine ⟨by simp [r, k], ?_⟩
    intro s' h' hs
    simp only [Except.ok.injEq, Prod.mk.injEq] at hs
    obtain ⟨rfl, rfl⟩ := hs
    refine ⟨rfl, rfl, ?_⟩
    intro hend
    rw [writeS_end s size _ hend]
    refine ⟨rfl, ?_, ?_, ?_⟩
    · simp [totalSize_append, totalSize, hend]
    · simp [offset, hend]
    · intro j hj
      refine ⟨by simp [List.getElem?_append_left hj], ?_⟩
      simp [offset, List.take_append_of_le_length (Nat.le_of_lt hj)]

/-- what a `save` into a file object is SPECIFIED to leave in that object when it succeeds in world `sw` -/
def specWriteS (sw : SWorld) : SOp → Option (Nat × Stream)
  | .saveS slot md sid size =>
    match sw.w.states slot, sw.streams sid with
    | some st, some s =>
      match md with
      | none => some (sid, writeS s size (some (snapshot sw.w.heap st [])))
      | some m =>
        match sw.w.metas m with
        | none => none
        | some id => some (sid, writeS s size (some (snapshot sw.w.heap st (mdEntries sw.w.heap (some id)))))
    | _, _ => none
  | _ => none

/-- one step of the ABSTRACT machine on file objects: a successful `save` writes the specified snapshot at the object's
position; a refused one leaves every object alone; the other operations (open, the caller's own writes, seek, the position
changes of load / autoload) act as in the concrete machine -/
def absSStep (sw : SWorld) (op : SOp) : Nat → Option Stream :=
  match op with
  | .saveS .. =>
    if (sstep sw op).2 = none then
      match specWriteS sw op with
      | some (sid, s') => upd sw.streams sid s'
      | none => sw.streams
    else sw.streams
  | _ => (sstep sw op).1.streams

theorem sstep_streams (sw : SWorld) (wf : WorldWF sw.w) (op : SOp) : (sstep sw op).1.streams = absSStep sw op := by
  cases op with
  | saveS slot md sid size =>
    unfold absSStep
    cases hs : sw.w.states slot with
    | none => simp [sstep, hs]
    | some st =>
      cases hq : sw.streams sid with
      | none => simp [sstep, hs, hq]
      | some s =>
        have hnm := wf.st_noud slot st hs
        cases md with
        | none =>
          cases hsv : saveStream sw.w.heap s st none size with
          | error e => simp [sstep, hs, hq, hsv]
          | ok r =>
            obtain ⟨_, a, _⟩ := (C11_save_stream wf.heap s st none size hnm).2 r.1 r.2 hsv
            simp [sstep, hs, hq, hsv, specWriteS, a, mdEntries]
        | some m =>
          cases hm : sw.w.metas m with
          | none => simp [sstep, hs, hq, hm]
          | some id =>
            cases hsv : saveStream sw.w.heap s st (some id) size with
            | error e => simp [sstep, hs, hq, hm, hsv]
            | ok r =>
              obtain ⟨_, a, _⟩ := (C11_save_stream wf.heap s st (some id) size hnm).2 r.1 r.2 hsv
              simp [sstep, hs, hq, hm, hsv, specWriteS, a]
  | base op => rfl
  | openS sid => rfl
  | writeHdr sid n => rfl
  | seekS sid pos => rfl
  | loadS slot sid => rfl
  | autoloadS slot kind sid rand => rfl

theorem srun_append (sw : SWorld) (a b : List SOp) : srun sw (a ++ b) = srun (srun sw a) b := by
  induction a generalizing sw with
  | nil => rfl
  | cons op r ih => simp [srun, ih]

/-- **C11_history_streams** (the round trip through file objects, for all histories).  For EVERY history over states,
modules, metadata dicts, files AND open file objects (open, the caller's own header bytes, seek, save / load / autoload through
the object, interleaved with all path-form operations) from the empty world: the invariant of `C11_history` holds; every
operation moves the file objects exactly as the abstract machine prescribes (a successful save puts the SNAPSHOT of the state
at the object's position, a refused one changes nothing); and at the end, for every file object and every boundary `k` of it
that holds an archive, `load` into any shape-compatible state succeeds with that archive's parameters and unitary
dictionary, and `autoload` is the path-form autoload of that archive — each leaving the object at the next boundary. -/
theorem C11_history_streams (ops : List SOp) :
    let sw := srun SWorld.empty ops
    WorldWF sw.w ∧
    (∀ op, (srun SWorld.empty (ops ++ [op])).streams = absSStep sw op) ∧
    (∀ sid recs pos, sw.streams sid = some ⟨recs, pos⟩ → (∀ r ∈ recs, 0 < r.size) →
      ∀ k (hk : k < recs.length) sz file, recs[k] = ⟨sz, some file⟩ →
        (∀ slot st, sw.w.states slot = some st → Compatible sw.w.heap file st.nets →
          (loadStream sw.w.heap ⟨recs, offset recs k⟩ st).2.2.2 = none ∧
          (∀ q ∈ st.nets, aget file (.str q.1) =
            some (.sd (viewNet (loadStream sw.w.heap ⟨recs, offset recs k⟩ st).1 q.2))) ∧
          (st.ud.isSome → ∀ u, aget file (.str "unitary_dict") = some u →
            (loadStream sw.w.heap ⟨recs, offset recs k⟩ st).2.1.ud = some u) ∧
          (loadStream sw.w.heap ⟨recs, offset recs k⟩ st).2.2.1 = ⟨recs, offset recs k + sz⟩) ∧
        (∀ kind rand, autoloadStream sw.w.heap ⟨recs, offset recs k⟩ kind rand =
          match autoload sw.w.heap (fun _ => some file) kind 0 rand with
          | .error e => .error e
          | .ok r => .ok (r.1, r.2, ⟨recs, offset recs k + sz⟩))) := by
  intro sw
  have wfw : WorldWF sw.w := srun_wf SWorld.empty WorldWF.empty ops
  refine ⟨wfw, ?_, ?_⟩
  · intro op
    rw [srun_append]
    exact sstep_streams sw wfw op
  · intro sid recs pos _ hpos k hk sz file hrec
    constructor
    · intro slot st hs hc
      obtain ⟨l, _⟩ := C11_load_stream wfw.heap st (wfw.stateOK hs) recs hpos k hk sz
      obtain ⟨l1, l2, l3⟩ := (l file hrec).2 hc
      refine ⟨l1, l2, l3, ?_⟩
      rw [(l file hrec).1]
    · intro kind rand
      exact (C11_autoload_stream sw.w.heap kind rand recs hpos k hk sz file hrec).1

/-- a concrete non-trivial history through ONE file object: a 14-byte header, a complex state with a user-added unitary
saved behind it (archive of 100 bytes), changed and saved again behind that (120 bytes), a mixed state of other sizes saved
third (90 bytes); then `autoload` from the boundary of each checkpoint (positions 14, 114, 234) succeeds, from the header
(position 0) it is refused, a compatible `load` of the first checkpoint succeeds, and a save with a reserved key is refused. -/
example :
    let sw := srun SWorld.empty [
      .base (.construct 0 .cplx 2 (some 3) none (some [("X", 1), ("Y", 2), ("Z", 3), ("H", 4)]) [[5], [6]]),
      .base (.write 0 "rbm_am" [7, 8, 9]), .base (.addUnitary 0 "K" 13),
      .base (.mkMeta 0 [(.str "epoch", .mv false 14)]), .base (.mkMeta 1 [(.str "rbm_ph", .mv false 15)]),
      .openS 0, .writeHdr 0 14, .saveS 0 (some 0) 0 100,
      .base (.write 0 "rbm_ph" [10, 11, 12]), .saveS 0 (some 0) 0 120,
      .base (.construct 1 .dens 2 (some 1) (some 3) none [[16, 17], [18, 19]]), .saveS 1 none 0 90]
    (sw.streams 0).map (fun s => (s.recs.map (fun r => (r.size, r.data.isSome)), s.pos)) =
      some ([(14, false), (100, true), (120, true), (90, true)], 324) ∧
    (sstep (sstep sw (.seekS 0 14)).1 (.autoloadS 2 .cplx 0 [])).2 = none ∧
    (sstep (sstep sw (.seekS 0 114)).1 (.autoloadS 2 .cplx 0 [])).2 = none ∧
    (sstep (sstep sw (.seekS 0 234)).1 (.autoloadS 2 .dens 0 [])).2 = none ∧
    (sstep (sstep sw (.seekS 0 0)).1 (.autoloadS 2 .cplx 0 [])).2 = some .RuntimeError ∧
    (sstep (sstep sw (.seekS 0 14)).1 (.loadS 0 0)).2 = none ∧
    (sstep (sstep sw (.seekS 0 14)).1 (.loadS 1 0)).2 ≠ none ∧
    (sstep sw (.saveS 0 (some 1) 0 50)).2 = some .ValueError ∧
    ((sstep sw (.saveS 0 (some 1) 0 50)).1.streams 0).map (fun s => (s.recs.length, s.pos)) = some (4, 324) := by
  decide

/-! ### C11.6 — `load` REPLACES the receiver's unitary dictionary -/

/-- **C11_load_replaces_dict.** For EVERY prior dictionary `d0` of the receiving state (any user letters, any values) and every
file written by a state with dictionary `d`: after a successful `load` the receiver's dictionary is EXACTLY `d` — the same
names in the same order with the saved values; a letter the receiver had and the file lacks is gone, nothing is merged.
(The content is conjunct 2, the dictionary clause of `C11_roundtrip` read for a receiver that HAD a dictionary `d0`; `d0` enters
only through `st.ud = some _`. The former third conjunct "a name not among the keys of `d` is absent" was a corollary of
conjunct 2 (`d' = d`) and has been dropped: `aget_none_iff`.) -/
theorem C11_load_replaces_dict {h : Heap} (wf : HeapWF h) (fs : Files) (st : NState) (path : Nat) (file : File)
    (hf : fs path = some file) (ok : StateOK h st) (hc : Compatible h file st.nets)
    (d0 d : List (String × Tok)) (hd0 : st.ud = some (.ud d0)) (hd : aget file (.str "unitary_dict") = some (.ud d)) :
    (load h fs st path).2.2 = none ∧ (load h fs st path).2.1.ud = some (.ud d) := by
  obtain ⟨l1, _, l3⟩ := load_ok wf fs st path file hf ok hc
  have hud : (load h fs st path).2.1.ud = some (.ud d) := by rw [l3, hd0]; simp only [hd]
  exact ⟨l1, hud⟩

/-- satisfiable and non-trivial: the receiver owns the extra letters `Q`, `R` (and its own `H`); the file has `X, Y, Z, H, K`:
after the load the receiver has exactly the file's five entries with the file's `H` -/
example :
    let w := run World.empty [
      .construct 0 .cplx 2 (some 3) none (some [("X", 1), ("Y", 2), ("Z", 3), ("H", 4)]) [[5], [6]], .addUnitary 0 "K" 13,
      .construct 1 .cplx 2 (some 3) none (some [("X", 1), ("Y", 2), ("Z", 3), ("H", 20)]) [[16], [17]],
      .addUnitary 1 "Q" 21, .addUnitary 1 "R" 22, .save 0 none 0, .load 1 0]
    (w.states 1).bind (fun st => st.ud) = some (.ud [("X", 1), ("Y", 2), ("Z", 3), ("H", 4), ("K", 13)]) := by
  decide

/-! ### C11.7 — where the model-saving callback writes -/

/-- **C11_saver_path.** A `ModelSaver(period, folder_path, file_name)` created while the working directory is `cwd0` (any folder:
relative or absolute, with `.` / `..` levels, existing or not) — if the construction is not refused (no regular file in the
way): the folder exists as a directory afterwards, everything that was a directory still is, and for EVERY later working
directory `cwd1`, every epoch `e` with `e % period = 0` and every file name template that formats with one argument, the file
written at the end of epoch `e` is `<folder resolved against cwd0> / <file_name.format(e)>`; at epochs that are no multiple of
the period nothing is written; the initial checkpoint goes to `<the same folder> / file_name.format("initial")` iff
`save_initial`.  A `metadata` argument that is neither callable, dict nor None refuses EVERY write (both with and without
`metadata_only`), the three documented forms are `Store.saverSave`. -/
theorem C11_saver_path (fs fs' : DirFs) (cwd0 : List String) (period : Nat) (folder : PathArg) (fileName : List Seg)
    (si : Bool) (sv : PSaver) (hinit : PSaver.init true fs cwd0 period folder fileName si = .ok (sv, fs'))
    (hroot : fs [] = some true) :
    fs' (resolvePath cwd0 folder) = some true ∧ (∀ q, fs q = some true → fs' q = some true) ∧
    (∀ (cwd1 : List String) (e : Nat) (name : String), period ≠ 0 → formatName fileName (.num e) = .ok name →
      sv.epochEndTarget cwd1 e = .ok (if e % period = 0 then some (resolvePath cwd0 folder, name) else none)) ∧
    (∀ (cwd1 : List String) (name : String), formatName fileName .initial = .ok name →
      sv.trainStartTarget cwd1 = .ok (if si then some (resolvePath cwd0 folder, name) else none)) ∧
    (∀ h files st mo path, saverSaveArg h files st .other mo path = .error .UnboundLocalError) ∧
    (∀ h files st mo path id, saverSaveArg h files st (.dict id) mo path =
      match saverSave h files st (.dict id) mo path with
      | .error e => .error (.inner e)
      | .ok x => .ok x) := by
  unfold PSaver.init at hinit
  cases hm : mkdirAll fs [] (resolvePath cwd0 folder) with
  | error e => simp [hm] at hinit
  | ok fs1 =>
    simp only [hm, Except.ok.injEq, Prod.mk.injEq, if_true] at hinit
    obtain ⟨rfl, rfl⟩ := hinit
    refine ⟨?_, ?_, ?_, ?_, fun _ _ _ _ _ => rfl, fun _ _ _ _ _ _ => rfl⟩
    · simpa using mkdirAll_dir fs fs1 [] _ hm hroot
    · exact fun q hq => mkdirAll_keeps fs fs1 [] _ hm q hq
    · intro cwd1 e name hp hn
      simp only [PSaver.epochEndTarget, hp, if_false, PSaver.target, hn, resolvePath_resolved]
      split <;> rfl
    · intro cwd1 name hn
      simp only [PSaver.trainStartTarget, PSaver.target, hn, resolvePath_resolved]
      split <;> rfl

/-- satisfiable and non-trivial: folder `"runs/../ckpt/./a"` created in `/home/u` (where `/home/u/ckpt` already exists), file name
`"m{}.pt"`, period 2; the trainer then moves to `/tmp/x`.  The code writes epoch 4 to `/home/u/ckpt/a/m4.pt`; the variant that
does not resolve at construction (mutant class M5_C11_1) would write to `/tmp/x/ckpt/a/m4.pt`.  A regular file in the way, a
second blank in the file name and period 0 are refused. -/
example :
    let fs : DirFs := fun q => if q = [] ∨ q = ["home"] ∨ q = ["home", "u"] ∨ q = ["home", "u", "ckpt"] then some true
      else if q = ["home", "u", "blocked"] then some false else none
    let folder : PathArg := ⟨false, ["runs", "..", "ckpt", ".", "a"]⟩
    let tmpl : List Seg := [.lit "m", .auto, .lit ".pt"]
    let tgt := fun (r : Except PErr (PSaver × DirFs)) (cwd1 : List String) (e : Nat) => match r with
      | .ok x => (match x.1.epochEndTarget cwd1 e with | .ok t => t | .error _ => none)
      | .error _ => none
    tgt (PSaver.init true fs ["home", "u"] 2 folder tmpl true) ["tmp", "x"] 4 = some (["home", "u", "ckpt", "a"], "m4.pt") ∧
    tgt (PSaver.init true fs ["home", "u"] 2 folder tmpl true) ["tmp", "x"] 3 = none ∧
    tgt (PSaver.init false fs ["home", "u"] 2 folder tmpl true) ["tmp", "x"] 4 = some (["tmp", "x", "ckpt", "a"], "m4.pt") ∧
    (match PSaver.init true fs ["home", "u"] 2 ⟨false, ["blocked", "a"]⟩ tmpl true with | .ok _ => false | .error _ => true) = true ∧
    formatName [.lit "m", .auto, .auto] (.num 4) = .error .IndexError ∧
    formatName [.lit "m", .idx 0, .lit "-", .idx 0] .initial = .ok "minitial-initial" ∧
    (match PSaver.init true fs ["home", "u"] 0 folder tmpl true with
      | .ok x => (match x.1.epochEndTarget [] 4 with | .error .ZeroDivisionError => true | _ => false)
      | .error _ => false) = true := by
  decide

end C11
end QV.Props
