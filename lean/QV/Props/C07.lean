/-
C07 — Every epoch uses every training sample once, paired with its own basis.

"In each training epoch every row of the training data appears in exactly one positive-phase batch,
together with exactly its own row of measurement bases; batches have the requested size except possibly
the last, and there are ceil(N / batch size) of them. Negative-phase chains are started from
neg_batch_size rows of the training data (only rows measured entirely in the reference basis when bases
are supplied), and training never modifies the caller's data or bases."

All theorems: ∀ N ≥ 1, ∀ batch sizes ≥ 1, ∀ `perm` that `torch.randperm(N)` can return (any permutation of
`0 … N-1`), ∀ `negIdx` that `torch.randint` can return, ∀ row contents (duplicates allowed), with and
without bases. Model: `QV.Batching.shuffleData` / `epochBatches` / `extractRefbasis` / `epochOnHeap`
(QV/Model/Batching.lean), executed against `NeuralStateBase._shuffle_data` / `fit` by the C07 correspondence
check with the recorded `randperm` / `randint` results.
-/
import QV.Model.Batching
import QV.Lemmas.Batching
import QV.Model.CallForm
import QV.Lemmas.CallForm
import QV.Lemmas.ArgConv

namespace QV.Props
namespace C07
open QV QV.Batching

/-! ## Specification vocabulary -/

/-- what `torch.randint(high, size=(size,))` can return -/
def IsRandint (high size : Nat) (idx : List Nat) : Prop := idx.length = size ∧ ∀ i ∈ idx, i < high

/-- Inputs on which `_shuffle_data` is called by `fit` without raising: `N ≥ 1` rows, batch sizes `≥ 1`,
`perm` a permutation of `0 … N-1`, `numBatches = ⌈N / pos_batch_size⌉`; if bases are given there is one basis
row per sample and at least one reference-basis sample, and `negIdx` is a `randint` result over them of size
`numBatches * neg_batch_size`; without bases and with different batch sizes `negIdx` is such a result over all
`N` rows (with equal batch sizes `randint` is not called and `negIdx` is irrelevant). -/
structure Valid {ρ : Type} (samples : List ρ) (bases : Option (List (List String))) (z : List ρ)
    (perm negIdx : List Nat) (posB negB nb : Nat) : Prop where
  hN : 1 ≤ samples.length
  hB : 1 ≤ posB
  hnB : 1 ≤ negB
  hperm : perm.Perm (List.range samples.length)
  hnb : nb = ceilDiv samples.length posB
  hbases : ∀ bs, bases = some bs → bs.length = samples.length ∧ 1 ≤ z.length ∧ IsRandint z.length (nb * negB) negIdx
  hnobases : bases = none → negB ≠ posB → IsRandint samples.length (nb * negB) negIdx

/-! ## Glue (not property theorems) -/

theorem ceilDiv_mul (nb B : Nat) (hB : 1 ≤ B) : ceilDiv (nb * B) B = nb := by
  unfold ceilDiv
  apply Nat.div_eq_of_lt_le
  · omega
  · rw [Nat.succ_mul]; omega

theorem slices_flatten' {α : Type} (B : Nat) (xs : List α) (hB : 1 ≤ B) : (slices B xs).flatten = xs :=
  slices_flatten B xs hB

theorem slices_length' {α : Type} (B : Nat) (xs : List α) : (slices B xs).length = ceilDiv xs.length B :=
  slices_length B xs

theorem perm_mem_lt {N : Nat} {perm : List Nat} (h : perm.Perm (List.range N)) : ∀ i ∈ perm, i < N :=
  fun _ hi => List.mem_range.mp (h.mem_iff.mp hi)

theorem perm_length {N : Nat} {perm : List Nat} (h : perm.Perm (List.range N)) : perm.length = N := by
  simpa using h.length_eq

/-- the shape of a successful `_shuffle_data` call -/
theorem shuffle_shape {ρ : Type} {samples : List ρ} {bases : Option (List (List String))} {z : List ρ}
    {perm negIdx : List Nat} {posB negB nb : Nat} (v : Valid samples bases z perm negIdx posB negB nb) :
    ∃ out sp sn, shuffleData perm negIdx posB negB nb samples bases z = .ok out ∧ Rows samples perm sp ∧
      out.batches.map (·.pos) = slices posB sp ∧ out.batches.map (·.neg) = slices negB sn ∧
      (∀ bs, bases = some bs → Rows z negIdx sn ∧ out.randint = some (z.length, nb * negB) ∧
          ∃ sb, Rows bs perm sb ∧ out.batches.map (·.bases) = (slices posB sb).map some) ∧
      (bases = none → (∀ b ∈ out.batches, b.bases = none) ∧
          ((negB = posB ∧ sn = sp ∧ out.randint = none) ∨
           (negB ≠ posB ∧ Rows samples negIdx sn ∧ out.randint = some (samples.length, nb * negB)))) := by
  have hpl := perm_mem_lt v.hperm
  have hplen := perm_length v.hperm
  cases hb : bases with
  | none =>
    by_cases heq : negB = posB
    · subst heq
      obtain ⟨sp, hsp, hs⟩ := shuffleData_mirror perm negIdx negB nb samples z v.hB hpl
      refine ⟨_, sp, sp, hs, hsp, ?_, ?_, fun bs h => (by cases h), fun _ => ⟨?_, Or.inl ⟨rfl, rfl, rfl⟩⟩⟩
      · exact (zip2_proj _ _ rfl).1
      · exact (zip2_proj _ _ rfl).2.1
      · exact (zip2_proj _ _ rfl).2.2
    · obtain ⟨hl, hlt⟩ := v.hnobases hb heq
      obtain ⟨sp, sn, hsp, hsn, hs⟩ := shuffleData_randint perm negIdx posB negB nb samples z heq v.hB v.hnB v.hN hpl hlt
      have hlen : (slices posB sp).length = (slices negB sn).length := by
        rw [slices_length', slices_length', hsp.length, hsn.length, hplen, hl, ceilDiv_mul nb negB v.hnB, v.hnb]
      refine ⟨_, sp, sn, hs, hsp, ?_, ?_, fun bs h => (by cases h), fun _ => ⟨?_, Or.inr ⟨heq, hsn, rfl⟩⟩⟩
      · exact (zip2_proj _ _ hlen).1
      · exact (zip2_proj _ _ hlen).2.1
      · exact (zip2_proj _ _ hlen).2.2
  | some bs =>
    obtain ⟨hbl, hz, hl, hlt⟩ := v.hbases bs hb
    obtain ⟨sp, sn, sb, hsp, hsn, hsb, hs⟩ := shuffleData_bases perm negIdx posB negB nb samples z bs v.hB v.hnB hz hpl
      (fun i hi => by rw [hbl]; exact hpl i hi) hlt
    have hsbl : sb.length = samples.length := by rw [hsb.length, hplen]
    have hbb : (batchStarts samples.length posB).map (fun st => (sb.drop st).take posB) = slices posB sb := by
      unfold slices; rw [hsbl]
    rw [hbb] at hs
    have hlen : (slices posB sp).length = (slices negB sn).length := by
      rw [slices_length', slices_length', hsp.length, hsn.length, hplen, hl, ceilDiv_mul nb negB v.hnB, v.hnb]
    have hlen' : (slices posB sp).length = (slices posB sb).length := by
      rw [slices_length', slices_length', hsp.length, hsbl, hplen]
    refine ⟨_, sp, sn, hs, hsp, ?_, ?_, fun bs' h => ?_, fun h => (by cases h)⟩
    · exact (zip3_proj _ _ _ hlen hlen').1
    · exact (zip3_proj _ _ _ hlen hlen').2.1
    · cases h
      exact ⟨hsn, rfl, sb, hsb, (zip3_proj _ _ _ hlen hlen').2.2⟩

/-- slice `j` of the rows is the rows at slice `j` of the indices -/
theorem rows_slices {α : Type} {xs : List α} {idx : List Nat} {ys : List α} (h : Rows xs idx ys) (B : Nat)
    (j : Nat) (i : List Nat) (y : List α) (hi : (slices B idx)[j]? = some i) (hy : (slices B ys)[j]? = some y) :
    Rows xs i y := by
  unfold slices at hi hy
  rw [h.length] at hy
  rw [List.getElem?_map] at hi hy
  cases hst : (batchStarts idx.length B)[j]? with
  | none => rw [hst] at hi; cases hi
  | some st =>
    rw [hst] at hi hy
    simp only [Option.map_some, Option.some.injEq] at hi hy
    subst hi; subst hy
    exact h.slice st B

theorem flatMap_eq_flatten_map {α β : Type} (l : List α) (f : α → List β) : l.flatMap f = (l.map f).flatten := by
  simp [List.flatMap]

theorem getElem?_map_some {α β : Type} {l : List α} {f : α → β} {j : Nat} {a : α} (h : l[j]? = some a) :
    (l.map f)[j]? = some (f a) := by
  rw [List.getElem?_map, h]; rfl

/-- `Rows` read pointwise -/
theorem rows_get {α : Type} {xs : List α} {idx : List Nat} {ys : List α} (h : Rows xs idx ys) (i p : Nat)
    (hp : idx[i]? = some p) : ∃ y, ys[i]? = some y ∧ xs[p]? = some y := by
  have h1 : (ys.map some)[i]? = (idx.map (fun k => xs[k]?))[i]? := by rw [h]
  rw [List.getElem?_map, List.getElem?_map, hp] at h1
  cases hy : ys[i]? with
  | none => rw [hy] at h1; cases h1
  | some y =>
    rw [hy] at h1
    simp only [Option.map_some, Option.some.injEq] at h1
    exact ⟨y, rfl, h1.symm⟩

theorem slice_length {α : Type} (B : Nat) (xs : List α) (j : Nat) (y : List α) (hy : (slices B xs)[j]? = some y) :
    j < ceilDiv xs.length B ∧ y.length = min B (xs.length - j * B) ∧ ∀ r ∈ y, r ∈ xs := by
  unfold slices batchStarts at hy
  rw [List.getElem?_map, List.getElem?_map] at hy
  cases hj : (List.range ((xs.length + B - 1) / B))[j]? with
  | none => rw [hj] at hy; cases hy
  | some k =>
    rw [hj] at hy
    obtain ⟨hlt, hk⟩ := List.getElem?_eq_some_iff.mp hj
    simp only [List.getElem_range] at hk
    subst hk
    simp only [Option.map_some, Option.some.injEq] at hy
    subst hy
    refine ⟨by simpa [ceilDiv] using hlt, by simp, fun r hr => ?_⟩
    exact List.mem_of_mem_drop (List.mem_of_mem_take hr)

/-- arithmetic of the batch sizes -/
theorem batch_size_arith (N B j : Nat) (hB : 1 ≤ B) (hN : 1 ≤ N) (hj : j < ceilDiv N B) :
    1 ≤ min B (N - j * B) ∧ min B (N - j * B) ≤ B ∧
    (j + 1 < ceilDiv N B → min B (N - j * B) = B) ∧
    (j + 1 = ceilDiv N B → min B (N - j * B) = N - (ceilDiv N B - 1) * B) := by
  have h1 := ceilDiv_pred_mul_lt N B hB hN
  have h2 := ceilDiv_mul_ge N B hB
  have h3 : j * B ≤ (ceilDiv N B - 1) * B := Nat.mul_le_mul_right B (by omega)
  refine ⟨by omega, by omega, fun h => ?_, fun h => ?_⟩
  · have h4 : (j + 1) * B ≤ (ceilDiv N B - 1) * B := Nat.mul_le_mul_right B (by omega)
    rw [Nat.succ_mul] at h4
    omega
  · have h5 : ceilDiv N B - 1 = j := by omega
    rw [h5]
    have h6 : ceilDiv N B * B = j * B + B := by rw [← h, Nat.succ_mul]
    omega

theorem mem_zipRef2 {ps ns : List View} {r : BatchRef} (h : r ∈ zipRef2 ps ns) :
    r.pos ∈ ps ∧ r.neg ∈ ns ∧ r.bases = none := by
  induction ps generalizing ns with
  | nil => simp [zipRef2] at h
  | cons p ps ih => cases ns with
    | nil => simp [zipRef2] at h
    | cons n ns =>
      simp only [zipRef2, List.mem_cons] at h
      rcases h with rfl | h
      · simp
      · obtain ⟨h1, h2, h3⟩ := ih h
        exact ⟨List.mem_cons_of_mem _ h1, List.mem_cons_of_mem _ h2, h3⟩

theorem mem_zipRef3 {ps ns bs : List View} {r : BatchRef} (h : r ∈ zipRef3 ps ns bs) :
    r.pos ∈ ps ∧ r.neg ∈ ns ∧ ∃ v ∈ bs, r.bases = some v := by
  induction ps generalizing ns bs with
  | nil => simp [zipRef3] at h
  | cons p ps ih => cases ns with
    | nil => simp [zipRef3] at h
    | cons n ns => cases bs with
      | nil => simp [zipRef3] at h
      | cons b bs =>
        simp only [zipRef3, List.mem_cons] at h
        rcases h with rfl | h
        · simp
        · obtain ⟨h1, h2, v, h3, h4⟩ := ih h
          exact ⟨List.mem_cons_of_mem _ h1, List.mem_cons_of_mem _ h2, v, List.mem_cons_of_mem _ h3, h4⟩

theorem mem_viewsOf {storage len B : Nat} {v : View} (h : v ∈ viewsOf storage len B) : v.storage = storage := by
  simp only [viewsOf, List.mem_map] at h
  obtain ⟨_, _, rfl⟩ := h
  rfl

/-! ## Property theorems -/

section
variable {ρ : Type} {samples : List ρ} {bases : Option (List (List String))} {z : List ρ}
  {perm negIdx : List Nat} {posB negB nb : Nat}

/-- **C07.1** One epoch's positive batches partition the data: their concatenation is the `perm`-reindexed data,
hence a permutation of the rows as a multiset (duplicate rows are counted); in terms of row indices, the batches
are the consecutive slices `idxB` of `perm`, whose concatenation is `perm`, a permutation of `0 … N-1` — every row
index occurs in exactly one batch, exactly once. -/
theorem C07_partition (v : Valid samples bases z perm negIdx posB negB nb) :
    ∃ out, shuffleData perm negIdx posB negB nb samples bases z = .ok out ∧
      Rows samples perm (out.batches.map (·.pos)).flatten ∧
      ((out.batches.map (·.pos)).flatten).Perm samples ∧
      ∃ idxB : List (List Nat), idxB.flatten = perm ∧ idxB.flatten.Perm (List.range samples.length) ∧
        idxB.length = out.batches.length ∧
        ∀ (j : Nat) (idx : List Nat) (b : Batch ρ), idxB[j]? = some idx → out.batches[j]? = some b → Rows samples idx b.pos := by
  obtain ⟨out, sp, sn, hs, hsp, hpos, _, _, _⟩ := shuffle_shape v
  have hflat : (out.batches.map (·.pos)).flatten = sp := by
    rw [hpos]; exact slices_flatten' posB sp v.hB
  refine ⟨out, hs, by rw [hflat]; exact hsp, by rw [hflat]; exact hsp.perm v.hperm,
    slices posB perm, slices_flatten' posB perm v.hB, by rw [slices_flatten' posB perm v.hB]; exact v.hperm, ?_, ?_⟩
  · have := congrArg List.length hpos
    rw [List.length_map] at this
    rw [this, slices_length', slices_length', hsp.length]
  · intro j idx b hi hb
    have : (slices posB sp)[j]? = some b.pos := by rw [← hpos]; exact getElem?_map_some hb
    exact rows_slices hsp posB j idx b.pos hi this

/-- **C07.2** With bases, row `i` of positive batch `j` and row `i` of the bases batch `j` are
`(samples[p], bases[p])` for one and the same index `p = idxB[j][i]` (the slices of the single permutation). -/
theorem C07_own_basis (bs : List (List String)) (hb : bases = some bs)
    (v : Valid samples bases z perm negIdx posB negB nb) :
    ∃ out, shuffleData perm negIdx posB negB nb samples bases z = .ok out ∧
      ∃ idxB : List (List Nat), idxB.flatten = perm ∧ idxB.length = out.batches.length ∧
        ∀ (j : Nat) (idx : List Nat) (b : Batch ρ), idxB[j]? = some idx → out.batches[j]? = some b →
          ∃ bb, b.bases = some bb ∧ Rows samples idx b.pos ∧ Rows bs idx bb ∧
            ∀ (i p : Nat), idx[i]? = some p →
              ∃ (r : ρ) (β : List String), b.pos[i]? = some r ∧ samples[p]? = some r ∧ bb[i]? = some β ∧ bs[p]? = some β := by
  obtain ⟨out, sp, sn, hs, hsp, hpos, _, hbase, _⟩ := shuffle_shape v
  obtain ⟨_, _, sb, hsb, hbb⟩ := hbase bs hb
  refine ⟨out, hs, slices posB perm, slices_flatten' posB perm v.hB, ?_, ?_⟩
  · have := congrArg List.length hpos
    rw [List.length_map] at this
    rw [this, slices_length', slices_length', hsp.length]
  · intro j idx b hi hbj
    have h1 : (slices posB sp)[j]? = some b.pos := by rw [← hpos]; exact getElem?_map_some hbj
    have h2 : ((slices posB sb).map some)[j]? = some b.bases := by rw [← hbb]; exact getElem?_map_some hbj
    rw [List.getElem?_map] at h2
    cases hq : (slices posB sb)[j]? with
    | none => rw [hq] at h2; cases h2
    | some bb =>
      rw [hq] at h2
      simp only [Option.map_some, Option.some.injEq] at h2
      have r1 := rows_slices hsp posB j idx b.pos hi h1
      have r2 := rows_slices hsb posB j idx bb hi hq
      refine ⟨bb, h2.symm, r1, r2, fun i p hp => ?_⟩
      obtain ⟨r, g1, g2⟩ := rows_get r1 i p hp
      obtain ⟨β, g3, g4⟩ := rows_get r2 i p hp
      exact ⟨r, β, g1, g2, g3, g4⟩

/-- **C07.3** There are `⌈N / pos_batch_size⌉` batches; batch `j` has `min(B, N - jB)` rows, i.e. all have `B` rows
except the last, which has `N - (⌈N/B⌉ - 1)·B ∈ [1, B]`; a bases batch has as many rows as its positive batch.
(`zip` drops nothing here — see `C07_zip_truncation` for when it could.) -/
theorem C07_sizes (v : Valid samples bases z perm negIdx posB negB nb) :
    ∃ out, shuffleData perm negIdx posB negB nb samples bases z = .ok out ∧
      out.batches.length = ceilDiv samples.length posB ∧
      ∀ (j : Nat) (b : Batch ρ), out.batches[j]? = some b →
        b.pos.length = min posB (samples.length - j * posB) ∧ 1 ≤ b.pos.length ∧ b.pos.length ≤ posB ∧
        (j + 1 < ceilDiv samples.length posB → b.pos.length = posB) ∧
        (j + 1 = ceilDiv samples.length posB →
          b.pos.length = samples.length - (ceilDiv samples.length posB - 1) * posB) ∧
        ∀ bb, b.bases = some bb → bb.length = b.pos.length := by
  obtain ⟨out, sp, sn, hs, hsp, hpos, _, hbase, hnob⟩ := shuffle_shape v
  have hspl : sp.length = samples.length := by rw [hsp.length, perm_length v.hperm]
  have hlen : out.batches.length = ceilDiv samples.length posB := by
    have := congrArg List.length hpos
    rw [List.length_map] at this
    rw [this, slices_length', hspl]
  refine ⟨out, hs, hlen, fun j b hbj => ?_⟩
  have h1 : (slices posB sp)[j]? = some b.pos := by rw [← hpos]; exact getElem?_map_some hbj
  obtain ⟨hj, hl, _⟩ := slice_length posB sp j b.pos h1
  rw [hspl] at hj hl
  obtain ⟨a1, a2, a3, a4⟩ := batch_size_arith samples.length posB j v.hB v.hN hj
  refine ⟨hl, by omega, by omega, fun h => by rw [hl]; exact a3 h, fun h => by rw [hl]; exact a4 h, fun bb hbb => ?_⟩
  cases hb : bases with
  | none => rw [(hnob hb).1 b (List.mem_of_getElem? hbj)] at hbb; cases hbb
  | some bs =>
    obtain ⟨_, _, sb, hsb, hbbs⟩ := hbase bs hb
    have h2 : ((slices posB sb).map some)[j]? = some b.bases := by rw [← hbbs]; exact getElem?_map_some hbj
    rw [List.getElem?_map, hbb] at h2
    cases hq : (slices posB sb)[j]? with
    | none => rw [hq] at h2; cases h2
    | some bb' =>
      rw [hq] at h2
      simp only [Option.map_some, Option.some.injEq] at h2
      subst h2
      obtain ⟨_, hl', _⟩ := slice_length posB sb j bb' hq
      rw [hl', hl, hsb.length, perm_length v.hperm]

/-- **C07.3b** When could `zip` truncate? For an arbitrary `num_batches` argument the number of zipped batches is
`min(⌈N/B⌉, num_batches)` in the two `randint` modes (the negative list has exactly `num_batches` slices) and `⌈N/B⌉`
in the mirrored mode: tail batches would be dropped iff `num_batches < ⌈N/B⌉`. `fit` passes `⌈N/B⌉` (`C07_fit_batches`),
so nothing is dropped. -/
theorem C07_zip_truncation (hN : 1 ≤ samples.length) (hB : 1 ≤ posB) (hnB : 1 ≤ negB)
    (hperm : perm.Perm (List.range samples.length))
    (hbases : ∀ bs, bases = some bs → bs.length = samples.length ∧ 1 ≤ z.length ∧ IsRandint z.length (nb * negB) negIdx)
    (hnobases : bases = none → negB ≠ posB → IsRandint samples.length (nb * negB) negIdx) :
    ∃ out, shuffleData perm negIdx posB negB nb samples bases z = .ok out ∧
      out.batches.length =
        if bases = none ∧ negB = posB then ceilDiv samples.length posB else min (ceilDiv samples.length posB) nb := by
  have hpl := perm_mem_lt hperm
  have hplen := perm_length hperm
  cases hb : bases with
  | none =>
    by_cases heq : negB = posB
    · subst heq
      obtain ⟨sp, hsp, hs⟩ := shuffleData_mirror perm negIdx negB nb samples z hB hpl
      refine ⟨_, hs, ?_⟩
      simp only [zip2_length, slices_length', hsp.length, hplen, and_self, if_true, Nat.min_self]
    · obtain ⟨hl, hlt⟩ := hnobases hb heq
      obtain ⟨sp, sn, hsp, hsn, hs⟩ := shuffleData_randint perm negIdx posB negB nb samples z heq hB hnB hN hpl hlt
      refine ⟨_, hs, ?_⟩
      simp only [zip2_length, slices_length', hsp.length, hsn.length, hplen, hl, ceilDiv_mul nb negB hnB, heq,
        and_false, if_false]
  | some bs =>
    obtain ⟨hbl, hz, hl, hlt⟩ := hbases bs hb
    obtain ⟨sp, sn, sb, hsp, hsn, hsb, hs⟩ := shuffleData_bases perm negIdx posB negB nb samples z bs hB hnB hz hpl
      (fun i hi => by rw [hbl]; exact hpl i hi) hlt
    refine ⟨_, hs, ?_⟩
    simp only [zip3_length, slices_length', hsp.length, hsn.length, hplen, hl, ceilDiv_mul nb negB hnB,
      List.length_map, batchStarts_length, reduceCtorEq, false_and, if_false]
    omega

/-- **C07.4a** Every negative-phase row is a training row — with bases, a row of the reference-basis sample list `z`
(see `C07_refbasis`); negative batches mirror the positive ones when no bases are given and the sizes coincide, and
otherwise have exactly `neg_batch_size` rows each. -/
theorem C07_negative (v : Valid samples bases z perm negIdx posB negB nb) :
    ∃ out, shuffleData perm negIdx posB negB nb samples bases z = .ok out ∧
      (∀ b ∈ out.batches, ∀ r ∈ b.neg, (bases = none → r ∈ samples) ∧ (∀ bs, bases = some bs → r ∈ z)) ∧
      (bases = none → negB = posB → ∀ b ∈ out.batches, b.neg = b.pos) ∧
      ((bases ≠ none ∨ negB ≠ posB) → ∀ b ∈ out.batches, b.neg.length = negB) := by
  obtain ⟨out, sp, sn, hs, hsp, hpos, hneg, hbase, hnob⟩ := shuffle_shape v
  refine ⟨out, hs, ?_, ?_, ?_⟩
  · intro b hb r hr
    obtain ⟨j, hj⟩ := List.mem_iff_getElem?.mp hb
    have h1 : (slices negB sn)[j]? = some b.neg := by rw [← hneg]; exact getElem?_map_some hj
    have hrsn : r ∈ sn := (slice_length negB sn j b.neg h1).2.2 r hr
    refine ⟨fun hnone => ?_, fun bs hbs => (hbase bs hbs).1.mem r hrsn⟩
    rcases (hnob hnone).2 with ⟨_, hsnsp, _⟩ | ⟨_, hrows, _⟩
    · rw [hsnsp] at hrsn; exact hsp.mem r hrsn
    · exact hrows.mem r hrsn
  · intro hnone heq b hb
    rcases (hnob hnone).2 with ⟨_, hsnsp, _⟩ | ⟨hne, _, _⟩
    · have : out.batches.map (·.neg) = out.batches.map (·.pos) := by rw [hneg, hpos, hsnsp, heq]
      exact List.map_inj_left.mp this b hb
    · exact absurd heq hne
  · intro hmode b hb
    obtain ⟨j, hj⟩ := List.mem_iff_getElem?.mp hb
    have h1 : (slices negB sn)[j]? = some b.neg := by rw [← hneg]; exact getElem?_map_some hj
    obtain ⟨hjlt, hl, _⟩ := slice_length negB sn j b.neg h1
    have hsnl : sn.length = nb * negB := by
      cases hb' : bases with
      | none =>
        rcases (hnob hb').2 with ⟨heq, _, _⟩ | ⟨hne, hrows, _⟩
        · rcases hmode with h | h
          · exact absurd hb' h
          · exact absurd heq h
        · rw [hrows.length]; exact (v.hnobases hb' hne).1
      | some bs => rw [(hbase bs hb').1.length]; exact (v.hbases bs hb').2.2.1
    rw [hsnl, ceilDiv_mul nb negB v.hnB] at hjlt
    rw [hl, hsnl]
    have h3 : (j + 1) * negB ≤ nb * negB := Nat.mul_le_mul_right negB (by omega)
    rw [Nat.succ_mul] at h3
    omega

end

theorem filterMap_allZ {ρ : Type} (l : List (ρ × List String)) :
    l.filterMap (fun p => if allZ p.2 then some p.1 else none) = (l.filter (fun p => allZ p.2)).map Prod.fst := by
  induction l with
  | nil => rfl
  | cons p l ih =>
    by_cases h : allZ p.2 = true
    · simp [h, ih]
    · simp [h, ih]

/-- **C07.4b** `extract_refbasis_samples` returns exactly the rows whose basis row consists of `"Z"` only, in their
original order (a sub-list of the data; duplicates kept); a bases array of the wrong length is an `IndexError`. -/
theorem C07_refbasis {ρ : Type} (samples : List ρ) (bs : List (List String)) :
    (bs.length = samples.length → ∃ z, extractRefbasis samples bs = .ok z ∧ z.Sublist samples ∧
      z = ((samples.zip bs).filter (fun p => allZ p.2)).map Prod.fst ∧
      ∀ r, r ∈ z ↔ ∃ (k : Nat) (row : List String), samples[k]? = some r ∧ bs[k]? = some row ∧ ∀ s ∈ row, s = "Z") ∧
    (bs.length ≠ samples.length → extractRefbasis samples bs = .error .IndexError) := by
  constructor
  · intro hl
    refine ⟨_, by simp [extractRefbasis, hl], ?_, filterMap_allZ _, ?_⟩
    · rw [filterMap_allZ]
      have h1 : List.Sublist (((samples.zip bs).filter (fun p => allZ p.2)).map Prod.fst)
          ((samples.zip bs).map Prod.fst) := List.Sublist.map _ List.filter_sublist
      rwa [List.map_fst_zip (by omega)] at h1
    · intro r
      rw [filterMap_allZ]
      simp only [List.mem_map, List.mem_filter, Prod.exists, exists_and_right, exists_eq_right]
      constructor
      · rintro ⟨row, hmem, hz⟩
        obtain ⟨k, hk⟩ := List.mem_iff_getElem?.mp hmem
        rw [List.getElem?_zip_eq_some] at hk
        refine ⟨k, row, hk.1, hk.2, ?_⟩
        intro s hs
        have := List.all_eq_true.mp hz s hs
        simpa using this
      · rintro ⟨k, row, h1, h2, h3⟩
        refine ⟨row, List.mem_iff_getElem?.mpr ⟨k, List.getElem?_zip_eq_some.mpr ⟨h1, h2⟩⟩, ?_⟩
        exact List.all_eq_true.mpr (fun s hs => by simpa using h3 s hs)
  · intro hl
    simp [extractRefbasis, hl]

/-- **C07.5a** What `fit` passes to `_shuffle_data`: its own copy of the data (equal contents), the caller's bases,
`neg_batch_size` defaulted to `pos_batch_size` when `None` (or 0), `num_batches = ⌈N / pos_batch_size⌉`, and
`z_samples = extract_refbasis_samples(data, bases)` when bases are given. -/
theorem C07_fit_batches {ρ : Type} (data : List ρ) (bases : Option (List (List String))) (posB : Nat)
    (negB : Option Nat) (perm negIdx : List Nat) (hB : 1 ≤ posB)
    (hbl : ∀ bs, bases = some bs → bs.length = data.length) :
    ∃ z, (∀ bs, bases = some bs → extractRefbasis data bs = .ok z) ∧ (bases = none → z = []) ∧
      epochBatches data bases posB negB perm negIdx =
        shuffleData perm negIdx posB (effNegB negB posB) (ceilDiv data.length posB) data bases z ∧
      1 ≤ effNegB negB posB ∧ (negB = none → effNegB negB posB = posB) ∧
      (∀ k, 1 ≤ k → negB = some k → effNegB negB posB = k) := by
  have heff : 1 ≤ effNegB negB posB := by
    cases negB with
    | none => simpa [effNegB] using hB
    | some k => cases k with
      | zero => simpa [effNegB] using hB
      | succ k => simp [effNegB]
  have hnb : numBatches data.length posB = .ok (ceilDiv data.length posB) := by
    simp [numBatches, ceilDiv, show posB ≠ 0 by omega]
  have hk : ∀ k, 1 ≤ k → negB = some k → effNegB negB posB = k := by
    intro k hk h; subst h
    cases k with
    | zero => omega
    | succ k => simp [effNegB]
  cases hb : bases with
  | none =>
    refine ⟨[], fun bs h => (by cases h), fun _ => rfl, ?_, heff, fun h => (by subst h; rfl), hk⟩
    simp [epochBatches, prepare, hnb, bind, Except.bind, pure, Except.pure]
  | some bs =>
    have hl := hbl bs hb
    obtain ⟨z, hz, _⟩ := (C07_refbasis data bs).1 hl
    refine ⟨z, fun bs' h => (by cases h; exact hz), fun h => (by cases h), ?_, heff, fun h => (by subst h; rfl), hk⟩
    simp [epochBatches, prepare, hnb, hz, bind, Except.bind, pure, Except.pure]

/-- **C07.5c (fit-level corollary)** One epoch of `fit(data, pos_batch_size, neg_batch_size, input_bases)` with NOTHING to assemble by
hand: for `N ≥ 1` rows, `pos_batch_size ≥ 1`, any `neg_batch_size` (given, `None` or `0`), any permutation `perm` that `randperm(N)` can
return, bases (if given) with one row per sample and at least one all-`Z` row, and any `randint` result `negIdx` of the size and range
`fit` requests (over `z = extract_refbasis_samples(data, bases)` with bases; over the `N` rows without bases when the sizes differ):
`epochBatches` succeeds and
(1) the positive batches concatenate to the `perm`-reindexed data, a permutation of the rows (multiset);
(2) there are `⌈N/B⌉` batches, batch `j` has `min(B, N − jB) ∈ [1, B]` rows, a bases batch as many as its positive batch;
(3) with bases, row `i` of batch `j` and row `i` of its bases batch are `(data[p], bases[p])` for the same `p` (the slices of `perm`);
(4) every negative row is a data row — with bases a row of `z`, i.e. `data[k]` for some `k` whose basis row is all `Z`; negative batches equal
the positive ones (no bases, equal sizes) or have exactly the effective `neg_batch_size` rows. -/
theorem C07_fit_epoch {ρ : Type} (data : List ρ) (bases : Option (List (List String))) (posB : Nat) (negB : Option Nat)
    (perm negIdx : List Nat) (hN : 1 ≤ data.length) (hB : 1 ≤ posB) (hperm : perm.Perm (List.range data.length))
    (hbases : ∀ bs, bases = some bs → bs.length = data.length ∧ (∃ row ∈ bs, ∀ s ∈ row, s = "Z") ∧
      ∀ z, extractRefbasis data bs = .ok z → IsRandint z.length (ceilDiv data.length posB * effNegB negB posB) negIdx)
    (hnobases : bases = none → effNegB negB posB ≠ posB →
      IsRandint data.length (ceilDiv data.length posB * effNegB negB posB) negIdx) :
    ∃ z out, (∀ bs, bases = some bs → extractRefbasis data bs = .ok z) ∧
      epochBatches data bases posB negB perm negIdx = .ok out ∧
      Valid data bases z perm negIdx posB (effNegB negB posB) (ceilDiv data.length posB) ∧
      (Rows data perm (out.batches.map (·.pos)).flatten ∧ ((out.batches.map (·.pos)).flatten).Perm data) ∧
      (out.batches.length = ceilDiv data.length posB ∧
        ∀ (j : Nat) (b : Batch ρ), out.batches[j]? = some b →
          b.pos.length = min posB (data.length - j * posB) ∧ 1 ≤ b.pos.length ∧ b.pos.length ≤ posB ∧
          ∀ bb, b.bases = some bb → bb.length = b.pos.length) ∧
      (∀ bs, bases = some bs → ∃ idxB : List (List Nat), idxB.flatten = perm ∧ idxB.length = out.batches.length ∧
        ∀ (j : Nat) (idx : List Nat) (b : Batch ρ), idxB[j]? = some idx → out.batches[j]? = some b →
          ∃ bb, b.bases = some bb ∧ ∀ (i p : Nat), idx[i]? = some p →
            ∃ (r : ρ) (β : List String), b.pos[i]? = some r ∧ data[p]? = some r ∧ bb[i]? = some β ∧ bs[p]? = some β) ∧
      (∀ b ∈ out.batches, ∀ r ∈ b.neg, r ∈ data ∧ ∀ bs, bases = some bs →
        r ∈ z ∧ ∃ (k : Nat) (row : List String), data[k]? = some r ∧ bs[k]? = some row ∧ ∀ s ∈ row, s = "Z") ∧
      (bases = none → effNegB negB posB = posB → ∀ b ∈ out.batches, b.neg = b.pos) ∧
      ((bases ≠ none ∨ effNegB negB posB ≠ posB) → ∀ b ∈ out.batches, b.neg.length = effNegB negB posB) := by
  obtain ⟨z, hz, hznone, hep, heff, _, _⟩ := C07_fit_batches data bases posB negB perm negIdx hB
    (fun bs h => (hbases bs h).1)
  -- facts about z when bases are given
  have hzfacts : ∀ bs, bases = some bs → z.Sublist data ∧ 1 ≤ z.length ∧
      ∀ r, r ∈ z ↔ ∃ (k : Nat) (row : List String), data[k]? = some r ∧ bs[k]? = some row ∧ ∀ s ∈ row, s = "Z" := by
    intro bs hb
    obtain ⟨hl, ⟨row, hrow, hallz⟩, _⟩ := hbases bs hb
    obtain ⟨z', hz', hsub, _, hmem⟩ := (C07_refbasis data bs).1 hl
    have : z' = z := by
      have := hz bs hb
      rw [hz'] at this
      exact Except.ok.inj this
    subst this
    refine ⟨hsub, ?_, hmem⟩
    obtain ⟨k, hk⟩ := List.mem_iff_getElem?.mp hrow
    have hklt : k < data.length := by
      have := (List.getElem?_eq_some_iff.mp hk).1
      omega
    have hmemz : data[k] ∈ z' := (hmem data[k]).2 ⟨k, row, List.getElem?_eq_getElem hklt, hk, hallz⟩
    exact List.length_pos_of_mem hmemz
  have v : Valid data bases z perm negIdx posB (effNegB negB posB) (ceilDiv data.length posB) :=
    { hN := hN, hB := hB, hnB := heff, hperm := hperm, hnb := rfl,
      hbases := fun bs hb => ⟨(hbases bs hb).1, (hzfacts bs hb).2.1, (hbases bs hb).2.2 z (hz bs hb)⟩,
      hnobases := fun hb hne => hnobases hb hne }
  obtain ⟨out, hs, hrows, hpermrows, _⟩ := C07_partition v
  obtain ⟨out2, hs2, hlen, hsz⟩ := C07_sizes v
  obtain ⟨out3, hs3, hnegmem, hmirror, hneglen⟩ := C07_negative v
  have e2 : out2 = out := by rw [hs] at hs2; exact (Except.ok.inj hs2).symm
  have e3 : out3 = out := by rw [hs] at hs3; exact (Except.ok.inj hs3).symm
  rw [e2] at hlen hsz
  rw [e3] at hnegmem hmirror hneglen
  refine ⟨z, out, hz, by rw [hep]; exact hs, v, ⟨hrows, hpermrows⟩, ⟨hlen, fun j b hb => ?_⟩, fun bs hb => ?_,
    fun b hb r hr => ?_, hmirror, hneglen⟩
  · obtain ⟨a1, a2, a3, _, _, a6⟩ := hsz j b hb
    exact ⟨a1, a2, a3, a6⟩
  · obtain ⟨out4, hs4, idxB, hflat, hlenB, hpair⟩ := C07_own_basis bs hb v
    have e4 : out4 = out := by rw [hs] at hs4; exact (Except.ok.inj hs4).symm
    rw [e4] at hlenB hpair
    refine ⟨idxB, hflat, hlenB, fun j idx b hi hbj => ?_⟩
    obtain ⟨bb, hbb, _, _, hpt⟩ := hpair j idx b hi hbj
    exact ⟨bb, hbb, hpt⟩
  · obtain ⟨hn1, hn2⟩ := hnegmem b hb r hr
    refine ⟨?_, fun bs hbs => ?_⟩
    · cases hbcase : bases with
      | none => exact hn1 hbcase
      | some bs => exact (hzfacts bs hbcase).1.subset (hn2 bs hbcase)
    · exact ⟨hn2 bs hbs, ((hzfacts bs hbs).2.2 r).1 (hn2 bs hbs)⟩

/-- **C07.5b** Frame statement: `fit`'s data flow (preamble + one epoch) only *reads* the caller's data and bases
objects and allocates new ones — every object that existed before is unchanged afterwards, and every batch handed to
`compute_batch_gradients` is a view of a freshly allocated object, so it shares no storage with anything the caller
owns (in-place work on a batch cannot reach the caller's data either). -/
theorem C07_no_mutation {ρ : Type} (h : Heap ρ) (dataId : Nat) (basesId : Option Nat) (posB : Nat) (negB : Option Nat)
    (perm negIdx : List Nat) (h' : Heap ρ) (refs : List BatchRef)
    (hok : epochOnHeap h dataId basesId posB negB perm negIdx = .ok (h', refs)) :
    (∀ id, id < h.objs.length → h'.objs[id]? = h.objs[id]?) ∧
    ∀ r ∈ refs, h.objs.length ≤ r.pos.storage ∧ h.objs.length ≤ r.neg.storage ∧
      ∀ v, r.bases = some v → h.objs.length ≤ v.storage := by
  suffices hs : (∃ extra, h'.objs = h.objs ++ extra) ∧
      ∀ r ∈ refs, h.objs.length ≤ r.pos.storage ∧ h.objs.length ≤ r.neg.storage ∧
        ∀ v, r.bases = some v → h.objs.length ≤ v.storage by
    obtain ⟨⟨extra, he⟩, h2⟩ := hs
    exact ⟨fun id hid => by rw [he, List.getElem?_append_left hid], h2⟩
  unfold epochOnHeap at hok
  simp only [bind, Except.bind, pure, Except.pure, throw, throwThe, MonadExceptOf.throw, Heap.alloc] at hok
  repeat' split at hok
  all_goals (first | (cases hok; done) | skip)
  · cases hok
    refine ⟨⟨_, by simp only [List.append_assoc]; rfl⟩, fun r hr => ?_⟩
    obtain ⟨h1, h2, h3⟩ := mem_zipRef2 hr
    rw [mem_viewsOf h1, mem_viewsOf h2, h3]
    simp only [List.length_append, List.length_cons, List.length_nil]
    exact ⟨by omega, by omega, fun v hv => by cases hv⟩
  · cases hok
    refine ⟨⟨_, by simp only [List.append_assoc]; rfl⟩, fun r hr => ?_⟩
    obtain ⟨h1, h2, h3⟩ := mem_zipRef2 hr
    rw [mem_viewsOf h1, mem_viewsOf h2, h3]
    simp only [List.length_append, List.length_cons, List.length_nil]
    exact ⟨by omega, by omega, fun v hv => by cases hv⟩
  · cases hok
    refine ⟨⟨_, by simp only [List.append_assoc]; rfl⟩, fun r hr => ?_⟩
    obtain ⟨h1, h2, v, h3, h4⟩ := mem_zipRef3 hr
    rw [mem_viewsOf h1, mem_viewsOf h2, h4]
    simp only [List.length_append, List.length_cons, List.length_nil]
    refine ⟨by omega, by omega, fun v' hv => ?_⟩
    cases hv
    rw [mem_viewsOf h3]
    simp only [List.length_append, List.length_cons, List.length_nil]
    omega

/-! ## Hardening round 4: call forms (positional arguments in the documented order) -/

/-- **C07.9 (call forms)** `state.fit(a₁, …, a_j, **kw)` with the first `j` documented parameters given POSITIONALLY (in the documented
order `data, epochs, pos_batch_size, neg_batch_size, k, lr[, input_bases], progbar, starting_epoch, time, callbacks, optimizer,
optimizer_args, scheduler, scheduler_args`; `ps₁` = those `j` names, any split of the signature) binds exactly what the keyword call
`state.fit(**{ps₁[i]: aᵢ}, **kw)` binds; each positional value reaches the parameter documented at its position — so the batch sizes
/ number of epochs / bases the batching theorems (`C07_fit_epoch`) speak about are the values the caller wrote at the documented
positions — and every other parameter has the caller's keyword of that name, else the documented default. For all three state
types (`hasBases = false`: `PositiveWaveFunction`, which trains without bases whatever the caller passes). -/
theorem C07_positional_call (hasBases : Bool) (ps₁ ps₂ : List String) (hsig : CallForm.fitParams hasBases = ps₁ ++ ps₂)
    (vs₁ : List CallForm.Arg) (hlen : vs₁.length = ps₁.length) (kw : List (String × CallForm.Arg))
    (hkw : ∀ p ∈ ps₁, CallForm.kwLookup kw p = none) :
    CallForm.fitBind hasBases vs₁ kw = CallForm.fitBind hasBases [] (ps₁.zip vs₁ ++ kw)
    ∧ ∀ r, CallForm.fitBind hasBases vs₁ kw = .ok r →
        (∀ p v, (p, v) ∈ ps₁.zip vs₁ → CallForm.bound r p = some v)
        ∧ (∀ p ∈ ps₂, CallForm.bound r p = CallForm.kwOrDefault CallForm.fitDefault kw p)
        ∧ (hasBases = false → CallForm.bound r "input_bases" = some CallForm.Arg.none) :=
  CallForm.fitBind_positional hasBases ps₁ ps₂ hsig vs₁ hlen kw hkw

/-- the positional form documented for the positive state: `fit(data, 2, 4, 3, 1, lr = …)` trains with `epochs = 2`,
`pos_batch_size = 4`, `neg_batch_size = 3`, `k = 1` (and never with bases) -/
example : (CallForm.fitBind false [.ref 7, .int 2, .int 4, .int 3, .int 1] [("lr", .ref 9)]).toOption.map
      (fun r => (CallForm.bound r "epochs", CallForm.bound r "pos_batch_size", CallForm.bound r "neg_batch_size", CallForm.bound r "k",
        CallForm.bound r "lr", CallForm.bound r "input_bases"))
    = some (some (.int 2), some (.int 4), some (.int 3), some (.int 1), some (.ref 9), some .none) := by rfl

/-- a keyword repeating a positionally bound parameter is refused; too many positional arguments are refused -/
example : CallForm.fitBind true [.ref 7, .int 2] [("epochs", .int 5)] = .error .TypeError := by rfl
example : CallForm.fitBind false (List.replicate 15 (.int 1)) [] = .error .TypeError := by rfl

/-! ## Non-vacuity -/

/-- a concrete valid input with duplicate rows, bases, `N = 3 = 1·2 + 1`, `neg_batch_size ≠ pos_batch_size` -/
example : Valid (ρ := Nat) [10, 20, 10] (some [["Z", "Z"], ["X", "Z"], ["Z", "Z"]]) [10, 10]
    [2, 0, 1] [1, 0, 0, 1, 1, 0] 2 3 2 where
  hN := by decide
  hB := by decide
  hnB := by decide
  hperm := by decide
  hnb := by decide
  hbases := by
    intro bs h; cases h
    exact ⟨rfl, by decide, rfl, by decide⟩
  hnobases := by intro h; cases h

/-- … on which the model produces two batches pairing each row with its own basis -/
example : (shuffleData (ρ := Nat) [2, 0, 1] [0, 0, 0, 0, 0, 0] 2 3 2 [10, 20, 30]
      (some [["Z", "Z"], ["X", "Z"], ["Z", "Y"]]) [10]).toOption.map (fun o => o.batches.map (fun b => (b.pos, b.bases)))
    = some [([30, 10], some [["Z", "Y"], ["Z", "Z"]]), ([20], some [["X", "Z"]])] := by decide

/-- the hypotheses of `C07_fit_epoch` are satisfiable: 3 rows with a duplicate, bases with two all-Z rows, `pos_batch_size = 2`,
`neg_batch_size = None`, `randint` over the two reference-basis rows of size `⌈3/2⌉ · 2 = 4` -/
example : ∃ z out, epochBatches (ρ := Nat) [10, 20, 10] (some [["Z", "Z"], ["X", "Z"], ["Z", "Z"]]) 2 none [2, 0, 1] [1, 0, 0, 1] = .ok out ∧
    Valid [10, 20, 10] (some [["Z", "Z"], ["X", "Z"], ["Z", "Z"]]) z [2, 0, 1] [1, 0, 0, 1] 2 (effNegB none 2) (ceilDiv 3 2) := by
  obtain ⟨z, out, _, h2, h3, _⟩ := C07_fit_epoch (ρ := Nat) [10, 20, 10] (some [["Z", "Z"], ["X", "Z"], ["Z", "Z"]]) 2 none
    [2, 0, 1] [1, 0, 0, 1] (by decide) (by decide) (by decide)
    (by
      intro bs h; cases h
      refine ⟨rfl, ⟨["Z", "Z"], by simp, by simp⟩, ?_⟩
      intro z hz
      have : z = [10, 10] := by
        have h' : extractRefbasis (ρ := Nat) [10, 20, 10] [["Z", "Z"], ["X", "Z"], ["Z", "Z"]] = .ok [10, 10] := rfl
        rw [h'] at hz; exact (Except.ok.inj hz).symm
      subst this
      exact ⟨rfl, by decide⟩)
    (by intro h; cases h)
  exact ⟨z, out, h2, h3⟩

/-- the hypothesis of `C07_no_mutation` is satisfiable -/
example : ∃ h' refs, epochOnHeap (ρ := Nat) ⟨[.samples [10, 20, 10], .bases [["Z"], ["X"], ["Z"]]]⟩ 0 (some 1) 2 none
    [2, 0, 1] [1, 0, 0, 1] = .ok (h', refs) := ⟨_, _, rfl⟩


/-! ## Extension round 2 (code inside the model): `fit`'s conversion of the caller's data object

`ArgConv.fitConvertData` models `neural_state.py:575-580` on a heap of storages: `data.clone().detach().to(device, dtype=double)` for a
torch tensor, `torch.tensor(data, device, dtype=double)` for everything else (numpy array, nested list / tuple), with torch's allocation
behaviour. `ArgConv.fitPrepareArg` is the data preamble of `fit` from the caller's OBJECT on (`Batching.prepare` reads the rows of the
converted tensor's storage). `input_bases` is not converted by the code (kept by reference: proposed/O23_C07_bases_live.md). -/

open ArgConv in
/-- **C07.7** for EVERY accepted container form of the data (torch tensor or numpy array of any element type — double, float, int64,
uint8, bool, … —, rectangular nested list of Python bools / ints / floats / numpy scalars) `fit` trains on a tensor `train_samples`
* of element type double whose rows are exactly the caller's rows at the time of the call (the target type is handed to
  `torch.tensor` / reached by a widening `.to`: no rounding on the way, whatever torch's default dtype is);
* in a storage that did not exist before the call, while no storage of the caller is written — so whatever the caller later writes
  in place into ANY of its storages (a buffer re-used for the next acquisition while `fit` is running), the rows `fit` batches are
  still the rows it was given;
* and everything `fit` derives from the data (`Batching.prepare`: `z_samples`, `num_batches`, hence `C07_fit_epoch`) is what the
  batching theorems state for those rows.
A ragged list or an object that is not array-like is refused. -/
theorem C07_train_samples_value {ρ : Type} (castRow : DType → ρ → ρ) (hc : ∀ r, castRow .float64 r = r) (dd : Bool)
    (h : ArgConv.Heap (List ρ)) (o : Obj) :
    (∀ src rows, srcDType o.box = some src → h.read o.sid = some rows →
      ∃ h' t, fitConvertData (castRows castRow) dd h o = .ok (h', t) ∧
        (∀ i, i < h.cells.length → h'.read i = h.read i) ∧
        h.cells.length ≤ t.sid ∧ t.dt = .float64 ∧ h'.read t.sid = some rows ∧
        (∀ i, i < h.cells.length → ∀ w, (h'.write i w).read t.sid = some rows) ∧
        (∀ bases posB negB, fitPrepareArg castRow dd h o bases posB negB
          = (prepare rows bases posB negB).map (fun p => (h', t, p)))) ∧
    (srcDType o.box = none → ∀ bases posB negB, ∃ e, fitPrepareArg castRow dd h o bases posB negB = .error e) := by
  have hcl : ∀ v : List ρ, castRows castRow DType.float64 v = v := by
    intro v; rw [castRows, show castRow DType.float64 = id from funext hc]; simp
  refine ⟨?_, ?_⟩
  · intro src rows hsrc hv
    obtain ⟨h', t, e, f, d⟩ := fitConvertData_spec (castRows castRow) hcl dd hsrc hv
    refine ⟨h', t, e, fun i hi => read_of_prefix f.ext hi, f.fresh, d, f.val, ?_, ?_⟩
    · intro i hi w
      rw [write_read_ne _ (by have := f.fresh; omega)]
      exact f.val
    · intro bases posB negB
      simp only [fitPrepareArg, e, f.val, bind, Except.bind]
      cases prepare rows bases posB negB <;> rfl
  · intro hb bases posB negB
    obtain ⟨e, he⟩ := fitConvertData_refused (castRows castRow) dd h o hb
    exact ⟨e, by simp [fitPrepareArg, he, bind, Except.bind]⟩

/-- the hypotheses are satisfiable by non-trivial calls: a uint8 tensor, a float32 numpy array and a list of Python ints, in a heap that
holds other objects too; the result lives in a new storage (index 2) -/
example : (ArgConv.fitConvertData (fun _ (rs : List (List Nat)) => rs) false ⟨[[[0, 1], [1, 1], [0, 1]], [[9]]]⟩ ⟨.tensor .uint8, 0⟩).toOption.map
    (fun r => (r.2, r.1.cells)) = some (⟨3, .float64⟩, [[[0, 1], [1, 1], [0, 1]], [[9]], [[0, 1], [1, 1], [0, 1]], [[0, 1], [1, 1], [0, 1]]]) := rfl
example : (ArgConv.fitConvertData (fun _ (rs : List (List Nat)) => rs) false ⟨[[[0, 1], [1, 1], [0, 1]], [[9]]]⟩ ⟨.ndarray .float32, 0⟩).toOption.map
    (fun r => r.2) = some ⟨2, .float64⟩ := rfl
example : ArgConv.fitConvertData (fun _ (rs : List (List Nat)) => rs) false ⟨[[[0, 1], [1]]]⟩ ⟨.ragged, 0⟩ = .error .ValueError := rfl

end C07
end QV.Props
