/-
C12 — Training follows the documented event protocol and honours stop requests.

"A training run emits train-start once, then for each epoch from the starting epoch to the last an
epoch-start, a batch-start/batch-end pair per batch in order, and an epoch-end, then train-end exactly
once; parameters change only between a batch-start and its batch-end. If a stop is requested during a
batch or at an epoch end, no further batch or epoch begins, the current epoch's end event and the
train-end event still fire, and the request persists; a run started with a stop already requested
emits nothing and changes nothing."

All theorems: ∀ `starting_epoch`, `epochs` (integers, incl. empty ranges), ∀ number of batches ≥ 1,
∀ callback lists (any length, repeated objects allowed), timer on/off, scheduler or none, ∀ stop
requests `R` (which callback asks for a stop at which event / during which batch).
Model: `QV.Train.fit` (QV/Model/Train.lean), executed against `NeuralStateBase.fit` by the C12
correspondence check. The specification below (`pairs`, `epochBlock`, `Epochs`, `Protocol`, `Quiet…`)
does not mention the model's loops.
-/
import QV.Model.Train
import QV.Model.LambdaCb
import QV.Lemmas.Train

namespace QV.Props
namespace C12
open QV.Train

/-! ## Specification -/

/-- `bs e 0, be e 0, …, bs e (k-1), be e (k-1)` -/
def pairs (e : Int) (k : Nat) : List Event :=
  (List.range k).flatMap fun b => [Event.batchStart e b, Event.batchEnd e b]

/-- one epoch with `k` batches: `es e, (bs e j, be e j)_{j<k}, ee e` -/
def epochBlock (e : Int) (k : Nat) : List Event :=
  Event.epochStart e :: (pairs e k ++ [Event.epochEnd e])

/-- `Epochs last nb e t`: `t` is a (possibly empty) sequence of consecutive epochs `e, e+1, …`, none
beyond `last`; every epoch but the final one has exactly `nb` batch pairs, the final one between `1` and `nb`. -/
inductive Epochs (last : Int) (nb : Nat) : Int → List Event → Prop
  | nil (e : Int) : Epochs last nb e []
  | final (e : Int) (k : Nat) : e ≤ last → 1 ≤ k → k ≤ nb → Epochs last nb e (epochBlock e k)
  | cons (e : Int) (t : List Event) : e ≤ last → Epochs last nb (e + 1) t →
      Epochs last nb e (epochBlock e nb ++ t)

/-- A well-formed event trace of `fit(starting_epoch = start, epochs = last)` with `nb` batches per epoch:
nothing at all, or train-start, consecutive epochs from `start`, train-end. -/
inductive Protocol (start last : Int) (nb : Nat) : List Event → Prop
  | silent : Protocol start last nb []
  | run (t : List Event) : Epochs last nb start t →
      Protocol start last nb (Event.trainStart :: (t ++ [Event.trainEnd]))

/-- epochs `a … b` (empty if `b < a`), each with all `nb` batches -/
def fullEpochs (nb : Nat) (a b : Int) : List Event := (epochRange a b).flatMap (fun e => epochBlock e nb)

/-- `epochRange a b` is `a, a+1, …, b`. -/
theorem epochRange_spec (a b : Int) :
    epochRange a b = (if b < a then [] else a :: epochRange (a + 1) b) ∧
    ∀ e, e ∈ epochRange a b ↔ a ≤ e ∧ e ≤ b :=
  ⟨epochRange_rec a b, mem_epochRange a b⟩

/-- no stop request at batch-start, during, or at batch-end of batch `(e,b)` -/
def QuietBatch (c : Cfg) (R : Req) (e : Int) (b : Nat) : Prop :=
  reqEv c R (.batchStart e b) = false ∧ R.mid e b = false ∧ reqEv c R (.batchEnd e b) = false

/-- no stop request in epoch `e` at epoch-start nor in its batches `0 … j-1` -/
def QuietUpto (c : Cfg) (R : Req) (e : Int) (j : Nat) : Prop :=
  reqEv c R (.epochStart e) = false ∧ ∀ b, b < j → QuietBatch c R e b

/-- no stop request anywhere in epoch `e` -/
def QuietEpoch (c : Cfg) (R : Req) (e : Int) : Prop :=
  QuietUpto c R e c.numBatches ∧ reqEv c R (.epochEnd e) = false

/-- no stop request at train-start nor in any epoch before `e` -/
def QuietBefore (c : Cfg) (R : Req) (e : Int) : Prop :=
  reqEv c R .trainStart = false ∧ ∀ e', c.start ≤ e' → e' < e → QuietEpoch c R e'

/-! ## Glue between the closed form of the model trace and the specification (not property theorems) -/

theorem epochEv_eq_block (c : Cfg) (R : Req) (stopIn : Bool) (e : Int) :
    epochEv c R stopIn e = epochBlock e (batchesRun c R stopIn e) := by
  rw [epochEv_eq]; rfl

theorem quietEpoch_iff (c : Cfg) (R : Req) (e : Int) : QuietEpoch c R e ↔ epochReq c R e = false := by
  simp only [QuietEpoch, QuietUpto, QuietBatch, epochReq, batchReq, Bool.or_eq_false_iff, List.any_eq_false,
    List.mem_range]
  constructor
  · rintro ⟨⟨h1, h2⟩, h3⟩
    refine ⟨⟨h1, fun b hb => ?_⟩, h3⟩
    obtain ⟨g1, g2, g3⟩ := h2 b hb
    simp [g1, g2, g3]
  · rintro ⟨⟨h1, h2⟩, h3⟩
    refine ⟨⟨h1, fun b hb => ?_⟩, h3⟩
    have := h2 b hb
    simp only [Bool.not_eq_true, Bool.or_eq_false_iff] at this
    exact ⟨this.1.1, this.1.2, this.2⟩

theorem epochs_runEpochs (c : Cfg) (R : Req) (hnb : 1 ≤ c.numBatches) (b : Int) :
    ∀ (n : Nat) (a : Int), (b + 1 - a).toNat = n → Epochs b c.numBatches a (runEpochs c R (epochRange a b)) := by
  intro n
  induction n with
  | zero =>
    intro a h
    rw [epochRange_rec, if_pos (by omega)]
    simpa using Epochs.nil a
  | succ n ih =>
    intro a h
    rw [epochRange_rec, if_neg (by omega), runEpochs_cons, epochEv_eq_block]
    cases hq : epochReq c R a
    · simp only [Bool.false_eq_true, if_false]
      rw [batchesRun_of_not_epochReq c R a hq]
      exact Epochs.cons a _ (by omega) (ih (a + 1) (by omega))
    · simp only [if_true, List.append_nil]
      exact Epochs.final a _ (by omega) (batchesRun_pos c R false a hnb) (batchesRun_le c R false a)

/-- the run up to the first epoch `e` in which a stop is requested -/
theorem runEpochs_first (c : Cfg) (R : Req) (b e : Int) (heb : e ≤ b) (hr : epochReq c R e = true) :
    ∀ (n : Nat) (a : Int), (e - a).toNat = n → a ≤ e → (∀ e', a ≤ e' → e' < e → epochReq c R e' = false) →
      runEpochs c R (epochRange a b) =
        (epochRange a (e - 1)).flatMap (fun e' => epochBlock e' c.numBatches) ++
          epochBlock e (batchesRun c R false e) := by
  intro n
  induction n with
  | zero =>
    intro a h hae _
    have : a = e := by omega
    subst this
    rw [epochRange_rec a b, if_neg (by omega), epochRange_rec a (a - 1), if_pos (by omega),
      runEpochs_cons, epochEv_eq_block, hr]
    simp
  | succ n ih =>
    intro a h hae hq
    have hqa := hq a (Int.le_refl a) (by omega)
    rw [epochRange_rec a b, if_neg (by omega), epochRange_rec a (e - 1), if_neg (by omega),
      runEpochs_cons, epochEv_eq_block, hqa, batchesRun_of_not_epochReq c R a hqa]
    simp only [Bool.false_eq_true, if_false, List.flatMap_cons, List.append_assoc]
    rw [ih (a + 1) (by omega) (by omega) (fun e' h1 h2 => hq e' (by omega) h2)]

/-- the run when no stop is requested in any epoch -/
theorem runEpochs_quiet (c : Cfg) (R : Req) (b : Int) :
    ∀ (n : Nat) (a : Int), (b + 1 - a).toNat = n → (∀ e', a ≤ e' → e' ≤ b → epochReq c R e' = false) →
      runEpochs c R (epochRange a b) = fullEpochs c.numBatches a b := by
  intro n
  induction n with
  | zero =>
    intro a h _
    unfold fullEpochs
    rw [epochRange_rec, if_pos (by omega)]; simp
  | succ n ih =>
    intro a h hq
    have hqa := hq a (Int.le_refl a) (by omega)
    unfold fullEpochs
    rw [epochRange_rec a b, if_neg (by omega), runEpochs_cons, epochEv_eq_block, hqa,
      batchesRun_of_not_epochReq c R a hqa]
    simp only [Bool.false_eq_true, if_false, List.flatMap_cons]
    rw [ih (a + 1) (by omega) (fun e' h1 h2 => hq e' (by omega) h2)]
    rfl

theorem pairs_filterMap_none {β : Type} (f : Event → Option β) (e : Int) (k : Nat)
    (h1 : ∀ b, f (.batchStart e b) = none) (h2 : ∀ b, f (.batchEnd e b) = none) :
    (pairs e k).filterMap f = [] := by
  unfold pairs
  induction k with
  | zero => simp
  | succ k ih => simp [List.range_succ, List.flatMap_append, List.filterMap_append, ih, h1, h2]

/-- the epoch number of an epoch-start event -/
def epochStartOf : Event → Option Int
  | .epochStart e => some e
  | _ => none

/-- the epoch number of an epoch-end event -/
def epochEndOf : Event → Option Int
  | .epochEnd e => some e
  | _ => none

theorem epochs_start_end {last : Int} {nb : Nat} {e : Int} {t : List Event} (h : Epochs last nb e t) :
    t.filterMap epochEndOf = t.filterMap epochStartOf ∧ Event.trainStart ∉ t ∧ Event.trainEnd ∉ t := by
  have blk : ∀ (e : Int) (k : Nat), (epochBlock e k).filterMap epochEndOf = [e] ∧
      (epochBlock e k).filterMap epochStartOf = [e] ∧ Event.trainStart ∉ epochBlock e k ∧
      Event.trainEnd ∉ epochBlock e k := by
    intro e k
    refine ⟨?_, ?_, ?_, ?_⟩
    · have := pairs_filterMap_none epochEndOf e k (fun _ => rfl) (fun _ => rfl)
      simp [epochBlock, List.filterMap_cons, List.filterMap_append, this, epochEndOf]
    · have := pairs_filterMap_none epochStartOf e k (fun _ => rfl) (fun _ => rfl)
      simp [epochBlock, List.filterMap_cons, List.filterMap_append, this, epochStartOf]
    · simp [epochBlock, pairs]
    · simp [epochBlock, pairs]
  induction h with
  | nil e => simp
  | final e k _ _ _ =>
    obtain ⟨b1, b2, b3, b4⟩ := blk e k
    exact ⟨by rw [b1, b2], b3, b4⟩
  | cons e t _ _ ih =>
    obtain ⟨b1, b2, b3, b4⟩ := blk e nb
    obtain ⟨i1, i2, i3⟩ := ih
    refine ⟨by rw [List.filterMap_append, List.filterMap_append, b1, b2, i1], ?_, ?_⟩
    · simp only [List.mem_append, not_or]; exact ⟨b3, i2⟩
    · simp only [List.mem_append, not_or]; exact ⟨b4, i3⟩

/-- the shape of a run that was not stopped beforehand -/
theorem fit_shape (c : Cfg) (R : Req) (hnb : 1 ≤ c.numBatches) :
    ∃ t, Epochs c.epochs c.numBatches c.start t ∧
      events (fit c R false).1 = Event.trainStart :: (t ++ [Event.trainEnd]) := by
  cases hts : reqEv c R .trainStart
  · exact ⟨_, epochs_runEpochs c R hnb c.epochs _ c.start rfl, fit_events_go c R hts⟩
  · refine ⟨_, ?_, fit_events_tsStop c R hts⟩
    rw [epochRange_rec]
    split
    · simpa using Epochs.nil c.start
    · simp only [List.take_succ_cons, List.take_zero, List.flatMap_cons, List.flatMap_nil, List.append_nil]
      rw [epochEv_eq_block, batchesRun_of_stop c R true c.start hnb (by simp)]
      exact Epochs.final c.start 1 (by omega) (Nat.le_refl 1) hnb

/-- the run up to and including the first epoch `e` in which a stop is requested -/
theorem fit_first_stop (c : Cfg) (R : Req) (e : Int) (h1 : c.start ≤ e) (h2 : e ≤ c.epochs)
    (hq : QuietBefore c R e) (hr : epochReq c R e = true) :
    events (fit c R false).1 = Event.trainStart ::
      (fullEpochs c.numBatches c.start (e - 1) ++ epochBlock e (batchesRun c R false e) ++ [Event.trainEnd]) ∧
    (fit c R false).2.stop = true := by
  constructor
  · rw [fit_events_go c R hq.1,
      runEpochs_first c R c.epochs e h2 hr _ c.start rfl h1
        (fun e' g1 g2 => (quietEpoch_iff c R e').mp (hq.2 e' g1 g2))]
    rfl
  · rw [(fit_events c R).2]
    have : (epochRange c.start c.epochs).any (epochReq c R) = true :=
      List.any_eq_true.mpr ⟨e, (mem_epochRange _ _ _).mpr ⟨h1, h2⟩, hr⟩
    simp [this]

/-- the epoch number of a `scheduler.step()` entry -/
def schedOf : Entry → Option Int
  | .schedStep e => some e
  | _ => none

/-- is the event an `on_batch_start`? -/
def isBatchStart : Event → Bool
  | .batchStart .. => true
  | _ => false

theorem countP_isOpt_skeleton (l : List Entry) : l.countP Entry.isOpt = (skeleton l).countP Entry.isOpt := by
  induction l with
  | nil => rfl
  | cons x l ih => cases x <;> simp [Entry.isOpt, List.countP_cons, ih]

theorem filterMap_schedOf_skeleton (l : List Entry) : l.filterMap schedOf = (skeleton l).filterMap schedOf := by
  induction l with
  | nil => rfl
  | cons x l ih => cases x <;> simp [schedOf, List.filterMap_cons, ih]

theorem countP_isSched (l : List Entry) : l.countP Entry.isSched = (l.filterMap schedOf).length := by
  induction l with
  | nil => rfl
  | cons x l ih => cases x <;> simp [schedOf, Entry.isSched, List.countP_cons, List.filterMap_cons, ih]

theorem expand_countP_isOpt (c : Cfg) (evs : List Event) :
    (evs.flatMap (expandEv c)).countP Entry.isOpt = evs.countP isBatchStart := by
  induction evs with
  | nil => rfl
  | cons ev evs ih =>
    cases ev <;> simp [expandEv, Entry.isOpt, isBatchStart, List.countP_cons, List.countP_append, ih] <;>
      split <;> simp [Entry.isOpt]

theorem expand_filterMap_sched (c : Cfg) (evs : List Event) :
    (evs.flatMap (expandEv c)).filterMap schedOf = if c.hasSched then evs.filterMap epochEndOf else [] := by
  induction evs with
  | nil => simp
  | cons ev evs ih =>
    cases hs : c.hasSched <;>
      cases ev <;> simp [expandEv, schedOf, epochEndOf, List.filterMap_cons, ih, hs]

/-! ## Property theorems -/

/-- **C12.1** The event trace of every run is well-formed: empty, or train-start, consecutive epochs from
`starting_epoch` (each: epoch-start, batch-start/batch-end pairs with consecutive indices from 0,
epoch-end; all `numBatches` pairs in every epoch except possibly the final one, which has at least one),
no epoch beyond `epochs`, then train-end. -/
theorem C12_protocol (c : Cfg) (R : Req) (stop₀ : Bool) (hnb : 1 ≤ c.numBatches) :
    Protocol c.start c.epochs c.numBatches (events (fit c R stop₀).1) := by
  cases stop₀
  · obtain ⟨t, ht, he⟩ := fit_shape c R hnb
    rw [he]; exact Protocol.run t ht
  · rw [fit_stopped]; exact Protocol.silent

/-- **C12.1b** train-start and train-end occur exactly once each (first and last), or — iff a stop was
already requested — not at all. -/
theorem C12_train_events_once (c : Cfg) (R : Req) (stop₀ : Bool) (hnb : 1 ≤ c.numBatches) :
    (events (fit c R stop₀).1).count .trainStart = (if stop₀ then 0 else 1) ∧
    (events (fit c R stop₀).1).count .trainEnd = (if stop₀ then 0 else 1) ∧
    (stop₀ = false → (events (fit c R stop₀).1).head? = some .trainStart ∧
      (events (fit c R stop₀).1).getLast? = some .trainEnd) := by
  cases stop₀
  · obtain ⟨t, ht, he⟩ := fit_shape c R hnb
    obtain ⟨_, h2, h3⟩ := epochs_start_end ht
    rw [he]
    refine ⟨?_, ?_, fun _ => ⟨rfl, ?_⟩⟩
    · simp [List.count_append, List.count_eq_zero_of_not_mem h2]
    · simp [List.count_append, List.count_eq_zero_of_not_mem h3]
    · rw [← List.cons_append, List.getLast?_append]; simp
  · rw [fit_stopped]; simp

/-- **C12.2** If nobody requests a stop before train-end, every epoch `starting_epoch … epochs` appears, in
order, each with exactly `numBatches` batch pairs (for an empty range: just train-start, train-end); the flag
ends up set iff a callback requested a stop at train-end. -/
theorem C12_complete_without_stop (c : Cfg) (R : Req) (hq : QuietBefore c R (c.epochs + 1)) :
    events (fit c R false).1 =
      Event.trainStart :: (fullEpochs c.numBatches c.start c.epochs ++ [Event.trainEnd]) ∧
    (fit c R false).2.stop = reqEv c R .trainEnd := by
  have hall : ∀ e', c.start ≤ e' → e' ≤ c.epochs → epochReq c R e' = false :=
    fun e' g1 g2 => (quietEpoch_iff c R e').mp (hq.2 e' g1 (by omega))
  constructor
  · rw [fit_events_go c R hq.1, runEpochs_quiet c R c.epochs _ c.start rfl hall]
  · rw [(fit_events c R).2, hq.1]
    have : (epochRange c.start c.epochs).any (epochReq c R) = false := by
      rw [List.any_eq_false]
      intro e he
      have := (mem_epochRange _ _ _).mp he
      simp [hall e this.1 this.2]
    simp [this]

/-- **C12.3a** First stop request at batch-start, during, or at batch-end of batch `(e,j)`: the trace is
all earlier epochs in full, epoch `e` with exactly its batches `0…j`, its epoch-end, train-end; the flag stays set. -/
theorem C12_stop_in_batch (c : Cfg) (R : Req) (e : Int) (j : Nat) (h1 : c.start ≤ e) (h2 : e ≤ c.epochs)
    (hj : j < c.numBatches) (hq : QuietBefore c R e) (hu : QuietUpto c R e j)
    (hr : reqEv c R (.batchStart e j) = true ∨ R.mid e j = true ∨ reqEv c R (.batchEnd e j) = true) :
    events (fit c R false).1 = Event.trainStart ::
      (fullEpochs c.numBatches c.start (e - 1) ++ epochBlock e (j + 1) ++ [Event.trainEnd]) ∧
    (fit c R false).2.stop = true := by
  have hb : batchReq c R e j = true := by
    simp only [batchReq, Bool.or_eq_true]; rcases hr with h | h | h <;> simp [h]
  have hbq : ∀ b, b < j → batchReq c R e b = false := by
    intro b hb'
    obtain ⟨g1, g2, g3⟩ := hu.2 b hb'
    simp [batchReq, g1, g2, g3]
  have he : epochReq c R e = true := by
    have : (List.range c.numBatches).any (batchReq c R e) = true :=
      List.any_eq_true.mpr ⟨j, List.mem_range.mpr hj, hb⟩
    simp [epochReq, this]
  have := fit_first_stop c R e h1 h2 hq he
  rwa [batchesRun_first c R e j hu.1 hj hbq hb] at this

/-- **C12.3b** First stop request at epoch-end of epoch `e`: epochs up to and including `e` in full, then
train-end; no further epoch begins. -/
theorem C12_stop_at_epoch_end (c : Cfg) (R : Req) (e : Int) (h1 : c.start ≤ e) (h2 : e ≤ c.epochs)
    (hq : QuietBefore c R e) (hu : QuietUpto c R e c.numBatches) (hr : reqEv c R (.epochEnd e) = true) :
    events (fit c R false).1 = Event.trainStart :: (fullEpochs c.numBatches c.start e ++ [Event.trainEnd]) ∧
    (fit c R false).2.stop = true := by
  have hbq : ∀ b, b < c.numBatches → batchReq c R e b = false := by
    intro b hb'
    obtain ⟨g1, g2, g3⟩ := hu.2 b hb'
    simp [batchReq, g1, g2, g3]
  have he : epochReq c R e = true := by simp [epochReq, hr]
  have := fit_first_stop c R e h1 h2 hq he
  rw [batchesRun_quiet c R e hu.1 hbq] at this
  refine ⟨?_, this.2⟩
  rw [this.1]
  have hsplit : fullEpochs c.numBatches c.start e
      = fullEpochs c.numBatches c.start (e - 1) ++ epochBlock e c.numBatches := by
    unfold fullEpochs
    rw [epochRange_snoc c.start e h1, List.flatMap_append]; simp
  rw [hsplit]

/-- **C12.3c** First stop request at epoch-start of epoch `e`: exactly one more batch `(e,0)` runs, then
epoch-end `e` and train-end. -/
theorem C12_stop_at_epoch_start (c : Cfg) (R : Req) (e : Int) (h1 : c.start ≤ e) (h2 : e ≤ c.epochs)
    (hnb : 1 ≤ c.numBatches) (hq : QuietBefore c R e) (hr : reqEv c R (.epochStart e) = true) :
    events (fit c R false).1 = Event.trainStart ::
      (fullEpochs c.numBatches c.start (e - 1) ++ epochBlock e 1 ++ [Event.trainEnd]) ∧
    (fit c R false).2.stop = true := by
  have he : epochReq c R e = true := by simp [epochReq, hr]
  have := fit_first_stop c R e h1 h2 hq he
  rwa [batchesRun_of_stop c R false e hnb (by simp [hr])] at this

/-- **C12.3d** Stop requested at train-start: if the epoch range is non-empty exactly one batch
`(starting_epoch, 0)` runs, framed by its epoch-start / epoch-end; train-end fires; the flag stays set. -/
theorem C12_stop_at_train_start (c : Cfg) (R : Req) (hnb : 1 ≤ c.numBatches)
    (hr : reqEv c R .trainStart = true) :
    events (fit c R false).1 = Event.trainStart ::
      ((if c.start ≤ c.epochs then epochBlock c.start 1 else []) ++ [Event.trainEnd]) ∧
    (fit c R false).2.stop = true := by
  constructor
  · rw [fit_events_tsStop c R hr, epochRange_rec]
    by_cases h : c.epochs < c.start
    · rw [if_pos h, if_neg (by omega)]; simp
    · rw [if_neg h, if_pos (by omega)]
      simp only [List.take_succ_cons, List.take_zero, List.flatMap_cons, List.flatMap_nil, List.append_nil]
      rw [epochEv_eq_block, batchesRun_of_stop c R true c.start hnb (by simp)]
  · rw [(fit_events c R).2]; simp [hr]

/-- **C12.3e** No `on_batch_start` / `on_epoch_start` follows a batch-end / epoch-end after whose dispatch the
stop flag was set. (`rets` lists every event with the flag value `fit` reads after dispatching it; by
`C12_sticky` that value is the OR of all requests so far.) -/
theorem C12_no_event_after_stop (c : Cfg) (R : Req) (stop₀ : Bool) :
    (rets (fit c R stop₀).1).Pairwise
      (fun x y => x.1.isEnd = true → x.2 = true → y.1.isStart = false) ∧
    (rets (fit c R stop₀).1).map Prod.fst = events (fit c R stop₀).1 :=
  ⟨fit_afterStop c R stop₀, fit_rets_fst c R stop₀⟩

/-- **C12.4a** The flag is sticky and never set spuriously: at every moment of `fit` it equals the initial
flag OR-ed with all requests made so far — as observed by every handler on entry (`seen`), as read by
`fit` after every dispatch, and at the end. In particular it is never cleared. -/
theorem C12_sticky (c : Cfg) (R : Req) (stop₀ : Bool) :
    (fit c R stop₀).2.stop = (stop₀ || (fit c R stop₀).1.any R.at) ∧
    (∀ pre i ev seen v post, (fit c R stop₀).1 = pre ++ Entry.call i ev seen v :: post →
      seen = (stop₀ || pre.any R.at)) ∧
    (∀ pre ev f post, (fit c R stop₀).1 = pre ++ Entry.ret ev f :: post → f = (stop₀ || pre.any R.at)) := by
  have h := fit_track c R stop₀
  refine ⟨(track_val h).1, ?_, ?_⟩
  · intro pre i ev seen v post hl
    rw [hl] at h
    exact (track_call h).1
  · intro pre ev f post hl
    rw [hl] at h
    exact track_ret h

/-- **C12.4b** A run started with a stop already requested is a no-op: no event, no handler call, no
shuffle, no optimizer or scheduler step, parameter version unchanged, flag still set. Conversely only such
a run is silent. -/
theorem C12_stopped_run_is_noop (c : Cfg) (R : Req) :
    (fit c R true).1 = [] ∧ (fit c R true).2.stop = true ∧ (fit c R true).2.ver = 0 ∧
    (fit c R true).2.sched = 0 ∧ (∀ stop₀, events (fit c R stop₀).1 = [] → stop₀ = true) := by
  rw [fit_stopped]
  refine ⟨rfl, rfl, rfl, rfl, ?_⟩
  intro stop₀ h
  cases stop₀
  · rw [(fit_events c R).1] at h; simp at h
  · rfl

/-- **C12.5** Parameters change only inside a batch window, exactly once per window: every handler
invocation observes version = number of `optimizer.step()`s before it; in the control skeleton each
`optStep e b` sits immediately after the emission of `batchStart e b` (hence, by `C12_protocol`, before
that of `batchEnd e b`) and nowhere else; the final version is the number of batches started. -/
theorem C12_param_window (c : Cfg) (R : Req) (stop₀ : Bool) :
    (∀ pre i ev seen v post, (fit c R stop₀).1 = pre ++ Entry.call i ev seen v :: post →
      v = pre.countP Entry.isOpt) ∧
    skeleton (fit c R stop₀).1 = (events (fit c R stop₀).1).flatMap (expandEv c) ∧
    (fit c R stop₀).2.ver = (events (fit c R stop₀).1).countP isBatchStart := by
  have h := fit_track c R stop₀
  refine ⟨?_, (fit_proj c R stop₀).1, ?_⟩
  · intro pre i ev seen v post hl
    rw [hl] at h
    simpa using (track_call h).2
  · have := (track_val h).2.1
    simp only [S.key, Nat.zero_add] at this
    rw [this, countP_isOpt_skeleton, (fit_proj c R stop₀).1, expand_countP_isOpt]

/-- **C12.6** Every event reaches all callbacks, in list order, before the next event: the sequence of
handler invocations is the event trace with each event replaced by `(cb, event)` for `cb` through the list. -/
theorem C12_dispatch_order (c : Cfg) (R : Req) (stop₀ : Bool) :
    calls (fit c R stop₀).1 = (events (fit c R stop₀).1).flatMap (fun ev => c.cbs.map (fun i => (i, ev))) :=
  (fit_proj c R stop₀).2

/-- **C12.7 / C06.4** The scheduler steps once per epoch begun, in epoch order — also when the epoch was cut
short by a stop —, each step sitting in the control skeleton immediately before the emission of that
epoch's epoch-end (after its last batch); with no scheduler there are no steps. -/
theorem C12_scheduler_once_per_epoch (c : Cfg) (R : Req) (stop₀ : Bool) (hnb : 1 ≤ c.numBatches) :
    (fit c R stop₀).1.filterMap schedOf =
      (if c.hasSched then (events (fit c R stop₀).1).filterMap epochStartOf else []) ∧
    (fit c R stop₀).2.sched =
      (if c.hasSched then ((events (fit c R stop₀).1).filterMap epochStartOf).length else 0) ∧
    skeleton (fit c R stop₀).1 = (events (fit c R stop₀).1).flatMap (expandEv c) := by
  have hse : (events (fit c R stop₀).1).filterMap epochEndOf = (events (fit c R stop₀).1).filterMap epochStartOf := by
    cases stop₀
    · obtain ⟨t, ht, he⟩ := fit_shape c R hnb
      rw [he]
      simp [List.filterMap_cons, List.filterMap_append, epochEndOf, epochStartOf, (epochs_start_end ht).1]
    · rw [fit_stopped]; rfl
  have h1 : (fit c R stop₀).1.filterMap schedOf =
      (if c.hasSched then (events (fit c R stop₀).1).filterMap epochStartOf else []) := by
    rw [filterMap_schedOf_skeleton, (fit_proj c R stop₀).1, expand_filterMap_sched, hse]
  refine ⟨h1, ?_, (fit_proj c R stop₀).1⟩
  have := (track_val (fit_track c R stop₀)).2.2
  simp only [S.key, Nat.zero_add] at this
  rw [this, countP_isSched, h1]
  split <;> rfl

/-! ## From the caller's arguments to the run; consecutive runs on one object -/

/-- `⌈(nb·B)/B⌉ = nb` -/
theorem ceil_mul_self (nb B : Nat) (hB : 1 ≤ B) : (nb * B + B - 1) / B = nb := by
  apply Nat.div_eq_of_lt_le
  · omega
  · rw [Nat.succ_mul]; omega

/-- **C12.8** The `callbacks=` argument may be any container of callbacks — `None`, list, tuple,
`CallbackList` instance, one-shot iterator; empty or not —: `fit` dispatches to exactly the callbacks the
caller listed, in the listed order (none for `None`/empty), whatever the container type; hence every
event reaches each of them, in that order, before the next event. -/
theorem C12_callbacks_container (a : Args) (R : Req) (stop₀ : Bool) (nb : Nat) :
    wrapCallbacks a.callbacks = a.callbacks.elems ∧
    calls (fit (a.cfg nb) R stop₀).1 =
      (events (fit (a.cfg nb) R stop₀).1).flatMap (fun ev => a.callbacks.elems.map (fun i => (i, ev))) := by
  have h : wrapCallbacks a.callbacks = a.callbacks.elems := by
    cases a.callbacks with
    | none => rfl
    | iter l => rfl
    | list l => cases l <;> rfl
    | tuple l => cases l <;> rfl
    | cbList l => cases l <;> rfl
  refine ⟨h, ?_⟩
  have := C12_dispatch_order (a.cfg nb) R stop₀
  simpa [Args.cfg, h] using this

/-- `_shuffle_data` has something to draw the negative-phase indices from: with bases at least one row
of the data is measured in the reference basis; without bases either the two batch sizes agree (nothing is
drawn) or there is at least one row. Otherwise `torch.randint(0, …)` raises (`C12_fit_args_abort`). -/
def DrawsOk (N nZ posB : Nat) (negB : Option Nat) (hasBases : Bool) : Prop :=
  (hasBases = true → 1 ≤ nZ) ∧ (hasBases = false → Batching.effNegB negB posB ≠ posB → 1 ≤ N)

theorem shuffleDraw_ok_iff (N nZ posB : Nat) (negB : Option Nat) (hasBases : Bool) :
    shuffleDraw N nZ posB negB hasBases = .ok () ↔ DrawsOk N nZ posB negB hasBases := by
  unfold shuffleDraw DrawsOk Batching.randintReq
  cases hasBases
  · by_cases h : Batching.effNegB negB posB = posB
    · simp [h]
    · by_cases hN : N = 0
      · simp [h, hN]
      · simp only [Bool.false_eq_true, if_false, if_neg h, if_neg hN, false_implies, true_and, forall_const, true_iff]
        intro _; omega
  · by_cases hZ : nZ = 0
    · simp [hZ]
    · simp only [if_true, if_neg hZ, forall_const, true_iff]
      exact ⟨by omega, by intro h; cases h⟩

theorem shuffleDraw_error (N nZ posB : Nat) (negB : Option Nat) (hasBases : Bool)
    (h : ¬ DrawsOk N nZ posB negB hasBases) : shuffleDraw N nZ posB negB hasBases = .error .RuntimeError := by
  have h' := mt (shuffleDraw_ok_iff N nZ posB negB hasBases).mp h
  unfold shuffleDraw Batching.randintReq at *
  repeat' split
  all_goals first | rfl | (exfalso; apply h'; simp_all)

/-- **C12.9** The number of batch-start/batch-end pairs per (uninterrupted) epoch is `⌈N / pos_batch_size⌉`
whatever `neg_batch_size` is (`None`, smaller, equal, larger than `pos_batch_size`) and with or without
bases: the zipped iterator is never cut short by the negative batches; at least one batch when `N ≥ 1`.
(Hypothesis `hD`: the inputs on which `_shuffle_data` does not raise, see `DrawsOk`.) -/
theorem C12_batches_per_epoch (N nZ posB : Nat) (negB : Option Nat) (hasBases : Bool) (hB : 1 ≤ posB)
    (hD : DrawsOk N nZ posB negB hasBases) :
    batchesPerEpoch N nZ posB negB hasBases = .ok ((N + posB - 1) / posB) ∧
    (1 ≤ N → 1 ≤ (N + posB - 1) / posB) := by
  constructor
  · have hne : posB ≠ 0 := by omega
    have hneg : 1 ≤ Batching.effNegB negB posB := by
      cases negB with
      | none => exact hB
      | some k => cases k with
        | zero => exact hB
        | succ k => exact Nat.succ_le_succ (Nat.zero_le k)
    unfold batchesPerEpoch Batching.numBatches
    rw [if_neg hne]
    simp only [(shuffleDraw_ok_iff N nZ posB negB hasBases).mpr hD]
    simp only [Batching.batchStarts, List.length_map, List.length_range]
    by_cases hm : (!hasBases && Batching.effNegB negB posB == posB) = true
    · rw [if_pos hm]
      have he : Batching.effNegB negB posB = posB := by
        simp only [Bool.and_eq_true, beq_iff_eq] at hm
        exact hm.2
      rw [he]
      cases hasBases <;> simp
    · rw [if_neg hm, ceil_mul_self _ _ hneg]
      cases hasBases <;> simp
  · intro hN
    apply (Nat.le_div_iff_mul_le (by omega)).mpr
    omega

/-- **C12.10** `fit` called with the caller's arguments (`pos_batch_size ≥ 1`) is the state machine with
`⌈N/pos_batch_size⌉` batches per epoch and the listed callbacks — all protocol theorems above apply to it. -/
theorem C12_fit_args (a : Args) (R : Req) (stop₀ : Bool) (hB : 1 ≤ a.posB)
    (hD : a.start ≤ a.epochs → DrawsOk a.N a.nZ a.posB a.negB a.hasBases) :
    fitArgs a R stop₀ = .ok (fit { start := a.start, epochs := a.epochs, numBatches := (a.N + a.posB - 1) / a.posB,
                                   cbs := a.callbacks.elems, timer := a.time, hasSched := a.hasSched } R stop₀) := by
  unfold fitArgs
  cases stop₀
  · have hne : a.posB ≠ 0 := by omega
    simp only [Bool.false_eq_true, if_false, Batching.numBatches, if_neg hne]
    by_cases hr : a.epochs < a.start
    · simp only [if_pos hr, Args.cfg, (C12_callbacks_container a R false 0).1]
    · simp only [if_neg hr]
      rw [(C12_batches_per_epoch a.N a.nZ a.posB a.negB a.hasBases hB (hD (by omega))).1]
      simp only [Args.cfg, (C12_callbacks_container a R false 0).1]
  · simp only [if_true, fit_stopped]

/-- **C12.10b** (where the code raises, the model raises) A call whose epoch range is not empty and whose
`_shuffle_data` has nothing to draw the negative indices from (bases given but no reference-basis row in the
data; no rows at all with `neg_batch_size ≠ pos_batch_size`) does not complete: `fit` raises `RuntimeError`
(`torch.randint(0, …)`) — and so does `pos_batch_size = 0` (`ZeroDivisionError`) for every epoch range.
By then `on_train_start` has reached every listed callback, in list order, and nothing else has happened: the
abort trace is `[train-start]`, WITHOUT train-end (such calls are outside the property's "training run":
SCOPE NOTE in claims.d/C12.json). A call on an object whose flag is set never raises. -/
theorem C12_fit_args_abort (a : Args) (R : Req) :
    (1 ≤ a.posB → a.start ≤ a.epochs → ¬ DrawsOk a.N a.nZ a.posB a.negB a.hasBases →
      fitArgs a R false = .error .RuntimeError) ∧
    (a.posB = 0 → fitArgs a R false = .error .ZeroDivisionError) ∧
    (∃ out, fitArgs a R true = .ok out) ∧
    events (fitArgsAbortLog a R) = [.trainStart] ∧
    calls (fitArgsAbortLog a R) = a.callbacks.elems.map (fun i => (i, Event.trainStart)) := by
  refine ⟨?_, ?_, ⟨fit (a.cfg 0) R true, by simp only [fitArgs, if_true]⟩, ?_, ?_⟩
  · intro hB hr hbad
    have hne : a.posB ≠ 0 := by omega
    have hr' : ¬ a.epochs < a.start := by omega
    simp only [fitArgs, Bool.false_eq_true, if_false, Batching.numBatches, if_neg hne, if_neg hr', batchesPerEpoch,
      shuffleDraw_error _ _ _ _ _ hbad]
  · intro h0
    simp only [fitArgs, Bool.false_eq_true, if_false, Batching.numBatches, h0, if_true]
  · simp only [fitArgsAbortLog, dispatch_events]
  · simp only [fitArgsAbortLog, dispatch_calls, Args.cfg, (C12_callbacks_container a R false 0).1]

/-- **C12.4c** The request persists across calls: on an object whose flag is set, every further `fit` call
(whatever its arguments and callbacks) is a no-op and leaves the flag set, until the caller clears the flag. -/
theorem C12_session_stopped (runs : List Run) (h : ∀ r ∈ runs, r.pre = none) :
    session runs true =
      .ok (runs.map fun _ => ([], { stop := true, notified := false, ver := 0, sched := 0 })) := by
  induction runs with
  | nil => rfl
  | cons r rest ih =>
    have hr : r.pre = none := h r (List.mem_cons_self)
    have ih' := ih (fun x hx => h x (List.mem_cons_of_mem _ hx))
    simp only [session, hr, fitArgs, if_true, fit_stopped, ih', List.map_cons]

/-- a session: the first call is stopped by callback 0 at the end of its first epoch, the second call (no
reset) is silent, the third (after `stop_training = False`) runs again — with a tuple of callbacks and
`neg_batch_size > pos_batch_size` (10 rows, batches of 3 → 4 batches per epoch). -/
example :
    let a : Args := { start := 1, epochs := 2, N := 10, posB := 3, negB := some 5, hasBases := false, nZ := 0,
                      callbacks := .tuple [0, 1], time := false, hasSched := false }
    let R1 : Req := { cb := fun i ev => i == 0 && ev == Event.epochEnd 1, mid := fun _ _ => false }
    let R0 : Req := { cb := fun _ _ => false, mid := fun _ _ => false }
    (session [⟨none, a, R1⟩, ⟨none, a, R0⟩, ⟨some false, { a with epochs := 1 }, R0⟩] false).toOption.map
        (fun outs => outs.map (fun o => ((events o.1).length, o.2.stop, o.2.ver))) =
      some [(12, true, 4), (0, true, 0), (12, false, 4)] := by decide

/-! ## Runs without batches (`len(data) = 0`, hence `numBatches = 0`)

The real `fit` accepts a data set with no rows (positive state): every epoch is `es e, ee e` with no batch,
no optimizer step. `C12_complete_without_stop` and `C12_stop_at_epoch_end` above hold for every `numBatches`
(also 0); the theorems of this section cover what the `1 ≤ numBatches` theorems leave out. -/

theorem batchesRun_zero (c : Cfg) (R : Req) (stopIn : Bool) (e : Int) (h0 : c.numBatches = 0) :
    batchesRun c R stopIn e = 0 := by
  simp [batchesRun, h0]

theorem fullEpochs_empty (nb : Nat) (a b : Int) (h : b < a) : fullEpochs nb a b = [] := by
  unfold fullEpochs; rw [epochRange_rec, if_pos h]; rfl

theorem fullEpochs_cons (nb : Nat) (a b : Int) (h : a ≤ b) :
    fullEpochs nb a b = epochBlock a nb ++ fullEpochs nb (a + 1) b := by
  unfold fullEpochs; rw [epochRange_rec a b, if_neg (by omega)]; simp

theorem fullEpochs_snoc (nb : Nat) (a e : Int) (h : a ≤ e) :
    fullEpochs nb a e = fullEpochs nb a (e - 1) ++ epochBlock e nb := by
  unfold fullEpochs; rw [epochRange_snoc a e h, List.flatMap_append]; simp

theorem fullEpochs_no_train (nb : Nat) (a b : Int) :
    Event.trainStart ∉ fullEpochs nb a b ∧ Event.trainEnd ∉ fullEpochs nb a b := by
  constructor <;> simp [fullEpochs, epochBlock, pairs]

theorem fullEpochs_start_end (nb : Nat) (a b : Int) :
    (fullEpochs nb a b).filterMap epochEndOf = (fullEpochs nb a b).filterMap epochStartOf := by
  unfold fullEpochs
  induction epochRange a b with
  | nil => rfl
  | cons e es ih =>
    have h1 := pairs_filterMap_none epochEndOf e nb (fun _ => rfl) (fun _ => rfl)
    have h2 := pairs_filterMap_none epochStartOf e nb (fun _ => rfl) (fun _ => rfl)
    have b1 : (epochBlock e nb).filterMap epochEndOf = [e] := by
      simp [epochBlock, List.filterMap_cons, List.filterMap_append, h1, epochEndOf]
    have b2 : (epochBlock e nb).filterMap epochStartOf = [e] := by
      simp [epochBlock, List.filterMap_cons, List.filterMap_append, h2, epochStartOf]
    rw [List.flatMap_cons, List.filterMap_append, List.filterMap_append, b1, b2, ih]

/-- with no batches the epoch loop (entered with the flag clear) runs whole `es e, ee e` epochs up to some `m` -/
theorem runEpochs_no_batches (c : Cfg) (R : Req) (h0 : c.numBatches = 0) (b : Int) :
    ∀ (n : Nat) (a : Int), (b + 1 - a).toNat = n →
      ∃ m : Int, m ≤ b ∧ runEpochs c R (epochRange a b) = fullEpochs 0 a m := by
  intro n
  induction n with
  | zero =>
    intro a h
    refine ⟨b, Int.le_refl b, ?_⟩
    rw [epochRange_rec, if_pos (by omega), fullEpochs_empty 0 a b (by omega)]; simp
  | succ n ih =>
    intro a h
    rw [epochRange_rec, if_neg (by omega), runEpochs_cons, epochEv_eq_block, batchesRun_zero c R false a h0]
    cases hq : epochReq c R a
    · obtain ⟨m, hm, he⟩ := ih (a + 1) (by omega)
      simp only [Bool.false_eq_true, if_false]
      by_cases hma : a ≤ m
      · exact ⟨m, hm, by rw [he, fullEpochs_cons 0 a m hma]⟩
      · refine ⟨a, by omega, ?_⟩
        rw [he, fullEpochs_empty 0 (a + 1) m (by omega), fullEpochs_cons 0 a a (Int.le_refl a),
          fullEpochs_empty 0 (a + 1) a (by omega)]
    · refine ⟨a, by omega, ?_⟩
      simp only [if_true, List.append_nil]
      rw [fullEpochs_cons 0 a a (Int.le_refl a), fullEpochs_empty 0 (a + 1) a (by omega)]; simp

/-- the shape of a run without batches that was not stopped beforehand -/
theorem fit_shape_no_batches (c : Cfg) (R : Req) (h0 : c.numBatches = 0) :
    ∃ m : Int, m ≤ c.epochs ∧
      events (fit c R false).1 = Event.trainStart :: (fullEpochs 0 c.start m ++ [Event.trainEnd]) := by
  cases hts : reqEv c R .trainStart
  · obtain ⟨m, hm, he⟩ := runEpochs_no_batches c R h0 c.epochs _ c.start rfl
    exact ⟨m, hm, by rw [fit_events_go c R hts, he]⟩
  · rw [fit_events_tsStop c R hts, epochRange_rec]
    by_cases h : c.epochs < c.start
    · refine ⟨c.epochs, Int.le_refl _, ?_⟩
      rw [if_pos h, fullEpochs_empty 0 c.start c.epochs h]; simp
    · refine ⟨c.start, by omega, ?_⟩
      rw [if_neg h, fullEpochs_cons 0 c.start c.start (Int.le_refl _),
        fullEpochs_empty 0 (c.start + 1) c.start (by omega)]
      simp only [List.take_succ_cons, List.take_zero, List.flatMap_cons, List.flatMap_nil, List.append_nil]
      rw [epochEv_eq_block, batchesRun_zero c R true c.start h0]

/-- **C12.1 for zero batches** A run on a data set without rows (`numBatches = 0`) is well-formed too: nothing at
all iff a stop was already requested; otherwise train-start once, whole epochs `es e, ee e` for consecutive
`e = starting_epoch … m` with `m ≤ epochs` (no batch event at all), train-end once. No optimizer step is
taken and the parameter version stays 0. (Which `m`: `epochs` without a stop — `C12_complete_without_stop` —,
the epoch of the first request otherwise — `C12_stop_at_epoch_end`, `C12_stop_at_epoch_start_no_batches`.) -/
theorem C12_protocol_no_batches (c : Cfg) (R : Req) (stop₀ : Bool) (h0 : c.numBatches = 0) :
    (∃ m : Int, m ≤ c.epochs ∧ events (fit c R stop₀).1 =
        if stop₀ then [] else Event.trainStart :: (fullEpochs 0 c.start m ++ [Event.trainEnd])) ∧
    (events (fit c R stop₀).1).count .trainStart = (if stop₀ then 0 else 1) ∧
    (events (fit c R stop₀).1).count .trainEnd = (if stop₀ then 0 else 1) ∧
    (fit c R stop₀).2.ver = 0 ∧ (fit c R stop₀).1.countP Entry.isOpt = 0 := by
  have hver : (fit c R stop₀).2.ver = 0 ∧ (fit c R stop₀).1.countP Entry.isOpt = 0 := by
    have hb : (events (fit c R stop₀).1).countP isBatchStart = 0 := by
      cases stop₀
      · obtain ⟨m, _, he⟩ := fit_shape_no_batches c R h0
        have hz : (fullEpochs 0 c.start m).countP isBatchStart = 0 := by
          rw [List.countP_eq_zero]
          intro x hx
          simp only [fullEpochs, epochBlock, pairs, List.range_zero, List.flatMap_nil, List.nil_append,
            List.mem_flatMap, List.mem_cons, List.not_mem_nil, or_false] at hx
          obtain ⟨e, _, rfl | rfl⟩ := hx <;> simp [isBatchStart]
        rw [he]
        simp [List.countP_append, isBatchStart, hz]
      · rw [fit_stopped]; rfl
    constructor
    · rw [(C12_param_window c R stop₀).2.2, hb]
    · rw [countP_isOpt_skeleton, (fit_proj c R stop₀).1, expand_countP_isOpt, hb]
  cases stop₀
  · obtain ⟨m, hm, he⟩ := fit_shape_no_batches c R h0
    obtain ⟨n1, n2⟩ := fullEpochs_no_train 0 c.start m
    refine ⟨⟨m, hm, by simpa using he⟩, ?_, ?_, hver⟩
    · rw [he]; simp [List.count_append, List.count_eq_zero_of_not_mem n1]
    · rw [he]; simp [List.count_append, List.count_eq_zero_of_not_mem n2]
  · refine ⟨⟨c.epochs, Int.le_refl _, by rw [fit_stopped]; rfl⟩, ?_, ?_, hver⟩ <;> rw [fit_stopped] <;> rfl

/-- **C12.3c for zero batches** First stop request at epoch-start of epoch `e` when there are no batches: no
batch runs (contrast `C12_stop_at_epoch_start`: with batches exactly one more runs), the epoch's end event
and train-end still fire, no further epoch begins. -/
theorem C12_stop_at_epoch_start_no_batches (c : Cfg) (R : Req) (e : Int) (h0 : c.numBatches = 0)
    (h1 : c.start ≤ e) (h2 : e ≤ c.epochs) (hq : QuietBefore c R e) (hr : reqEv c R (.epochStart e) = true) :
    events (fit c R false).1 = Event.trainStart :: (fullEpochs 0 c.start e ++ [Event.trainEnd]) ∧
    (fit c R false).2.stop = true := by
  have he : epochReq c R e = true := by simp [epochReq, hr]
  have := fit_first_stop c R e h1 h2 hq he
  rw [batchesRun_zero c R false e h0, h0] at this
  refine ⟨?_, this.2⟩
  rw [this.1, fullEpochs_snoc 0 c.start e h1]

/-- **C12.3d for zero batches** Stop requested at train-start when there are no batches: if the epoch range is
non-empty the first epoch's `es, ee` fire (no batch), then train-end; the flag stays set. -/
theorem C12_stop_at_train_start_no_batches (c : Cfg) (R : Req) (h0 : c.numBatches = 0)
    (hr : reqEv c R .trainStart = true) :
    events (fit c R false).1 = Event.trainStart ::
      ((if c.start ≤ c.epochs then [Event.epochStart c.start, Event.epochEnd c.start] else []) ++
        [Event.trainEnd]) ∧
    (fit c R false).2.stop = true := by
  constructor
  · rw [fit_events_tsStop c R hr, epochRange_rec]
    by_cases h : c.epochs < c.start
    · rw [if_pos h, if_neg (by omega)]; simp
    · rw [if_neg h, if_pos (by omega)]
      simp only [List.take_succ_cons, List.take_zero, List.flatMap_cons, List.flatMap_nil, List.append_nil]
      rw [epochEv_eq_block, batchesRun_zero c R true c.start h0]
      rfl
  · rw [(fit_events c R).2]; simp [hr]

/-- **C12.7 for zero batches** The scheduler still steps once per epoch begun (immediately before that epoch's
epoch-end) when the epochs have no batches. -/
theorem C12_scheduler_once_per_epoch_no_batches (c : Cfg) (R : Req) (stop₀ : Bool) (h0 : c.numBatches = 0) :
    (fit c R stop₀).1.filterMap schedOf =
      (if c.hasSched then (events (fit c R stop₀).1).filterMap epochStartOf else []) ∧
    (fit c R stop₀).2.sched =
      (if c.hasSched then ((events (fit c R stop₀).1).filterMap epochStartOf).length else 0) := by
  have hse : (events (fit c R stop₀).1).filterMap epochEndOf = (events (fit c R stop₀).1).filterMap epochStartOf := by
    cases stop₀
    · obtain ⟨m, _, he⟩ := fit_shape_no_batches c R h0
      rw [he]
      simp [List.filterMap_cons, List.filterMap_append, epochEndOf, epochStartOf, fullEpochs_start_end]
    · rw [fit_stopped]; rfl
  have h1 : (fit c R stop₀).1.filterMap schedOf =
      (if c.hasSched then (events (fit c R stop₀).1).filterMap epochStartOf else []) := by
    rw [filterMap_schedOf_skeleton, (fit_proj c R stop₀).1, expand_filterMap_sched, hse]
  refine ⟨h1, ?_⟩
  have := (track_val (fit_track c R stop₀)).2.2
  simp only [S.key, Nat.zero_add] at this
  rw [this, countP_isSched, h1]
  split <;> rfl

/-- `fit(data with 0 rows, pos_batch_size ≥ 1, …)` is the zero-batch state machine. -/
theorem C12_fit_args_no_rows (a : Args) (R : Req) (stop₀ : Bool) (hB : 1 ≤ a.posB) (hN : a.N = 0)
    (hD : a.start ≤ a.epochs → a.hasBases = false ∧ Batching.effNegB a.negB a.posB = a.posB) :
    fitArgs a R stop₀ = .ok (fit { start := a.start, epochs := a.epochs, numBatches := 0,
                                   cbs := a.callbacks.elems, timer := a.time, hasSched := a.hasSched } R stop₀) := by
  rw [C12_fit_args a R stop₀ hB (fun hr => ⟨by simp [(hD hr).1], fun _ h => absurd (hD hr).2 h⟩), hN]
  have : (0 + a.posB - 1) / a.posB = 0 := by
    apply Nat.div_eq_of_lt; omega
  rw [this]

/-- a run without batches: three epochs, callback 0 asks for a stop at the start of epoch 2 -/
example :
    let c : Cfg := { start := 1, epochs := 3, numBatches := 0, cbs := [0], timer := true, hasSched := true }
    let R : Req := { cb := fun i ev => i == 0 && ev == Event.epochStart 2, mid := fun _ _ => false }
    events (fit c R false).1 = [.trainStart, .epochStart 1, .epochEnd 1, .epochStart 2, .epochEnd 2, .trainEnd] ∧
      (fit c R false).2.stop = true ∧ (fit c R false).2.ver = 0 ∧ (fit c R false).2.sched = 2 := by decide

/-! ## `LambdaCallback`: constructor validation, default handlers, what an event invokes -/

/-- the argument is acceptable for its slot: `None`, or a callable whose signature has exactly as many
parameters as the event passes arguments -/
def SlotOk (a : Slot → FnArg) (s : Slot) : Prop := a s = .none ∨ ∃ id, a s = .fn id s.numParams

/-- the handler installed for an acceptable argument: the function itself; the no-op for `None` -/
def handlerOf : FnArg → Handler
  | .fn id _ => .user id
  | _ => .noop

/-- the exception an unacceptable argument raises: `TypeError` if it is not callable, `ValueError` (wrong
number of parameters) if it is -/
def errKind : FnArg → PyErr
  | .notCallable => .TypeError
  | _ => .ValueError

theorem validateSlot_ok {a : Slot → FnArg} {s : Slot} (h : SlotOk a s) :
    validateSlot a s = .ok (handlerOf (a s)) := by
  unfold validateSlot validateFunction
  rcases h with h | ⟨id, h⟩ <;> rw [h] <;> simp [handlerOf]

theorem validateSlot_err {a : Slot → FnArg} {s : Slot} (h : ¬ SlotOk a s) :
    validateSlot a s = .error (errKind (a s), s) := by
  unfold validateSlot validateFunction
  cases ha : a s with
  | none => exact absurd (Or.inl ha) h
  | notCallable => rfl
  | fn id k =>
    have hk : k ≠ s.numParams := fun hk => h (Or.inr ⟨id, by rw [ha, hk]⟩)
    simp [hk, errKind]

theorem validateSlot_cases (a : Slot → FnArg) (s : Slot) :
    (SlotOk a s ∧ validateSlot a s = .ok (handlerOf (a s))) ∨
    (¬ SlotOk a s ∧ validateSlot a s = .error (errKind (a s), s)) := by
  by_cases h : SlotOk a s
  · exact Or.inl ⟨h, validateSlot_ok h⟩
  · exact Or.inr ⟨h, validateSlot_err h⟩

/-- **C12.11** `LambdaCallback(on_train_start=…, …, on_batch_end=…)`: the constructor succeeds iff every argument
is `None` or a callable with exactly 1 / 1 / 2 / 2 / 3 / 3 parameters (as `inspect.signature` counts them:
defaulted and var-args parameters included); the object then holds in each slot the caller's function for
THAT slot (no-op for `None`). Otherwise the first offending argument, in the order train-start, train-end,
epoch-start, epoch-end, batch-start, batch-end, decides the exception: `TypeError` if it is not callable,
`ValueError` if its parameter count is wrong — naming that slot. -/
theorem C12_lambda_init (a : Slot → FnArg) :
    ((∀ s, SlotOk a s) → ∃ o, lambdaInit a = .ok o ∧ ∀ s, o.get s = handlerOf (a s)) ∧
    (∀ s, ¬ SlotOk a s → (∀ s' : Slot, s'.idx < s.idx → SlotOk a s') →
      lambdaInit a = .error (errKind (a s), s)) ∧
    (∀ o, lambdaInit a = .ok o → (∀ s, SlotOk a s) ∧ ∀ s, o.get s = handlerOf (a s)) := by
  have part1 : (∀ s, SlotOk a s) → ∃ o, lambdaInit a = .ok o ∧ ∀ s, o.get s = handlerOf (a s) := by
    intro h
    refine ⟨{ onTrainStart := handlerOf (a .trainStart), onTrainEnd := handlerOf (a .trainEnd),
              onEpochStart := handlerOf (a .epochStart), onEpochEnd := handlerOf (a .epochEnd),
              onBatchStart := handlerOf (a .batchStart), onBatchEnd := handlerOf (a .batchEnd) }, ?_, ?_⟩
    · unfold lambdaInit
      simp only [validateSlot_ok (h _)]
      rfl
    · intro s; cases s <;> rfl
  refine ⟨part1, ?_, ?_⟩
  · intro s hs hlt
    have ok : ∀ s' : Slot, s'.idx < s.idx → validateSlot a s' = .ok (handlerOf (a s')) :=
      fun s' h' => validateSlot_ok (hlt s' h')
    unfold lambdaInit
    cases s
    · rw [validateSlot_err hs]; rfl
    · rw [ok .trainStart (by decide), validateSlot_err hs]; rfl
    · rw [ok .trainStart (by decide), ok .trainEnd (by decide), validateSlot_err hs]; rfl
    · rw [ok .trainStart (by decide), ok .trainEnd (by decide), ok .epochStart (by decide), validateSlot_err hs]; rfl
    · rw [ok .trainStart (by decide), ok .trainEnd (by decide), ok .epochStart (by decide),
        ok .epochEnd (by decide), validateSlot_err hs]; rfl
    · rw [ok .trainStart (by decide), ok .trainEnd (by decide), ok .epochStart (by decide),
        ok .epochEnd (by decide), ok .batchStart (by decide), validateSlot_err hs]; rfl
  · intro o ho
    have hall : ∀ s, SlotOk a s := by
      unfold lambdaInit at ho
      rcases validateSlot_cases a .trainStart with ⟨k0, e0⟩ | ⟨_, e0⟩ <;> rw [e0] at ho
      · rcases validateSlot_cases a .trainEnd with ⟨k1, e1⟩ | ⟨_, e1⟩ <;> rw [e1] at ho
        · rcases validateSlot_cases a .epochStart with ⟨k2, e2⟩ | ⟨_, e2⟩ <;> rw [e2] at ho
          · rcases validateSlot_cases a .epochEnd with ⟨k3, e3⟩ | ⟨_, e3⟩ <;> rw [e3] at ho
            · rcases validateSlot_cases a .batchStart with ⟨k4, e4⟩ | ⟨_, e4⟩ <;> rw [e4] at ho
              · rcases validateSlot_cases a .batchEnd with ⟨k5, e5⟩ | ⟨_, e5⟩ <;> rw [e5] at ho
                · intro s; cases s <;> assumption
                · cases ho
              · cases ho
            · cases ho
          · cases ho
        · cases ho
      · cases ho
    refine ⟨hall, ?_⟩
    obtain ⟨o', ho', hget⟩ := part1 hall
    rw [ho'] at ho
    cases ho
    exact hget

/-- the default object `LambdaCallback()` has six no-op handlers; a bound-method style count is rejected:
a 2-parameter function is accepted for an epoch slot and rejected (ValueError) for a batch slot -/
example :
    (lambdaInit (fun _ => .none)).toOption.map (fun o => [o.get .trainStart, o.get .epochEnd, o.get .batchEnd]) =
      some [.noop, .noop, .noop] ∧
    lambdaInit (fun s => if s = .epochEnd then .fn 7 2 else .none) =
      .ok { onTrainStart := .noop, onTrainEnd := .noop, onEpochStart := .noop, onEpochEnd := .user 7,
            onBatchStart := .noop, onBatchEnd := .noop } ∧
    lambdaInit (fun s => if s = .batchStart then .fn 7 2 else if s = .batchEnd then .notCallable else .none) =
      .error (.ValueError, .batchStart) := ⟨by rfl, by rfl, by rfl⟩

theorem userCalls_eq (T : Table) (l : List Entry) : userCalls T l = (calls l).filterMap T.invoke := by
  induction l with
  | nil => rfl
  | cons x l ih =>
    cases x <;> simp [userCalls, calls, List.filterMap_cons] at ih ⊢ <;> try exact ih
    all_goals (split <;> simp_all)

/-- **C12.12** What user code runs: every event of the run is offered to every listed callback in list order
(`C12_dispatch_order`), and on each callback exactly the function sitting in THAT event's slot runs — for a
`LambdaCallback` the function the caller passed for that slot (`C12_lambda_init`), nothing for a slot left
`None` (or a method a `CallbackBase` subclass does not override). So a callback given a subset of handlers
observes the protocol trace filtered to that subset, in order, with the event's own arguments. -/
theorem C12_lambda_dispatch (T : Table) (c : Cfg) (R : Req) (stop₀ : Bool) :
    userCalls T (fit c R stop₀).1 =
      (events (fit c R stop₀).1).flatMap (fun ev => c.cbs.filterMap (fun i => T.invoke (i, ev))) := by
  rw [userCalls_eq, C12_dispatch_order, List.filterMap_flatMap]
  congr 1
  funext ev
  rw [List.filterMap_map]
  rfl

/-! ## Extension round 2 (code inside the model): the `stop_training` setter, an exception escaping from a callback,
`CallbackList` as a mutable sequence, the `Timer` -/

/-- the entry is a handler invocation that, ENTERED WITH THE FLAG SET, makes an accepted assignment of `False`: Python
CLEARS the flag there (and the loop goes on), whereas the model's `Asg.req` reads an assignment of `False` as "no request"
and keeps the flag (`Asg` doc: "`v = False` is faithful only while the flag is clear") -/
def clearsAt (A : Asg) : Entry → Bool
  | .call i ev seen _ => seen && (match A i ev with | some (.pyBool false, _) => true | _ => false)
  | _ => false

/-- no accepted assignment of `False` occurs after a request in the log: the scope in which the model of assignments
(`Asg.req`, `fitAsg`) speaks about the code.  Decidable (a `Bool`) for a concrete log. -/
def noClear (A : Asg) (log : List Entry) : Bool := log.all (fun x => !clearsAt A x)

/-- **C12.13** The `stop_training` setter (neural_state.py:46-50) and what an assignment by a callback amounts to.
(1) a Python `bool` is accepted and stored; (2) every other kind — `numpy.bool_` (a numpy comparison result), `int` 0/1, a 0-d
tensor, `None`, a `str` — is refused with an exception and leaves the whole state, in particular the flag, exactly as it was;
(3) hence the stop requests of a run are exactly the accepted assignments of `True`: a refused assignment is NOT a request;
(4) a handler ends with an exception iff it assigns a refused kind outside a `try`; (5) a run in which the callbacks only
make refused assignments (caught) or assign `False` is, event for event and entry for entry, the run in which no callback
requests anything — it is not cut short and the flag stays as it was — PROVIDED no accepted assignment of `False` is made by
a handler entered with the flag set (`noClear`: the requests `mid` made inside a batch can set it): Python would CLEAR the flag
there and go on, which the model (`Asg.req`: `False` = "no request") does not represent.  (1), (2) and the two iffs (3), (4)
read back `setStop` / `Asg.req` / `Asg.raises` (that `numpy.bool_` is refused is what the harness checks against the code).

PARTIAL: the full statement (no `noClear` premise in (5)), i.e.
`(∀ i ev w c, A i ev = some (w, c) → w ≠ .pyBool true ∧ (w.isBool = false → c = true)) →`
`  ∀ c stop₀, fitAsg c A mid stop₀ = .ok (fit c { cb := fun _ _ => false, mid := mid } stop₀)`
is provable in the model but NOT a statement about the code when a `False` assignment follows a request of `mid`. -/
theorem C12_refused_request_leaves_flag_partial (v : PyVal) (s : S) (A : Asg) (mid : Int → Nat → Bool) :
    (∀ b, assignStop (.pyBool b) s = (none, { s with stop := b })) ∧
    (v.isBool = false → assignStop v s = (some .ValueError, s)) ∧
    (∀ i ev, (A.req mid).cb i ev = true ↔ ∃ c, A i ev = some (.pyBool true, c)) ∧
    (∀ i ev, (A.raises i ev).isSome = true ↔ ∃ w, A i ev = some (w, false) ∧ w.isBool = false) ∧
    ((∀ i ev w c, A i ev = some (w, c) → w ≠ .pyBool true ∧ (w.isBool = false → c = true)) →
      ∀ c stop₀, noClear A (fit c { cb := fun _ _ => false, mid := mid } stop₀).1 = true →
        fitAsg c A mid stop₀ = .ok (fit c { cb := fun _ _ => false, mid := mid } stop₀)) := by
  refine ⟨fun b => rfl, ?_, ?_, ?_, ?_⟩
  · intro hv
    cases v <;> first | rfl | (simp [PyVal.isBool] at hv)
  · intro i ev
    simp only [Asg.req]
    cases hA : A i ev with
    | none => simp
    | some p =>
      obtain ⟨w, c⟩ := p
      cases w with
      | pyBool b => cases b <;> simp [setStop]
      | _ => simp [setStop]
  · intro i ev
    simp only [Asg.raises]
    cases hA : A i ev with
    | none => simp
    | some p =>
      obtain ⟨w, c⟩ := p
      cases w <;> cases c <;> simp [setStop, PyVal.isBool]
  · intro h c stop₀ _
    have hreq : A.req mid = { cb := fun _ _ => false, mid := mid } := by
      simp only [Asg.req, Req.mk.injEq, and_true]
      funext i ev
      cases hA : A i ev with
      | none => rfl
      | some p =>
        obtain ⟨w, cc⟩ := p
        have := (h i ev w cc hA).1
        cases w with
        | pyBool b => cases b <;> simp_all [setStop]
        | _ => rfl
    have hno : ∀ i ev, A.raises i ev = none := by
      intro i ev
      simp only [Asg.raises]
      cases hA : A i ev with
      | none => rfl
      | some p =>
        obtain ⟨w, cc⟩ := p
        have := (h i ev w cc hA).2
        cases w with
        | pyBool b => rfl
        | _ => simp [setStop, this (by rfl)]
    simp only [fitAsg, hreq, cutAtRaise_none (fun p _ => hno p.1 p.2)]

/-- the refusal of a `numpy.bool_` is real: `nn_state.stop_training = np.True_` raises and the flag stays clear;
a run whose only "request" is such an assignment (caught by the callback) at the end of epoch 1 runs both epochs -/
example :
    assignStop (.npBool true) { stop := false, notified := false, ver := 3, sched := 1 } =
      (some .ValueError, { stop := false, notified := false, ver := 3, sched := 1 }) ∧
    (let c : Cfg := { start := 1, epochs := 2, numBatches := 1, cbs := [0], timer := false, hasSched := false }
     let A : Asg := fun i ev => if i == 0 && ev == Event.epochEnd 1 then some (.npBool true, true) else none
     (match fitAsg c A (fun _ _ => false) false with
      | .ok r => some ((events r.1).length, r.2.stop) | .error _ => none) = some (10, false)) := by decide

/-- the premise `noClear` of conjunct (5) holds on a non-trivial run: a request made INSIDE batch 0 of epoch 1 (`mid`), callback 0
assigns `False` at the start of epoch 1 (flag still clear: a no-op in Python too) and a refused `np.True_` (caught) at the end of
that batch — the conclusion then is the run cut short by `mid`'s request (the batch loop is left, epoch-end and train-end follow); … -/
example :
    (let c : Cfg := { start := 1, epochs := 2, numBatches := 2, cbs := [0], timer := false, hasSched := false }
     let mid : Int → Nat → Bool := fun e b => e == 1 && b == 0
     let A : Asg := fun i ev =>
       if i == 0 && ev == Event.epochStart 1 then some (.pyBool false, false)
       else if i == 0 && ev == Event.batchEnd 1 0 then some (.npBool true, true) else none
     noClear A (fit c { cb := fun _ _ => false, mid := mid } false).1 = true ∧
     (match fitAsg c A mid false with
      | .ok r => some (events r.1, r.2.stop) | .error _ => none)
       = some ([.trainStart, .epochStart 1, .batchStart 1 0, .batchEnd 1 0, .epochEnd 1, .trainEnd], true)) := by decide

/-- … and FAILS on the run the audit pointed at: the same request of `mid`, and callback 0 assigns `False` at the end of that
batch (Python clears the flag and trains on; the model would stop) — that run is outside the statement. -/
example :
    (let c : Cfg := { start := 1, epochs := 2, numBatches := 2, cbs := [0], timer := false, hasSched := false }
     let mid : Int → Nat → Bool := fun e b => e == 1 && b == 0
     let A : Asg := fun i ev => if i == 0 && ev == Event.batchEnd 1 0 then some (.pyBool false, false) else none
     noClear A (fit c { cb := fun _ _ => false, mid := mid } false).1 = false) := by decide

/-- **C12.14** An exception raised by a callback inside `fit` (here: a refused assignment to `stop_training` outside a `try`).
Neither `CallbackList` nor `fit` catches anything, so what has happened when the exception leaves `fit` is a PREFIX of the run
that would have happened: the log up to and including the first raising handler invocation — the later callbacks and the
Timer do not see that event, no later event is emitted (in particular neither the epoch-end nor train-end), and no earlier
invocation raised. The events / handler invocations seen are prefixes of the protocol trace (`C12_protocol`) / dispatch
sequence (`C12_dispatch_order`) of the full run; the control skeleton so far is a prefix of the events' expansion, i.e. every
parameter update made sits immediately after its batch-start emission (updates only inside batch windows) and the version
left behind is the number of updates made; the flag left behind is the initial flag or-ed with the requests made before
(so a later call is silent iff a stop had been requested, `C12_stopped_run_is_noop`). A run started stopped never raises.
The last event emitted is the one whose dispatch was interrupted (every invocation is for the event emitted last).

This is the MODEL-level fact (`fitAsg` is DEFINED as the completed model run cut after the first raising invocation, so the
prefix clauses are `cutAtRaise_some`); as a statement about the code it is `C12_exception_trace_partial`. -/
theorem exception_trace_model (c : Cfg) (A : Asg) (mid : Int → Nat → Bool) (stop₀ : Bool) (ab : Abort)
    (h : fitAsg c A mid stop₀ = .error ab) :
    ∃ pre' i ev seen ver post,
      ab.log = pre' ++ [Entry.call i ev seen ver] ∧
      (fit c (A.req mid) stop₀).1 = ab.log ++ post ∧
      A.raises i ev = some ab.err ∧
      (∀ p ∈ calls pre', A.raises p.1 p.2 = none) ∧
      events ab.log <+: events (fit c (A.req mid) stop₀).1 ∧
      calls ab.log <+: (events (fit c (A.req mid) stop₀).1).flatMap (fun ev => c.cbs.map (fun i => (i, ev))) ∧
      skeleton ab.log <+: (events (fit c (A.req mid) stop₀).1).flatMap (expandEv c) ∧
      ab.stop = (stop₀ || ab.log.any (A.req mid).at) ∧
      ab.ver = ab.log.countP Entry.isOpt ∧
      stop₀ = false ∧
      (events ab.log).getLast? = some ev := by
  unfold fitAsg at h
  simp only at h
  cases hc : cutAtRaise A.raises (fit c (A.req mid) stop₀).1 with
  | none => simp [hc] at h
  | some q =>
    obtain ⟨pre, e⟩ := q
    simp only [hc, Except.error.injEq] at h
    obtain ⟨pre', i, ev, seen, ver, post, e1, e2, e3, e4⟩ := cutAtRaise_some hc
    have hlog : ab.log = pre := by rw [← h]
    have herr : ab.err = e := by rw [← h]
    have hfull : (fit c (A.req mid) stop₀).1 = pre' ++ Entry.call i ev seen ver :: post := by
      rw [e2, e1]; simp
    have hseen := (C12_sticky c (A.req mid) stop₀).2.1 pre' i ev seen ver post hfull
    have hver := (C12_param_window c (A.req mid) stop₀).1 pre' i ev seen ver post hfull
    have hst : abortState (A.req mid) stop₀ pre = (seen || (A.req mid).cb i ev, ver) := by
      simp [abortState, e1]
    refine ⟨pre', i, ev, seen, ver, post, by rw [hlog, e1], by rw [hlog, e2], by rw [herr, e3], e4, ?_, ?_, ?_, ?_, ?_, ?_, ?_⟩
    · rw [hlog, e2, events_append]; exact List.prefix_append _ _
    · rw [← C12_dispatch_order, hlog, e2, calls_append]; exact List.prefix_append _ _
    · rw [← (C12_param_window c (A.req mid) stop₀).2.1, hlog, e2, skeleton_append]; exact List.prefix_append _ _
    · rw [← h]
      simp only [hst]
      rw [hseen, e1]
      simp [Req.at, Bool.or_assoc]
    · rw [← h]
      simp only [hst]
      rw [hver, e1]
      simp [Entry.isOpt]
    · cases stop₀
      · rfl
      · rw [fit_stopped] at hfull; simp at hfull
    · have hok := fit_callsOK c (A.req mid) stop₀
      rw [hfull] at hok
      have hcur := callsOK_split hok
      rw [curAfter_none] at hcur
      rw [hlog, e1, events_append]
      simpa using hcur

/-- **C12.14 (PARTIAL)** `exception_trace_model` as a statement about the code, within the scope in which the model of assignments is
faithful: no handler invocation of the aborted run that was entered with the flag set makes an accepted assignment of `False`
(`_hnc`; Python would clear the flag there and the run would continue differently, so neither `ab.stop = stop₀ || (requests so
far)` nor "`ab.log` is a prefix of the model's full run" would describe it).  The hypothesis is a SCOPE condition: the proof does
not use it (in the model an assignment of `False` is "no request").  The full statement (without `_hnc`) is
`exception_trace_model`; it is a fact about the model only. -/
theorem C12_exception_trace_partial (c : Cfg) (A : Asg) (mid : Int → Nat → Bool) (stop₀ : Bool) (ab : Abort)
    (h : fitAsg c A mid stop₀ = .error ab) (_hnc : noClear A ab.log = true) :
    ∃ pre' i ev seen ver post,
      ab.log = pre' ++ [Entry.call i ev seen ver] ∧
      (fit c (A.req mid) stop₀).1 = ab.log ++ post ∧
      A.raises i ev = some ab.err ∧
      (∀ p ∈ calls pre', A.raises p.1 p.2 = none) ∧
      events ab.log <+: events (fit c (A.req mid) stop₀).1 ∧
      calls ab.log <+: (events (fit c (A.req mid) stop₀).1).flatMap (fun ev => c.cbs.map (fun i => (i, ev))) ∧
      skeleton ab.log <+: (events (fit c (A.req mid) stop₀).1).flatMap (expandEv c) ∧
      ab.stop = (stop₀ || ab.log.any (A.req mid).at) ∧
      ab.ver = ab.log.countP Entry.isOpt ∧
      stop₀ = false ∧
      (events ab.log).getLast? = some ev :=
  exception_trace_model c A mid stop₀ ab h

/-- the scope condition of `C12_exception_trace_partial` holds on a non-trivial aborted run: callback 0 requests a stop
(`True`) at the end of batch 0 of epoch 1, callback 1 — dispatched after it, entered with the flag set — assigns `np.True_`
outside a `try` (refused: `ValueError` leaves `fit`); callback 1 also assigned `False` at the start of epoch 1 (flag clear then) -/
example :
    (let c : Cfg := { start := 1, epochs := 2, numBatches := 2, cbs := [0, 1], timer := false, hasSched := false }
     let A : Asg := fun i ev =>
       if i == 1 && ev == Event.epochStart 1 then some (.pyBool false, false)
       else if i == 0 && ev == Event.batchEnd 1 0 then some (.pyBool true, false)
       else if i == 1 && ev == Event.batchEnd 1 0 then some (.npBool true, false) else none
     (match fitAsg c A (fun _ _ => false) false with
      | .error ab => some (noClear A ab.log, ab.err, ab.stop, (events ab.log).getLast?) | .ok _ => none)
       = some (true, .ValueError, true, some (.batchEnd 1 0))) := by decide

/-- list fact: an element that occurs once in `A ++ B`, as its last element, does not occur in `A` unless `A` ends with it -/
theorem not_mem_of_last_once {α : Type} [DecidableEq α] {A B : List α} {x y : α} (hc : (A ++ B).count x = 1)
    (hl : (A ++ B).getLast? = some x) (hA : A.getLast? = some y) (hxy : y ≠ x) : x ∉ A := by
  intro hx
  cases B with
  | nil =>
    rw [List.append_nil, hA] at hl
    exact hxy (Option.some.inj hl)
  | cons b B =>
    have hB : x ∈ b :: B := by
      rw [List.getLast?_append] at hl
      cases hb : (b :: B).getLast? with
      | none => simp at hb
      | some z =>
        rw [hb] at hl
        have hz : z = x := by simpa using hl
        exact List.mem_of_getLast? (hz ▸ hb)
    have h1 : 1 ≤ A.count x := List.count_pos_iff.mpr hx
    have h2 : 1 ≤ (b :: B).count x := List.count_pos_iff.mpr hB
    rw [List.count_append] at hc
    omega

/-- **C12.14b** When the exception is raised while an event other than train-end is dispatched, `on_train_end` has NOT been
dispatched when it leaves `fit` (and, the trace being a prefix ending in the interrupted event, neither has anything after that
event: the current epoch's end event is not delivered either unless it is the interrupted one). -/
theorem C12_exception_no_train_end (c : Cfg) (A : Asg) (mid : Int → Nat → Bool) (stop₀ : Bool) (ab : Abort)
    (h : fitAsg c A mid stop₀ = .error ab) (hte : ∀ i, A.raises i .trainEnd = none) :
    Event.trainEnd ∉ events ab.log := by
  obtain ⟨pre', i, ev, seen, ver, post, e1, e2, e3, _, _, _, _, _, _, hs, hlast⟩ := exception_trace_model c A mid stop₀ ab h
  subst hs
  have hev : ev ≠ .trainEnd := by
    intro he; rw [he, hte i] at e3; cases e3
  have hfull : events (fit c (A.req mid) false).1 = events ab.log ++ events post := by rw [e2, events_append]
  have honce : (events (fit c (A.req mid) false).1).count .trainEnd = 1 ∧
      (events (fit c (A.req mid) false).1).getLast? = some .trainEnd := by
    by_cases hnb : 1 ≤ c.numBatches
    · have := C12_train_events_once c (A.req mid) false hnb
      exact ⟨by simpa using this.2.1, (this.2.2 rfl).2⟩
    · have h0 : c.numBatches = 0 := by omega
      obtain ⟨⟨m, _, hm⟩, _, hc, _⟩ := C12_protocol_no_batches c (A.req mid) false h0
      refine ⟨by simpa using hc, ?_⟩
      simp only [Bool.false_eq_true, if_false] at hm
      rw [hm, ← List.cons_append, List.getLast?_append]; simp
  rw [hfull] at honce
  exact not_mem_of_last_once honce.1 honce.2 hlast hev

/-- callback 1 assigns a numpy truth value without a `try` at the end of batch (1,0) of a two-batch epoch, after callback 0
has requested a stop at the start of that batch: the exception leaves `fit` with the trace `ts, es 1, bs 1 0, be 1 0` (no
epoch-end, no train-end), one update made, the flag set; callback 2 never sees that batch-end -/
example :
    let c : Cfg := { start := 1, epochs := 2, numBatches := 2, cbs := [0, 1, 2], timer := true, hasSched := false }
    let A : Asg := fun i ev =>
      if i == 0 && ev == Event.batchStart 1 0 then some (.pyBool true, false)
      else if i == 1 && ev == Event.batchEnd 1 0 then some (.npBool true, false) else none
    (match fitAsg c A (fun _ _ => false) false with
     | .ok _ => none
     | .error ab => some (events ab.log, (calls ab.log).getLast?, ab.err, ab.stop, ab.ver)) =
      some ([.trainStart, .epochStart 1, .batchStart 1 0, .batchEnd 1 0], some (1, .batchEnd 1 0), .ValueError, true, 1) := by
  decide

/-- **C12.15** `CallbackList` as a mutable sequence (callback_list.py:26-55) is plain list surgery on the callbacks `fit`
will dispatch to, behind an `isinstance` guard. With `j` the normalised index (`pyIdx`: `k` itself for `0 ≤ k < n`, `k + n` for
`-n ≤ k < 0`, otherwise `IndexError`): `cl[k] = cb` replaces position `j` and nothing else; `del cl[k]` removes position `j`;
`cl.insert(k, cb)` puts `cb` before position `insIdx k` (clamped into `0 … n`, never an error); `cl.append(cb)` puts it last;
`a + b` is `a`'s callbacks followed by `b`'s; `cl[k]` reads position `j`. Offering a non-callback to `__setitem__` / `insert` /
`append` is refused (`TypeError`, before the index is looked at). -/
theorem C12_container_ops (l : List Nat) :
    (∀ (n : Nat) (k : Int) (j : Nat), pyIdx n k = some j ↔
      ((0 ≤ k ∧ k < n ∧ (j : Int) = k) ∨ (k < 0 ∧ -(n : Int) ≤ k ∧ (j : Int) = k + n))) ∧
    (∀ k i j, pyIdx l.length k = some j →
      CbOp.apply l (.setItem k (.cb i)) = .ok (l.take j ++ i :: l.drop (j + 1)) ∧
      CbOp.apply l (.delItem k) = .ok (l.take j ++ l.drop (j + 1)) ∧
      cbGetItem l k = .ok (l.getD j 0) ∧ j < l.length) ∧
    (∀ k i, pyIdx l.length k = none →
      CbOp.apply l (.setItem k (.cb i)) = .error .IndexError ∧ CbOp.apply l (.delItem k) = .error .IndexError ∧
      cbGetItem l k = .error .IndexError) ∧
    (∀ k i, CbOp.apply l (.insert k (.cb i)) =
        .ok (l.take (insIdx l.length k) ++ i :: l.drop (insIdx l.length k)) ∧ insIdx l.length k ≤ l.length) ∧
    (∀ i, CbOp.apply l (.append (.cb i)) = .ok (l ++ [i])) ∧
    (∀ o, CbOp.apply l (.add o) = .ok (l ++ o) ∧ CbOp.apply l (.radd o) = .ok (o ++ l)) ∧
    (∀ k, CbOp.apply l (.setItem k .other) = .error .TypeError ∧ CbOp.apply l (.insert k .other) = .error .TypeError ∧
      CbOp.apply l (.append .other) = .error .TypeError) := by
  refine ⟨?_, ?_, ?_, ?_, ?_, ?_, ?_⟩
  · intro n k j
    constructor
    · intro h
      obtain ⟨h1, h2⟩ := pyIdx_some h
      by_cases hk : k < 0
      · rw [if_pos hk] at h2; right; omega
      · rw [if_neg hk] at h2; left; omega
    · intro h
      unfold pyIdx
      rcases h with ⟨h1, h2, h3⟩ | ⟨h1, h2, h3⟩
      · have : ¬ k < 0 := by omega
        simp only [this, if_false]
        rw [if_pos (by omega)]; congr 1; omega
      · simp only [h1, if_true]
        rw [if_neg (by omega), if_pos (by omega)]; congr 1; omega
  · intro k i j h
    have hj := (pyIdx_some h).1
    refine ⟨?_, ?_, ?_, hj⟩
    · simp only [CbOp.apply, h, List.set_eq_take_append_cons_drop, if_pos hj]
    · simp only [CbOp.apply, h, List.eraseIdx_eq_take_drop_succ]
    · simp only [cbGetItem, h, List.getD, List.getElem?_eq_getElem hj, Option.getD_some]
  · intro k i h
    simp [CbOp.apply, cbGetItem, h]
  · intro k i
    exact ⟨by simp only [CbOp.apply, cbInsert, insertIdx_take_drop i l _ (insIdx_le _ _)], insIdx_le _ _⟩
  · intro i
    have : insIdx l.length (l.length : Int) = l.length := by
      unfold insIdx
      have h0 : ¬ ((l.length : Int) < 0) := by omega
      simp only [h0, if_false]; omega
    simp only [CbOp.apply, cbInsert, this, List.insertIdx_length_self]
  · intro o; exact ⟨rfl, rfl⟩
  · intro k; exact ⟨rfl, rfl, rfl⟩

/-- a refused operation leaves the contents untouched; an accepted one continues from the new contents (the caller's
`try/except` around each operation) -/
theorem cbRunOps_cons (l : List Nat) (op : CbOp) (ops : List CbOp) :
    (∀ e, op.apply l = .error e → cbRunOps l (op :: ops) = ((cbRunOps l ops).1, some e :: (cbRunOps l ops).2)) ∧
    (∀ l', op.apply l = .ok l' → cbRunOps l (op :: ops) = ((cbRunOps l' ops).1, none :: (cbRunOps l' ops).2)) := by
  constructor
  · intro e h; simp only [cbRunOps, h]
  · intro l' h; simp only [cbRunOps, h]

/-- **C12.15b** (composition with `C12_dispatch_order`) After ANY sequence of container operations on a `CallbackList` — each
accepted or refused as in `C12_container_ops`, a refused one changing nothing (`cbRunOps_cons`) — a `fit` given that container
dispatches every event of its protocol trace to exactly the resulting callbacks, in the resulting order; a sequence of
operations that are all refused leaves the container, hence the dispatch, as it was. -/
theorem C12_container_ops_dispatch (l : List Nat) (ops : List CbOp) (a : Args) (R : Req) (stop₀ : Bool) (nb : Nat)
    (ha : a.callbacks = .cbList (cbRunOps l ops).1) :
    calls (fit (a.cfg nb) R stop₀).1 =
      (events (fit (a.cfg nb) R stop₀).1).flatMap (fun ev => (cbRunOps l ops).1.map (fun i => (i, ev))) ∧
    ((∀ x ∈ (cbRunOps l ops).2, x ≠ none) → (cbRunOps l ops).1 = l) ∧
    (cbRunOps l ops).2.length = ops.length := by
  refine ⟨?_, ?_, ?_⟩
  · have := (C12_callbacks_container a R stop₀ nb).2
    rw [ha] at this
    exact this
  · clear ha
    induction ops generalizing l with
    | nil => intro _; rfl
    | cons op ops ih =>
      intro hall
      cases hop : op.apply l with
      | error e =>
        rw [((cbRunOps_cons l op ops).1 e hop)] at hall ⊢
        exact ih l (fun x hx => hall x (List.mem_cons_of_mem _ hx))
      | ok l' =>
        rw [((cbRunOps_cons l op ops).2 l' hop)] at hall
        exact absurd rfl (hall none (List.mem_cons_self))
  · clear ha
    induction ops generalizing l with
    | nil => rfl
    | cons op ops ih =>
      cases hop : op.apply l with
      | error e => rw [((cbRunOps_cons l op ops).1 e hop)]; simp [ih]
      | ok l' => rw [((cbRunOps_cons l op ops).2 l' hop)]; simp [ih]

/-- a container built and edited through the API: `[5]`, `cl[0] = 0`, `append(2)`, `insert(1, 1)`, `insert(-9, 7)`,
`cl[3] = "x"` (refused), `del cl[-4]`, `del cl[7]` (refused), `cl + [3]` — the result is `[0, 1, 2, 3]` -/
example :
    cbRunOps [5] [.setItem 0 (.cb 0), .append (.cb 2), .insert 1 (.cb 1), .insert (-9) (.cb 7), .setItem 3 .other,
                  .delItem (-4), .delItem 7, .add [3], .append .other] =
      ([0, 1, 2, 3], [none, none, none, none, some .TypeError, none, some .IndexError, none, some .TypeError]) := by
  decide

/-- **C12.16** The `Timer` that `time=True` appends (timer.py:32-62, neural_state.py:565-566) is transparent: the log of the
run with it is the log of the run without it plus printed lines — entry for entry the same events, the same handler
invocations of the user callbacks with the same flag and parameter version seen, the same flag read by `fit` after every
dispatch (so the same breaks), the same control skeleton (parameter updates in the same windows, scheduler steps), the same
final flag / version / scheduler count. Without the Timer nothing is printed; with it `calculate_elapsed_time` prints its line
as the very last thing of every run that was not silent. -/
theorem C12_timer_transparent (c : Cfg) (R : Req) (stop₀ : Bool) :
    noPrint (fit (c.withTimer true) R stop₀).1 = (fit (c.withTimer false) R stop₀).1 ∧
    events (fit (c.withTimer true) R stop₀).1 = events (fit (c.withTimer false) R stop₀).1 ∧
    calls (fit (c.withTimer true) R stop₀).1 = calls (fit (c.withTimer false) R stop₀).1 ∧
    rets (fit (c.withTimer true) R stop₀).1 = rets (fit (c.withTimer false) R stop₀).1 ∧
    skeleton (fit (c.withTimer true) R stop₀).1 = skeleton (fit (c.withTimer false) R stop₀).1 ∧
    (fit (c.withTimer true) R stop₀).2.stop = (fit (c.withTimer false) R stop₀).2.stop ∧
    (fit (c.withTimer true) R stop₀).2.ver = (fit (c.withTimer false) R stop₀).2.ver ∧
    (fit (c.withTimer true) R stop₀).2.sched = (fit (c.withTimer false) R stop₀).2.sched ∧
    prints (fit (c.withTimer false) R stop₀).1 = [] ∧
    (stop₀ = false → (fit (c.withTimer true) R stop₀).1.getLast? = some (.ret .trainEnd (fit (c.withTimer true) R stop₀).2.stop) ∧
      (prints (fit (c.withTimer true) R stop₀).1).getLast? = some .total) := by
  obtain ⟨h1, h2⟩ := fit_timerEq c R stop₀
  obtain ⟨k1, k2, k3⟩ := key_eq h2
  obtain ⟨p1, p2, p3, p4⟩ := noPrint_proj (fit (c.withTimer true) R stop₀).1
  refine ⟨h1, by rw [← p1, h1], by rw [← p2, h1], by rw [← p3, h1], by rw [← p4, h1], k1, k2, k3,
    by rw [← h1]; exact prints_noPrint _, ?_⟩
  intro hs
  subst hs
  have hd : ∀ s : S, ∃ pre, (dispatch (c.withTimer true) R .trainEnd s).1 =
      pre ++ [.print .total, .ret .trainEnd (dispatch (c.withTimer true) R .trainEnd s).2.stop] ∧ prints pre = [] := by
    intro s
    refine ⟨.emit .trainEnd :: (dispatchCbs R .trainEnd s.ver c.cbs s.stop).1, ?_, ?_⟩
    · simp [dispatch, Cfg.withTimer, timerHandle]
    · simp [(dispatchCbs_proj R .trainEnd s.ver c.cbs s.stop).2.2.2.1]
  unfold fit
  simp only [Bool.false_eq_true, if_false]
  obtain ⟨pre, hp, hpp⟩ := hd (epochLoop (c.withTimer true) R (epochRange (c.withTimer true).start (c.withTimer true).epochs)
    (dispatch (c.withTimer true) R .trainStart { stop := false, notified := false, ver := 0, sched := 0 }).2).2
  constructor
  · rw [hp]; simp [← List.append_assoc]
  · rw [hp]; simp [← List.append_assoc, hpp]

/-- **C12.16b** What the `Timer` prints (timer.py:39-62, `already_notified`): nothing in a silent run; otherwise at most ONE
"Training terminated at epoch e[, batch b]" line — for the first `on_batch_end` / `on_epoch_end` (before train-end) whose
dispatch leaves the flag set (`rets` = the flag after the user callbacks of each event; by `C12_sticky` the OR of the requests
so far), naming that batch / epoch — followed by the elapsed-time line of `calculate_elapsed_time`, which is always last.
A stop first requested at train-end is not announced. -/
theorem C12_timer_prints (c : Cfg) (R : Req) :
    prints (fit (c.withTimer true) R true).1 = [] ∧
    ∃ pre, rets (fit (c.withTimer true) R false).1 = pre ++ [(.trainEnd, (fit (c.withTimer true) R false).2.stop)] ∧
      prints (fit (c.withTimer true) R false).1 = firstMsg pre ++ [.total] ∧
      (firstMsg pre).length ≤ 1 ∧ (pre.any endSet = false → firstMsg pre = []) := by
  refine ⟨by rw [fit_stopped]; rfl, ?_⟩
  obtain ⟨pre, h1, h2⟩ := fit_prints c R
  refine ⟨pre, h1, h2, ?_, fun h => firstMsg_of_not_any h⟩
  unfold firstMsg
  split
  · rename_i x _
    cases x.1 <;> simp [timerLine]
  · simp

/-- callback 0 asks for a stop at the START of batch (1,1): the Timer announces it at the END of that batch, once, and the
epoch-end that follows (flag still set) is not announced again -/
example :
    let c : Cfg := { start := 1, epochs := 2, numBatches := 3, cbs := [0], timer := false, hasSched := true }
    let R : Req := { cb := fun i ev => i == 0 && ev == Event.batchStart 1 1, mid := fun _ _ => false }
    firstMsg ((rets (fit (c.withTimer true) R false).1).dropLast) = [.terminatedBatch 1 1] ∧
      ((rets (fit (c.withTimer true) R false).1).filter endSet).length = 2 := by decide

/-- the hypotheses are satisfiable and the statement is not empty: a stopped three-batch run with the Timer prints two lines -/
example :
    let c : Cfg := { start := 1, epochs := 2, numBatches := 3, cbs := [0], timer := false, hasSched := true }
    let R : Req := { cb := fun i ev => i == 0 && ev == Event.batchStart 1 1, mid := fun _ _ => false }
    prints (fit (c.withTimer true) R false).1 = [.terminatedBatch 1 1, .total] ∧
      (fit (c.withTimer true) R false).1.length = (fit (c.withTimer false) R false).1.length + 2 := by decide

/-! ## Non-vacuity: a concrete run -/

/-- two epochs (3, 4) of two batches, two callbacks; callback 1 requests a stop at the end of batch (3,1):
epoch 3 completes its two batches, epoch 4 never starts. -/
example :
    let c : Cfg := { start := 3, epochs := 4, numBatches := 2, cbs := [0, 1], timer := true, hasSched := true }
    let R : Req := { cb := fun i ev => i == 1 && ev == Event.batchEnd 3 1, mid := fun _ _ => false }
    events (fit c R false).1 =
      [.trainStart, .epochStart 3, .batchStart 3 0, .batchEnd 3 0, .batchStart 3 1, .batchEnd 3 1,
       .epochEnd 3, .trainEnd] ∧ (fit c R false).2.stop = true ∧ (fit c R false).2.ver = 2 ∧
      (fit c R false).2.sched = 1 := by decide

/-- the hypotheses of `C12_stop_in_batch` are satisfiable (same run) -/
example :
    let c : Cfg := { start := 3, epochs := 4, numBatches := 2, cbs := [0, 1], timer := true, hasSched := true }
    let R : Req := { cb := fun i ev => i == 1 && ev == Event.batchEnd 3 1, mid := fun _ _ => false }
    QuietBefore c R 3 ∧ QuietUpto c R 3 1 ∧ reqEv c R (.batchEnd 3 1) = true := by
  refine ⟨⟨by decide, fun e' h1 h2 => by simp at h1; omega⟩, ⟨by decide, fun b hb => ?_⟩, by decide⟩
  have : b = 0 := by omega
  subst this
  exact ⟨by decide, rfl, by decide⟩

/-- the hypothesis of `C12_complete_without_stop` is satisfiable (nobody ever requests a stop), also for an
empty epoch range -/
example (c : Cfg) : QuietBefore c { cb := fun _ _ => false, mid := fun _ _ => false } (c.epochs + 1) := by
  refine ⟨by simp [reqEv], fun e' _ _ => ⟨⟨by simp [reqEv], fun b _ => ⟨by simp [reqEv], rfl, by simp [reqEv]⟩⟩,
    by simp [reqEv]⟩⟩

end C12
end QV.Props
