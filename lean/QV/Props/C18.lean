/-
C18 — Early stopping halts exactly when its documented convergence rule is met.

"With period, patience p, tolerance and criterion given, training is stopped at the first checked epoch
at which the monitored quantity's deviation between the current evaluation and the evaluation p
evaluations earlier — relative, absolute, or scaled by that earlier evaluation's standard deviation, as
selected — is below the tolerance, and at no earlier epoch; it never stops before p earlier evaluations
exist and never by comparing an evaluation with itself. The variance criterion is refused for plain
metrics, and the deprecated variance-based class behaves as the variance criterion."

All theorems: ∀ sequences of monitored values (functions of the world token of each epoch), ∀ patience
p ≥ 1, ∀ periods ≥ 1 of evaluator and stopper, BOTH orders of evaluator and stopper in the callback list,
∀ tolerances, ∀ earlier histories of the evaluator (`prev`: evaluations made in earlier runs), metric and
observable evaluators.  Model: QV.Model.EarlyStop on top of QV.Model.Callbacks, instantiated at ℝ
(executed at Float against the code by the C18 correspondence check).

Guards (totalisation traps, DESIGN §4): `relative` needs the reference value `M_{t−p} ≠ 0`
(over ℝ, `x / 0 = 0`; in the code a Python-float zero reference raises `ZeroDivisionError` — KNOWN FINDING
F8, signature `EarlyStopping/relative/pyfloat/ref==0`, witnessed by the `example` at the end of this
file — and a numpy zero reference gives inf/nan, i.e. no stop); `variance` needs `var_{t−p} > 0`.
A relative deviation from 0 is not defined by the property either, so the guarded theorem is the
full statement and keeps the name `C18_first_stop`.
-/
import Mathlib.Analysis.SpecialFunctions.Sqrt
import QV.Model.EarlyStop
import QV.Real
import QV.Lemmas.Callbacks
import QV.Props.C17

namespace QV.Props
namespace C18
open QV.Props.C17
open QV QV.Cb

variable {W : Type}

/-! ### specification (the documented rule) -/

/-- one evaluation as the rule sees it: the monitored value `M` and its variance -/
structure Obs where
  M : ℝ
  var : ℝ

/-- the three deviations of the class docstring (early_stopping.py:27-45), reference first -/
noncomputable def devSpec : Criterion → Obs → Obs → ℝ
  | .relative, ref, cur => |ref.M - cur.M| / |ref.M|
  | .absolute, ref, cur => |ref.M - cur.M|
  | .variance, ref, cur => |ref.M - cur.M| / Real.sqrt ref.var

/-- the documented rule on the evaluations `M₀ … M_t` present when the stopper looks:
`t ≥ p ∧ dev(M_{t−p}, M_t) < tol` -/
def StopRule (crit : Criterion) (p : ℕ) (tol : ℝ) (hist : List Obs) : Prop :=
  ∃ (t : ℕ) (ref cur : Obs), hist.length = t + 1 ∧ p ≤ t ∧ hist[t - p]? = some ref ∧ hist[t]? = some cur ∧
    devSpec crit ref cur < tol

/-- the guard: whenever a comparison takes place, the reference is non-zero (relative) / has positive
variance (variance criterion) -/
def Guarded (crit : Criterion) (p : ℕ) (hist : List Obs) : Prop :=
  ∀ (t : ℕ) (ref : Obs), hist.length = t + 1 → p ≤ t → hist[t - p]? = some ref →
    (crit = .relative → ref.M ≠ 0) ∧ (crit = .variance → 0 < ref.var)

/-- the evaluation points an evaluator of period `pe` adds while the epochs `cs` go by -/
def evalPoints (pe : Int) (cs : List (Int × W)) : List (Int × W) := cs.filter (fun x => decide (pe ∣ x.1))

/-- the evaluation points present when the STOPPER looks at candidate epoch `x`, `pre` being the epochs of
this run before it and `prev` the evaluations of earlier runs: with the evaluator first in the callback
list this epoch's own evaluation is already there, with the stopper first it is not. -/
def visible (evalFirst : Bool) (pe : Int) (prev pre : List (Int × W)) (x : Int × W) : List (Int × W) :=
  prev ++ evalPoints pe (if evalFirst then pre ++ [x] else pre)

/-- evaluation points ↦ what the rule sees -/
def histOf (Mof Vof : W → Num ℝ) (pts : List (Int × W)) : List Obs :=
  pts.map (fun x => ⟨(Mof x.2).x, (Vof x.2).x⟩)

/-- `ev` is an evaluator in good order that tracks the quantity `name`: at world `w` its evaluation yields
`Mof w` for the monitored value (and `Vof w` for its variance when the criterion needs one), and its
history so far consists of the evaluation points `pts`. -/
def Monitors (name : String) (Mof Vof : W → Num ℝ) (crit : Criterion) : AnyEval W ℝ → List (Int × W) → Prop
  | .metric c s, pts =>
    1 ≤ c.period ∧ c.names.Nodup ∧ (c.log = true → "epoch" ∉ c.names) ∧ (name, Mof) ∈ c.metrics ∧
    crit ≠ .variance ∧ s.past = recordsOf c.evalAll pts
  | .observable c s, pts =>
    1 ≤ c.period ∧ (c.log = true → ∀ w, StatsWF (c.statistics w)) ∧
    (∀ w, ∃ d, (c.statistics w).getItem name = .ok d ∧ d.getItem "mean" = .ok (Mof w) ∧
      (crit = .variance → d.getItem "variance" = .ok (Vof w))) ∧
    s.past = recordsOf c.statistics pts

/-- the evaluator's period -/
def evalPeriod : AnyEval W ℝ → Int
  | .metric c _ => c.period
  | .observable c _ => c.period

/-! ### the evaluator as seen through `Monitors` -/

theorem monitors_len {name : String} {Mof Vof : W → Num ℝ} {crit : Criterion} {ev : AnyEval W ℝ}
    {pts : List (Int × W)} (h : Monitors name Mof Vof crit ev pts) : ev.len = pts.length := by
  cases ev with
  | metric c s => simp [AnyEval.len, EvalState.len, h.2.2.2.2.2, recordsOf]
  | observable c s => simp [AnyEval.len, EvalState.len, h.2.2.2, recordsOf]

/-- `value_getter(name, k − len)` is the monitored value at the `k`-th evaluation point -/
theorem monitors_value {name : String} {Mof Vof : W → Num ℝ} {crit : Criterion} {ev : AnyEval W ℝ}
    {pts : List (Int × W)} (h : Monitors name Mof Vof crit ev pts) (k : ℕ) (hk : k < pts.length) :
    ev.value name (some ((k : Int) - pts.length)) = .ok (Mof pts[k].2) := by
  cases ev with
  | metric c s =>
    obtain ⟨_, hnd, _, hf, _, hs⟩ := h
    have := (C17_records_get_value c.evalAll pts s hs name k hk).2
    simp only [AnyEval.value, this]
    exact C17_records_metric_value c hnd _ hf
  | observable c s =>
    obtain ⟨_, _, hst, hs⟩ := h
    have := (C17_records_get_value c.statistics pts s hs name k hk).2
    obtain ⟨d, hd1, hd2, _⟩ := hst pts[k].2
    simp only [AnyEval.value, this, hd1, hd2]

/-- `value_getter(name)` (index `None` ↦ −1) is the monitored value at the LAST evaluation point -/
theorem monitors_value_last {name : String} {Mof Vof : W → Num ℝ} {crit : Criterion} {ev : AnyEval W ℝ}
    {pts : List (Int × W)} (h : Monitors name Mof Vof crit ev pts) (t : ℕ) (ht : pts.length = t + 1) :
    ev.value name none = .ok (Mof (pts[t]'(by omega)).2) := by
  have hk : t < pts.length := by omega
  have hv := monitors_value h t hk
  have hidx : ((t : Int) - pts.length) = -1 := by omega
  rw [hidx] at hv
  cases ev with
  | metric c s => simpa [AnyEval.value, EvalState.getValue] using hv
  | observable c s => simpa [AnyEval.value, EvalState.getValue] using hv

theorem monitors_variance {name : String} {Mof Vof : W → Num ℝ} {ev : AnyEval W ℝ}
    {pts : List (Int × W)} (h : Monitors name Mof Vof .variance ev pts) (k : ℕ) (hk : k < pts.length) :
    ev.variance name (some ((k : Int) - pts.length)) = .ok (Vof pts[k].2) := by
  cases ev with
  | metric c s => exact absurd rfl h.2.2.2.2.1
  | observable c s =>
    obtain ⟨_, _, hst, hs⟩ := h
    have := (C17_records_get_value c.statistics pts s hs name k hk).2
    obtain ⟨d, hd1, _, hd3⟩ := hst pts[k].2
    simp only [AnyEval.variance, this, hd1, hd3 rfl]

/-- the evaluator's own `on_epoch_end` keeps `Monitors`, adding the point iff its period divides the epoch -/
theorem monitors_step {name : String} {Mof Vof : W → Num ℝ} {crit : Criterion} {ev : AnyEval W ℝ}
    {pts : List (Int × W)} (h : Monitors name Mof Vof crit ev pts) (e : Int) (w : W) :
    ∃ ev', ev.onEpochEnd e w = .ok ev' ∧ evalPeriod ev' = evalPeriod ev ∧
      Monitors name Mof Vof crit ev' (pts ++ evalPoints (evalPeriod ev) [(e, w)]) := by
  cases ev with
  | metric c s =>
    obtain ⟨hp, hnd, hep, hf, hc, hs⟩ := h
    by_cases hd : c.period ∣ e
    · refine ⟨.metric c ⟨s.past ++ [(e, c.evalAll w)], c.evalAll w,
          s.log ++ (if c.log then [metricRow c (e, w)] else [])⟩, ?_, rfl, hp, hnd, hep, hf, hc, ?_⟩
      · simp [AnyEval.onEpochEnd, metric_onEpochEnd c hp hnd hep, hd, Except.map]
      · simp [hd, evalPoints, evalPeriod, hs, recordsOf]
    · refine ⟨.metric c s, ?_, rfl, hp, hnd, hep, hf, hc, ?_⟩
      · simp [AnyEval.onEpochEnd, metric_onEpochEnd c hp hnd hep, hd, Except.map]
      · simp [hd, evalPoints, evalPeriod, hs]
  | observable c s =>
    obtain ⟨hp, hwf, hst, hs⟩ := h
    by_cases hd : c.period ∣ e
    · refine ⟨.observable c ⟨s.past ++ [(e, c.statistics w)], c.statistics w,
          s.log ++ (if c.log then [observableRow c (e, w)] else [])⟩, ?_, rfl, hp, hwf, hst, ?_⟩
      · simp [AnyEval.onEpochEnd, observable_onEpochEnd c hp hwf, hd, Except.map]
      · simp [hd, evalPoints, evalPeriod, hs, recordsOf]
    · refine ⟨.observable c s, ?_, rfl, hp, hwf, hst, ?_⟩
      · simp [AnyEval.onEpochEnd, observable_onEpochEnd c hp hwf, hd, Except.map]
      · simp [hd, evalPoints, evalPeriod, hs]

/-! ### the deviation the model computes -/

/-- what `deviation()` returns when `t ≥ p` evaluations exist and the guard holds:
the documented deviation between `M_{t−p}` and `M_t` -/
theorem deviation_eq (es : EarlyStopping ℝ) (p : ℕ) (hp : es.patience = (p : Int))
    {Mof Vof : W → Num ℝ} {ev : AnyEval W ℝ} {pts : List (Int × W)}
    (h : Monitors es.quantityName Mof Vof es.criterion ev pts)
    (t : ℕ) (ht : pts.length = t + 1) (hpt : p ≤ t)
    (hg : Guarded es.criterion p (histOf Mof Vof pts)) :
    ∃ d, es.deviation ev = .ok d ∧
      d.x = devSpec es.criterion ((histOf Mof Vof pts)[t - p]'(by simp [histOf]; omega))
        ((histOf Mof Vof pts)[t]'(by simp [histOf]; omega)) := by
  have hk1 : t - p < pts.length := by omega
  have hidx : (-es.patience - 1 : Int) = ((t - p : ℕ) : Int) - pts.length := by
    rw [hp, ht]; omega
  have hv1 := monitors_value h (t - p) hk1
  rw [← hidx] at hv1
  have hv2 := monitors_value_last h t ht
  have hchange : es.changeInMetric ev = .ok ((Mof pts[t - p].2).sub (Mof pts[t].2)) := by
    simp [EarlyStopping.changeInMetric, hv1, hv2]
  have hgu := hg t ⟨(Mof pts[t - p].2).x, (Vof pts[t - p].2).x⟩ (by simp [histOf, ht]) hpt
    (by simp [histOf, hk1])
  cases hc : es.criterion with
  | relative =>
    have hne : (Mof pts[t - p].2).x ≠ 0 := hgu.1 hc
    have hb : ((Mof pts[t - p].2).x == 0) = false := by simpa using hne
    refine ⟨_, by simp [EarlyStopping.deviation, hc, EarlyStopping.relativeChange, hchange, hv1, Num.div, hb]; rfl, ?_⟩
    simp [Num.abs, Num.sub, devSpec, histOf, abs_div]
  | absolute =>
    refine ⟨_, by simp [EarlyStopping.deviation, hc, EarlyStopping.absoluteChange, hchange]; rfl, ?_⟩
    simp [Num.abs, Num.sub, devSpec, histOf]
  | variance =>
    rw [hc] at h
    have hvar := monitors_variance h (t - p) hk1
    rw [← hidx] at hvar
    refine ⟨_, by simp [EarlyStopping.deviation, hc, EarlyStopping.varianceScaledAbsChange, hchange, hvar, Num.div, Num.npSqrt]; rfl, ?_⟩
    simp [Num.abs, Num.sub, devSpec, histOf]

/-- **C18 never-self.** With patience `p ≥ 1` and `t ≥ p`, the change the model computes is
`M_{t−p} − M_t` for the evaluations at positions `t − p` and `t` of the history — two DIFFERENT positions,
`p` apart; the current evaluation is never compared with itself. -/
theorem C18_never_self (es : EarlyStopping ℝ) (p : ℕ) (hp1 : 1 ≤ p) (hp : es.patience = (p : Int))
    {Mof Vof : W → Num ℝ} {ev : AnyEval W ℝ} {pts : List (Int × W)}
    (h : Monitors es.quantityName Mof Vof es.criterion ev pts)
    (t : ℕ) (ht : pts.length = t + 1) (hpt : p ≤ t) :
    ∃ (i j : ℕ) (hi : i < pts.length) (hj : j < pts.length), i < j ∧ i + p = j ∧ j = t ∧
      es.changeInMetric ev = .ok ((Mof pts[i].2).sub (Mof pts[j].2)) := by
  have hk1 : t - p < pts.length := by omega
  have hidx : (-es.patience - 1 : Int) = ((t - p : ℕ) : Int) - pts.length := by
    rw [hp, ht]; omega
  have hv1 := monitors_value h (t - p) hk1
  rw [← hidx] at hv1
  have hv2 := monitors_value_last h t ht
  refine ⟨t - p, t, hk1, by omega, by omega, by omega, rfl, ?_⟩
  simp [EarlyStopping.changeInMetric, hv1, hv2]

/-- one `on_epoch_end` of the stopper against the documented rule -/
theorem stopper_onEpochEnd (es : EarlyStopping ℝ) (p : ℕ) (hp : es.patience = (p : Int)) (hps : 1 ≤ es.period)
    {Mof Vof : W → Num ℝ} {ev : AnyEval W ℝ} {pts : List (Int × W)}
    (h : Monitors es.quantityName Mof Vof es.criterion ev pts) (st : StopState) (e : Int)
    (hg : es.period ∣ e → Guarded es.criterion p (histOf Mof Vof pts)) :
    (es.period ∣ e ∧ StopRule es.criterion p es.tolerance (histOf Mof Vof pts) →
      es.onEpochEnd ev st e = .ok ⟨true, some e⟩) ∧
    (¬ (es.period ∣ e ∧ StopRule es.criterion p es.tolerance (histOf Mof Vof pts)) →
      es.onEpochEnd ev st e = .ok st) := by
  unfold EarlyStopping.onEpochEnd
  rw [gate_pos hps, monitors_len h, hp]
  by_cases hd : es.period ∣ e
  · simp only [hd, decide_true, true_and]
    by_cases hlen : ((pts.length : Int) > (p : Int))
    · obtain ⟨t, ht⟩ : ∃ t, pts.length = t + 1 := ⟨pts.length - 1, by omega⟩
      have hpt : p ≤ t := by omega
      obtain ⟨d, hd1, hd2⟩ := deviation_eq es p hp h t ht hpt (hg hd)
      simp only [hlen, if_true, hd1]
      have hrule : StopRule es.criterion p es.tolerance (histOf Mof Vof pts) ↔ d.x < es.tolerance := by
        rw [hd2]
        constructor
        · rintro ⟨t', ref, cur, hl, _, hr, hcur, hlt⟩
          have htt : t' = t := by simp [histOf] at hl; omega
          subst htt
          rw [List.getElem?_eq_getElem (by simp [histOf]; omega)] at hr hcur
          cases hr; cases hcur
          exact hlt
        · intro hlt
          exact ⟨t, _, _, by simp [histOf, ht], hpt, List.getElem?_eq_getElem _, List.getElem?_eq_getElem _, hlt⟩
      constructor
      · intro hr; simp [hrule.mp hr]
      · intro hr
        have hn : ¬ d.x < es.tolerance := fun hh => hr (hrule.mpr hh)
        simp [hn]
    · simp only [hlen, if_false]
      constructor
      · rintro ⟨t, _, _, hl, hpt, _⟩
        simp [histOf] at hl
        omega
      · intro _; trivial
  · simp [hd]

/-- **C18 needs-history.** While fewer than `p + 1` evaluations exist (`t < p`) the stopper does nothing —
whatever the tolerance (even ∞), the criterion and the values; it neither stops nor raises. -/
theorem C18_needs_history (es : EarlyStopping ℝ) (p : ℕ) (hp : es.patience = (p : Int)) (hps : 1 ≤ es.period)
    {Mof Vof : W → Num ℝ} {ev : AnyEval W ℝ} {pts : List (Int × W)}
    (h : Monitors es.quantityName Mof Vof es.criterion ev pts) (hfew : pts.length ≤ p)
    (st : StopState) (e : Int) :
    es.onEpochEnd ev st e = .ok st := by
  unfold EarlyStopping.onEpochEnd
  rw [gate_pos hps, monitors_len h, hp]
  have hlen : ¬ ((pts.length : Int) > (p : Int)) := by omega
  by_cases hd : es.period ∣ e <;> simp [hd, hlen]

/-! ### the run -/

theorem visible_cons (evalFirst : Bool) (pe : Int) (prev pre : List (Int × W)) (y x : Int × W) :
    visible evalFirst pe prev (y :: pre) x = visible evalFirst pe (prev ++ evalPoints pe [y]) pre x := by
  cases evalFirst <;> simp [visible, evalPoints, List.filter_cons] <;> split <;> simp

/-- "training is stopped at candidate `x` (preceded by `pre`)": `x` is a checked epoch and the documented rule
holds on the evaluations visible there -/
def StopsAt (es : EarlyStopping ℝ) (p : ℕ) (evalFirst : Bool) (pe : Int) (Mof Vof : W → Num ℝ)
    (prev pre : List (Int × W)) (x : Int × W) : Prop :=
  es.period ∣ x.1 ∧ StopRule es.criterion p es.tolerance (histOf Mof Vof (visible evalFirst pe prev pre x))

/-- **C18 first-stop.** Run `fit` over the candidate epochs `cands` (with their world tokens) with the
callback list `[evaluator, stopper]` (`evalFirst`) or `[stopper, evaluator]`, patience `p ≥ 1`, any periods
≥ 1, any tolerance, the evaluator already holding the evaluations `prev`.  Under the guard, the run does
not raise, and
* either there is a FIRST candidate `x` (`cands = pre ++ x :: post`) that is a checked epoch at which the
  documented rule holds on the evaluations present there — no earlier candidate is one —; then the
  epoch-ends that fired are exactly those of `pre ++ [x]`, the stop flag is set and `last_epoch = x`;
* or no candidate is one; then every epoch-end fired, the flag is still clear and `last_epoch` unchanged. -/
theorem C18_first_stop (es : EarlyStopping ℝ) (p : ℕ) (_hp1 : 1 ≤ p) (hp : es.patience = (p : Int))
    (hps : 1 ≤ es.period) (evalFirst : Bool) {Mof Vof : W → Num ℝ} (cands : List (Int × W)) :
    ∀ (ev : AnyEval W ℝ) (prev : List (Int × W)) (last₀ : Option Int) (fired₀ : List Int),
    Monitors es.quantityName Mof Vof es.criterion ev prev →
    (∀ pre x post, cands = pre ++ x :: post → es.period ∣ x.1 →
      Guarded es.criterion p (histOf Mof Vof (visible evalFirst (evalPeriod ev) prev pre x))) →
    ∃ r, fitRun es evalFirst ⟨ev, ⟨false, last₀⟩, fired₀⟩ cands = .ok r ∧
      ((∃ pre x post, cands = pre ++ x :: post ∧
          StopsAt es p evalFirst (evalPeriod ev) Mof Vof prev pre x ∧
          (∀ pre' x' post', cands = pre' ++ x' :: post' → pre'.length < pre.length →
            ¬ StopsAt es p evalFirst (evalPeriod ev) Mof Vof prev pre' x') ∧
          r.st = ⟨true, some x.1⟩ ∧ r.fired = fired₀ ++ (pre ++ [x]).map Prod.fst) ∨
       ((∀ pre x post, cands = pre ++ x :: post →
            ¬ StopsAt es p evalFirst (evalPeriod ev) Mof Vof prev pre x) ∧
          r.st = ⟨false, last₀⟩ ∧ r.fired = fired₀ ++ cands.map Prod.fst)) := by
  simp only [fitRun, Bool.false_eq_true, if_false]
  induction cands with
  | nil =>
    intro ev prev last₀ fired₀ _ _
    refine ⟨_, rfl, Or.inr ⟨?_, rfl, by simp⟩⟩
    intro pre x post h
    simp at h
  | cons y rest ih =>
    intro ev prev last₀ fired₀ hmon hguard
    obtain ⟨e, w⟩ := y
    -- the evaluator's step
    obtain ⟨ev', hev', hper, hmon'⟩ := monitors_step hmon e w
    -- what the stopper sees at this epoch
    have hvis : visible evalFirst (evalPeriod ev) prev [] (e, w)
        = if evalFirst then prev ++ evalPoints (evalPeriod ev) [(e, w)] else prev := by
      cases evalFirst <;> simp [visible, evalPoints]
    have hg0 := hguard [] (e, w) rest rfl
    -- the stopper's step, in either order
    have hstop : ∀ st : StopState,
        (StopsAt es p evalFirst (evalPeriod ev) Mof Vof prev [] (e, w) →
          (if evalFirst then es.onEpochEnd ev' st e else es.onEpochEnd ev st e) = .ok ⟨true, some e⟩) ∧
        (¬ StopsAt es p evalFirst (evalPeriod ev) Mof Vof prev [] (e, w) →
          (if evalFirst then es.onEpochEnd ev' st e else es.onEpochEnd ev st e) = .ok st) := by
      intro st
      unfold StopsAt
      rw [hvis]
      rw [hvis] at hg0
      cases evalFirst with
      | true => exact stopper_onEpochEnd es p hp hps hmon' st e hg0
      | false => exact stopper_onEpochEnd es p hp hps hmon st e hg0
    have hboth : ∀ st', (if evalFirst then es.onEpochEnd ev' ⟨false, last₀⟩ e else es.onEpochEnd ev ⟨false, last₀⟩ e) = .ok st' →
        epochEndBoth es evalFirst ⟨ev, ⟨false, last₀⟩, fired₀⟩ e w = .ok ⟨ev', st', fired₀ ++ [e]⟩ := by
      intro st' hst
      cases evalFirst with
      | true => simp only [if_true] at hst; simp [epochEndBoth, hev', hst]
      | false => simp only [Bool.false_eq_true, if_false] at hst; simp [epochEndBoth, hev', hst]
    by_cases hnow : StopsAt es p evalFirst (evalPeriod ev) Mof Vof prev [] (e, w)
    · -- stops here
      have := hboth _ ((hstop ⟨false, last₀⟩).1 hnow)
      refine ⟨⟨ev', ⟨true, some e⟩, fired₀ ++ [e]⟩, by simp [fitLoop, this], Or.inl ⟨[], (e, w), rest, rfl, hnow, ?_, rfl, by simp⟩⟩
      intro pre' x' post' _ hlt
      simp at hlt
    · -- goes on
      have hthis := hboth _ ((hstop ⟨false, last₀⟩).2 hnow)
      have hguard' : ∀ pre x post, rest = pre ++ x :: post → es.period ∣ x.1 →
          Guarded es.criterion p (histOf Mof Vof (visible evalFirst (evalPeriod ev') (prev ++ evalPoints (evalPeriod ev) [(e, w)]) pre x)) := by
        intro pre x post hsplit hdv
        have := hguard ((e, w) :: pre) x post (by simp [hsplit]) hdv
        rw [visible_cons] at this
        rw [hper]
        exact this
      obtain ⟨r, hr, hcases⟩ := ih ev' (prev ++ evalPoints (evalPeriod ev) [(e, w)]) last₀ (fired₀ ++ [e]) hmon' hguard'
      refine ⟨r, by simp [fitLoop, hthis, hr], ?_⟩
      rw [hper] at hcases
      rcases hcases with ⟨pre, x, post, hsplit, hst, hearlier, hrst, hrf⟩ | ⟨hnone, hrst, hrf⟩
      · refine Or.inl ⟨(e, w) :: pre, x, post, by simp [hsplit], ?_, ?_, hrst, by simp [hrf]⟩
        · unfold StopsAt at hst ⊢
          rwa [visible_cons]
        · intro pre' x' post' hsplit' hlt
          rcases List.cons_eq_append_iff.mp hsplit' with ⟨h1, h2⟩ | ⟨q, h1, h2⟩
          · subst h1
            simp only [List.cons.injEq] at h2
            obtain ⟨h2a, _⟩ := h2
            subst h2a
            exact hnow
          · subst h1
            have := hearlier q x' post' h2 (by simpa using hlt)
            unfold StopsAt at this ⊢
            rwa [visible_cons]
      · refine Or.inr ⟨?_, hrst, by simp [hrf]⟩
        intro pre' x' post' hsplit'
        rcases List.cons_eq_append_iff.mp hsplit' with ⟨h1, h2⟩ | ⟨q, h1, h2⟩
        · subst h1
          simp only [List.cons.injEq] at h2
          obtain ⟨h2a, _⟩ := h2
          subst h2a
          exact hnow
        · subst h1
          have := hnone q x' post' h2
          unfold StopsAt at this ⊢
          rwa [visible_cons]

/-! ### constructor table -/

/-- **C18 variance refused.** `criterion` normalising (strip, lower) to "variance" with a `MetricEvaluator`
is a `TypeError` — for every period, tolerance, integer patience and quantity name; so is the deprecated
class with a `MetricEvaluator`. -/
theorem C18_variance_refused {α : Type} (period : Int) (tol : α) (i : Int) (name : String) (criterion : String)
    (hc : normCriterion criterion = "variance") (vn : Option String) :
    (EarlyStopping.new period tol (.int i) .metric name criterion : Except PyErr (EarlyStopping α)) = .error .TypeError ∧
    (VarianceBasedEarlyStopping.new period tol (.int i) .metric name vn : Except PyErr (EarlyStopping α)) = .error .TypeError := by
  constructor
  · simp [EarlyStopping.new, PatArg.toInt, hc]
  · have : normCriterion "variance" = "variance" := by decide
    simp [VarianceBasedEarlyStopping.new, EarlyStopping.new, PatArg.toInt, this]

/-- **C18 unknown criterion.** A criterion that normalises to none of the three names is a `ValueError` with
either evaluator class; something that is not an evaluator is a `TypeError` whatever the criterion. -/
theorem C18_unknown_criterion {α : Type} (period : Int) (tol : α) (i : Int) (name : String) (criterion : String)
    (h1 : normCriterion criterion ≠ "relative") (h2 : normCriterion criterion ≠ "absolute")
    (h3 : normCriterion criterion ≠ "variance") :
    (EarlyStopping.new period tol (.int i) .metric name criterion : Except PyErr (EarlyStopping α)) = .error .ValueError ∧
    (EarlyStopping.new period tol (.int i) .observable name criterion : Except PyErr (EarlyStopping α)) = .error .ValueError ∧
    (EarlyStopping.new period tol (.int i) .other name criterion : Except PyErr (EarlyStopping α)) = .error .TypeError := by
  simp [EarlyStopping.new, PatArg.toInt, criterionOfString, h1, h2, h3]

/-- **C18 deprecated class.** `VarianceBasedEarlyStopping(period, tol, patience, evaluator, name, variance_name)`
builds exactly the object `EarlyStopping(…, criterion="variance")` builds (same fields, hence the same
decisions in every run, by `C18_first_stop`); `variance_name` is ignored; with an `ObservableEvaluator` that
object has period, tolerance, `int(patience)`, name as given and the variance criterion. -/
theorem C18_deprecated_eq {α : Type} (period : Int) (tol : α) (pa : PatArg) (ek : EvalKind) (name : String)
    (vn vn' : Option String) (i : Int) :
    (VarianceBasedEarlyStopping.new period tol pa ek name vn : Except PyErr (EarlyStopping α))
      = EarlyStopping.new period tol pa ek name "variance" ∧
    (VarianceBasedEarlyStopping.new period tol pa ek name vn : Except PyErr (EarlyStopping α))
      = VarianceBasedEarlyStopping.new period tol pa ek name vn' ∧
    (VarianceBasedEarlyStopping.new period tol (.int i) .observable name vn : Except PyErr (EarlyStopping α))
      = .ok ⟨period, tol, i, name, .variance, .observable⟩ := by
  refine ⟨rfl, rfl, ?_⟩
  have : normCriterion "variance" = "variance" := by decide
  simp [VarianceBasedEarlyStopping.new, EarlyStopping.new, PatArg.toInt, this, criterionOfString]

/-! ### non-vacuity and the known finding F8 -/

/-- a metric evaluator of period 1 tracking one scripted quantity "m" (value = function of the epoch) -/
def exEval (f : Int → Num ℝ) : AnyEval Int ℝ := .metric ⟨1, [("m", f)], false⟩ ⟨[], [], []⟩

/-- a stopper of period 1 and patience 1 on "m" -/
def exStopper (crit : Criterion) (tol : ℝ) : EarlyStopping ℝ := ⟨1, tol, 1, "m", crit, .metric⟩

/-- the hypotheses of `C18_first_stop` are satisfiable: the example evaluator monitors "m" -/
example (f : Int → Num ℝ) : Monitors "m" f f .absolute (exEval f) [] := by
  refine ⟨by simp, by simp [MetricEvaluator.names, Dict.keys], by simp, by simp, by simp, rfl⟩

theorem exEval_step (f : Int → Num ℝ) (past : List (Int × Dict String (Num ℝ))) (last : Dict String (Num ℝ)) (e w : Int) :
    (AnyEval.metric ⟨1, [("m", f)], false⟩ ⟨past, last, []⟩ : AnyEval Int ℝ).onEpochEnd e w
      = .ok (.metric ⟨1, [("m", f)], false⟩ ⟨past ++ [(e, [("m", f w)])], [("m", f w)], []⟩) := by
  simp [AnyEval.onEpochEnd, MetricEvaluator.onEpochEnd, gate_pos, MetricEvaluator.evalAll, Except.map]

/-- the example evaluator after the evaluations `recs` -/
def exEvalAt (f : Int → Num ℝ) (recs : List (Int × ℝ)) : AnyEval Int ℝ :=
  .metric ⟨1, [("m", f)], false⟩
    ⟨recs.map (fun r => (r.1, [("m", ⟨.py, r.2⟩)])), (match recs.getLast? with | some r => [("m", ⟨.py, r.2⟩)] | none => []), []⟩

/-- scripted values 1, 5, 5, 5, … by epoch -/
def f15 : Int → Num ℝ := fun e => ⟨.py, if e = 1 then 1 else 5⟩

/-- **F7 regression witness** (`p = 1`, values `[1, 5, 5, …]`, tolerance `0.01`, absolute): the run does NOT stop at
the second evaluation (where the unfixed code compared 5 with itself) but at the third. -/
example : (fitRun (exStopper .absolute 0.01) true ⟨exEval f15, ⟨false, none⟩, []⟩ [(1, 1), (2, 2), (3, 3), (4, 4)]).map
        (fun r => (r.st, r.fired)) = .ok (⟨true, some 3⟩, [1, 2, 3]) := by
  have h1 : epochEndBoth (exStopper .absolute 0.01) true ⟨exEval f15, ⟨false, none⟩, []⟩ 1 1
      = .ok ⟨exEvalAt f15 [(1, 1)], ⟨false, none⟩, [1]⟩ := by
    simp [epochEndBoth, exEval, exEvalAt, exEval_step, f15, exStopper, EarlyStopping.onEpochEnd, gate_pos,
      AnyEval.len, EvalState.len]
  have h2 : epochEndBoth (exStopper .absolute 0.01) true ⟨exEvalAt f15 [(1, 1)], ⟨false, none⟩, [1]⟩ 2 2
      = .ok ⟨exEvalAt f15 [(1, 1), (2, 5)], ⟨false, none⟩, [1, 2]⟩ := by
    simp [epochEndBoth, exEvalAt, exEval_step, f15, exStopper, EarlyStopping.onEpochEnd, gate_pos,
      AnyEval.len, EvalState.len, EarlyStopping.deviation, EarlyStopping.absoluteChange,
      EarlyStopping.changeInMetric, AnyEval.value, EvalState.getValue, pyIndex, Dict.getItem, List.lookup,
      Num.sub, Num.abs, NumKind.join]
    norm_num
  have h3 : epochEndBoth (exStopper .absolute 0.01) true ⟨exEvalAt f15 [(1, 1), (2, 5)], ⟨false, none⟩, [1, 2]⟩ 3 3
      = .ok ⟨exEvalAt f15 [(1, 1), (2, 5), (3, 5)], ⟨true, some 3⟩, [1, 2, 3]⟩ := by
    simp [epochEndBoth, exEvalAt, exEval_step, f15, exStopper, EarlyStopping.onEpochEnd, gate_pos,
      AnyEval.len, EvalState.len, EarlyStopping.deviation, EarlyStopping.absoluteChange,
      EarlyStopping.changeInMetric, AnyEval.value, EvalState.getValue, pyIndex, Dict.getItem, List.lookup,
      Num.sub, Num.abs, NumKind.join]
    norm_num
  simp [fitRun, fitLoop, h1, h2, h3, Except.map]

/-- **KNOWN FINDING F8 — the failing witness in the model.** Criterion "relative", Python-float metric values,
reference value exactly 0.0 (`M₀ = 0`, `M₁ = 5`, patience 1): the second epoch-end raises
`ZeroDivisionError` out of `fit`. -/
example : fitRun (exStopper .relative 0.01) true
      ⟨exEval (fun e => ⟨.py, if e = 1 then 0 else 5⟩), ⟨false, none⟩, []⟩ [(1, 1), (2, 2), (3, 3)]
      = .error .ZeroDivisionError := by
  simp [fitRun, fitLoop, epochEndBoth, exEval, exStopper, exEval_step, EarlyStopping.onEpochEnd, gate_pos,
    AnyEval.len, EvalState.len, EarlyStopping.deviation, EarlyStopping.relativeChange,
    EarlyStopping.changeInMetric, AnyEval.value, EvalState.getValue, pyIndex, Dict.getItem, List.lookup,
    Num.sub, Num.div, NumKind.join]

/-- the same input with `numpy.float64` values does not raise: the division is IEEE (`inf`, so no stop in
the code; over ℝ the quotient is the totalised `x / 0 = 0`, which is why `C18_first_stop` carries the guard). -/
example (a b : ℝ) : ∃ q, Num.div (⟨.np, a⟩ : Num ℝ) ⟨.np, b⟩ = .ok q ∧ Num.div (⟨.py, a⟩ : Num ℝ) ⟨.np, b⟩ = .ok ⟨.np, a / b⟩
    ∧ Num.div (⟨.np, a⟩ : Num ℝ) ⟨.py, b⟩ = .ok ⟨.np, a / b⟩ := by
  refine ⟨⟨.np, a / b⟩, ?_, ?_, ?_⟩ <;> simp [Num.div, NumKind.join]

/-- `Num.div` raises exactly for Python-float / Python-float zero -/
example (a : ℝ) : Num.div (⟨.py, a⟩ : Num ℝ) ⟨.py, 0⟩ = .error .ZeroDivisionError := by
  simp [Num.div]

/-- the guard of `C18_first_stop` is satisfiable with a history containing a zero that is never a reference:
values `[3, 0]`, patience 1, relative -/
example : Guarded .relative 1 [⟨3, 0⟩, ⟨0, 0⟩] := by
  intro t ref hl hpt href
  simp at hl
  subst hl
  simp at href
  subst href
  exact ⟨fun _ => by norm_num, fun h => by cases h⟩

/-- the criterion string is normalised before the table lookup: `"  Variance\n"` is refused for a metric evaluator -/
example : (EarlyStopping.new 1 (0 : ℝ) (.int 2) .metric "m" "  Variance\n" : Except PyErr (EarlyStopping ℝ)) = .error .TypeError :=
  (C18_variance_refused 1 0 2 "m" "  Variance\n" (by decide) none).1

/-- an unknown criterion -/
example : (EarlyStopping.new 1 (0 : ℝ) (.int 2) .observable "m" "rel" : Except PyErr (EarlyStopping ℝ)) = .error .ValueError :=
  (C18_unknown_criterion 1 0 2 "m" "rel" (by decide) (by decide) (by decide)).2.1

end C18
end QV.Props
