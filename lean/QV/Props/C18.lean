/-
C18 — Early stopping halts exactly when its documented convergence rule is met.

"With period, patience p, tolerance and criterion given, training is stopped at the first checked epoch
at which the monitored quantity's deviation between the current evaluation and the evaluation p
evaluations earlier — relative, absolute, or scaled by that earlier evaluation's standard deviation, as
selected — is below the tolerance, and at no earlier epoch; it never stops before p earlier evaluations
exist and never by comparing an evaluation with itself. The variance criterion is refused for plain
metrics, and the deprecated variance-based class behaves as the variance criterion."

All theorems: ∀ sequences of monitored values (functions of the world token of each epoch), ∀ patience
p ≥ 1, ∀ periods ≥ 1 of evaluator and stopper, BOTH orders of evaluator and stopper in the callback list,
∀ tolerances, ∀ earlier histories of the evaluator (`prev`: evaluations made in earlier runs), metric and
observable evaluators.  Model: QV.Model.EarlyStop on top of QV.Model.Callbacks, instantiated at ℝ
(executed at Float against the code by the C18 correspondence check).

No guards.  The degenerate comparisons — `relative` with reference value `M_{t−p} = 0`, `variance` with
`var_{t−p} ≤ 0` — are part of the statement: the deviation is then the extended value `⊤` ("inf or nan" in the
code, after the F8 fix for Python floats as well as for numpy floats), which is below NO tolerance, so the
stopper neither stops nor raises there (`C18_degenerate_no_stop`).  The model produces these values by an explicit
test, never by Mathlib's totalised `x / 0 = 0` (see QV/Model/EarlyStop.lean).  Tolerances range over `ℝ ∪ {∞}`
(`Option ℝ`, `none = float("inf")`, `tolSpec`): every defined deviation is below `∞`, a degenerate one is not.
(F8, repaired: before the fix a Python-float zero reference raised `ZeroDivisionError` out of `fit`.)
-/
import Mathlib.Analysis.SpecialFunctions.Sqrt
import Mathlib.Order.WithBot
import QV.Model.EarlyStop
import QV.Real
import QV.Lemmas.Callbacks
import QV.Lemmas.EarlyStopFit
import QV.Props.C17
import QV.GenBridge.EarlyStopping

namespace QV.Props
namespace C18
open QV.Props.C17
open QV QV.Cb

variable {W : Type}

/-! ### specification (the documented rule) -/

/-- one evaluation as the rule sees it: the monitored value `M` and its variance -/
structure Obs where
  M : ℝ
  var : ℝ

/-- the three deviations of the class docstring (early_stopping.py:27-45), reference first, as extended reals:
`⊤` where the quotient is undefined — zero reference (relative), non-positive variance (variance criterion) —
which the code computes as inf or nan -/
noncomputable def devSpec : Criterion → Obs → Obs → WithTop ℝ
  | .relative, ref, cur => if ref.M = 0 then ⊤ else ((|ref.M - cur.M| / |ref.M| : ℝ) : WithTop ℝ)
  | .absolute, ref, cur => ((|ref.M - cur.M| : ℝ) : WithTop ℝ)
  | .variance, ref, cur => if ref.var ≤ 0 then ⊤ else ((|ref.M - cur.M| / Real.sqrt ref.var : ℝ) : WithTop ℝ)

/-- the tolerance as an extended real: `none` is `float("inf")` -/
def tolSpec : Option ℝ → WithTop ℝ
  | none => ⊤
  | some t => (t : WithTop ℝ)

/-- the documented rule on the evaluations `M₀ … M_t` present when the stopper looks:
`t ≥ p ∧ dev(M_{t−p}, M_t) < tol` (in `ℝ ∪ {∞}`: an undefined deviation is below nothing, a defined one is below `∞`) -/
def StopRule (crit : Criterion) (p : ℕ) (tol : WithTop ℝ) (hist : List Obs) : Prop :=
  ∃ (t : ℕ) (ref cur : Obs), hist.length = t + 1 ∧ p ≤ t ∧ hist[t - p]? = some ref ∧ hist[t]? = some cur ∧
    devSpec crit ref cur < tol

/-- the comparison at the end of `hist` is degenerate: zero reference (relative) / non-positive variance (variance) -/
def Degenerate (crit : Criterion) (p : ℕ) (hist : List Obs) : Prop :=
  ∃ (t : ℕ) (ref : Obs), hist.length = t + 1 ∧ p ≤ t ∧ hist[t - p]? = some ref ∧
    ((crit = .relative ∧ ref.M = 0) ∨ (crit = .variance ∧ ref.var ≤ 0))

/-- the evaluation points an evaluator of period `pe` adds while the epochs `cs` go by -/
def evalPoints (pe : Int) (cs : List (Int × W)) : List (Int × W) := cs.filter (fun x => decide (pe ∣ x.1))

/-- the evaluation points present when the STOPPER looks at candidate epoch `x`, `pre` being the epochs of
this run before it and `prev` the evaluations of earlier runs: with the evaluator first in the callback
list this epoch's own evaluation is already there, with the stopper first it is not. -/
def visible (evalFirst : Bool) (pe : Int) (prev pre : List (Int × W)) (x : Int × W) : List (Int × W) :=
  prev ++ evalPoints pe (if evalFirst then pre ++ [x] else pre)

/-- evaluation points ↦ what the rule sees -/
def histOf (Mof Vof : W → Num ℝ) (pts : List (Int × W)) : List Obs :=
  pts.map (fun x => ⟨(Mof x.2).x, (Vof x.2).x⟩)

/-- `ev` is an evaluator in good order that tracks the quantity `name`: at world `w` its evaluation yields
`Mof w` for the monitored value (and `Vof w` for its variance when the criterion needs one), and its
history so far consists of the evaluation points `pts`. -/
def Monitors (name : String) (Mof Vof : W → Num ℝ) (crit : Criterion) : AnyEval W ℝ → List (Int × W) → Prop
  | .metric c s, pts =>
    1 ≤ c.period ∧ c.names.Nodup ∧ (c.log = true → "epoch" ∉ c.names) ∧ (name, Mof) ∈ c.metrics ∧
    crit ≠ .variance ∧ s.past = recordsOf c.evalAll pts
  | .observable c s, pts =>
    1 ≤ c.period ∧ (c.log = true → ∀ w, StatsWF (c.statistics w)) ∧
    (∀ w, ∃ d, (c.statistics w).getItem name = .ok d ∧ d.getItem "mean" = .ok (Mof w) ∧
      (crit = .variance → d.getItem "variance" = .ok (Vof w))) ∧
    s.past = recordsOf c.statistics pts

/-- the evaluator's period -/
def evalPeriod : AnyEval W ℝ → Int
  | .metric c _ => c.period
  | .observable c _ => c.period

/-! ### the evaluator as seen through `Monitors` -/

theorem monitors_len {name : String} {Mof Vof : W → Num ℝ} {crit : Criterion} {ev : AnyEval W ℝ}
    {pts : List (Int × W)} (h : Monitors name Mof Vof crit ev pts) : ev.len = pts.length := by
  cases ev with
  | metric c s => simp [AnyEval.len, EvalState.len, h.2.2.2.2.2, recordsOf]
  | observable c s => simp [AnyEval.len, EvalState.len, h.2.2.2, recordsOf]

/-- `value_getter(name, k − len)` is the monitored value at the `k`-th evaluation point -/
theorem monitors_value {name : String} {Mof Vof : W → Num ℝ} {crit : Criterion} {ev : AnyEval W ℝ}
    {pts : List (Int × W)} (h : Monitors name Mof Vof crit ev pts) (k : ℕ) (hk : k < pts.length) :
    ev.value name (some ((k : Int) - pts.length)) = .ok (Mof pts[k].2) := by
  cases ev with
  | metric c s =>
    obtain ⟨_, hnd, _, hf, _, hs⟩ := h
    have := (C17_records_get_value c.evalAll pts s hs name k hk).2
    simp only [AnyEval.value, this]
    exact C17_records_metric_value c hnd _ hf
  | observable c s =>
    obtain ⟨_, _, hst, hs⟩ := h
    have := (C17_records_get_value c.statistics pts s hs name k hk).2
    obtain ⟨d, hd1, hd2, _⟩ := hst pts[k].2
    simp only [AnyEval.value, this, hd1, hd2]

/-- `value_getter(name)` (index `None` ↦ −1) is the monitored value at the LAST evaluation point -/
theorem monitors_value_last {name : String} {Mof Vof : W → Num ℝ} {crit : Criterion} {ev : AnyEval W ℝ}
    {pts : List (Int × W)} (h : Monitors name Mof Vof crit ev pts) (t : ℕ) (ht : pts.length = t + 1) :
    ev.value name none = .ok (Mof (pts[t]'(by omega)).2) := by
  have hk : t < pts.length := by omega
  have hv := monitors_value h t hk
  have hidx : ((t : Int) - pts.length) = -1 := by omega
  rw [hidx] at hv
  cases ev with
  | metric c s => simpa [AnyEval.value, EvalState.getValue] using hv
  | observable c s => simpa [AnyEval.value, EvalState.getValue] using hv

theorem monitors_variance {name : String} {Mof Vof : W → Num ℝ} {ev : AnyEval W ℝ}
    {pts : List (Int × W)} (h : Monitors name Mof Vof .variance ev pts) (k : ℕ) (hk : k < pts.length) :
    ev.variance name (some ((k : Int) - pts.length)) = .ok (Vof pts[k].2) := by
  cases ev with
  | metric c s => exact absurd rfl h.2.2.2.2.1
  | observable c s =>
    obtain ⟨_, _, hst, hs⟩ := h
    have := (C17_records_get_value c.statistics pts s hs name k hk).2
    obtain ⟨d, hd1, _, hd3⟩ := hst pts[k].2
    simp only [AnyEval.variance, this, hd1, hd3 rfl]

/-- the evaluator's own `on_epoch_end` keeps `Monitors`, adding the point iff its period divides the epoch -/
theorem monitors_step {name : String} {Mof Vof : W → Num ℝ} {crit : Criterion} {ev : AnyEval W ℝ}
    {pts : List (Int × W)} (h : Monitors name Mof Vof crit ev pts) (e : Int) (w : W) :
    ∃ ev', ev.onEpochEnd e w = .ok ev' ∧ evalPeriod ev' = evalPeriod ev ∧
      Monitors name Mof Vof crit ev' (pts ++ evalPoints (evalPeriod ev) [(e, w)]) := by
  cases ev with
  | metric c s =>
    obtain ⟨hp, hnd, hep, hf, hc, hs⟩ := h
    by_cases hd : c.period ∣ e
    · refine ⟨.metric c ⟨s.past ++ [(e, c.evalAll w)], c.evalAll w,
          s.log ++ (if c.log then [metricRow c (e, w)] else [])⟩, ?_, rfl, hp, hnd, hep, hf, hc, ?_⟩
      · simp [AnyEval.onEpochEnd, metric_onEpochEnd c hp hnd hep, hd, Except.map]
      · simp [hd, evalPoints, evalPeriod, hs, recordsOf]
    · refine ⟨.metric c s, ?_, rfl, hp, hnd, hep, hf, hc, ?_⟩
      · simp [AnyEval.onEpochEnd, metric_onEpochEnd c hp hnd hep, hd, Except.map]
      · simp [hd, evalPoints, evalPeriod, hs]
  | observable c s =>
    obtain ⟨hp, hwf, hst, hs⟩ := h
    by_cases hd : c.period ∣ e
    · refine ⟨.observable c ⟨s.past ++ [(e, c.statistics w)], c.statistics w,
          s.log ++ (if c.log then [observableRow c (e, w)] else [])⟩, ?_, rfl, hp, hwf, hst, ?_⟩
      · simp [AnyEval.onEpochEnd, observable_onEpochEnd c hp hwf, hd, Except.map]
      · simp [hd, evalPoints, evalPeriod, hs, recordsOf]
    · refine ⟨.observable c s, ?_, rfl, hp, hwf, hst, ?_⟩
      · simp [AnyEval.onEpochEnd, observable_onEpochEnd c hp hwf, hd, Except.map]
      · simp [hd, evalPoints, evalPeriod, hs]

/-! ### the deviation the model computes -/

/-- the extended value of a model deviation: `none` (inf or nan) ↦ `⊤` -/
def extVal : Option (Num ℝ) → WithTop ℝ
  | none => ⊤
  | some v => (v.x : WithTop ℝ)

/-- the model's `dev < tolerance` is `<` in `ℝ ∪ {∞}` -/
theorem belowTol_iff (d : ℝ) (tol : Option ℝ) : belowTol d tol = true ↔ ((d : ℝ) : WithTop ℝ) < tolSpec tol := by
  cases tol with
  | none => simp [belowTol, tolSpec, WithTop.coe_lt_top]
  | some t => simp [belowTol, tolSpec, WithTop.coe_lt_coe]

/-- what `deviation()` returns when `t ≥ p` evaluations exist: it never raises, and its extended value is the
documented deviation between `M_{t−p}` and `M_t` — `⊤` exactly in the degenerate cases -/
theorem deviation_eq (es : EarlyStopping ℝ) (p : ℕ) (hp : es.patience = (p : Int))
    {Mof Vof : W → Num ℝ} {ev : AnyEval W ℝ} {pts : List (Int × W)}
    (h : Monitors es.quantityName Mof Vof es.criterion ev pts)
    (t : ℕ) (ht : pts.length = t + 1) (hpt : p ≤ t) :
    ∃ d, es.deviation ev = .ok d ∧
      extVal d = devSpec es.criterion ((histOf Mof Vof pts)[t - p]'(by simp [histOf]; omega))
        ((histOf Mof Vof pts)[t]'(by simp [histOf]; omega)) := by
  have hk1 : t - p < pts.length := by omega
  have hidx : (-es.patience - 1 : Int) = ((t - p : ℕ) : Int) - pts.length := by
    rw [hp, ht]; omega
  have hv1 := monitors_value h (t - p) hk1
  rw [← hidx] at hv1
  have hv2 := monitors_value_last h t ht
  have hchange : es.changeInMetric ev = .ok ((Mof pts[t - p].2).sub (Mof pts[t].2)) := by
    simp [EarlyStopping.changeInMetric, hv1, hv2]
  cases hc : es.criterion with
  | relative =>
    by_cases hz : (Mof pts[t - p].2).x = 0
    · have hb : ((Mof pts[t - p].2).x == 0) = true := by simpa using hz
      refine ⟨none, by simp [EarlyStopping.deviation, hc, EarlyStopping.relativeChange, hchange, hv1, Num.npDivide, hb], ?_⟩
      simp [extVal, devSpec, histOf, hz]
    · have hb : ((Mof pts[t - p].2).x == 0) = false := by simpa using hz
      refine ⟨_, by simp [EarlyStopping.deviation, hc, EarlyStopping.relativeChange, hchange, hv1, Num.npDivide, hb]; rfl, ?_⟩
      simp [extVal, Num.abs, Num.sub, devSpec, histOf, hz, abs_div]
  | absolute =>
    refine ⟨_, by simp [EarlyStopping.deviation, hc, EarlyStopping.absoluteChange, hchange]; rfl, ?_⟩
    simp [extVal, Num.abs, Num.sub, devSpec, histOf]
  | variance =>
    rw [hc] at h
    have hvar := monitors_variance h (t - p) hk1
    rw [← hidx] at hvar
    rcases lt_trichotomy (Vof pts[t - p].2).x 0 with hneg | hzero | hpos
    · refine ⟨none, by simp [EarlyStopping.deviation, hc, EarlyStopping.varianceScaledAbsChange, hchange, hvar, Num.npSqrt, hneg], ?_⟩
      simp [extVal, devSpec, histOf, le_of_lt hneg]
    · refine ⟨none, by simp [EarlyStopping.deviation, hc, EarlyStopping.varianceScaledAbsChange, hchange, hvar, Num.npSqrt, Num.div, hzero], ?_⟩
      simp [extVal, devSpec, histOf, hzero]
    · have hn : ¬ (Vof pts[t - p].2).x < 0 := not_lt.mpr (le_of_lt hpos)
      have hs : Real.sqrt (Vof pts[t - p].2).x ≠ 0 := (Real.sqrt_pos.mpr hpos).ne'
      have hb : (Real.sqrt (Vof pts[t - p].2).x == 0) = false := by simpa using hs
      refine ⟨_, by simp [EarlyStopping.deviation, hc, EarlyStopping.varianceScaledAbsChange, hchange, hvar, Num.npSqrt, hn, Num.div, hb]; rfl, ?_⟩
      simp [extVal, Num.abs, Num.sub, devSpec, histOf, not_le.mpr hpos]

/-- the extended value of a generated float: the non-finite value ↦ `⊤` -/
def flExt : QV.Gen.Fl ℝ → WithTop ℝ
  | none => ⊤
  | some x => (x : WithTop ℝ)

theorem flExt_devFl (d : Option (Num ℝ)) : flExt (devFl d) = extVal d := by
  cases d <;> rfl

/-- **C18 (translator tie, composed).** The deviation formulas TRANSLATED FROM THE PYTHON SOURCE
(`genDeviation`: QV/Gen/EarlyStopping.lean, regenerated from the checked tree on every run), applied to the getters of an
evaluator that monitors the quantity, compute the DOCUMENTED deviation between `M_{t−p}` and `M_t` of the class docstring —
`⊤` exactly in the degenerate cases (zero reference, non-positive variance) — for every history with `t ≥ p` evaluations. -/
theorem C18_gen_deviation_is_documented (es : EarlyStopping ℝ) (p : ℕ) (hp : es.patience = (p : Int))
    {Mof Vof : W → Num ℝ} {ev : AnyEval W ℝ} {pts : List (Int × W)}
    (h : Monitors es.quantityName Mof Vof es.criterion ev pts)
    (t : ℕ) (ht : pts.length = t + 1) (hpt : p ≤ t) :
    flExt (genDeviation es ev) = devSpec es.criterion ((histOf Mof Vof pts)[t - p]'(by simp [histOf]; omega))
        ((histOf Mof Vof pts)[t]'(by simp [histOf]; omega)) := by
  obtain ⟨d, hd, hspec⟩ := deviation_eq es p hp h t ht hpt
  have hk1 : t - p < pts.length := by omega
  have hidx : (-es.patience - 1 : Int) = ((t - p : ℕ) : Int) - pts.length := by
    rw [hp, ht]; omega
  have hv1 := monitors_value h (t - p) hk1
  rw [← hidx] at hv1
  have hv2 := monitors_value_last h t ht
  have hvar : es.criterion = .variance →
      ev.variance es.quantityName (some (-es.patience - 1)) = .ok (Vof pts[t - p].2) := by
    intro hc
    rw [hc] at h
    have := monitors_variance h (t - p) hk1
    rwa [← hidx] at this
  obtain ⟨d', hd', hgen⟩ := C18_gen_deviation_eq_model es ev _ _ _ hv1 hv2 hvar
  have hdd : d = d' := by
    have := hd.symm.trans hd'
    injection this
  rw [← hgen, ← hdd, flExt_devFl, hspec]

/-- **C18 never-self.** With patience `p ≥ 1` and `t ≥ p`, the change the model computes is
`M_{t−p} − M_t` for the evaluations at positions `t − p` and `t` of the history — two DIFFERENT positions,
`p` apart; the current evaluation is never compared with itself. -/
theorem C18_never_self (es : EarlyStopping ℝ) (p : ℕ) (hp1 : 1 ≤ p) (hp : es.patience = (p : Int))
    {Mof Vof : W → Num ℝ} {ev : AnyEval W ℝ} {pts : List (Int × W)}
    (h : Monitors es.quantityName Mof Vof es.criterion ev pts)
    (t : ℕ) (ht : pts.length = t + 1) (hpt : p ≤ t) :
    ∃ (i j : ℕ) (hi : i < pts.length) (hj : j < pts.length), i < j ∧ i + p = j ∧ j = t ∧
      es.changeInMetric ev = .ok ((Mof pts[i].2).sub (Mof pts[j].2)) := by
  have hk1 : t - p < pts.length := by omega
  have hidx : (-es.patience - 1 : Int) = ((t - p : ℕ) : Int) - pts.length := by
    rw [hp, ht]; omega
  have hv1 := monitors_value h (t - p) hk1
  rw [← hidx] at hv1
  have hv2 := monitors_value_last h t ht
  refine ⟨t - p, t, hk1, by omega, by omega, by omega, rfl, ?_⟩
  simp [EarlyStopping.changeInMetric, hv1, hv2]

/-- one `on_epoch_end` of the stopper against the documented rule: it never raises -/
theorem stopper_onEpochEnd (es : EarlyStopping ℝ) (p : ℕ) (hp : es.patience = (p : Int)) (hps : 1 ≤ es.period)
    {Mof Vof : W → Num ℝ} {ev : AnyEval W ℝ} {pts : List (Int × W)}
    (h : Monitors es.quantityName Mof Vof es.criterion ev pts) (st : StopState) (e : Int) :
    (es.period ∣ e ∧ StopRule es.criterion p (tolSpec es.tolerance) (histOf Mof Vof pts) →
      es.onEpochEnd ev st e = .ok ⟨true, some e⟩) ∧
    (¬ (es.period ∣ e ∧ StopRule es.criterion p (tolSpec es.tolerance) (histOf Mof Vof pts)) →
      es.onEpochEnd ev st e = .ok st) := by
  unfold EarlyStopping.onEpochEnd
  rw [gate_pos hps, monitors_len h, hp]
  by_cases hd : es.period ∣ e
  · simp only [hd, decide_true, true_and]
    by_cases hlen : ((pts.length : Int) > (p : Int))
    · obtain ⟨t, ht⟩ : ∃ t, pts.length = t + 1 := ⟨pts.length - 1, by omega⟩
      have hpt : p ≤ t := by omega
      obtain ⟨d, hd1, hd2⟩ := deviation_eq es p hp h t ht hpt
      simp only [hlen, if_true, hd1]
      have hrule : StopRule es.criterion p (tolSpec es.tolerance) (histOf Mof Vof pts) ↔ extVal d < tolSpec es.tolerance := by
        rw [hd2]
        constructor
        · rintro ⟨t', ref, cur, hl, _, hr, hcur, hlt⟩
          have htt : t' = t := by simp [histOf] at hl; omega
          subst htt
          rw [List.getElem?_eq_getElem (by simp [histOf]; omega)] at hr hcur
          cases hr; cases hcur
          exact hlt
        · intro hlt
          exact ⟨t, _, _, by simp [histOf, ht], hpt, List.getElem?_eq_getElem _, List.getElem?_eq_getElem _, hlt⟩
      cases d with
      | none =>
        have hno : ¬ StopRule es.criterion p (tolSpec es.tolerance) (histOf Mof Vof pts) := by
          rw [hrule]; simp [extVal]
        constructor
        · intro hr; exact absurd hr hno
        · intro _; rfl
      | some v =>
        have hb : belowTol v.x es.tolerance = true ↔ StopRule es.criterion p (tolSpec es.tolerance) (histOf Mof Vof pts) := by
          rw [hrule, belowTol_iff]; rfl
        constructor
        · intro hr; simp [hb.mpr hr]
        · intro hr
          have hn : ¬ belowTol v.x es.tolerance = true := fun hh => hr (hb.mp hh)
          simp [hn]
    · simp only [hlen, if_false]
      constructor
      · rintro ⟨t, _, _, hl, hpt, _⟩
        simp [histOf] at hl
        omega
      · intro _; trivial
  · simp [hd]

/-- **C18 degenerate comparisons never stop and never raise.** At a checked or unchecked epoch, when the comparison
the stopper would make is degenerate — criterion `relative` and the reference evaluation `M_{t−p}` is exactly zero
(Python float or numpy float alike), or criterion `variance` and the reference variance is `≤ 0` — `on_epoch_end`
returns normally and leaves the stop flag and `last_epoch` as they were, for EVERY tolerance including `∞`. -/
theorem C18_degenerate_no_stop (es : EarlyStopping ℝ) (p : ℕ) (hp : es.patience = (p : Int)) (hps : 1 ≤ es.period)
    {Mof Vof : W → Num ℝ} {ev : AnyEval W ℝ} {pts : List (Int × W)}
    (h : Monitors es.quantityName Mof Vof es.criterion ev pts)
    (hdeg : Degenerate es.criterion p (histOf Mof Vof pts)) (st : StopState) (e : Int) :
    es.onEpochEnd ev st e = .ok st := by
  apply (stopper_onEpochEnd es p hp hps h st e).2
  rintro ⟨_, t, ref, cur, hl, _, hr, _, hlt⟩
  obtain ⟨t', ref', hl', _, hr', hcase⟩ := hdeg
  have htt : t' = t := by omega
  subst htt
  rw [hr] at hr'
  cases hr'
  rcases hcase with ⟨hc, hz⟩ | ⟨hc, hv⟩
  · rw [hc] at hlt; simp [devSpec, hz] at hlt
  · rw [hc] at hlt; simp [devSpec, hv] at hlt

/-- **C18 infinite tolerance.** With `tolerance = float("inf")` the rule holds exactly when a comparison takes place
(`t ≥ p`) and is not degenerate. -/
theorem C18_tolerance_infinite (crit : Criterion) (p : ℕ) (hist : List Obs) :
    StopRule crit p (tolSpec none) hist ↔ (p < hist.length ∧ ¬ Degenerate crit p hist) := by
  constructor
  · rintro ⟨t, ref, cur, hl, hpt, hr, _, hlt⟩
    refine ⟨by omega, ?_⟩
    rintro ⟨t', ref', hl', _, hr', hcase⟩
    have htt : t' = t := by omega
    subst htt
    rw [hr] at hr'
    cases hr'
    rcases hcase with ⟨hc, hz⟩ | ⟨hc, hv⟩
    · subst hc; simp [devSpec, hz, tolSpec] at hlt
    · subst hc; simp [devSpec, hv, tolSpec] at hlt
  · rintro ⟨hlen, hnd⟩
    obtain ⟨t, ht⟩ : ∃ t, hist.length = t + 1 := ⟨hist.length - 1, by omega⟩
    have hpt : p ≤ t := by omega
    refine ⟨t, hist[t - p]'(by omega), hist[t]'(by omega), ht, hpt, List.getElem?_eq_getElem _, List.getElem?_eq_getElem _, ?_⟩
    have hnd' : ¬ ((crit = .relative ∧ (hist[t - p]'(by omega)).M = 0) ∨ (crit = .variance ∧ (hist[t - p]'(by omega)).var ≤ 0)) :=
      fun hcase => hnd ⟨t, _, ht, hpt, List.getElem?_eq_getElem _, hcase⟩
    cases crit with
    | relative =>
      have : (hist[t - p]'(by omega)).M ≠ 0 := fun hz => hnd' (Or.inl ⟨rfl, hz⟩)
      simp [devSpec, this, tolSpec, WithTop.coe_lt_top]
    | absolute => simp [devSpec, tolSpec, WithTop.coe_lt_top]
    | variance =>
      have : ¬ (hist[t - p]'(by omega)).var ≤ 0 := fun hz => hnd' (Or.inr ⟨rfl, hz⟩)
      simp [devSpec, this, tolSpec, WithTop.coe_lt_top]

/-- **C18 needs-history.** While fewer than `p + 1` evaluations exist (`t < p`) the stopper does nothing —
whatever the tolerance (`es.tolerance : Option ℝ`, `none = ∞` included), the criterion and the values (zeros
included); it neither stops nor raises. -/
theorem C18_needs_history (es : EarlyStopping ℝ) (p : ℕ) (hp : es.patience = (p : Int)) (hps : 1 ≤ es.period)
    {Mof Vof : W → Num ℝ} {ev : AnyEval W ℝ} {pts : List (Int × W)}
    (h : Monitors es.quantityName Mof Vof es.criterion ev pts) (hfew : pts.length ≤ p)
    (st : StopState) (e : Int) :
    es.onEpochEnd ev st e = .ok st := by
  unfold EarlyStopping.onEpochEnd
  rw [gate_pos hps, monitors_len h, hp]
  have hlen : ¬ ((pts.length : Int) > (p : Int)) := by omega
  by_cases hd : es.period ∣ e <;> simp [hd, hlen]

/-! ### the run -/

theorem visible_cons (evalFirst : Bool) (pe : Int) (prev pre : List (Int × W)) (y x : Int × W) :
    visible evalFirst pe prev (y :: pre) x = visible evalFirst pe (prev ++ evalPoints pe [y]) pre x := by
  cases evalFirst <;> simp [visible, evalPoints, List.filter_cons] <;> split <;> simp

/-- "training is stopped at candidate `x` (preceded by `pre`)": `x` is a checked epoch and the documented rule
holds on the evaluations visible there -/
def StopsAt (es : EarlyStopping ℝ) (p : ℕ) (evalFirst : Bool) (pe : Int) (Mof Vof : W → Num ℝ)
    (prev pre : List (Int × W)) (x : Int × W) : Prop :=
  es.period ∣ x.1 ∧ StopRule es.criterion p (tolSpec es.tolerance) (histOf Mof Vof (visible evalFirst pe prev pre x))

/-- **C18 first-stop.** Run `fit` over the candidate epochs `cands` (with their world tokens) with the
callback list `[evaluator, stopper]` (`evalFirst`) or `[stopper, evaluator]`, patience `p ≥ 1`, any periods
≥ 1, any tolerance in `ℝ ∪ {∞}`, ANY monitored values (zeros, zero or negative variances included), the evaluator
already holding the evaluations `prev`.  The run does not raise, and
* either there is a FIRST candidate `x` (`cands = pre ++ x :: post`) that is a checked epoch at which the
  documented rule holds on the evaluations present there — no earlier candidate is one —; then the
  epoch-ends that fired are exactly those of `pre ++ [x]`, the stop flag is set and `last_epoch = x`;
* or no candidate is one; then every epoch-end fired, the flag is still clear and `last_epoch` unchanged. -/
theorem C18_first_stop (es : EarlyStopping ℝ) (p : ℕ) (_hp1 : 1 ≤ p) (hp : es.patience = (p : Int))
    (hps : 1 ≤ es.period) (evalFirst : Bool) {Mof Vof : W → Num ℝ} (cands : List (Int × W)) :
    ∀ (ev : AnyEval W ℝ) (prev : List (Int × W)) (last₀ : Option Int) (fired₀ : List Int),
    Monitors es.quantityName Mof Vof es.criterion ev prev →
    ∃ r, fitRun es evalFirst ⟨ev, ⟨false, last₀⟩, fired₀⟩ cands = .ok r ∧
      ((∃ pre x post, cands = pre ++ x :: post ∧
          StopsAt es p evalFirst (evalPeriod ev) Mof Vof prev pre x ∧
          (∀ pre' x' post', cands = pre' ++ x' :: post' → pre'.length < pre.length →
            ¬ StopsAt es p evalFirst (evalPeriod ev) Mof Vof prev pre' x') ∧
          r.st = ⟨true, some x.1⟩ ∧ r.fired = fired₀ ++ (pre ++ [x]).map Prod.fst) ∨
       ((∀ pre x post, cands = pre ++ x :: post →
            ¬ StopsAt es p evalFirst (evalPeriod ev) Mof Vof prev pre x) ∧
          r.st = ⟨false, last₀⟩ ∧ r.fired = fired₀ ++ cands.map Prod.fst)) := by
  simp only [fitRun, Bool.false_eq_true, if_false]
  induction cands with
  | nil =>
    intro ev prev last₀ fired₀ _
    refine ⟨_, rfl, Or.inr ⟨?_, rfl, by simp⟩⟩
    intro pre x post h
    simp at h
  | cons y rest ih =>
    intro ev prev last₀ fired₀ hmon
    obtain ⟨e, w⟩ := y
    -- the evaluator's step
    obtain ⟨ev', hev', hper, hmon'⟩ := monitors_step hmon e w
    -- what the stopper sees at this epoch
    have hvis : visible evalFirst (evalPeriod ev) prev [] (e, w)
        = if evalFirst then prev ++ evalPoints (evalPeriod ev) [(e, w)] else prev := by
      cases evalFirst <;> simp [visible, evalPoints]
    -- the stopper's step, in either order
    have hstop : ∀ st : StopState,
        (StopsAt es p evalFirst (evalPeriod ev) Mof Vof prev [] (e, w) →
          (if evalFirst then es.onEpochEnd ev' st e else es.onEpochEnd ev st e) = .ok ⟨true, some e⟩) ∧
        (¬ StopsAt es p evalFirst (evalPeriod ev) Mof Vof prev [] (e, w) →
          (if evalFirst then es.onEpochEnd ev' st e else es.onEpochEnd ev st e) = .ok st) := by
      intro st
      unfold StopsAt
      rw [hvis]
      cases evalFirst with
      | true => exact stopper_onEpochEnd es p hp hps hmon' st e
      | false => exact stopper_onEpochEnd es p hp hps hmon st e
    have hboth : ∀ st', (if evalFirst then es.onEpochEnd ev' ⟨false, last₀⟩ e else es.onEpochEnd ev ⟨false, last₀⟩ e) = .ok st' →
        epochEndBoth es evalFirst ⟨ev, ⟨false, last₀⟩, fired₀⟩ e w = .ok ⟨ev', st', fired₀ ++ [e]⟩ := by
      intro st' hst
      cases evalFirst with
      | true => simp only [if_true] at hst; simp [epochEndBoth, hev', hst]
      | false => simp only [Bool.false_eq_true, if_false] at hst; simp [epochEndBoth, hev', hst]
    by_cases hnow : StopsAt es p evalFirst (evalPeriod ev) Mof Vof prev [] (e, w)
    · -- stops here
      have := hboth _ ((hstop ⟨false, last₀⟩).1 hnow)
      refine ⟨⟨ev', ⟨true, some e⟩, fired₀ ++ [e]⟩, by simp [fitLoop, this], Or.inl ⟨[], (e, w), rest, rfl, hnow, ?_, rfl, by simp⟩⟩
      intro pre' x' post' _ hlt
      simp at hlt
    · -- goes on
      have hthis := hboth _ ((hstop ⟨false, last₀⟩).2 hnow)
      obtain ⟨r, hr, hcases⟩ := ih ev' (prev ++ evalPoints (evalPeriod ev) [(e, w)]) last₀ (fired₀ ++ [e]) hmon'
      refine ⟨r, by simp [fitLoop, hthis, hr], ?_⟩
      rw [hper] at hcases
      rcases hcases with ⟨pre, x, post, hsplit, hst, hearlier, hrst, hrf⟩ | ⟨hnone, hrst, hrf⟩
      · refine Or.inl ⟨(e, w) :: pre, x, post, by simp [hsplit], ?_, ?_, hrst, by simp [hrf]⟩
        · unfold StopsAt at hst ⊢
          rwa [visible_cons]
        · intro pre' x' post' hsplit' hlt
          rcases List.cons_eq_append_iff.mp hsplit' with ⟨h1, h2⟩ | ⟨q, h1, h2⟩
          · subst h1
            simp only [List.cons.injEq] at h2
            obtain ⟨h2a, _⟩ := h2
            subst h2a
            exact hnow
          · subst h1
            have := hearlier q x' post' h2 (by simpa using hlt)
            unfold StopsAt at this ⊢
            rwa [visible_cons]
      · refine Or.inr ⟨?_, hrst, by simp [hrf]⟩
        intro pre' x' post' hsplit'
        rcases List.cons_eq_append_iff.mp hsplit' with ⟨h1, h2⟩ | ⟨q, h1, h2⟩
        · subst h1
          simp only [List.cons.injEq] at h2
          obtain ⟨h2a, _⟩ := h2
          subst h2a
          exact hnow
        · subst h1
          have := hnone q x' post' h2
          unfold StopsAt at this ⊢
          rwa [visible_cons]

/-! ### several stop sources in one fit: a stop request, once made, stands -/

/-- **C18 a stop request stands (one stopper).** Whatever the evaluator holds, whatever the epoch: if `on_epoch_end` of an
`EarlyStopping` returns, it either leaves the flag and `last_epoch` exactly as it found them or sets the flag (and
`last_epoch`); in particular a flag that was ALREADY set — by another stopper listed earlier, by any other callback in
this dispatch or at the end of a batch of this epoch — is still set afterwards.  (A stopper that assigned
`stop_training = (deviation < tolerance)` would clear it.) -/
theorem C18_stop_request_stands {α : Type} [Sub α] [Div α] [Zero α] [BEq α] [LT α] [DecidableLT α] [Transc α]
    (es : EarlyStopping α) (ev : AnyEval W α) (st st' : StopState) (e : Int)
    (h : es.onEpochEnd ev st e = .ok st') :
    (st' = st ∨ st' = ⟨true, some e⟩) ∧ (st.stop = true → st'.stop = true) := by
  have key : st' = st ∨ st' = ⟨true, some e⟩ := by
    unfold EarlyStopping.onEpochEnd at h
    split at h
    · cases h
    · cases h; exact Or.inl rfl
    · split at h
      · split at h
        · cases h
        · cases h; exact Or.inl rfl
        · split at h
          · cases h; exact Or.inr rfl
          · cases h; exact Or.inl rfl
      · cases h; exact Or.inl rfl
  refine ⟨key, fun hs => ?_⟩
  rcases key with h1 | h1
  · rw [h1]; exact hs
  · rw [h1]

/-- **C18 a stop request stands (whole dispatch).** Through the `on_epoch_end` of any sequence of stop sources (stoppers of
any configuration, other requesting callbacks), a flag that is set stays set. -/
theorem C18_stop_request_stands_dispatch {α : Type} [Sub α] [Div α] [Zero α] [BEq α] [LT α] [DecidableLT α] [Transc α]
    (ev : AnyEval W α) (e : Int) (l : List (StopSrc α × Option Int)) :
    ∀ (l' : List (StopSrc α × Option Int)) (stop' : Bool), srcsEpochEnd ev e l true = .ok (l', stop') → stop' = true := by
  induction l with
  | nil => intro l' stop' h; simp [srcsEpochEnd] at h; exact h.2
  | cons p rest ih =>
    intro l' stop' h
    obtain ⟨src, last⟩ := p
    unfold srcsEpochEnd at h
    split at h
    · cases h
    · rename_i st hst
      have hstop : st.stop = true := by
        cases src with
        | stopper es => exact (C18_stop_request_stands es ev ⟨true, last⟩ st e hst).2 rfl
        | request eps => simp [StopSrc.onEpochEnd] at hst; rw [← hst]
      rw [hstop] at h
      cases hrest : srcsEpochEnd ev e rest true with
      | error err => rw [hrest] at h; cases h
      | ok pr =>
        obtain ⟨rest', stop''⟩ := pr
        rw [hrest] at h
        simp only [Except.ok.injEq, Prod.mk.injEq] at h
        rw [← h.2]
        exact ih rest' stop'' hrest

/-- what is required of a stop source in the theorems below: a stopper has a patience `≥ 0`, a period `≥ 1`, and the
evaluator tracks its quantity (`Mof name`, `Vof name`: monitored value / variance of the quantity `name` by world) -/
def SrcOK (Mof Vof : String → W → Num ℝ) (ev : AnyEval W ℝ) (pts : List (Int × W)) : StopSrc ℝ → Prop
  | .stopper es => 0 ≤ es.patience ∧ 1 ≤ es.period ∧
      Monitors es.quantityName (Mof es.quantityName) (Vof es.quantityName) es.criterion ev pts
  | .request _ => True

/-- source `src` asks for a stop at epoch `e` when the evaluator holds the evaluation points `pts`: a stopper iff `e` is one
of its checked epochs and ITS documented rule holds on `pts`; a requesting callback iff `e` is one of its epochs -/
def FiresAt (Mof Vof : String → W → Num ℝ) (src : StopSrc ℝ) (e : Int) (pts : List (Int × W)) : Prop :=
  match src with
  | .stopper es => es.period ∣ e ∧
      StopRule es.criterion es.patience.toNat (tolSpec es.tolerance) (histOf (Mof es.quantityName) (Vof es.quantityName) pts)
  | .request eps => e ∈ eps

/-- the same at candidate `x` of a run (`pre`: the candidates before it, `prev`: evaluations of earlier runs); `evalFirst`:
the source is listed AFTER the evaluator -/
def Fires (Mof Vof : String → W → Num ℝ) (evalFirst : Bool) (pe : Int) (prev pre : List (Int × W)) (x : Int × W)
    (src : StopSrc ℝ) : Prop :=
  FiresAt Mof Vof src x.1 (visible evalFirst pe prev pre x)

theorem fires_stopper (Mof Vof : String → W → Num ℝ) (evalFirst : Bool) (pe : Int) (prev pre : List (Int × W)) (x : Int × W)
    (es : EarlyStopping ℝ) :
    Fires Mof Vof evalFirst pe prev pre x (.stopper es) ↔
      StopsAt es es.patience.toNat evalFirst pe (Mof es.quantityName) (Vof es.quantityName) prev pre x := Iff.rfl

theorem fires_cons (Mof Vof : String → W → Num ℝ) (evalFirst : Bool) (pe : Int) (prev pre : List (Int × W)) (y x : Int × W)
    (src : StopSrc ℝ) :
    Fires Mof Vof evalFirst pe prev (y :: pre) x src = Fires Mof Vof evalFirst pe (prev ++ evalPoints pe [y]) pre x src := by
  unfold Fires
  rw [visible_cons]

open Classical in
/-- a source's `last_epoch` after a dispatch at epoch `e`: `e` if it asked for the stop (stoppers only), else unchanged -/
noncomputable def updLast (Mof Vof : String → W → Num ℝ) (e : Int) (pts : List (Int × W)) (p : StopSrc ℝ × Option Int) :
    StopSrc ℝ × Option Int :=
  match p.1 with
  | .stopper _ => (p.1, if FiresAt Mof Vof p.1 e pts then some e else p.2)
  | .request _ => p

/-- one source's `on_epoch_end` against its rule -/
theorem src_onEpochEnd (Mof Vof : String → W → Num ℝ) {ev : AnyEval W ℝ} {pts : List (Int × W)} (src : StopSrc ℝ)
    (hok : SrcOK Mof Vof ev pts src) (stop : Bool) (last : Option Int) (e : Int) :
    ∃ st, src.onEpochEnd ev stop last e = .ok st ∧ (src, st.lastEpoch) = updLast Mof Vof e pts (src, last) ∧
      (st.stop = true ↔ stop = true ∨ FiresAt Mof Vof src e pts) := by
  cases src with
  | request eps =>
    refine ⟨⟨stop || eps.contains e, last⟩, rfl, rfl, ?_⟩
    simp [FiresAt]
  | stopper es =>
    obtain ⟨hp0, hps, hmon⟩ := hok
    have hp : es.patience = ((es.patience.toNat : ℕ) : Int) := (Int.toNat_of_nonneg hp0).symm
    have hstep := stopper_onEpochEnd es es.patience.toNat hp hps hmon ⟨stop, last⟩ e
    by_cases hf : FiresAt Mof Vof (.stopper es) e pts
    · refine ⟨⟨true, some e⟩, hstep.1 hf, ?_, ?_⟩
      · simp [updLast, hf]
      · simp [hf]
    · refine ⟨⟨stop, last⟩, hstep.2 hf, ?_, ?_⟩
      · simp [updLast, hf]
      · simp [hf]

/-- the dispatch over consecutive sources against their rules: it never raises; every source's `last_epoch` is updated
by `updLast`; the flag afterwards is set iff it was set before or SOME source of the sequence asked for the stop -/
theorem srcs_step (Mof Vof : String → W → Num ℝ) {ev : AnyEval W ℝ} {pts : List (Int × W)} (e : Int)
    (l : List (StopSrc ℝ × Option Int)) :
    (∀ p ∈ l, SrcOK Mof Vof ev pts p.1) → ∀ stop : Bool,
    ∃ stop', srcsEpochEnd ev e l stop = .ok (l.map (updLast Mof Vof e pts), stop') ∧
      (stop' = true ↔ stop = true ∨ ∃ p ∈ l, FiresAt Mof Vof p.1 e pts) := by
  induction l with
  | nil => intro _ stop; exact ⟨stop, rfl, by simp⟩
  | cons p rest ih =>
    intro hok stop
    obtain ⟨src, last⟩ := p
    obtain ⟨st, hst, hupd, hiff⟩ := src_onEpochEnd Mof Vof src (hok (src, last) (by simp)) stop last e
    obtain ⟨stop', hrest, hiff'⟩ := ih (fun q hq => hok q (by simp [hq])) st.stop
    refine ⟨stop', ?_, ?_⟩
    · simp only [srcsEpochEnd, hst, hrest, List.map_cons, hupd]
    · rw [hiff', hiff]
      simp only [List.mem_cons, exists_eq_or_imp]
      tauto

/-- when no source of the sequence asks for the stop, nobody's `last_epoch` changes -/
theorem updLast_id (Mof Vof : String → W → Num ℝ) (e : Int) (pts : List (Int × W)) (l : List (StopSrc ℝ × Option Int))
    (h : ∀ p ∈ l, ¬ FiresAt Mof Vof p.1 e pts) : l.map (updLast Mof Vof e pts) = l := by
  induction l with
  | nil => rfl
  | cons p rest ih =>
    have h1 := h p (by simp)
    have h2 := ih (fun q hq => h q (by simp [hq]))
    obtain ⟨src, last⟩ := p
    cases src with
    | stopper es => simp only [List.map_cons, h2, updLast]; simp [h1]
    | request eps => simp only [List.map_cons, h2, updLast]

/-- `SrcOK` is carried along by the evaluator's step -/
theorem srcOK_step (Mof Vof : String → W → Num ℝ) {ev ev' : AnyEval W ℝ} {pts : List (Int × W)} (e : Int) (w : W)
    (hev : ev.onEpochEnd e w = .ok ev') (src : StopSrc ℝ) (hok : SrcOK Mof Vof ev pts src) :
    SrcOK Mof Vof ev' (pts ++ evalPoints (evalPeriod ev) [(e, w)]) src := by
  cases src with
  | request eps => trivial
  | stopper es =>
    obtain ⟨hp0, hps, hmon⟩ := hok
    obtain ⟨ev'', hev'', _, hmon'⟩ := monitors_step hmon e w
    rw [hev] at hev''
    cases hev''
    exact ⟨hp0, hps, hmon'⟩

/-- some source of the callback list `before ++ [evaluator] ++ after` asks for the stop at candidate `x` -/
def AnyFires (Mof Vof : String → W → Num ℝ) (pe : Int) (before after : List (StopSrc ℝ × Option Int))
    (prev pre : List (Int × W)) (x : Int × W) : Prop :=
  (∃ p ∈ before, Fires Mof Vof false pe prev pre x p.1) ∨ (∃ p ∈ after, Fires Mof Vof true pe prev pre x p.1)

open Classical in
/-- the sources after the stopping dispatch at candidate `x`: `last_epoch = x` for the stoppers whose rule held there -/
noncomputable def lastsAt (Mof Vof : String → W → Num ℝ) (evalFirst : Bool) (pe : Int) (prev pre : List (Int × W)) (x : Int × W)
    (l : List (StopSrc ℝ × Option Int)) : List (StopSrc ℝ × Option Int) :=
  l.map (updLast Mof Vof x.1 (visible evalFirst pe prev pre x))

theorem lastsAt_cons (Mof Vof : String → W → Num ℝ) (evalFirst : Bool) (pe : Int) (prev pre : List (Int × W)) (y x : Int × W)
    (l : List (StopSrc ℝ × Option Int)) :
    lastsAt Mof Vof evalFirst pe prev (y :: pre) x l = lastsAt Mof Vof evalFirst pe (prev ++ evalPoints pe [y]) pre x l := by
  unfold lastsAt
  rw [visible_cons]

/-- **C18 first-stop with several stop sources.** Run `fit` with the callback list `before ++ [evaluator] ++ after`, where
`before` and `after` are ANY sequences of `EarlyStopping` callbacks (each with its own criterion, patience `≥ 0`, period
`≥ 1`, tolerance in `ℝ ∪ {∞}`, monitored quantity) and of other callbacks that request a stop at given epochs.  The run does
not raise, and
* either there is a FIRST candidate `x` at which SOME source asks for the stop — a stopper listed before the evaluator whose
  rule holds on the evaluations without this epoch's, one listed after it whose rule holds with it, a requesting callback
  —; then training stops exactly there: the completed dispatches are those of `pre ++ [x]`, the flag is set — although the
  sources dispatched after the asking one did not ask —, every stopper whose rule held at `x` has `last_epoch = x`, every
  other source's `last_epoch` is unchanged;
* or no source ever asks; then every dispatch completed, the flag is clear and every `last_epoch` unchanged. -/
theorem C18_first_stop_multi (Mof Vof : String → W → Num ℝ) (before after : List (StopSrc ℝ × Option Int))
    (cands : List (Int × W)) :
    ∀ (ev : AnyEval W ℝ) (prev : List (Int × W)) (fired₀ : List Int),
    (∃ name crit, Monitors name (Mof name) (Vof name) crit ev prev) →
    (∀ p ∈ before ++ after, SrcOK Mof Vof ev prev p.1) →
    ∃ r, fitRunMulti ⟨ev, before, after, false, fired₀⟩ cands = .ok r ∧
      ((∃ pre x post, cands = pre ++ x :: post ∧
          AnyFires Mof Vof (evalPeriod ev) before after prev pre x ∧
          (∀ pre' x' post', cands = pre' ++ x' :: post' → pre'.length < pre.length →
            ¬ AnyFires Mof Vof (evalPeriod ev) before after prev pre' x') ∧
          r.stop = true ∧ r.fired = fired₀ ++ (pre ++ [x]).map Prod.fst ∧
          r.before = lastsAt Mof Vof false (evalPeriod ev) prev pre x before ∧
          r.after = lastsAt Mof Vof true (evalPeriod ev) prev pre x after) ∨
       ((∀ pre x post, cands = pre ++ x :: post → ¬ AnyFires Mof Vof (evalPeriod ev) before after prev pre x) ∧
          r.stop = false ∧ r.fired = fired₀ ++ cands.map Prod.fst ∧ r.before = before ∧ r.after = after)) := by
  simp only [fitRunMulti, Bool.false_eq_true, if_false]
  induction cands with
  | nil =>
    intro ev prev fired₀ _ _
    refine ⟨_, rfl, Or.inr ⟨?_, rfl, by simp, rfl, rfl⟩⟩
    intro pre x post h
    simp at h
  | cons y rest ih =>
    intro ev prev fired₀ hev hok
    obtain ⟨e, w⟩ := y
    obtain ⟨name, crit, hmon0⟩ := hev
    obtain ⟨ev', hev', hper, hmon0'⟩ := monitors_step hmon0 e w
    have hokB : ∀ p ∈ before, SrcOK Mof Vof ev prev p.1 := fun p hp => hok p (by simp [hp])
    have hokA : ∀ p ∈ after, SrcOK Mof Vof ev' (prev ++ evalPoints (evalPeriod ev) [(e, w)]) p.1 :=
      fun p hp => srcOK_step Mof Vof e w hev' p.1 (hok p (by simp [hp]))
    have hvisF : visible false (evalPeriod ev) prev [] (e, w) = prev := by simp [visible, evalPoints]
    have hvisT : visible true (evalPeriod ev) prev [] (e, w) = prev ++ evalPoints (evalPeriod ev) [(e, w)] := by
      simp [visible]
    obtain ⟨stop1, hB, hiffB⟩ := srcs_step Mof Vof e before hokB false
    obtain ⟨stop2, hA, hiffA⟩ := srcs_step Mof Vof e after hokA stop1
    have hstep : epochEndMulti ⟨ev, before, after, false, fired₀⟩ e w
        = .ok ⟨ev', before.map (updLast Mof Vof e prev),
            after.map (updLast Mof Vof e (prev ++ evalPoints (evalPeriod ev) [(e, w)])), stop2, fired₀ ++ [e]⟩ := by
      simp only [epochEndMulti, hB, hev', hA]
    have hany : stop2 = true ↔ AnyFires Mof Vof (evalPeriod ev) before after prev [] (e, w) := by
      rw [hiffA, hiffB]
      unfold AnyFires Fires
      rw [hvisF, hvisT]
      simp
    by_cases hnow : AnyFires Mof Vof (evalPeriod ev) before after prev [] (e, w)
    · have hs2 : stop2 = true := hany.mpr hnow
      rw [hs2] at hstep
      refine ⟨⟨ev', before.map (updLast Mof Vof e prev),
            after.map (updLast Mof Vof e (prev ++ evalPoints (evalPeriod ev) [(e, w)])), true, fired₀ ++ [e]⟩,
          by simp only [fitLoopMulti, hstep, if_true], Or.inl ⟨[], (e, w), rest, rfl, hnow, ?_, rfl, by simp, ?_, ?_⟩⟩
      · intro pre' x' post' _ hlt
        simp at hlt
      · simp only [lastsAt, hvisF]
      · simp only [lastsAt, hvisT]
    · have hs2 : stop2 = false := by
        cases h : stop2 with
        | false => rfl
        | true => exact absurd (hany.mp h) hnow
      have hnoB : ∀ p ∈ before, ¬ FiresAt Mof Vof p.1 e prev := by
        intro p hp hf
        apply hnow
        left
        refine ⟨p, hp, ?_⟩
        unfold Fires
        rw [hvisF]
        exact hf
      have hnoA : ∀ p ∈ after, ¬ FiresAt Mof Vof p.1 e (prev ++ evalPoints (evalPeriod ev) [(e, w)]) := by
        intro p hp hf
        apply hnow
        right
        refine ⟨p, hp, ?_⟩
        unfold Fires
        rw [hvisT]
        exact hf
      rw [updLast_id Mof Vof e prev before hnoB, updLast_id Mof Vof e _ after hnoA, hs2] at hstep
      have hok' : ∀ p ∈ before ++ after, SrcOK Mof Vof ev' (prev ++ evalPoints (evalPeriod ev) [(e, w)]) p.1 :=
        fun p hp => srcOK_step Mof Vof e w hev' p.1 (hok p hp)
      obtain ⟨r, hr, hcases⟩ := ih ev' (prev ++ evalPoints (evalPeriod ev) [(e, w)]) (fired₀ ++ [e]) ⟨name, crit, hmon0'⟩ hok'
      refine ⟨r, by simp [fitLoopMulti, hstep, hr], ?_⟩
      rw [hper] at hcases
      have hshift : ∀ pre x, AnyFires Mof Vof (evalPeriod ev) before after (prev ++ evalPoints (evalPeriod ev) [(e, w)]) pre x
          = AnyFires Mof Vof (evalPeriod ev) before after prev ((e, w) :: pre) x := by
        intro pre x
        unfold AnyFires
        simp only [fires_cons]
      rcases hcases with ⟨pre, x, post, hsplit, hst, hearlier, hrst, hrf, hrb, hra⟩ | ⟨hnone, hrst, hrf, hrb, hra⟩
      · refine Or.inl ⟨(e, w) :: pre, x, post, by simp [hsplit], ?_, ?_, hrst, by simp [hrf], ?_, ?_⟩
        · rw [← hshift]; exact hst
        · intro pre' x' post' hsplit' hlt
          rcases List.cons_eq_append_iff.mp hsplit' with ⟨h1, h2⟩ | ⟨q, h1, h2⟩
          · subst h1
            simp only [List.cons.injEq] at h2
            obtain ⟨h2a, _⟩ := h2
            subst h2a
            exact hnow
          · subst h1
            have := hearlier q x' post' h2 (by simpa using hlt)
            rw [hshift] at this
            exact this
        · rw [lastsAt_cons]; exact hrb
        · rw [lastsAt_cons]; exact hra
      · refine Or.inr ⟨?_, hrst, by simp [hrf], hrb, hra⟩
        intro pre' x' post' hsplit'
        rcases List.cons_eq_append_iff.mp hsplit' with ⟨h1, h2⟩ | ⟨q, h1, h2⟩
        · subst h1
          simp only [List.cons.injEq] at h2
          obtain ⟨h2a, _⟩ := h2
          subst h2a
          exact hnow
        · subst h1
          have := hnone q x' post' h2
          rw [hshift] at this
          exact this

/-! ### constructor table -/

/-- **C18 variance refused.** `criterion` normalising (strip, lower) to "variance" with a `MetricEvaluator`
is a `TypeError` — for every period, tolerance, integer patience and quantity name; so is the deprecated
class with a `MetricEvaluator`. -/
theorem C18_variance_refused {α : Type} (period : Int) (tol : Option α) (i : Int) (name : String) (criterion : String)
    (hc : normCriterion criterion = "variance") (vn : Option String) :
    (EarlyStopping.new period tol (.int i) .metric name criterion : Except PyErr (EarlyStopping α)) = .error .TypeError ∧
    (VarianceBasedEarlyStopping.new period tol (.int i) .metric name vn : Except PyErr (EarlyStopping α)) = .error .TypeError := by
  constructor
  · simp [EarlyStopping.new, PatArg.toInt, hc]
  · have : normCriterion "variance" = "variance" := by decide
    simp [VarianceBasedEarlyStopping.new, EarlyStopping.new, PatArg.toInt, this]

/-- **C18 unknown criterion.** A criterion that normalises to none of the three names is a `ValueError` with
either evaluator class; something that is not an evaluator is a `TypeError` whatever the criterion. -/
theorem C18_unknown_criterion {α : Type} (period : Int) (tol : Option α) (i : Int) (name : String) (criterion : String)
    (h1 : normCriterion criterion ≠ "relative") (h2 : normCriterion criterion ≠ "absolute")
    (h3 : normCriterion criterion ≠ "variance") :
    (EarlyStopping.new period tol (.int i) .metric name criterion : Except PyErr (EarlyStopping α)) = .error .ValueError ∧
    (EarlyStopping.new period tol (.int i) .observable name criterion : Except PyErr (EarlyStopping α)) = .error .ValueError ∧
    (EarlyStopping.new period tol (.int i) .other name criterion : Except PyErr (EarlyStopping α)) = .error .TypeError := by
  simp [EarlyStopping.new, PatArg.toInt, criterionOfString, h1, h2, h3]

/-- **C18 deprecated class.** (Conjuncts 1-2 hold BY CONSTRUCTION of the model — `VarianceBasedEarlyStopping.new` is defined as
`EarlyStopping.new … "variance"` and never looks at `variance_name`; a subclass overriding `on_epoch_end` or reading `variance_name`
cannot be expressed in it.  The tie to the code is the correspondence: oracle `EarlyStopping/deprecated-twin` and the runs of the
deprecated class with every value of `variance_name` — 'std_error', 'mean', 'num_samples', … positionally and by keyword — against
this model.)  `VarianceBasedEarlyStopping(period, tol, patience, evaluator, name, variance_name)`
builds exactly the object `EarlyStopping(…, criterion="variance")` builds (same fields, hence the same
decisions in every run, by `C18_first_stop`); `variance_name` is ignored; with an `ObservableEvaluator` that
object has period, tolerance, `int(patience)`, name as given and the variance criterion. -/
theorem C18_deprecated_eq {α : Type} (period : Int) (tol : Option α) (pa : PatArg) (ek : EvalKind) (name : String)
    (vn vn' : Option String) (i : Int) :
    (VarianceBasedEarlyStopping.new period tol pa ek name vn : Except PyErr (EarlyStopping α))
      = EarlyStopping.new period tol pa ek name "variance" ∧
    (VarianceBasedEarlyStopping.new period tol pa ek name vn : Except PyErr (EarlyStopping α))
      = VarianceBasedEarlyStopping.new period tol pa ek name vn' ∧
    (VarianceBasedEarlyStopping.new period tol (.int i) .observable name vn : Except PyErr (EarlyStopping α))
      = .ok ⟨period, tol, i, name, .variance, .observable⟩ := by
  refine ⟨rfl, rfl, ?_⟩
  have : normCriterion "variance" = "variance" := by decide
  simp [VarianceBasedEarlyStopping.new, EarlyStopping.new, PatArg.toInt, this, criterionOfString]

/-! ### sessions: several consecutive `fit` calls on the same evaluator and stopper -/

theorem evalPoints_append (pe : Int) (a b : List (Int × W)) : evalPoints pe (a ++ b) = evalPoints pe a ++ evalPoints pe b := by
  simp [evalPoints]

/-- **C18 sessions: a `fit` call keeps the evaluator in good order.**  Whatever the stopper decides, after a call of `fit` over `cands`
(entered with the flag set or clear) the evaluator still `Monitors` the quantity, and its history is the earlier one plus the
evaluation points of exactly the epochs that ran (`cands.take k`, the epochs whose `on_epoch_end` fired).  Hence `C18_first_stop`
applies to the NEXT call on the same evaluator and stopper objects with `prev := prev ++ evalPoints pe (cands.take k)` and
`last₀ :=` the stopper's `last_epoch` after this call: in a session of consecutive `fit` calls (`QV.Cb.sessionRun`, driver op
`c18.session`) every call stops at the first checked epoch at which the documented rule holds on ALL evaluations made so far and at
no earlier epoch — in particular a call that makes ONE evaluation compares it with the evaluation made `p` calls earlier. -/
theorem C18_fit_keeps_monitoring (es : EarlyStopping ℝ) (evalFirst : Bool) {name : String} {Mof Vof : W → Num ℝ} {crit : Criterion}
    (cands : List (Int × W)) :
    ∀ (ev : AnyEval W ℝ) (prev : List (Int × W)) (st : StopState) (fired₀ : List Int) (r : FitState W ℝ),
    Monitors name Mof Vof crit ev prev →
    fitRun es evalFirst ⟨ev, st, fired₀⟩ cands = .ok r →
    ∃ k, k ≤ cands.length ∧ r.fired = fired₀ ++ (cands.take k).map Prod.fst ∧ evalPeriod r.ev = evalPeriod ev ∧
      Monitors name Mof Vof crit r.ev (prev ++ evalPoints (evalPeriod ev) (cands.take k)) := by
  intro ev prev st fired₀ r hmon h
  unfold fitRun at h
  split at h
  · cases h
    exact ⟨0, by simp, by simp, rfl, by simpa [evalPoints] using hmon⟩
  · clear * - hmon h
    induction cands generalizing ev prev st fired₀ with
    | nil =>
      simp only [fitLoop, Except.ok.injEq] at h
      subst h
      exact ⟨0, by simp, by simp, rfl, by simpa [evalPoints] using hmon⟩
    | cons y rest ih =>
      obtain ⟨e, w⟩ := y
      obtain ⟨ev', hev', hper, hmon'⟩ := monitors_step hmon e w
      have hstep : ∀ s', epochEndBoth es evalFirst ⟨ev, st, fired₀⟩ e w = .ok s' → s'.ev = ev' ∧ s'.fired = fired₀ ++ [e] := by
        intro s' hs'
        unfold epochEndBoth at hs'
        cases evalFirst with
        | true =>
          simp only [if_true, hev'] at hs'
          split at hs'
          · cases hs'
          · cases hs'; exact ⟨rfl, rfl⟩
        | false =>
          simp only [Bool.false_eq_true, if_false] at hs'
          split at hs'
          · cases hs'
          · simp only [hev'] at hs'
            cases hs'; exact ⟨rfl, rfl⟩
      unfold fitLoop at h
      split at h
      · cases h
      · rename_i s' hs'
        obtain ⟨h1, h2⟩ := hstep s' hs'
        split at h
        · cases h
          refine ⟨1, by simp, by simp [h2], by rw [h1, hper], ?_⟩
          rw [h1]; simpa using hmon'
        · obtain ⟨ev2, st2, f2⟩ := s'
          simp only at h1 h2
          subst h1 h2
          obtain ⟨k, hk, hf, hp, hm⟩ := ih _ (prev ++ evalPoints (evalPeriod ev) [(e, w)]) st2 _ hmon' h
          refine ⟨k + 1, by simp [hk], by simp [hf], by rw [hp, hper], ?_⟩
          rw [hper] at hm
          have : evalPoints (evalPeriod ev) (List.take (k + 1) ((e, w) :: rest))
              = evalPoints (evalPeriod ev) [(e, w)] ++ evalPoints (evalPeriod ev) (rest.take k) := by
            rw [List.take_succ_cons, ← evalPoints_append]; rfl
          rw [this, ← List.append_assoc]
          exact hm

/-- **C18 sessions: `clear_history()` between two calls.** The evaluator is in good order with the EMPTY history: the next call
needs `p + 1` new evaluations before it may stop (`C18_needs_history`), whatever stale `last_epoch` the stopper holds. -/
theorem C18_clear_history_monitors {name : String} {Mof Vof : W → Num ℝ} {crit : Criterion} {ev : AnyEval W ℝ}
    {prev : List (Int × W)} (h : Monitors name Mof Vof crit ev prev) :
    Monitors name Mof Vof crit ev.clearHistory [] ∧ evalPeriod ev.clearHistory = evalPeriod ev := by
  cases ev with
  | metric c s =>
    obtain ⟨hp, hnd, hep, hf, hc, _⟩ := h
    exact ⟨⟨hp, hnd, hep, hf, hc, by simp [EvalState.clearHistory, recordsOf]⟩, rfl⟩
  | observable c s =>
    obtain ⟨hp, hwf, hst, _⟩ := h
    exact ⟨⟨hp, hwf, hst, by simp [EvalState.clearHistory, recordsOf]⟩, rfl⟩

/-- a `fit` call entered with the stop flag still set does nothing (by construction of the model: `fitRun` tests the flag first,
neural_state.py:558-559; tied to the code by the session cases that do not reset the flag — the session ends there) -/
theorem C18_fit_entered_stopped {α : Type} [Sub α] [Div α] [Zero α] [BEq α] [LT α] [DecidableLT α] [Transc α]
    (es : EarlyStopping α) (evalFirst : Bool) (ev : AnyEval W α) (last : Option Int) (fired : List Int) (cands : List (Int × W)) :
    fitRun es evalFirst ⟨ev, ⟨true, last⟩, fired⟩ cands = .ok ⟨ev, ⟨true, last⟩, fired⟩ := by
  simp [fitRun]

/-! ### the early-stopping loop IS the event protocol of C12 run with the derived stop requests

`QV.Cb.fitLoop` / `fitRun` (QV/Model/EarlyStop.lean) compute the stop requests from the evaluation history;
`QV.Train.fit` (QV/Model/Train.lean, property C12) takes them as a fixed oracle `Req`.  `QV.Cb.stopperReq`
(QV/Model/EarlyStopFit.lean) is the oracle DERIVED from the evaluator, the stopper and the world tokens.  The theorems below
show that `Train.fit` run with it traverses exactly the epochs `fitRun` fires, ends with the same flag, and that the hypotheses
of C12's stop theorems (`QuietBefore`, `QuietUpto`, a request at `on_epoch_end`) hold for it — so `C12_protocol`,
`C12_stop_at_epoch_end`, `C12_complete_without_stop`, `C12_sticky`, `C12_no_event_after_stop`, … apply verbatim to
early-stopped runs.  Generic in the scalar type (no `ℝ`-specific hypothesis): all sizes, periods, patience, values. -/

section tie
variable {α : Type} [Sub α] [Div α] [Zero α] [BEq α] [LT α] [DecidableLT α] [Transc α]

theorem fullEpochs_epochEnds (nb : Nat) (a b : Int) :
    (C12.fullEpochs nb a b).filterMap C12.epochEndOf = Train.epochRange a b := by
  unfold C12.fullEpochs
  induction Train.epochRange a b with
  | nil => rfl
  | cons e es ih =>
    have h1 := C12.pairs_filterMap_none C12.epochEndOf e nb (fun _ => rfl) (fun _ => rfl)
    have b1 : (C12.epochBlock e nb).filterMap C12.epochEndOf = [e] := by
      simp [C12.epochBlock, List.filterMap_cons, List.filterMap_append, h1, C12.epochEndOf]
    rw [List.flatMap_cons, List.filterMap_append, b1, ih]; rfl

/-- **C18 ↔ C12: the derived requests.** For the request oracle derived from evaluator + stopper (any callback list that
contains the stopper; the other callbacks never ask): nobody asks at train-start, epoch-start, batch-start, inside a batch,
at batch-end or at train-end; at `on_epoch_end(e)` somebody asks iff `stopAsk … e`.  Hence, in C12's vocabulary: every
epoch is quiet up to any batch, epoch `e` is quiet iff the stopper does not ask at its end, and `QuietBefore e` iff it asks
at the end of no epoch `start ≤ e' < e`. -/
theorem C18_derived_requests (stId : Nat) (es : EarlyStopping α) (evalFirst : Bool) (ev₀ : AnyEval W α) (wof : Int → W)
    (c : Train.Cfg) (hst : stId ∈ c.cbs) :
    let R := stopperReq stId es evalFirst ev₀ wof c.start
    Train.reqEv c R .trainStart = false ∧ Train.reqEv c R .trainEnd = false ∧
    (∀ e, Train.reqEv c R (.epochEnd e) = stopAsk es evalFirst ev₀ wof c.start e) ∧
    (∀ e j, C12.QuietUpto c R e j) ∧
    (∀ e, C12.QuietEpoch c R e ↔ stopAsk es evalFirst ev₀ wof c.start e = false) ∧
    (∀ e, C12.QuietBefore c R e ↔ ∀ e', c.start ≤ e' → e' < e → stopAsk es evalFirst ev₀ wof c.start e' = false) := by
  intro R
  have hreq := stopperReq_reqEv stId es evalFirst ev₀ wof c hst
  have hts : Train.reqEv c R .trainStart = false := hreq .trainStart
  have hee : ∀ e, Train.reqEv c R (.epochEnd e) = stopAsk es evalFirst ev₀ wof c.start e := fun e => hreq (.epochEnd e)
  have hup : ∀ e j, C12.QuietUpto c R e j :=
    fun e j => ⟨hreq (.epochStart e), fun b _ => ⟨hreq (.batchStart e b), rfl, hreq (.batchEnd e b)⟩⟩
  have hqe : ∀ e, C12.QuietEpoch c R e ↔ stopAsk es evalFirst ev₀ wof c.start e = false := by
    intro e
    unfold C12.QuietEpoch
    rw [hee e]
    exact ⟨fun h => h.2, fun h => ⟨hup e _, h⟩⟩
  refine ⟨hts, hreq .trainEnd, hee, hup, hqe, fun e => ?_⟩
  unfold C12.QuietBefore
  constructor
  · intro h e' h1 h2
    exact (hqe e').mp (h.2 e' h1 h2)
  · intro h
    exact ⟨hts, fun e' h1 h2 => (hqe e').mpr (h e' h1 h2)⟩

/-- **C18 ↔ C12: the two cases of a run.** `fit(starting_epoch = c.start, epochs = c.epochs)` of QV.Model.EarlyStop (callback list
`[evaluator, stopper]` or `[stopper, evaluator]`, the evaluator holding `ev₀` on entry, any `last_epoch` / fired log so far) that
returns `r`, and `Train.fit` with the derived requests `R`, ANY number of batches (also 0), any other callbacks / timer /
scheduler in `c`:
* either the run stopped: at an epoch `e` of the range; `R` satisfies exactly the hypotheses of `C12_stop_at_epoch_end` at `e`
  (`QuietBefore`, `QuietUpto`, a request at `on_epoch_end(e)`); the epochs EarlyStop fired are `start … e`; the C12 event trace
  is train-start, the epochs `start … e` in full, train-end; both flags are set, `last_epoch = e`;
* or it did not: `R` is quiet before `epochs + 1` (the hypothesis of `C12_complete_without_stop`), all epochs fired, the C12
  trace is the complete one, both flags are clear, `last_epoch` is untouched. -/
theorem C18_fit_cases (stId : Nat) (es : EarlyStopping α) (evalFirst : Bool) (ev₀ : AnyEval W α) (wof : Int → W)
    (c : Train.Cfg) (hst : stId ∈ c.cbs) (last₀ : Option Int) (fired₀ : List Int) (r : FitState W α)
    (hrun : fitRun es evalFirst ⟨ev₀, ⟨false, last₀⟩, fired₀⟩
      ((Train.epochRange c.start c.epochs).map (fun e => (e, wof e))) = .ok r) :
    let R := stopperReq stId es evalFirst ev₀ wof c.start
    (∃ e, c.start ≤ e ∧ e ≤ c.epochs ∧
        C12.QuietBefore c R e ∧ C12.QuietUpto c R e c.numBatches ∧ Train.reqEv c R (.epochEnd e) = true ∧
        r.st = ⟨true, some e⟩ ∧ r.fired = fired₀ ++ Train.epochRange c.start e ∧
        Train.events (Train.fit c R false).1 =
          Train.Event.trainStart :: (C12.fullEpochs c.numBatches c.start e ++ [Train.Event.trainEnd]) ∧
        (Train.fit c R false).2.stop = true) ∨
    (C12.QuietBefore c R (c.epochs + 1) ∧
        r.st = ⟨false, last₀⟩ ∧ r.fired = fired₀ ++ Train.epochRange c.start c.epochs ∧
        Train.events (Train.fit c R false).1 =
          Train.Event.trainStart :: (C12.fullEpochs c.numBatches c.start c.epochs ++ [Train.Event.trainEnd]) ∧
        (Train.fit c R false).2.stop = false) := by
  intro R
  obtain ⟨hts, hte, hee, hup, hqe, hqb⟩ := C18_derived_requests stId es evalFirst ev₀ wof c hst
  simp only [fitRun, Bool.false_eq_true, if_false] at hrun
  have hev : evalAfter ev₀ wof (Train.epochRange c.start (c.start - 1)) = .ok ev₀ := by
    rw [Train.epochRange_rec, if_pos (by omega)]; rfl
  rcases fitLoop_stopAsk es evalFirst ev₀ wof c.start c.epochs _ c.start ev₀ last₀ fired₀ r rfl (Int.le_refl _) hev hrun with
    ⟨pre, e, post, hsplit, he, hpre, hrst, hrf, _⟩ | ⟨hnone, hrst, hrf, _⟩
  · obtain ⟨hp, h1, h2, _⟩ := epochRange_split c.epochs pre c.start e post hsplit
    have hq : C12.QuietBefore c R e := by
      refine (hqb e).mpr (fun e' g1 g2 => hpre e' ?_)
      rw [hp]; exact (Train.mem_epochRange _ _ _).mpr ⟨g1, by omega⟩
    have hr : Train.reqEv c R (.epochEnd e) = true := by rw [hee e]; exact he
    obtain ⟨t1, t2⟩ := C12.C12_stop_at_epoch_end c R e h1 h2 hq (hup e _) hr
    exact Or.inl ⟨e, h1, h2, hq, hup e _, hr, hrst, by rw [hrf, epochRange_split_snoc hsplit], t1, t2⟩
  · have hq : C12.QuietBefore c R (c.epochs + 1) := by
      refine (hqb _).mpr (fun e' g1 g2 => hnone e' ?_)
      exact (Train.mem_epochRange _ _ _).mpr ⟨g1, by omega⟩
    obtain ⟨t1, t2⟩ := C12.C12_complete_without_stop c R hq
    exact Or.inr ⟨hq, hrst, hrf, t1, by rw [t2]; exact hte⟩

/-- **C18 ↔ C12: the early-stopping loop is `Train.fit` with the derived requests.** Under the hypotheses of `C18_fit_cases`
(∀ starting epochs, last epochs — empty ranges included —, numbers of batches, periods, patience, tolerances, criteria, value
sequences, list orders, earlier histories; a run that returns): the epochs whose `on_epoch_end` EarlyStop's loop fired are
exactly the epochs of the C12 event trace — which is train-start, those epochs each with ALL its batches, train-end —, the
`on_epoch_end` events of that trace are that list, the final `stop_training` of both models agree, and the stopper's
`last_epoch` is the last epoch of the trace iff the flag is set (untouched otherwise). -/
theorem C18_fitLoop_is_C12_fit (stId : Nat) (es : EarlyStopping α) (evalFirst : Bool) (ev₀ : AnyEval W α) (wof : Int → W)
    (c : Train.Cfg) (hst : stId ∈ c.cbs) (last₀ : Option Int) (fired₀ : List Int) (r : FitState W α)
    (hrun : fitRun es evalFirst ⟨ev₀, ⟨false, last₀⟩, fired₀⟩
      ((Train.epochRange c.start c.epochs).map (fun e => (e, wof e))) = .ok r) :
    let R := stopperReq stId es evalFirst ev₀ wof c.start
    ∃ run, r.fired = fired₀ ++ run ∧
      Train.events (Train.fit c R false).1 =
        Train.Event.trainStart :: (run.flatMap (fun e => C12.epochBlock e c.numBatches) ++ [Train.Event.trainEnd]) ∧
      (Train.events (Train.fit c R false).1).filterMap C12.epochEndOf = run ∧
      (Train.fit c R false).2.stop = r.st.stop ∧
      r.st.lastEpoch = (if r.st.stop then run.getLast? else last₀) ∧
      (r.st.stop = true → run ≠ []) := by
  intro R
  have hfm : ∀ b, (Train.Event.trainStart :: (C12.fullEpochs c.numBatches c.start b ++ [Train.Event.trainEnd])).filterMap
      C12.epochEndOf = Train.epochRange c.start b := by
    intro b
    rw [List.filterMap_cons, List.filterMap_append, fullEpochs_epochEnds]
    simp [C12.epochEndOf]
  rcases C18_fit_cases stId es evalFirst ev₀ wof c hst last₀ fired₀ r hrun with
    ⟨e, h1, _, _, _, _, hrst, hrf, t1, t2⟩ | ⟨_, hrst, hrf, t1, t2⟩
  · refine ⟨Train.epochRange c.start e, hrf, t1, by rw [t1]; exact hfm e, by rw [t2, hrst], ?_, ?_⟩
    · rw [hrst, Train.epochRange_snoc c.start e h1]; simp
    · intro _
      rw [Train.epochRange_snoc c.start e h1]; simp
  · refine ⟨Train.epochRange c.start c.epochs, hrf, t1, by rw [t1]; exact hfm _, by rw [t2, hrst], ?_, ?_⟩
    · rw [hrst]; simp
    · rw [hrst]; simp

/-- **C18 ↔ C12 with several stop sources.** One `fit(starting_epoch = c.start, epochs = c.epochs)` with the callback list
`before ++ [evaluator] ++ after` of QV.Model.EarlyStop (`fitRunMulti`; sources = stoppers of any configuration and callbacks
requesting a stop at given epoch-ends, each with any `last_epoch` so far) that returns `r`, and `Train.fit` with ANY request
oracle `R` that asks exactly as the sources do — at `on_epoch_end(e)` iff `multiAsk … e` (some source before the evaluator asks
on the history without this epoch's evaluation, or some source after it asks with it), never at another event or inside a batch
(`multiReq`, `C18_multiReq_derived`, is such an oracle): either the run stopped at an epoch `e` of the range, `R` satisfies the
hypotheses of `C12_stop_at_epoch_end` at `e`, the fired epochs are `start … e` and the C12 trace is train-start, `start … e`
in full, train-end, both flags set; or nobody asked: `R` is quiet, complete trace, both flags clear. -/
theorem C18_fit_cases_multi (before after : List (StopSrc α × Option Int)) (ev₀ : AnyEval W α) (wof : Int → W)
    (c : Train.Cfg) (R : Train.Req) (fired₀ : List Int) (r : MultiState W α)
    (hee : ∀ e, Train.reqEv c R (.epochEnd e) =
      multiAsk (before.map Prod.fst) (after.map Prod.fst) ev₀ wof c.start e)
    (hother : Train.reqEv c R .trainStart = false ∧ Train.reqEv c R .trainEnd = false ∧
      (∀ e, Train.reqEv c R (.epochStart e) = false) ∧
      (∀ e b, Train.reqEv c R (.batchStart e b) = false ∧ R.mid e b = false ∧ Train.reqEv c R (.batchEnd e b) = false))
    (hrun : fitRunMulti ⟨ev₀, before, after, false, fired₀⟩
      ((Train.epochRange c.start c.epochs).map (fun e => (e, wof e))) = .ok r) :
    (∃ e, c.start ≤ e ∧ e ≤ c.epochs ∧
        C12.QuietBefore c R e ∧ C12.QuietUpto c R e c.numBatches ∧ Train.reqEv c R (.epochEnd e) = true ∧
        r.stop = true ∧ r.fired = fired₀ ++ Train.epochRange c.start e ∧
        Train.events (Train.fit c R false).1 =
          Train.Event.trainStart :: (C12.fullEpochs c.numBatches c.start e ++ [Train.Event.trainEnd]) ∧
        (Train.fit c R false).2.stop = true) ∨
    (C12.QuietBefore c R (c.epochs + 1) ∧
        r.stop = false ∧ r.fired = fired₀ ++ Train.epochRange c.start c.epochs ∧
        Train.events (Train.fit c R false).1 =
          Train.Event.trainStart :: (C12.fullEpochs c.numBatches c.start c.epochs ++ [Train.Event.trainEnd]) ∧
        (Train.fit c R false).2.stop = false) := by
  obtain ⟨hts, hte, hes, hb⟩ := hother
  have hup : ∀ e j, C12.QuietUpto c R e j := fun e j => ⟨hes e, fun b _ => hb e b⟩
  have hqb : ∀ e, (∀ e', c.start ≤ e' → e' < e →
      multiAsk (before.map Prod.fst) (after.map Prod.fst) ev₀ wof c.start e' = false) → C12.QuietBefore c R e :=
    fun e h => ⟨hts, fun e' h1 h2 => ⟨hup e' _, by rw [hee e']; exact h e' h1 h2⟩⟩
  simp only [fitRunMulti, Bool.false_eq_true, if_false] at hrun
  have hev : evalAfter ev₀ wof (Train.epochRange c.start (c.start - 1)) = .ok ev₀ := by
    rw [Train.epochRange_rec, if_pos (by omega)]; rfl
  rcases fitLoopMulti_ask (before.map Prod.fst) (after.map Prod.fst) ev₀ wof c.start c.epochs _ c.start
      ⟨ev₀, before, after, false, fired₀⟩ r rfl (Int.le_refl _) rfl rfl rfl hev hrun with
    ⟨pre, e, post, hsplit, he, hpre, hrs, hrf⟩ | ⟨hnone, hrs, hrf⟩
  · obtain ⟨hp, h1, h2, _⟩ := epochRange_split c.epochs pre c.start e post hsplit
    have hq : C12.QuietBefore c R e := by
      refine hqb e (fun e' g1 g2 => hpre e' ?_)
      rw [hp]; exact (Train.mem_epochRange _ _ _).mpr ⟨g1, by omega⟩
    have hr : Train.reqEv c R (.epochEnd e) = true := by rw [hee e]; exact he
    obtain ⟨t1, t2⟩ := C12.C12_stop_at_epoch_end c R e h1 h2 hq (hup e _) hr
    exact Or.inl ⟨e, h1, h2, hq, hup e _, hr, hrs, by rw [hrf, epochRange_split_snoc hsplit], t1, t2⟩
  · have hq : C12.QuietBefore c R (c.epochs + 1) := by
      refine hqb _ (fun e' g1 g2 => hnone e' ?_)
      exact (Train.mem_epochRange _ _ _).mpr ⟨g1, by omega⟩
    obtain ⟨t1, t2⟩ := C12.C12_complete_without_stop c R hq
    exact Or.inr ⟨hq, hrs, hrf, t1, by rw [t2]; exact hte⟩

/-- **C18 ↔ C12: the derived requests of several sources.** `multiReq` — callback identities = positions in the list
`before ++ [evaluator] ++ after`; a source before the evaluator asks on the history without this epoch's evaluation, one after
it with it, the evaluator never — is an oracle as `C18_fit_cases_multi` wants it: some callback asks at `on_epoch_end(e)` iff
`multiAsk … e`, nobody asks at any other event or inside a batch. -/
theorem C18_multiReq_derived (before after : List (StopSrc α)) (ev₀ : AnyEval W α) (wof : Int → W) (c : Train.Cfg)
    (hc : c.cbs = List.range (before.length + 1 + after.length)) :
    let R := multiReq before after ev₀ wof c.start
    (∀ e, Train.reqEv c R (.epochEnd e) = multiAsk before after ev₀ wof c.start e) ∧
    (Train.reqEv c R .trainStart = false ∧ Train.reqEv c R .trainEnd = false ∧
      (∀ e, Train.reqEv c R (.epochStart e) = false) ∧
      (∀ e b, Train.reqEv c R (.batchStart e b) = false ∧ R.mid e b = false ∧ Train.reqEv c R (.batchEnd e b) = false)) := by
  intro R
  have h := multiReq_reqEv ev₀ wof before after c hc
  exact ⟨fun e => h (.epochEnd e), h .trainStart, h .trainEnd, fun e => h (.epochStart e),
    fun e b => ⟨h (.batchStart e b), rfl, h (.batchEnd e b)⟩⟩

/-- **C18 ↔ C12: `fitRunMulti` is `Train.fit` with the derived requests `multiReq`** (the instance of `C18_fit_cases_multi`
for the concrete oracle): the epochs fired by EarlyStop's loop with several stop sources are the epochs of the C12 trace, which
is train-start, those epochs in full, train-end; the final flags agree. -/
theorem C18_fitRunMulti_is_C12_fit (before after : List (StopSrc α × Option Int)) (ev₀ : AnyEval W α) (wof : Int → W)
    (c : Train.Cfg) (hc : c.cbs = List.range (before.length + 1 + after.length)) (fired₀ : List Int) (r : MultiState W α)
    (hrun : fitRunMulti ⟨ev₀, before, after, false, fired₀⟩
      ((Train.epochRange c.start c.epochs).map (fun e => (e, wof e))) = .ok r) :
    let R := multiReq (before.map Prod.fst) (after.map Prod.fst) ev₀ wof c.start
    ∃ run, r.fired = fired₀ ++ run ∧
      Train.events (Train.fit c R false).1 =
        Train.Event.trainStart :: (run.flatMap (fun e => C12.epochBlock e c.numBatches) ++ [Train.Event.trainEnd]) ∧
      (Train.fit c R false).2.stop = r.stop ∧
      (∃ last, run = Train.epochRange c.start last ∧ last ≤ c.epochs ∧ (r.stop = false → last = c.epochs)) := by
  intro R
  obtain ⟨hee, hother⟩ := C18_multiReq_derived (before.map Prod.fst) (after.map Prod.fst) ev₀ wof c (by simpa using hc)
  rcases C18_fit_cases_multi before after ev₀ wof c R fired₀ r hee hother hrun with
    ⟨e, _, h2, _, _, _, hrs, hrf, t1, t2⟩ | ⟨_, hrs, hrf, t1, t2⟩
  · exact ⟨_, hrf, t1, by rw [t2, hrs], e, rfl, h2, fun h => by rw [hrs] at h; simp at h⟩
  · exact ⟨_, hrf, t1, by rw [t2, hrs], c.epochs, rfl, Int.le_refl _, fun _ => rfl⟩

end tie

/-- **C18 stop trace.** The hypotheses of `C18_first_stop` (ℝ; any value sequence `wof`, patience `p ≥ 1`, periods ≥ 1, any
tolerance, either list order, an evaluator in good order with any earlier history `prev`), the run being
`fit(starting_epoch = c.start, epochs = c.epochs)` with `c.numBatches` batches per epoch and any further callbacks that do not
ask for a stop.  NO "the run returns" hypothesis.  With `R` the derived request oracle:
* either the documented rule first holds at a checked candidate `x` (`StopsAt`, no earlier candidate): then the C12 event trace
  is train-start, the epochs before `x` in full, epoch `x` in full, train-end — it ends `…, ee x, te` —, no epoch after `x`
  starts, the flag of `Train.fit` is set, and `R` satisfies the hypotheses of `C12_stop_at_epoch_end` at `x`;
* or it holds at no candidate: the trace is the complete one, the flag clear, `R` is quiet (`C12_complete_without_stop`). -/
theorem C18_stop_trace (es : EarlyStopping ℝ) (p : ℕ) (hp1 : 1 ≤ p) (hp : es.patience = (p : Int))
    (hps : 1 ≤ es.period) (evalFirst : Bool) {Mof Vof : W → Num ℝ} (wof : Int → W) (c : Train.Cfg) (stId : Nat)
    (hst : stId ∈ c.cbs) (ev₀ : AnyEval W ℝ) (prev : List (Int × W))
    (hmon : Monitors es.quantityName Mof Vof es.criterion ev₀ prev) :
    let cands := (Train.epochRange c.start c.epochs).map (fun e => (e, wof e))
    let R := stopperReq stId es evalFirst ev₀ wof c.start
    (∃ pre x post, cands = pre ++ x :: post ∧ c.start ≤ x.1 ∧ x.1 ≤ c.epochs ∧
        StopsAt es p evalFirst (evalPeriod ev₀) Mof Vof prev pre x ∧
        (∀ pre' x' post', cands = pre' ++ x' :: post' → pre'.length < pre.length →
          ¬ StopsAt es p evalFirst (evalPeriod ev₀) Mof Vof prev pre' x') ∧
        C12.QuietBefore c R x.1 ∧ C12.QuietUpto c R x.1 c.numBatches ∧ Train.reqEv c R (.epochEnd x.1) = true ∧
        Train.events (Train.fit c R false).1 =
          Train.Event.trainStart :: (C12.fullEpochs c.numBatches c.start (x.1 - 1) ++ C12.epochBlock x.1 c.numBatches
            ++ [Train.Event.trainEnd]) ∧
        (∀ e', x.1 < e' → Train.Event.epochStart e' ∉ Train.events (Train.fit c R false).1) ∧
        (Train.fit c R false).2.stop = true) ∨
    ((∀ pre x post, cands = pre ++ x :: post → ¬ StopsAt es p evalFirst (evalPeriod ev₀) Mof Vof prev pre x) ∧
        C12.QuietBefore c R (c.epochs + 1) ∧
        Train.events (Train.fit c R false).1 =
          Train.Event.trainStart :: (C12.fullEpochs c.numBatches c.start c.epochs ++ [Train.Event.trainEnd]) ∧
        (Train.fit c R false).2.stop = false) := by
  intro cands R
  obtain ⟨r, hrun, hcases⟩ := C18_first_stop es p hp1 hp hps evalFirst cands ev₀ prev none [] hmon
  have hstarts : ∀ (b e' : Int), Train.Event.epochStart e' ∈
      Train.Event.trainStart :: (C12.fullEpochs c.numBatches c.start b ++ [Train.Event.trainEnd]) → e' ≤ b := by
    intro b e' hmem
    have h2 : e' ∈ (Train.Event.trainStart :: (C12.fullEpochs c.numBatches c.start b ++ [Train.Event.trainEnd])).filterMap
        C12.epochStartOf := List.mem_filterMap.mpr ⟨_, hmem, rfl⟩
    rw [List.filterMap_cons, List.filterMap_append, ← C12.fullEpochs_start_end, fullEpochs_epochEnds] at h2
    simp only [C12.epochStartOf, List.filterMap_cons, List.filterMap_nil, List.append_nil] at h2
    exact ((Train.mem_epochRange _ _ _).mp h2).2
  rcases C18_fit_cases stId es evalFirst ev₀ wof c hst none [] r hrun with
    ⟨e, h1, h2, hq, hu, hr, hrst, _, t1, t2⟩ | ⟨hq, hrst, _, t1, t2⟩
  · rcases hcases with ⟨pre, x, post, hsplit, hsa, hearlier, hrst', _⟩ | ⟨_, hrst', _⟩
    · have hxe : x.1 = e := by
        rw [hrst] at hrst'
        simpa using hrst'.symm
      subst hxe
      refine Or.inl ⟨pre, x, post, hsplit, by omega, by omega, hsa, hearlier, hq, hu, hr, ?_, ?_, t2⟩
      · rw [t1, C12.fullEpochs_snoc c.numBatches c.start _ h1]
      · intro e' hlt hmem
        rw [t1] at hmem
        have := hstarts _ e' hmem
        omega
    · rw [hrst] at hrst'; simp at hrst'
  · rcases hcases with ⟨_, _, _, _, _, _, hrst', _⟩ | ⟨hnone, _, _⟩
    · rw [hrst] at hrst'; simp at hrst'
    · exact Or.inr ⟨hnone, hq, t1, t2⟩

/-- an `on_epoch_start e'` in the trace train-start, epochs `start … b` in full, train-end has `e' ≤ b` -/
theorem epochStart_mem_le (nb : Nat) (a b e' : Int) (hmem : Train.Event.epochStart e' ∈
    Train.Event.trainStart :: (C12.fullEpochs nb a b ++ [Train.Event.trainEnd])) : e' ≤ b := by
  have h2 : e' ∈ (Train.Event.trainStart :: (C12.fullEpochs nb a b ++ [Train.Event.trainEnd])).filterMap
      C12.epochStartOf := List.mem_filterMap.mpr ⟨_, hmem, rfl⟩
  rw [List.filterMap_cons, List.filterMap_append, ← C12.fullEpochs_start_end, fullEpochs_epochEnds] at h2
  simp only [C12.epochStartOf, List.filterMap_cons, List.filterMap_nil, List.append_nil] at h2
  exact ((Train.mem_epochRange _ _ _).mp h2).2

/-- **C18 stop trace with several stop sources.** The hypotheses of `C18_first_stop_multi` (ℝ; callback list
`before ++ [evaluator] ++ after`, ANY stoppers — own criterion, patience `≥ 0`, period `≥ 1`, tolerance, quantity — and requesting
callbacks, each with any `last_epoch`; an evaluator in good order with any earlier history `prev`; any value sequence `wof`), the
run being `fit(starting_epoch = c.start, epochs = c.epochs)` with `c.numBatches` batches per epoch, callback identities =
positions in the list.  NO "the run returns" hypothesis.  With `R := multiReq …` the derived request oracle:
* either SOME source's rule first holds at a candidate `x` (`AnyFires`, at no earlier candidate): then the C12 event trace of
  `Train.fit` is train-start, the epochs before `x` in full, epoch `x` in full, train-end — it ends `…, ee x, te` —, no epoch
  after `x` starts, the flag of `Train.fit` is set, and `R` satisfies the hypotheses of `C12_stop_at_epoch_end` at `x`;
* or no source ever fires: the trace is the complete one, the flag clear, `R` is quiet (`C12_complete_without_stop`). -/
theorem C18_stop_trace_multi (Mof Vof : String → W → Num ℝ) (before after : List (StopSrc ℝ × Option Int))
    (wof : Int → W) (c : Train.Cfg) (hc : c.cbs = List.range (before.length + 1 + after.length))
    (ev₀ : AnyEval W ℝ) (prev : List (Int × W))
    (hev : ∃ name crit, Monitors name (Mof name) (Vof name) crit ev₀ prev)
    (hok : ∀ p ∈ before ++ after, SrcOK Mof Vof ev₀ prev p.1) :
    let cands := (Train.epochRange c.start c.epochs).map (fun e => (e, wof e))
    let R := multiReq (before.map Prod.fst) (after.map Prod.fst) ev₀ wof c.start
    (∃ pre x post, cands = pre ++ x :: post ∧ c.start ≤ x.1 ∧ x.1 ≤ c.epochs ∧
        AnyFires Mof Vof (evalPeriod ev₀) before after prev pre x ∧
        (∀ pre' x' post', cands = pre' ++ x' :: post' → pre'.length < pre.length →
          ¬ AnyFires Mof Vof (evalPeriod ev₀) before after prev pre' x') ∧
        C12.QuietBefore c R x.1 ∧ C12.QuietUpto c R x.1 c.numBatches ∧ Train.reqEv c R (.epochEnd x.1) = true ∧
        Train.events (Train.fit c R false).1 =
          Train.Event.trainStart :: (C12.fullEpochs c.numBatches c.start (x.1 - 1) ++ C12.epochBlock x.1 c.numBatches
            ++ [Train.Event.trainEnd]) ∧
        (∀ e', x.1 < e' → Train.Event.epochStart e' ∉ Train.events (Train.fit c R false).1) ∧
        (Train.fit c R false).2.stop = true) ∨
    ((∀ pre x post, cands = pre ++ x :: post → ¬ AnyFires Mof Vof (evalPeriod ev₀) before after prev pre x) ∧
        C12.QuietBefore c R (c.epochs + 1) ∧
        Train.events (Train.fit c R false).1 =
          Train.Event.trainStart :: (C12.fullEpochs c.numBatches c.start c.epochs ++ [Train.Event.trainEnd]) ∧
        (Train.fit c R false).2.stop = false) := by
  intro cands R
  obtain ⟨r, hrun, hcases⟩ := C18_first_stop_multi Mof Vof before after cands ev₀ prev [] hev hok
  obtain ⟨hee, hother⟩ := C18_multiReq_derived (before.map Prod.fst) (after.map Prod.fst) ev₀ wof c (by simpa using hc)
  rcases C18_fit_cases_multi before after ev₀ wof c R [] r hee hother hrun with
    ⟨e, h1, h2, hq, hu, hr, hrs, hrf, t1, t2⟩ | ⟨hq, hrs, _, t1, t2⟩
  · rcases hcases with ⟨pre, x, post, hsplit, hsa, hearlier, _, hrf', _, _⟩ | ⟨_, hrs', _⟩
    · have hxe : x.1 = e := by
        rw [hrf, Train.epochRange_snoc c.start e h1] at hrf'
        have := congrArg List.getLast? hrf'
        simpa using this.symm
      subst hxe
      refine Or.inl ⟨pre, x, post, hsplit, by omega, by omega, hsa, hearlier, hq, hu, hr, ?_, ?_, t2⟩
      · rw [t1, C12.fullEpochs_snoc c.numBatches c.start _ h1]
      · intro e' hlt hmem
        rw [t1] at hmem
        have := epochStart_mem_le _ _ _ e' hmem
        omega
    · rw [hrs] at hrs'; simp at hrs'
  · rcases hcases with ⟨_, _, _, _, _, _, hrs', _⟩ | ⟨hnone, _, _⟩
    · rw [hrs] at hrs'; simp at hrs'
    · exact Or.inr ⟨hnone, hq, t1, t2⟩

/-! ### a whole session of consecutive `fit` calls -/

/-- one `fit` call of a session as the user makes it: `clear` = `evaluator.clear_history()` before it, `reset` =
`nn_state.stop_training = False` before it, then `fit(starting_epoch = cfg.start, epochs = cfg.epochs)` with `cfg.numBatches`
batches per epoch and the callback list `cfg.cbs`; `wof e` = the world token at the end of epoch `e` of THIS call -/
structure Call (W : Type) where
  clear : Bool
  reset : Bool
  cfg : Train.Cfg
  wof : Int → W

/-- the candidate epochs of the call with their world tokens -/
def Call.cands (k : Call W) : List (Int × W) := (Train.epochRange k.cfg.start k.cfg.epochs).map (fun e => (e, k.wof e))

/-- the call as a segment of `QV.Cb.sessionRun` -/
def Call.seg (k : Call W) : Segment W := ⟨k.clear, k.reset, k.cands⟩

/-- what ONE call `k` of a session does when entered with the flag CLEAR, the evaluator holding `ev` (evaluation points `prev`)
and the stopper's `last_epoch = last`, in terms of its result `r`: the conclusion of `C18_first_stop` (first checked epoch at
which the documented rule holds on `prev` plus this call's evaluations) and of `C18_fitLoop_is_C12_fit` (the C12 event trace of
`Train.fit` with the requests derived FROM `ev` is train-start, the fired epochs in full, train-end; flags agree). -/
def CallTrace (es : EarlyStopping ℝ) (p : ℕ) (evalFirst : Bool) (stId : Nat) (Mof Vof : W → Num ℝ) (k : Call W)
    (ev : AnyEval W ℝ) (prev : List (Int × W)) (last : Option Int) (r : FitState W ℝ) : Prop :=
  ((∃ pre x post, k.cands = pre ++ x :: post ∧ StopsAt es p evalFirst (evalPeriod ev) Mof Vof prev pre x ∧
      (∀ pre' x' post', k.cands = pre' ++ x' :: post' → pre'.length < pre.length →
        ¬ StopsAt es p evalFirst (evalPeriod ev) Mof Vof prev pre' x') ∧
      r.st = ⟨true, some x.1⟩ ∧ r.fired = (pre ++ [x]).map Prod.fst) ∨
   ((∀ pre x post, k.cands = pre ++ x :: post → ¬ StopsAt es p evalFirst (evalPeriod ev) Mof Vof prev pre x) ∧
      r.st = ⟨false, last⟩ ∧ r.fired = k.cands.map Prod.fst)) ∧
  (Train.events (Train.fit k.cfg (stopperReq stId es evalFirst ev k.wof k.cfg.start) false).1 =
      Train.Event.trainStart :: (r.fired.flatMap (fun e => C12.epochBlock e k.cfg.numBatches) ++ [Train.Event.trainEnd]) ∧
    (Train.events (Train.fit k.cfg (stopperReq stId es evalFirst ev k.wof k.cfg.start) false).1).filterMap C12.epochEndOf
      = r.fired ∧
    (Train.fit k.cfg (stopperReq stId es evalFirst ev k.wof k.cfg.start) false).2.stop = r.st.stop)

/-- the specification of a whole session, call by call: the session entered with the evaluator `ev` (evaluation points `prev`)
and the stopper state `st`; `rs` = the results of the calls.  For each call: `ev1` / `prev1` = the evaluator / its points after
the optional `clear_history()`;
* entered with the flag still set (no reset): the call changes nothing (`r` = the entry state, nothing fired) and `Train.fit`
  entered with the flag set emits the EMPTY trace;
* entered with the flag clear: `CallTrace` from the state LEFT BY THE PREVIOUS CALLS;
* in both cases the epochs that fired are a prefix `cands.take n` of the call's epochs, the evaluator is in good order with the
  points `prev1 ++` (the evaluation points among those epochs), and the REST of the session satisfies the specification from the
  evaluator, stop flag / `last_epoch` and points this call leaves. -/
def SessionTraces (es : EarlyStopping ℝ) (p : ℕ) (evalFirst : Bool) (stId : Nat) (Mof Vof : W → Num ℝ) :
    List (Call W) → List (FitState W ℝ) → AnyEval W ℝ → StopState → List (Int × W) → Prop
  | [], [], _, _, _ => True
  | k :: ks, r :: rs, ev, st, prev =>
    (((if k.reset then false else st.stop) = true →
        r = ⟨if k.clear then ev.clearHistory else ev, ⟨true, st.lastEpoch⟩, []⟩ ∧
        Train.events (Train.fit k.cfg (stopperReq stId es evalFirst (if k.clear then ev.clearHistory else ev) k.wof
          k.cfg.start) true).1 = []) ∧
      ((if k.reset then false else st.stop) = false →
        CallTrace es p evalFirst stId Mof Vof k (if k.clear then ev.clearHistory else ev) (if k.clear then [] else prev)
          st.lastEpoch r)) ∧
    ∃ n, n ≤ k.cands.length ∧ r.fired = (k.cands.take n).map Prod.fst ∧ evalPeriod r.ev = evalPeriod ev ∧
      Monitors es.quantityName Mof Vof es.criterion r.ev
        ((if k.clear then [] else prev) ++ evalPoints (evalPeriod ev) (k.cands.take n)) ∧
      SessionTraces es p evalFirst stId Mof Vof ks rs r.ev r.st
        ((if k.clear then [] else prev) ++ evalPoints (evalPeriod ev) (k.cands.take n))
  | _, _, _, _, _ => False

theorem sessionRun_cons {α : Type} [Sub α] [Div α] [Zero α] [BEq α] [LT α] [DecidableLT α] [Transc α]
    (es : EarlyStopping α) (evalFirst : Bool) (ev : AnyEval W α) (st : StopState) (seg : Segment W)
    (rest : List (Segment W)) (r : FitState W α) (rs : List (FitState W α))
    (h1 : fitRun es evalFirst ⟨if seg.clear then ev.clearHistory else ev,
      ⟨if seg.reset then false else st.stop, st.lastEpoch⟩, []⟩ seg.cands = .ok r)
    (h2 : sessionRun es evalFirst r.ev r.st rest = .ok rs) :
    sessionRun es evalFirst ev st (seg :: rest) = .ok (r :: rs) := by
  simp only [sessionRun, h1, h2]

/-- **C18 session traces.** A WHOLE SESSION of consecutive `fit` calls on the SAME evaluator and stopper objects
(`QV.Cb.sessionRun`): ANY list of calls — each with its own starting epoch, last epoch (empty ranges included), number of
batches, world tokens, further non-asking callbacks; each preceded or not by `evaluator.clear_history()` and / or by
`stop_training = False` —, any entry state of the session (flag set or clear, any `last_epoch`, an evaluator in good order with
any earlier evaluation points `prev`), patience `p ≥ 1`, periods `≥ 1`, any tolerance / criterion / values, either list order.
NO "the session returns" hypothesis: the session does not raise, and its results satisfy `SessionTraces`: by induction over the
calls, each call's C12 event trace is the one `C18_fit_cases` / `C18_fitLoop_is_C12_fit` give for the requests derived from
the evaluator state and `last_epoch` LEFT BY THE PREVIOUS CALLS, it stops at the first checked epoch at which the documented
rule holds on ALL evaluation points accumulated so far in the session (since the last `clear_history()`), and a call entered
with the flag still set emits the empty trace and changes nothing (so every later call without a reset does nothing either). -/
theorem C18_session_traces (es : EarlyStopping ℝ) (p : ℕ) (hp1 : 1 ≤ p) (hp : es.patience = (p : Int))
    (hps : 1 ≤ es.period) (evalFirst : Bool) (stId : Nat) {Mof Vof : W → Num ℝ} (calls : List (Call W)) :
    (∀ k ∈ calls, stId ∈ k.cfg.cbs) →
    ∀ (ev : AnyEval W ℝ) (st : StopState) (prev : List (Int × W)),
    Monitors es.quantityName Mof Vof es.criterion ev prev →
    ∃ rs, sessionRun es evalFirst ev st (calls.map Call.seg) = .ok rs ∧
      SessionTraces es p evalFirst stId Mof Vof calls rs ev st prev := by
  induction calls with
  | nil => intro _ ev st prev _; exact ⟨[], rfl, trivial⟩
  | cons k ks ih =>
    intro hst ev st prev hmon
    have hmon1 : Monitors es.quantityName Mof Vof es.criterion (if k.clear then ev.clearHistory else ev)
        (if k.clear then [] else prev) ∧ evalPeriod (if k.clear then ev.clearHistory else ev) = evalPeriod ev := by
      cases k.clear with
      | true => exact C18_clear_history_monitors hmon
      | false => exact ⟨hmon, rfl⟩
    obtain ⟨hm1, hper1⟩ := hmon1
    have hstk : stId ∈ k.cfg.cbs := hst k (by simp)
    have hstks : ∀ k' ∈ ks, stId ∈ k'.cfg.cbs := fun k' hk' => hst k' (by simp [hk'])
    cases hent : (if k.reset then false else st.stop) with
    | true =>
      have hrun : fitRun es evalFirst ⟨if k.seg.clear then ev.clearHistory else ev,
          ⟨if k.seg.reset then false else st.stop, st.lastEpoch⟩, []⟩ k.seg.cands
          = .ok ⟨if k.clear then ev.clearHistory else ev, ⟨true, st.lastEpoch⟩, []⟩ := by
        show fitRun es evalFirst ⟨if k.clear then ev.clearHistory else ev,
          ⟨if k.reset then false else st.stop, st.lastEpoch⟩, []⟩ k.cands = _
        rw [hent]
        exact C18_fit_entered_stopped es evalFirst _ _ _ _
      obtain ⟨rs, hrs, hspec⟩ := ih hstks (if k.clear then ev.clearHistory else ev) ⟨true, st.lastEpoch⟩
        (if k.clear then [] else prev) hm1
      refine ⟨_ :: rs, by rw [List.map_cons]; exact sessionRun_cons es evalFirst ev st k.seg _ _ rs hrun hrs, ?_⟩
      refine ⟨⟨fun _ => ⟨rfl, rfl⟩, fun h => by simp [hent] at h⟩, 0, Nat.zero_le _, by simp, hper1, ?_, ?_⟩
      · simpa [evalPoints] using hm1
      · simpa [evalPoints] using hspec
    | false =>
      obtain ⟨r, hr, hcases⟩ := C18_first_stop es p hp1 hp hps evalFirst k.cands (if k.clear then ev.clearHistory else ev)
        (if k.clear then [] else prev) st.lastEpoch [] hm1
      have hrun : fitRun es evalFirst ⟨if k.seg.clear then ev.clearHistory else ev,
          ⟨if k.seg.reset then false else st.stop, st.lastEpoch⟩, []⟩ k.seg.cands = .ok r := by
        show fitRun es evalFirst ⟨if k.clear then ev.clearHistory else ev,
          ⟨if k.reset then false else st.stop, st.lastEpoch⟩, []⟩ k.cands = _
        rw [hent]
        exact hr
      obtain ⟨n, hn, hfn, hpn, hmn⟩ := C18_fit_keeps_monitoring es evalFirst k.cands _ _ _ _ r hm1 hr
      obtain ⟨run, hrun1, t1, t2, t3, _, _⟩ := C18_fitLoop_is_C12_fit stId es evalFirst
        (if k.clear then ev.clearHistory else ev) k.wof k.cfg hstk st.lastEpoch [] r hr
      rw [hper1] at hmn
      obtain ⟨rs, hrs, hspec⟩ := ih hstks r.ev r.st _ hmn
      refine ⟨r :: rs, by rw [List.map_cons]; exact sessionRun_cons es evalFirst ev st k.seg _ r rs hrun hrs, ?_⟩
      refine ⟨⟨fun h => by simp [hent] at h, fun _ => ⟨?_, ?_⟩⟩, n, hn, by simpa using hfn, by rw [hpn, hper1], hmn, hspec⟩
      · simpa using hcases
      · simp only [List.nil_append] at hrun1
        subst hrun1
        exact ⟨t1, t2, t3⟩

/-! ### non-vacuity, the F7 regression witness and the (repaired) F8 witness -/

/-- a metric evaluator of period 1 tracking one scripted quantity "m" (value = function of the epoch) -/
def exEval (f : Int → Num ℝ) : AnyEval Int ℝ := .metric ⟨1, [("m", f)], false⟩ ⟨[], [], []⟩

/-- a stopper of period 1 and patience 1 on "m" -/
def exStopper (crit : Criterion) (tol : ℝ) : EarlyStopping ℝ := ⟨1, some tol, 1, "m", crit, .metric⟩

/-- the hypotheses of `C18_first_stop` are satisfiable: the example evaluator monitors "m" -/
example (f : Int → Num ℝ) : Monitors "m" f f .absolute (exEval f) [] := by
  refine ⟨by simp, by simp [MetricEvaluator.names, Dict.keys], by simp, by simp, by simp, rfl⟩

theorem exEval_step (f : Int → Num ℝ) (past : List (Int × Dict String (Num ℝ))) (last : Dict String (Num ℝ)) (e w : Int) :
    (AnyEval.metric ⟨1, [("m", f)], false⟩ ⟨past, last, []⟩ : AnyEval Int ℝ).onEpochEnd e w
      = .ok (.metric ⟨1, [("m", f)], false⟩ ⟨past ++ [(e, [("m", f w)])], [("m", f w)], []⟩) := by
  simp [AnyEval.onEpochEnd, MetricEvaluator.onEpochEnd, gate_pos, MetricEvaluator.evalAll, Except.map]

/-- the example evaluator after the evaluations `recs` -/
def exEvalAt (f : Int → Num ℝ) (recs : List (Int × ℝ)) : AnyEval Int ℝ :=
  .metric ⟨1, [("m", f)], false⟩
    ⟨recs.map (fun r => (r.1, [("m", ⟨.py, r.2⟩)])), (match recs.getLast? with | some r => [("m", ⟨.py, r.2⟩)] | none => []), []⟩

/-- scripted values 1, 5, 5, 5, … by epoch -/
def f15 : Int → Num ℝ := fun e => ⟨.py, if e = 1 then 1 else 5⟩

/-- **F7 regression witness** (`p = 1`, values `[1, 5, 5, …]`, tolerance `0.01`, absolute): the run does NOT stop at
the second evaluation (where the unfixed code compared 5 with itself) but at the third. -/
theorem exRun15 : (fitRun (exStopper .absolute 0.01) true ⟨exEval f15, ⟨false, none⟩, []⟩ [(1, 1), (2, 2), (3, 3), (4, 4)]).map
        (fun r => (r.st, r.fired)) = .ok (⟨true, some 3⟩, [1, 2, 3]) := by
  have h1 : epochEndBoth (exStopper .absolute 0.01) true ⟨exEval f15, ⟨false, none⟩, []⟩ 1 1
      = .ok ⟨exEvalAt f15 [(1, 1)], ⟨false, none⟩, [1]⟩ := by
    simp [epochEndBoth, exEval, exEvalAt, exEval_step, f15, exStopper, EarlyStopping.onEpochEnd, gate_pos,
      AnyEval.len, EvalState.len]
  have h2 : epochEndBoth (exStopper .absolute 0.01) true ⟨exEvalAt f15 [(1, 1)], ⟨false, none⟩, [1]⟩ 2 2
      = .ok ⟨exEvalAt f15 [(1, 1), (2, 5)], ⟨false, none⟩, [1, 2]⟩ := by
    simp [epochEndBoth, exEvalAt, exEval_step, f15, exStopper, EarlyStopping.onEpochEnd, gate_pos,
      AnyEval.len, EvalState.len, EarlyStopping.deviation, EarlyStopping.absoluteChange,
      EarlyStopping.changeInMetric, AnyEval.value, EvalState.getValue, pyIndex, Dict.getItem, List.lookup,
      Num.sub, Num.abs, NumKind.join, belowTol]
    norm_num
  have h3 : epochEndBoth (exStopper .absolute 0.01) true ⟨exEvalAt f15 [(1, 1), (2, 5)], ⟨false, none⟩, [1, 2]⟩ 3 3
      = .ok ⟨exEvalAt f15 [(1, 1), (2, 5), (3, 5)], ⟨true, some 3⟩, [1, 2, 3]⟩ := by
    simp [epochEndBoth, exEvalAt, exEval_step, f15, exStopper, EarlyStopping.onEpochEnd, gate_pos,
      AnyEval.len, EvalState.len, EarlyStopping.deviation, EarlyStopping.absoluteChange,
      EarlyStopping.changeInMetric, AnyEval.value, EvalState.getValue, pyIndex, Dict.getItem, List.lookup,
      Num.sub, Num.abs, NumKind.join, belowTol]
    norm_num
  simp [fitRun, fitLoop, h1, h2, h3, Except.map]

/-- scripted Python-float values 0, 5, 5, 5, … by epoch -/
def f05 : Int → Num ℝ := fun e => ⟨.py, if e = 1 then 0 else 5⟩

/-- the hypotheses of the translator bridge `C18_gen_deviation_eq_model` are met by the example evaluator after two
evaluations — with a ZERO reference value, i.e. on the degenerate branch of the relative criterion -/
example : ∃ d, (exStopper .relative 0.01).deviation (exEvalAt f05 [(1, 0), (2, 5)]) = .ok d ∧
    devFl d = genDeviation (exStopper .relative 0.01) (exEvalAt f05 [(1, 0), (2, 5)]) :=
  C18_gen_deviation_eq_model _ _ ⟨.py, 0⟩ ⟨.py, 5⟩ ⟨.py, 0⟩
    (by simp [exEvalAt, exStopper, AnyEval.value, EvalState.getValue, pyIndex, Dict.getItem, List.lookup])
    (by simp [exEvalAt, exStopper, AnyEval.value, EvalState.getValue, pyIndex, Dict.getItem, List.lookup])
    (by simp [exStopper])

/-- … and of `C18_gen_on_epoch_end_eq_model` (period 1, tolerance 0.01, absolute criterion, values 1, 5) -/
example : ∃ r, (exStopper .absolute 0.01).onEpochEnd (exEvalAt f15 [(1, 1), (2, 5)]) ⟨false, none⟩ 2 = .ok r := by
  obtain ⟨d, hd, _⟩ := C18_gen_deviation_eq_model (exStopper .absolute 0.01) (exEvalAt f15 [(1, 1), (2, 5)])
    ⟨.py, 1⟩ ⟨.py, 5⟩ ⟨.py, 0⟩
    (by simp [exEvalAt, exStopper, AnyEval.value, EvalState.getValue, pyIndex, Dict.getItem, List.lookup])
    (by simp [exEvalAt, exStopper, AnyEval.value, EvalState.getValue, pyIndex, Dict.getItem, List.lookup])
    (by simp [exStopper])
  exact ⟨_, C18_gen_on_epoch_end_eq_model _ _ _ 2 0.01 d (by simp [exStopper]) (by simp [exStopper]) hd⟩

/-- scripted values 5, 5, 5, … -/
def f55 : Int → Num ℝ := fun _ => ⟨.py, 5⟩

/-- **length gate, CLOSED at `len = patience`** (patience 1, ONE evaluation, values constant so that the rule itself would
be met): model and translated `on_epoch_end` both leave `(False, None)` — through `C18_gen_on_epoch_end_gate_closed` and
through the unconditional `C18_gen_on_epoch_end_eq_model_total`.  A `≥` gate on either side breaks this example (the model
would read index `-2` of a one-element history: `IndexError`; the generated side would not be the entry state for all
deviations). -/
example : (exStopper .absolute 0.01).onEpochEnd (exEvalAt f55 [(1, 5)]) ⟨false, none⟩ 1 = .ok ⟨false, none⟩
    ∧ (∀ tol dAny : Gen.Fl ℝ, Gen.EarlyStopping.onEpochEnd 1 1 1 tol 1 dAny false none = (false, none)) := by
  have h := C18_gen_on_epoch_end_gate_closed (exStopper .absolute 0.01) (exEvalAt f55 [(1, 5)]) ⟨false, none⟩ 1
    (by simp [exStopper]) (Or.inr (by simp [exStopper, exEvalAt, AnyEval.len, EvalState.len]))
  refine ⟨h.1, fun tol dAny => ?_⟩
  simpa [exStopper, exEvalAt, AnyEval.len, EvalState.len] using h.2.2 tol dAny

/-- **length gate, OPEN at `len = patience + 1`** (patience 1, TWO evaluations 5, 5: `|5 − 5| = 0 < 0.01`): the model
stops (`(True, 2)`), and by the unconditional bridge that is the translated `on_epoch_end` on the translated deviation; the
translated function on `len = 2`, deviation `0` gives `(True, 2)` as well.  A gate `len > patience + 1` on either side breaks
this example. -/
example : (exStopper .absolute 0.01).onEpochEnd (exEvalAt f55 [(1, 5), (2, 5)]) ⟨false, none⟩ 2 = .ok ⟨true, some 2⟩
    ∧ Gen.EarlyStopping.onEpochEnd 2 1 1 (some (0.01 : ℝ)) 2
        (genDeviation (exStopper .absolute 0.01) (exEvalAt f55 [(1, 5), (2, 5)])) false none = (true, some 2)
    ∧ Gen.EarlyStopping.onEpochEnd 2 1 1 (some (0.01 : ℝ)) 2 (some 0) false none = (true, some 2) := by
  have hm : (exStopper .absolute 0.01).onEpochEnd (exEvalAt f55 [(1, 5), (2, 5)]) ⟨false, none⟩ 2 = .ok ⟨true, some 2⟩ := by
    simp [exStopper, exEvalAt, EarlyStopping.onEpochEnd, gate_pos, AnyEval.len, EvalState.len, EarlyStopping.deviation,
      EarlyStopping.absoluteChange, EarlyStopping.changeInMetric, AnyEval.value, EvalState.getValue, pyIndex, Dict.getItem,
      List.lookup, Num.sub, Num.abs, belowTol]
    norm_num
  have ht := C18_gen_on_epoch_end_eq_model_total (exStopper .absolute 0.01) (exEvalAt f55 [(1, 5), (2, 5)]) ⟨false, none⟩ 2 0.01
    (by simp [exStopper]) (by simp [exStopper])
  rw [hm] at ht
  have hlen : ((exEvalAt f55 [(1, 5), (2, 5)]).len : Int) = 2 := by simp [exEvalAt, AnyEval.len, EvalState.len]
  simp only [exStopper, hlen] at ht
  refine ⟨hm, ?_, ?_⟩
  · have h1 := congrArg StopState.stop ht
    have h2 := congrArg StopState.lastEpoch ht
    simp only at h1 h2
    exact Prod.ext h1.symm h2.symm
  · simp [Gen.EarlyStopping.onEpochEnd, Gen.flt]
    norm_num

/-- **F8 witness, repaired.** Criterion "relative", Python-float metric values, reference value exactly 0.0
(`M₀ = 0`, `M₁ = M₂ = 5`, patience 1, tolerance 0.01): the second epoch-end (reference 0: degenerate) neither raises —
before the F8 fix it raised `ZeroDivisionError` out of `fit` — nor stops; the third (`|5 − 5| / |5| = 0 < 0.01`) stops. -/
example : (fitRun (exStopper .relative 0.01) true
      ⟨exEval f05, ⟨false, none⟩, []⟩ [(1, 1), (2, 2), (3, 3), (4, 4)]).map
        (fun r => (r.st, r.fired)) = .ok (⟨true, some 3⟩, [1, 2, 3]) := by
  have h1 : epochEndBoth (exStopper .relative 0.01) true ⟨exEval f05, ⟨false, none⟩, []⟩ 1 1
      = .ok ⟨exEvalAt f05 [(1, 0)], ⟨false, none⟩, [1]⟩ := by
    simp [f05, epochEndBoth, exEval, exEvalAt, exEval_step, exStopper, EarlyStopping.onEpochEnd, gate_pos,
      AnyEval.len, EvalState.len]
  have h2 : epochEndBoth (exStopper .relative 0.01) true ⟨exEvalAt f05 [(1, 0)], ⟨false, none⟩, [1]⟩ 2 2
      = .ok ⟨exEvalAt f05 [(1, 0), (2, 5)], ⟨false, none⟩, [1, 2]⟩ := by
    simp [f05, epochEndBoth, exEvalAt, exEval_step, exStopper, EarlyStopping.onEpochEnd, gate_pos,
      AnyEval.len, EvalState.len, EarlyStopping.deviation, EarlyStopping.relativeChange,
      EarlyStopping.changeInMetric, AnyEval.value, EvalState.getValue, pyIndex, Dict.getItem, List.lookup,
      Num.sub, Num.npDivide, NumKind.join]
  have h3 : epochEndBoth (exStopper .relative 0.01) true ⟨exEvalAt f05 [(1, 0), (2, 5)], ⟨false, none⟩, [1, 2]⟩ 3 3
      = .ok ⟨exEvalAt f05 [(1, 0), (2, 5), (3, 5)], ⟨true, some 3⟩, [1, 2, 3]⟩ := by
    simp [f05, epochEndBoth, exEvalAt, exEval_step, exStopper, EarlyStopping.onEpochEnd, gate_pos,
      AnyEval.len, EvalState.len, EarlyStopping.deviation, EarlyStopping.relativeChange,
      EarlyStopping.changeInMetric, AnyEval.value, EvalState.getValue, pyIndex, Dict.getItem, List.lookup,
      Num.sub, Num.abs, Num.npDivide, NumKind.join, belowTol]
    norm_num
  simp [fitRun, fitLoop, h1, h2, h3, Except.map]

/-- a stopper of period 1 and patience 2 on "m" -/
def exStopper2 (crit : Criterion) (tol : ℝ) : EarlyStopping ℝ := ⟨1, some tol, 2, "m", crit, .metric⟩

/-- **Two stoppers in one fit (regression witness for a stopper that CLEARS the flag).** Values `1, 5, 5, 5`; callback list
`[evaluator, A, B]` with `A` = absolute, tolerance `0.01`, patience 1 and `B` = the same with patience 2, and a third
callback requesting nothing.  At epoch 3 `A`'s rule is met (`|5 − 5| < 0.01`) while `B`, dispatched after `A`, compares `1`
with `5` and is not converged: the run stops at epoch 3 all the same, `A.last_epoch = 3`, `B.last_epoch` stays `None`.
(With `stop_training = (deviation < tolerance)` in `B` the flag would be cleared again and the run would go on to epoch 4.) -/
example : (fitRunMulti ⟨exEval f15, [], [(.stopper (exStopper .absolute 0.01), none), (.stopper (exStopper2 .absolute 0.01), none),
        (.request [], none)], false, []⟩ [(1, 1), (2, 2), (3, 3), (4, 4)]).map
        (fun r => (r.stop, r.fired, r.after.map Prod.snd)) = .ok (true, [1, 2, 3], [some 3, none, none]) := by
  have h1 : epochEndMulti ⟨exEval f15, [], [(.stopper (exStopper .absolute 0.01), none), (.stopper (exStopper2 .absolute 0.01), none),
        (.request [], none)], false, []⟩ 1 1
      = .ok ⟨exEvalAt f15 [(1, 1)], [], [(.stopper (exStopper .absolute 0.01), none), (.stopper (exStopper2 .absolute 0.01), none),
        (.request [], none)], false, [1]⟩ := by
    simp [epochEndMulti, srcsEpochEnd, StopSrc.onEpochEnd, exEval, exEvalAt, exEval_step, f15, exStopper, exStopper2,
      EarlyStopping.onEpochEnd, gate_pos, AnyEval.len, EvalState.len]
  have h2 : epochEndMulti ⟨exEvalAt f15 [(1, 1)], [], [(.stopper (exStopper .absolute 0.01), none), (.stopper (exStopper2 .absolute 0.01), none),
        (.request [], none)], false, [1]⟩ 2 2
      = .ok ⟨exEvalAt f15 [(1, 1), (2, 5)], [], [(.stopper (exStopper .absolute 0.01), none), (.stopper (exStopper2 .absolute 0.01), none),
        (.request [], none)], false, [1, 2]⟩ := by
    simp [epochEndMulti, srcsEpochEnd, StopSrc.onEpochEnd, exEvalAt, exEval_step, f15, exStopper, exStopper2,
      EarlyStopping.onEpochEnd, gate_pos,
      AnyEval.len, EvalState.len, EarlyStopping.deviation, EarlyStopping.absoluteChange,
      EarlyStopping.changeInMetric, AnyEval.value, EvalState.getValue, pyIndex, Dict.getItem, List.lookup,
      Num.sub, Num.abs, NumKind.join, belowTol]
    norm_num
  have h3 : epochEndMulti ⟨exEvalAt f15 [(1, 1), (2, 5)], [], [(.stopper (exStopper .absolute 0.01), none), (.stopper (exStopper2 .absolute 0.01), none),
        (.request [], none)], false, [1, 2]⟩ 3 3
      = .ok ⟨exEvalAt f15 [(1, 1), (2, 5), (3, 5)], [], [(.stopper (exStopper .absolute 0.01), some 3), (.stopper (exStopper2 .absolute 0.01), none),
        (.request [], none)], true, [1, 2, 3]⟩ := by
    simp [epochEndMulti, srcsEpochEnd, StopSrc.onEpochEnd, exEvalAt, exEval_step, f15, exStopper, exStopper2,
      EarlyStopping.onEpochEnd, gate_pos,
      AnyEval.len, EvalState.len, EarlyStopping.deviation, EarlyStopping.absoluteChange,
      EarlyStopping.changeInMetric, AnyEval.value, EvalState.getValue, pyIndex, Dict.getItem, List.lookup,
      Num.sub, Num.abs, NumKind.join, belowTol]
    norm_num
  simp [fitRunMulti, fitLoopMulti, h1, h2, h3, Except.map]

/-- the hypotheses of `C18_first_stop_multi` are satisfiable by that list: both stoppers are `SrcOK` for the example evaluator -/
example : ∀ p ∈ ([] : List (StopSrc ℝ × Option Int)) ++ [(.stopper (exStopper .absolute 0.01), none),
      (.stopper (exStopper2 .absolute 0.01), none), (.request [7], none)],
    SrcOK (fun _ => f15) (fun _ => f15) (exEval f15) [] p.1 := by
  have hm : Monitors "m" f15 f15 .absolute (exEval f15) [] :=
    ⟨by simp, by simp [MetricEvaluator.names, Dict.keys], by simp, by simp, by simp, rfl⟩
  intro p hp
  simp only [List.nil_append, List.mem_cons, List.not_mem_nil, or_false] at hp
  rcases hp with rfl | rfl | rfl
  · exact ⟨by simp [exStopper], by simp [exStopper], hm⟩
  · exact ⟨by simp [exStopper2], by simp [exStopper2], hm⟩
  · trivial

/-- Python's own `/` (still used for `abs(change) / np.sqrt(variance)`, whose divisor is a numpy scalar) raises
exactly for Python-float / Python-float zero; `np.divide` never raises; a zero divisor is never divided by -/
example (a : ℝ) : Num.div (⟨.py, a⟩ : Num ℝ) ⟨.py, 0⟩ = .error .ZeroDivisionError ∧
    Num.div (⟨.py, a⟩ : Num ℝ) ⟨.np, 0⟩ = .ok none ∧ Num.npDivide (⟨.py, a⟩ : Num ℝ) ⟨.py, 0⟩ = none := by
  simp [Num.div, Num.npDivide]

/-- degenerate histories exist and are exactly what `C18_degenerate_no_stop` is about: values `[0, 3]`, patience 1,
relative (the reference is the zero); variance `[0, …]` under the variance criterion -/
example : Degenerate .relative 1 [⟨0, 1⟩, ⟨3, 1⟩] ∧ Degenerate .variance 1 [⟨2, 0⟩, ⟨3, 1⟩] ∧
    ¬ Degenerate .relative 1 [⟨3, 0⟩, ⟨0, 0⟩] := by
  refine ⟨⟨1, ⟨0, 1⟩, rfl, le_refl 1, rfl, Or.inl ⟨rfl, rfl⟩⟩, ⟨1, ⟨2, 0⟩, rfl, le_refl 1, rfl, Or.inr ⟨rfl, le_refl 0⟩⟩, ?_⟩
  rintro ⟨t, ref, hl, _, hr, hcase⟩
  simp at hl
  subst hl
  simp at hr
  subst hr
  rcases hcase with ⟨_, hz⟩ | ⟨hc, _⟩
  · norm_num at hz
  · cases hc

/-- with tolerance `∞` the rule holds on a non-degenerate comparison and fails on a degenerate one -/
example : StopRule .relative 1 (tolSpec none) [⟨3, 0⟩, ⟨100, 0⟩] ∧ ¬ StopRule .relative 1 (tolSpec none) [⟨0, 1⟩, ⟨3, 1⟩] := by
  constructor
  · refine ⟨1, ⟨3, 0⟩, ⟨100, 0⟩, rfl, le_refl 1, rfl, rfl, ?_⟩
    simp [devSpec, tolSpec, WithTop.coe_lt_top]
  · rintro ⟨t, ref, cur, hl, _, hr, _, hlt⟩
    simp at hl
    subst hl
    simp at hr
    subst hr
    simp [devSpec, tolSpec] at hlt

/-- the criterion string is normalised before the table lookup: `"  Variance\n"` is refused for a metric evaluator -/
example : (EarlyStopping.new 1 (some (0 : ℝ)) (.int 2) .metric "m" "  Variance\n" : Except PyErr (EarlyStopping ℝ)) = .error .TypeError :=
  (C18_variance_refused 1 (some 0) 2 "m" "  Variance\n" (by decide) none).1

/-- an unknown criterion -/
example : (EarlyStopping.new 1 (some (0 : ℝ)) (.int 2) .observable "m" "rel" : Except PyErr (EarlyStopping ℝ)) = .error .ValueError :=
  (C18_unknown_criterion 1 (some 0) 2 "m" "rel" (by decide) (by decide) (by decide)).2.1

/-! ### the tie to C12 on the F7 witness -/

/-- the `fit` of the F7 witness as a C12 configuration: `starting_epoch = 1`, `epochs = 4`, 2 batches per epoch,
callback list `[evaluator (identity 0), stopper (identity 1)]`, no timer, no scheduler -/
def exCfg18 : Train.Cfg := ⟨1, 4, 2, [0, 1], false, false⟩

/-- the hypothesis "`fitRun` returns" of `C18_fit_cases` / `C18_fitLoop_is_C12_fit` holds on the F7 witness, and the
conclusion pins the C12 event trace of the run with the derived requests: epochs 1, 2, 3 in full (two batches each), then
train-end — epoch 4 never starts — and the stop flag of `Train.fit` is set. -/
example :
    Train.events (Train.fit exCfg18 (stopperReq 1 (exStopper .absolute 0.01) true (exEval f15) (fun e => e) 1) false).1
      = Train.Event.trainStart :: (C12.fullEpochs 2 1 3 ++ [Train.Event.trainEnd]) ∧
    (Train.fit exCfg18 (stopperReq 1 (exStopper .absolute 0.01) true (exEval f15) (fun e => e) 1) false).2.stop = true := by
  have hc : (Train.epochRange exCfg18.start exCfg18.epochs).map (fun e => (e, (fun e : Int => e) e))
      = [(1, 1), (2, 2), (3, 3), (4, 4)] := by decide
  obtain ⟨r, hr, hst⟩ : ∃ r, fitRun (exStopper .absolute 0.01) true ⟨exEval f15, ⟨false, none⟩, []⟩
      [(1, 1), (2, 2), (3, 3), (4, 4)] = .ok r ∧ r.st = ⟨true, some 3⟩ := by
    have h := exRun15
    cases hf : fitRun (exStopper .absolute 0.01) true ⟨exEval f15, ⟨false, none⟩, []⟩ [(1, 1), (2, 2), (3, 3), (4, 4)] with
    | error err => rw [hf] at h; simp [Except.map] at h
    | ok r =>
      rw [hf] at h
      simp only [Except.map, Except.ok.injEq, Prod.mk.injEq] at h
      exact ⟨r, rfl, h.1⟩
  rw [← hc] at hr
  rcases C18_fit_cases 1 (exStopper .absolute 0.01) true (exEval f15) (fun e => e) exCfg18 (by decide) none [] r hr with
    ⟨e, _, _, _, _, _, hrst, _, t1, t2⟩ | ⟨_, hrst, _⟩
  · have he : e = 3 := by rw [hst] at hrst; simpa using hrst.symm
    subst he
    exact ⟨t1, t2⟩
  · rw [hst] at hrst; simp at hrst

/-- the hypotheses of `C18_stop_trace` are met by the F7 witness (patience 1, period 1, the example evaluator, the stopper at
position 1 of the callback list) -/
example := C18_stop_trace (exStopper .absolute 0.01) 1 (Nat.le_refl 1) rfl (by simp [exStopper]) true (Mof := f15) (Vof := f15)
  (fun e => e) exCfg18 1 (by decide) (exEval f15) []
  ⟨by simp, by simp [MetricEvaluator.names, Dict.keys], by simp, by simp [exStopper], by simp [exStopper], rfl⟩

/-- the hypotheses of `C18_multiReq_derived` / `C18_fitRunMulti_is_C12_fit` are met by the callback list
`[evaluator, stopper (patience 1), stopper (patience 2), requester at epoch 2]` (identities = positions 0..3) -/
example := C18_multiReq_derived (α := ℝ) [] [.stopper (exStopper .absolute 0.01), .stopper (exStopper2 .absolute 0.01), .request [2]]
  (exEval f15) (fun e => e) ⟨1, 4, 2, [0, 1, 2, 3], false, false⟩ (by decide)

/-- the hypotheses of `C18_stop_trace_multi` are met by the callback list `[evaluator, stopper (patience 1), stopper (patience 2),
requester at epoch 7]` (identities = positions 0..3) on the F7 witness values, 2 batches per epoch, epochs 1..4 -/
example := C18_stop_trace_multi (fun _ => f15) (fun _ => f15) []
  [(.stopper (exStopper .absolute 0.01), none), (.stopper (exStopper2 .absolute 0.01), none), (.request [7], none)]
  (fun e => e) ⟨1, 4, 2, [0, 1, 2, 3], false, false⟩ (by decide) (exEval f15) []
  ⟨"m", .absolute, by simp, by simp [MetricEvaluator.names, Dict.keys], by simp, by simp, by simp, rfl⟩
  (by
    have hm : Monitors "m" f15 f15 .absolute (exEval f15) [] :=
      ⟨by simp, by simp [MetricEvaluator.names, Dict.keys], by simp, by simp, by simp, rfl⟩
    intro p hp
    simp only [List.nil_append, List.mem_cons, List.not_mem_nil, or_false] at hp
    rcases hp with rfl | rfl | rfl
    · exact ⟨by simp [exStopper], by simp [exStopper], hm⟩
    · exact ⟨by simp [exStopper2], by simp [exStopper2], hm⟩
    · trivial)

/-- the hypotheses of `C18_session_traces` are met by a session of four calls on the F7 witness objects: epochs 1..4 (stops at
3), a call WITHOUT reset (entered stopped: empty trace), a resumed call over epochs 5..6 with 3 batches, and a call over an
empty range after `clear_history()` — from a clear flag; and the same session entered with the flag already SET -/
example (st : StopState) := C18_session_traces (exStopper .absolute 0.01) 1 (Nat.le_refl 1) rfl (by simp [exStopper]) true 1
  (Mof := f15) (Vof := f15)
  [⟨false, false, exCfg18, fun e => e⟩, ⟨false, false, exCfg18, fun e => e⟩, ⟨false, true, ⟨5, 6, 3, [0, 1], false, false⟩, fun e => e⟩,
    ⟨true, true, ⟨3, 2, 2, [0, 1], false, false⟩, fun e => e⟩]
  (by simp [exCfg18]) (exEval f15) st []
  ⟨by simp, by simp [MetricEvaluator.names, Dict.keys], by simp, by simp [exStopper], by simp [exStopper], rfl⟩

/-- `SessionTraces` is not vacuous: for a one-call session entered with the flag set it pins the result (nothing fired, the
entry state) — and it is FALSE for a result list of the wrong length -/
example (r : FitState Int ℝ) (h : SessionTraces (exStopper .absolute 0.01) 1 true 1 f15 f15
    [⟨false, false, exCfg18, fun e => e⟩] [r] (exEval f15) ⟨true, some 9⟩ []) :
    r = ⟨exEval f15, ⟨true, some 9⟩, []⟩ ∧
    ¬ SessionTraces (exStopper .absolute 0.01) 1 true 1 f15 f15 [⟨false, false, exCfg18, fun e => e⟩] [] (exEval f15) ⟨true, some 9⟩ [] := by
  refine ⟨?_, fun h' => h'⟩
  have := (h.1.1 (by simp)).1
  simpa using this

end C18
end QV.Props
